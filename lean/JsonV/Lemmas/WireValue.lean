/-
Soundness of the value-path validator (Model/Validate.lean) w.r.t. the grammar `JValue`
(Spec/Grammar.lean): whatever `consumeValue` accepts is a value of the grammar instance selected by
the options (structure, literals, numbers, strings in the selected UTF-8 mode, nesting ≤
maxNestingDepth, and — unless duplicates are allowed — member names pairwise different after unescaping).
-/
import JsonV.Model.Validate
import JsonV.Spec.Grammar
import JsonV.Lemmas.WireBasic
import JsonV.Lemmas.WireNumberScan
import JsonV.Lemmas.WireString

namespace JsonV.Lemmas.WireValue
open JsonV JsonV.Model JsonV.Model.Wire JsonV.Model.Validate JsonV.Spec.Grammar
open JsonV.Lemmas.WireBasic JsonV.Lemmas.WireNumber JsonV.Lemmas.WireString

/-- the grammar options selected by the decoder options -/
def G (o : VOpts) : GOpts := ⟨!o.allowInvalidUTF8, o.allowDup⟩

/-- the text member names are compared by: the model of what `objectNamespace.insertQuoted` stores for the
quoted name `q` (unescaped by AppendUnquote, or the inner bytes when the scanner found it verbatim) -/
def nameKey (o : VOpts) (q : Bytes) : Bytes := unescapedName q (valueString o q).2.1

abbrev JV (o : VOpts) (d : Nat) (p : Bytes) : Prop := JValue (G o) maxNestingDepth (nameKey o) d p

theorem jws_nil : JWs [] := by intro c hc; simp at hc
theorem jws_append (a b : Bytes) (ha : JWs a) (hb : JWs b) : JWs (a ++ b) := by
  intro c hc; simp only [List.mem_append] at hc; rcases hc with h | h
  · exact ha c h
  · exact hb c h

theorem joinSep_cons_append (p x : Bytes) (l : List Bytes) : joinSep ((p ++ x) :: l) = p ++ joinSep (x :: l) := by
  cases l <;> simp [joinSep]

theorem joinSep_cons_ne (x : Bytes) (l : List Bytes) (hl : l ≠ []) : joinSep (x :: l) = x ++ [0x2C] ++ joinSep l := by
  cases l with
  | nil => exact absurd rfl hl
  | cons y r => simp [joinSep]

theorem take_cut (r : Bytes) (a : Nat) (c : UInt8) (rest : Bytes) (h : r.drop a = c :: rest) (m : Nat) :
    r.take (a + 1 + m) = r.take a ++ [c] ++ rest.take m := by
  have : a + 1 + m = a + (1 + m) := by omega
  rw [this, List.take_add, h]
  have : 1 + m = m + 1 := by omega
  rw [this, List.take_succ_cons]
  simp

theorem len_of_drop (r : Bytes) (a : Nat) (c : UInt8) (rest : Bytes) (h : r.drop a = c :: rest) :
    a + 1 + rest.length = r.length := by
  have := congrArg List.length h
  simp only [List.length_drop, List.length_cons] at this
  omega

/-! ### scalars -/

theorem valueLiteral_sound (lit r : Bytes) (n : Nat) (hl : lit ≠ []) (h : valueLiteral lit r = (n, .ok)) :
    n ≤ r.length ∧ r.take n = lit := by
  have key : ∀ n, n = lit.length → lit <+: r → n ≤ r.length ∧ r.take n = lit := by
    intro n hn hp
    subst hn
    exact ⟨hp.length_le, (List.prefix_iff_eq_take.1 hp).symm⟩
  unfold valueLiteral at h
  simp only at h
  split at h
  · rename_i hne
    simp only [Prod.mk.injEq, and_true] at h
    have hne' : consumeExact lit r ≠ 0 := by simpa using hne
    have hp := (exact_iff lit r hl).1 hne'
    rcases exact_val lit r with h0 | h0
    · exact absurd h0 hne'
    · exact key n (by omega) hp
  · have := (literal_ok_iff r lit n).1 h
    exact key n this.1 this.2

theorem valueString_sound (o : VOpts) (r : Bytes) (n : Nat) (fl : ValueFlags) (h : valueString o r = (n, fl, .ok)) :
    n ≤ r.length ∧ JString (!o.allowInvalidUTF8) (r.take n) := by
  unfold valueString at h
  simp only at h
  split at h
  · rename_i hne
    have hne' : consumeSimpleString r ≠ 0 := by simpa using hne
    simp only [Prod.mk.injEq, and_true] at h
    have := simple_string_sound' r (!o.allowInvalidUTF8) hne'
    rw [h.1] at this
    exact consumeString_sound r _ n _ this
  · exact consumeString_sound r _ n fl h

/-- scanning exactly the accepted string again gives the same answer (offset and flags): the scanners do not
look past the closing quote -/
theorem valueString_take (o : VOpts) (r : Bytes) (n : Nat) (fl : ValueFlags) (h : valueString o r = (n, fl, .ok)) :
    valueString o (r.take n) = (n, fl, .ok) := by
  obtain ⟨hn, body, hj, htake⟩ := valueString_sound o r n fl h
  have hr : r = 0x22 :: (body ++ 0x22 :: r.drop n) := by
    conv => lhs; rw [← List.take_append_drop n r, htake]
    simp
  have hlen : n = body.length + 2 := by
    have := congrArg List.length htake
    simp only [List.length_take, List.length_cons, List.length_append, List.length_nil] at this
    omega
  obtain ⟨f, hf⟩ := consumeString_of_body (!o.allowInvalidUTF8) body hj
  have htake' : r.take n = 0x22 :: (body ++ 0x22 :: []) := by rw [htake]
  rw [htake']
  rw [hr] at h
  unfold valueString at h ⊢
  simp only at h ⊢
  rw [simple_indep body (r.drop n)] at h
  have e1 : consumeStringResumable (0x22 :: (body ++ 0x22 :: r.drop n)) 0 (!o.allowInvalidUTF8) = (body.length + 2, f, .ok) := hf _
  have e2 : consumeStringResumable (0x22 :: (body ++ [0x22])) 0 (!o.allowInvalidUTF8) = (body.length + 2, f, .ok) := hf []
  rw [e1] at h
  rw [e2]
  exact h

theorem valueNumber_sound (r : Bytes) (n : Nat) (h : valueNumber r = (n, .ok)) : n ≤ r.length ∧ JNumber (r.take n) := by
  have key : ∀ n, consumeNumber r = (n, .ok) → n ≤ r.length ∧ JNumber (r.take n) := by
    intro n hn
    have hg := good_consumeNumber r
    rw [hn] at hg
    exact ⟨hg.1, (jnumber_iff_acc _).2 hg.2.1⟩
  unfold valueNumber at h
  simp only at h
  split at h
  · -- decoderState.consumeNumber
    unfold consumeNumberD at h
    rcases hr : consumeNumberResumable r 0 stInit with ⟨n', st', e⟩
    have hcn : consumeNumber r = (n', e) := by simp [consumeNumber, hr]
    simp only [hr] at h
    split at h
    · split at h
      · rename_i he
        have : e = .ok := by simpa using he
        subst this
        simp only [Prod.mk.injEq, and_true] at h
        subst h
        exact key _ hcn
      · simp at h
    · simp only [Prod.mk.injEq] at h
      obtain ⟨rfl, rfl⟩ := h
      exact key _ hcn
  · rename_i hs
    simp only [Prod.mk.injEq, and_true] at h
    have hne : consumeSimpleNumber r ≠ 0 := by
      intro h0; simp [h0] at hs
    have := simple_number_sound' r hne
    rw [h] at this
    exact key _ this

theorem normKind_obj : ∀ c : UInt8, (normKind c == 0x7B) = (c == 0x7B) := by apply forall_u8; decide +kernel
theorem normKind_arr : ∀ c : UInt8, (normKind c == 0x5B) = (c == 0x5B) := by apply forall_u8; decide +kernel

/-! ### containers: the induction on fuel -/

def elemBytes (e : Bytes × Bytes × Bytes) : Bytes := e.1 ++ e.2.1 ++ e.2.2

def PValue (o : VOpts) (fuel : Nat) : Prop :=
  ∀ d r n, d ≤ maxNestingDepth → consumeValue o fuel (d + 1) r = (n, .ok) → n ≤ r.length ∧ JV o d (r.take n)

def PArr (o : VOpts) (fuel : Nat) : Prop :=
  ∀ d r1 n, d ≤ maxNestingDepth → consumeArray o fuel (d + 1) (0x5B :: r1) = (n, .ok) →
    n ≤ r1.length + 1 ∧ JV o d ((0x5B :: r1).take n)

def PArrLoop (o : VOpts) (fuel : Nat) : Prop :=
  ∀ d r n, d + 1 ≤ maxNestingDepth → arrayLoop o fuel (d + 2) r = (n, .ok) →
    n ≤ r.length ∧ ∃ elems : List (Bytes × Bytes × Bytes), elems ≠ [] ∧ (∀ e ∈ elems, JWs e.1 ∧ JWs e.2.2) ∧
      (∀ e ∈ elems, JV o (d + 1) e.2.1) ∧ r.take n = joinSep (elems.map elemBytes) ++ [0x5D]

theorem drop3 (r : Bytes) (w k w4 : Nat) : r.drop (w + k + w4) = ((r.drop w).drop k).drop w4 := by
  simp [List.drop_drop]

theorem take3 (r : Bytes) (w k w4 : Nat) :
    r.take (w + k + w4) = r.take w ++ (r.drop w).take k ++ ((r.drop w).drop k).take w4 := by
  rw [List.take_add, List.take_add, List.drop_drop]

theorem arrLoop_step (o : VOpts) (fuel : Nat) (hv : PValue o fuel) (hl : PArrLoop o fuel) : PArrLoop o (fuel + 1) := by
  intro d r n hd h
  simp only [arrayLoop] at h
  split at h
  · simp at h
  · rename_i c1 rd0 hdrop
    rcases hcv : consumeValue o fuel (d + 2) (c1 :: rd0) with ⟨k, e⟩
    simp only [hcv] at h
    split at h
    · rename_i hne
      simp only [Prod.mk.injEq] at h
      rw [h.2] at hne; simp at hne
    · rename_i hne
      have he : e = .ok := by simpa using hne
      subst he
      obtain ⟨hk, hjv⟩ := hv (d + 1) (c1 :: rd0) k (by omega) hcv
      split at h
      · simp at h
      · rename_i c2 rf hdrop2
        have h3 : r.drop (consumeWhitespace r + k + consumeWhitespace ((c1 :: rd0).drop k)) = c2 :: rf := by
          rw [drop3, hdrop]; exact hdrop2
        have hlen := len_of_drop _ _ _ _ h3
        have e1ws : JWs (r.take (consumeWhitespace r)) ∧ JWs (((c1 :: rd0).drop k).take (consumeWhitespace ((c1 :: rd0).drop k))) :=
          ⟨ws_take r, ws_take _⟩
        have htk : r.take (consumeWhitespace r + k + consumeWhitespace ((c1 :: rd0).drop k)) =
            elemBytes (r.take (consumeWhitespace r), (c1 :: rd0).take k,
              ((c1 :: rd0).drop k).take (consumeWhitespace ((c1 :: rd0).drop k))) := by
          rw [take3, hdrop]; rfl
        split at h
        · rename_i hcomma
          have hc2 : c2 = 0x2C := by simpa using hcomma
          rcases hal : arrayLoop o fuel (d + 2) rf with ⟨n', e'⟩
          simp only [addOff, hal, Prod.mk.injEq] at h
          obtain ⟨rfl, rfl⟩ := h
          obtain ⟨hn', elems, hne', hws, hvals, htake⟩ := hl d rf n' hd hal
          refine ⟨by omega, (r.take (consumeWhitespace r), (c1 :: rd0).take k,
              ((c1 :: rd0).drop k).take (consumeWhitespace ((c1 :: rd0).drop k))) :: elems, by simp, ?_, ?_, ?_⟩
          · intro e he
            simp only [List.mem_cons] at he
            rcases he with rfl | he
            · exact e1ws
            · exact hws e he
          · intro e he
            simp only [List.mem_cons] at he
            rcases he with rfl | he
            · exact hjv
            · exact hvals e he
          · rw [take_cut _ _ _ _ h3, htk, htake, List.map_cons, joinSep_cons_ne _ _ (by simpa using hne'), hc2]
            simp [List.append_assoc]
        · split at h
          · rename_i hclose
            have hc2 : c2 = 0x5D := by simpa using hclose
            simp only [Prod.mk.injEq, and_true] at h
            subst h
            refine ⟨by omega, [(r.take (consumeWhitespace r), (c1 :: rd0).take k,
              ((c1 :: rd0).drop k).take (consumeWhitespace ((c1 :: rd0).drop k)))], by simp, ?_, ?_, ?_⟩
            · intro e he
              simp only [List.mem_singleton] at he
              subst he; exact e1ws
            · intro e he
              simp only [List.mem_singleton] at he
              subst he; exact hjv
            · have := take_cut _ _ _ _ h3 0
              simp only [Nat.add_zero, List.take_zero, List.append_nil] at this
              rw [this, htk, hc2]
              simp [joinSep]
          · simp at h

theorem arr_step (o : VOpts) (fuel : Nat) (hl : PArrLoop o fuel) : PArr o (fuel + 1) := by
  intro d r1 n hd h
  simp only [consumeArray] at h
  split at h
  · simp at h
  · rename_i hdepth
    have hd' : d + 1 ≤ maxNestingDepth := by
      have : ¬ (d + 1 = maxNestingDepth + 1) := by simpa using hdepth
      omega
    simp only [List.drop_succ_cons, List.drop_zero] at h
    split at h
    · simp at h
    · rename_i c rest hdrop
      have hlen := len_of_drop _ _ _ _ hdrop
      split at h
      · rename_i hclose
        have hc : c = 0x5D := by simpa using hclose
        simp only [Prod.mk.injEq, and_true] at h
        subst h
        refine ⟨by omega, ?_⟩
        have : (0x5B :: r1).take (1 + consumeWhitespace r1 + 1) = 0x5B :: (r1.take (consumeWhitespace r1) ++ [0x5D]) := by
          have h1 : 1 + consumeWhitespace r1 + 1 = (consumeWhitespace r1 + 1 + 0) + 1 := by omega
          rw [h1, List.take_succ_cons, take_cut _ _ _ _ hdrop 0, hc]
          simp
        rw [this]
        exact JValue.emptyArr d _ (by omega) (ws_take r1)
      · rcases hal : arrayLoop o fuel (d + 1 + 1) (c :: rest) with ⟨n', e'⟩
        simp only [addOff, hal, Prod.mk.injEq] at h
        obtain ⟨rfl, rfl⟩ := h
        obtain ⟨hn', elems, hne', hws, hvals, htake⟩ := hl d (c :: rest) n' hd' hal
        have hn'' : n' ≤ rest.length + 1 := by simpa using hn'
        refine ⟨by omega, ?_⟩
        cases elems with
        | nil => exact absurd rfl hne'
        | cons e0 es =>
          have : (0x5B :: r1).take (1 + consumeWhitespace r1 + n') =
              0x5B :: (joinSep (((r1.take (consumeWhitespace r1) ++ e0.1, e0.2.1, e0.2.2) :: es).map elemBytes) ++ [0x5D]) := by
            have h1 : 1 + consumeWhitespace r1 + n' = (consumeWhitespace r1 + n') + 1 := by omega
            rw [h1, List.take_succ_cons, List.take_add, hdrop, htake]
            simp only [List.map_cons]
            have : elemBytes (r1.take (consumeWhitespace r1) ++ e0.1, e0.2.1, e0.2.2) =
                r1.take (consumeWhitespace r1) ++ elemBytes e0 := by simp [elemBytes, List.append_assoc]
            rw [this, joinSep_cons_append]
            simp [List.append_assoc]
          rw [this]
          refine JValue.arr d _ (by omega) (by simp) ?_ ?_
          · intro e he
            simp only [List.mem_cons] at he
            rcases he with rfl | he
            · exact ⟨jws_append _ _ (ws_take r1) (hws e0 (by simp)).1, (hws e0 (by simp)).2⟩
            · exact hws e (by simp [he])
          · intro e he
            simp only [List.mem_cons] at he
            rcases he with rfl | he
            · exact hvals e0 (by simp)
            · exact hvals e (by simp [he])

/-! ### objects -/

abbrev Mem := Bytes × Bytes × Bytes × Bytes × Bytes × Bytes

def memBytes (m : Mem) : Bytes :=
  m.1 ++ m.2.1 ++ m.2.2.1 ++ [0x3A] ++ m.2.2.2.1 ++ m.2.2.2.2.1 ++ m.2.2.2.2.2

def PObj (o : VOpts) (fuel : Nat) : Prop :=
  ∀ d r1 n, d ≤ maxNestingDepth → consumeObject o fuel (d + 1) (0x7B :: r1) = (n, .ok) →
    n ≤ r1.length + 1 ∧ JV o d ((0x7B :: r1).take n)

def MemOk (o : VOpts) (m : Mem) : Prop :=
  JWs m.1 ∧ JString (G o).strict m.2.1 ∧ JWs m.2.2.1 ∧ JWs m.2.2.2.1 ∧ JWs m.2.2.2.2.2

def PObjLoop (o : VOpts) (fuel : Nat) : Prop :=
  ∀ d names r n, d + 1 ≤ maxNestingDepth → objectLoop o fuel (d + 2) names r = (n, .ok) →
    n ≤ r.length ∧ ∃ mems : List Mem, mems ≠ [] ∧ (∀ m ∈ mems, MemOk o m) ∧
      (∀ m ∈ mems, JV o (d + 1) m.2.2.2.2.1) ∧ r.take n = joinSep (mems.map memBytes) ++ [0x7D] ∧
      (o.allowDup = false → names.Nodup → (names ++ mems.map fun m => nameKey o m.2.1).Nodup)

theorem objLoop_step (o : VOpts) (fuel : Nat) (hv : PValue o fuel) (hl : PObjLoop o fuel) : PObjLoop o (fuel + 1) := by
  intro d names r n hd h
  simp only [objectLoop] at h
  split at h
  · simp at h
  · rename_i c0 ra0 hdrop
    rcases hvs : valueString o (c0 :: ra0) with ⟨nn, fl, e0⟩
    simp only [hvs] at h
    split at h
    · rename_i hne
      simp only [Prod.mk.injEq] at h
      rw [h.2] at hne; simp at hne
    rename_i hne0
    have he0 : e0 = .ok := by simpa using hne0
    subst he0
    obtain ⟨hnn, hstr⟩ := valueString_sound o _ nn fl hvs
    have hkey : nameKey o ((c0 :: ra0).take nn) = unescapedName ((c0 :: ra0).take nn) fl := by
      unfold nameKey; rw [valueString_take o _ nn fl hvs]
    split at h
    · simp at h
    rename_i hdup
    have hnotin : o.allowDup = false → (unescapedName ((c0 :: ra0).take nn) fl) ∉ names := by
      intro ha hmem
      apply hdup
      simp [ha, hmem]
    split at h
    · simp at h
    rename_i c rc hdrop2
    split at h
    · simp at h
    rename_i hcolon
    have hc : c = 0x3A := by simpa using hcolon
    subst hc
    split at h
    · simp at h
    rename_i c1 rd0 hdrop3
    rcases hcv : consumeValue o fuel (d + 2) (c1 :: rd0) with ⟨k, e⟩
    simp only [hcv] at h
    split at h
    · rename_i hne
      simp only [Prod.mk.injEq] at h
      rw [h.2] at hne; simp at hne
    rename_i hne
    have he : e = .ok := by simpa using hne
    subst he
    obtain ⟨hk, hjv⟩ := hv (d + 1) (c1 :: rd0) k (by omega) hcv
    split at h
    · simp at h
    rename_i c2 rf hdrop4
    -- positions
    have hA : r.drop (consumeWhitespace r + nn + consumeWhitespace ((c0 :: ra0).drop nn)) = 0x3A :: rc := by
      rw [drop3, hdrop]; exact hdrop2
    have hB : rc.drop (consumeWhitespace rc + k + consumeWhitespace ((c1 :: rd0).drop k)) = c2 :: rf := by
      rw [drop3, hdrop3]; exact hdrop4
    have hlenA := len_of_drop _ _ _ _ hA
    have hlenB := len_of_drop _ _ _ _ hB
    have htA : r.take (consumeWhitespace r + nn + consumeWhitespace ((c0 :: ra0).drop nn)) =
        r.take (consumeWhitespace r) ++ (c0 :: ra0).take nn ++
          ((c0 :: ra0).drop nn).take (consumeWhitespace ((c0 :: ra0).drop nn)) := by
      rw [take3, hdrop]
    have htB : rc.take (consumeWhitespace rc + k + consumeWhitespace ((c1 :: rd0).drop k)) =
        rc.take (consumeWhitespace rc) ++ (c1 :: rd0).take k ++
          ((c1 :: rd0).drop k).take (consumeWhitespace ((c1 :: rd0).drop k)) := by
      rw [take3, hdrop3]
    let m0 : Mem := (r.take (consumeWhitespace r), (c0 :: ra0).take nn,
      ((c0 :: ra0).drop nn).take (consumeWhitespace ((c0 :: ra0).drop nn)),
      rc.take (consumeWhitespace rc), (c1 :: rd0).take k,
      ((c1 :: rd0).drop k).take (consumeWhitespace ((c1 :: rd0).drop k)))
    have hm0 : MemOk o m0 := ⟨ws_take r, hstr, ws_take _, ws_take rc, ws_take _⟩
    -- everything up to (excluding) the byte c2
    have hcut : ∀ m, r.take (consumeWhitespace r + nn + consumeWhitespace ((c0 :: ra0).drop nn) + 1 +
          (consumeWhitespace rc + k + consumeWhitespace ((c1 :: rd0).drop k)) + 1 + m) =
        memBytes m0 ++ [c2] ++ rf.take m := by
      intro m
      have e1 : consumeWhitespace r + nn + consumeWhitespace ((c0 :: ra0).drop nn) + 1 +
          (consumeWhitespace rc + k + consumeWhitespace ((c1 :: rd0).drop k)) + 1 + m =
          consumeWhitespace r + nn + consumeWhitespace ((c0 :: ra0).drop nn) + 1 +
          ((consumeWhitespace rc + k + consumeWhitespace ((c1 :: rd0).drop k)) + 1 + m) := by omega
      rw [e1, take_cut _ _ _ _ hA, take_cut _ _ _ _ hB, htA, htB]
      simp [memBytes, m0, List.append_assoc]
    split at h
    · rename_i hcomma
      have hc2 : c2 = 0x2C := by simpa using hcomma
      rcases hal : objectLoop o fuel (d + 2)
        (if o.allowDup = true then names else names ++ [unescapedName ((c0 :: ra0).take nn) fl]) rf with ⟨n', e'⟩
      simp only [addOff, hal, Prod.mk.injEq] at h
      obtain ⟨rfl, rfl⟩ := h
      obtain ⟨hn', mems, hne', hok, hvals, htake, hnod⟩ := hl d _ rf n' hd hal
      refine ⟨by omega, m0 :: mems, by simp, ?_, ?_, ?_, ?_⟩
      · intro m hm
        simp only [List.mem_cons] at hm
        rcases hm with rfl | hm
        · exact hm0
        · exact hok m hm
      · intro m hm
        simp only [List.mem_cons] at hm
        rcases hm with rfl | hm
        · exact hjv
        · exact hvals m hm
      · have e2 : consumeWhitespace r + nn + consumeWhitespace ((c0 :: ra0).drop nn) + 1 + consumeWhitespace rc + k +
            consumeWhitespace ((c1 :: rd0).drop k) + 1 + n' =
            consumeWhitespace r + nn + consumeWhitespace ((c0 :: ra0).drop nn) + 1 +
            (consumeWhitespace rc + k + consumeWhitespace ((c1 :: rd0).drop k)) + 1 + n' := by omega
        rw [e2, hcut n', htake, List.map_cons, joinSep_cons_ne _ _ (by simpa using hne'), hc2]
        simp [List.append_assoc]
      · intro ha hn
        have hni := hnotin ha
        simp only [ha, Bool.false_eq_true, if_false] at hnod
        have := hnod trivial (by
          rw [List.nodup_append]
          exact ⟨hn, by simp, by intro a ha' b hb; simp at hb; subst hb; intro hab; subst hab; exact hni ha'⟩)
        simpa [m0, hkey, List.append_assoc] using this
    · split at h
      · rename_i hclose
        have hc2 : c2 = 0x7D := by simpa using hclose
        simp only [Prod.mk.injEq, and_true] at h
        subst h
        refine ⟨by omega, [m0], by simp, ?_, ?_, ?_, ?_⟩
        rotate_left 3
        · intro ha hn
          have hni := hnotin ha
          simp only [List.map_cons, List.map_nil, m0, hkey]
          rw [List.nodup_append]
          exact ⟨hn, by simp, by intro a ha' b hb; simp at hb; subst hb; intro hab; subst hab; exact hni ha'⟩
        · intro m hm
          simp only [List.mem_singleton] at hm
          subst hm; exact hm0
        · intro m hm
          simp only [List.mem_singleton] at hm
          subst hm; exact hjv
        · have e2 : consumeWhitespace r + nn + consumeWhitespace ((c0 :: ra0).drop nn) + 1 + consumeWhitespace rc + k +
              consumeWhitespace ((c1 :: rd0).drop k) + 1 =
              consumeWhitespace r + nn + consumeWhitespace ((c0 :: ra0).drop nn) + 1 +
              (consumeWhitespace rc + k + consumeWhitespace ((c1 :: rd0).drop k)) + 1 + 0 := by omega
          rw [e2, hcut 0, hc2]
          simp [joinSep]
      · simp at h

theorem obj_step (o : VOpts) (fuel : Nat) (hl : PObjLoop o fuel) : PObj o (fuel + 1) := by
  intro d r1 n hd h
  simp only [consumeObject] at h
  split at h
  · simp at h
  · rename_i hdepth
    have hd' : d + 1 ≤ maxNestingDepth := by
      have : ¬ (d + 1 = maxNestingDepth + 1) := by simpa using hdepth
      omega
    simp only [List.drop_succ_cons, List.drop_zero] at h
    split at h
    · simp at h
    · rename_i c rest hdrop
      have hlen := len_of_drop _ _ _ _ hdrop
      split at h
      · rename_i hclose
        have hc : c = 0x7D := by simpa using hclose
        simp only [Prod.mk.injEq, and_true] at h
        subst h
        refine ⟨by omega, ?_⟩
        have : (0x7B :: r1).take (1 + consumeWhitespace r1 + 1) = 0x7B :: (r1.take (consumeWhitespace r1) ++ [0x7D]) := by
          have h1 : 1 + consumeWhitespace r1 + 1 = (consumeWhitespace r1 + 1 + 0) + 1 := by omega
          rw [h1, List.take_succ_cons, take_cut _ _ _ _ hdrop 0, hc]
          simp
        rw [this]
        exact JValue.emptyObj d _ (by omega) (ws_take r1)
      · rcases hal : objectLoop o fuel (d + 1 + 1) [] (c :: rest) with ⟨n', e'⟩
        simp only [addOff, hal, Prod.mk.injEq] at h
        obtain ⟨rfl, rfl⟩ := h
        obtain ⟨hn', mems, hne', hok, hvals, htake, hnod⟩ := hl d [] (c :: rest) n' hd' hal
        have hn'' : n' ≤ rest.length + 1 := by simpa using hn'
        refine ⟨by omega, ?_⟩
        cases mems with
        | nil => exact absurd rfl hne'
        | cons m0 ms =>
          have : (0x7B :: r1).take (1 + consumeWhitespace r1 + n') =
              0x7B :: (joinSep (((r1.take (consumeWhitespace r1) ++ m0.1, m0.2) :: ms).map memBytes) ++ [0x7D]) := by
            have h1 : 1 + consumeWhitespace r1 + n' = (consumeWhitespace r1 + n') + 1 := by omega
            rw [h1, List.take_succ_cons, List.take_add, hdrop, htake]
            simp only [List.map_cons]
            have : memBytes (r1.take (consumeWhitespace r1) ++ m0.1, m0.2) =
                r1.take (consumeWhitespace r1) ++ memBytes m0 := by simp [memBytes, List.append_assoc]
            rw [this, joinSep_cons_append]
            simp [List.append_assoc]
          rw [this]
          have huniq : (G o).allowDup = true ∨
              ((((r1.take (consumeWhitespace r1) ++ m0.1, m0.2) :: ms : List Mem).map fun m => nameKey o m.2.1)).Nodup := by
            cases ha : o.allowDup with
            | true => exact Or.inl ha
            | false =>
              right
              have := hnod ha List.nodup_nil
              simpa using this
          refine JValue.obj d _ (by omega) (by simp) ?_ ?_ huniq
          · intro m hm
            simp only [List.mem_cons] at hm
            rcases hm with rfl | hm
            · have := hok m0 (by simp)
              exact ⟨jws_append _ _ (ws_take r1) this.1, this.2⟩
            · exact hok m (by simp [hm])
          · intro m hm
            simp only [List.mem_cons] at hm
            rcases hm with rfl | hm
            · exact hvals m0 (by simp)
            · exact hvals m (by simp [hm])

theorem value_step (o : VOpts) (fuel : Nat) (ha : PArr o fuel) (hob : PObj o fuel) : PValue o (fuel + 1) := by
  intro d r n hd h
  cases r with
  | nil => simp [consumeValue] at h
  | cons c rest =>
  simp only [consumeValue] at h
  split at h
  · obtain ⟨h1, h2⟩ := valueLiteral_sound litNull _ n (by decide) h
    exact ⟨h1, by rw [h2]; exact JValue.null d⟩
  split at h
  · obtain ⟨h1, h2⟩ := valueLiteral_sound litFalse _ n (by decide) h
    exact ⟨h1, by rw [h2]; exact JValue.false d⟩
  split at h
  · obtain ⟨h1, h2⟩ := valueLiteral_sound litTrue _ n (by decide) h
    exact ⟨h1, by rw [h2]; exact JValue.true d⟩
  split at h
  · rcases hvs : valueString o (c :: rest) with ⟨nn, fl, e⟩
    simp only [hvs, Prod.mk.injEq] at h
    obtain ⟨rfl, rfl⟩ := h
    obtain ⟨h1, h2⟩ := valueString_sound o _ nn fl hvs
    exact ⟨h1, JValue.str d _ h2⟩
  split at h
  · obtain ⟨h1, h2⟩ := valueNumber_sound _ n h
    exact ⟨h1, JValue.num d _ h2⟩
  split at h
  · rename_i hk
    have hc : c = 0x7B := by rw [normKind_obj] at hk; simpa using hk
    subst hc
    have := hob d rest n hd h
    exact ⟨by simpa using this.1, this.2⟩
  split at h
  · rename_i hk
    have hc : c = 0x5B := by rw [normKind_arr] at hk; simpa using hk
    subst hc
    have := ha d rest n hd h
    exact ⟨by simpa using this.1, this.2⟩
  split at h <;> simp at h

/-- all five recognisers are sound, for every amount of fuel -/
theorem sound_all (o : VOpts) (fuel : Nat) :
    PValue o fuel ∧ PArr o fuel ∧ PArrLoop o fuel ∧ PObj o fuel ∧ PObjLoop o fuel := by
  induction fuel with
  | zero =>
    refine ⟨?_, ?_, ?_, ?_, ?_⟩
    · intro d r n _ h; simp [consumeValue] at h
    · intro d r n _ h; simp [consumeArray] at h
    · intro d r n _ h; simp [arrayLoop] at h
    · intro d r n _ h; simp [consumeObject] at h
    · intro d names r n _ h; simp [objectLoop] at h
  | succ fuel ih =>
    obtain ⟨h1, h2, h3, h4, h5⟩ := ih
    exact ⟨value_step o fuel h2 h4, arr_step o fuel h3, arrLoop_step o fuel h1 h3, obj_step o fuel h5,
      objLoop_step o fuel h1 h5⟩

/-! ### the top level -/

theorem readValueTop_ok (o : VOpts) (fuel : Nat) (r : Bytes) (n : Nat) (h : readValueTop o fuel r = (n, .ok)) :
    n ≤ r.length ∧ ∃ w v, JWs w ∧ JV o 0 v ∧ r.take n = w ++ v := by
  unfold readValueTop at h
  simp only at h
  split at h
  · simp at h
  · rename_i c rest hdrop
    split at h
    · simp at h
    · rcases hcv : consumeValue o fuel 1 (c :: rest) with ⟨k, e⟩
      simp only [addOff, hcv, Prod.mk.injEq] at h
      obtain ⟨rfl, rfl⟩ := h
      obtain ⟨hk, hjv⟩ := (sound_all o fuel).1 0 (c :: rest) k (by omega) hcv
      have hlen := len_of_drop _ _ _ _ hdrop
      have hk' : k ≤ rest.length + 1 := by simpa using hk
      refine ⟨by omega, r.take (consumeWhitespace r), (c :: rest).take k, ws_take r, hjv, ?_⟩
      rw [List.take_add, hdrop]

/-- `validText` (= Value.IsValid's framing) accepts only texts of the grammar. -/
theorem validText_sound (o : VOpts) (b : Bytes) (n : Nat) (h : validText o b = (n, .ok)) :
    JText (G o) maxNestingDepth (nameKey o) b := by
  unfold validText at h
  rcases hr : readValueTop o (fuelFor b) b with ⟨n0, e0⟩
  simp only [hr] at h
  split at h
  · rename_i hne
    simp only [Prod.mk.injEq] at h
    rw [h.2] at hne; simp at hne
  rename_i hne
  have he : e0 = .ok := by simpa using hne
  subst he
  obtain ⟨hn0, w, v, hw, hv, htake⟩ := readValueTop_ok o _ b n0 hr
  split at h
  · rename_i hdrop
    refine ⟨w, v, b.drop n0, hw, hv, ?_, ?_⟩
    · -- the rest is whitespace only
      have hall : (b.drop n0).take (consumeWhitespace (b.drop n0)) = b.drop n0 := by
        apply List.take_of_length_le
        rw [List.drop_eq_nil_iff] at hdrop
        exact hdrop
      rw [← hall]; exact ws_take _
    · rw [← htake, List.take_append_drop]
  · simp at h

/-- a number starts with `-` or a digit: the byte class `'0'` of `Kind.normalize` -/
theorem jnumber_head (v : Bytes) (h : JNumber v) : ∃ c t, v = c :: t ∧ normKind c = 0x30 := by
  have hk : ∀ c : UInt8, (c == 0x2D || isDigit c) = true → normKind c = 0x30 := by
    intro c hc; simp [normKind, hc]
  cases h with
  | mk minus int frac exp hm hi hf hx =>
    rcases hm with rfl | rfl
    · cases hi with
      | zero => exact ⟨0x30, frac ++ exp, by simp, by decide⟩
      | nonzero d ds hd hds =>
        refine ⟨d, ds ++ (frac ++ exp), by simp, hk d ?_⟩
        have := (digit19_iff d).1 hd
        rw [cls_d19] at this
        rw [cls_minus, cls_digit]
        generalize cls d = k at this
        cases k <;> simp_all
    · exact ⟨0x2D, int ++ (frac ++ exp), by simp, by decide⟩

end JsonV.Lemmas.WireValue
