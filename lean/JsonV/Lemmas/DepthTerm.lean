/-
C20 — termination of the modelled ReadValue loop over a stream (Model/Validate.lean `streamLoop`):
the loop fuel `|b| + 1` is never exhausted, because every successful ReadValue consumes at least one byte
(the model's `bug` arm) and at most the remaining input.
-/
import JsonV.Lemmas.WireFuel

namespace JsonV.Lemmas.DepthTerm
open JsonV JsonV.Model JsonV.Model.Wire JsonV.Model.Validate
open JsonV.Lemmas.WireValue JsonV.Lemmas.WireFuel

theorem streamLoop_no_fuel (o : VOpts) (vfuel : Nat) : ∀ (fuel : Nat) (r : Bytes) (cnt base : Nat),
    3 * r.length + 1 ≤ vfuel → r.length + 1 ≤ fuel → (streamLoop o vfuel fuel r cnt base).2.2 ≠ .fuel := by
  intro fuel
  induction fuel with
  | zero => intro r cnt base _ h; omega
  | succ fuel ih =>
    intro r cnt base hv hf
    simp only [streamLoop]
    rcases hr : readValueTop o vfuel r with ⟨n, e⟩
    simp only
    split
    · have := readValueTop_no_fuel o vfuel r hv
      rw [hr] at this
      simpa using this
    · rename_i hne
      have he : e = .ok := by simpa using hne
      subst he
      split
      · simp
      · rename_i hn0
        have hn := (readValueTop_ok o vfuel r n hr).1
        have hpos : 0 < n := by
          cases n with
          | zero => simp at hn0
          | succ k => omega
        exact ih (r.drop n) _ _ (by simp; omega) (by simp; omega)

/-- the ReadValue loop over any input never reports the artificial out-of-fuel class -/
theorem stream_no_fuel (o : VOpts) (b : Bytes) : (stream o b).2.2 ≠ .fuel :=
  streamLoop_no_fuel o (fuelFor b) (b.length + 1) b 0 0 (by simp [fuelFor]) (Nat.le_refl _)

end JsonV.Lemmas.DepthTerm
