/-
C20 — termination of the modelled ReadValue loop over a stream (Model/Validate.lean `streamLoop`):
the loop fuel `|b| + 1` is never exhausted, because every successful ReadValue consumes at least one byte
(the model's `bug` arm) and at most the remaining input.
-/
import JsonV.Lemmas.WireFuel
import JsonV.Model.TokenLoop

namespace JsonV.Lemmas.DepthTerm
open JsonV JsonV.Model JsonV.Model.Wire JsonV.Model.Validate
open JsonV.Lemmas.WireValue JsonV.Lemmas.WireFuel

theorem streamLoop_no_fuel (o : VOpts) (vfuel : Nat) : ∀ (fuel : Nat) (r : Bytes) (cnt base : Nat),
    3 * r.length + 1 ≤ vfuel → r.length + 1 ≤ fuel → (streamLoop o vfuel fuel r cnt base).2.2 ≠ .fuel := by
  intro fuel
  induction fuel with
  | zero => intro r cnt base _ h; omega
  | succ fuel ih =>
    intro r cnt base hv hf
    simp only [streamLoop]
    rcases hr : readValueTop o vfuel r with ⟨n, e⟩
    simp only
    split
    · have := readValueTop_no_fuel o vfuel r hv
      rw [hr] at this
      simpa using this
    · rename_i hne
      have he : e = .ok := by simpa using hne
      subst he
      split
      · simp
      · rename_i hn0
        have hn := (readValueTop_ok o vfuel r n hr).1
        have hpos : 0 < n := by
          cases n with
          | zero => simp at hn0
          | succ k => omega
        exact ih (r.drop n) _ _ (by simp; omega) (by simp; omega)

/-- the ReadValue loop over any input never reports the artificial out-of-fuel class -/
theorem stream_no_fuel (o : VOpts) (b : Bytes) : (stream o b).2.2 ≠ .fuel :=
  streamLoop_no_fuel o (fuelFor b) (b.length + 1) b 0 0 (by simp [fuelFor]) (Nat.le_refl _)

end JsonV.Lemmas.DepthTerm

/-! ### the ReadToken loop (Model/TokenLoop.lean): every token consumes at least one byte and at most the
remaining input, and no lexer reports the out-of-fuel class — so the loop fuel `|b| + 1` is never exhausted -/

namespace JsonV.Lemmas.DepthTerm
open JsonV JsonV.Model JsonV.Model.Wire JsonV.Model.Validate JsonV.Model.TokenLoop
open JsonV.Lemmas.WireValue JsonV.Lemmas.WireFuel

/-- an error is not `fuel`; a token ends within `B` -/
def Bnd (B : Nat) : TRes → Prop
  | .err _ e => e ≠ .fuel
  | .tok n _ => n ≤ B

theorem smErr_ne_fuel (e : SMErr) : smErr e ≠ .fuel := by cases e <;> simp [smErr]

theorem feed_bnd (st : TState) (pos n : Nat) (op : Machine → Except SMErr Machine) : Bnd (pos + n) (feed st pos n op) := by
  unfold feed
  split
  · exact smErr_ne_fuel _
  · exact Nat.le_refl _

theorem feedString_bnd (o : VOpts) (st : TState) (pos : Nat) (q : Bytes) (fl : ValueFlags) :
    Bnd (pos + q.length) (feedString o st pos q fl) := by
  have hgo : ∀ nss : List (List Bytes), Bnd (pos + q.length)
      (match st.m.appendString with
        | .error se => TRes.err pos (smErr se)
        | .ok m' => TRes.tok (pos + q.length) { m := m', nss := nss }) := by
    intro nss
    split
    · exact smErr_ne_fuel _
    · exact Nat.le_refl _
  unfold feedString
  simp only
  split
  · split
    · split
      · simp [Bnd]
      · split
        · split
          · simp [Bnd]
          · split
            · simp [Bnd]
            · exact hgo _
        · exact hgo _
    · exact hgo _
  · exact hgo _

theorem bnd_mono {B B' : Nat} {t : TRes} (h : Bnd B t) (hle : B ≤ B') : Bnd B' t := by
  cases t with
  | err _ _ => exact h
  | tok n _ => exact Nat.le_trans h hle

theorem lexToken_bnd (o : VOpts) (st : TState) (pos : Nat) (r : Bytes) : Bnd (pos + r.length) (lexToken o st pos r) := by
  unfold lexToken
  cases r with
  | nil => simp [Bnd]
  | cons c t =>
    have hlit : ∀ l : Bytes, l ≠ [] → Bnd (pos + (c :: t).length)
        (if ((valueLiteral l (c :: t)).2 != .ok) = true then TRes.err (pos + (valueLiteral l (c :: t)).1) (valueLiteral l (c :: t)).2
         else feed st pos (valueLiteral l (c :: t)).1 Machine.appendLiteral) := by
      intro l hl
      split
      · exact not_bad_fuel (valueLiteral_no_fuel l (c :: t))
      · rename_i hne
        have hok : (valueLiteral l (c :: t)).2 = .ok := by simpa using hne
        have := (valueLiteral_sound l (c :: t) _ hl (Prod.ext rfl hok)).1
        exact bnd_mono (feed_bnd st pos _ _) (Nat.add_le_add_left this pos)
    simp only
    split
    · exact hlit litNull (by decide)
    · split
      · exact hlit litFalse (by decide)
      · split
        · exact hlit litTrue (by decide)
        · split
          · -- string
            rcases hvs : valueString o (c :: t) with ⟨n, fl, e⟩
            simp only
            split
            · have := not_bad_fuel (valueString_no_fuel o (c :: t))
              rw [hvs] at this
              exact this
            · rename_i hne
              have hok : e = .ok := by simpa using hne
              subst hok
              have hn := (valueString_sound o (c :: t) n fl hvs).1
              refine bnd_mono (feedString_bnd o st pos _ fl) ?_
              simp only [List.length_take]
              omega
          · split
            · -- number
              rcases hvn : valueNumber (c :: t) with ⟨n, e⟩
              simp only
              split
              · have := not_bad_fuel (valueNumber_no_fuel (c :: t))
                rw [hvn] at this
                exact this
              · rename_i hne
                have hok : e = .ok := by simpa using hne
                subst hok
                have hn := (valueNumber_sound (c :: t) n hvn).1
                exact bnd_mono (feed_bnd st pos n _) (by omega)
            · split
              · split
                · exact smErr_ne_fuel _
                · simp [Bnd]
              · split
                · split
                  · exact smErr_ne_fuel _
                  · simp [Bnd]
                · split
                  · exact bnd_mono (feed_bnd st pos 1 _) (by simp)
                  · split
                    · exact bnd_mono (feed_bnd st pos 1 _) (by simp)
                    · simp [Bnd]

theorem readToken_bnd (o : VOpts) (st : TState) (r : Bytes) : Bnd r.length (readToken o st r) := by
  unfold readToken
  simp only
  split
  · simp only [Bnd]; split <;> simp
  · rename_i c rest hd
    have hl := len_of_drop r _ c rest hd
    split
    · split
      · split <;> simp [Bnd]
      · rename_i c1 rest1 hd1
        have hl1 := len_of_drop rest _ c1 rest1 hd1
        split
        · simp [Bnd]
        · exact bnd_mono (lexToken_bnd o st _ (c1 :: rest1)) (by simp only [List.length_cons]; omega)
    · split
      · simp [Bnd]
      · exact bnd_mono (lexToken_bnd o st _ (c :: rest)) (by simp only [List.length_cons]; omega)

theorem tokenLoop_no_fuel (o : VOpts) : ∀ (F : Nat) (st : TState) (r : Bytes) (cnt base : Nat),
    r.length + 1 ≤ F → (tokenLoop o F st r cnt base).2.2 ≠ .fuel := by
  intro F
  induction F with
  | zero => intro st r cnt base h; omega
  | succ F ih =>
    intro st r cnt base hF
    have hb := readToken_bnd o st r
    simp only [tokenLoop]
    cases hrt : readToken o st r with
    | err off e =>
      rw [hrt] at hb
      show e ≠ .fuel
      exact hb
    | tok n st' =>
      rw [hrt] at hb
      simp only
      split
      · simp
      · rename_i hn0
        have hpos : 0 < n := by
          cases n with
          | zero => simp at hn0
          | succ k => omega
        have hle : n ≤ r.length := hb
        exact ih st' (r.drop n) _ _ (by simp; omega)

/-- the ReadToken loop over any input never reports the artificial out-of-fuel class -/
theorem tokens_no_fuel (o : VOpts) (b : Bytes) : (tokens o b).2.2 ≠ .fuel :=
  tokenLoop_no_fuel o (b.length + 1) {} b 0 0 (Nat.le_refl _)

end JsonV.Lemmas.DepthTerm
