/-
C11 lemmas about the PreserveRawStrings loop of ReformatString: one-step unfoldings, and — for every input —
no raw U+2028/U+2029 in its output under EscapeForJS (the decode chain never skips an E2 byte, an ill-formed E2
is never followed by `80 A8`/`80 A9` in the output, a sequence cut off at `n` ends the output).  Core Lean only.
-/
import JsonV.Lemmas.QuoteSafe

namespace JsonV.Lemmas.QuotePreserve
open JsonV JsonV.Model.Utf8 JsonV.Model.Quote JsonV.Lemmas.QuoteUtf8 JsonV.Lemmas.QuoteL JsonV.Spec.StringSpec JsonV.Lemmas.QuoteSafe

/-! One-step unfoldings of the PreserveRawStrings loop. -/

theorem PL_ascii_esc (html js : Bool) (k : Nat) (c : UInt8) (t : Bytes) (h0 : c.toNat < runeSelf)
    (h : (isHTMLChar c.toNat && html) = true) :
    preserveLoop html js (k + 1) (c :: t) = appendEscapedASCII c.toNat ++ preserveLoop html js k t := by
  rw [preserveLoop]; simp [preserveStep, h0, h]

theorem PL_ascii_plain (html js : Bool) (k : Nat) (c : UInt8) (t : Bytes) (h0 : c.toNat < runeSelf)
    (h : (isHTMLChar c.toNat && html) = false) :
    preserveLoop html js (k + 1) (c :: t) = c :: preserveLoop html js k t := by
  rw [preserveLoop]; simp [preserveStep, h0, h]

theorem PL_multi_esc (html js : Bool) (k : Nat) (c : UInt8) (t : Bytes) (h0 : ¬ c.toNat < runeSelf)
    (h : ((decodeRune (c :: t)).1 = 0x2028 ∨ (decodeRune (c :: t)).1 = 0x2029) ∧ js = true) :
    preserveLoop html js (k + 1) (c :: t) = appendEscapedUnicode (decodeRune (c :: t)).1 ++
      preserveLoop html js (k + 1 - (decodeRune (c :: t)).2) ((c :: t).drop (decodeRune (c :: t)).2) := by
  rw [preserveLoop]; simp only [preserveStep, h0, ↓reduceIte]; rw [if_pos h]

theorem PL_multi_plain (html js : Bool) (k : Nat) (c : UInt8) (t : Bytes) (h0 : ¬ c.toNat < runeSelf)
    (h : ¬ (((decodeRune (c :: t)).1 = 0x2028 ∨ (decodeRune (c :: t)).1 = 0x2029) ∧ js = true)) :
    preserveLoop html js (k + 1) (c :: t) = (c :: t).take (min (decodeRune (c :: t)).2 (k + 1)) ++
      preserveLoop html js (k + 1 - (decodeRune (c :: t)).2) ((c :: t).drop (decodeRune (c :: t)).2) := by
  rw [preserveLoop]; simp only [preserveStep, h0, ↓reduceIte]; rw [if_neg h]

theorem preserveLoop_zero (html js : Bool) (s : Bytes) : preserveLoop html js 0 s = [] := by
  rw [preserveLoop]
theorem preserveLoop_nil (html js : Bool) (k : Nat) : preserveLoop html js k [] = [] := by
  cases k <;> simp [preserveLoop]

theorem escaped_ascii_head : ∀ c : Fin 128, ∃ xs, appendEscapedASCII c.val = 0x5c :: xs := by
  intro c
  have : ∀ c : Fin 128, (appendEscapedASCII c.val).head? = some 0x5c := by decide +kernel
  have h := this c
  cases hh : appendEscapedASCII c.val with
  | nil => simp [hh] at h
  | cons x xs => simp [hh] at h; exact ⟨xs, by rw [h]⟩

theorem escaped_ls_head (r : Nat) (h : r = 0x2028 ∨ r = 0x2029) : ∃ xs, appendEscapedUnicode r = 0x5c :: xs := by
  rcases h with h | h <;> subst h
  · exact ⟨(appendEscapedUnicode 0x2028).tail, by decide⟩
  · exact ⟨(appendEscapedUnicode 0x2029).tail, by decide⟩

/-- The loop output for `b :: t` is empty or starts with `b` or with the backslash of an escape. -/
theorem preserveLoop_head (html js : Bool) (k : Nat) (b : UInt8) (t : Bytes) :
    (∃ xs, preserveLoop html js (k + 1) (b :: t) = b :: xs) ∨ (∃ xs, preserveLoop html js (k + 1) (b :: t) = 0x5c :: xs) := by
  by_cases h0 : b.toNat < runeSelf
  · cases h : (isHTMLChar b.toNat && html)
    · left; exact ⟨_, PL_ascii_plain html js k b t h0 h⟩
    · right
      obtain ⟨xs, hx⟩ := escaped_ascii_head ⟨b.toNat, h0⟩
      rw [PL_ascii_esc html js k b t h0 h]
      exact ⟨_, by rw [hx]; rfl⟩
  · by_cases h : ((decodeRune (b :: t)).1 = 0x2028 ∨ (decodeRune (b :: t)).1 = 0x2029) ∧ js = true
    · right
      obtain ⟨xs, hx⟩ := escaped_ls_head _ h.1
      rw [PL_multi_esc html js k b t h0 h, hx]
      exact ⟨_, rfl⟩
    · left
      have := decodeRune_pos b t
      obtain ⟨m, hm⟩ : ∃ m, min (decodeRune (b :: t)).2 (k + 1) = m + 1 := ⟨min (decodeRune (b :: t)).2 (k + 1) - 1, by omega⟩
      rw [PL_multi_plain html js k b t h0 h, hm]
      exact ⟨_, rfl⟩

theorem decodeRune_80 (t : Bytes) : decodeRune (0x80 :: t) = (runeError, 1) := by
  simp [decodeRune, leadInfo, runeSelf]

theorem prefix_nil_false {x : UInt8} {l : Bytes} : ¬ (x :: l) <+: ([] : Bytes) := by simp

/-- If the loop output starts with `80 y` (y a continuation byte A8/A9), so does its input. -/
theorem preserveLoop_prefix_reflect (html js : Bool) (k : Nat) (t : Bytes) (y : UInt8) (hy : y = 0xA8 ∨ y = 0xA9)
    (h : [0x80, y] <+: preserveLoop html js k t) : [0x80, y] <+: t := by
  match t, k with
  | [], k => rw [preserveLoop_nil] at h; exact absurd h prefix_nil_false
  | b1 :: t1, 0 => rw [preserveLoop_zero] at h; exact absurd h prefix_nil_false
  | b1 :: t1, k' + 1 =>
    rcases preserveLoop_head html js k' b1 t1 with ⟨xs, hx⟩ | ⟨xs, hx⟩
    · rw [hx, List.cons_prefix_cons] at h
      have hb : b1 = 0x80 := h.1.symm
      subst hb
      have h0 : ¬ (0x80 : UInt8).toNat < runeSelf := by decide
      have hn : ¬ (((decodeRune ((0x80 : UInt8) :: t1)).1 = 0x2028 ∨ (decodeRune ((0x80 : UInt8) :: t1)).1 = 0x2029) ∧ js = true) := by
        rw [decodeRune_80]; simp [runeError]
      have hP := PL_multi_plain html js k' 0x80 t1 h0 hn
      rw [decodeRune_80] at hP
      have hmin : min 1 (k' + 1) = 1 := by omega
      simp only [hmin, List.take_succ_cons, List.take_zero, List.drop_succ_cons, List.drop_zero, Nat.add_sub_cancel,
        List.cons_append, List.nil_append] at hP
      rw [hx] at hP
      have hxs : xs = preserveLoop html js k' t1 := by injection hP
      have h2 : [y] <+: preserveLoop html js k' t1 := hxs ▸ h.2
      rw [List.cons_prefix_cons]
      refine ⟨rfl, ?_⟩
      match t1, k' with
      | [], k => rw [preserveLoop_nil] at h2; exact absurd h2 prefix_nil_false
      | b2 :: t2, 0 => rw [preserveLoop_zero] at h2; exact absurd h2 prefix_nil_false
      | b2 :: t2, k'' + 1 =>
        rcases preserveLoop_head html js k'' b2 t2 with ⟨ys, hy2⟩ | ⟨ys, hy2⟩
        · rw [hy2, List.cons_prefix_cons] at h2
          rw [List.cons_prefix_cons]; exact ⟨h2.1, List.nil_prefix⟩
        · rw [hy2, List.cons_prefix_cons] at h2
          rcases hy with rfl | rfl <;> exact absurd h2.1 (by decide)
    · rw [hx, List.cons_prefix_cons] at h
      exact absurd h.1 (by decide)

theorem decodeRune_E2_LS (y : UInt8) (hy : y = 0xA8 ∨ y = 0xA9) (t : Bytes) :
    decodeRune (0xE2 :: 0x80 :: y :: t) ≠ (runeError, 1) := by
  rcases hy with rfl | rfl <;> simp [decodeRune, leadInfo, isCont, runeSelf, runeError]

/-- An ill-formed E2 is not followed, in the loop output, by `80 A8` / `80 A9`. -/
theorem illFormed_E2_no_LS (html js : Bool) (k : Nat) (t : Bytes) (h : decodeRune (0xE2 :: t) = (runeError, 1))
    (y : UInt8) (hy : y = 0xA8 ∨ y = 0xA9) : ¬ [0x80, y] <+: preserveLoop html js k t := by
  intro hp
  obtain ⟨r, hr⟩ := preserveLoop_prefix_reflect html js k t y hy hp
  rw [← hr] at h
  exact decodeRune_E2_LS y hy r h

/-- Bytes after the head of the sequence consumed at a head byte ≥ 0x80 are continuation bytes (never E2). -/
theorem decodeRune_tail_ne_E2 (c : UInt8) (t : Bytes) (h0 : ¬ c.toNat < runeSelf) :
    ∀ b ∈ ((c :: t).take (decodeRune (c :: t)).2).tail, b ≠ 0xE2 := by
  have hd := dec_sound (c :: t)
  generalize decodeRune (c :: t) = d at hd
  cases hd with
  | ascii h => exact absurd h h0
  | bad h => simp
  | two _ hl h1 h2 =>
    have := leadInfo_lo hl
    intro b hb; simp at hb; subst hb; exact ne_E2_of_lt (by omega)
  | three _ hl h1 h2 hc2 =>
    have := leadInfo_lo hl; rw [isCont_iff] at hc2
    intro b hb; simp at hb; rcases hb with rfl | rfl <;> exact ne_E2_of_lt (by omega)
  | four _ hl h1 h2 hc2 hc3 =>
    have := leadInfo_lo hl; rw [isCont_iff] at hc2 hc3
    intro b hb; simp at hb; rcases hb with rfl | rfl | rfl <;> exact ne_E2_of_lt (by omega)

theorem decodeRune_E2_size (t : Bytes) : (decodeRune ((0xE2 : UInt8) :: t)).2 ≤ 3 := by
  have hd := dec_sound ((0xE2 : UInt8) :: t)
  generalize decodeRune ((0xE2 : UInt8) :: t) = d at hd
  cases hd with
  | ascii h => simp
  | bad h => simp
  | two _ hl => simp
  | three _ hl => simp
  | four _ hl => have := leadInfo_exact hl; simp at this

theorem hasLS_cons_of_tail (x : UInt8) (l : Bytes) (h : ∀ b ∈ l, b ≠ 0xE2) :
    hasLS (x :: l) = (x == 0xE2 && (l.take 2 == [0x80, 0xA8] || l.take 2 == [0x80, 0xA9])) := by
  have := hasLS_skip (a := l) [] h
  simp only [List.append_nil] at this
  simp [hasLS, this]

theorem preserveLoop_noLS (html : Bool) (k : Nat) (src : Bytes) : hasLS (preserveLoop html true k src) = false := by
  induction k using Nat.strongRecOn generalizing src with
  | _ k ih =>
    match k, src with
    | 0, s => rw [preserveLoop_zero]; rfl
    | k + 1, [] => rw [preserveLoop_nil]; rfl
    | k + 1, c :: t =>
      by_cases h0 : c.toNat < runeSelf
      · have h128 : c.toNat < 128 := h0
        cases h : (isHTMLChar c.toNat && html)
        · rw [PL_ascii_plain html true k c t h0 h]
          have hc : ∀ b ∈ [c], b ≠ 0xE2 := by
            intro b hb; simp only [List.mem_singleton] at hb; rw [hb]; exact ne_E2_of_lt (by omega)
          have := hasLS_skip (preserveLoop html true k t) hc
          simp only [List.singleton_append] at this
          rw [this]; exact ih k (by omega) t
        · rw [PL_ascii_esc html true k c t h0 h, hasLS_skip]
          · exact ih k (by omega) t
          · intro b hb
            have := escaped_ascii_bytes ⟨c.toNat, h128⟩
            simp only [List.all_eq_true, decide_eq_true_eq] at this
            exact ne_E2_of_lt (by have := this b hb; omega)
      · have hp := decodeRune_pos c t
        by_cases h : ((decodeRune (c :: t)).1 = 0x2028 ∨ (decodeRune (c :: t)).1 = 0x2029) ∧ true = true
        · rw [PL_multi_esc html true k c t h0 h, hasLS_skip]
          · exact ih _ (by omega) _
          · have e1 : ∀ b ∈ appendEscapedUnicode 0x2028, b ≠ 0xE2 := by decide
            have e2 : ∀ b ∈ appendEscapedUnicode 0x2029, b ≠ 0xE2 := by decide
            rcases h.1 with h | h <;> rw [h]
            · exact e1
            · exact e2
        · rw [PL_multi_plain html true k c t h0 h]
          have n1 : (decodeRune (c :: t)).1 ≠ 0x2028 := by intro e; exact h ⟨Or.inl e, rfl⟩
          have n2 : (decodeRune (c :: t)).1 ≠ 0x2029 := by intro e; exact h ⟨Or.inr e, rfl⟩
          have ihR := ih (k + 1 - (decodeRune (c :: t)).2) (by omega) ((c :: t).drop (decodeRune (c :: t)).2)
          rcases decodeRune_high c t h0 with h1 | h1
          · by_cases hle : (decodeRune (c :: t)).2 ≤ k + 1
            · rw [Nat.min_eq_left hle, hasLS_take c t _ h0 h1 n1 n2]; exact ihR
            · have hz : k + 1 - (decodeRune (c :: t)).2 = 0 := by omega
              have hm : min (decodeRune (c :: t)).2 (k + 1) = k + 1 := by omega
              rw [hz, preserveLoop_zero, List.append_nil, hm, List.take_succ_cons]
              have htail : ∀ b ∈ t.take k, b ≠ 0xE2 := by
                intro b hb
                apply decodeRune_tail_ne_E2 c t h0 b
                obtain ⟨m, hm2⟩ : ∃ m, (decodeRune (c :: t)).2 = m + 1 := ⟨(decodeRune (c :: t)).2 - 1, by omega⟩
                rw [hm2, List.take_succ_cons, List.tail_cons]
                have : k ≤ m := by omega
                rw [← Nat.min_eq_left this, ← List.take_take] at hb
                exact List.mem_of_mem_take hb
              rw [hasLS_cons_of_tail c _ htail]
              by_cases hE : c = 0xE2
              · subst hE
                have hd3 : (decodeRune ((0xE2 : UInt8) :: t)).2 ≤ 3 := decodeRune_E2_size t
                have hlen : (t.take k).length ≤ 1 := by simp only [List.length_take]; omega
                have t1 : ¬ (t.take k).take 2 = [0x80, 0xA8] := by
                  intro e; have := congrArg List.length e; simp at this; omega
                have t2 : ¬ (t.take k).take 2 = [0x80, 0xA9] := by
                  intro e; have := congrArg List.length e; simp at this; omega
                simp [t1, t2]
              · have : (c == 0xE2) = false := by simpa using hE
                simp [this]
          · rw [h1] at ihR ⊢
            have hm : min 1 (k + 1) = 1 := by omega
            simp only [hm, List.take_succ_cons, List.take_zero, List.drop_succ_cons, List.drop_zero, Nat.add_sub_cancel,
              List.cons_append, List.nil_append] at ihR ⊢
            simp only [hasLS, ihR, Bool.or_false]
            by_cases hE : c = 0xE2
            · subst hE
              have s1 := illFormed_E2_no_LS html true k t h1 0xA8 (Or.inl rfl)
              have s2 := illFormed_E2_no_LS html true k t h1 0xA9 (Or.inr rfl)
              rw [← take2_eq_iff_prefix] at s1 s2
              simp [s1, s2]
            · have : (c == 0xE2) = false := by simpa using hE
              simp [this]

end JsonV.Lemmas.QuotePreserve
