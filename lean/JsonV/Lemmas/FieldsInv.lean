/-
The invariant of the breadth-first search of `makeStructFields`, at the granularity of one field.

History `hist P R s = P ++ R ++ s.queue`: entries already processed, entries of the current level still to
process (the head of `R` is the one being processed when `cur = some (qe, i)`, its fields `< i` are done),
and the entries queued for the next level.
-/
import JsonV.Lemmas.FieldsDecide

set_option linter.unusedSimpArgs false

namespace JsonV.Lemmas.Fields
open JsonV JsonV.Model JsonV.Model.Fields JsonV.Spec.FieldRule

def FieldAt (g : Graph) (sid : StructId) (i : Nat) (d : FieldDecl) : Prop := (g.fieldsOf sid)[i]? = some d
/-- Field `i` of struct `sid` is an embedded struct `t` (for the model). -/
def Kid (g : Graph) (sid : StructId) (i : Nat) (t : StructId) : Prop := ∃ d, FieldAt g sid i d ∧ actOf d = .enqueue t
/-- Field `i` of struct `sid` is a member with options `o` (for the model). -/
def Member (g : Graph) (sid : StructId) (i : Nat) (o : FieldOpts) : Prop := ∃ d, FieldAt g sid i d ∧ actOf d = .field o

def hist (P R : List QE) (s : St) : List QE := P ++ R ++ s.queue

/-- Field `j` of entry `e` has been handled. -/
def Done (P : List QE) (cur : Option (QE × Nat)) (e : QE) (j : Nat) : Prop :=
  e ∈ P ∨ ∃ i, cur = some (e, i) ∧ j < i

structure Inv (g : Graph) (root : StructId) (k : Nat) (P R : List QE) (cur : Option (QE × Nat)) (s : St) : Prop where
  depthP : ∀ e ∈ P, e.index.length ≤ k
  depthR : ∀ e ∈ R, e.index.length = k
  depthQ : ∀ e ∈ s.queue, e.index.length = k + 1
  seenW : ∀ t, t ∈ s.seen → ∃ e0 ∈ hist P R s, e0.sid = t ∧ e0.visit = true
  seenH : ∀ e ∈ hist P R s, e.sid ∈ s.seen
  firstW : ∀ e ∈ hist P R s, e.visit = false →
    ∃ e0 ∈ hist P R s, e0.sid = e.sid ∧ e0.visit = true ∧ e0.index.length ≤ e.index.length
  firstP : (hist P R s).Pairwise (fun a b => b.visit = true → a.sid ≠ b.sid)
  kids : ∀ e j t, Done P cur e j → e.visit = true → Kid g e.sid j t →
    ∃ e' ∈ hist P R s, e'.sid = t ∧ e'.index = e.index ++ [j]
  reach : ∀ e ∈ hist P R s, Reach g root e.index e.sid
  memb : ∀ e j o, Done P cur e j → Member g e.sid j o → ∃ f ∈ s.all, f.index = e.index ++ [j] ∧ f.opts = o
  allS : ∀ f ∈ s.all, ∃ e j, Done P cur e j ∧ Member g e.sid j f.opts ∧ f.index = e.index ++ [j]
  curR : ∀ qe i, cur = some (qe, i) → ∃ R', R = qe :: R'

theorem Inv.congr {g root k P R cur} {s s' : St} (h : Inv g root k P R cur s)
    (hq : s'.queue = s.queue) (hs : s'.seen = s.seen) (ha : s'.all = s.all) : Inv g root k P R cur s' := by
  have hh : hist P R s' = hist P R s := by simp [hist, hq]
  exact ⟨h.depthP, h.depthR, hq ▸ h.depthQ, by rw [hs, hh]; exact h.seenW, by rw [hs, hh]; exact h.seenH,
    by rw [hh]; exact h.firstW, by rw [hh]; exact h.firstP, by rw [hh]; exact h.kids, by rw [hh]; exact h.reach,
    by rw [ha]; exact h.memb, by rw [ha]; exact h.allS, h.curR⟩

theorem Inv.orErr {g root k P R cur} {s : St} (h : Inv g root k P R cur s) (e : Option Err) :
    Inv g root k P R cur (s.orErr e) := by
  apply h.congr <;> (unfold St.orErr; split <;> rfl)

theorem done_succ {P : List QE} {qe : QE} {i : Nat} {e : QE} {j : Nat} (h : Done P (some (qe, i + 1)) e j) :
    Done P (some (qe, i)) e j ∨ (e = qe ∧ j = i) := by
  rcases h with h | ⟨i', hc, hj⟩
  · exact Or.inl (Or.inl h)
  · simp only [Option.some.injEq, Prod.mk.injEq] at hc
    obtain ⟨rfl, rfl⟩ := hc
    by_cases hji : j = i
    · exact Or.inr ⟨rfl, hji⟩
    · exact Or.inl (Or.inr ⟨i, rfl, by omega⟩)

theorem done_mono {P : List QE} {qe : QE} {i : Nat} {e : QE} {j : Nat} (h : Done P (some (qe, i)) e j) :
    Done P (some (qe, i + 1)) e j := by
  rcases h with h | ⟨i', hc, hj⟩
  · exact Or.inl h
  · simp only [Option.some.injEq, Prod.mk.injEq] at hc
    obtain ⟨rfl, rfl⟩ := hc
    exact Or.inr ⟨i + 1, rfl, by omega⟩

theorem kid_unique {g sid i t d} (hf : FieldAt g sid i d) (hk : Kid g sid i t) : actOf d = .enqueue t := by
  obtain ⟨d', hf', ha⟩ := hk
  unfold FieldAt at hf hf'
  rw [hf] at hf'
  cases hf'
  exact ha

theorem member_unique {g sid i o d} (hf : FieldAt g sid i d) (hk : Member g sid i o) : actOf d = .field o := by
  obtain ⟨d', hf', ha⟩ := hk
  unfold FieldAt at hf hf'
  rw [hf] at hf'
  cases hf'
  exact ha

end JsonV.Lemmas.Fields
