/-
Prefix-stability facts about the UTF-8 model (`Model/Utf8.lean`) used by `str_resume` (C05):
once a byte string begins with a full rune, appending more bytes changes neither DecodeRune nor FullRune.
Core Lean only.
-/
import JsonV.Model.Utf8
namespace JsonV.Model.Utf8

theorem leadInfo_sz {b sz lo hi : Nat} (h : leadInfo b = some (sz, lo, hi)) : sz = 2 ∨ sz = 3 ∨ sz = 4 := by
  unfold leadInfo at h
  repeat' split at h
  all_goals simp_all
  all_goals omega

theorem decodeRune_append_of_full (p e : Bytes) (h : fullRune p = true) : decodeRune (p ++ e) = decodeRune p := by
  cases p with
  | nil => simp [fullRune] at h
  | cons b0 rest =>
    simp only [List.cons_append]
    unfold fullRune at h
    unfold decodeRune
    simp only at h ⊢
    by_cases h0 : b0.toNat < runeSelf
    · simp [h0]
    · simp only [h0, if_false] at h ⊢
      cases hl : leadInfo b0.toNat with
      | none => simp
      | some t =>
        obtain ⟨sz, lo, hi⟩ := t
        simp only [hl] at h ⊢
        have hsz := leadInfo_sz hl
        cases rest with
        | nil => simp at h; omega
        | cons b1 rest1 =>
          simp only [List.cons_append]
          by_cases h1 : b1.toNat < lo ∨ hi < b1.toNat
          · simp [h1]
          · simp only [h1, if_false] at h ⊢
            by_cases hs2 : sz = 2
            · simp [hs2]
            · simp only [hs2, if_false]
              cases rest1 with
              | nil => simp at h; omega
              | cons b2 rest2 =>
                simp only [List.cons_append]
                by_cases h2 : isCont b2.toNat = true
                · simp only [h2, Bool.not_true, Bool.false_eq_true, if_false] at h ⊢
                  by_cases hs3 : sz = 3
                  · simp [hs3]
                  · simp only [hs3, if_false]
                    cases rest2 with
                    | nil => simp at h; omega
                    | cons b3 rest3 => simp
                · simp [h2]

theorem fullRune_append (p e : Bytes) (h : fullRune p = true) : fullRune (p ++ e) = true := by
  cases p with
  | nil => simp [fullRune] at h
  | cons b0 rest =>
    simp only [List.cons_append]
    unfold fullRune at h ⊢
    simp only at h ⊢
    by_cases h0 : b0.toNat < runeSelf
    · simp [h0]
    · simp only [h0, if_false] at h ⊢
      cases hl : leadInfo b0.toNat with
      | none => simp
      | some t =>
        obtain ⟨sz, lo, hi⟩ := t
        simp only [hl] at h ⊢
        by_cases hlen : (b0 :: rest).length ≥ sz
        · have : (b0 :: (rest ++ e)).length ≥ sz := by simp at hlen ⊢; omega
          rw [if_pos this]
        · simp only [hlen, if_false] at h
          by_cases hlen2 : (b0 :: (rest ++ e)).length ≥ sz
          · rw [if_pos hlen2]
          · rw [if_neg hlen2]
            cases rest with
            | nil => simp at h
            | cons b1 rest1 =>
              simp only [List.cons_append]
              by_cases h1 : b1.toNat < lo ∨ hi < b1.toNat
              · simp [h1]
              · simp only [h1, if_false] at h ⊢
                cases rest1 with
                | nil => simp at h
                | cons b2 rest2 => simpa using h

theorem fullRune_of_size_gt_one (p : Bytes) (h : (decodeRune p).2 > 1) : fullRune p = true := by
  cases p with
  | nil => simp [decodeRune] at h
  | cons b0 rest =>
    unfold decodeRune at h
    unfold fullRune
    simp only at h ⊢
    by_cases h0 : b0.toNat < runeSelf
    · simp [h0]
    · simp only [h0, if_false] at h ⊢
      cases hl : leadInfo b0.toNat with
      | none => simp
      | some t =>
        obtain ⟨sz, lo, hi⟩ := t
        simp only [hl] at h ⊢
        have hsz := leadInfo_sz hl
        cases rest with
        | nil => simp at h
        | cons b1 rest1 =>
          by_cases h1 : b1.toNat < lo ∨ hi < b1.toNat
          · simp [h1]
          · simp only [h1, if_false] at h ⊢
            by_cases hs2 : sz = 2
            · simp [hs2]
            · simp only [hs2, if_false] at h
              cases rest1 with
              | nil => simp at h
              | cons b2 rest2 =>
                by_cases h2 : isCont b2.toNat = true
                · simp only [h2, Bool.not_true, Bool.false_eq_true, if_false] at h ⊢
                  by_cases hs3 : sz = 3
                  · simp [hs3]
                  · simp only [hs3, if_false] at h
                    cases rest2 with
                    | nil => simp at h
                    | cons b3 rest3 => simp; omega
                · simp [h2]

theorem decodeRune_of_not_full (c : UInt8) (r : Bytes) (h : fullRune (c :: r) = false) :
    decodeRune (c :: r) = (runeError, 1) := by
  unfold fullRune at h
  unfold decodeRune
  simp only at h ⊢
  by_cases h0 : c.toNat < runeSelf
  · simp [h0] at h
  · simp only [h0, if_false] at h ⊢
    cases hl : leadInfo c.toNat with
    | none => simp [hl] at h
    | some t =>
      obtain ⟨sz, lo, hi⟩ := t
      simp only [hl] at h ⊢
      have hsz := leadInfo_sz hl
      by_cases hlen : (c :: r).length ≥ sz
      · rw [if_pos hlen] at h; simp at h
      · rw [if_neg hlen] at h
        cases r with
        | nil => rfl
        | cons b1 rest1 =>
          by_cases h1 : b1.toNat < lo ∨ hi < b1.toNat
          · simp [h1] at h
          · simp only [h1, if_false] at h ⊢
            have hs2 : sz ≠ 2 := by simp at hlen; omega
            simp only [hs2, if_false]
            cases rest1 with
            | nil => rfl
            | cons b2 rest2 =>
              by_cases h2 : isCont b2.toNat = true
              · simp only [h2, Bool.not_true, Bool.false_eq_true, if_false] at h ⊢
                have hs3 : sz ≠ 3 := by simp at hlen; omega
                simp only [hs3, if_false]
                cases rest2 with
                | nil => rfl
                | cons b3 rest3 => simp at hlen; omega
              · simp [h2] at h

theorem decodeRune_ascii (c : UInt8) (r : Bytes) (h : c.toNat < runeSelf) : decodeRune (c :: r) = (c.toNat, 1) := by
  simp [decodeRune, h]

theorem decodeRune_size_le (p : Bytes) : (decodeRune p).2 ≤ p.length := by
  cases p with
  | nil => simp [decodeRune]
  | cons b0 rest =>
    unfold decodeRune
    simp only
    by_cases h0 : b0.toNat < runeSelf
    · simp [h0]
    · simp only [h0, if_false]
      cases hl : leadInfo b0.toNat with
      | none => simp
      | some t =>
        obtain ⟨sz, lo, hi⟩ := t
        simp only
        cases rest with
        | nil => simp
        | cons b1 rest1 =>
          by_cases h1 : b1.toNat < lo ∨ hi < b1.toNat
          · simp [h1]
          · simp only [h1, if_false]
            by_cases hs2 : sz = 2
            · simp [hs2]
            · simp only [hs2, if_false]
              cases rest1 with
              | nil => simp
              | cons b2 rest2 =>
                by_cases h2 : isCont b2.toNat = true
                · simp only [h2, Bool.not_true, Bool.false_eq_true, if_false]
                  by_cases hs3 : sz = 3
                  · simp [hs3]
                  · simp only [hs3, if_false]
                    cases rest2 with
                    | nil => simp
                    | cons b3 rest3 =>
                      by_cases h3 : isCont b3.toNat = true
                      · simp [h3]
                      · simp [h3]
                · simp [h2]

end JsonV.Model.Utf8
