/-
The re-quoted string literal `canonQuote s` is lexically a JSON string for the tokenizer of C12.
-/
import JsonV.Model.Canon
import JsonV.Lemmas.CanonAtom

namespace JsonV.Lemmas.CanonLex
open JsonV JsonV.Fmt JsonV.Canon JsonV.Model.Utf8 JsonV.Spec.StringSpec JsonV.Lemmas.CanonAtom

/-- a byte that may stand unescaped inside a string literal -/
def bodySafe (c : UInt8) : Prop := c ≠ 0x22 ∧ c ≠ 0x5c ∧ ¬ c < 0x20

/-- `bs` is scanned through inside a string body, ending in the body state again. -/
def Thru (bs : Bytes) : Prop := ∀ Y, scanStr .body Y = some (Y, []) → scanStr .body (bs ++ Y) = some (bs ++ Y, [])

theorem thru_nil : Thru [] := fun _ h => h

theorem thru_append {a b : Bytes} (ha : Thru a) (hb : Thru b) : Thru (a ++ b) := by
  intro Y h
  rw [List.append_assoc]
  exact ha _ (hb Y h)

theorem scan_step (st st' : SSt) (c : UInt8) (cs : Bytes) (h : st.next c = some (some st')) :
    scanStr st (c :: cs) = consFst c (scanStr st' cs) := by
  rw [scanStr]; simp only [h]

theorem thru_safe (c : UInt8) (h : bodySafe c) : Thru [c] := by
  intro Y hy
  obtain ⟨h1, h2, h3⟩ := h
  have n : SSt.body.next c = some (some .body) := by simp only [SSt.next, h1, h2, h3, if_false]
  rw [List.singleton_append, scan_step _ _ _ _ n, hy]; rfl

theorem thru_safes : ∀ (bs : Bytes), (∀ c ∈ bs, bodySafe c) → Thru bs
  | [], _ => thru_nil
  | c :: cs, h => by
    have : c :: cs = [c] ++ cs := rfl
    rw [this]
    exact thru_append (thru_safe c (h c (by simp))) (thru_safes cs (fun x hx => h x (by simp [hx])))

theorem thru_simple (x : UInt8) (hx : isSimpleEsc x = true) (hu : x ≠ 0x75) : Thru [0x5c, x] := by
  intro Y hy
  have n1 : SSt.body.next 0x5c = some (some .esc) := by decide
  have n2 : SSt.esc.next x = some (some .body) := by simp only [SSt.next, hu, hx, if_true, if_false]
  show scanStr .body (0x5c :: x :: Y) = _
  rw [scan_step _ _ _ _ n1, scan_step _ _ _ _ n2, hy]; rfl

theorem thru_u00 (h1 h2 : UInt8) (a : isHex h1 = true) (b : isHex h2 = true) : Thru [0x5c, 0x75, 0x30, 0x30, h1, h2] := by
  intro Y hy
  have n1 : SSt.body.next 0x5c = some (some .esc) := by decide
  have n2 : SSt.esc.next 0x75 = some (some .h4) := by decide
  have n3 : SSt.h4.next 0x30 = some (some .h3) := by decide
  have n4 : SSt.h3.next 0x30 = some (some .h2) := by decide
  have n5 : SSt.h2.next h1 = some (some .h1) := by simp only [SSt.next, a, if_true]
  have n6 : SSt.h1.next h2 = some (some .body) := by simp only [SSt.next, b, if_true]
  show scanStr .body (0x5c :: 0x75 :: 0x30 :: 0x30 :: h1 :: h2 :: Y) = _
  rw [scan_step _ _ _ _ n1, scan_step _ _ _ _ n2, scan_step _ _ _ _ n3, scan_step _ _ _ _ n4,
    scan_step _ _ _ _ n5, scan_step _ _ _ _ n6, hy]; rfl

theorem hexDigitLower_isHex (n : Nat) (h : n < 16) : isHex (hexDigitLower n) = true := by
  have : ∀ k : Fin 16, isHex (hexDigitLower k.val) = true := by decide
  exact this ⟨n, h⟩

/-- the byte layout of `encodeRune` after its normalisation step -/
def encLayout (r : Nat) : Bytes :=
  if r < 0x80 then [UInt8.ofNat r]
  else if r < 0x800 then [UInt8.ofNat (0xC0 + r / 64), UInt8.ofNat (0x80 + r % 64)]
  else if r < 0x10000 then
    [UInt8.ofNat (0xE0 + r / 4096), UInt8.ofNat (0x80 + (r / 64) % 64), UInt8.ofNat (0x80 + r % 64)]
  else
    [UInt8.ofNat (0xF0 + r / 262144), UInt8.ofNat (0x80 + (r / 4096) % 64),
     UInt8.ofNat (0x80 + (r / 64) % 64), UInt8.ofNat (0x80 + r % 64)]

theorem encodeRune_layout (r : Nat) :
    encodeRune r = encLayout (if r > maxRune ∨ (0xD800 ≤ r ∧ r ≤ 0xDFFF) then runeError else r) := rfl

theorem encLayout_high (r : Nat) (b1 : 0x80 ≤ r) (b2 : r ≤ 0x10FFFF) : ∀ c ∈ encLayout r, 0x80 ≤ c.toNat := by
  intro c hc
  unfold encLayout at hc
  rw [if_neg (by omega)] at hc
  by_cases h2 : r < 0x800
  · rw [if_pos h2] at hc
    simp only [List.mem_cons, List.not_mem_nil, or_false] at hc
    rcases hc with rfl | rfl <;> simp only [UInt8.toNat_ofNat'] <;> omega
  · rw [if_neg h2] at hc
    by_cases h3 : r < 0x10000
    · rw [if_pos h3] at hc
      simp only [List.mem_cons, List.not_mem_nil, or_false] at hc
      rcases hc with rfl | rfl | rfl <;> simp only [UInt8.toNat_ofNat'] <;> omega
    · rw [if_neg h3] at hc
      simp only [List.mem_cons, List.not_mem_nil, or_false] at hc
      rcases hc with rfl | rfl | rfl | rfl <;> simp only [UInt8.toNat_ofNat'] <;> omega

/-- Every byte of the UTF-8 encoding of a code point ≥ U+0080 is ≥ 0x80. -/
theorem encodeRune_high (r : Nat) (h : 0x80 ≤ r) : ∀ c ∈ encodeRune r, 0x80 ≤ c.toNat := by
  rw [encodeRune_layout]
  apply encLayout_high
  · unfold runeError; split <;> omega
  · unfold runeError maxRune; split <;> omega

theorem bodySafe_of_toNat (c : UInt8) (h : 0x20 ≤ c.toNat) (h1 : c.toNat ≠ 0x22) (h2 : c.toNat ≠ 0x5c) : bodySafe c := by
  refine ⟨?_, ?_, ?_⟩
  · intro e; subst e; simp at h1
  · intro e; subst e; simp at h2
  · intro hlt
    have : c.toNat < (0x20 : UInt8).toNat := UInt8.lt_iff_toNat_lt.mp hlt
    simp at this; omega

theorem thru_canonChar (r : Nat) : Thru (canonChar r) := by
  unfold canonChar
  split
  · exact thru_simple _ (by decide) (by decide)
  · split
    · exact thru_simple _ (by decide) (by decide)
    · split
      · exact thru_simple _ (by decide) (by decide)
      · split
        · exact thru_simple _ (by decide) (by decide)
        · split
          · exact thru_simple _ (by decide) (by decide)
          · split
            · exact thru_simple _ (by decide) (by decide)
            · split
              · exact thru_simple _ (by decide) (by decide)
              · split
                · next h => exact thru_u00 _ _ (hexDigitLower_isHex _ (by omega)) (hexDigitLower_isHex _ (by omega))
                · next n1 n2 _ _ _ _ _ h =>
                  apply thru_safes
                  intro c hc
                  by_cases hr : r < 0x80
                  · have e : encodeRune r = [UInt8.ofNat r] := by
                      rw [encodeRune_layout]
                      have : ¬ (r > maxRune ∨ (0xD800 ≤ r ∧ r ≤ 0xDFFF)) := by unfold maxRune; omega
                      rw [if_neg this]; unfold encLayout; rw [if_pos hr]
                    rw [e] at hc
                    simp only [List.mem_singleton] at hc
                    subst hc
                    have t : (UInt8.ofNat r).toNat = r := by simp only [UInt8.toNat_ofNat']; omega
                    exact bodySafe_of_toNat _ (by omega) (by omega) (by omega)
                  · have := encodeRune_high r (by omega) c hc
                    exact bodySafe_of_toNat _ (by omega) (by omega) (by omega)

theorem thru_flatMap : ∀ rs : List Nat, Thru (rs.flatMap canonChar)
  | [] => thru_nil
  | r :: rs => by
    rw [List.flatMap_cons]
    exact thru_append (thru_canonChar r) (thru_flatMap rs)

/-- `canonQuote s` is a lexically valid string token. -/
theorem canonQuote_valid (s : Bytes) : (Tok.str (canonQuote s)).valid = true := by
  unfold canonQuote
  simp only [Tok.valid, beq_self_eq_true, Bool.true_and, beq_iff_eq]
  apply thru_flatMap (scalars s) [0x22]
  simp [scanStr, SSt.next]

theorem canonStr_valid (lit : Bytes) : (Tok.str (canonStr lit)).valid = true := by
  rw [canonStr_minimal]; exact canonQuote_valid _

end JsonV.Lemmas.CanonLex
