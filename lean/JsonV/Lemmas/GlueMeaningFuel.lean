/-
Fuel of the C03 spec parser: `2·len + 2` units always suffice; a successful parse does not depend on the fuel.
-/
import JsonV.Lemmas.GlueMeaningStr

set_option linter.unusedSimpArgs false

namespace JsonV.Lemmas.GlueMeaningFuel
open JsonV JsonV.Spec.Meaning JsonV.Spec.Grammar
open JsonV.Lemmas.GlueMeaningLex JsonV.Lemmas.GlueMeaningStr

theorem lexStr_lt {r s rest : Bytes} (h : lexStr r = some (s, rest)) : rest.length < r.length := by
  obtain ⟨lit, ⟨body, _, hl⟩, hb⟩ := lexStr_spec h
  have := congrArg List.length hb
  rw [hl] at this
  simp at this; omega

theorem jnumber_ne_nil {l : Bytes} (h : JNumber l) : 0 < l.length := by
  cases h with
  | mk minus int frac exp _ hi _ _ =>
    cases hi with
    | zero => simp; omega
    | nonzero d ds _ _ => simp; omega

theorem lexScalar_lt {b : Bytes} {t : MTree} {rest : Bytes} (h : lexScalar b = some (t, rest)) : rest.length < b.length := by
  cases b with
  | nil => simp [lexScalar] at h
  | cons c r =>
    simp only [lexScalar] at h
    by_cases h22 : c = 0x22
    · simp only [h22, if_true] at h
      cases hl : lexStr r with
      | none => simp [hl] at h
      | some p =>
        obtain ⟨s, r'⟩ := p
        simp only [hl, Option.some.injEq, Prod.mk.injEq] at h
        obtain ⟨_, rfl⟩ := h
        have := lexStr_lt hl
        simp; omega
    · simp only [h22, if_false] at h
      have strip : ∀ (lit : Bytes) (f : Bytes → MTree × Bytes), (∀ x, (f x).2 = x) → 0 < lit.length →
          Option.map f (stripPrefix lit (c :: r)) = some (t, rest) → rest.length < (c :: r).length := by
        intro lit f hf hlit hm
        cases hs : stripPrefix lit (c :: r) with
        | none => simp [hs] at hm
        | some r' =>
          simp only [hs, Option.map_some, Option.some.injEq] at hm
          have h2 := hf r'
          rw [hm] at h2
          simp only at h2
          have := congrArg List.length (stripPrefix_eq hs)
          simp only [List.length_append] at this
          rw [h2]; omega
      by_cases h6e : c = 0x6E
      · simp only [h6e, if_true] at h
        rw [h6e]; rw [h6e] at strip
        exact strip litNull _ (fun _ => rfl) (by decide) h
      · simp only [h6e, if_false] at h
        by_cases h74 : c = 0x74
        · simp only [h74, if_true] at h
          rw [h74]; rw [h74] at strip
          exact strip litTrue _ (fun _ => rfl) (by decide) h
        · simp only [h74, if_false] at h
          by_cases h66 : c = 0x66
          · simp only [h66, if_true] at h
            rw [h66]; rw [h66] at strip
            exact strip litFalse _ (fun _ => rfl) (by decide) h
          · simp only [h66, if_false] at h
            cases hn : lexNum (c :: r) with
            | none => simp [hn] at h
            | some p =>
              obtain ⟨l, r'⟩ := p
              simp only [hn, Option.some.injEq, Prod.mk.injEq] at h
              obtain ⟨_, rfl⟩ := h
              obtain ⟨hb, hj⟩ := lexNum_spec hn
              have := congrArg List.length hb
              have := jnumber_ne_nil hj
              simp only [List.length_append] at *
              omega

theorem skipWs_cons_len {b : Bytes} {c : UInt8} {r : Bytes} (h : skipWs b = c :: r) : r.length + 1 ≤ b.length := by
  have := skipWs_length_le b
  rw [h] at this; simpa using this

/-- The three statements proved together by induction on the fuel of the given successful run. -/
def FuelOK (n : Nat) : Prop :=
  (∀ (b : Bytes) (t : MTree) (rest : Bytes), parseValue n b = some (t, rest) →
    rest.length < b.length ∧ ∀ m, 2 * b.length ≤ m → parseValue m b = some (t, rest)) ∧
  (∀ (b : Bytes) (ms : List (Bytes × MTree)) (rest : Bytes), parseMembers n b = some (ms, rest) →
    rest.length < b.length ∧ ∀ m, 2 * b.length ≤ m → parseMembers m b = some (ms, rest)) ∧
  (∀ (b : Bytes) (xs : List MTree) (rest : Bytes), parseElems n b = some (xs, rest) →
    rest.length < b.length ∧ ∀ m, 2 * b.length + 1 ≤ m → parseElems m b = some (xs, rest))

theorem value_fuel (n : Nat) (ih : FuelOK n) (b : Bytes) (t : MTree) (rest : Bytes) (h : parseValue (n+1) b = some (t, rest)) :
    rest.length < b.length ∧ ∀ m, 2 * b.length ≤ m → parseValue m b = some (t, rest) := by
  obtain ⟨_, ihM, ihE⟩ := ih
  cases b with
  | nil => simp [parseValue] at h
  | cons k r =>
    by_cases h7 : k = 0x7B
    · subst h7
      simp only [parseValue, if_true] at h
      cases hs : skipWs r with
      | nil => simp [hs] at h
      | cons k' r' =>
        simp only [hs] at h
        have hlen := skipWs_cons_len hs
        by_cases h7d : k' = 0x7D
        · simp only [h7d, if_true, Option.some.injEq, Prod.mk.injEq] at h
          obtain ⟨rfl, rfl⟩ := h
          refine ⟨by simp; omega, ?_⟩
          intro m hm
          cases m with
          | zero => simp at hm
          | succ m' => simp [parseValue, hs, h7d]
        · simp only [h7d, if_false] at h
          cases hm : parseMembers n (k' :: r') with
          | none => simp [hm] at h
          | some q =>
            obtain ⟨ms, r2⟩ := q
            simp only [hm, Option.some.injEq, Prod.mk.injEq] at h
            obtain ⟨rfl, rfl⟩ := h
            obtain ⟨hlt, hmono⟩ := ihM _ _ _ hm
            simp only [List.length_cons] at hlt hmono ⊢
            refine ⟨by omega, ?_⟩
            intro m hm2
            cases m with
            | zero => omega
            | succ m' =>
              simp only [parseValue, if_true, hs, h7d, if_false]
              rw [hmono m' (by omega)]
    · by_cases h5 : k = 0x5B
      · subst h5
        simp only [parseValue, show ((0x5B : UInt8) = 0x7B) = False by decide, if_false, if_true] at h
        cases hs : skipWs r with
        | nil => simp [hs] at h
        | cons k' r' =>
          simp only [hs] at h
          have hlen := skipWs_cons_len hs
          by_cases h5d : k' = 0x5D
          · simp only [h5d, if_true, Option.some.injEq, Prod.mk.injEq] at h
            obtain ⟨rfl, rfl⟩ := h
            refine ⟨by simp; omega, ?_⟩
            intro m hm
            cases m with
            | zero => simp at hm
            | succ m' => simp [parseValue, hs, h5d]
          · simp only [h5d, if_false] at h
            cases hm : parseElems n (k' :: r') with
            | none => simp [hm] at h
            | some q =>
              obtain ⟨xs, r2⟩ := q
              simp only [hm, Option.some.injEq, Prod.mk.injEq] at h
              obtain ⟨rfl, rfl⟩ := h
              obtain ⟨hlt, hmono⟩ := ihE _ _ _ hm
              simp only [List.length_cons] at hlt hmono ⊢
              refine ⟨by omega, ?_⟩
              intro m hm2
              cases m with
              | zero => omega
              | succ m' =>
                simp only [parseValue, show ((0x5B : UInt8) = 0x7B) = False by decide, if_true, hs, h5d, if_false]
                rw [hmono m' (by omega)]
      · simp only [parseValue, h7, h5, if_false] at h
        refine ⟨lexScalar_lt h, ?_⟩
        intro m hm
        cases m with
        | zero => simp at hm
        | succ m' => simp only [parseValue, h7, h5, if_false]; exact h

theorem members_fuel (n : Nat) (ih : FuelOK n) (b : Bytes) (ms : List (Bytes × MTree)) (rest : Bytes)
    (h : parseMembers (n+1) b = some (ms, rest)) :
    rest.length < b.length ∧ ∀ m, 2 * b.length ≤ m → parseMembers m b = some (ms, rest) := by
  obtain ⟨ihV, ihM, _⟩ := ih
  cases b with
  | nil => simp [parseMembers] at h
  | cons k r =>
    simp only [parseMembers] at h
    by_cases hk : k = 0x22
    · simp only [hk, if_true] at h
      cases hl : lexStr r with
      | none => simp [hl] at h
      | some p =>
        obtain ⟨name, r1⟩ := p
        simp only [hl] at h
        have hl1 := lexStr_lt hl
        cases hs1 : skipWs r1 with
        | nil => simp [hs1] at h
        | cons k2 r2 =>
          simp only [hs1] at h
          have hl2 := skipWs_cons_len hs1
          by_cases h2 : k2 = 0x3A
          · simp only [h2, if_true] at h
            have hl3 := skipWs_length_le r2
            cases hv : parseValue n (skipWs r2) with
            | none => simp [hv] at h
            | some q =>
              obtain ⟨v, r3⟩ := q
              simp only [hv] at h
              obtain ⟨hvlt, hvmono⟩ := ihV _ _ _ hv
              cases hs3 : skipWs r3 with
              | nil => simp [hs3] at h
              | cons k4 r4 =>
                simp only [hs3] at h
                have hl4 := skipWs_cons_len hs3
                by_cases h4 : k4 = 0x2C
                · simp only [h4, if_true] at h
                  have hl5 := skipWs_length_le r4
                  cases hm : parseMembers n (skipWs r4) with
                  | none => simp [hm] at h
                  | some q2 =>
                    obtain ⟨ms', r5⟩ := q2
                    simp only [hm, Option.some.injEq, Prod.mk.injEq] at h
                    obtain ⟨rfl, rfl⟩ := h
                    obtain ⟨hmlt, hmmono⟩ := ihM _ _ _ hm
                    simp only [List.length_cons]
                    refine ⟨by omega, ?_⟩
                    intro m hm2
                    cases m with
                    | zero => omega
                    | succ m' =>
                      simp only [parseMembers, hk, if_true, hl, hs1, h2]
                      rw [hvmono m' (by omega)]
                      simp only [hs3, h4, if_true]
                      rw [hmmono m' (by omega)]
                · simp only [h4, if_false] at h
                  by_cases h5 : k4 = 0x7D
                  · simp only [h5, if_true, Option.some.injEq, Prod.mk.injEq] at h
                    obtain ⟨rfl, rfl⟩ := h
                    simp only [List.length_cons]
                    refine ⟨by omega, ?_⟩
                    intro m hm2
                    cases m with
                    | zero => omega
                    | succ m' =>
                      simp only [parseMembers, hk, if_true, hl, hs1, h2]
                      rw [hvmono m' (by omega)]
                      simp [hs3, h5]
                  · simp [h5] at h
          · simp [h2] at h
    · simp [hk] at h

theorem elems_fuel (n : Nat) (ih : FuelOK n) (b : Bytes) (xs : List MTree) (rest : Bytes)
    (h : parseElems (n+1) b = some (xs, rest)) :
    rest.length < b.length ∧ ∀ m, 2 * b.length + 1 ≤ m → parseElems m b = some (xs, rest) := by
  obtain ⟨ihV, _, ihE⟩ := ih
  simp only [parseElems] at h
  cases hv : parseValue n b with
  | none => simp [hv] at h
  | some q =>
    obtain ⟨v, r3⟩ := q
    simp only [hv] at h
    obtain ⟨hvlt, hvmono⟩ := ihV _ _ _ hv
    cases hs3 : skipWs r3 with
    | nil => simp [hs3] at h
    | cons k4 r4 =>
      simp only [hs3] at h
      have hl4 := skipWs_cons_len hs3
      by_cases h4 : k4 = 0x2C
      · simp only [h4, if_true] at h
        have hl5 := skipWs_length_le r4
        cases hm : parseElems n (skipWs r4) with
        | none => simp [hm] at h
        | some q2 =>
          obtain ⟨xs', r5⟩ := q2
          simp only [hm, Option.some.injEq, Prod.mk.injEq] at h
          obtain ⟨rfl, rfl⟩ := h
          obtain ⟨hmlt, hmmono⟩ := ihE _ _ _ hm
          refine ⟨by omega, ?_⟩
          intro m hm2
          cases m with
          | zero => omega
          | succ m' =>
            simp only [parseElems]
            rw [hvmono m' (by omega)]
            simp only [hs3, h4, if_true]
            rw [hmmono m' (by omega)]
      · simp only [h4, if_false] at h
        by_cases h5 : k4 = 0x5D
        · simp only [h5, if_true, Option.some.injEq, Prod.mk.injEq] at h
          obtain ⟨rfl, rfl⟩ := h
          refine ⟨by omega, ?_⟩
          intro m hm2
          cases m with
          | zero => omega
          | succ m' =>
            simp only [parseElems]
            rw [hvmono m' (by omega)]
            simp [hs3, h5]
        · simp [h5] at h

theorem fuelOK (n : Nat) : FuelOK n := by
  induction n with
  | zero =>
    refine ⟨?_, ?_, ?_⟩
    · intro b t rest h; simp [parseValue] at h
    · intro b ms rest h; simp [parseMembers] at h
    · intro b xs rest h; simp [parseElems] at h
  | succ n ih => exact ⟨value_fuel n ih, members_fuel n ih, elems_fuel n ih⟩

/-- A parse that succeeds with SOME amount of fuel succeeds, with the same tree, with every amount
`≥ 2·len` — in particular with the `2·len + 2` that `parseTree` uses. -/
theorem parseTreeF_mono (n : Nat) (b : Bytes) (t : MTree) (h : parseTreeF n b = some t) (m : Nat) (hm : 2 * b.length ≤ m) :
    parseTreeF m b = some t := by
  unfold parseTreeF at h ⊢
  cases hv : parseValue n (skipWs b) with
  | none => simp [hv] at h
  | some q =>
    obtain ⟨t', r⟩ := q
    simp only [hv] at h
    have := ((fuelOK n).1 _ _ _ hv).2 m (by have := skipWs_length_le b; omega)
    rw [this]
    exact h

end JsonV.Lemmas.GlueMeaningFuel
