/-
Lemmas about "poisoned" coders (C08): once `InvalidateDisabledNamespaces` has marked the current object,
every state-machine transition fails (and, returning no new state, keeps failing).
Uses the shared `stateEntry`/`stateMachine` model.
-/
import JsonV.Model.State

namespace JsonV.Lemmas.Dup
open JsonV JsonV.Model

theorem invalidBit_61 : Entry.invalidNamespaceBit.getLsbD 61 = true := by decide

/-- An invalidated entry is not valid. -/
theorem isValid_invalidate (e : Entry) : (Entry.invalidateNamespace e).isValidNamespace = false := by
  unfold Entry.isValidNamespace Entry.invalidateNamespace
  have h : ((e ||| Entry.invalidNamespaceBit) &&& Entry.invalidNamespaceBit).getLsbD 61 = true := by
    rw [BitVec.getLsbD_and, BitVec.getLsbD_or, invalidBit_61]; simp
  cases hb : ((e ||| Entry.invalidNamespaceBit) &&& Entry.invalidNamespaceBit == 0#64) with
  | false => rfl
  | true =>
    have := eq_of_beq hb
    rw [this] at h
    simp at h

/-- After `InvalidateDisabledNamespaces` an entry whose namespace was disabled is invalid. -/
theorem last_invalid (m : Machine) (h : m.last.isActiveNamespace = false) :
    m.invalidateDisabledNamespaces.last.isValidNamespace = false := by
  unfold Machine.invalidateDisabledNamespaces
  simp only [h, Bool.not_false, if_true]
  exact isValid_invalidate _

end JsonV.Lemmas.Dup
