/-
Lemmas for the strict model (Model/FormatStrict.lean): the validation options are predicates on the token
list, hence invariant under re-rendering; under PreserveRawStrings without an escape option no token changes.
-/
import JsonV.Model.FormatStrict
import JsonV.Lemmas.FormatMain
import JsonV.Lemmas.WireString

namespace JsonV.Fmt
open JsonV.Model JsonV.Spec.Grammar

theorem tokenizeV_eq_some (o : FOpts) (b : Bytes) (ts : List Tok) :
    tokenizeV o b = some ts ↔ tokenize b = some ts ∧ tokensOK o ts = true := by
  unfold tokenizeV
  cases ht : tokenize b with
  | none => simp
  | some ts' =>
    by_cases hk : tokensOK o ts' = true
    · simp only [hk, if_true, Option.some.injEq]
      constructor
      · rintro rfl; exact ⟨rfl, hk⟩
      · rintro ⟨rfl, _⟩; rfl
    · simp only [hk, Bool.false_eq_true, if_false]
      constructor
      · intro h; simp at h
      · rintro ⟨h1, h2⟩
        simp only [Option.some.injEq] at h1
        subst h1; exact absurd h2 hk

theorem tokenizeV_render' (o : FOpts) (w : WsOpts) (hw : w.Blank) (ts : List Tok) (h : WellNested ts)
    (hk : tokensOK o ts = true) : tokenizeV o (render w ts) = some ts :=
  (tokenizeV_eq_some o _ ts).mpr ⟨tokenize_render' w hw ts h, hk⟩

theorem respell_verbatim (o : FOpts) (hv : o.verbatim) (ts : List Tok) : ts.map (respellTok o) = ts := by
  obtain ⟨h1, h2, h3⟩ := hv
  have : ∀ t, respellTok o t = t := by
    intro t
    cases t <;> simp [respellTok, respellStr, h1, h2, h3]
  rw [show respellTok o = id from funext this, List.map_id]

/-- the strictness test is exactly the strict string grammar of C01 -/
theorem strictStr_iff (raw : Bytes) : strictStr raw = true ↔ JString true raw := by
  constructor
  · intro h
    simp only [strictStr, Bool.and_eq_true, beq_iff_eq] at h
    have := JsonV.Lemmas.WireString.consumeString_sound raw true raw.length (Wire.consumeString raw true).2.1
      (by rw [← h.2]; exact Prod.ext rfl (Prod.ext rfl h.1))
    simpa using this.2
  · intro h
    obtain ⟨f, hf⟩ := JsonV.Lemmas.WireString.consumeString_complete raw true raw.length (Nat.le_refl _) (by simpa using h)
    simp [strictStr, hf]

end JsonV.Fmt
