/-
Helper lemmas for C19: bit-level facts, tie theorems between the regenerated
`Gen.jsonflags_Flags_*` bodies and the hand-written `Model.Flags`, and the map reading.
-/
import JsonV.Model.Flags
import JsonV.Gen.Straight
namespace JsonV.Lemmas.FlagsL
open JsonV.Model JsonV.Gen

theorem and_one (f : BitVec 64) : f &&& 1#64 = if f.getLsbD 0 then 1#64 else 0#64 := by
  apply BitVec.eq_of_getLsbD_eq
  intro i hi
  cases h : f.getLsbD 0
  · by_cases h0 : i = 0
    · subst h0; simpa using h
    · simp [h0]
  · by_cases h0 : i = 0
    · subst h0; simpa using h
    · simp [h0]

theorem mul_lsb (f id : BitVec 64) : (f &&& 1#64) * id = if f.getLsbD 0 then id else 0#64 := by
  rw [and_one]; split <;> simp

theorem ult_zero (x : BitVec 64) : BitVec.ult 0#64 x = (x != 0#64) := by
  by_cases h : x = 0#64
  · subst h; decide
  · have : x.toNat ≠ 0 := fun h' => h (BitVec.eq_of_toNat_eq (by simpa using h'))
    have h2 : (x == 0#64) = false := by simpa using h
    simp [BitVec.ult, bne, h2]; omega

theorem tie_join (a b c d : BitVec 64) :
    jsonflags_Flags_Join a b c d = ((Flags.join ⟨a,b⟩ ⟨c,d⟩).presence, (Flags.join ⟨a,b⟩ ⟨c,d⟩).values) := by
  simp [jsonflags_Flags_Join, Flags.join]

theorem tie_set (a b f : BitVec 64) :
    jsonflags_Flags_Set a b f = ((Flags.set ⟨a,b⟩ f).presence, (Flags.set ⟨a,b⟩ f).values) := by
  simp [jsonflags_Flags_Set, Flags.set, Flags.idBits, mul_lsb]

theorem tie_get (a b f : BitVec 64) : jsonflags_Flags_Get a b f = Flags.get ⟨a,b⟩ f := by
  simp [jsonflags_Flags_Get, Flags.get, ult_zero]
theorem tie_has (a b f : BitVec 64) : jsonflags_Flags_Has a b f = Flags.has ⟨a,b⟩ f := by
  simp [jsonflags_Flags_Has, Flags.has, ult_zero]
theorem tie_clear (a b f : BitVec 64) :
    jsonflags_Flags_Clear a b f = ((Flags.clear ⟨a,b⟩ f).presence, (Flags.clear ⟨a,b⟩ f).values) := by
  simp [jsonflags_Flags_Clear, Flags.clear]

-- algebra
theorem wf_values (b : Flags) (hb : b.WF) (j : Nat) (hj : b.values.getLsbD j = true) : b.presence.getLsbD j = true := by
  have := congrArg (fun x => x.getLsbD j) hb.1
  simp [hj] at this
  exact this (BitVec.lt_of_getLsbD hj)

theorem lookup_join (a b : Flags) (hb : b.WF) (i : Nat) :
    (a.join b).lookup i = (b.lookup i).orElse (fun _ => a.lookup i) := by
  have hv := wf_values b hb i
  simp only [Flags.lookup, Flags.join, BitVec.getLsbD_or, BitVec.getLsbD_and, BitVec.getLsbD_not]
  cases hp : b.presence.getLsbD i <;> cases ha : a.presence.getLsbD i <;> simp
  all_goals (cases hbv : b.values.getLsbD i <;> simp_all)
  all_goals (intro h; exact BitVec.lt_of_getLsbD h)

theorem id_bit (f : BitVec 64) (i : Nat) :
    (Flags.idBits f).getLsbD i = (f.getLsbD i && decide (i ≠ 0)) := by
  unfold Flags.idBits
  by_cases h0 : i = 0
  · subst h0; simp
  · cases hfi : f.getLsbD i
    · simp [hfi]
    · have hi : i < 64 := BitVec.lt_of_getLsbD hfi
      simp only [BitVec.getLsbD_and, BitVec.getLsbD_not, hfi]
      simp [h0, hi]

theorem getLsbD_ite (c : Bool) (x : BitVec 64) (i : Nat) :
    (if c then x else 0#64).getLsbD i = (c && x.getLsbD i) := by
  cases c <;> simp

theorem lookup_set (fs : Flags) (f : BitVec 64) (i : Nat) :
    (fs.set f).lookup i =
      if f.getLsbD i && decide (i ≠ 0) then some (f.getLsbD 0) else fs.lookup i := by
  have hb := id_bit f i
  simp only [Flags.lookup, Flags.set]
  simp only [BitVec.getLsbD_or, BitVec.getLsbD_and, BitVec.getLsbD_not, getLsbD_ite, hb]
  cases hfi : f.getLsbD i <;> cases hf : f.getLsbD 0 <;> cases hp : fs.presence.getLsbD i <;>
    by_cases h0 : i = 0 <;> simp [h0]
  all_goals (first | (intro h; exact BitVec.lt_of_getLsbD h) | exact BitVec.lt_of_getLsbD hfi | skip)

theorem lookup_clear (fs : Flags) (f : BitVec 64) (i : Nat) :
    (fs.clear f).lookup i = if f.getLsbD i then none else fs.lookup i := by
  simp only [Flags.lookup, Flags.clear, BitVec.getLsbD_and, BitVec.getLsbD_not]
  cases hfi : f.getLsbD i <;> cases hp : fs.presence.getLsbD i <;> simp
  exact ⟨BitVec.lt_of_getLsbD hp, fun h => BitVec.lt_of_getLsbD h⟩

theorem join_assoc (a b c : Flags) : (a.join b).join c = a.join (b.join c) := by
  simp only [Flags.join, Flags.mk.injEq]
  constructor
  · exact BitVec.or_assoc _ _ _
  · apply BitVec.eq_of_getLsbD_eq; intro i hi
    simp only [BitVec.getLsbD_or, BitVec.getLsbD_and, BitVec.getLsbD_not]
    cases a.values.getLsbD i <;> cases b.values.getLsbD i <;> cases c.values.getLsbD i <;>
      cases b.presence.getLsbD i <;> cases c.presence.getLsbD i <;> simp [hi]

theorem join_empty_left (a : Flags) : Flags.empty.join a = a := by
  simp [Flags.join, Flags.empty]
theorem join_empty_right (a : Flags) : a.join Flags.empty = a := by
  have h : ~~~(0#64) = BitVec.allOnes 64 := by decide
  cases a; simp only [Flags.join, Flags.empty, BitVec.or_zero, h, BitVec.and_allOnes]

theorem join_idem (a : Flags) (h : a.WF) : a.join a = a := by
  cases a with | mk p v =>
  simp only [Flags.join, Flags.mk.injEq, BitVec.or_self, true_and]
  have := h.1; simp only at this
  rw [this]; simp

theorem wf_empty : Flags.empty.WF := by simp [Flags.WF, Flags.empty]

theorem wf_join (a b : Flags) (ha : a.WF) (hb : b.WF) : (a.join b).WF := by
  refine ⟨?_, ?_⟩
  · apply BitVec.eq_of_getLsbD_eq; intro i hi
    have h1 := wf_values a ha i
    have h2 := wf_values b hb i
    simp only [Flags.join, BitVec.getLsbD_or, BitVec.getLsbD_and, BitVec.getLsbD_not, BitVec.getLsbD_zero]
    cases hav : a.values.getLsbD i <;> cases hbv : b.values.getLsbD i <;>
      cases hap : a.presence.getLsbD i <;> cases hbp : b.presence.getLsbD i <;> simp_all
  · have h1 := ha.2; have h2 := hb.2
    simp only [Flags.join, BitVec.getLsbD_or, h1, h2]; rfl

theorem wf_set (a : Flags) (f : BitVec 64) (ha : a.WF) : (a.set f).WF := by
  refine ⟨?_, ?_⟩
  · apply BitVec.eq_of_getLsbD_eq; intro i hi
    have h1 := wf_values a ha i
    have hb := id_bit f i
    simp only [Flags.set]
    simp only [BitVec.getLsbD_or, BitVec.getLsbD_and, BitVec.getLsbD_not, BitVec.getLsbD_zero, getLsbD_ite, hb]
    cases hf0 : f.getLsbD 0 <;> cases hav : a.values.getLsbD i <;> cases hfi : f.getLsbD i <;>
      cases hap : a.presence.getLsbD i <;> simp_all
  · have h1 := ha.2
    have hb := id_bit f 0
    simp only [Flags.set]
    simp only [BitVec.getLsbD_or, h1, hb]; simp

theorem wf_clear (a : Flags) (f : BitVec 64) (ha : a.WF) : (a.clear f).WF := by
  refine ⟨?_, ?_⟩
  · apply BitVec.eq_of_getLsbD_eq; intro i hi
    have h1 := wf_values a ha i
    simp only [Flags.clear, BitVec.getLsbD_and, BitVec.getLsbD_not, BitVec.getLsbD_zero]
    cases hav : a.values.getLsbD i <;> cases hfi : f.getLsbD i <;>
      cases hap : a.presence.getLsbD i <;> simp_all
  · have h1 := ha.2
    simp only [Flags.clear, BitVec.getLsbD_and, h1]; rfl

/-- `Get`/`Has` with a single identifier bit read exactly that bit. -/
theorem get_bit (fs : Flags) (i : Nat) (hi : i < 64) : fs.get (flagBit i) = fs.values.getLsbD i := by
  unfold Flags.get flagBit
  cases h : fs.values.getLsbD i
  · have : fs.values &&& 1#64 <<< i = 0#64 := by
      apply BitVec.eq_of_getLsbD_eq; intro j hj
      simp only [BitVec.getLsbD_and, BitVec.getLsbD_shiftLeft, BitVec.getLsbD_zero]
      by_cases hji : j = i
      · subst hji; simp [h]
      · have : (1#64).getLsbD (j - i) = false ∨ j < i := by
          by_cases hlt : j < i
          · exact Or.inr hlt
          · left; simp; omega
        rcases this with h1 | h1
        · simp [h1]
        · simp [h1]
    simp [this]
  · have : (fs.values &&& 1#64 <<< i).getLsbD i = true := by
      simp [BitVec.getLsbD_and, BitVec.getLsbD_shiftLeft, h, hi]
    have hne : fs.values &&& 1#64 <<< i ≠ 0#64 := by
      intro h0; rw [h0] at this; simp at this
    simp [bne, hne]

theorem has_bit (fs : Flags) (i : Nat) (hi : i < 64) : fs.has (flagBit i) = fs.presence.getLsbD i := by
  have := get_bit ⟨fs.values, fs.presence⟩ i hi
  simpa [Flags.get, Flags.has] using this

end JsonV.Lemmas.FlagsL
