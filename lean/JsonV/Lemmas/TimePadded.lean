/-
`appendPaddedBase10`/`parsePaddedBase10` and `appendFracBase10`/`parseFracBase10` round trips.
Core Lean only.
-/
import JsonV.Lemmas.TimeUint

namespace JsonV.Model.Time
open JsonV

/-! ### trimRight -/

theorem trimRight_cons (p : UInt8 → Bool) (x : UInt8) (xs : Bytes) :
    trimRight p (x :: xs) = (match trimRight p xs with
      | [] => if p x then [] else [x]
      | r => x :: r) := by
  rw [trimRight]; rfl

theorem trimRight_append_of_ne_nil (p : UInt8 → Bool) (xs ys : Bytes) (h : trimRight p ys ≠ []) :
    trimRight p (xs ++ ys) = xs ++ trimRight p ys := by
  induction xs with
  | nil => rfl
  | cons x xs ih =>
    have hne : xs ++ trimRight p ys ≠ [] := by
      intro e; exact h (List.append_eq_nil_iff.mp e).2
    rw [List.cons_append, List.cons_append, trimRight_cons, ih]
    generalize xs ++ trimRight p ys = r at hne
    cases r with
    | nil => exact absurd rfl hne
    | cons a as => rfl

theorem trimRight_all (p : UInt8 → Bool) (b : Bytes) (h : b.all p = true) : trimRight p b = [] := by
  induction b with
  | nil => rfl
  | cons x xs ih =>
    simp only [List.all_cons, Bool.and_eq_true] at h
    rw [trimRight_cons, ih h.2]; simp [h.1]

/-- what is trimmed off is a run of the trimmed character. -/
theorem trimRight_zero_decomp (b : Bytes) : ∃ z, b = trimRight (· = c0) b ++ List.replicate z c0 := by
  induction b with
  | nil => exact ⟨0, rfl⟩
  | cons x xs ih =>
    obtain ⟨z, hz⟩ := ih
    rw [trimRight_cons]
    cases hr : trimRight (· = c0) xs with
    | nil =>
      rw [hr] at hz
      by_cases hx : x = c0
      · refine ⟨z + 1, ?_⟩
        simp only [hx, decide_true, if_true, List.nil_append]
        rw [hz]; simp [List.replicate_succ]
      · refine ⟨z, ?_⟩
        simp only [hx, decide_false, Bool.false_eq_true, if_false]
        rw [hz]; simp
    | cons a as =>
      refine ⟨z, ?_⟩
      rw [hr] at hz
      simp only [List.cons_append]
      rw [hz]; simp

theorem trimRight_append_zeros (b : Bytes) (j : Nat) :
    trimRight (· = c0) (b ++ List.replicate j c0) = trimRight (· = c0) b := by
  induction b with
  | nil =>
    simp only [List.nil_append]
    rw [trimRight_all]; · rfl
    simp
  | cons x xs ih =>
    rw [List.cons_append, trimRight_cons, ih, ← trimRight_cons]

/-! ### appendPaddedBase10 -/

theorem c1_sub_one : digitChar 1 - 1 = digitChar 0 := by decide

/-- for `n < 10^(k+1)` the padded encoding is exactly the `k+1` padded digits. -/
theorem appendPadded_eq (b : Bytes) (k n : Nat) (h : n < 10 ^ (k + 1)) :
    appendPaddedBase10 b n (10 ^ (k + 1)) = b ++ padDigits (k + 1) n := by
  have hdiv : 10 ^ (k + 1) / 10 = 10 ^ k := by rw [Nat.pow_succ]; exact Nat.mul_div_cancel _ (by decide)
  have hpos : 0 < 10 ^ k := Nat.pow_pos (by decide)
  unfold appendPaddedBase10
  rw [hdiv]
  by_cases hlt : n < 10 ^ k
  · rw [if_pos hlt]
    have e : natDigits (n + 10 ^ k) = digitChar 1 :: padDigits k n := by
      rw [natDigits_cons k (n + 10 ^ k) (by rw [Nat.pow_succ]; omega) (Or.inr (by omega))]
      congr 1
      · congr 1
        rw [Nat.add_div_right _ hpos, Nat.div_eq_of_lt hlt]
      · have := padDigits_add_mul k n 1
        simpa using this
    rw [e]
    simp only [c1_sub_one]
    rw [padDigits, Nat.div_eq_of_lt hlt]
  · rw [if_neg hlt, natDigits_eq_pad k n h (Or.inr (by omega))]

/-! ### parsePaddedBase10 -/

/-- the loop on a (possibly truncated) run of digits: missing digits count as zeros. -/
theorem parsePaddedLoop_digits (m : Nat) : ∀ (j : Nat) (hp : 0 < 10 ^ j) (acc : Nat) (ds : Bytes),
    ds.all isDigit = true → ds.length ≤ m →
    parsePaddedLoop (10 ^ (j + m)) (10 ^ j) hp acc ds
      = ((acc * 10 ^ ds.length + decValue ds) * 10 ^ (m - ds.length), [], true) := by
  induction m with
  | zero =>
    intro j hp acc ds hd hl
    have : ds = [] := List.eq_nil_of_length_eq_zero (by omega)
    subst this
    unfold parsePaddedLoop
    simp [decValue, decFrom]
  | succ m ih =>
    intro j hp acc ds hd hl
    have hlt : 10 ^ j < 10 ^ (j + (m + 1)) := Nat.pow_lt_pow_right (by decide) (by omega)
    have hpow : 10 ^ j * 10 = 10 ^ (j + 1) := by rw [Nat.pow_succ]
    have hexp : j + (m + 1) = (j + 1) + m := by omega
    unfold parsePaddedLoop
    rw [dif_pos hlt]
    cases ds with
    | nil =>
      simp only []
      have := ih (j + 1) (Nat.pow_pos (by decide)) (acc * 10) [] (by rfl) (by simp)
      simp only [hpow, hexp]
      rw [this]
      simp [decValue, decFrom, Nat.pow_succ, Nat.mul_assoc, Nat.mul_comm 10]
    | cons c cs =>
      simp only [List.all_cons, Bool.and_eq_true] at hd
      have hc := (isDigit_iff c).mp hd.1
      have hnot : ¬ (c < c0 ∨ c9 < c) := by
        simp only [c0, c9, UInt8.lt_iff_toNat_lt]
        have h0 : (48 : UInt8).toNat = 48 := by decide
        have h9 : (57 : UInt8).toNat = 57 := by decide
        omega
      simp only []
      rw [if_neg hnot]
      have := ih (j + 1) (Nat.pow_pos (by decide)) (acc * 10 + digitVal c) cs hd.2 (by simpa using hl)
      simp only [hpow, hexp]
      rw [this]
      simp only [List.length_cons, Nat.succ_sub_succ]
      congr 2
      have e : decValue (c :: cs) = digitVal c * 10 ^ cs.length + decValue cs := by
        have := decValue_append [c] cs
        simpa [decValue_singleton] using this
      rw [e, Nat.pow_succ]
      simp only [Nat.add_mul, Nat.mul_assoc, Nat.add_assoc]
      congr 2
      rw [Nat.mul_comm 10]

/-- `parsePaddedBase10` on at most `k` digits: the value scaled by the missing powers of ten. -/
theorem parsePadded_digits (k : Nat) (ds : Bytes) (hd : ds.all isDigit = true) (hl : ds.length ≤ k) :
    parsePaddedBase10 ds (10 ^ k) = (decValue ds * 10 ^ (k - ds.length), true) := by
  unfold parsePaddedBase10
  have := parsePaddedLoop_digits k 0 (by decide) 0 ds hd hl
  simp only [Nat.zero_add, Nat.pow_zero, Nat.zero_mul] at this
  rw [this]
  simp

/-- `padded_rt`: parsing the padded encoding gives the number back (k+1 digits, n < 10^(k+1)). -/
theorem padded_roundtrip (k n : Nat) (h : n < 10 ^ (k + 1)) :
    parsePaddedBase10 (appendPaddedBase10 [] n (10 ^ (k + 1))) (10 ^ (k + 1)) = (n, true) := by
  rw [appendPadded_eq [] k n h, List.nil_append,
    parsePadded_digits (k + 1) _ (padDigits_allDigits _ _) (by rw [padDigits_length]; exact Nat.le_refl _),
    decValue_padDigits, padDigits_length, Nat.sub_self, Nat.pow_zero, Nat.mul_one, Nat.mod_eq_of_lt h]

/-! ### fractions -/

/-- the text `appendFracBase10` adds for a fraction `f` of `10^k`: nothing, or `.` and the digits without trailing zeros. -/
def fracText (k f : Nat) : Bytes := if f = 0 then [] else cDot :: trimRight (· = c0) (padDigits k f)

theorem trimmed_pad_facts (k f : Nat) (hf : 0 < f) (hlt : f < 10 ^ k) :
    let t := trimRight (· = c0) (padDigits k f)
    t ≠ [] ∧ t.all isDigit = true ∧ t.length ≤ k ∧ decValue t * 10 ^ (k - t.length) = f := by
  obtain ⟨z, hz⟩ := trimRight_zero_decomp (padDigits k f)
  intro t
  have hlen : t.length + z = k := by
    have := congrArg List.length hz
    simpa [padDigits_length] using this.symm
  have hall : (t ++ List.replicate z c0).all isDigit = true := by rw [← hz]; exact padDigits_allDigits _ _
  have hval : decValue t * 10 ^ z = f := by
    have := congrArg decValue hz
    rw [decValue_padDigits, Nat.mod_eq_of_lt hlt, decValue_append, decValue_replicate_zero] at this
    simpa using this.symm
  refine ⟨?_, ?_, by omega, ?_⟩
  · intro e
    rw [e] at hval
    simp [decValue, decFrom] at hval
    omega
  · rw [List.all_append] at hall
    exact (Bool.and_eq_true _ _ ▸ hall).1
  · have : k - t.length = z := by omega
    rw [this]; exact hval

theorem appendFrac_eq (b : Bytes) (k f : Nat) (hlt : f < 10 ^ (k + 1)) :
    appendFracBase10 b f (10 ^ (k + 1)) = b ++ fracText (k + 1) f := by
  unfold appendFracBase10 fracText
  by_cases h0 : f = 0
  · simp [h0]
  · rw [if_neg h0, if_neg h0, appendPadded_eq _ k f hlt, List.append_assoc]
    have ht := (trimmed_pad_facts (k + 1) f (by omega) hlt).1
    have hne : trimRight (· = c0) ([cDot] ++ padDigits (k + 1) f) ≠ [] := by
      rw [trimRight_append_of_ne_nil _ _ _ ht]; simp
    rw [trimRight_append_of_ne_nil _ _ _ hne, trimRight_append_of_ne_nil _ _ _ ht]
    rfl

/-- `frac_rt`: the fraction text parses back to `f` (any `k ≥ 0`, `f < 10^k`; for `k = 0` the text is empty). -/
theorem parseFrac_fracText (k f : Nat) (hlt : f < 10 ^ k) : parseFracBase10 (fracText k f) (10 ^ k) = (f, true) := by
  unfold fracText
  by_cases h0 : f = 0
  · simp [h0, parseFracBase10]
  · rw [if_neg h0]
    obtain ⟨hne, hall, hlen, hval⟩ := trimmed_pad_facts k f (by omega) hlt
    cases ht : trimRight (· = c0) (padDigits k f) with
    | nil => exact absurd ht hne
    | cons a as =>
      rw [ht] at hall hlen hval
      unfold parseFracBase10
      simp only [ne_eq, not_true_eq_false, if_false]
      rw [parsePadded_digits k _ hall hlen, hval]

/-- the fraction text is empty or starts with a period, and the rest are digits. -/
theorem fracText_shape (k f : Nat) : fracText k f = [] ∨ ∃ ds, fracText k f = cDot :: ds ∧ ds.all isDigit = true := by
  unfold fracText
  by_cases h0 : f = 0
  · left; simp [h0]
  · right
    rw [if_neg h0]
    refine ⟨_, rfl, ?_⟩
    obtain ⟨z, hz⟩ := trimRight_zero_decomp (padDigits k f)
    have hall : (trimRight (· = c0) (padDigits k f) ++ List.replicate z c0).all isDigit = true := by
      rw [← hz]; exact padDigits_allDigits _ _
    rw [List.all_append] at hall
    exact (Bool.and_eq_true _ _ ▸ hall).1

end JsonV.Model.Time
