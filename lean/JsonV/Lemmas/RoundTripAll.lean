/-
Helper lemmas for the L3 round trip (C04L3), part 4: struct fields and the round trip for every type
(induction on the type).
-/
import JsonV.Lemmas.RoundTripAny

namespace JsonV.Lemmas.RoundTrip
open JsonV JsonV.Spec JsonV.Model JsonV.Lemmas.Merge

theorem keysAfter_noop (known : Bytes → Bool) (a k : List Bytes) (h : ∀ n ∈ a, n ∈ k) : keysAfter known a k = k := by
  induction a with
  | nil => rfl
  | cons n r ih =>
    have hn : k.contains n = true := by simpa using h n List.mem_cons_self
    simp only [keysAfter, hn, Bool.not_true, Bool.and_false, Bool.false_eq_true, if_false]
    exact ih (fun x hx => h x (List.mem_cons_of_mem _ hx))

/-! ### Struct fields -/

theorem rt_fields (o : MOpts) (uo : UOpts) (fs : List (Bytes × GoType))
    (IH : ∀ n t, (n, t) ∈ fs → ∀ v, RT1 o (mar o t) (unm uo t) t.zero (hasType t) v) :
    ∀ (fvs : List (Bytes × GoVal)) (mem : List (Bytes × JTree)),
      fieldsTyped fs fvs = true → marFields o fs fvs = .ok mem →
      ∃ fvs', akeys mem = akeys fs ∧ akeys fvs' = akeys fs ∧ (safeM o fvs = true → veqF fvs fvs') ∧
        marFields o fs fvs' = .ok mem ∧
        fieldsTyped fs fvs' = true ∧
        (∀ n t, (n, t) ∈ fs → ∃ j w, (n, j) ∈ mem ∧ (n, w) ∈ fvs' ∧ unm uo t j t.zero = .ok w) := by
  induction fs with
  | nil =>
    intro fvs mem ht hm
    cases fvs with
    | nil =>
      simp only [marFields, Except.ok.injEq] at hm
      subst hm
      refine ⟨[], rfl, rfl, ?_, rfl, rfl, ?_⟩
      · intro _; simp [veqF]
      · intro n t h; cases h
    | cons p r => simp [fieldsTyped] at ht
  | cons ft fr ih =>
    obtain ⟨n, t⟩ := ft
    intro fvs mem ht hm
    cases fvs with
    | nil => simp [fieldsTyped] at ht
    | cons p r =>
      obtain ⟨n', v⟩ := p
      simp only [fieldsTyped, Bool.and_eq_true, decide_eq_true_eq] at ht
      obtain ⟨⟨hn, htv⟩, htr⟩ := ht
      subst hn
      simp only [marFields, if_true] at hm
      cases hv : mar o t v with
      | error e => simp [hv] at hm
      | ok j =>
        simp only [hv] at hm
        cases hr : marFields o fr r with
        | error e => simp [hr] at hm
        | ok mr =>
          simp only [hr, Except.ok.injEq] at hm
          subst hm
          obtain ⟨w, hd, hq, he, hw⟩ := IH n t List.mem_cons_self v j htv hv
          obtain ⟨fr', h1, h2, h3, h4, h5, h6⟩ := ih (fun n' t' h => IH n' t' (List.mem_cons_of_mem _ h)) r mr htr hr
          refine ⟨(n, w) :: fr', by simp [akeys_cons, h1], by simp [akeys_cons, h2], ?_, ?_, ?_, ?_⟩
          · intro hs
            simp only [safeM, Bool.and_eq_true] at hs
            simp only [veqF]; exact ⟨trivial, hq hs.1, h3 hs.2⟩
          · simp [marFields, he, h4]
          · simp [fieldsTyped, hw, h5]
          · intro n' t' hm'
            cases List.mem_cons.1 hm' with
            | inl e => cases e; exact ⟨j, w, List.mem_cons_self, List.mem_cons_self, hd⟩
            | inr e =>
              obtain ⟨j', w', a1, a2, a3⟩ := h6 n' t' e
              exact ⟨j', w', List.mem_cons_of_mem _ a1, List.mem_cons_of_mem _ a2, a3⟩

/-- Decoding the members written for a struct into the zero struct. -/
theorem rt_struct_decode (uo : UOpts) (fs : List (Bytes × GoType)) (hnd : (akeys fs).Nodup)
    (mem : List (Bytes × JTree)) (fvs' : List (Bytes × GoVal))
    (hk : akeys mem = akeys fs) (hk' : akeys fvs' = akeys fs)
    (hall : ∀ n t, (n, t) ∈ fs → ∃ j w, (n, j) ∈ mem ∧ (n, w) ∈ fvs' ∧ unm uo t j t.zero = .ok w) :
    objFold (fieldDec uo fs) (fieldZero fs) mem [] (GoType.zeroFields fs) = .ok fvs' := by
  have hndm : (akeys mem).Nodup := hk ▸ hnd
  have hndv : (akeys fvs').Nodup := hk' ▸ hnd
  apply objFold_of_facts hndm (by intro n _ h; cases h) (by rw [akeys_zeroFields]; exact hnd)
  refine ⟨?_, ?_, ?_, ?_⟩
  · intro n j f hm hd
    obtain ⟨t, hl, rfl⟩ := fieldDec_some hd
    obtain ⟨j0, w, hj0, hw, hu⟩ := hall n t (alookup_mem hl)
    have : j0 = j := by
      have a := alookup_of_mem hndm hj0
      have b := alookup_of_mem hndm hm
      rw [a] at b; cases b; rfl
    subst this
    refine ⟨w, ?_, alookup_of_mem hndv hw⟩
    rw [fieldZero_getD]
    simp only [fieldZero, hl]
    exact hu
  · intro n j hm hd
    have := (fieldDec_none (o := uo)).1 hd
    exact absurd (hk ▸ mem_akeys_of_mem hm) this
  · intro n hn
    have hnf : n ∉ akeys fs := by
      cases hn with
      | inl h => exact hk ▸ h
      | inr h => exact (fieldDec_none (o := uo)).1 h
    rw [(alookup_none_iff n fvs').2 (hk' ▸ hnf), (alookup_none_iff n _).2 (by rw [akeys_zeroFields]; exact hnf)]
  · rw [keysAfter_noop, akeys_zeroFields, hk']
    intro n hn
    rw [akeys_zeroFields, ← hk]; exact hn

/-! ### Every type -/

theorem rt_all (o : MOpts) (uo : UOpts) : ∀ T : GoType, T.wf = true → ∀ v, RT1 o (mar o T) (unm uo T) T.zero (hasType T) v := by
  intro T
  induction T using GoType.induct with
  | hbool =>
    intro _ v j ht h
    cases v <;> simp only [hasType] at ht <;> try (cases ht; done)
    case bool b =>
      simp only [mar, Except.ok.injEq] at h; subst h
      exact ⟨.bool b, by simp [unm, unmBool], (by intro _; simp [veq]), rfl, rfl⟩
  | hint b =>
    intro _ v j ht h
    cases v <;> simp only [hasType] at ht <;> try (cases ht; done)
    case int i =>
      simp only [Bool.and_eq_true, decide_eq_true_eq] at ht
      simp only [mar, Except.ok.injEq] at h; subst h
      refine ⟨.int i, ?_, (by intro _; simp [veq]), rfl, by simp [hasType, ht]⟩
      simp only [unm]; exact unmInt_intDigits b i ht.1.2 ht.2
  | huint b =>
    intro _ v j ht h
    cases v <;> simp only [hasType] at ht <;> try (cases ht; done)
    case uint n =>
      simp only [decide_eq_true_eq] at ht
      simp only [mar, Except.ok.injEq] at h; subst h
      refine ⟨.uint n, ?_, (by intro _; simp [veq]), rfl, by simp [hasType, ht]⟩
      simp only [unm]; exact unmUint_natDigits b n ht
  | hfloat =>
    intro _ v j ht h
    cases v <;> simp only [hasType] at ht <;> try (cases ht; done)
    case float l =>
      simp only [mar, Except.ok.injEq] at h; subst h
      exact ⟨.float l, by simp [unm, unmFloat], (by intro _; simp [veq]), rfl, rfl⟩
  | hstring =>
    intro _ v j ht h
    cases v <;> simp only [hasType] at ht <;> try (cases ht; done)
    case str s =>
      simp only [mar, ht, if_true, Except.ok.injEq] at h; subst h
      exact ⟨.str s, by simp [unm, unmString], (by intro _; simp [veq]), by simp [mar, ht], by simp [hasType, ht]⟩
  | hany =>
    intro _ v j ht h
    simp only [hasType] at ht
    simp only [mar] at h
    obtain ⟨v', h1, h2, h3, h4⟩ := rt_any o v j ht h
    exact ⟨v', by simpa [unm, GoType.zero] using h1, h2, by simpa [mar] using h3, by simpa [hasType] using h4⟩
  | hslice t ih =>
    intro hwf v j ht h
    have hwt : t.wf = true := by
      simp only [GoType.wf, Bool.and_eq_true] at hwf; exact hwf.2
    cases v <;> simp only [hasType] at ht <;> try (cases ht; done)
    case nilSlice =>
      simp only [mar, Except.ok.injEq] at h; subst h
      unfold nilSliceTree
      cases ho : o.nilSliceAsNull with
      | true => exact ⟨.nilSlice, by simp [unm], (by intro _; simp [veq]), by simp [mar, nilSliceTree, ho], rfl⟩
      | false =>
        exact ⟨.sliceOf [], by simp [unm, elemsFresh], (by intro _; simp [veq]), by simp [mar, marList], by simp [hasType, allB]⟩
    case sliceOf vs =>
      rw [allB_iff] at ht
      simp only [mar] at h
      cases hl : marList (mar o t) vs with
      | error e => simp [hl] at h
      | ok js =>
        simp only [hl, Except.ok.injEq] at h; subst h
        obtain ⟨ws, h1, h2, h3, h4, _, _⟩ := rt_list (o := o) (mdec := unm uo t) (z := t.zero) (ty := hasType t) vs
          (fun v _ => ih hwt v) ht js hl
        refine ⟨.sliceOf ws, by simp [unm, h1], ?_, by simp [mar, h3], ?_⟩
        · intro hs; simp only [safe, safeL_iff] at hs; simpa [veq] using h2 hs
        · simp only [hasType, allB_iff]; exact h4
  | harray n t ih =>
    intro hwf v j ht h
    have hwt : t.wf = true := by
      simp only [GoType.wf, Bool.and_eq_true] at hwf; exact hwf.2
    cases v <;> simp only [hasType] at ht <;> try (cases ht; done)
    case arrayOf vs =>
      simp only [Bool.and_eq_true, decide_eq_true_eq, allB_iff] at ht
      simp only [mar] at h
      cases hl : marList (mar o t) vs with
      | error e => simp [hl] at h
      | ok js =>
        simp only [hl, Except.ok.injEq] at h; subst h
        obtain ⟨ws, h1, h2, h3, h4, h5, h6⟩ := rt_list (o := o) (mdec := unm uo t) (z := t.zero) (ty := hasType t) vs
          (fun v _ => ih hwt v) ht.2 js hl
        have hjn : js.length = n := by rw [h6]; exact ht.1
        refine ⟨.arrayOf ws, ?_, (by intro hs; simp only [safe, safeL_iff] at hs; simpa [veq] using h2 hs), by simp [mar, h3], ?_⟩
        · simp only [unm]
          rw [← hjn, arrayElems_eq, h1]
          simp
        · simp only [hasType, Bool.and_eq_true, decide_eq_true_eq, allB_iff]
          exact ⟨by rw [h5]; exact ht.1, h4⟩
  | hmap t ih =>
    intro hwf v j ht h
    have hwt : t.wf = true := by simpa [GoType.wf] using hwf
    cases v <;> simp only [hasType] at ht <;> try (cases ht; done)
    case nilMap =>
      simp only [mar, Except.ok.injEq] at h; subst h
      unfold nilMapTree
      cases ho : o.nilMapAsNull with
      | true => exact ⟨.nilMap, by simp [unm], (by intro _; simp [veq]), by simp [mar, nilMapTree, ho], rfl⟩
      | false =>
        refine ⟨.mapOf [], by simp [unm, GoType.zero, objFold], (by intro _; simp [veq]), ?_, by simp [hasType, allB, nodupB, akeys]⟩
        simp [mar, marMembers, sortMembers]
    case mapOf ms =>
      simp only [Bool.and_eq_true, nodupB_iff, allB_iff] at ht
      simp only [mar] at h
      cases hl : marMembers (mar o t) ms with
      | error e => simp [hl] at h
      | ok mem =>
        simp only [hl, Except.ok.injEq] at h; subst h
        obtain ⟨m', h1, h2, h3, h4, h5⟩ := rt_map (o := o) (mdec := unm uo t) (z := t.zero) (ty := hasType t) ms
          (fun k v _ => ih hwt v) ht.1 (fun k v hv => by have := ht.2 (k, v) hv; simp at this; exact this.2) mem hl
        refine ⟨.mapOf m', by simp [unm, GoType.zero, h1],
          (by intro hs; simp only [safe, safeM_iff] at hs; simpa [veq] using ⟨h2.1, h2.2 hs⟩),
          by simp [mar, h3, sortMembers_idem], ?_⟩
        simp only [hasType, Bool.and_eq_true, nodupB_iff, allB_iff]
        refine ⟨h4, ?_⟩
        intro p hp
        obtain ⟨k, w⟩ := p
        have := h5 k w hp
        simp [this.1, this.2]
  | hptr t ih =>
    intro hwf v j ht h
    have hwt : t.wf = true := by simpa [GoType.wf] using hwf
    cases v <;> simp only [hasType] at ht <;> try (cases ht; done)
    case nilPtr =>
      simp only [mar, Except.ok.injEq] at h; subst h
      exact ⟨.nilPtr, by simp [unm], (by intro _; simp [veq]), rfl, rfl⟩
    case ptrTo w =>
      simp only [mar] at h
      cases hj : j.isNull with
      | true =>
        have hjn : j = .null := by cases j <;> simp_all [JTree.isNull]
        subst hjn
        refine ⟨.nilPtr, by simp [unm], ?_, rfl, rfl⟩
        intro hs
        simp only [safe, Bool.and_eq_true, Bool.not_eq_eq_eq_not, Bool.not_true] at hs
        rw [mar_null o t w .null h rfl] at hs
        exact absurd hs.1 (by decide)
      | false =>
        obtain ⟨w', h1, h2, h3, h4⟩ := ih hwt w j ht h
        refine ⟨.ptrTo w', ?_, ?_, by simpa [mar] using h3, by simpa [hasType] using h4⟩
        · rw [unm_ptr uo t j _ hj]
          simp [GoType.zero, h1]
        · intro hs
          simp only [safe, Bool.and_eq_true] at hs
          simpa [veq] using h2 hs.2
  | hstruct fs ih =>
    intro hwf v j ht h
    rw [wf_struct] at hwf
    cases v <;> simp only [hasType] at ht <;> try (cases ht; done)
    case structOf fvs =>
      simp only [mar] at h
      cases hl : marFields o fs fvs with
      | error e => simp [hl] at h
      | ok mem =>
        simp only [hl, Except.ok.injEq] at h; subst h
        obtain ⟨fvs', h1, h2, h3, h4, h5, h6⟩ := rt_fields o uo fs
          (fun n t hm v => ih n t hm (hwf.2 n t hm) v) fvs mem ht hl
        have hdec := rt_struct_decode uo fs hwf.1 mem fvs' h1 h2 h6
        exact ⟨.structOf fvs', by simp [unm, GoType.zero, hdec], (by intro hs; simp only [safe] at hs; simpa [veq] using h3 hs), by simp [mar, h4],
          by simpa [hasType] using h5⟩

end JsonV.Lemmas.RoundTrip
