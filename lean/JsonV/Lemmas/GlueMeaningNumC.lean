/-
Completeness of the spec's number lexer against the C01 grammar: a `number` followed by something that cannot
continue it is cut exactly there.
-/
import JsonV.Lemmas.GlueMeaningLex

set_option linter.unusedSimpArgs false

namespace JsonV.Lemmas.GlueMeaningNumC
open JsonV JsonV.Spec.Meaning JsonV.Spec.Grammar
open JsonV.Lemmas.GlueMeaningLex

/-- the first byte of `t`, if any, does not satisfy `P` -/
def HeadNot (P : UInt8 → Prop) (t : Bytes) : Prop := ∀ c t', t = c :: t' → ¬ P c

theorem headNot_nil (P : UInt8 → Prop) : HeadNot P [] := by intro c t h; cases h
theorem headNot_cons (P : UInt8 → Prop) (c : UInt8) (t : Bytes) (h : ¬ P c) : HeadNot P (c :: t) := by
  intro c' t' e; simp only [List.cons.injEq] at e; rw [← e.1]; exact h

theorem digits_append (ds t : Bytes) (hd : Digits0 ds) (ht : HeadNot Digit t) : digits (ds ++ t) = (ds, t) := by
  induction ds with
  | nil =>
    cases t with
    | nil => rfl
    | cons c t' =>
      have : isDigit c = false := by
        have := ht c t' rfl
        rw [← isDigit_iff] at this; simpa using this
      simp [digits, this]
  | cons d ds ih =>
    have hdd : isDigit d = true := (isDigit_iff d).2 (hd d (by simp))
    have := ih (fun x hx => hd x (by simp [hx]))
    simp only [List.cons_append, digits, hdd, if_true, this]

def IsE (c : UInt8) : Prop := c = 0x65 ∨ c = 0x45
def IsDot (c : UInt8) : Prop := c = 0x2E

theorem fracPart_none (t : Bytes) (ht : HeadNot IsDot t) : fracPart t = some ([], t) := by
  cases t with
  | nil => rfl
  | cons c t' =>
    have : c ≠ 0x2E := ht c t' rfl
    simp [fracPart, this]

theorem fracPart_some (fs t : Bytes) (hf : Digits1 fs) (ht : HeadNot Digit t) :
    fracPart (0x2E :: fs ++ t) = some (0x2E :: fs, t) := by
  have hd := digits_append fs t hf.2 ht
  have hne : fs.isEmpty = false := by
    cases fs with
    | nil => exact absurd rfl hf.1
    | cons _ _ => rfl
  simp [fracPart, hd, hne]

theorem expPart_none (t : Bytes) (ht : HeadNot IsE t) : expPart t = some ([], t) := by
  cases t with
  | nil => rfl
  | cons c t' =>
    have h := ht c t' rfl
    have : (c = 0x65 || c = 0x45) = false := by
      unfold IsE at h
      simp only [not_or] at h
      simp [h.1, h.2]
    simp [expPart, this]

theorem expPart_some (e : UInt8) (sign ds t : Bytes) (he : e = 0x65 ∨ e = 0x45)
    (hs : sign = [] ∨ sign = [0x2D] ∨ sign = [0x2B]) (hd : Digits1 ds) (ht : HeadNot Digit t) :
    expPart (e :: (sign ++ ds) ++ t) = some (e :: (sign ++ ds), t) := by
  have hdig := digits_append ds t hd.2 ht
  have hne : ds.isEmpty = false := by
    cases ds with
    | nil => exact absurd rfl hd.1
    | cons _ _ => rfl
  have hce : (e = 0x65 || e = 0x45) = true := by rcases he with rfl | rfl <;> simp
  rcases hs with rfl | rfl | rfl
  · -- no sign: the first digit is not a sign
    cases ds with
    | nil => exact absurd rfl hd.1
    | cons d ds' =>
      have hdd : Digit d := hd.2 d (by simp)
      have hns : (d = 0x2D || d = 0x2B) = false := by
        unfold Digit at hdd
        have h1 : d ≠ 0x2D := by intro e; subst e; exact absurd hdd.1 (by decide)
        have h2 : d ≠ 0x2B := by intro e; subst e; exact absurd hdd.1 (by decide)
        simp [h1, h2]
      simp only [List.nil_append, List.cons_append] at hdig ⊢
      simp [expPart, hce, hns, hdig]
  · simp only [List.cons_append, List.nil_append, List.append_assoc]
    simp [expPart, hce, hdig, hne]
  · simp only [List.cons_append, List.nil_append, List.append_assoc]
    simp [expPart, hce, hdig, hne]

theorem headNot_app (P : UInt8 → Prop) (x : UInt8) (xs t : Bytes) (h : ¬ P x) : HeadNot P ((x :: xs) ++ t) :=
  headNot_cons P x (xs ++ t) h

theorem digits0_snoc (ds : Bytes) (c : UInt8) (hd : Digits0 ds) (hc : Digit c) : Digits0 (ds ++ [c]) := by
  intro x hx
  rcases List.mem_append.mp hx with h | h
  · exact hd x h
  · simp at h; subst h; exact hc

theorem digit_zero : Digit 0x30 := by unfold Digit; decide
theorem digits1_zero : Digits1 [0x30] := ⟨by simp, by intro c hc; simp at hc; subst hc; exact digit_zero⟩

theorem not_digit_e (e : UInt8) (he : e = 0x65 ∨ e = 0x45) : ¬ Digit e := by
  rcases he with rfl | rfl <;> (unfold Digit; decide)
theorem not_dot_e (e : UInt8) (he : e = 0x65 ∨ e = 0x45) : ¬ IsDot e := by
  rcases he with rfl | rfl <;> (unfold IsDot; decide)
theorem not_digit_dot : ¬ Digit 0x2E := by unfold Digit; decide

theorem d19_facts (d : UInt8) (h : Digit19 d) : d ≠ 0x2D ∧ d ≠ 0x30 ∧ (decide (0x31 ≤ d) && decide (d ≤ 0x39)) = true := by
  unfold Digit19 at h
  refine ⟨?_, ?_, by simp [h.1, h.2]⟩
  · intro e; subst e; exact absurd h.1 (by decide)
  · intro e; subst e; exact absurd h.1 (by decide)

theorem jint_tail {d : UInt8} {ds : Bytes} (h : JInt (d :: ds)) : Digits0 ds := by
  cases h with
  | zero => intro c hc; cases hc
  | nonzero _ _ _ h => exact h

theorem assemble (sg : Bytes) (hsg : sg = [] ∨ sg = [0x2D]) (int frac exp rest : Bytes) (hi : JInt int)
    (F1 : expPart (exp ++ rest) = some (exp, rest))
    (F2 : fracPart (frac ++ (exp ++ rest)) = some (frac, exp ++ rest))
    (F3 : ∀ d ds, int = d :: ds → Digit19 d → digits (ds ++ (frac ++ (exp ++ rest))) = (ds, frac ++ (exp ++ rest))) :
    lexNum (sg ++ int ++ frac ++ exp ++ rest) = some (sg ++ int ++ frac ++ exp, rest) := by
  have hfe : ∀ pre, fracExp pre (frac ++ (exp ++ rest)) = some (pre ++ frac ++ exp, rest) := by
    intro pre; simp [fracExp, F2, F1]
  cases hi with
  | zero =>
    rcases hsg with rfl | rfl
    · simp only [List.nil_append, List.cons_append, List.append_assoc]
      have := hfe ([] ++ [0x30])
      simp only [lexNum, show ((0x30 : UInt8) = 0x2D) = False by decide, if_false, if_true]
      simpa [List.append_assoc] using this
    · simp only [List.nil_append, List.cons_append, List.append_assoc]
      have := hfe ([0x2D] ++ [0x30])
      simp only [lexNum, if_true]
      simpa [List.append_assoc] using this
  | nonzero d ds h19 hds =>
    obtain ⟨h2d, h30, hrange⟩ := d19_facts d h19
    have hdig := F3 d ds rfl h19
    rcases hsg with rfl | rfl
    · simp only [List.nil_append, List.cons_append, List.append_assoc]
      have := hfe ([] ++ d :: ds)
      simp only [lexNum, h2d, if_false, h30, hrange, if_true, hdig]
      simpa [List.append_assoc] using this
    · simp only [List.nil_append, List.cons_append, List.append_assoc]
      have := hfe ([0x2D] ++ d :: ds)
      simp only [lexNum, if_true, h30, if_false, hrange, hdig]
      simpa [List.append_assoc] using this

/-- A number followed by a byte that cannot continue it (or by nothing) is cut exactly there. -/
theorem lexNum_complete (v rest : Bytes) (hv : JNumber v) (hfol : ∀ c t, rest = c :: t → ¬ NumPrefix (v ++ [c])) :
    lexNum (v ++ rest) = some (v, rest) := by
  cases hv with
  | mk minus int frac exp hm hi hf he =>
    suffices h : expPart (exp ++ rest) = some (exp, rest) ∧ fracPart (frac ++ (exp ++ rest)) = some (frac, exp ++ rest) ∧
        (∀ d ds, int = d :: ds → Digit19 d → digits (ds ++ (frac ++ (exp ++ rest))) = (ds, frac ++ (exp ++ rest))) by
      exact assemble minus hm int frac exp rest hi h.1 h.2.1 h.2.2
    cases he with
    | none =>
      have hE : HeadNot IsE rest := by
        intro c t hr hc
        refine hfol c t hr ⟨[0x30], ?_⟩
        have h := JNumber.mk minus int frac (c :: ([] ++ [0x30])) hm hi hf (.some c [] [0x30] hc (Or.inl rfl) digits1_zero)
        simpa [List.append_assoc] using h
      have F1 : expPart ([] ++ rest) = some ([], rest) := by simpa using expPart_none rest hE
      cases hf with
      | none =>
        have hDot : HeadNot IsDot rest := by
          intro c t hr hc
          unfold IsDot at hc; subst hc
          refine hfol _ t hr ⟨[0x30], ?_⟩
          have h := JNumber.mk minus int (0x2E :: [0x30]) [] hm hi (.some [0x30] digits1_zero) .none
          simpa [List.append_assoc] using h
        refine ⟨F1, by simpa using fracPart_none rest hDot, ?_⟩
        intro d ds hint h19
        subst hint
        have hD : HeadNot Digit rest := by
          intro c t hr hc
          refine hfol c t hr ⟨[], ?_⟩
          have hds : Digits0 ds := jint_tail hi
          have h := JNumber.mk minus (d :: (ds ++ [c])) [] [] hm (.nonzero d (ds ++ [c]) h19 (digits0_snoc ds c hds hc)) .none .none
          simpa [List.append_assoc] using h
        simpa using digits_append ds rest (jint_tail hi) hD
      | some fs hfs =>
        have hD : HeadNot Digit rest := by
          intro c t hr hc
          refine hfol c t hr ⟨[], ?_⟩
          have h := JNumber.mk minus int (0x2E :: (fs ++ [c])) [] hm hi (.some (fs ++ [c]) ⟨by simp, digits0_snoc fs c hfs.2 hc⟩) .none
          simpa [List.append_assoc] using h
        refine ⟨F1, by simpa using fracPart_some fs rest hfs hD, ?_⟩
        intro d ds hint h19
        subst hint
        have hds : Digits0 ds := jint_tail hi
        simpa using digits_append ds (0x2E :: (fs ++ rest)) hds (headNot_cons _ _ _ not_digit_dot)
    | some e sign ds' hee hs hd =>
      have hD : HeadNot Digit rest := by
        intro c t hr hc
        refine hfol c t hr ⟨[], ?_⟩
        have h := JNumber.mk minus int frac (e :: (sign ++ (ds' ++ [c]))) hm hi hf
          (.some e sign (ds' ++ [c]) hee hs ⟨by simp, digits0_snoc ds' c hd.2 hc⟩)
        simpa [List.append_assoc] using h
      have F1 := expPart_some e sign ds' rest hee hs hd hD
      have hTd : HeadNot Digit (e :: (sign ++ ds') ++ rest) := headNot_app _ _ _ _ (not_digit_e e hee)
      have hTdot : HeadNot IsDot (e :: (sign ++ ds') ++ rest) := headNot_app _ _ _ _ (not_dot_e e hee)
      cases hf with
      | none =>
        refine ⟨F1, by simpa using fracPart_none _ hTdot, ?_⟩
        intro d ds hint h19
        subst hint
        have hds : Digits0 ds := jint_tail hi
        simpa using digits_append ds _ hds hTd
      | some fs hfs =>
        refine ⟨F1, by simpa using fracPart_some fs _ hfs hTd, ?_⟩
        intro d ds hint h19
        subst hint
        have hds : Digits0 ds := jint_tail hi
        simpa using digits_append ds (0x2E :: fs ++ (e :: (sign ++ ds') ++ rest)) hds (headNot_cons _ _ _ not_digit_dot)

/-! ### where the lexer stops: the byte after the literal cannot continue it -/

theorem digits_stop (b : Bytes) : HeadNot Digit (digits b).2 := by
  induction b with
  | nil => exact headNot_nil _
  | cons c r ih =>
    simp only [digits]
    split
    · exact ih
    · next h => exact headNot_cons _ _ _ (by rw [← isDigit_iff]; exact h)

theorem fracPart_stop {b f T : Bytes} (h : fracPart b = some (f, T)) :
    (f = [] → HeadNot IsDot T) ∧ (f ≠ [] → HeadNot Digit T) := by
  cases b with
  | nil => simp [fracPart] at h; obtain ⟨rfl, rfl⟩ := h; exact ⟨fun _ => headNot_nil _, fun h => absurd rfl h⟩
  | cons c r =>
    by_cases hc : c = 0x2E
    · subst hc
      simp only [fracPart, if_true] at h
      cases hne : (digits r).1.isEmpty with
      | true => simp [hne] at h
      | false =>
        simp only [hne, Bool.false_eq_true, if_false, Option.some.injEq, Prod.mk.injEq] at h
        obtain ⟨rfl, rfl⟩ := h
        exact ⟨fun h => by simp at h, fun _ => digits_stop r⟩
    · simp only [fracPart, hc, if_false, Option.some.injEq, Prod.mk.injEq] at h
      obtain ⟨rfl, rfl⟩ := h
      exact ⟨fun _ => headNot_cons _ _ _ hc, fun h => absurd rfl h⟩

theorem expPart_stop {b e r : Bytes} (h : expPart b = some (e, r)) :
    (e = [] → HeadNot IsE r) ∧ (e ≠ [] → HeadNot Digit r) := by
  cases b with
  | nil => simp [expPart] at h; obtain ⟨rfl, rfl⟩ := h; exact ⟨fun _ => headNot_nil _, fun h => absurd rfl h⟩
  | cons c r' =>
    by_cases hc : (c = 0x65 || c = 0x45) = true
    · cases r' with
      | nil => simp [expPart, hc, digits] at h
      | cons s r'' =>
        by_cases hs : (s = 0x2D || s = 0x2B) = true
        · simp only [expPart, hc, hs, if_true] at h
          cases hne : (digits r'').1.isEmpty with
          | true => simp [hne] at h
          | false =>
            simp only [hne, Bool.false_eq_true, if_false, Option.some.injEq, Prod.mk.injEq] at h
            obtain ⟨rfl, rfl⟩ := h
            exact ⟨fun h => by simp at h, fun _ => digits_stop r''⟩
        · simp only [expPart, hc, hs, if_true, if_false] at h
          cases hne : (digits (s :: r'')).1.isEmpty with
          | true => simp [hne] at h
          | false =>
            simp only [hne, Bool.false_eq_true, if_false, Option.some.injEq, Prod.mk.injEq] at h
            obtain ⟨rfl, rfl⟩ := h
            exact ⟨fun h => by simp at h, fun _ => digits_stop (s :: r'')⟩
    · simp only [expPart, hc, if_false, Option.some.injEq, Prod.mk.injEq] at h
      obtain ⟨rfl, rfl⟩ := h
      refine ⟨fun _ => headNot_cons _ _ _ ?_, fun h => absurd rfl h⟩
      unfold IsE
      simpa using hc

/-- The stop facts of one successful `fracExp`. -/
structure StopFacts (frac exp r : Bytes) : Prop where
  e0 : exp = [] → HeadNot IsE r
  e1 : exp ≠ [] → HeadNot Digit r
  f0 : frac = [] → HeadNot IsDot (exp ++ r)
  f1 : frac ≠ [] → HeadNot Digit (exp ++ r)

theorem fracExp_stop {pre b l r : Bytes} (h : fracExp pre b = some (l, r)) :
    ∃ f e, l = pre ++ f ++ e ∧ b = f ++ (e ++ r) ∧ JFrac f ∧ JExp e ∧ StopFacts f e r := by
  unfold fracExp at h
  cases hf : fracPart b with
  | none => simp [hf] at h
  | some f =>
    obtain ⟨f, rf⟩ := f
    simp only [hf] at h
    cases he : expPart rf with
    | none => simp [he] at h
    | some e =>
      obtain ⟨e, re⟩ := e
      simp only [he, Option.some.injEq, Prod.mk.injEq] at h
      obtain ⟨rfl, rfl⟩ := h
      obtain ⟨h1, h2⟩ := fracPart_spec hf
      obtain ⟨h3, h4⟩ := expPart_spec he
      have sf := fracPart_stop hf
      have se := expPart_stop he
      subst h3
      exact ⟨f, e, rfl, h1, h2, h4, ⟨se.1, se.2, sf.1, sf.2⟩⟩

theorem headNot_congr (P : UInt8 → Prop) (x : Bytes) (c : UInt8) (t t' : Bytes) (h : HeadNot P (x ++ c :: t)) :
    HeadNot P (x ++ c :: t') := by
  cases x with
  | nil => exact headNot_cons _ _ _ (h c t rfl)
  | cons y ys => exact headNot_cons _ _ _ (h y (ys ++ c :: t) rfl)

/-- the tail part re-run on an input with the same next byte -/
theorem fracExp_local {f e : Bytes} {c : UInt8} {t : Bytes} (hf : JFrac f) (he : JExp e) (sf : StopFacts f e (c :: t)) (t' : Bytes) :
    expPart (e ++ c :: t') = some (e, c :: t') ∧ fracPart (f ++ (e ++ c :: t')) = some (f, e ++ c :: t') := by
  have F1 : expPart (e ++ c :: t') = some (e, c :: t') := by
    cases he with
    | none => simpa using expPart_none (c :: t') (headNot_congr _ [] c t t' (sf.e0 rfl))
    | some x sign ds hx hs hd =>
      exact expPart_some x sign ds (c :: t') hx hs hd (headNot_congr _ [] c t t' (sf.e1 (by simp)))
  refine ⟨F1, ?_⟩
  cases hf with
  | none => simpa using fracPart_none _ (headNot_congr _ e c t t' (sf.f0 rfl))
  | some fs hfs => exact fracPart_some fs _ hfs (headNot_congr _ e c t t' (sf.f1 (by simp)))

theorem numBody_local (sg : Bytes) (hsg : sg = [] ∨ sg = [0x2D]) (x : UInt8) (r l : Bytes) (c : UInt8) (t : Bytes)
    (h : (if x = 0x30 then fracExp (sg ++ [x]) r
          else if (decide (0x31 ≤ x) && decide (x ≤ 0x39)) = true then fracExp (sg ++ x :: (digits r).1) (digits r).2
          else none) = some (l, c :: t)) (t' : Bytes) :
    lexNum (l ++ c :: t') = some (l, c :: t') := by
  split at h
  · next hx =>
    subst hx
    obtain ⟨f, e, hl, hr, hf, he, sf⟩ := fracExp_stop h
    obtain ⟨F1, F2⟩ := fracExp_local hf he sf t'
    have := assemble sg hsg [0x30] f e (c :: t') .zero F1 F2 (by intro d ds hd h19; simp at hd; obtain ⟨rfl, _⟩ := hd; exact absurd h19 (by unfold Digit19; decide))
    rw [hl]; simpa [List.append_assoc] using this
  · split at h
    · next hx0 hx =>
      obtain ⟨f, e, hl, hr, hf, he, sf⟩ := fracExp_stop h
      obtain ⟨F1, F2⟩ := fracExp_local hf he sf t'
      have hds := (digits_spec r).2
      have h19 : Digit19 x := by simpa [Digit19] using hx
      have hstop : HeadNot Digit (f ++ (e ++ c :: t)) := by rw [← hr]; exact digits_stop r
      have hstop' : HeadNot Digit (f ++ (e ++ c :: t')) := by
        have := headNot_congr Digit (f ++ e) c t t' (by simpa [List.append_assoc] using hstop)
        simpa [List.append_assoc] using this
      have := assemble sg hsg (x :: (digits r).1) f e (c :: t') (.nonzero x _ h19 hds) F1 F2
        (by intro d ds hd _; simp only [List.cons.injEq] at hd; obtain ⟨_, rfl⟩ := hd; exact digits_append _ _ hds hstop')
      rw [hl]; simpa [List.append_assoc] using this
    · simp at h

/-- `lexNum`'s decision to stop before `c` depends on nothing after `c`. -/
theorem lexNum_local (b l : Bytes) (c : UInt8) (t : Bytes) (h : lexNum b = some (l, c :: t)) (t' : Bytes) :
    lexNum (l ++ c :: t') = some (l, c :: t') := by
  cases b with
  | nil => simp [lexNum] at h
  | cons x r' =>
    by_cases hx : x = 0x2D
    · subst hx
      cases r' with
      | nil => simp [lexNum] at h
      | cons x2 r2 =>
        simp only [lexNum, if_true] at h
        exact numBody_local [0x2D] (Or.inr rfl) x2 r2 l c t h t'
    · simp only [lexNum, hx, if_false] at h
      exact numBody_local [] (Or.inl rfl) x r' l c t h t'

/-- …hence the literal followed by that byte is not a prefix of any number. -/
theorem lexNum_maximal (b l : Bytes) (c : UInt8) (t : Bytes) (h : lexNum b = some (l, c :: t)) : ¬ NumPrefix (l ++ [c]) := by
  rintro ⟨s, hs⟩
  have h1 := lexNum_complete (l ++ [c] ++ s) [] hs (by intro c t h; cases h)
  have h2 := lexNum_local b l c t h s
  rw [List.append_nil] at h1
  have : l ++ [c] ++ s = l ++ c :: s := by simp
  rw [this, h2] at h1
  simp only [Option.some.injEq, Prod.mk.injEq] at h1
  have := congrArg List.length h1.1
  simp at this

end JsonV.Lemmas.GlueMeaningNumC
