/-
Lemmas for C17 `options_visible` and `reset_panics`, built on c19's scope machinery (`Model/Scope.lean`:
the four `WithinArshalCall` wrappers `userCallS`, the member scripts and MarshalEncode/UnmarshalDecode, all regenerated
from source and tied in `Props/C19Scope.lean`; closed forms and the frame in `Lemmas/ScopeL.lean`).

`exec g a s` runs a callee tree on the ONE option struct of the coder.  Here we add what the USER CODE inside such a
tree gets to see: `observe` lists the struct `enc.Options()`/`dec.Options()` points to at the entry of every user call,
`userPoints` lists the struct at every moment user code holds the coder (entry, and after each thing it did with it).
In every clause the struct handed down is the argument of `exec g body` in the corresponding closed form
(`user_closed`, `member_closed`, `call_marshal_closed`, `call_unmarshal_closed`).
-/
import JsonV.Model.Scope
import JsonV.Lemmas.ScopeL
import JsonV.Lemmas.ScopePub

namespace JsonV.Lemmas.DispatchScope
open JsonV.Model JsonV.Model.Scope JsonV.Gen JsonV.Lemmas.FlagsL JsonV.Lemmas.OptsL JsonV.Lemmas.ScopeL JsonV.Lemmas.ScopePub

/-- `xe.Flags.Set(jsonflags.WithinArshalCall | 1)`: the struct user code runs with. -/
def withinSet (s : Struct) : Struct := { s with flags := s.flags.set (bv (jsonflags.c_WithinArshalCall + 1)) }

/-- The struct the body of a MarshalEncode/UnmarshalDecode call runs with, `none` when a guard refuses the call. -/
def effective (g mar : Bool) (opts : List Opt) (nn : Bool) (s : Struct) : Option Struct :=
  if (callOpts g opts).isEmpty then some s
  else if nameGuardFails nn s (s.join (callOpts g opts)) then none
  else if mar then (if wsGuardFails (callOpts g opts) s then none else some (enterMarshal (callOpts g opts) s))
  else some (enterUnmarshal (callOpts g opts) s)

/-- The option struct at the entry of every user call of the tree, in execution order. -/
def observe (g : Bool) : Act → Struct → List Struct
  | .skip, _ => []
  | .fail _, _ => []
  | .clear _, _ => []
  | .seq a b, s => observe g a s ++ (if (exec g a s).2.isFatal then [] else observe g b (exec g a s).1)
  | .user body, s => withinSet s :: observe g body (withinSet s)
  | .member _ str fmt body, s => observe g body (tagged str fmt s)
  | .call mar opts nn body, s =>
    match effective g mar opts nn s with
    | some s' => observe g body s'
    | none => []

/-- The states at the sequence boundaries of an act: where the code that runs it has control. -/
def bounds (g : Bool) : Act → Struct → List Struct
  | .seq a b, s => bounds g a s ++ (if (exec g a s).2.isFatal then [] else bounds g b (exec g a s).1)
  | a, s => [s, (exec g a s).1]

/-- The option struct at every moment some user code holds the coder. -/
def userPoints (g : Bool) : Act → Struct → List Struct
  | .skip, _ => []
  | .fail _, _ => []
  | .clear _, _ => []
  | .seq a b, s => userPoints g a s ++ (if (exec g a s).2.isFatal then [] else userPoints g b (exec g a s).1)
  | .user body, s => bounds g body (withinSet s) ++ userPoints g body (withinSet s)
  | .member _ str fmt body, s => userPoints g body (tagged str fmt s)
  | .call mar opts nn body, s =>
    match effective g mar opts nn s with
    | some s' => userPoints g body s'
    | none => []

/-! ### bits -/

theorem withinSet_pres (s : Struct) (i : Nat) :
    (withinSet s).flags.presence.getLsbD i = (s.flags.presence.getLsbD i || decide (i = 3)) := by
  show (s.flags.set _).presence.getLsbD i = _
  rw [set_presence_bit, bits_withinSet]
  by_cases h0 : i = 0 <;> by_cases h3 : i = 3 <;> simp [h0, h3]

theorem withinSet_vals (s : Struct) (i : Nat) :
    (withinSet s).flags.values.getLsbD i = (s.flags.values.getLsbD i || decide (i = 3)) := by
  show (s.flags.set _).values.getLsbD i = _
  rw [set_values_bit, bits_withinSet, bits_withinSet]
  by_cases h0 : i = 0 <;> by_cases h3 : i = 3 <;> simp [h0, h3]

/-- `Reset` panics iff `Flags.Get(WithinArshalCall)` (jsontext/encode.go:107, decode.go:138). -/
def resetPanics (s : Struct) : Bool := s.flags.get (bv jsonflags.c_WithinArshalCall)

theorem resetPanics_eq (s : Struct) : resetPanics s = s.flags.values.getLsbD 3 := get_within s.flags

theorem resetPanics_withinSet (s : Struct) : resetPanics (withinSet s) = true := by
  rw [resetPanics_eq, withinSet_vals]; simp

/-- No callee tree changes the VALUE of WithinArshalCall (this is `Frame.vals` at bit 3). -/
theorem resetPanics_exec (g : Bool) (a : Act) (s : Struct) : resetPanics (exec g a s).1 = resetPanics s := by
  rw [resetPanics_eq, resetPanics_eq]
  exact (exec_frame g a s).vals 3 (by decide) (by decide)

/-! ### what stays the same below a call: everything except bits 3, 27, 28 and Format -/

structure SameOff (s s' : Struct) : Prop where
  indent : s'.indent = s.indent
  indentPrefix : s'.indentPrefix = s.indentPrefix
  byteLimit : s'.byteLimit = s.byteLimit
  depthLimit : s'.depthLimit = s.depthLimit
  marshalers : s'.marshalers = s.marshalers
  unmarshalers : s'.unmarshalers = s.unmarshalers
  pres : ∀ i, i ≠ 3 → i ≠ 27 → i ≠ 28 → s'.flags.presence.getLsbD i = s.flags.presence.getLsbD i
  vals : ∀ i, i ≠ 3 → i ≠ 27 → i ≠ 28 → s'.flags.values.getLsbD i = s.flags.values.getLsbD i

theorem SameOff.refl (s : Struct) : SameOff s s := ⟨rfl, rfl, rfl, rfl, rfl, rfl, fun _ _ _ _ => rfl, fun _ _ _ _ => rfl⟩

theorem SameOff.trans {a b c : Struct} (h1 : SameOff a b) (h2 : SameOff b c) : SameOff a c :=
  ⟨h2.indent.trans h1.indent, h2.indentPrefix.trans h1.indentPrefix, h2.byteLimit.trans h1.byteLimit,
   h2.depthLimit.trans h1.depthLimit, h2.marshalers.trans h1.marshalers, h2.unmarshalers.trans h1.unmarshalers,
   fun i a b c => (h2.pres i a b c).trans (h1.pres i a b c), fun i a b c => (h2.vals i a b c).trans (h1.vals i a b c)⟩

theorem SameOff.of_frame {s s' : Struct} (h : Frame s s') : SameOff s s' :=
  ⟨h.indent, h.indentPrefix, h.byteLimit, h.depthLimit, h.marshalers, h.unmarshalers, h.pres, fun i _ b c => h.vals i b c⟩

theorem sameOff_withinSet (s : Struct) : SameOff s (withinSet s) := by
  refine ⟨rfl, rfl, rfl, rfl, rfl, rfl, ?_, ?_⟩
  · intro i h3 _ _; rw [withinSet_pres]; simp [h3]
  · intro i h3 _ _; rw [withinSet_vals]; simp [h3]

theorem sameOff_tagged (str : Bool) (fmt : Bytes) (s : Struct) : SameOff s (tagged str fmt s) := by
  obtain ⟨h1, h2, h3, h4, h5, h6⟩ := tagged_nonflag str fmt s
  refine ⟨h1, h2, h3, h4, h5, h6, ?_, ?_⟩
  · intro i _ h27 h28
    cases str <;> by_cases hf : fmt = [] <;>
      simp [tagged, hf, set_presence_bit, bits_stringSet, bits_formatSet, h27, h28]
  · intro i _ h27 h28
    cases str <;> by_cases hf : fmt = [] <;>
      simp [tagged, hf, set_values_bit, bits_stringSet, bits_formatSet, h27, h28]

/-- Every struct a user call of the tree is entered with agrees with the struct the tree started from, as long as no
nested call with options of its own intervenes (`NoCall`; such a call starts a new scope, see `observe_call`). -/
inductive NoCall : Act → Prop where
  | skip : NoCall .skip
  | fail (f : Bool) : NoCall (.fail f)
  | clear (k : ClearKind) : NoCall (.clear k)
  | seq {a b : Act} : NoCall a → NoCall b → NoCall (.seq a b)
  | user {body : Act} : NoCall body → NoCall (.user body)
  | member (mar str : Bool) (fmt : Bytes) {body : Act} : NoCall body → NoCall (.member mar str fmt body)

theorem observe_sameOff (g : Bool) (a : Act) (hn : NoCall a) : ∀ s, ∀ s' ∈ observe g a s, SameOff s s' := by
  induction hn with
  | skip => intro s s' h; simp [observe] at h
  | fail f => intro s s' h; simp [observe] at h
  | clear k => intro s s' h; simp [observe] at h
  | seq _ _ iha ihb =>
    intro s s' h
    simp only [observe, List.mem_append] at h
    rcases h with h | h
    · exact iha s s' h
    · split at h
      · simp at h
      · exact (SameOff.of_frame (exec_frame g _ s)).trans (ihb _ s' h)
  | user _ ih =>
    intro s s' h
    simp only [observe, List.mem_cons] at h
    rcases h with h | h
    · subst h; exact sameOff_withinSet s
    · exact (sameOff_withinSet s).trans (ih _ s' h)
  | member mar str fmt _ ih =>
    intro s s' h
    simp only [observe] at h
    exact (sameOff_tagged str fmt s).trans (ih _ s' h)

/-! ### the general form: every user call, paired with the struct its innermost enclosing call started with -/

/-- `(root, seen)`: `seen` is the struct at the entry of a user call, `root` the struct the body of the innermost
MarshalEncode/UnmarshalDecode call with options of its own around it started with (or the struct the tree started with). -/
def observeS (g : Bool) : Act → Struct → Struct → List (Struct × Struct)
  | .skip, _, _ => []
  | .fail _, _, _ => []
  | .clear _, _, _ => []
  | .seq a b, r, s => observeS g a r s ++ (if (exec g a s).2.isFatal then [] else observeS g b r (exec g a s).1)
  | .user body, r, s => (r, withinSet s) :: observeS g body r (withinSet s)
  | .member _ str fmt body, r, s => observeS g body r (tagged str fmt s)
  | .call mar opts nn body, r, s =>
    if (callOpts g opts).isEmpty then observeS g body r s      -- no options: the same scope goes on
    else match effective g mar opts nn s with
      | some s0 => observeS g body s0 s0                        -- a new scope: the effective options of this call
      | none => []

theorem observeS_sameOff (g : Bool) (a : Act) : ∀ r s, SameOff r s → ∀ p ∈ observeS g a r s, SameOff p.1 p.2 := by
  induction a with
  | skip => intro r s _ p h; simp [observeS] at h
  | fail f => intro r s _ p h; simp [observeS] at h
  | clear k => intro r s _ p h; simp [observeS] at h
  | seq a b iha ihb =>
    intro r s hrs p h
    simp only [observeS, List.mem_append] at h
    rcases h with h | h
    · exact iha r s hrs p h
    · split at h
      · simp at h
      · exact ihb r _ (hrs.trans (SameOff.of_frame (exec_frame g a s))) p h
  | user body ih =>
    intro r s hrs p h
    simp only [observeS, List.mem_cons] at h
    rcases h with h | h
    · subst h; exact hrs.trans (sameOff_withinSet s)
    · exact ih r _ (hrs.trans (sameOff_withinSet s)) p h
  | member mar str fmt body ih =>
    intro r s hrs p h
    simp only [observeS] at h
    exact ih r _ (hrs.trans (sameOff_tagged str fmt s)) p h
  | call mar opts nn body ih =>
    intro r s hrs p h
    simp only [observeS] at h
    split at h
    · exact ih r s hrs p h
    · split at h
      · exact ih _ _ (SameOff.refl _) p h
      · simp at h

/-! ### what `GetOption` reports under `SameOff` -/

theorem and_congr_bits (a b f : BitVec 64) (h : ∀ i, f.getLsbD i = true → a.getLsbD i = b.getLsbD i) : a &&& f = b &&& f := by
  apply BitVec.eq_of_getLsbD_eq
  intro i _
  rw [BitVec.getLsbD_and, BitVec.getLsbD_and]
  cases hf : f.getLsbD i
  · simp
  · rw [h i hf]

/-- A flag word that names none of WithinArshalCall, StringTag, FormatTag. -/
def OffWord (f : BitVec 64) : Prop := f.getLsbD 3 = false ∧ f.getLsbD 27 = false ∧ f.getLsbD 28 = false

instance (f : BitVec 64) : Decidable (OffWord f) := by unfold OffWord; infer_instance

theorem offWord_ne {f : BitVec 64} (h : OffWord f) (i : Nat) (hi : f.getLsbD i = true) : i ≠ 3 ∧ i ≠ 27 ∧ i ≠ 28 := by
  refine ⟨?_, ?_, ?_⟩ <;> (intro e; subst e)
  · rw [h.1] at hi; cases hi
  · rw [h.2.1] at hi; cases hi
  · rw [h.2.2] at hi; cases hi

theorem get_sameOff {s s' : Struct} (h : SameOff s s') (f : BitVec 64) (hf : OffWord f) : s'.flags.get f = s.flags.get f := by
  unfold Flags.get
  rw [and_congr_bits s'.flags.values s.flags.values f]
  intro i hi
  obtain ⟨a, b, c⟩ := offWord_ne hf i hi
  exact h.vals i a b c

theorem has_sameOff {s s' : Struct} (h : SameOff s s') (f : BitVec 64) (hf : OffWord f) : s'.flags.has f = s.flags.has f := by
  unfold Flags.has
  rw [and_congr_bits s'.flags.presence s.flags.presence f]
  intro i hi
  obtain ⟨a, b, c⟩ := offWord_ne hf i hi
  exact h.pres i a b c

/-- Keys whose `GetOption` answer does not involve the internal flags: every public setter except that
StringifyNumbers additionally reads the `string` tag of the enclosing struct member (options.go:89, documented:
"the string option specifies that StringifyNumbers be set"). -/
def PlainKey : Key → Prop
  | .flag f => OffWord f ∧ (f == F.stringifyNumbers) = false
  | _ => True

theorem getOption_sameOff {s s' : Struct} (h : SameOff s s') (k : Key) (hk : PlainKey k) : s'.getOption k = s.getOption k := by
  cases k with
  | flag f =>
    obtain ⟨hw, hs⟩ := hk
    simp only [Struct.getOption, get_sameOff h f hw, has_sameOff h f hw, hs, Bool.false_and, Bool.and_false]
  | formatTagSupport =>
    have hw : OffWord F.formatTagSupported := by decide
    simp only [Struct.getOption, get_sameOff h _ hw, has_sameOff h _ hw]
  | indent => simp only [Struct.getOption, has_sameOff h _ (by decide : OffWord F.indent), h.indent]
  | indentPrefix => simp only [Struct.getOption, has_sameOff h _ (by decide : OffWord F.indentPrefix), h.indentPrefix]
  | byteLimit => simp only [Struct.getOption, has_sameOff h _ (by decide : OffWord F.byteLimit), h.byteLimit]
  | depthLimit => simp only [Struct.getOption, has_sameOff h _ (by decide : OffWord F.depthLimit), h.depthLimit]
  | marshalers => simp only [Struct.getOption, has_sameOff h _ (by decide : OffWord F.marshalers), h.marshalers]
  | unmarshalers => simp only [Struct.getOption, has_sameOff h _ (by decide : OffWord F.unmarshalers), h.unmarshalers]

/-- StringifyNumbers itself: outside a `string` member it reads as in the call's options; inside one it may read
`(true, true)` instead — never anything else. -/
theorem getOption_stringify {s s' : Struct} (h : SameOff s s') :
    s'.getOption (.flag F.stringifyNumbers) = (if !s'.flags.has F.stringifyNumbers && s'.flags.get F.stringTag then (.bool true, true)
      else (.bool (s.flags.get F.stringifyNumbers), s.flags.has F.stringifyNumbers)) := by
  have hw : OffWord F.stringifyNumbers := by decide
  simp only [Struct.getOption, get_sameOff h _ hw, has_sameOff h _ hw, beq_self_eq_true, Bool.and_true]

/-! ### reset_panics: the invariant over call trees -/

theorem resetPanics_tagged (str : Bool) (fmt : Bytes) (s : Struct) : resetPanics (tagged str fmt s) = resetPanics s := by
  rw [resetPanics_eq, resetPanics_eq]
  have hs : ∀ t : Struct, (t.flags.set (bv (jsonflags.c_StringTag + 1))).values.getLsbD 3 = t.flags.values.getLsbD 3 := by
    intro t; rw [set_values_bit, bits_stringSet]; simp
  have hfm : ∀ t : Struct, (t.flags.set (bv (jsonflags.c_FormatTag + 1))).values.getLsbD 3 = t.flags.values.getLsbD 3 := by
    intro t; rw [set_values_bit, bits_formatSet]; simp
  cases str <;> by_cases hf : fmt = []
  · simp [tagged, hf]
  · simp only [tagged, Bool.false_eq_true, ↓reduceIte, bne_iff_ne, ne_eq, hf, not_false_eq_true]
    exact hfm s
  · simp only [tagged, ↓reduceIte, hf, bne_self_eq_false, Bool.false_eq_true]
    exact hs s
  · simp only [tagged, ↓reduceIte, bne_iff_ne, ne_eq, hf, not_false_eq_true]
    exact (hfm { s with flags := s.flags.set (bv (jsonflags.c_StringTag + 1)) }).trans (hs s)

theorem bounds_resetPanics (g : Bool) (a : Act) : ∀ s, resetPanics s = true → ∀ s' ∈ bounds g a s, resetPanics s' = true := by
  induction a with
  | seq a b iha ihb =>
    intro s hs s' h
    simp only [bounds, List.mem_append] at h
    rcases h with h | h
    · exact iha s hs s' h
    · split at h
      · simp at h
      · exact ihb _ ((resetPanics_exec g a s).trans hs) s' h
  | skip | fail _ | clear _ | user _ _ | member _ _ _ _ _ | call _ _ _ _ _ =>
    intro s hs s' h
    simp only [bounds, List.mem_cons, List.not_mem_nil, or_false] at h
    rcases h with h | h
    · rw [h]; exact hs
    · rw [h, resetPanics_exec]; exact hs

/-- At every moment user code holds the coder, `Reset` panics — whatever the tree: nested user calls (the flag is set
again on entry and NOT cleared when the nested call returns, 0821077), struct members, nested MarshalEncode/
UnmarshalDecode calls with or without options. -/
theorem userPoints_resetPanics (g : Bool) (a : Act) : ∀ s, ∀ s' ∈ userPoints g a s, resetPanics s' = true := by
  induction a with
  | skip => intro s s' h; simp [userPoints] at h
  | fail f => intro s s' h; simp [userPoints] at h
  | clear k => intro s s' h; simp [userPoints] at h
  | seq a b iha ihb =>
    intro s s' h
    simp only [userPoints, List.mem_append] at h
    rcases h with h | h
    · exact iha s s' h
    · split at h
      · simp at h
      · exact ihb _ s' h
  | user body ih =>
    intro s s' h
    simp only [userPoints, List.mem_append] at h
    rcases h with h | h
    · exact bounds_resetPanics g _ _ (resetPanics_withinSet s) s' h
    · exact ih _ s' h
  | member mar str fmt body ih =>
    intro s s' h
    simp only [userPoints] at h
    exact ih _ s' h
  | call mar opts nn body ih =>
    intro s s' h
    simp only [userPoints] at h
    split at h
    · exact ih _ s' h
    · simp at h

end JsonV.Lemmas.DispatchScope
