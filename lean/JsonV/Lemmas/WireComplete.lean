/-
Completeness of the value-path validator (Model/Validate.lean) w.r.t. the grammar `JValue`
(Spec/Grammar.lean): every value of the grammar instance selected by the options is accepted,
whatever follows it, provided a number is followed by a delimiter (whitespace, `,`, `]`, `}`) or the end
of input — which is what the grammar guarantees in every position a value can occur.
-/
import JsonV.Lemmas.WireValue
import JsonV.Lemmas.WireFuel

namespace JsonV.Lemmas.WireComplete
open JsonV JsonV.Model JsonV.Model.Wire JsonV.Model.Validate JsonV.Spec.Grammar
open JsonV.Lemmas.WireBasic JsonV.Lemmas.WireNumber JsonV.Lemmas.WireString JsonV.Lemmas.WireValue

/-! ### bytes that may follow a value -/

def isDelim (c : UInt8) : Bool := isWs c || c == 0x2C || c == 0x5D || c == 0x7D

/-- what follows a value is nothing or starts with a delimiter -/
def DelimHead (rest : Bytes) : Prop := ∀ c t, rest = c :: t → isDelim c = true

theorem delimHead_nil : DelimHead [] := by intro c t h; cases h
theorem delimHead_cons (c : UInt8) (t : Bytes) (h : isDelim c = true) : DelimHead (c :: t) := by
  intro c' t' h'; cases h'; exact h

theorem delim_other : ∀ c : UInt8, isDelim c = true → cls c = .other := by
  apply forall_u8; decide +kernel

/-- what follows the value `v` does not extend it: only numbers are not self-terminating, so the condition is
that a number followed by a byte `c` is no longer a prefix of any number ("maximal munch") -/
def Follow (v rest : Bytes) : Prop := JNumber v → ∀ c t, rest = c :: t → ¬ NumPrefix (v ++ [c])

theorem step_other' (s : St) : step s .other = .dead := by cases s <;> rfl

theorem follow_of_delim (v rest : Bytes) (h : DelimHead rest) : Follow v rest := by
  intro _ c t hr
  have hc := delim_other c (h c t hr)
  rw [numPrefix_iff_live, run_append]
  simp [run, δ, hc, step_other']

theorem follow_nil (v : Bytes) : Follow v [] := by intro _ c t h; cases h

/-- the bytes a value can start with -/
def isStart (c : UInt8) : Bool :=
  let k := normKind c
  k == 0x6E || k == 0x66 || k == 0x74 || k == 0x22 || k == 0x30 || k == 0x7B || k == 0x5B

theorem start_facts : ∀ c : UInt8, isStart c = true →
    isWs c = false ∧ (c == 0x5D) = false ∧ (c == 0x7D) = false ∧ (c == 0x2C) = false ∧ (c == 0x3A) = false := by
  apply forall_u8; decide +kernel

theorem ws_exact (w tail : Bytes) (hw : JWs w) (ht : ∀ c t, tail = c :: t → isWs c = false) :
    consumeWhitespace (w ++ tail) = w.length := by
  symm
  apply ws_unique (w ++ tail) w.length (by simp)
  · simpa using hw
  · intro c r h
    simp only [List.drop_left] at h
    rw [← isWs_iff]
    simp [ht c r h]

/-! ### scalars -/

theorem literal_complete (lit rest : Bytes) (hl : lit ≠ []) : valueLiteral lit (lit ++ rest) = (lit.length, .ok) := by
  unfold valueLiteral
  have : consumeExact lit (lit ++ rest) = lit.length := by simp [consumeExact]
  have hne : lit.length ≠ 0 := by simpa using hl
  simp [this, hne]

theorem step_other (s : St) : step s .other = .dead := by cases s <;> rfl

theorem number_complete (v rest : Bytes) (h : JNumber v) (hd : Follow v rest) :
    consumeNumber (v ++ rest) = (v.length, .ok) := by
  have hg := good_consumeNumber (v ++ rest)
  have hacc : acc (run .start ((v ++ rest).take v.length)) = true := by
    simpa using (jnumber_iff_acc v).1 h
  have hstop : v.length = (v ++ rest).length ∨ run .start ((v ++ rest).take (v.length + 1)) = .dead := by
    cases rest with
    | nil => left; simp
    | cons c t =>
      right
      have hc := hd h c t rfl
      have : (v ++ c :: t).take (v.length + 1) = v ++ [c] := by
        rw [List.take_add]; simp
      rw [this]
      rw [numPrefix_iff_live] at hc
      simpa using hc
  have := scan_unique (v ++ rest) v.length (by simp) hacc hstop _ _ hg
  exact Prod.ext this.2 this.1

theorem valueNumber_complete (v rest : Bytes) (h : JNumber v) (hd : Follow v rest) :
    valueNumber (v ++ rest) = (v.length, .ok) := by
  have hcn := number_complete v rest h hd
  unfold valueNumber
  simp only
  split
  · unfold consumeNumberD
    rcases hr : consumeNumberResumable (v ++ rest) 0 stInit with ⟨n, st, e⟩
    have : consumeNumber (v ++ rest) = (n, e) := by simp [consumeNumber, hr]
    rw [hcn] at this
    simp only [Prod.mk.injEq] at this
    obtain ⟨rfl, rfl⟩ := this
    simp only
    split <;> simp
  · rename_i hs
    have hne : consumeSimpleNumber (v ++ rest) ≠ 0 := by intro h0; simp [h0] at hs
    have := simple_number_sound' (v ++ rest) hne
    rw [hcn] at this
    simp only [Prod.mk.injEq, and_true] at this
    rw [← this]

theorem valueString_complete (o : VOpts) (p rest : Bytes) (h : JString (!o.allowInvalidUTF8) p) :
    ∃ fl, valueString o (p ++ rest) = (p.length, fl, .ok) := by
  obtain ⟨body, hj, rfl⟩ := h
  obtain ⟨f, hf⟩ := consumeString_of_body (!o.allowInvalidUTF8) body hj
  have hcs := hf rest
  have hlen : (0x22 :: (body ++ [0x22])).length = body.length + 2 := by simp
  have happ : 0x22 :: (body ++ [0x22]) ++ rest = 0x22 :: (body ++ 0x22 :: rest) := by simp
  rw [happ, hlen]
  unfold valueString
  simp only
  split
  · rename_i hne
    have hne' : consumeSimpleString (0x22 :: (body ++ 0x22 :: rest)) ≠ 0 := by simpa using hne
    have := simple_string_sound' _ (!o.allowInvalidUTF8) hne'
    rw [hcs] at this
    simp only [Prod.mk.injEq] at this
    exact ⟨{}, by rw [← this.1]⟩
  · exact ⟨f, hcs⟩

/-! ### containers -/

/-- `consumeValue` accepts `v`, whatever delimiter-headed input follows it, given enough fuel -/
def CV (o : VOpts) (d : Nat) (v : Bytes) : Prop :=
  ∀ rest fuel, Follow v rest → 3 * (v ++ rest).length + 1 ≤ fuel →
    consumeValue o fuel (d + 1) (v ++ rest) = (v.length, .ok)

def Starts (v : Bytes) : Prop := ∃ c t, v = c :: t ∧ isStart c = true

theorem delimHead_ws_sep (w2 : Bytes) (sep : UInt8) (tail : Bytes) (hw : JWs w2) (hs : isDelim sep = true) :
    DelimHead (w2 ++ sep :: tail) := by
  cases w2 with
  | nil => exact delimHead_cons _ _ hs
  | cons c t =>
    apply delimHead_cons
    have := (isWs_iff c).2 (hw c (by simp))
    simp [isDelim, this]

/-- the part of one loop iteration that arrays and objects share: optional blanks, a value, optional blanks,
then a separator byte that is a delimiter and not a blank -/
theorem elem_facts (o : VOpts) (d f : Nat) (w1 val w2 : Bytes) (sep : UInt8) (tail : Bytes)
    (hw1 : JWs w1) (hw2 : JWs w2) (hcv : CV o (d + 1) val) (hst : Starts val)
    (hsep : isDelim sep = true) (hsepw : isWs sep = false)
    (hfuel : 3 * (val ++ (w2 ++ sep :: tail)).length + 1 ≤ f) :
    consumeWhitespace (w1 ++ (val ++ (w2 ++ sep :: tail))) = w1.length ∧
    consumeValue o f (d + 2) (val ++ (w2 ++ sep :: tail)) = (val.length, .ok) ∧
    consumeWhitespace (w2 ++ sep :: tail) = w2.length := by
  obtain ⟨c, t, rfl, hc⟩ := hst
  refine ⟨?_, ?_, ?_⟩
  · apply ws_exact _ _ hw1
    intro c' t' h
    simp only [List.cons_append, List.cons.injEq] at h
    rw [← h.1]; exact (start_facts c hc).1
  · exact hcv _ f (follow_of_delim _ _ (delimHead_ws_sep w2 sep tail hw2 hsep)) hfuel
  · apply ws_exact _ _ hw2
    intro c' t' h
    simp only [List.cons.injEq] at h
    rw [← h.1]; exact hsepw

theorem arrayLoop_complete (o : VOpts) (d : Nat) : ∀ (elems : List (Bytes × Bytes × Bytes)), elems ≠ [] →
    (∀ e ∈ elems, JWs e.1 ∧ JWs e.2.2) → (∀ e ∈ elems, CV o (d + 1) e.2.1 ∧ Starts e.2.1) →
    ∀ rest fuel, 3 * (joinSep (elems.map elemBytes) ++ 0x5D :: rest).length + 2 ≤ fuel →
      arrayLoop o fuel (d + 2) (joinSep (elems.map elemBytes) ++ 0x5D :: rest) =
        ((joinSep (elems.map elemBytes)).length + 1, .ok) := by
  intro elems
  induction elems with
  | nil => intro h; exact absurd rfl h
  | cons e es ih =>
    intro _ hws hvals rest fuel hfuel
    obtain ⟨w1, val, w2⟩ := e
    have hw := hws (w1, val, w2) (by simp)
    have hv := hvals (w1, val, w2) (by simp)
    obtain ⟨c, t, hval, hc⟩ := hv.2
    simp only at hval hw hv
    cases fuel with
    | zero => omega
    | succ f =>
      cases es with
      | nil =>
        have hin : joinSep ([(w1, val, w2)].map elemBytes) ++ 0x5D :: rest = w1 ++ (val ++ (w2 ++ 0x5D :: rest)) := by
          simp [joinSep, elemBytes, List.append_assoc]
        have hlen : (joinSep ([(w1, val, w2)].map elemBytes)).length = w1.length + val.length + w2.length := by
          simp [joinSep, elemBytes, Nat.add_assoc]
        rw [hin, hlen]
        rw [hin] at hfuel
        obtain ⟨h1, h2, h3⟩ := elem_facts o d f w1 val w2 0x5D rest hw.1 hw.2 hv.1 hv.2 (by decide) (by decide)
          (by simp at hfuel ⊢; omega)
        have hd1 : (w1 ++ (val ++ (w2 ++ 0x5D :: rest))).drop w1.length = c :: (t ++ (w2 ++ 0x5D :: rest)) := by
          simp [hval]
        have hd2 : (c :: (t ++ (w2 ++ 0x5D :: rest))).drop val.length = w2 ++ 0x5D :: rest := by
          rw [hval]; simp
        have hd3 : (w2 ++ 0x5D :: rest).drop w2.length = 0x5D :: rest := by simp
        rw [hval] at h2
        simp only [List.cons_append] at h2
        rw [← hval] at h2
        simp only [arrayLoop, h1, hd1, h2, hd2, h3, hd3]
        simp
      | cons e2 es2 =>
        have hjs : joinSep (((w1, val, w2) :: e2 :: es2).map elemBytes) =
            w1 ++ (val ++ (w2 ++ 0x2C :: joinSep ((e2 :: es2).map elemBytes))) := by
          simp [joinSep, elemBytes, List.append_assoc]
        have hin : joinSep (((w1, val, w2) :: e2 :: es2).map elemBytes) ++ 0x5D :: rest =
            w1 ++ (val ++ (w2 ++ 0x2C :: (joinSep ((e2 :: es2).map elemBytes) ++ 0x5D :: rest))) := by
          rw [hjs]; simp [List.append_assoc]
        have hlen : (joinSep (((w1, val, w2) :: e2 :: es2).map elemBytes)).length =
            w1.length + val.length + w2.length + 1 + (joinSep ((e2 :: es2).map elemBytes)).length := by
          rw [hjs]; simp; omega
        rw [hin, hlen]
        rw [hin] at hfuel
        generalize htl : joinSep ((e2 :: es2).map elemBytes) ++ 0x5D :: rest = tl at hfuel ⊢
        obtain ⟨h1, h2, h3⟩ := elem_facts o d f w1 val w2 0x2C tl hw.1 hw.2 hv.1 hv.2 (by decide) (by decide)
          (by simp at hfuel ⊢; omega)
        have hd1 : (w1 ++ (val ++ (w2 ++ 0x2C :: tl))).drop w1.length = c :: (t ++ (w2 ++ 0x2C :: tl)) := by
          simp [hval]
        have hd2 : (c :: (t ++ (w2 ++ 0x2C :: tl))).drop val.length = w2 ++ 0x2C :: tl := by
          rw [hval]; simp
        have hd3 : (w2 ++ 0x2C :: tl).drop w2.length = 0x2C :: tl := by simp
        have hrec := ih (by simp) (fun e he => hws e (by simp [he])) (fun e he => hvals e (by simp [he])) rest f
          (by rw [htl]; simp at hfuel ⊢; omega)
        rw [htl] at hrec
        rw [hval] at h2
        simp only [List.cons_append] at h2
        rw [← hval] at h2
        simp only [arrayLoop, h1, hd1, h2, hd2, h3, hd3, hrec]
        simp [addOff]
        omega

/-- one iteration of `objectLoop`, given what its scanners answer -/
theorem objectLoop_step_eq (o : VOpts) (f d : Nat) (names : List Bytes) (r : Bytes) (nn k : Nat) (fl : ValueFlags)
    (c0 : UInt8) (ra0 rc : Bytes) (c1 : UInt8) (rd0 : Bytes) (c2 : UInt8) (rf : Bytes)
    (h1 : r.drop (consumeWhitespace r) = c0 :: ra0)
    (h2 : valueString o (c0 :: ra0) = (nn, fl, .ok))
    (h3 : (!o.allowDup && names.contains (unescapedName ((c0 :: ra0).take nn) fl)) = false)
    (h4 : ((c0 :: ra0).drop nn).drop (consumeWhitespace ((c0 :: ra0).drop nn)) = 0x3A :: rc)
    (h5 : rc.drop (consumeWhitespace rc) = c1 :: rd0)
    (h6 : consumeValue o f d (c1 :: rd0) = (k, .ok))
    (h7 : ((c1 :: rd0).drop k).drop (consumeWhitespace ((c1 :: rd0).drop k)) = c2 :: rf) :
    objectLoop o (f + 1) d names r =
      (let base := consumeWhitespace r + nn + consumeWhitespace ((c0 :: ra0).drop nn) + 1 + consumeWhitespace rc + k +
          consumeWhitespace ((c1 :: rd0).drop k)
       if c2 == 0x2C then
         addOff (base + 1) (objectLoop o f d
           (if o.allowDup then names else names ++ [unescapedName ((c0 :: ra0).take nn) fl]) rf)
       else if c2 == 0x7D then (base + 1, .ok)
       else (base, .invalidChar)) := by
  simp only [objectLoop, h1, h2, h3, h4, h5, h6, h7]
  simp

theorem not_ws_quote : isWs 0x22 = false := by decide
theorem not_ws_colon : isWs 0x3A = false := by decide

/-- one member `w1 name w2 : w3 val w4` followed by the separator `sep`: what `objectLoop` does with it -/
theorem member_step (o : VOpts) (d f : Nat) (names : List Bytes) (w1 name w2 w3 val w4 : Bytes) (sep : UInt8) (tail : Bytes)
    (hok : MemOk o (w1, name, w2, w3, val, w4)) (hcv : CV o (d + 1) val) (hst : Starts val)
    (hsep : isDelim sep = true) (hsepw : isWs sep = false)
    (hdup : o.allowDup = true ∨ nameKey o name ∉ names)
    (hfuel : 3 * (val ++ (w4 ++ sep :: tail)).length + 1 ≤ f) :
    objectLoop o (f + 1) (d + 2) names (w1 ++ (name ++ (w2 ++ 0x3A :: (w3 ++ (val ++ (w4 ++ sep :: tail)))))) =
      (let base := w1.length + name.length + w2.length + 1 + w3.length + val.length + w4.length
       if sep == 0x2C then
         addOff (base + 1) (objectLoop o f (d + 2) (if o.allowDup then names else names ++ [nameKey o name]) tail)
       else if sep == 0x7D then (base + 1, .ok)
       else (base, .invalidChar)) := by
  obtain ⟨hw1, hstr, hw2, hw3, hw4⟩ := hok
  simp only at hw1 hstr hw2 hw3 hw4
  have hstr' : JString (!o.allowInvalidUTF8) name := hstr
  obtain ⟨body, hj, hname⟩ := hstr'
  obtain ⟨c1, vt, hval, hc1⟩ := hst
  -- abbreviations for the continuations
  generalize hC3 : w4 ++ sep :: tail = C3 at hfuel ⊢
  generalize hC2 : w3 ++ (val ++ C3) = C2
  generalize hC1 : w2 ++ 0x3A :: C2 = C1
  obtain ⟨fl, hvs⟩ := valueString_complete o name C1 hstr
  have hkey : unescapedName ((name ++ C1).take name.length) fl = nameKey o name := by
    have := valueString_take o (name ++ C1) name.length fl hvs
    simp only [List.take_left'] at this ⊢
    unfold nameKey; rw [this]
  have hnt : name ++ C1 = 0x22 :: (body ++ [0x22] ++ C1) := by rw [hname]; simp
  -- whitespace and drops
  have f1 : consumeWhitespace (w1 ++ (name ++ C1)) = w1.length := by
    apply ws_exact _ _ hw1
    intro c t h; rw [hnt] at h; simp only [List.cons.injEq] at h; rw [← h.1]; exact not_ws_quote
  have f2 : consumeWhitespace C1 = w2.length := by
    rw [← hC1]; apply ws_exact _ _ hw2
    intro c t h; simp only [List.cons.injEq] at h; rw [← h.1]; exact not_ws_colon
  have f3 : consumeWhitespace C2 = w3.length := by
    rw [← hC2]; apply ws_exact _ _ hw3
    intro c t h; rw [hval] at h; simp only [List.cons_append, List.cons.injEq] at h
    rw [← h.1]; exact (start_facts c1 hc1).1
  have f4 : consumeWhitespace C3 = w4.length := by
    rw [← hC3]; apply ws_exact _ _ hw4
    intro c t h; simp only [List.cons.injEq] at h; rw [← h.1]; exact hsepw
  have hcvv : consumeValue o f (d + 2) (val ++ C3) = (val.length, .ok) := by
    rw [← hC3]; exact hcv _ f (follow_of_delim _ _ (delimHead_ws_sep w4 sep tail hw4 hsep)) (by rw [hC3]; exact hfuel)
  have h1 : (w1 ++ (name ++ C1)).drop (consumeWhitespace (w1 ++ (name ++ C1))) = 0x22 :: (body ++ [0x22] ++ C1) := by
    rw [f1, ← hnt]; simp
  have h4 : ((0x22 :: (body ++ [0x22] ++ C1)).drop name.length).drop
      (consumeWhitespace ((0x22 :: (body ++ [0x22] ++ C1)).drop name.length)) = 0x3A :: C2 := by
    rw [← hnt]; simp only [List.drop_left']; rw [f2, ← hC1]; simp
  have h5 : C2.drop (consumeWhitespace C2) = c1 :: (vt ++ C3) := by
    rw [f3, ← hC2, hval]; simp
  have h7 : ((c1 :: (vt ++ C3)).drop val.length).drop (consumeWhitespace ((c1 :: (vt ++ C3)).drop val.length)) = sep :: tail := by
    have : (c1 :: (vt ++ C3)).drop val.length = C3 := by rw [hval]; simp
    rw [this, f4, ← hC3]; simp
  have h2 : valueString o (0x22 :: (body ++ [0x22] ++ C1)) = (name.length, fl, .ok) := by rw [← hnt]; exact hvs
  have h6 : consumeValue o f (d + 2) (c1 :: (vt ++ C3)) = (val.length, .ok) := by
    have := hcvv; rw [hval] at this; simp only [List.cons_append] at this; rw [← hval] at this; exact this
  have h3 : (!o.allowDup && names.contains (unescapedName ((0x22 :: (body ++ [0x22] ++ C1)).take name.length) fl)) = false := by
    rw [← hnt, hkey]
    rcases hdup with h | h
    · simp [h]
    · simp [h]
  have := objectLoop_step_eq o f (d + 2) names (w1 ++ (name ++ C1)) name.length val.length fl 0x22 _ C2 c1 _ sep tail
    h1 h2 h3 h4 h5 h6 h7
  rw [this]
  have e1 : (0x22 :: (body ++ [0x22] ++ C1)).drop name.length = C1 := by rw [← hnt]; simp
  have e2 : (c1 :: (vt ++ C3)).drop val.length = C3 := by rw [hval]; simp
  have e3 : unescapedName ((0x22 :: (body ++ [0x22] ++ C1)).take name.length) fl = nameKey o name := by
    rw [← hnt]; exact hkey
  simp only [f1, e1, f2, f3, e2, f4, e3]

theorem memBytes_len (m : Mem) : (memBytes m).length =
    m.1.length + m.2.1.length + m.2.2.1.length + 1 + m.2.2.2.1.length + m.2.2.2.2.1.length + m.2.2.2.2.2.length := by
  simp [memBytes]; omega

theorem memBytes_app (m : Mem) (x : Bytes) : memBytes m ++ x =
    m.1 ++ (m.2.1 ++ (m.2.2.1 ++ 0x3A :: (m.2.2.2.1 ++ (m.2.2.2.2.1 ++ (m.2.2.2.2.2 ++ x))))) := by
  simp [memBytes, List.append_assoc]

theorem objectLoop_complete (o : VOpts) (d : Nat) : ∀ (mems : List Mem), mems ≠ [] →
    (∀ m ∈ mems, MemOk o m) → (∀ m ∈ mems, CV o (d + 1) m.2.2.2.2.1 ∧ Starts m.2.2.2.2.1) →
    ∀ names rest fuel, (o.allowDup = true ∨ (names ++ mems.map fun m => nameKey o m.2.1).Nodup) →
      3 * (joinSep (mems.map memBytes) ++ 0x7D :: rest).length + 2 ≤ fuel →
      objectLoop o fuel (d + 2) names (joinSep (mems.map memBytes) ++ 0x7D :: rest) =
        ((joinSep (mems.map memBytes)).length + 1, .ok) := by
  intro mems
  induction mems with
  | nil => intro h; exact absurd rfl h
  | cons m ms ih =>
    intro _ hok hvals names rest fuel hnod hfuel
    have hm := hok m (by simp)
    have hv := hvals m (by simp)
    have hdup : o.allowDup = true ∨ nameKey o m.2.1 ∉ names := by
      rcases hnod with h | h
      · exact Or.inl h
      · right
        intro hmem
        rw [List.nodup_append] at h
        exact h.2.2 _ hmem _ (by simp) rfl
    obtain ⟨w1, name, w2, w3, val, w4⟩ := m
    simp only at hv hdup
    cases fuel with
    | zero => omega
    | succ f =>
      cases ms with
      | nil =>
        have hin : joinSep ([(w1, name, w2, w3, val, w4)].map memBytes) ++ 0x7D :: rest =
            w1 ++ (name ++ (w2 ++ 0x3A :: (w3 ++ (val ++ (w4 ++ 0x7D :: rest))))) := by
          simp only [List.map_cons, List.map_nil, joinSep]; exact memBytes_app _ _
        have hlen : (joinSep ([(w1, name, w2, w3, val, w4)].map memBytes)).length =
            w1.length + name.length + w2.length + 1 + w3.length + val.length + w4.length := by
          simp only [List.map_cons, List.map_nil, joinSep]; exact memBytes_len _
        rw [hin, hlen]
        rw [hin] at hfuel
        rw [member_step o d f names w1 name w2 w3 val w4 0x7D rest hm hv.1 hv.2 (by decide) (by decide) hdup
          (by simp at hfuel ⊢; omega)]
        simp
      | cons m2 ms2 =>
        have hjs : joinSep (((w1, name, w2, w3, val, w4) :: m2 :: ms2).map memBytes) ++ 0x7D :: rest =
            w1 ++ (name ++ (w2 ++ 0x3A :: (w3 ++ (val ++ (w4 ++ 0x2C :: (joinSep ((m2 :: ms2).map memBytes) ++ 0x7D :: rest)))))) := by
          simp only [List.map_cons, joinSep, List.append_assoc]
          rw [memBytes_app]; simp
        have hlen : (joinSep (((w1, name, w2, w3, val, w4) :: m2 :: ms2).map memBytes)).length =
            w1.length + name.length + w2.length + 1 + w3.length + val.length + w4.length + 1 +
              (joinSep ((m2 :: ms2).map memBytes)).length := by
          simp only [List.map_cons, joinSep, List.length_append, memBytes_len]
          simp
          try omega
        rw [hjs, hlen]
        rw [hjs] at hfuel
        generalize htl : joinSep ((m2 :: ms2).map memBytes) ++ 0x7D :: rest = tl at hfuel ⊢
        rw [member_step o d f names w1 name w2 w3 val w4 0x2C tl hm hv.1 hv.2 (by decide) (by decide) hdup
          (by simp at hfuel ⊢; omega)]
        have hnod' : o.allowDup = true ∨
            ((if o.allowDup = true then names else names ++ [nameKey o name]) ++
              (m2 :: ms2).map fun m => nameKey o m.2.1).Nodup := by
          cases ha : o.allowDup with
          | true => exact Or.inl rfl
          | false =>
            rcases hnod with h | h
            · rw [ha] at h; cases h
            · right; simpa [List.append_assoc] using h
        have hrec := ih (by simp) (fun x hx => hok x (by simp [hx])) (fun x hx => hvals x (by simp [hx]))
          (if o.allowDup = true then names else names ++ [nameKey o name]) rest f hnod'
          (by rw [htl]; simp at hfuel ⊢; omega)
        rw [htl] at hrec
        simp only [hrec]
        simp [addOff]
        omega

/-! ### the value -/

theorem consumeArray_eq (o : VOpts) (f depth : Nat) (r1 : Bytes) (c : UInt8) (rest : Bytes)
    (hdepth : (depth == maxNestingDepth + 1) = false) (h : r1.drop (consumeWhitespace r1) = c :: rest) :
    consumeArray o (f + 1) depth (0x5B :: r1) =
      if c == 0x5D then (1 + consumeWhitespace r1 + 1, .ok)
      else addOff (1 + consumeWhitespace r1) (arrayLoop o f (depth + 1) (c :: rest)) := by
  simp [consumeArray, hdepth, h]

theorem consumeObject_eq (o : VOpts) (f depth : Nat) (r1 : Bytes) (c : UInt8) (rest : Bytes)
    (hdepth : (depth == maxNestingDepth + 1) = false) (h : r1.drop (consumeWhitespace r1) = c :: rest) :
    consumeObject o (f + 1) depth (0x7B :: r1) =
      if c == 0x7D then (1 + consumeWhitespace r1 + 1, .ok)
      else addOff (1 + consumeWhitespace r1) (objectLoop o f (depth + 1) [] (c :: rest)) := by
  simp [consumeObject, hdepth, h]

theorem depth_ok (d : Nat) (h : d < maxNestingDepth) : (d + 1 == maxNestingDepth + 1) = false := by
  simp; omega

theorem value_complete (o : VOpts) (d : Nat) (v : Bytes)
    (h : JValue (G o) maxNestingDepth (nameKey o) d v) : CV o d v ∧ Starts v := by
  induction h with
  | null d =>
    refine ⟨?_, 0x6E, _, rfl, by decide⟩
    intro rest fuel _ hf
    cases fuel with
    | zero => omega
    | succ f =>
      have hk : normKind 0x6E = 0x6E := by decide
      have := literal_complete litNull rest (by decide)
      simp only [litNull, List.cons_append, List.nil_append] at this
      simp [nullLit, consumeValue, hk, this, litNull]
  | true d =>
    refine ⟨?_, 0x74, _, rfl, by decide⟩
    intro rest fuel _ hf
    cases fuel with
    | zero => omega
    | succ f =>
      have hk : normKind 0x74 = 0x74 := by decide
      have := literal_complete litTrue rest (by decide)
      simp only [litTrue, List.cons_append, List.nil_append] at this
      simp [trueLit, consumeValue, hk, this, litTrue]
  | false d =>
    refine ⟨?_, 0x66, _, rfl, by decide⟩
    intro rest fuel _ hf
    cases fuel with
    | zero => omega
    | succ f =>
      have hk : normKind 0x66 = 0x66 := by decide
      have := literal_complete litFalse rest (by decide)
      simp only [litFalse, List.cons_append, List.nil_append] at this
      simp [falseLit, consumeValue, hk, this, litFalse]
  | num d p hp =>
    obtain ⟨c, t, rfl, hk⟩ := jnumber_head p hp
    refine ⟨?_, c, t, rfl, by simp [isStart, hk]⟩
    intro rest fuel hd hf
    cases fuel with
    | zero => omega
    | succ f =>
      have := valueNumber_complete (c :: t) rest hp hd
      simp only [List.cons_append] at this ⊢
      simp [consumeValue, hk, this]
  | str d p hp =>
    have hp' : JString (!o.allowInvalidUTF8) p := hp
    obtain ⟨body, hj, rfl⟩ := hp'
    refine ⟨?_, 0x22, _, rfl, by decide⟩
    intro rest fuel _ hf
    cases fuel with
    | zero => omega
    | succ f =>
      obtain ⟨fl, hvs⟩ := valueString_complete o (0x22 :: (body ++ [0x22])) rest hp
      have hk : normKind 0x22 = 0x22 := by decide
      simp only [List.cons_append, List.append_assoc, List.nil_append] at hvs ⊢
      simp [consumeValue, hk, hvs]
  | emptyArr d w hlt hw =>
    refine ⟨?_, 0x5B, _, rfl, by decide⟩
    intro rest fuel _ hf
    match fuel, hf with
    | f + 2, hf =>
      have hk : normKind 0x5B = 0x5B := by decide
      have hws : consumeWhitespace (w ++ 0x5D :: rest) = w.length := by
        apply ws_exact _ _ hw; intro c t h; simp only [List.cons.injEq] at h; rw [← h.1]; decide
      have hdrop : (w ++ 0x5D :: rest).drop (consumeWhitespace (w ++ 0x5D :: rest)) = 0x5D :: rest := by
        rw [hws]; simp
      have := consumeArray_eq o f (d + 1) (w ++ 0x5D :: rest) 0x5D rest (depth_ok d hlt) hdrop
      simp only [List.cons_append, List.append_assoc, List.nil_append]
      simp [consumeValue, hk, this, hws]
      omega
    | 0, hf => omega
    | 1, hf => simp at hf
  | arr d elems hlt hne hws hvals ih =>
    refine ⟨?_, 0x5B, _, rfl, by decide⟩
    intro rest fuel _ hf
    have hfun : (fun e : Bytes × Bytes × Bytes => e.1 ++ e.2.1 ++ e.2.2) = elemBytes := rfl
    rw [hfun] at hf ⊢
    simp only [List.cons_append, List.append_assoc, List.nil_append] at hf ⊢
    match fuel, hf with
    | 0, hf => omega
    | 1, hf => simp at hf
    | f + 2, hf =>
      have hk : normKind 0x5B = 0x5B := by decide
      cases elems with
      | nil => exact absurd rfl hne
      | cons e0 es =>
        obtain ⟨w1, val, w2⟩ := e0
        have hw0 := hws (w1, val, w2) (by simp)
        have hv0 := ih (w1, val, w2) (by simp)
        simp only at hw0 hv0
        obtain ⟨c, t, hval, hc⟩ := hv0.2
        have hjs : joinSep (((w1, val, w2) :: es).map elemBytes) = w1 ++ joinSep ((([], val, w2) :: es).map elemBytes) := by
          have : elemBytes (w1, val, w2) = w1 ++ elemBytes ([], val, w2) := by simp [elemBytes, List.append_assoc]
          simp only [List.map_cons, this, joinSep_cons_append]
        have hjs2 : joinSep ((([], val, w2) :: es).map elemBytes) = c :: (t ++ joinSep (w2 :: es.map elemBytes)) := by
          have : elemBytes ([], val, w2) = val ++ w2 := by simp [elemBytes]
          simp only [List.map_cons, this]
          rw [joinSep_cons_append, hval]; rfl
        generalize htl : t ++ joinSep (w2 :: es.map elemBytes) ++ 0x5D :: rest = tl
        have htl' : joinSep ((([], val, w2) :: es).map elemBytes) ++ 0x5D :: rest = c :: tl := by
          rw [hjs2, ← htl]; simp [List.append_assoc]
        have hin : joinSep (((w1, val, w2) :: es).map elemBytes) ++ 0x5D :: rest = w1 ++ (c :: tl) := by
          rw [hjs, List.append_assoc, htl']
        have hwsr : consumeWhitespace (w1 ++ (c :: tl)) = w1.length := by
          apply ws_exact _ _ hw0.1; intro c' t' h; simp only [List.cons.injEq] at h; rw [← h.1]
          exact (start_facts c hc).1
        have hdrop : (w1 ++ (c :: tl)).drop (consumeWhitespace (w1 ++ (c :: tl))) = c :: tl := by rw [hwsr]; simp
        have hl1 : (joinSep (((w1, val, w2) :: es).map elemBytes)).length =
            w1.length + (joinSep ((([], val, w2) :: es).map elemBytes)).length := by rw [hjs]; simp
        have hl2 : (joinSep ((([], val, w2) :: es).map elemBytes)).length + 1 + rest.length = tl.length + 1 := by
          have := congrArg List.length htl'; simp only [List.length_append, List.length_cons] at this; omega
        rw [hin] at hf ⊢
        have hloop := arrayLoop_complete o d (([], val, w2) :: es) (by simp)
          (by intro e he; simp only [List.mem_cons] at he; rcases he with rfl | he
              · exact ⟨jws_nil, hw0.2⟩
              · exact hws e (by simp [he]))
          (by intro e he; simp only [List.mem_cons] at he; rcases he with rfl | he
              · exact hv0
              · exact ih e (by simp [he]))
          rest f (by rw [htl']; simp only [List.length_cons, List.length_append] at hf ⊢; omega)
        rw [htl'] at hloop
        have := consumeArray_eq o f (d + 1) (w1 ++ (c :: tl)) c tl (depth_ok d hlt) hdrop
        have hne5 : (c == 0x5D) = false := (start_facts c hc).2.1
        simp only [consumeValue, hk]
        simp [this, hne5, hloop, addOff, hwsr]
        simp only [List.map_cons] at hl1 hl2
        omega
  | emptyObj d w hlt hw =>
    refine ⟨?_, 0x7B, _, rfl, by decide⟩
    intro rest fuel _ hf
    match fuel, hf with
    | f + 2, hf =>
      have hk : normKind 0x7B = 0x7B := by decide
      have hws : consumeWhitespace (w ++ 0x7D :: rest) = w.length := by
        apply ws_exact _ _ hw; intro c t h; simp only [List.cons.injEq] at h; rw [← h.1]; decide
      have hdrop : (w ++ 0x7D :: rest).drop (consumeWhitespace (w ++ 0x7D :: rest)) = 0x7D :: rest := by
        rw [hws]; simp
      have := consumeObject_eq o f (d + 1) (w ++ 0x7D :: rest) 0x7D rest (depth_ok d hlt) hdrop
      simp only [List.cons_append, List.append_assoc, List.nil_append]
      simp [consumeValue, hk, this, hws]
      omega
    | 0, hf => omega
    | 1, hf => simp at hf
  | obj d mems hlt hne hok hvals huniq ih =>
    refine ⟨?_, 0x7B, _, rfl, by decide⟩
    intro rest fuel _ hf
    have hfun : (fun m : Mem => m.1 ++ m.2.1 ++ m.2.2.1 ++ [0x3A] ++ m.2.2.2.1 ++ m.2.2.2.2.1 ++ m.2.2.2.2.2) = memBytes := rfl
    rw [hfun] at hf ⊢
    simp only [List.cons_append, List.append_assoc, List.nil_append] at hf ⊢
    match fuel, hf with
    | 0, hf => omega
    | 1, hf => simp at hf
    | f + 2, hf =>
      have hk : normKind 0x7B = 0x7B := by decide
      cases mems with
      | nil => exact absurd rfl hne
      | cons m0 ms =>
        obtain ⟨w1, name, w2, w3, val, w4⟩ := m0
        have hm0 := hok (w1, name, w2, w3, val, w4) (by simp)
        have hv0 := ih (w1, name, w2, w3, val, w4) (by simp)
        simp only at hv0
        have hstr : JString (!o.allowInvalidUTF8) name := hm0.2.1
        obtain ⟨body, hj, hname⟩ := hstr
        have hjs : joinSep (((w1, name, w2, w3, val, w4) :: ms).map memBytes) =
            w1 ++ joinSep ((([], name, w2, w3, val, w4) :: ms).map memBytes) := by
          have : memBytes (w1, name, w2, w3, val, w4) = w1 ++ memBytes ([], name, w2, w3, val, w4) := by
            simp [memBytes, List.append_assoc]
          simp only [List.map_cons, this, joinSep_cons_append]
        have hjs2 : ∃ x, joinSep ((([], name, w2, w3, val, w4) :: ms).map memBytes) = 0x22 :: x := by
          have : memBytes ([], name, w2, w3, val, w4) = [0x22] ++ (body ++ [0x22] ++ w2 ++ [0x3A] ++ w3 ++ val ++ w4) := by
            simp [memBytes, hname, List.append_assoc]
          refine ⟨joinSep ((body ++ [0x22] ++ w2 ++ [0x3A] ++ w3 ++ val ++ w4) :: ms.map memBytes), ?_⟩
          simp only [List.map_cons, this, joinSep_cons_append]; rfl
        obtain ⟨x, hx⟩ := hjs2
        generalize htl : x ++ 0x7D :: rest = tl
        have htl' : joinSep ((([], name, w2, w3, val, w4) :: ms).map memBytes) ++ 0x7D :: rest = 0x22 :: tl := by
          rw [hx, ← htl]; simp
        have hin : joinSep (((w1, name, w2, w3, val, w4) :: ms).map memBytes) ++ 0x7D :: rest = w1 ++ (0x22 :: tl) := by
          rw [hjs, List.append_assoc, htl']
        have hwsr : consumeWhitespace (w1 ++ (0x22 :: tl)) = w1.length := by
          apply ws_exact _ _ hm0.1; intro c' t' h; simp only [List.cons.injEq] at h; rw [← h.1]; decide
        have hdrop : (w1 ++ (0x22 :: tl)).drop (consumeWhitespace (w1 ++ (0x22 :: tl))) = 0x22 :: tl := by
          rw [hwsr]; simp
        have hl1 : (joinSep (((w1, name, w2, w3, val, w4) :: ms).map memBytes)).length =
            w1.length + (joinSep ((([], name, w2, w3, val, w4) :: ms).map memBytes)).length := by rw [hjs]; simp
        have hl2 : (joinSep ((([], name, w2, w3, val, w4) :: ms).map memBytes)).length + 1 + rest.length = tl.length + 1 := by
          have := congrArg List.length htl'; simp only [List.length_append, List.length_cons] at this; omega
        rw [hin] at hf ⊢
        have hloop := objectLoop_complete o d (([], name, w2, w3, val, w4) :: ms) (by simp)
          (by intro m hm; simp only [List.mem_cons] at hm; rcases hm with rfl | hm
              · exact ⟨jws_nil, hm0.2⟩
              · exact hok m (by simp [hm]))
          (by intro m hm; simp only [List.mem_cons] at hm; rcases hm with rfl | hm
              · exact hv0
              · exact ih m (by simp [hm]))
          [] rest f (by
            rcases huniq with h | h
            · exact Or.inl h
            · right; simpa using h)
          (by rw [htl']; simp only [List.length_cons, List.length_append] at hf ⊢; omega)
        rw [htl'] at hloop
        have := consumeObject_eq o f (d + 1) (w1 ++ (0x22 :: tl)) 0x22 tl (depth_ok d hlt) hdrop
        simp only [consumeValue, hk]
        simp [this, hloop, addOff, hwsr]
        simp only [List.map_cons] at hl1 hl2
        omega

/-! ### the top level -/

theorem delimHead_ws (w : Bytes) (hw : JWs w) : DelimHead w := by
  cases w with
  | nil => exact delimHead_nil
  | cons c t =>
    apply delimHead_cons
    have := (isWs_iff c).2 (hw c (by simp))
    simp [isDelim, this]

/-- one top-level read of `w ++ v ++ rest` (blanks, a value of the grammar, then nothing or a delimiter) -/
theorem readValueTop_complete (o : VOpts) (fuel : Nat) (w v rest : Bytes) (hw : JWs w)
    (hv : JValue (G o) maxNestingDepth (nameKey o) 0 v) (hd : Follow v rest)
    (hf : 3 * (v ++ rest).length + 1 ≤ fuel) :
    readValueTop o fuel (w ++ (v ++ rest)) = (w.length + v.length, .ok) := by
  obtain ⟨hcv, c, t, hval, hc⟩ := value_complete o 0 v hv
  have hws : consumeWhitespace (w ++ (v ++ rest)) = w.length := by
    apply ws_exact _ _ hw; intro c' t' h; rw [hval] at h
    simp only [List.cons_append, List.cons.injEq] at h; rw [← h.1]; exact (start_facts c hc).1
  have hdrop : (w ++ (v ++ rest)).drop (consumeWhitespace (w ++ (v ++ rest))) = c :: (t ++ rest) := by
    rw [hws, hval]; simp
  have hcons := hcv rest fuel hd hf
  rw [hval] at hcons
  simp only [List.cons_append] at hcons
  unfold readValueTop
  simp only [hdrop]
  have h1 := (start_facts c hc).2.2.2
  rw [hval] at hws
  simp only [List.cons_append] at hws
  simp [h1.1, h1.2, hcons, addOff, hws, hval]

/-- Completeness of `validText` (= Value.IsValid's framing): every text of the grammar is accepted. -/
theorem validText_complete (o : VOpts) (b : Bytes) (h : JText (G o) maxNestingDepth (nameKey o) b) :
    validText o b = (b.length, .ok) := by
  obtain ⟨w1, v, w2, hw1, hv, hw2, rfl⟩ := h
  have hr := readValueTop_complete o (fuelFor (w1 ++ v ++ w2)) w1 v w2 hw1 hv (follow_of_delim _ _ (delimHead_ws w2 hw2))
    (by simp [fuelFor]; omega)
  have happ : w1 ++ v ++ w2 = w1 ++ (v ++ w2) := by simp
  unfold validText
  rw [happ] at hr ⊢
  rw [hr]
  have hdrop : (w1 ++ (v ++ w2)).drop (w1.length + v.length) = w2 := by
    rw [← List.append_assoc, ← List.length_append]; simp
  have hws : consumeWhitespace w2 = w2.length := by
    have := ws_exact w2 [] hw2 (by intro c t h; cases h)
    simpa using this
  simp [hdrop, hws]
  omega

/-! ### streams -/

theorem readValueTop_ws (o : VOpts) (fuel : Nat) (w : Bytes) (hw : JWs w) : readValueTop o fuel w = (w.length, .ioEOF) := by
  have hws : consumeWhitespace w = w.length := by
    have := ws_exact w [] hw (by intro c t h; cases h); simpa using this
  unfold readValueTop
  simp [hws]

theorem streamLoop_complete (o : VOpts) (vfuel : Nat) (b : Bytes)
    (h : JStream (G o) maxNestingDepth (nameKey o) b) :
    ∀ fuel cnt base, 3 * b.length + 1 ≤ vfuel → b.length + 1 ≤ fuel →
      ∃ k, streamLoop o vfuel fuel b cnt base = (cnt + k, base + b.length, .ioEOF) := by
  induction h with
  | done w hw =>
    intro fuel cnt base _ hf
    cases fuel with
    | zero => omega
    | succ f => exact ⟨0, by simp [streamLoop, readValueTop_ws o vfuel w hw]⟩
  | next w v rest hw hv hmax _ ih =>
    intro fuel cnt base hvf hf
    cases fuel with
    | zero => omega
    | succ f =>
      have hr := readValueTop_complete o vfuel w v rest hw hv hmax (by simp at hvf ⊢; omega)
      obtain ⟨-, c, t, hval, -⟩ := value_complete o 0 v hv
      have hvpos : 1 ≤ v.length := by rw [hval]; simp
      have hdrop : (w ++ (v ++ rest)).drop (w.length + v.length) = rest := by
        rw [← List.append_assoc, ← List.length_append]; simp
      obtain ⟨k, hk⟩ := ih f (cnt + 1) (base + (w.length + v.length)) (by simp at hvf ⊢; omega) (by simp at hf ⊢; omega)
      refine ⟨k + 1, ?_⟩
      have happ : w ++ v ++ rest = w ++ (v ++ rest) := by simp
      rw [happ]
      simp only [streamLoop, hr, hdrop, hk]
      have hne : ¬ (w.length + v.length = 0) := by omega
      have hne2 : ¬ (w = [] ∧ v = []) := by rintro ⟨-, hv0⟩; rw [hv0] at hvpos; simp at hvpos
      simp [hne2]
      omega

/-- Completeness of the stream recogniser: a stream of the grammar is read to a clean io.EOF at its very end. -/
theorem stream_complete (o : VOpts) (b : Bytes) (h : JStream (G o) maxNestingDepth (nameKey o) b) :
    ∃ cnt, stream o b = (cnt, b.length, .ioEOF) := by
  obtain ⟨k, hk⟩ := streamLoop_complete o (fuelFor b) b h (b.length + 1) 0 0 (by simp [fuelFor]) (Nat.le_refl _)
  exact ⟨k, by simpa [stream] using hk⟩

end JsonV.Lemmas.WireComplete
