/-
Lemmas for C16, part 8: positions on the token-path model of slice C01 (Model/TokenLoop.lean):
every successful ReadToken applies exactly one state-machine operation and consumes a prefix of the unread
input; a failing ReadToken reports either an offset that is separated from the last token only by blanks and
at most one delimiter, or an offset inside a token that the lexer rejected.
-/
import JsonV.Model.TokenLoop
import JsonV.Model.Pointer
import JsonV.Lemmas.WireValue
import JsonV.Lemmas.StateRun

namespace JsonV.Lemmas.Position
open JsonV JsonV.Model JsonV.Model.Wire JsonV.Model.Validate JsonV.Model.TokenLoop JsonV.Spec JsonV.Spec.PDA
open JsonV.Spec.Grammar JsonV.Lemmas.StateRefine JsonV.Lemmas.StateRun JsonV.Lemmas.WireBasic JsonV.Lemmas.WireValue

/-- Only white space and the two separators. -/
def Blank (p : Bytes) : Prop := ∀ c ∈ p, WsByte c ∨ c = 0x3A ∨ c = 0x2C

theorem blank_nil : Blank [] := by intro c hc; simp at hc
theorem blank_append {a b : Bytes} (ha : Blank a) (hb : Blank b) : Blank (a ++ b) := by
  intro c hc; rcases List.mem_append.mp hc with h | h; exact ha c h; exact hb c h
theorem blank_ws {a : Bytes} (h : JWs a) : Blank a := fun c hc => Or.inl (h c hc)

/-- The lexer that `lexToken` runs on a token starting with byte `c`: consumed length and verdict
(`none`: a delimiter or an invalid first byte — nothing is lexed). -/
def lexer (o : VOpts) (r : Bytes) : Option (Nat × Err) :=
  match r with
  | [] => none
  | c :: _ =>
    let k := normKind c
    if k == 0x6E then some (valueLiteral litNull r)
    else if k == 0x66 then some (valueLiteral litFalse r)
    else if k == 0x74 then some (valueLiteral litTrue r)
    else if k == 0x22 then some ((valueString o r).1, (valueString o r).2.2)
    else if k == 0x30 then some (valueNumber r)
    else none

theorem feed_ok {st st' : TState} {pos n m : Nat} {op : Machine → Except SMErr Machine}
    (h : feed st pos n op = .tok m st') : op st.m = .ok st'.m ∧ m = pos + n := by
  unfold feed at h
  split at h
  · cases h
  · rename_i m' hm; cases h; exact ⟨hm, rfl⟩

theorem feed_err {st : TState} {pos n k : Nat} {e : Err} {op : Machine → Except SMErr Machine}
    (h : feed st pos n op = .err k e) : k = pos := by
  unfold feed at h
  split at h
  · cases h; rfl
  · cases h

theorem feedString_ok {o : VOpts} {st st' : TState} {pos m : Nat} {q : Bytes} {fl : ValueFlags}
    (h : feedString o st pos q fl = .tok m st') : st.m.appendString = .ok st'.m ∧ m = pos + q.length := by
  unfold feedString at h
  simp only at h
  repeat' split at h
  all_goals first | (cases h; done) | (rename_i hm; cases h; exact ⟨hm, rfl⟩)

theorem feedString_err {o : VOpts} {st : TState} {pos k : Nat} {q : Bytes} {fl : ValueFlags} {e : Err}
    (h : feedString o st pos q fl = .err k e) : k = pos := by
  unfold feedString at h
  simp only at h
  repeat' split at h
  all_goals first | (cases h; rfl) | (cases h; done)

/-- A successful `lexToken` applies one machine operation and consumes `len ≤ |r|` bytes from `pos`. -/
theorem lexToken_ok {o : VOpts} {st st' : TState} {pos n : Nat} {r : Bytes} (h : lexToken o st pos r = .tok n st') :
    ∃ k len, smStep maxNestingDepth st.m k = .ok st'.m ∧ n = pos + len ∧ len ≤ r.length := by
  unfold lexToken at h
  cases r with
  | nil => cases h
  | cons c rest =>
    simp only at h
    have hlit : ∀ l : Bytes, l ≠ [] → (if (valueLiteral l (c :: rest)).2 != .ok then TRes.err (pos + (valueLiteral l (c :: rest)).1) (valueLiteral l (c :: rest)).2
        else feed st pos (valueLiteral l (c :: rest)).1 Machine.appendLiteral) = .tok n st' →
        ∃ k len, smStep maxNestingDepth st.m k = .ok st'.m ∧ n = pos + len ∧ len ≤ (c :: rest).length := by
      intro l hl hk
      split at hk
      · cases hk
      · rename_i he
        have he' : (valueLiteral l (c :: rest)).2 = .ok := by simpa using he
        obtain ⟨h1, h2⟩ := feed_ok hk
        have := valueLiteral_sound l (c :: rest) _ hl (Prod.ext rfl he')
        exact ⟨.lit, _, h1, h2, this.1⟩
    split at h
    · exact hlit litNull (by decide) h
    · split at h
      · exact hlit litFalse (by decide) h
      · split at h
        · exact hlit litTrue (by decide) h
        · split at h
          · -- string
            split at h
            · cases h
            · rename_i he
              have he' : (valueString o (c :: rest)).2.2 = .ok := by simpa using he
              obtain ⟨h1, h2⟩ := feedString_ok h
              have := valueString_sound o (c :: rest) _ _ (Prod.ext rfl (Prod.ext rfl he'))
              refine ⟨.str, _, h1, h2, ?_⟩
              simp only [List.length_take]; omega
          · split at h
            · split at h
              · cases h
              · rename_i he
                have he' : (valueNumber (c :: rest)).2 = .ok := by simpa using he
                obtain ⟨h1, h2⟩ := feed_ok h
                have := valueNumber_sound (c :: rest) _ (Prod.ext rfl he')
                exact ⟨.num, _, h1, h2, this.1⟩
            · split at h
              · split at h
                · cases h
                · rename_i m' hm; cases h; exact ⟨.beginObj, 1, hm, rfl, by simp⟩
              · split at h
                · split at h
                  · cases h
                  · rename_i m' hm; cases h; exact ⟨.endObj, 1, hm, rfl, by simp⟩
                · split at h
                  · obtain ⟨h1, h2⟩ := feed_ok h; exact ⟨.beginArr, 1, h1, h2, by simp⟩
                  · split at h
                    · obtain ⟨h1, h2⟩ := feed_ok h; exact ⟨.endArr, 1, h1, h2, by simp⟩
                    · cases h

/-- A failing `lexToken` reports the token start (state machine, namespace, invalid first byte) or the position
at which the lexer gave up inside the token. -/
theorem lexToken_err {o : VOpts} {st : TState} {pos k : Nat} {r : Bytes} {e : Err} (h : lexToken o st pos r = .err k e) :
    k = pos ∨ ∃ n, lexer o r = some (n, e) ∧ e ≠ .ok ∧ k = pos + n := by
  unfold lexToken at h
  unfold lexer
  cases r with
  | nil => cases h; exact Or.inl rfl
  | cons c rest =>
    simp only at h ⊢
    have hlit : ∀ l : Bytes, (if (valueLiteral l (c :: rest)).2 != .ok then TRes.err (pos + (valueLiteral l (c :: rest)).1) (valueLiteral l (c :: rest)).2
        else feed st pos (valueLiteral l (c :: rest)).1 Machine.appendLiteral) = .err k e →
        k = pos ∨ ∃ n, some (valueLiteral l (c :: rest)) = some (n, e) ∧ e ≠ .ok ∧ k = pos + n := by
      intro l hk
      split at hk
      · rename_i he
        cases hk
        exact Or.inr ⟨_, rfl, by simpa using he, rfl⟩
      · exact Or.inl (feed_err hk)
    split at h
    · rename_i h1; rw [if_pos h1]; exact hlit _ h
    · rename_i h1; rw [if_neg h1]
      split at h
      · rename_i h2; rw [if_pos h2]; exact hlit _ h
      · rename_i h2; rw [if_neg h2]
        split at h
        · rename_i h3; rw [if_pos h3]; exact hlit _ h
        · rename_i h3; rw [if_neg h3]
          split at h
          · rename_i h4; rw [if_pos h4]
            split at h
            · rename_i he
              cases h
              exact Or.inr ⟨_, rfl, by simpa using he, rfl⟩
            · exact Or.inl (feedString_err h)
          · rename_i h4; rw [if_neg h4]
            split at h
            · rename_i h5; rw [if_pos h5]
              split at h
              · rename_i he
                cases h
                exact Or.inr ⟨_, rfl, by simpa using he, rfl⟩
              · exact Or.inl (feed_err h)
            · left
              repeat' split at h
              all_goals first | (cases h; rfl) | exact feed_err h | (cases h; done)

/-- **One successful ReadToken** = one state-machine operation, and at most the unread input is consumed. -/
theorem readToken_ok {o : VOpts} {st st' : TState} {n : Nat} {r : Bytes} (h : readToken o st r = .tok n st') :
    ∃ k, smStep maxNestingDepth st.m k = .ok st'.m ∧ n ≤ r.length := by
  unfold readToken at h
  simp only at h
  split at h
  · cases h
  · rename_i c rest hdrop
    have hlen := len_of_drop r _ c rest hdrop
    split at h
    · split at h
      · split at h <;> cases h
      · rename_i c1 rest1 hdrop2
        have hlen2 := len_of_drop rest _ c1 rest1 hdrop2
        split at h
        · cases h
        · obtain ⟨k, len, hk, hn, hl⟩ := lexToken_ok h
          exact ⟨k, hk, by simp only [List.length_cons] at hl; omega⟩
    · split at h
      · cases h
      · obtain ⟨k, len, hk, hn, hl⟩ := lexToken_ok h
        exact ⟨k, hk, by simp only [List.length_cons] at hl; omega⟩

/-- **One failing ReadToken**: the reported offset lies within the unread input and is either separated from it
only by blanks and at most one separator, or it is where the lexer gave up inside the token starting after them. -/
theorem readToken_err {o : VOpts} {st : TState} {k : Nat} {e : Err} {r : Bytes} (h : readToken o st r = .err k e) :
    Blank (r.take k) ∨
    ∃ pos n, Blank (r.take pos) ∧ lexer o (r.drop pos) = some (n, e) ∧ e ≠ .ok ∧ k = pos + n := by
  unfold readToken at h
  simp only at h
  have hw : Blank (r.take (consumeWhitespace r)) := blank_ws (ws_take r)
  split at h
  · cases h; exact Or.inl hw
  · rename_i c rest hdrop
    split at h
    · rename_i hc
      have hcb : Blank [c] := by
        intro x hx; simp only [List.mem_singleton] at hx; subst hx
        simp only [Bool.or_eq_true, beq_iff_eq] at hc; exact Or.inr hc
      have hpre : ∀ j, j = consumeWhitespace rest → Blank (r.take (consumeWhitespace r + 1 + j)) := by
        intro j hj
        rw [take_cut r _ c rest hdrop j, hj]
        exact blank_append (blank_append hw hcb) (blank_ws (ws_take rest))
      split at h
      · split at h
        · cases h; exact Or.inl hw
        · cases h; exact Or.inl (hpre _ rfl)
      · rename_i c1 rest1 hdrop2
        split at h
        · cases h; exact Or.inl hw
        · have hd : r.drop (consumeWhitespace r + 1 + consumeWhitespace rest) = c1 :: rest1 := by
            have : consumeWhitespace r + 1 + consumeWhitespace rest = consumeWhitespace r + (1 + consumeWhitespace rest) := by omega
            rw [this, ← List.drop_drop, hdrop]
            have : 1 + consumeWhitespace rest = consumeWhitespace rest + 1 := by omega
            rw [this, List.drop_succ_cons, hdrop2]
          rcases lexToken_err h with hk | ⟨n, hl, hne, hk⟩
          · subst hk; exact Or.inl (hpre _ rfl)
          · exact Or.inr ⟨_, n, hpre _ rfl, by rw [hd]; exact hl, hne, hk⟩
    · split at h
      · cases h; exact Or.inl hw
      · rcases lexToken_err h with hk | ⟨n, hl, hne, hk⟩
        · subst hk; exact Or.inl hw
        · exact Or.inr ⟨_, n, hw, by rw [hdrop]; exact hl, hne, hk⟩

/-! ### runs of successful reads -/

/-- `k` successive successful `ReadToken` calls: final state, `InputOffset` and the unread input
(`none`: one of the calls failed). -/
def reads (o : VOpts) : Nat → TState → Bytes → Nat → Option (TState × Nat × Bytes)
  | 0, st, r, off => some (st, off, r)
  | k + 1, st, r, off =>
    match readToken o st r with
    | .tok n st' => reads o k st' (r.drop n) (off + n)
    | .err _ _ => none

theorem reads_spec (o : VOpts) (k : Nat) : ∀ (st : TState) (r : Bytes) (off : Nat) (st' : TState) (off' : Nat) (rest : Bytes),
    reads o k st r off = some (st', off', rest) →
    ∃ ks, ks.length = k ∧ smRun maxNestingDepth st.m ks = .ok st'.m ∧
      off ≤ off' ∧ off' - off ≤ r.length ∧ rest = r.drop (off' - off) := by
  induction k with
  | zero =>
    intro st r off st' off' rest h
    simp only [reads, Option.some.injEq, Prod.mk.injEq] at h
    obtain ⟨rfl, rfl, rfl⟩ := h
    exact ⟨[], rfl, rfl, Nat.le_refl _, by simp, by simp⟩
  | succ k ih =>
    intro st r off st' off' rest h
    simp only [reads] at h
    split at h
    · rename_i n st1 hrt
      obtain ⟨kd, hkd, hn⟩ := readToken_ok hrt
      obtain ⟨ks, hlen, hrun, h1, h2, h3⟩ := ih _ _ _ _ _ _ h
      refine ⟨kd :: ks, by simp [hlen], by simp [smRun, hkd, hrun], by omega, ?_, ?_⟩
      · simp only [List.length_drop] at h2; omega
      · rw [h3, List.drop_drop]; congr 1; omega
    · cases h

/-- `StackIndex` computed from the frames of the token-level grammar (outermost first). -/
def frameIndex (fs : Frames) (i : Nat) : Option (UInt8 × Nat) :=
  (fs.reverse[i]?).map fun f =>
    (if i = 0 then 0 else match f with | .obj _ => 0x7b | .arr _ => 0x5b, f.count)

theorem stackIndex_abs (m : Machine) (i : Nat) : Pointer.stackIndex m i = frameIndex (abs m) i := by
  unfold Pointer.stackIndex frameIndex
  have hrev : (abs m).reverse = m.stack.map absE ++ [absE m.last] := by simp [abs]
  rw [hrev]
  have hE : ∀ e : Entry, ((if i > 0 ∧ e.isObject then (0x7b : UInt8) else if i > 0 ∧ e.isArray then 0x5b else 0), e.length) =
      ((if i = 0 then (0 : UInt8) else match absE e with | .obj _ => 0x7b | .arr _ => 0x5b), (absE e).count) := by
    intro e
    rw [count_abs, isArray_not]
    by_cases hi : i = 0
    · simp [hi]
    · have : i > 0 := by omega
      cases ho : e.isObject <;> simp [hi, this, absE, ho]
  by_cases h1 : i = m.stack.length
  · subst h1
    simp [hE]
  · rw [if_neg h1]
    by_cases h2 : i < m.stack.length
    · rw [List.getElem?_append_left (by simpa using h2)]
      simp [List.getElem?_map, hE]
      cases m.stack[i]? <;> simp [hE]
    · have h3 : m.stack.length < i := by omega
      rw [List.getElem?_eq_none (by omega), List.getElem?_eq_none (by simp; omega)]
      rfl

/-- **index_spec / offset_spec** on the token-path model: after `k` successful `ReadToken` calls on input `b`,
(1) the machine is the one reached by the `k` token kinds read, these form a viable token sequence, and
`StackDepth` / `StackIndex(i)` read off the machine are those of the grammar frames computed from that history;
(2) `InputOffset` is the length of the consumed prefix: the unread input is exactly `b.drop off`. -/
theorem index_offset_spec (o : VOpts) (k : Nat) (hk : k < 2^61) (b : Bytes) (st : TState) (off : Nat) (rest : Bytes)
    (h : reads o k {} b 0 = some (st, off, rest)) :
    (∃ ks fs, ks.length = k ∧ PDA.run maxNestingDepth PDA.init ks = some fs ∧ Viable maxNestingDepth ks ∧
      Pointer.stackDepth st.m = PDA.depth fs ∧ (∀ i, Pointer.stackIndex st.m i = frameIndex fs i) ∧
      st.m.depth + ks.countP Kind.closing = 1 + ks.countP Kind.opening) ∧
    off ≤ b.length ∧ rest = b.drop off ∧ b = b.take off ++ rest ∧ (b.take off).length = off := by
  obtain ⟨ks, hlen, hrun, _, h2, h3⟩ := reads_spec o k _ _ _ _ _ _ h
  have hinit : ({} : TState).m = Machine.init := rfl
  rw [hinit] at hrun
  simp only [Nat.sub_zero] at h2 h3
  have hl : ks.length < 2^61 := by omega
  -- slice C06's refinement of the packed machine to the PDA (Lemmas/StateRun.run_refines)
  have hR := run_refines (max := maxNestingDepth) ks (inv_init maxNestingDepth) (by omega)
  rw [abs_init, hrun] at hR
  obtain ⟨hrunF, _⟩ := hR
  have hl2 := run_length hrunF
  refine ⟨⟨ks, abs st.m, hlen, hrunF, by simp [Viable, hrunF], ?_, fun i => stackIndex_abs st.m i, ?_⟩, h2, h3, ?_, ?_⟩
  · simp [Pointer.stackDepth, PDA.depth, depth_abs]
  · rw [depth_abs]; simpa [PDA.init] using hl2
  · rw [h3, List.take_append_drop]
  · simp [List.length_take]; omega

/-- **err_viable (partial)**: `k` tokens were read from `b`, then `ReadToken` fails with offset `kk` (relative to the
unread input, as passed to `wrapSyntacticError`).  The kinds read form a viable token sequence, and the bytes between
`InputOffset` and the error offset are only blanks and at most one separator — unless the error comes out of the
lexer of the next token (then it lies `n` bytes inside that token, whose start is separated by blanks only). -/
theorem err_viable_partial (o : VOpts) (k : Nat) (hk : k < 2^61) (b : Bytes) (st : TState) (off : Nat) (rest : Bytes)
    (h : reads o k {} b 0 = some (st, off, rest)) (kk : Nat) (e : Err) (herr : readToken o st rest = .err kk e) :
    (∃ ks, ks.length = k ∧ Viable maxNestingDepth ks ∧ smRun maxNestingDepth Machine.init ks = .ok st.m) ∧
    b.take (off + kk) = b.take off ++ (b.drop off).take kk ∧
    (Blank ((b.drop off).take kk) ∨
      ∃ pos n, Blank ((b.drop off).take pos) ∧ lexer o (b.drop (off + pos)) = some (n, e) ∧ e ≠ .ok ∧ kk = pos + n) := by
  obtain ⟨⟨ks, fs, hlen, hrun, hv, _⟩, _, hrest, _, _⟩ := index_offset_spec o k hk b st off rest h
  obtain ⟨ks', hlen', hrun', _⟩ := reads_spec o k _ _ _ _ _ _ h
  refine ⟨⟨ks', hlen', ?_, hrun'⟩, List.take_add, ?_⟩
  · have hR := run_refines (max := maxNestingDepth) ks' (inv_init maxNestingDepth) (by omega)
    have hinit : ({} : TState).m = Machine.init := rfl
    rw [hinit] at hrun'
    rw [abs_init, hrun'] at hR
    simp [Viable, hR.1]
  · subst hrest
    rcases readToken_err herr with hb | ⟨pos, n, hb, hl, hne, hkk⟩
    · exact Or.inl hb
    · exact Or.inr ⟨pos, n, hb, by rw [← List.drop_drop]; exact hl, hne, hkk⟩

end JsonV.Lemmas.Position
