/-
Respelling all strings of an accepted token list (ReformatString without an escape option) gives a token list that
is again accepted under the same validation options, has the same texts, and is a fixed point of respelling.
The duplicate-name test of the respelled list needs `nameKey` = the unquoted text (`NameKeyUnquote`, a fact about
slice C01's `unescapedName`/`valueString` that is not yet proved there); with AllowDuplicateNames nothing is needed.
-/
import JsonV.Lemmas.FormatRespellStr
import JsonV.Lemmas.GlueStrict

namespace JsonV.Fmt
open JsonV.Canon JsonV.Lemmas.CanonNest JsonV.Spec.Grammar JsonV.Model

/-- the name key of a literal of the selected mode is its unquoted text (`insertQuoted` stores the inner bytes of a
verbatim literal, which are its unquoted text) -/
def NameKeyUnquote : Prop :=
  ∀ (o : FOpts) (raw : Bytes), JString (!o.allowInvalidUTF8) raw → nameKey o raw = (Wire.unquote raw).1

theorem wire_unquote_unqS (raw : Bytes) : (Wire.unquote raw).1 = unqS raw := by
  rw [JsonV.Props.C11.glue_unquote]; rfl

theorem step_respell (o : FOpts) (st : Stack) (k : Tok) : step st (respellTok o k) = step st k := by
  cases k <;> first | rfl | (cases st <;> rfl)

theorem accepts_respell (o : FOpts) : ∀ (ts : List Tok) (st : Stack),
    accepts st (ts.map (respellTok o)) = accepts st ts := by
  intro ts
  induction ts with
  | nil => intro st; rfl
  | cons k ks ih =>
    intro st
    simp only [List.map_cons, accepts, step_respell]
    cases step st k with
    | none => rfl
    | some p => exact ih p.2

mutual
def mapT (o : FOpts) : JV → JV
  | .atom k => .atom (respellTok o k)
  | .arr es => .arr (mapL o es)
  | .obj ms => .obj (mapM o ms)
def mapL (o : FOpts) : List JV → List JV
  | [] => []
  | e :: es => mapT o e :: mapL o es
def mapM (o : FOpts) : List (Bytes × JV) → List (Bytes × JV)
  | [] => []
  | (n, v) :: ms => (respellStr o n, mapT o v) :: mapM o ms
end

mutual
theorem toks_mapT (o : FOpts) : ∀ t : JV, (mapT o t).toks = t.toks.map (respellTok o)
  | .atom k => by simp [mapT, JV.toks]
  | .arr es => by simp [mapT, JV.toks, toks_mapL o es, respellTok]
  | .obj ms => by simp [mapT, JV.toks, toks_mapM o ms, respellTok]
theorem toks_mapL (o : FOpts) : ∀ es : List JV, toksL (mapL o es) = (toksL es).map (respellTok o)
  | [] => by simp [mapL, toksL]
  | e :: es => by simp [mapL, toksL, toks_mapT o e, toks_mapL o es]
theorem toks_mapM (o : FOpts) : ∀ ms : List (Bytes × JV), toksM (mapM o ms) = (toksM ms).map (respellTok o)
  | [] => by simp [mapM, toksM]
  | (n, v) :: ms => by simp [mapM, toksM, toks_mapT o v, toks_mapM o ms, respellTok]
end

theorem atomOK_respell (o : FOpts) (k : Tok) : atomOK (respellTok o k) = atomOK k := by cases k <;> rfl

mutual
theorem atomsOK_mapT (o : FOpts) : ∀ t : JV, AtomsOK (mapT o t) = AtomsOK t
  | .atom k => by simp [mapT, AtomsOK, atomOK_respell]
  | .arr es => by simp [mapT, AtomsOK, atomsOK_mapL o es]
  | .obj ms => by simp [mapT, AtomsOK, atomsOK_mapM o ms]
theorem atomsOK_mapL (o : FOpts) : ∀ es : List JV, AtomsOKL (mapL o es) = AtomsOKL es
  | [] => rfl
  | e :: es => by simp [mapL, AtomsOKL, atomsOK_mapT o e, atomsOK_mapL o es]
theorem atomsOK_mapM (o : FOpts) : ∀ ms : List (Bytes × JV), AtomsOKM (mapM o ms) = AtomsOKM ms
  | [] => rfl
  | (n, v) :: ms => by simp [mapM, AtomsOKM, atomsOK_mapT o v, atomsOK_mapM o ms]
end

theorem mapM_keys (o : FOpts) (key : Bytes → Bytes) : ∀ ms : List (Bytes × JV),
    (∀ raw, Tok.str raw ∈ toksM ms → key (respellStr o raw) = key raw) →
    ((mapM o ms).map fun p => key p.1) = ms.map fun p => key p.1
  | [], _ => rfl
  | (n, v) :: ms, hk => by
    simp only [mapM, List.map_cons]
    rw [hk n (by simp [toksM]), mapM_keys o key ms (fun raw hm => hk raw (by simp [toksM, hm]))]

mutual
theorem dupT_mapT (o : FOpts) (key : Bytes → Bytes) : ∀ t : JV,
    (∀ raw, Tok.str raw ∈ t.toks → key (respellStr o raw) = key raw) → dupT key (mapT o t) = dupT key t
  | .atom k, _ => by simp [mapT, dupT]
  | .arr es, hk => by
    simp only [mapT, dupT]
    exact dupL_mapL o key es (fun raw hm => hk raw (by simp [JV.toks, hm]))
  | .obj ms, hk => by
    simp only [mapT, dupT]
    rw [mapM_keys o key ms (fun raw hm => hk raw (by simp [JV.toks, hm])),
      dupM_mapM o key ms (fun raw hm => hk raw (by simp [JV.toks, hm]))]
theorem dupL_mapL (o : FOpts) (key : Bytes → Bytes) : ∀ es : List JV,
    (∀ raw, Tok.str raw ∈ toksL es → key (respellStr o raw) = key raw) → dupL key (mapL o es) = dupL key es
  | [], _ => rfl
  | e :: es, hk => by
    simp only [mapL, dupL]
    rw [dupT_mapT o key e (fun raw hm => hk raw (by simp [toksL, hm])),
      dupL_mapL o key es (fun raw hm => hk raw (by simp [toksL, hm]))]
theorem dupM_mapM (o : FOpts) (key : Bytes → Bytes) : ∀ ms : List (Bytes × JV),
    (∀ raw, Tok.str raw ∈ toksM ms → key (respellStr o raw) = key raw) → dupM key (mapM o ms) = dupM key ms
  | [], _ => rfl
  | (n, v) :: ms, hk => by
    simp only [mapM, dupM]
    rw [dupT_mapT o key v (fun raw hm => hk raw (by simp [toksM, hm])),
      dupM_mapM o key ms (fun raw hm => hk raw (by simp [toksM, hm]))]
end

/-- the strings of a list accepted under the validation options are strings of the selected mode -/
theorem strs_of_tokenizeV (o : FOpts) (b : Bytes) (ts : List Tok) (h : tokenizeV o b = some ts) :
    ∀ raw, Tok.str raw ∈ ts → JString (!o.allowInvalidUTF8) raw := by
  obtain ⟨ht, hk⟩ := (tokenizeV_eq_some o b ts).mp h
  simp only [tokensOK, Bool.and_eq_true, List.all_eq_true] at hk
  intro raw hm
  have h1 := hk.1 _ hm
  simp only [strOKV, Bool.or_eq_true] at h1
  cases hu : o.allowInvalidUTF8 with
  | true => simpa using (str_valid_iff raw).mp ((tokenize_sound' b ts ht).1 _ hm)
  | false =>
    rcases h1 with h1 | h1
    · rw [hu] at h1; cases h1
    · simpa using (strictStr_iff raw).mp h1

/-- **Respelling an accepted token list** (every option set but PreserveRawStrings with an escape option): well nested, accepted under the same validation
options, a fixed point of respelling, and every string keeps its text. -/
theorem respell_tokens (o : FOpts) (hR : o.respellable) (hd : o.allowDup = true ∨ NameKeyUnquote)
    (b : Bytes) (ts : List Tok) (h : tokenizeV o b = some ts) :
    WellNested (ts.map (respellTok o)) ∧ tokensOK o (ts.map (respellTok o)) = true ∧
    (ts.map (respellTok o)).map (respellTok o) = ts.map (respellTok o) ∧
    ∀ raw, Tok.str raw ∈ ts → unqS (respellStr o raw) = unqS raw := by
  obtain ⟨ht, hk⟩ := (tokenizeV_eq_some o b ts).mp h
  have hw := tokenize_sound' b ts ht
  have hstr := strs_of_tokenizeV o b ts h
  have hspec := fun raw hm => respellStr_spec' o hR raw (hstr raw hm)
  refine ⟨⟨?_, by rw [accepts_respell]; exact hw.2⟩, ?_, ?_, fun raw hm => (hspec raw hm).2.2.1⟩
  · intro k hk'
    obtain ⟨k0, hk0, rfl⟩ := List.mem_map.mp hk'
    cases k0 with
    | str raw => exact (hspec raw hk0).1
    | _ => exact hw.1 _ hk0
  · simp only [tokensOK, Bool.and_eq_true, List.all_eq_true, Bool.or_eq_true] at hk ⊢
    constructor
    · intro k hk'
      obtain ⟨k0, hk0, rfl⟩ := List.mem_map.mp hk'
      cases k0 with
      | str raw =>
        simp only [respellTok, strOKV, Bool.or_eq_true]
        cases hu : o.allowInvalidUTF8 with
        | true => exact Or.inl rfl
        | false =>
          right
          have := (hspec raw hk0).2.1
          rw [hu] at this
          exact (strictStr_iff _).mpr (by simpa using this)
      | _ => rfl
    · rcases hk.2 with hdup | hnames
      · exact Or.inl hdup
      · rcases hd with hd | hkey
        · exact Or.inl hd
        · right
          obtain ⟨t, rfl, hat, _⟩ := accepts_is_tree ts hw.2
          rw [← toks_mapT, namesOK_toks _ _ (by rw [atomsOK_mapT]; exact hat)]
          rw [namesOK_toks _ t hat] at hnames
          rw [dupT_mapT o (nameKey o) t ?_]; exact hnames
          intro raw hm
          have s := hspec raw hm
          rw [hkey o _ s.2.1, hkey o raw (hstr raw hm), wire_unquote_unqS, wire_unquote_unqS, s.2.2.1]
  · rw [List.map_map]
    apply List.map_congr_left
    intro k hk'
    cases k with
    | str raw => simp only [Function.comp, respellTok]; rw [(hspec raw hk').2.2.2]
    | _ => rfl

end JsonV.Fmt
