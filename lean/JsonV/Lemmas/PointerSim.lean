/-
Lemmas for C16, part 6: the pointer assembled by `appendStackPointer` (all three `where` values) on
every state reachable through token steps equals the rendering of the declarative path
`pointerOf w hist` (Spec/PointerSpec.lean).  Simulation between the (kind, count) stack + names stack
of the model and the explicit frames of the spec.
-/
import JsonV.Lemmas.PointerStack

namespace JsonV.Lemmas.Pointer
open JsonV JsonV.Model JsonV.Model.Pointer JsonV.Spec.Pointer

/-- Reference token of a path step as `appendStackPointer` writes it (names pass through Go's `range`). -/
def refToken : Ref → Bytes
  | .name n => sanitize n
  | .index i => decimal i

/-! ### the loop with the names consumed as a list -/

def stackLoopL (wh : Int) : List Bytes → List SEntry → Bytes → Option Bytes
  | _, [], b => some b
  | ns, e :: rest, b =>
    if rest.isEmpty ∧ (wh < 0 ∧ e.len = 0 ∨ wh = 0 ∧ !e.needObjectValue ∨ wh > 0 ∧ e.needObjectName) then some b
    else if e.isObj then
      match ns with
      | [] => none
      | nm :: ns' => stackLoopL wh ns' rest (appendEscapePointerName (b ++ [cSlash]) nm)
    else
      if rest.isEmpty ∧ wh > 0 then stackLoopL wh ns rest (b ++ [cSlash] ++ decimal e.len)
      else if e.len = 0 then none
      else stackLoopL wh ns rest (b ++ [cSlash] ++ decimal (e.len - 1))

theorem stackLoop_eq (wh : Int) (names : List Bytes) (es : List SEntry) (od : Nat) (b : Bytes) :
    stackLoop wh names es od b = stackLoopL wh (names.drop od) es b := by
  induction es generalizing od b with
  | nil => simp [stackLoop, stackLoopL]
  | cons e rest ih =>
    unfold stackLoop stackLoopL
    split
    · rfl
    · split
      · cases hd : names.drop od with
        | nil =>
          have : names[od]? = none := by
            rw [List.getElem?_eq_none_iff]; exact List.drop_eq_nil_iff.mp hd
          simp [this]
        | cons nm tl =>
          have h1 : names[od]? = some nm := by
            have := congrArg List.head? hd
            simpa [List.head?_drop] using this
          have h2 : names.drop (od + 1) = tl := by
            have := congrArg List.tail hd
            simpa [List.tail_drop] using this
          simp only [h1]
          rw [ih, h2]
      · split
        · exact ih _ _
        · split
          · rfl
          · exact ih _ _

/-! ### simulation relation (the same inductive read innermost-first or outermost-first) -/

inductive Rel : List SEntry → List Bytes → List Frame → Prop
  | nil : Rel [] [] []
  | arr (n : Nat) {es ns fs} : Rel es ns fs → Rel (⟨false, n⟩ :: es) ns (.arr n :: fs)
  | obj (n : Nat) (nm : Bytes) {es ns fs} : Rel es ns fs →
      Rel (⟨true, n⟩ :: es) (nm :: ns) (.obj (if n = 0 then none else some nm) (n % 2 == 1) :: fs)

theorem Rel.nil_inv {ns fs} (h : Rel [] ns fs) : ns = [] ∧ fs = [] := by cases h; exact ⟨rfl, rfl⟩

theorem Rel.length {es ns fs} (h : Rel es ns fs) : fs.length = es.length := by
  induction h <;> simp [*]

theorem Rel.append {es ns fs es' ns' fs'} (h : Rel es ns fs) (h' : Rel es' ns' fs') :
    Rel (es ++ es') (ns ++ ns') (fs ++ fs') := by
  induction h with
  | nil => simpa using h'
  | arr n _ ih => exact Rel.arr n ih
  | obj n nm _ ih => exact Rel.obj n nm ih

theorem Rel.reverse {es ns fs} (h : Rel es ns fs) : Rel es.reverse ns.reverse fs.reverse := by
  induction h with
  | nil => exact Rel.nil
  | arr n _ ih =>
    simp only [List.reverse_cons]
    have := Rel.append ih (Rel.arr n Rel.nil)
    simpa using this
  | obj n nm _ ih =>
    simp only [List.reverse_cons]
    exact Rel.append ih (Rel.obj n nm Rel.nil)

/-! ### one token step -/

/-- All entries but the innermost have a current child; the outermost is the top-level array. -/
def bottomArr : List SEntry → Bool
  | [] => false
  | [e] => !e.isObj
  | _ :: rest => bottomArr rest

structure Good (s : AState) : Prop where
  pos : ∀ e ∈ s.stack.tail, e.len > 0
  bottom : bottomArr s.stack = true

theorem bottomArr_cons (e : SEntry) {l : List SEntry} (h : l ≠ []) : bottomArr (e :: l) = bottomArr l := by
  cases l with
  | nil => exact absurd rfl h
  | cons x t => rfl

theorem bottomArr_bump (o : Bool) (n m : Nat) (l : List SEntry) (h : bottomArr (⟨o, n⟩ :: l) = true) :
    bottomArr (⟨o, m⟩ :: l) = true := by
  cases l with
  | nil => simpa [bottomArr] using h
  | cons x t => exact h

theorem bottomArr_head (e e' : SEntry) (l : List SEntry) (h : e'.isObj = e.isObj) :
    bottomArr (e' :: l) = bottomArr (e :: l) := by
  cases l with
  | nil => simp [bottomArr, h]
  | cons x t => rfl

theorem step_sim {s s' : AState} {t : Tok} {fs : List Frame} (hr : Rel s.stack s.names fs) (hg : Good s)
    (hs : s.step t = some s') : ∃ fs', stepFrames fs t = some fs' ∧ Rel s'.stack s'.names fs' ∧ Good s' := by
  obtain ⟨stack, names⟩ := s
  simp only at hr
  have hpos := hg.pos
  have hbot := hg.bottom
  simp only at hpos hbot
  cases hr with
  | nil => simp [AState.step] at hs
  | @arr n below ns fs0 h0 =>
    -- innermost container is an array (or the top level)
    have hnn : (⟨false, n⟩ : SEntry).needObjectName = false := rfl
    cases t with
    | scalar =>
      simp [AState.step, hnn] at hs; subst hs
      exact ⟨_, by simp [stepFrames, Frame.beginValue], Rel.arr (n + 1) h0,
        ⟨by simpa using hpos, bottomArr_bump _ _ _ _ hbot⟩⟩
    | str x =>
      simp [AState.step, hnn] at hs; subst hs
      exact ⟨_, by simp [stepFrames, Frame.beginValue], Rel.arr (n + 1) h0,
        ⟨by simpa using hpos, bottomArr_bump _ _ _ _ hbot⟩⟩
    | beginObj =>
      simp [AState.step, hnn] at hs; subst hs
      refine ⟨_, by simp [stepFrames, Frame.beginValue], Rel.obj 0 [] (Rel.arr (n + 1) h0), ⟨?_, ?_⟩⟩
      · intro e he
        simp only [List.tail_cons, List.mem_cons] at he
        rcases he with rfl | he
        · simp
        · exact hpos e (by simpa using he)
      · show bottomArr (_ :: below) = true
        exact bottomArr_bump _ _ _ _ hbot
    | beginArr =>
      simp [AState.step, hnn] at hs; subst hs
      refine ⟨_, by simp [stepFrames, Frame.beginValue], Rel.arr 0 (Rel.arr (n + 1) h0), ⟨?_, ?_⟩⟩
      · intro e he
        simp only [List.tail_cons, List.mem_cons] at he
        rcases he with rfl | he
        · simp
        · exact hpos e (by simpa using he)
      · show bottomArr (_ :: below) = true
        exact bottomArr_bump _ _ _ _ hbot
    | endObj => simp [AState.step] at hs
    | endArr =>
      cases below with
      | nil => simp [AState.step] at hs
      | cons g rest =>
        simp [AState.step] at hs; subst hs
        have hl := h0.length
        cases fs0 with
        | nil => simp at hl
        | cons f0 fr =>
          refine ⟨_, by simp [stepFrames], h0, ⟨?_, ?_⟩⟩
          · intro e he; exact hpos e (by simp only [List.tail_cons] at he ⊢; exact List.mem_of_mem_tail he)
          · rw [bottomArr_cons _ (by simp)] at hbot; exact hbot
  | @obj n nm below ns fs0 h0 =>
    have hname : (⟨true, n⟩ : SEntry).needObjectName = (n % 2 == 0) := rfl
    have hval : (⟨true, n⟩ : SEntry).needObjectValue = (n % 2 == 1) := rfl
    by_cases hpar : n % 2 = 0
    · -- a name (or '}') is expected
      have hn0 : (n % 2 == 0) = true := by simp [hpar]
      have hn1 : (n % 2 == 1) = false := by simp [hpar]
      have hn1' : ((n + 1) % 2 == 1) = true := by simp; omega
      cases t with
      | scalar => simp [AState.step, hname, hn0] at hs
      | beginObj => simp [AState.step, hname, hn0] at hs
      | beginArr => simp [AState.step, hname, hn0] at hs
      | endArr => simp [AState.step] at hs
      | str x =>
        simp [AState.step, hname, hn0] at hs; subst hs
        refine ⟨Frame.obj (some x) true :: fs0, by simp [stepFrames, hn1], ?_, ⟨by simpa using hpos, bottomArr_bump _ _ _ _ hbot⟩⟩
        have := Rel.obj (n + 1) x h0
        simpa [hn1'] using this
      | endObj =>
        cases below with
        | nil => simp [AState.step, hval, hn1] at hs
        | cons g rest =>
          simp [AState.step, hval, hn1] at hs; subst hs
          have hl := h0.length
          cases fs0 with
          | nil => simp at hl
          | cons f0 fr =>
            refine ⟨_, by simp [stepFrames, hn1], h0, ⟨?_, ?_⟩⟩
            · intro e he; exact hpos e (by simp only [List.tail_cons] at he ⊢; exact List.mem_of_mem_tail he)
            · rw [bottomArr_cons _ (by simp)] at hbot; exact hbot
    · -- a member value is expected
      have hn0 : (n % 2 == 0) = false := by simp; omega
      have hn1 : (n % 2 == 1) = true := by simp; omega
      have hne : n ≠ 0 := by omega
      have hn1' : ((n + 1) % 2 == 1) = false := by simp; omega
      have hfr : (Frame.obj (if n = 0 then none else some nm) (n % 2 == 1)) = Frame.obj (some nm) true := by
        simp [hne, hn1]
      have hnew : Rel (⟨true, n + 1⟩ :: below) (nm :: ns) (Frame.obj (some nm) false :: fs0) := by
        have := Rel.obj (n + 1) nm h0
        simpa [hn1'] using this
      rw [hfr]
      cases t with
      | scalar =>
        simp [AState.step, hname, hn0] at hs; subst hs
        exact ⟨_, by simp [stepFrames, Frame.beginValue], hnew,
          ⟨by simpa using hpos, bottomArr_bump _ _ _ _ hbot⟩⟩
      | str x =>
        simp [AState.step, hname, hn0] at hs; subst hs
        exact ⟨_, by simp [stepFrames, Frame.beginValue], hnew,
          ⟨by simpa using hpos, bottomArr_bump _ _ _ _ hbot⟩⟩
      | beginObj =>
        simp [AState.step, hname, hn0] at hs; subst hs
        refine ⟨_, by simp [stepFrames, Frame.beginValue], Rel.obj 0 [] hnew, ⟨?_, ?_⟩⟩
        · intro e he
          simp only [List.tail_cons, List.mem_cons] at he
          rcases he with rfl | he
          · simp
          · exact hpos e (by simpa using he)
        · show bottomArr (_ :: below) = true
          exact bottomArr_bump _ _ _ _ hbot
      | beginArr =>
        simp [AState.step, hname, hn0] at hs; subst hs
        refine ⟨_, by simp [stepFrames, Frame.beginValue], Rel.arr 0 hnew, ⟨?_, ?_⟩⟩
        · intro e he
          simp only [List.tail_cons, List.mem_cons] at he
          rcases he with rfl | he
          · simp
          · exact hpos e (by simpa using he)
        · show bottomArr (_ :: below) = true
          exact bottomArr_bump _ _ _ _ hbot
      | endObj => simp [AState.step, hval, hn1] at hs
      | endArr => simp [AState.step] at hs

theorem run_sim {hist : List Tok} : ∀ {s s' : AState} {fs : List Frame}, Rel s.stack s.names fs → Good s →
    s.run hist = some s' → ∃ fs', runFrames fs hist = some fs' ∧ Rel s'.stack s'.names fs' ∧ Good s' := by
  induction hist with
  | nil => intro s s' fs hr hg h; simp [AState.run] at h; subst h; exact ⟨fs, rfl, hr, hg⟩
  | cons t ts ih =>
    intro s s' fs hr hg h
    simp only [AState.run] at h
    split at h
    · cases h
    · rename_i s1 h1
      obtain ⟨fs1, hf1, hr1, hg1⟩ := step_sim hr hg h1
      obtain ⟨fs', hf', hr', hg'⟩ := ih hr1 hg1 h
      exact ⟨fs', by simp [runFrames, hf1, hf'], hr', hg'⟩

theorem init_rel : Rel AState.init.stack AState.init.names [.arr 0] := Rel.arr 0 Rel.nil
theorem init_good : Good AState.init := ⟨by simp [AState.init], rfl⟩

/-! ### the assembled pointer, outermost first -/

/-- `pathOfFrames` on frames given outermost first, top level removed. -/
def pathO (w : Int) : List Frame → List Ref
  | [] => []
  | [f] => (f.innermost w).toList
  | f :: g :: rest => f.current.toList ++ pathO w (g :: rest)

theorem pathO_snoc (w : Int) (mid : List Frame) (f : Frame) :
    pathO w (mid ++ [f]) = mid.filterMap Frame.current ++ (f.innermost w).toList := by
  induction mid with
  | nil => simp [pathO]
  | cons g rest ih =>
    cases hr : rest ++ [f] with
    | nil => simp at hr
    | cons x t =>
      rw [List.cons_append, hr, pathO, ← hr, ih]
      cases hc : g.current <;> simp [List.filterMap_cons, hc]

theorem pathOfFrames_eq (w : Int) (fs : List Frame) : pathOfFrames w fs = pathO w (fs.reverse.drop 1) := by
  cases fs with
  | nil => rfl
  | cons f below =>
    rcases List.eq_nil_or_concat below with rfl | ⟨mid, top, rfl⟩
    · rfl
    · rw [List.concat_eq_append]
      have h1 : pathOfFrames w (f :: (mid ++ [top])) = (mid.reverse.filterMap Frame.current) ++ (f.innermost w).toList := by
        cases hm : mid ++ [top] with
        | nil => simp at hm
        | cons x t =>
          show ((x :: t).dropLast.reverse.filterMap Frame.current) ++ (f.innermost w).toList = _
          rw [← hm, List.dropLast_concat]
      rw [h1]
      have h2 : (f :: (mid ++ [top])).reverse.drop 1 = mid.reverse ++ [f] := by simp
      rw [h2, pathO_snoc]

theorem render_snoc (ts : List Bytes) (t : Bytes) : render (ts ++ [t]) = render ts ++ cSlash :: escapeTok t := by
  rw [render_append]; simp [render, cSlash]

theorem render_cons' (b : Bytes) (t : Bytes) (ts : List Bytes) :
    b ++ render (t :: ts) = (b ++ cSlash :: escapeTok t) ++ render ts := by
  simp [render, cSlash]

theorem appendName_eq (b nm : Bytes) : appendEscapePointerName (b ++ [cSlash]) nm = b ++ cSlash :: escapeTok (sanitize nm) := by
  rw [appendEscape_eq]; simp

theorem appendIndex_eq (b : Bytes) (n : Nat) : b ++ [cSlash] ++ decimal n = b ++ cSlash :: escapeTok (decimal n) := by
  rw [escapeTok_decimal]; simp

/-- The loop over entries and names given outermost first writes the rendering of `pathO`. -/
theorem loop_path (w : Int) (hw : w = -1 ∨ w = 0 ∨ w = 1) {es : List SEntry} {ns : List Bytes} {fs : List Frame}
    (hr : Rel es ns fs) : (∀ e ∈ es.dropLast, e.len > 0) → ∀ b : Bytes,
    stackLoopL w ns es b = some (b ++ render ((pathO w fs).map refToken)) := by
  induction hr with
  | nil => intro _ b; simp [stackLoopL, pathO, render]
  | @arr n es ns fs h0 ih =>
    intro hpos b
    cases es with
    | nil =>
      obtain ⟨rfl, rfl⟩ := h0.nil_inv
      have hnv : (⟨false, n⟩ : SEntry).needObjectValue = false := rfl
      have hnn : (⟨false, n⟩ : SEntry).needObjectName = false := rfl
      rcases hw with rfl | rfl | rfl
      · by_cases hn : n = 0
        · simp [stackLoopL, pathO, Frame.innermost, hn, render]
        · simp [stackLoopL, pathO, Frame.innermost, hn, hnv, hnn, render, refToken, escapeTok_decimal, cSlash]
      · simp [stackLoopL, pathO, Frame.innermost, hnv, render]
      · simp [stackLoopL, pathO, Frame.innermost, hnv, hnn, render, refToken, escapeTok_decimal, cSlash]
    | cons e' rest =>
      have hl := h0.length
      cases fs with
      | nil => simp at hl
      | cons g fr =>
        have hn : n ≠ 0 := by
          have := hpos ⟨false, n⟩ (by simp [List.dropLast])
          simp at this; omega
        have hrec := ih (fun e he => hpos e (by simp only [List.dropLast_cons_cons]; exact List.mem_cons_of_mem _ he))
        unfold stackLoopL
        simp only [List.isEmpty_cons, Bool.false_eq_true, false_and, if_false, hn]
        rw [hrec, appendIndex_eq]
        simp [pathO, Frame.current, hn, refToken, render, cSlash]
  | @obj n nm es ns fs h0 ih =>
    intro hpos b
    have hnv : (⟨true, n⟩ : SEntry).needObjectValue = (n % 2 == 1) := rfl
    have hnn : (⟨true, n⟩ : SEntry).needObjectName = (n % 2 == 0) := rfl
    cases es with
    | nil =>
      obtain ⟨rfl, rfl⟩ := h0.nil_inv
      rcases hw with rfl | rfl | rfl
      · by_cases hn : n = 0
        · simp [stackLoopL, pathO, Frame.innermost, hn, render]
        · simp [stackLoopL, pathO, Frame.innermost, hn, render, refToken, cSlash]
          exact appendName_eq b nm
      · by_cases hp : n % 2 = 1
        · have hn : n ≠ 0 := by omega
          simp [stackLoopL, pathO, Frame.innermost, hnv, hp, hn, render, refToken, cSlash]
          exact appendName_eq b nm
        · simp [stackLoopL, pathO, Frame.innermost, hnv, hp, render]
      · by_cases hp : n % 2 = 1
        · have hn : n ≠ 0 := by omega
          have h0' : ¬ n % 2 = 0 := by omega
          simp [stackLoopL, pathO, Frame.innermost, hnn, hp, hn, render, refToken, cSlash]
          exact appendName_eq b nm
        · have h0' : n % 2 = 0 := by omega
          simp [stackLoopL, pathO, Frame.innermost, hnn, hp, h0', render]
    | cons e' rest =>
      have hl := h0.length
      cases fs with
      | nil => simp at hl
      | cons g fr =>
        have hn : n ≠ 0 := by
          have := hpos ⟨true, n⟩ (by simp [List.dropLast])
          simp at this; omega
        have hrec := ih (fun e he => hpos e (by simp only [List.dropLast_cons_cons]; exact List.mem_cons_of_mem _ he))
        unfold stackLoopL
        simp only [List.isEmpty_cons, Bool.false_eq_true, false_and, if_false, if_true]
        rw [hrec, appendName_eq]
        simp [pathO, Frame.current, hn, refToken, render, cSlash]

theorem Rel.bottom_inv {n : Nat} {es : List SEntry} {ns : List Bytes} {fs : List Frame}
    (h : Rel (⟨false, n⟩ :: es) ns fs) : ∃ fs', fs = .arr n :: fs' ∧ Rel es ns fs' := by
  cases h with
  | arr _ h0 => exact ⟨_, rfl, h0⟩

theorem bottomArr_reverse : ∀ (l : List SEntry), bottomArr l = true → ∃ n es, l.reverse = ⟨false, n⟩ :: es
  | [], h => by simp [bottomArr] at h
  | [e], h => by
    obtain ⟨o, n⟩ := e
    simp [bottomArr] at h; subst h; exact ⟨n, [], rfl⟩
  | e :: x :: t, h => by
    obtain ⟨n, es, hr⟩ := bottomArr_reverse (x :: t) h
    exact ⟨n, es ++ [e], by rw [List.reverse_cons, hr]; rfl⟩

/-- **The stack pointer of a good state** is the rendering of the path read off the related frames. -/
theorem pointer_of_rel (w : Int) (hw : w = -1 ∨ w = 0 ∨ w = 1) {s : AState} {fs : List Frame}
    (hr : Rel s.stack s.names fs) (hg : Good s) :
    appendStackPointer s [] w = some (render ((pathOfFrames w fs).map refToken)) := by
  unfold appendStackPointer
  rw [stackLoop_eq, List.drop_zero, pathOfFrames_eq]
  obtain ⟨n, es, hrev⟩ := bottomArr_reverse s.stack hg.bottom
  have hR := hr.reverse
  rw [hrev] at hR
  obtain ⟨fs', hfs, hR'⟩ := hR.bottom_inv
  rw [hrev, hfs]
  simp only [List.drop_succ_cons, List.drop_zero]
  have hpos : ∀ e ∈ es.dropLast, e.len > 0 := by
    intro e he
    apply hg.pos e
    -- s.stack = (⟨false,n⟩ :: es).reverse = es.reverse ++ [bottom]; its tail contains es.dropLast
    have hs : s.stack = es.reverse ++ [⟨false, n⟩] := by
      have := congrArg List.reverse hrev
      simpa using this
    rw [hs]
    rcases List.eq_nil_or_concat es with rfl | ⟨mid, last, rfl⟩
    · simp at he
    · rw [List.concat_eq_append] at he ⊢
      rw [List.dropLast_concat] at he
      simp only [List.reverse_append, List.reverse_cons, List.reverse_nil, List.nil_append, List.cons_append,
        List.tail_cons]
      simp [he]
  have := loop_path w hw hR' hpos []
  simpa using this

/-- **stackptr_spec**: after any accepted token history, for where ∈ {-1, 0, +1}. -/
theorem stackptr_spec (hist : List Tok) (w : Int) (s : AState) (hw : w = -1 ∨ w = 0 ∨ w = 1)
    (hrun : AState.init.run hist = some s) :
    ∃ path, pointerOf w hist = some path ∧ appendStackPointer s [] w = some (render (path.map refToken)) := by
  obtain ⟨fs, hf, hr, hg⟩ := run_sim init_rel init_good hrun
  exact ⟨pathOfFrames w fs, by simp [pointerOf, hf], pointer_of_rel w hw hr hg⟩

end JsonV.Lemmas.Pointer
