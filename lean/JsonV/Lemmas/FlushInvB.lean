/-
C07 helper lemmas, part 7: the shape invariant is kept by every accepted token call.
-/
import JsonV.Lemmas.FlushInvA

namespace JsonV.Model.Flush
open JsonV

/-- Token texts and whitespace as the encoder produces them. -/
def SaneTok (t : Tok) (ws : Bytes) : Prop :=
  WsOnly ws ∧ (∀ x, t = .scalar x → SaneText x) ∧ (∀ b, t = .str b → QuotesEscaped b)

theorem delim_of_needValue {l : Frame} {st : List Frame} {t : Tok} (h : l.needValue = true) :
    delim l st t = [0x3a] := by simp [delim, h]

theorem delim_of_needName {l : Frame} {st : List Frame} {t : Tok} (h : l.needName = true) (hst : st ≠ [])
    (hc : t.isClose = false) : delim l st t = if l.len = 0 then [] else [0x2c] := by
  obtain ⟨ho, hk⟩ := needName_isObj h
  have hv : l.needValue = false := by simp [Frame.needValue, hk]
  have hse : st.isEmpty = false := by simpa using hst
  by_cases h0 : l.len = 0
  · simp [delim, hv, h0]
  · have : 0 < l.len := Nat.pos_of_ne_zero h0
    simp [delim, hv, h0, this, hc, hse]

theorem delim_close {l : Frame} {st : List Frame} {t : Tok} (hv : l.needValue = false) (hc : t.isClose = true) :
    delim l st t = [] := by simp [delim, hv, hc]

theorem beq_succ_two (n : Nat) : (n + 1 == 2) = (n == 1) := by
  cases h : (n == 1) <;> simp at h ⊢ <;> omega

/-! ### literal, number or string -/

theorem invS_write_bump {e e' : Enc} {f : Bool} (h : InvS e f) (t : Tok) (ws : Bytes)
    (hws : WsOnly ws) (htxt : SaneText t.text) (hclose : t.isClose = false)
    (hname : e.last.needName = true → ∃ b, t.text = 0x22 :: b ++ [0x22] ∧ QuotesEscaped b)
    (hl : e'.last = e.last.inc) (hst : e'.stack = e.stack)
    (hb : e'.buf = e.buf ++ delim e.last e.stack t ++ ws ++ t.text) (hd : e'.delivered = e.delivered) :
    InvS e' true := by
  have hlen : e'.last.len = e.last.len + 1 := by rw [hl]; rfl
  have hobj : e'.last.isObj = e.last.isObj := by rw [hl]; rfl
  refine ⟨?_, ?_, ?_, ?_, ?_, ?_⟩
  · rw [hl, hst, bottomIsObj_inc]; exact h.bottom
  · rw [hst]; exact h.parents
  · intro h0; omega
  · -- a name was written
    intro hv
    obtain ⟨ho, hk⟩ := needValue_isObj hv
    rw [hobj] at ho
    have hn : e.last.needName = true := by simp [Frame.needName, ho]; omega
    obtain ⟨b, htb, hq⟩ := hname hn
    have hstk := stack_ne_nil_of_obj h.bottom ho
    rw [hd, hlen, hst, hb, htb, delim_of_needName hn hstk hclose]
    refine ⟨e.buf, _, ws, b, rfl, hws, hq, ?_⟩
    by_cases h0 : e.last.len = 0
    · have hA := h.opened h0
      have hsep : MemberSep e.buf [] := by
        cases hs : e.stack with
        | nil => exact absurd hs hstk
        | cons p rest =>
          rw [hs] at hA
          obtain ⟨b0, o, hbo, hol, _⟩ := hA
          rw [hbo]; exact MemberSep.first b0 o hol.1 hol.2.1 hol.2.2
      simp only [h0, if_true]
      exact ⟨hsep, fun _ => ⟨rfl, hA⟩, fun hf => by simp at hf⟩
    · simp only [h0, if_false]
      refine ⟨MemberSep.comma _, fun hf => ?_, fun _ => ⟨rfl, ?_, ?_⟩⟩
      · simp at hf; exact absurd hf h0
      · simpa [Enc.total] using h.noOpen (Nat.pos_of_ne_zero h0)
      · simpa using h.stale hn (Nat.pos_of_ne_zero h0)
  · -- a member value was written
    intro hn hl'
    obtain ⟨ho, hk⟩ := needName_isObj hn
    rw [hobj] at ho
    rw [hlen] at hk hl'
    have hv : e.last.needValue = true := by simp [Frame.needValue, ho]; omega
    obtain ⟨pre, sep, ws1, name, hbuf, h1, hq, hhead⟩ := h.named hv
    rw [hd, hlen, hst]
    by_cases hne : emptyLenR e'.total.reverse = 0
    · exact compat_of_zero _ (by simpa [Enc.total, hd] using hne)
    · have hrev : e'.total.reverse = t.text.reverse ++ (ws.reverse ++ 0x3a :: (e.buf.reverse ++ e.delivered.reverse)) := by
        simp [Enc.total, hb, hd, delim_of_needValue hv, List.reverse_append]
      rw [hrev] at hne
      have hv' := emptyText_of_value t.text ws _ hws htxt hne
      have hcs : CShape e.delivered (e.last.len + 1) e.stack e'.buf := by
        refine ⟨pre, sep, ws1, name, ws, t.text, ?_, h1, hws, hq, hv', ?_⟩
        · rw [hb, delim_of_needValue hv, hbuf]
        · have hq2 : e.last.len + 1 - 2 = e.last.len - 1 := by omega
          rw [beq_succ_two, hq2]; exact hhead
      exact compat_of_cshape hcs hl' hk
  · intro _
    obtain ⟨p, c, hpc, hc1, hc2⟩ := saneText_last htxt
    have : e'.total = (e.delivered ++ e.buf ++ delim e.last e.stack t ++ ws ++ p) ++ [c] := by
      simp [Enc.total, hb, hd, hpc, List.append_assoc]
    rw [this]; exact noOpenerEnd_append_last _ _ hc1 hc2

/-! ### `{` and `[` -/

theorem invS_write_open {e e' : Enc} {f : Bool} (h : InvS e f) (t : Tok) (ws : Bytes) (io : Bool) (o : UInt8)
    (hws : WsOnly ws) (ho : OpenerLike o) (htext : t.text = [o])
    (hacc : e.last.needName = false)
    (hl : e'.last = ⟨io, 0⟩) (hst : e'.stack = e.last.inc :: e.stack)
    (hb : e'.buf = e.buf ++ delim e.last e.stack t ++ ws ++ t.text) (hd : e'.delivered = e.delivered)
    (hbot : bottomIsObj e'.last e'.stack = false) :
    InvS e' false := by
  have hvalue : e.last.isObj = true → e.last.needValue = true := by
    intro hobj
    have : ¬ (e.last.len % 2 = 0) := by
      intro hk; simp [Frame.needName, hobj, hk] at hacc
    simp [Frame.needValue, hobj]; omega
  refine ⟨hbot, ?_, ?_, ?_, (by intro _ hlen; rw [hl] at hlen; simp at hlen), ?_⟩
  · intro g hg
    rw [hst] at hg
    cases List.mem_cons.mp hg with
    | inl hgl =>
      subst hgl
      refine ⟨by simp [Frame.inc], ?_⟩
      intro hobj
      have := (needValue_isObj (hvalue hobj)).2
      simp [Frame.inc]; omega
    | inr hgr => exact h.parents g hgr
  · intro _
    rw [hd, hst]
    refine ⟨e.buf ++ delim e.last e.stack t ++ ws, o, by rw [hb, htext], ho, ?_⟩
    intro hobj
    have hv := hvalue hobj
    obtain ⟨pre, sep, ws1, name, hbuf, h1, hq, hhead⟩ := h.named hv
    refine ⟨pre, sep, ws1, name, ws, ?_, h1, hws, hq, ?_⟩
    · rw [delim_of_needValue hv, hbuf]
    · have : ((e.last.inc).len == 2) = (e.last.len == 1) := beq_succ_two _
      have hq2 : (e.last.inc).len - 2 = e.last.len - 1 := by
        show e.last.len + 1 - 2 = e.last.len - 1
        omega
      rw [this, hq2]; exact hhead
  · intro hv; rw [hl] at hv; simp [Frame.needValue] at hv
  · intro hlen; rw [hl] at hlen; simp at hlen

/-! ### `}` and `]` -/

theorem invS_write_close {e e' : Enc} {f : Bool} (h : InvS e f) (t : Tok) (ws : Bytes) (c : UInt8)
    (p : Frame) (rest : List Frame)
    (hws : WsOnly ws) (hc : c = 0x7d ∨ c = 0x5d) (htext : t.text = [c]) (hclose : t.isClose = true)
    (hnv : e.last.needValue = false) (hstack : e.stack = p :: rest)
    (hl : e'.last = p) (hst : e'.stack = rest)
    (hb : e'.buf = e.buf ++ delim e.last e.stack t ++ ws ++ t.text) (hd : e'.delivered = e.delivered)
    (hbot : bottomIsObj e'.last e'.stack = false) :
    InvS e' true := by
  have hp := h.parents p (by rw [hstack]; simp)
  have hbuf : e'.buf = e.buf ++ ws ++ [c] := by rw [hb, delim_close hnv hclose, htext]; simp
  have hcne : c ≠ 0x7b ∧ c ≠ 0x5b := by rcases hc with rfl | rfl <;> decide
  refine ⟨hbot, ?_, ?_, ?_, ?_, ?_⟩
  · intro g hg; rw [hst] at hg; exact h.parents g (by rw [hstack]; simp [hg])
  · intro h0; rw [hl] at h0; omega
  · intro hv; rw [hl] at hv
    obtain ⟨hobj, hk⟩ := needValue_isObj hv
    have := hp.2 hobj; omega
  · intro hn hl'
    rw [hl] at hn hl'
    have hk := (needName_isObj hn).2
    rw [hd, hl, hst]
    by_cases hne : emptyLenR e'.total.reverse = 0
    · exact compat_of_zero _ (by simpa [Enc.total, hd] using hne)
    · by_cases h0 : e.last.len = 0
      · have hA := h.opened h0
        rw [hstack] at hA
        obtain ⟨b, o, hbo, _, hshape⟩ := hA
        have hrev : e'.total.reverse = c :: (ws.reverse ++ o :: (b.reverse ++ e.delivered.reverse)) := by
          simp [Enc.total, hbuf, hd, hbo, List.reverse_append]
        rw [hrev] at hne
        obtain ⟨hws0, hv⟩ := emptyText_of_close c o ws _ hws hc hne
        obtain ⟨pre, sep, ws1, name, ws2, hbshape, h1, h2, hq, hhead⟩ := hshape (needName_isObj hn).1
        have hcs : CShape e.delivered p.len rest e'.buf := by
          refine ⟨pre, sep, ws1, name, ws2, [o, c], ?_, h1, h2, hq, hv, hhead⟩
          rw [hbuf, hbo, hbshape, hws0]; simp [List.append_assoc]
        exact compat_of_cshape hcs hl' hk
      · exfalso
        have hT := h.noOpen (Nat.pos_of_ne_zero h0)
        have hrev : e'.total.reverse = c :: (ws.reverse ++ e.total.reverse) := by
          simp [Enc.total, hbuf, hd, List.reverse_append]
        rw [hrev] at hne
        exact hne (emptyLen_close_nonempty c ws e.total hws hc hT)
  · intro _
    have : e'.total = (e.delivered ++ e.buf ++ ws) ++ [c] := by
      simp [Enc.total, hbuf, hd, List.append_assoc]
    rw [this]; exact noOpenerEnd_append_last _ _ hcne.1 hcne.2

/-! ### every accepted call -/

theorem invS_write {e e' : Enc} {f : Bool} (h : InvS e f) {t : Tok} {ws : Bytes} (hs : SaneTok t ws)
    (hw : write e t ws = some e') : InvS e' t.valueEnd := by
  obtain ⟨hacc, hn, hb, hd, _⟩ := write_some hw
  have hbot := nextFrames_bottom hn h.bottom
  obtain ⟨hws, hsc, hstr⟩ := hs
  cases t with
  | scalar x =>
    simp only [nextFrames, Option.some.injEq, Prod.mk.injEq] at hn
    have hnn : e.last.needName = false := by simpa [accepts] using hacc
    exact invS_write_bump h (.scalar x) ws hws (hsc x rfl) rfl (by intro hn'; rw [hnn] at hn'; cases hn') hn.1.symm hn.2.symm hb hd
  | str x =>
    simp only [nextFrames, Option.some.injEq, Prod.mk.injEq] at hn
    exact invS_write_bump h (.str x) ws hws (Or.inr (Or.inr ⟨x, rfl, hstr x rfl⟩)) rfl
      (fun _ => ⟨x, rfl, hstr x rfl⟩) hn.1.symm hn.2.symm hb hd
  | openObj =>
    simp only [nextFrames, Option.some.injEq, Prod.mk.injEq] at hn
    exact invS_write_open h .openObj ws true 0x7b hws (by simp [OpenerLike, isWs]) rfl (by simpa [accepts] using hacc)
      hn.1.symm hn.2.symm hb hd hbot
  | openArr =>
    simp only [nextFrames, Option.some.injEq, Prod.mk.injEq] at hn
    exact invS_write_open h .openArr ws false 0x5b hws (by simp [OpenerLike, isWs]) rfl (by simpa [accepts] using hacc)
      hn.1.symm hn.2.symm hb hd hbot
  | closeObj =>
    cases hstk : e.stack with
    | nil => simp [nextFrames, hstk] at hn
    | cons p rest =>
      simp only [nextFrames, hstk, Option.some.injEq, Prod.mk.injEq] at hn
      have hnv : e.last.needValue = false := by
        have : (e.last.isObj = true ∧ e.last.needValue = false) ∧ e.stack ≠ [] := by simpa [accepts] using hacc
        exact this.1.2
      exact invS_write_close h .closeObj ws 0x7d p rest hws (Or.inl rfl) rfl rfl hnv hstk hn.1.symm hn.2.symm hb hd hbot
  | closeArr =>
    cases hstk : e.stack with
    | nil => simp [nextFrames, hstk] at hn
    | cons p rest =>
      simp only [nextFrames, hstk, Option.some.injEq, Prod.mk.injEq] at hn
      have hnv : e.last.needValue = false := by
        have : e.last.isObj = false ∧ e.stack ≠ [] := by simpa [accepts] using hacc
        simp [Frame.needValue, this.1]
      exact invS_write_close h .closeArr ws 0x5d p rest hws (Or.inr rfl) rfl rfl hnv hstk hn.1.symm hn.2.symm hb hd hbot

/-- One token call (write, then the flush opportunity) keeps the invariant under every schedule. -/
theorem invS_step_tok {e e' : Enc} {f : Bool} (h : InvS e f) {t : Tok} {ws : Bytes} (hs : SaneTok t ws)
    (hw : write e t ws = some e') (s : Sched) : InvS (step e (.tok t ws) s) t.valueEnd := by
  have := invS_write h hs hw
  simp only [step, hw]
  split
  · exact invS_flush this _
  · exact this

end JsonV.Model.Flush
