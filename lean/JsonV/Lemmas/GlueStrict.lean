/-
Glue C12 ↔ C01 for the strict model: `formatV` succeeds exactly on the texts of `JText` with the selected string
mode and duplicate policy, names compared by C01's `nameKey`.
-/
import JsonV.Lemmas.GlueTreeConverse
import JsonV.Lemmas.FormatStrictL
import JsonV.Lemmas.CanonRound

namespace JsonV.Fmt
open JsonV.Canon JsonV.Lemmas.CanonNest JsonV.Spec.Grammar

/-- the grammar options selected by the validation options -/
def FOpts.gopts (o : FOpts) : GOpts := ⟨!o.allowInvalidUTF8, o.allowDup⟩

theorem namesOK_toks (key : Bytes → Bytes) (t : JV) (ht : AtomsOK t = true) : namesOK key t.toks = dupT key t := by
  simp [namesOK, JsonV.Lemmas.CanonRound.parse_toks_self t ht]

theorem tokenizeV_text (o : FOpts) (b : Bytes) (ts : List Tok) (h : tokenizeV o b = some ts) :
    JText o.gopts maxDepth (nameKey o) b := by
  obtain ⟨ht, hk⟩ := (tokenizeV_eq_some o b ts).mp h
  simp only [tokensOK, Bool.and_eq_true, List.all_eq_true, Bool.or_eq_true] at hk
  refine tokenize_text_gen o.gopts (nameKey o) b ts ht ?_ ?_
  · intro raw hm
    have h1 := hk.1 _ hm
    simp only [strOKV, Bool.or_eq_true] at h1
    cases hu : o.allowInvalidUTF8 with
    | true =>
      simp only [FOpts.gopts, hu, Bool.not_true]
      exact (str_valid_iff raw).mp ((tokenize_sound' b ts ht).1 _ hm)
    | false =>
      simp only [FOpts.gopts, hu, Bool.not_false]
      rcases h1 with h1 | h1
      · rw [hu] at h1; cases h1
      · exact (strictStr_iff raw).mp h1
  · intro t hts hat
    rcases hk.2 with hd | hd
    · exact Or.inl hd
    · right
      rw [hts, namesOK_toks _ t hat] at hd
      exact hd

theorem text_tokenizeV (o : FOpts) (b : Bytes) (h : JText o.gopts maxDepth (nameKey o) b) :
    ∃ ts, tokenizeV o b = some ts := by
  obtain ⟨t, ht, hat, hs, hd⟩ := text_tokenize_gen o.gopts (nameKey o) b h
  refine ⟨t.toks, (tokenizeV_eq_some o b _).mpr ⟨ht, ?_⟩⟩
  simp only [tokensOK, Bool.and_eq_true, List.all_eq_true, Bool.or_eq_true]
  constructor
  · intro k hk
    cases k with
    | str raw =>
      simp only [strOKV, Bool.or_eq_true]
      cases hu : o.allowInvalidUTF8 with
      | true => exact Or.inl rfl
      | false =>
        right
        have := hs raw hk
        simp only [FOpts.gopts, hu, Bool.not_false] at this
        exact (strictStr_iff raw).mpr this
    | _ => rfl
  · rcases hd with hd | hd
    · exact Or.inl hd
    · right; rw [namesOK_toks _ t hat]; exact hd

end JsonV.Fmt
