/-
The token path and the value path give the same verdict on a whole input (one complete top-level value):
`isValidByTokens o b = isValid o b`, from the simulation of Lemmas/WireTokenSim.lean.
-/
import JsonV.Lemmas.WireTokenSim

namespace JsonV.Lemmas.WireTokenTop
open JsonV JsonV.Model JsonV.Model.Wire JsonV.Model.Validate JsonV.Model.TokenLoop JsonV.Spec.Grammar
open JsonV.Spec JsonV.Spec.PDA
open JsonV.Lemmas.WireBasic JsonV.Lemmas.WireNumber JsonV.Lemmas.WireComplete JsonV.Lemmas.WireValue JsonV.Lemmas.WireFuel
open JsonV.Lemmas.StateRefine JsonV.Lemmas.StateRun JsonV.Lemmas.WireTokens JsonV.Lemmas.WireTokenSim

theorem feed_err_ne (st : TState) (pos n : Nat) (op : Machine → Except SMErr Machine) (k : Nat) (e : Err)
    (h : feed st pos n op = .err k e) : e ≠ .ioEOF := by
  unfold feed at h
  split at h
  · cases h; exact smErr_ne_ioeof _
  · cases h

theorem feedString_err_ne (o : VOpts) (st : TState) (pos : Nat) (q : Bytes) (fl : ValueFlags) (k : Nat) (e : Err)
    (h : feedString o st pos q fl = .err k e) : e ≠ .ioEOF := by
  unfold feedString at h
  simp only at h
  repeat' split at h
  all_goals first | (cases h; done) | (cases h; first | exact smErr_ne_ioeof _ | simp)

theorem lexToken_err_ne (o : VOpts) (st : TState) (pos : Nat) (r : Bytes) (k : Nat) (e : Err)
    (h : lexToken o st pos r = .err k e) : e ≠ .ioEOF := by
  cases r with
  | nil => simp [lexToken] at h; rw [← h.2]; simp
  | cons c tl =>
    simp only [lexToken] at h
    have hlit : ∀ lit : Bytes, (let p := valueLiteral lit (c :: tl)
        if p.2 != .ok then TRes.err (pos + p.1) p.2 else feed st pos p.1 Machine.appendLiteral) = .err k e → e ≠ .ioEOF := by
      intro lit h'
      simp only at h'
      split at h'
      · cases h'
        exact not_bad_ne_ioeof (valueLiteral_no_fuel lit (c :: tl))
      · exact feed_err_ne _ _ _ _ _ _ h'
    split at h
    · exact hlit litNull h
    split at h
    · exact hlit litFalse h
    split at h
    · exact hlit litTrue h
    split at h
    · rcases hvs : valueString o (c :: tl) with ⟨n, fl, e'⟩
      simp only [hvs] at h
      split at h
      · cases h
        have := valueString_no_fuel o (c :: tl); rw [hvs] at this
        exact not_bad_ne_ioeof this
      · exact feedString_err_ne _ _ _ _ _ _ _ h
    split at h
    · rcases hvn : valueNumber (c :: tl) with ⟨n, e'⟩
      simp only [hvn] at h
      split at h
      · cases h
        have := valueNumber_no_fuel (c :: tl); rw [hvn] at this
        exact not_bad_ne_ioeof this
      · exact feed_err_ne _ _ _ _ _ _ h
    split at h
    · split at h
      · cases h; exact smErr_ne_ioeof _
      · cases h
    split at h
    · split at h
      · cases h; exact smErr_ne_ioeof _
      · cases h
    split at h
    · exact feed_err_ne _ _ _ _ _ _ h
    split at h
    · exact feed_err_ne _ _ _ _ _ _ h
    · cases h; simp

/-- io.EOF comes only from the end of the input at depth 1 -/
theorem readToken_ioeof (o : VOpts) (st : TState) (r : Bytes) (off : Nat) (h : readToken o st r = .err off .ioEOF) :
    r.drop (consumeWhitespace r) = [] := by
  unfold readToken at h
  simp only at h
  split at h
  · assumption
  · exfalso
    split at h
    · split at h
      · split at h <;> cases h
      · split at h
        · cases h
        · exact lexToken_err_ne _ _ _ _ _ _ h rfl
    · split at h
      · cases h
      · exact lexToken_err_ne _ _ _ _ _ _ h rfl

theorem tokenLoop_mono (o : VOpts) (F : Nat) : ∀ (st : TState) (r : Bytes) (cnt base : Nat),
    cnt ≤ (tokenLoop o F st r cnt base).1 := by
  induction F with
  | zero => intro st r cnt base; simp [tokenLoop]
  | succ F ih =>
    intro st r cnt base
    simp only [tokenLoop]
    cases hrt : readToken o st r with
    | err off e => exact Nat.le_refl _
    | tok n st' =>
      by_cases hn : (n == 0) = true
      · simp [hn]
      · by_cases hd : (st'.m.depth == 1) = true
        · simp only [hn, hd, Bool.false_eq_true, if_false, if_true]
          exact Nat.le_trans (Nat.le_succ _) (ih _ _ _ _)
        · simp only [hn, hd, Bool.false_eq_true, if_false]
          exact ih _ _ _ _

/-- if the loop ends with io.EOF, either it did so at once (blanks only) or at least one more value was completed -/
theorem eof_after_token (o : VOpts) (F : Nat) : ∀ (st : TState) (r : Bytes) (cnt base : Nat),
    (tokenLoop o F st r cnt base).2.2 = .ioEOF →
    r.drop (consumeWhitespace r) = [] ∨ cnt < (tokenLoop o F st r cnt base).1 := by
  induction F with
  | zero => intro st r cnt base h; simp [tokenLoop] at h
  | succ F ih =>
    intro st r cnt base h
    simp only [tokenLoop] at h ⊢
    cases hrt : readToken o st r with
    | err off e =>
      simp only [hrt] at h ⊢
      have he : e = .ioEOF := h
      subst he
      exact Or.inl (readToken_ioeof o st r off hrt)
    | tok n st' =>
      simp only [hrt] at h ⊢
      by_cases hn : (n == 0) = true
      · simp [hn] at h
      · simp only [hn, Bool.false_eq_true, if_false] at h ⊢
        right
        by_cases hd : (st'.m.depth == 1) = true
        · simp only [hd, if_true] at h ⊢
          exact Nat.lt_of_lt_of_le (Nat.lt_succ_self _) (tokenLoop_mono o F _ _ _ _)
        · simp only [hd, Bool.false_eq_true, if_false] at h ⊢
          rcases ih st' (r.drop n) cnt (base + n) h with hnil | hlt
          · -- blanks only at depth ≠ 1 give io.ErrUnexpectedEOF, not io.EOF
            exfalso
            cases F with
            | zero => simp [tokenLoop] at h
            | succ F' =>
              have hw : JWs (r.drop n) := jws_of_drop_nil _ hnil
              have hrt2 := readToken_end o st' (r.drop n) hw
              have hd' : (st'.m.depth == 1) = false := by simpa using hd
              rw [hd'] at hrt2
              rw [tokenLoop_err o F' st' _ cnt (base + n) _ _ hrt2] at h
              simp at h
          · exact hlt

theorem good_init : TGood 0 ({} : TState) [.arr 0] :=
  ⟨inv_init maxNestingDepth, abs_init, bottomArr_init⟩

theorem isValidByTokens_eq (o : VOpts) (b : Bytes) :
    isValidByTokens o b = ((tokens o b).1 == 1 && (tokens o b).2.2 == .ioEOF) := by
  unfold isValidByTokens; rcases tokens o b with ⟨c, off, e⟩; rfl

/-- **"read by tokens or by values"**: on every input (shorter than 2^61 bytes) the ReadToken loop accepts the
input as exactly one complete top-level value iff the value path (`Value.IsValid`) accepts it. -/
theorem token_valid_eq (o : VOpts) (b : Bytes) (hlen : b.length + 2 < 2^61) : isValidByTokens o b = isValid o b := by
  rw [isValidByTokens_eq]
  unfold isValid validText readValueTop tokens
  simp only
  cases hd : b.drop (consumeWhitespace b) with
  | nil =>
    simp only
    have hw : JWs b := jws_of_drop_nil b hd
    have hrt := readToken_end o ({} : TState) b hw
    have hdep : (({} : TState).m.depth == 1) = true := by decide
    rw [hdep] at hrt
    simp only [if_true] at hrt
    rw [tokenLoop_err o b.length {} b 0 0 _ _ hrt]
    simp
  | cons c rest =>
    simp only
    have hsplit := split_at_drop b _ c rest hd
    have hl1 := len_of_drop b _ c rest hd
    have hcw : isWs c = false := by
      have := ws_stop b c rest hd; rw [← isWs_iff] at this; simpa using this
    have hpre : PreOK (ncDelim [.arr 0]) (b.take (consumeWhitespace b)) := Or.inl ⟨ncDelim_bottom _, ws_take b⟩
    by_cases hdb : (c == 0x3A || c == 0x2C) = true
    · simp only [hdb, if_true]
      have hrej := rej_delimbyte o good_init (b.take (consumeWhitespace b)) c rest hpre hdb 0 0 (b.length + 1)
      rw [← hsplit] at hrej
      unfold Rej at hrej
      have : ((tokenLoop o (b.length + 1) {} b 0 0).2.2 == Err.ioEOF) = false := by simpa using hrej.2
      simp [this]
    · have hdb' : (c == 0x3A || c == 0x2C) = false := by simpa using hdb
      simp only [hdb', Bool.false_eq_true, if_false]
      have hav : AtValue 0 1 ({} : TState) (.arr 0) [] (b.take (consumeWhitespace b)) c rest :=
        { good := good_init
          depth := rfl
          vpos := rfl
          pre := hpre
          cws := hcw
          guard := by intro _ h; exact absurd rfl h
          room := by simp; omega }
      have hsv := (sim_all o (fuelFor b)).1 1 c rest 0 {} (.arr 0) [] (b.take (consumeWhitespace b)) 0 0 hav
        (by simp [fuelFor]; omega)
      rcases hcv : consumeValue o (fuelFor b) 1 (c :: rest) with ⟨n, e⟩
      rw [hcv] at hsv
      simp only [addOff]
      by_cases he : e ≠ .ok
      · have hrej := hsv.2 he (b.length + 1)
        rw [← hsplit] at hrej
        unfold Rej at hrej
        have h1 : ((tokenLoop o (b.length + 1) {} b 0 0).2.2 == Err.ioEOF) = false := by simpa using hrej.2
        have h2 : (e != .ok) = true := by simpa using he
        simp [h1, h2, he]
      have he' : e = .ok := by simpa using he
      subst he'
      simp only [bne_self_eq_false, Bool.false_eq_true, if_false]
      obtain ⟨T, st', hT1, hTn, hnl, hg', -, hst⟩ := hsv.1 rfl
      rw [← hsplit] at hst
      simp only [if_true, Nat.zero_add] at hst
      have hTF : T ≤ b.length + 1 := by simp at hnl; omega
      rw [hst.1 (b.length + 1) hTF]
      have hrdrop : (c :: rest).drop n = b.drop (consumeWhitespace b + n) := by
        rw [← List.drop_drop, hd]
      rw [hrdrop]
      have hlen' : (b.take (consumeWhitespace b)).length = consumeWhitespace b := take_ws_len b
      rw [hlen']
      generalize hr' : b.drop (consumeWhitespace b + n) = r'
      have hF : b.length + 1 - T = (b.length - T) + 1 := by simp at hnl; omega
      rw [hF]
      have hdep' : (st'.m.depth == 1) = true := by rw [good_depth hg']; simp
      cases hd2 : r'.drop (consumeWhitespace r') with
      | nil =>
        simp only
        have hw : JWs r' := jws_of_drop_nil r' hd2
        have hrt := readToken_end o st' r' hw
        rw [hdep'] at hrt
        simp only [if_true] at hrt
        rw [tokenLoop_err o _ st' r' _ _ _ _ hrt]
        simp
      | cons c' rest' =>
        simp only
        have key := eof_after_token o (b.length - T + 1) st' r' 1 (consumeWhitespace b + n)
        by_cases hio : (tokenLoop o (b.length - T + 1) st' r' 1 (consumeWhitespace b + n)).2.2 = .ioEOF
        · rcases key hio with hnil | hlt
          · rw [hd2] at hnil; cases hnil
          · have : ((tokenLoop o (b.length - T + 1) st' r' 1 (consumeWhitespace b + n)).1 == 1) = false := by
              simp; omega
            simp [this]
        · have : ((tokenLoop o (b.length - T + 1) st' r' 1 (consumeWhitespace b + n)).2.2 == Err.ioEOF) = false := by
            simpa using hio
          simp [this]

/-! ### streams -/

/-- The two loops over a stream: same number of completed top-level values, io.EOF on the same inputs. -/
theorem stream_sim (o : VOpts) (vfuel : Nat) : ∀ (fuel : Nat) (r : Bytes) (cnt base bb : Nat) (st : TState) (k F : Nat),
    TGood bb st [.arr k] → bb + r.length + 1 < 2^61 → 3 * r.length + 1 ≤ vfuel → r.length + 1 ≤ fuel → r.length + 1 ≤ F →
    (tokenLoop o F st r cnt base).1 = (streamLoop o vfuel fuel r cnt base).1 ∧
    ((tokenLoop o F st r cnt base).2.2 = .ioEOF ↔ (streamLoop o vfuel fuel r cnt base).2.2 = .ioEOF) := by
  intro fuel
  induction fuel with
  | zero => intro r cnt base bb st k F _ _ _ h; omega
  | succ fuel ih =>
    intro r cnt base bb st k F hg hroom hvf hfu hF
    have hdep : (st.m.depth == 1) = true := by rw [good_depth hg]; simp
    cases hd : r.drop (consumeWhitespace r) with
    | nil =>
      have hrv : readValueTop o vfuel r = (consumeWhitespace r, .ioEOF) := by simp [readValueTop, hd]
      simp only [streamLoop, hrv]
      have hw : JWs r := jws_of_drop_nil r hd
      have hrt := readToken_end o st r hw
      rw [hdep] at hrt
      simp only [if_true] at hrt
      obtain ⟨F', rfl⟩ : ∃ F', F = F' + 1 := ⟨F - 1, by omega⟩
      rw [tokenLoop_err o F' st r cnt base _ _ hrt]
      simp
    | cons c rest =>
      have hsplit := split_at_drop r _ c rest hd
      have hl1 := len_of_drop r _ c rest hd
      have hcw : isWs c = false := by
        have := ws_stop r c rest hd; rw [← isWs_iff] at this; simpa using this
      have hpre : PreOK (ncDelim [.arr k]) (r.take (consumeWhitespace r)) := Or.inl ⟨ncDelim_bottom _, ws_take r⟩
      by_cases hdb : (c == 0x3A || c == 0x2C) = true
      · have hrv : readValueTop o vfuel r = (consumeWhitespace r, .invalidChar) := by simp [readValueTop, hd, hdb]
        simp only [streamLoop, hrv]
        have hrej := rej_delimbyte o hg (r.take (consumeWhitespace r)) c rest hpre hdb cnt base F
        rw [← hsplit] at hrej
        obtain ⟨h1, h2⟩ := hrej
        simp [h1, h2]
      · have hdb' : (c == 0x3A || c == 0x2C) = false := by simpa using hdb
        have hrv : readValueTop o vfuel r = addOff (consumeWhitespace r) (consumeValue o vfuel 1 (c :: rest)) := by
          simp [readValueTop, hd, hdb']
        simp only [streamLoop, hrv]
        have hav : AtValue bb 1 st (.arr k) [] (r.take (consumeWhitespace r)) c rest :=
          { good := hg
            depth := rfl
            vpos := rfl
            pre := hpre
            cws := hcw
            guard := by intro _ h; exact absurd rfl h
            room := by simp; omega }
        have hsv := (sim_all o vfuel).1 1 c rest bb st (.arr k) [] (r.take (consumeWhitespace r)) cnt base hav
          (by simp; omega)
        have hnb := (no_fuel_all o vfuel).1 1 (c :: rest) (by simp; omega)
        rcases hcv : consumeValue o vfuel 1 (c :: rest) with ⟨n, e⟩
        rw [hcv] at hsv hnb
        simp only [addOff]
        by_cases he : e ≠ .ok
        · have hrej := hsv.2 he F
          rw [← hsplit] at hrej
          obtain ⟨h1, h2⟩ := hrej
          have h3 : (e != .ok) = true := by simpa using he
          have h4 : e ≠ .ioEOF := not_bad_ne_ioeof hnb
          simp [h1, h2, h3, h4]
        have he' : e = .ok := by simpa using he
        subst he'
        simp only [bne_self_eq_false, Bool.false_eq_true, if_false]
        obtain ⟨T, st', hT1, hTn, hnl, hg', -, hst⟩ := hsv.1 rfl
        rw [← hsplit] at hst
        simp only [if_true, Frame.bump] at hst hg'
        have hn0 : ¬ ((consumeWhitespace r + n == 0) = true) := by simp; omega
        simp only [hn0, Bool.false_eq_true, if_false]
        have hTF : T ≤ F := by simp at hnl; omega
        rw [hst.1 F hTF]
        have hrdrop : (c :: rest).drop n = r.drop (consumeWhitespace r + n) := by
          rw [← List.drop_drop, hd]
        rw [hrdrop, take_ws_len r, Nat.add_assoc]
        have hlen' : (r.drop (consumeWhitespace r + n)).length + (consumeWhitespace r + n) = r.length := by
          simp only [List.length_drop]; simp at hnl; omega
        exact ih (r.drop (consumeWhitespace r + n)) (cnt + 1) (base + (consumeWhitespace r + n)) (bb + T) st' (k + 1)
          (F - T) hg' (by omega) (by omega) (by omega) (by simp at hnl; omega)

/-- **Stream-level agreement of the two paths** (inputs shorter than 2^61 bytes). -/
theorem token_stream_eq (o : VOpts) (b : Bytes) (hlen : b.length + 2 < 2^61) :
    (tokens o b).1 = (stream o b).1 ∧ ((tokens o b).2.2 = .ioEOF ↔ (stream o b).2.2 = .ioEOF) :=
  stream_sim o (fuelFor b) (b.length + 1) b 0 0 0 {} 0 (b.length + 1) good_init (by omega) (by simp [fuelFor])
    (Nat.le_refl _) (Nat.le_refl _)

end JsonV.Lemmas.WireTokenTop
