/-
Helper lemmas for C02, part 3: every tree built from the fragments renders to a valid value
(structural induction over `OutTree`, mutual with its lists).
-/
import JsonV.Lemmas.EncInvCompose

namespace JsonV.Lemmas.EncInvTree
open JsonV JsonV.Spec.ValidJson JsonV.Lemmas.EncInvL JsonV.Lemmas.EncInvCompose JsonV.Model.EncInv

theorem pNumber_head (c : UInt8) (s t : Bytes) (h : pNumber (c :: s) = some t) : isDigit c = true ∨ c = 0x2d := by
  by_cases hc : c = 0x2d
  · exact .inr hc
  · left
    unfold pNumber at h
    simp only [hc, if_false] at h
    by_cases hz : c = 0x30
    · subst hz; decide
    · by_cases hd : isDigit c = true
      · exact hd
      · simp [pInt, hz, hd] at h

theorem frag_valid (o : Opt) (q : Quoter o) (f : Frag) (d : Nat) (hd : d + f.depth ≤ o.maxDepth) :
    validAt o d (f.bytes q.quote) = true := by
  cases f with
  | null => exact validAt_null o d
  | bool b => cases b
              · exact validAt_false o d
              · exact validAt_true o d
  | int i => exact validAt_intDigits o d i
  | uint n => exact validAt_natDigits o d n
  | str s => exact validAt_string o d _ (q.valid s)
  | num lit h =>
    cases lit with
    | nil => simp [pNumber, pInt] at h
    | cons c s => exact validAt_number o d c s (pNumber_head c s [] h) h
  | emptyObj => exact validAt_emptyObj o d (by simp [Frag.depth] at hd; omega)
  | emptyArr => exact validAt_emptyArr o d (by simp [Frag.depth] at hd; omega)

mutual
theorem render_valid_aux (o : Opt) (q : Quoter o) : ∀ (t : OutTree) (d : Nat), t.WellFormed o q.quote →
    d + t.depth ≤ o.maxDepth → validAt o d (t.render q.quote) = true
  | .atom f, d, _, hd => by simpa [OutTree.render] using frag_valid o q f d (by simpa [OutTree.depth] using hd)
  | .arr ts, d, hw, hd => by
    simp only [OutTree.depth] at hd
    simp only [OutTree.render]
    exact array_compose' o d _ (by omega) (renderList_valid o q ts (d + 1) (by simpa [OutTree.WellFormed] using hw) (by omega))
  | .obj ms, d, hw, hd => by
    simp only [OutTree.depth] at hd
    simp only [OutTree.WellFormed] at hw
    simp only [OutTree.render]
    exact object_compose' o d _ (by omega) (renderMembers_valid o q ms (d + 1) hw.1 (by omega)) hw.2
theorem renderList_valid (o : Opt) (q : Quoter o) : ∀ (ts : List OutTree) (d : Nat), wfList o q.quote ts →
    d + depthList ts ≤ o.maxDepth → ∀ x ∈ renderList q.quote ts, validAt o d x = true
  | [], _, _, _ => by simp [renderList]
  | t :: ts, d, hw, hd => by
    simp only [wfList] at hw
    simp only [depthList] at hd
    intro x hx
    simp only [renderList, List.mem_cons] at hx
    rcases hx with rfl | hx
    · exact render_valid_aux o q t d hw.1 (by omega)
    · exact renderList_valid o q ts d hw.2 (by omega) x hx
theorem renderMembers_valid (o : Opt) (q : Quoter o) : ∀ (ms : List (Bytes × OutTree)) (d : Nat), wfMembers o q.quote ms →
    d + depthMembers ms ≤ o.maxDepth →
    ∀ m ∈ renderMembers q.quote ms, validString o m.1 = true ∧ validAt o d m.2 = true
  | [], _, _, _ => by simp [renderMembers]
  | (n, t) :: ms, d, hw, hd => by
    simp only [wfMembers] at hw
    simp only [depthMembers] at hd
    intro m hm
    simp only [renderMembers, List.mem_cons] at hm
    rcases hm with rfl | hm
    · exact ⟨q.valid n, render_valid_aux o q t d hw.1 (by omega)⟩
    · exact renderMembers_valid o q ms d hw.2 (by omega) m hm
end

end JsonV.Lemmas.EncInvTree
