/-
C11 lemmas relating the quote loop to the specification functions of Spec/StringSpec: the hasInvalidUTF8 flag
is set exactly by the ill-formed bytes, `lossy` adds two bytes per ill-formed byte and is the identity on
well-formed text, and without escape flags the loop emits `canonChar` of every scalar (RFC 8785).  Core Lean only.
-/
import JsonV.Lemmas.QuoteL

namespace JsonV.Lemmas.QuoteSpec
open JsonV JsonV.Model.Utf8 JsonV.Model.Quote JsonV.Lemmas.QuoteUtf8 JsonV.Lemmas.QuoteL JsonV.Spec.StringSpec

/-! ### Facts about the specification functions -/

theorem lossy_length (s : Bytes) : (lossy s).length = s.length + 2 * illFormedCount s := by
  fun_induction lossy s with
  | case1 => simp [illFormedCount]
  | case2 c t ih =>
    rw [illFormedCount]
    have hle := decodeRune_le (c :: t)
    by_cases h : illFormedHead (c :: t) = true
    · have h1 : (decodeRune (c :: t)).2 = 1 := by
        simp only [illFormedHead, Bool.and_eq_true, decide_eq_true_eq] at h; exact h.2
      rw [h1] at ih hle ⊢
      simp only [h, ↓reduceIte, List.length_append, ih, replacement, List.length_drop, List.length_cons, List.length_nil]
      omega
    · simp only [h, Bool.false_eq_true, ↓reduceIte, List.length_append, ih, List.length_take, List.length_drop]
      omega

theorem lossy_of_wellFormed (s : Bytes) (h : WellFormed s) : lossy s = s := by
  unfold WellFormed at h
  fun_induction lossy s with
  | case1 => rfl
  | case2 c t ih =>
    rw [illFormedCount] at h
    have h1 : illFormedHead (c :: t) = false := by
      cases hh : illFormedHead (c :: t) <;> simp_all
    have h2 : illFormedCount (List.drop (decodeRune (c :: t)).2 (c :: t)) = 0 := by omega
    simp only [h1, Bool.false_eq_true, ↓reduceIte, ih h2, List.take_append_drop]

/-- hasInvalidUTF8 is set by exactly the ill-formed bytes. -/
theorem quoteStep_inv (html js : Bool) (c : UInt8) (t : Bytes) :
    (quoteStep html js c t).2.2 = illFormedHead (c :: t) := by
  by_cases h0 : c.toNat < runeSelf
  · have hd := decodeRune_ascii c t h0
    have : ¬ c.toNat = runeError := by simp only [runeError, runeSelf] at *; omega
    simp only [quoteStep, h0, ↓reduceIte, illFormedHead, hd, this, decide_false, Bool.false_and]
    repeat' split
    all_goals rfl
  · rcases decodeRune_high c t h0 with h1 | h1
    · have : ¬ (decodeRune (c :: t)).2 = 1 := by omega
      have hinv : isInvalidUTF8 (decodeRune (c :: t)).1 (decodeRune (c :: t)).2 = false := by simp [isInvalidUTF8, this]
      simp only [quoteStep, h0, ↓reduceIte, hinv, illFormedHead, this, decide_false, Bool.and_false]
      repeat' split
      all_goals simp_all
    · simp [quoteStep, h0, h1, isInvalidUTF8, illFormedHead, runeError]

theorem quoteLoop_inv (html js : Bool) (s : Bytes) : (quoteLoop html js s).2 = decide (0 < illFormedCount s) := by
  fun_induction quoteLoop html js s with
  | case1 => simp [illFormedCount]
  | case2 c t st r ih =>
    have hk : st.2.1 = (decodeRune (c :: t)).2 := quoteStep_consumed html js c t
    have hi : st.2.2 = illFormedHead (c :: t) := quoteStep_inv html js c t
    rw [illFormedCount]
    show (st.2.2 || (quoteLoop html js (List.drop st.2.1 (c :: t))).2) = _
    rw [ih, hi, hk]
    cases illFormedHead (c :: t) <;> simp <;> omega

/-! ### Minimality (RFC 8785 §3.2.2.2) -/

theorem decodeRune_multi_ge (c : UInt8) (t : Bytes) (h1 : 1 < (decodeRune (c :: t)).2) : 0x80 ≤ (decodeRune (c :: t)).1 := by
  have hd := dec_sound (c :: t)
  generalize decodeRune (c :: t) = d at hd h1
  cases hd with
  | ascii h => simp at h1
  | bad h => simp at h1
  | two h0 hl hb1 hb2 => have := leadInfo_exact hl; simp only; omega
  | three h0 hl hb1 hb2 hc2 => have := leadInfo_exact hl; simp only; omega
  | four h0 hl hb1 hb2 hc2 hc3 => have := leadInfo_exact hl; simp only; omega

theorem canonChar_ascii_table : ∀ n : Fin 128,
    (if escapeASCII n.val = 0 then [UInt8.ofNat n.val]
     else if (!isHTMLChar n.val || false) = true then appendEscapedASCII n.val else [UInt8.ofNat n.val]) = canonChar n.val := by
  decide +kernel

theorem canonChar_high (r : Nat) (h : 0x80 ≤ r) : canonChar r = encodeRune r := by
  simp only [canonChar]
  repeat' split
  all_goals first | omega | rfl

theorem quoteStep_canon (c : UInt8) (t : Bytes) : (quoteStep false false c t).1 = canonChar (decodeRune (c :: t)).1 := by
  by_cases h0 : c.toNat < runeSelf
  · have h128 : c.toNat < 128 := h0
    have := canonChar_ascii_table ⟨c.toNat, h128⟩
    simp only [UInt8.ofNat_toNat] at this
    rw [decodeRune_ascii c t h0, ← this]
    simp only [quoteStep, h0, ↓reduceIte]
    repeat' split
    all_goals rfl
  · rcases decodeRune_high c t h0 with h1 | h1
    · have hne : ¬ ((decodeRune (c :: t)).1 = runeError ∧ (decodeRune (c :: t)).2 = 1) := by omega
      have hinv : isInvalidUTF8 (decodeRune (c :: t)).1 (decodeRune (c :: t)).2 = false := by
        have : ¬ (decodeRune (c :: t)).2 = 1 := by omega
        simp [isInvalidUTF8, this]
      rw [canonChar_high _ (decodeRune_multi_ge c t h1), encodeRune_decodeRune c t hne]
      simp only [quoteStep, h0, ↓reduceIte, hinv]
      repeat' split
      all_goals simp_all
    · have : canonChar runeError = utf8FFFD := by decide
      rw [h1, this]
      simp [quoteStep, h0, h1, isInvalidUTF8, runeError]

theorem quoteLoop_canon (s : Bytes) : (quoteLoop false false s).1 = (scalars s).flatMap canonChar := by
  fun_induction quoteLoop false false s with
  | case1 => simp [scalars]
  | case2 c t st r ih =>
    have hk : st.2.1 = (decodeRune (c :: t)).2 := quoteStep_consumed false false c t
    rw [scalars, List.flatMap_cons, ← quoteStep_canon c t, ← hk, ← ih]

end JsonV.Lemmas.QuoteSpec
