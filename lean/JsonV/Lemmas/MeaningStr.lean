/-
C03 helper lemmas about the string production of the spec: a literal without backslashes means its body.
-/
import JsonV.Spec.Meaning

namespace JsonV.Lemmas.MeaningStr
open JsonV JsonV.Spec.Meaning

theorem utf8Char_split {b u r : Bytes} (h : utf8Char b = some (u, r)) : b = u ++ r := by
  unfold utf8Char at h
  repeat' (split at h)
  all_goals (try (simp at h))
  all_goals
    first
    | (obtain ⟨hu, hr⟩ := h; subst hu; subst hr; rfl)
    | (obtain ⟨-, hu, hr⟩ := h; subst hu; subst hr; rfl)

/-- A string body that contains no backslash denotes exactly the bytes before its closing quote. -/
theorem strBody_noBackslash (fuel : Nat) (b s rest : Bytes) (h : strBody fuel b = some (s, rest))
    (hb : ∀ x ∈ b, x ≠ 0x5C) : b = s ++ 0x22 :: rest := by
  induction fuel generalizing b s with
  | zero => simp [strBody] at h
  | succ n ih =>
    cases b with
    | nil => simp [strBody] at h
    | cons c r =>
      simp only [strBody] at h
      by_cases h22 : c = 0x22
      · simp only [h22, if_true, Option.some.injEq, Prod.mk.injEq] at h
        obtain ⟨rfl, rfl⟩ := h
        simp [h22]
      · have h5c : c ≠ 0x5C := hb c (by simp)
        simp only [h22, h5c, if_false] at h
        split at h
        · simp at h
        · cases hu : utf8Char (c :: r) with
          | none => simp [hu] at h
          | some p =>
            obtain ⟨u, r'⟩ := p
            simp only [hu] at h
            cases hs : strBody n r' with
            | none => simp [hs] at h
            | some q =>
              obtain ⟨s', r''⟩ := q
              simp only [hs, Option.some.injEq, Prod.mk.injEq] at h
              obtain ⟨rfl, rfl⟩ := h
              have hsplit := utf8Char_split hu
              have hr' : ∀ x ∈ r', x ≠ 0x5C := by
                intro x hx
                apply hb
                rw [hsplit]
                exact List.mem_append_right _ hx
              rw [hsplit, ih r' s' hs hr']
              simp

def isPlain (c : UInt8) : Bool := 0x20 ≤ c && c < 0x80 && c != 0x22 && c != 0x5C

/-- Conversely a run of plain ASCII characters followed by a quote is accepted and means itself. -/
theorem strBody_plain (s rest : Bytes) (hs : s.all isPlain = true) (fuel : Nat) (hf : s.length < fuel) :
    strBody fuel (s ++ 0x22 :: rest) = some (s, rest) := by
  induction s generalizing fuel with
  | nil =>
    cases fuel with
    | zero => omega
    | succ n => simp [strBody]
  | cons c s ih =>
    cases fuel with
    | zero => simp at hf
    | succ n =>
      simp only [List.all_cons, Bool.and_eq_true] at hs
      obtain ⟨hc, hs⟩ := hs
      simp only [isPlain, Bool.and_eq_true, decide_eq_true_eq, bne_iff_ne, ne_eq] at hc
      obtain ⟨⟨⟨h20, h80⟩, h22⟩, h5c⟩ := hc
      have hlt : ¬ c < 0x20 := by
        rw [UInt8.le_iff_toNat_le] at h20
        rw [UInt8.lt_iff_toNat_lt]
        omega
      simp only [List.cons_append, strBody, h22, h5c, if_false, hlt, utf8Char, h80, if_true]
      rw [ih hs n (by simpa using hf)]
      simp

end JsonV.Lemmas.MeaningStr
