/-
Termination of `makeStructFields` on every (also recursive) type graph: the level-by-level search with fuel
`g.length + 2` always ends with an empty queue.  Each level either queues a visiting entry for a struct type
that was not seen before (the number of unseen types drops) or queues nothing that can queue anything.
-/
import JsonV.Lemmas.FieldsStep

set_option linter.unusedSimpArgs false

namespace JsonV.Lemmas.Fields
open JsonV JsonV.Model JsonV.Model.Fields

/-- Number of struct ids `< n` not in `seen`. -/
def U : Nat → List StructId → Nat
  | 0, _ => 0
  | n + 1, seen => U n seen + if seen.contains n then 0 else 1

theorem U_le : ∀ n seen, U n seen ≤ n
  | 0, _ => Nat.le_refl _
  | n + 1, seen => by
    have := U_le n seen
    simp only [U]; split <;> omega

theorem U_cons_ge : ∀ n t seen, n ≤ t → U n (t :: seen) = U n seen
  | 0, _, _, _ => rfl
  | n + 1, t, seen, h => by
    have ih := U_cons_ge n t seen (by omega)
    have hne : (n == t) = false := by simpa using (by omega : n ≠ t)
    simp only [U, List.contains_cons, hne, Bool.false_or, ih]

theorem U_cons_seen : ∀ n t seen, seen.contains t = true → U n (t :: seen) = U n seen
  | 0, _, _, _ => rfl
  | n + 1, t, seen, h => by
    have ih := U_cons_seen n t seen h
    by_cases htn : n = t
    · subst htn; simp only [U, List.contains_cons, beq_self_eq_true, Bool.true_or, h, ih]
    · have hne : (n == t) = false := by simpa using htn
      simp only [U, List.contains_cons, hne, Bool.false_or, ih]

theorem U_cons_new : ∀ n t seen, t < n → seen.contains t = false → U n (t :: seen) + 1 = U n seen
  | 0, _, _, h, _ => by omega
  | n + 1, t, seen, h, hc => by
    by_cases htn : n = t
    · subst htn
      have := U_cons_ge n n seen (Nat.le_refl _)
      simp only [U, List.contains_cons, beq_self_eq_true, Bool.true_or, hc, this]
      simp
    · have ih := U_cons_new n t seen (by omega) hc
      have hne : (n == t) = false := by simpa using htn
      simp only [U, List.contains_cons, hne, Bool.false_or]
      omega

/-- Queue entries that can still queue something: visiting and in range. -/
def vcount (n : Nat) : List QE → Nat
  | [] => 0
  | e :: es => (if e.visit = true ∧ e.sid < n then 1 else 0) + vcount n es

theorem vcount_append (n : Nat) : ∀ a b : List QE, vcount n (a ++ b) = vcount n a + vcount n b
  | [], b => by simp [vcount]
  | e :: es, b => by simp [vcount, vcount_append n es b]; omega

def W (n : Nat) (s : St) : Nat := U n s.seen + vcount n s.queue

theorem W_orErr (n : Nat) (s : St) (e : Option Err) : W n (s.orErr e) = W n s := by
  unfold W St.orErr; split <;> rfl

theorem W_applyAction (n : Nat) (qe : QE) (i : Nat) (a : Action) (s : St) : W n (applyAction qe i a s) ≤ W n s := by
  cases a with
  | skip => exact Nat.le_refl _
  | fallback o => exact Nat.le_refl _
  | field o => exact Nat.le_refl _
  | enqueue t =>
    cases hc : s.seen.contains t with
    | true =>
      have hm : t ∈ s.seen := by simpa using hc
      cases hv : qe.visit <;> simp [W, applyAction, hv, hm, vcount_append, vcount]
    | false =>
      have hm : t ∉ s.seen := by simpa using hc
      by_cases hlt : t < n
      · have hU := U_cons_new n t s.seen hlt hc
        cases hv : qe.visit <;> simp [W, applyAction, hv, hm, vcount_append, vcount, hlt] <;> omega
      · have hU := U_cons_ge n t s.seen (Nat.le_of_not_lt hlt)
        cases hv : qe.visit <;> simp [W, applyAction, hv, hm, vcount_append, vcount, hlt, hU]

theorem queue_applyAction_novisit (qe : QE) (i : Nat) (a : Action) (s : St) (hv : qe.visit = false) :
    (applyAction qe i a s).queue = s.queue := by
  cases a <;> simp [applyAction, hv]

theorem orErr_queue (s : St) (e : Option Err) : (s.orErr e).queue = s.queue := by
  unfold St.orErr; split <;> rfl

theorem W_processFields (n : Nat) (qe : QE) : ∀ (ds : List FieldDecl) (i : Nat) (s : St) (lc : Local),
    W n (processFields qe i ds s lc).1 ≤ W n s
  | [], _, _, _ => by simp [processFields]
  | d :: ds, i, s, lc => by
    simp only [processFields]
    refine Nat.le_trans (W_processFields n qe ds (i + 1) _ _) ?_
    rw [processField_eq]
    exact Nat.le_trans (W_applyAction n qe i _ _) (Nat.le_of_eq (W_orErr n s _))

theorem queue_processFields_novisit (qe : QE) (hv : qe.visit = false) : ∀ (ds : List FieldDecl) (i : Nat) (s : St) (lc : Local),
    (processFields qe i ds s lc).1.queue = s.queue
  | [], _, _, _ => by simp [processFields]
  | d :: ds, i, s, lc => by
    simp only [processFields]
    rw [queue_processFields_novisit qe hv ds (i + 1), processField_eq]
    simp [queue_applyAction_novisit _ _ _ _ hv, orErr_queue]

theorem W_processStruct (g : Graph) (qe : QE) (s : St) : W g.length (processStruct g qe s) ≤ W g.length s := by
  unfold processStruct
  dsimp only
  split
  · rw [W_orErr]; exact W_processFields _ qe _ 0 s {}
  · exact W_processFields _ qe _ 0 s {}

theorem queue_processStruct_idle (g : Graph) (qe : QE) (s : St) (h : ¬ (qe.visit = true ∧ qe.sid < g.length)) :
    (processStruct g qe s).queue = s.queue := by
  unfold processStruct
  dsimp only
  have hq : (processFields qe 0 (g.fieldsOf qe.sid) s {}).1.queue = s.queue := by
    by_cases hv : qe.visit = true
    · have hr : ¬ qe.sid < g.length := fun hlt => h ⟨hv, hlt⟩
      have : g.fieldsOf qe.sid = [] := by
        unfold Graph.fieldsOf
        simp [List.getD, List.getElem?_eq_none (Nat.le_of_not_lt hr)]
      rw [this]; simp [processFields]
    · exact queue_processFields_novisit qe (by simpa using hv) _ 0 s {}
  split
  · rw [orErr_queue]; exact hq
  · exact hq

theorem W_processLevel (g : Graph) : ∀ (F : List QE) (s : St), W g.length (processLevel g F s) ≤ W g.length s
  | [], s => by simp [processLevel]
  | qe :: rest, s => by
    simp only [processLevel]
    exact Nat.le_trans (W_processLevel g rest _) (W_processStruct g qe s)

theorem queue_processLevel_idle (g : Graph) : ∀ (F : List QE) (s : St), vcount g.length F = 0 →
    (processLevel g F s).queue = s.queue
  | [], s, _ => by simp [processLevel]
  | qe :: rest, s, h => by
    simp only [vcount] at h
    have h1 : ¬ (qe.visit = true ∧ qe.sid < g.length) := by
      intro hc; rw [if_pos hc] at h; omega
    have h2 : vcount g.length rest = 0 := by omega
    simp only [processLevel]
    rw [queue_processLevel_idle g rest _ h2, queue_processStruct_idle g qe s h1]

/-- Fuel needed from a frontier `F` with `seen`. -/
def need (g : Graph) (F : List QE) (seen : List StructId) : Nat :=
  if vcount g.length F = 0 then 1 else U g.length seen + 2

theorem bfs_fuel (g : Graph) : ∀ (fuel : Nat) (F : List QE) (s : St),
    (F = [] → s.queue = []) → need g F s.seen ≤ fuel → (bfs g fuel F s).queue = []
  | 0, F, s, _, hn => by
    unfold need at hn; split at hn <;> omega
  | fuel + 1, [], s, hF, _ => by simp [bfs, hF rfl]
  | fuel + 1, qe :: rest, s, _, hn => by
    simp only [bfs]
    let s' := processLevel g (qe :: rest) { s with queue := [] }
    have hW : W g.length s' ≤ W g.length { s with queue := [] } := W_processLevel g _ _
    simp only [W, vcount, Nat.add_zero] at hW
    by_cases hv : vcount g.length (qe :: rest) = 0
    · have hq : s'.queue = [] := queue_processLevel_idle g _ _ hv
      show (bfs g fuel s'.queue s').queue = []
      rw [hq]
      cases fuel <;> simp [bfs, hq]
    · have hn' : U g.length s.seen + 2 ≤ fuel + 1 := by
        unfold need at hn; rw [if_neg hv] at hn; exact hn
      apply bfs_fuel g fuel s'.queue s' (fun h => h)
      unfold need
      split
      · omega
      · rename_i hv'
        have : U g.length s'.seen + 1 ≤ U g.length s.seen := by
          have : 0 < vcount g.length s'.queue := Nat.pos_of_ne_zero hv'
          omega
        omega

/-- `flatten_terminates`: the search of `makeStructFields` never stops for lack of fuel. -/
theorem search_queue_nil (g : Graph) (root : StructId) : (search g root).queue = [] := by
  unfold search
  apply bfs_fuel
  · intro h; cases h
  · unfold need
    have : U g.length ({ seen := [root] } : St).seen ≤ g.length := U_le g.length [root]
    split <;> omega

end JsonV.Lemmas.Fields
