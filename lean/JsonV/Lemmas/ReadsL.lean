/-
Lemmas for C19 "noninterf": a projection that reads only the flag values in a mask is unchanged by setting flags
outside the mask.
-/
import JsonV.Model.OptProj
import JsonV.Lemmas.ScopeL

namespace JsonV.Lemmas.ReadsL
open JsonV.Model JsonV.Model.OptProj JsonV.Gen JsonV.Lemmas.FlagsL JsonV.Lemmas.ScopeL

theorem get_agree (m f : BitVec 64) (hf : f &&& m = f) (a b : Flags) (h : a.values &&& m = b.values &&& m) :
    a.get f = b.get f := by
  have : a.values &&& f = b.values &&& f := by
    apply BitVec.eq_of_getLsbD_eq; intro i _
    have h1 := congrArg (fun x => x.getLsbD i) h
    have h2 := congrArg (fun x => x.getLsbD i) hf
    simp only [BitVec.getLsbD_and] at h1 h2 ⊢
    cases hfi : f.getLsbD i <;> simp_all
  simp only [Flags.get, this]

/-- setting flags outside `m` keeps agreement on `m` -/
theorem agree_set (m w : BitVec 64) (s : Struct) (h : w &&& m = 0#64) :
    AgreeOn m s { s with flags := s.flags.set w } := by
  refine ⟨?_, fun _ => rfl, fun _ => rfl⟩
  apply BitVec.eq_of_getLsbD_eq; intro i _
  have h1 := congrArg (fun x => x.getLsbD i) h
  simp only [BitVec.getLsbD_and, BitVec.getLsbD_zero] at h1
  show (s.flags.values &&& m).getLsbD i = ((s.flags.set w).values &&& m).getLsbD i
  rw [BitVec.getLsbD_and, BitVec.getLsbD_and, set_values_bit]
  cases hm : m.getLsbD i
  · simp
  · have hw : w.getLsbD i = false := by simpa [hm] using h1
    simp [hw]

/-- a word that names only flags of `a` (and the value bit) is disjoint from every mask disjoint from `a` -/
theorem disj_of_subset (w a m : BitVec 64) (hw : w &&& ~~~(a ||| 1#64) = 0#64) (ham : (a ||| 1#64) &&& m = 0#64) :
    w &&& m = 0#64 := by
  apply BitVec.eq_of_getLsbD_eq; intro i _
  have h1 := congrArg (fun x => x.getLsbD i) hw
  have h2 := congrArg (fun x => x.getLsbD i) ham
  simp only [BitVec.getLsbD_and, BitVec.getLsbD_not, BitVec.getLsbD_zero] at h1 h2 ⊢
  cases hwi : w.getLsbD i <;> cases hmi : m.getLsbD i <;> simp_all

theorem encoder_agree {s s' : Struct} (h : AgreeOn encoderMask s s') : encoder s = encoder s' := by
  obtain ⟨hv, hi, hp⟩ := h
  have g := fun f hf => get_agree encoderMask f hf s.flags s'.flags hv
  simp only [encoder, g B.allowDup (by decide), g B.allowInvalidUTF8 (by decide), g B.multiline (by decide),
    g B.spColon (by decide), g B.spComma (by decide), g B.html (by decide), g B.js (by decide),
    hi (by decide), hp (by decide)]

theorem decoder_agree {s s' : Struct} (h : AgreeOn decoderMask s s') : decoder s = decoder s' := by
  have g := fun f hf => get_agree decoderMask f hf s.flags s'.flags h.1
  simp only [decoder, g B.allowDup (by decide), g B.allowInvalidUTF8 (by decide)]

theorem quote_agree {s s' : Struct} (h : AgreeOn quoteMask s s') : quote s = quote s' := by
  have g := fun f hf => get_agree quoteMask f hf s.flags s'.flags h.1
  simp only [quote, g B.html (by decide), g B.js (by decide), g B.allowInvalidUTF8 (by decide), g B.preserve (by decide)]

theorem format_agree {s s' : Struct} (h : AgreeOn formatMask s s') : format s = format s' := by
  obtain ⟨hv, hi, hp⟩ := h
  have g := fun f hf => get_agree formatMask f hf s.flags s'.flags hv
  simp only [format, ws, g B.allowDup (by decide), g B.allowInvalidUTF8 (by decide), g B.multiline (by decide),
    g B.spColon (by decide), g B.spComma (by decide), g B.html (by decide), g B.js (by decide), g B.preserve (by decide),
    hi (by decide), hp (by decide)]

theorem marshal_agree {s s' : Struct} (h : AgreeOn marshalMask s s') : OptProj.marshal s = OptProj.marshal s' := by
  have g := fun f hf => get_agree marshalMask f hf s.flags s'.flags h.1
  simp only [OptProj.marshal, g B.nilSlice (by decide), g B.nilMap (by decide)]

theorem unmarshal_agree {s s' : Struct} (h : AgreeOn unmarshalMask s s') : OptProj.unmarshal s = OptProj.unmarshal s' := by
  have g := fun f hf => get_agree unmarshalMask f hf s.flags s'.flags h.1
  simp only [OptProj.unmarshal, g B.arrayAnyLen (by decide), g B.allowDup (by decide)]

theorem matching_agree {s s' : Struct} (h : AgreeOn matchingMask s s') : matching s = matching s' := by
  have g := fun f hf => get_agree matchingMask f hf s.flags s'.flags h.1
  simp only [matching, g B.caseInsensitive (by decide), g B.caseSensitiveDelim (by decide), g B.legacyErrors (by decide)]

end JsonV.Lemmas.ReadsL
