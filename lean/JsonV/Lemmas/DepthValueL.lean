/-
Lemmas for C20, value path: the `depth` argument of consumeValue/consumeArray/consumeObject and
reformatValue/reformatArray/reformatObject on nests (Model/Depth.lean `value`, `elems`).
-/
import JsonV.Model.Depth

namespace JsonV.Lemmas.DepthValueL
open JsonV.Model JsonV.Model.Depth

theorem opens_length (ks : List Bool) : (opens ks).length = ks.length := by
  induction ks with
  | nil => rfl
  | cons k ks ih => cases k <;> simp [opens, ih]

theorem closes_length (ks : List Bool) : (closes ks).length = ks.length := by
  induction ks with
  | nil => rfl
  | cons k ks ih => cases k <;> simp [closes, ih]

theorem nest_length (ks : List Bool) : (nest ks).length = 2 * ks.length + 1 := by
  simp [nest, opens_length, closes_length]; omega

theorem nestEmpty_length (ks : List Bool) (k : Bool) : (nestEmpty ks k).length = 2 * ks.length + 2 := by
  cases k <;> simp [nestEmpty, opens_length, closes_length] <;> omega

/-- the first symbol of a text is an opening bracket or a scalar -/
def HeadOk (t : List Sym) : Prop := ∃ s r, t = s :: r ∧ s ≠ .ca ∧ s ≠ .co

theorem headOk_opens (ks : List Bool) (t : List Sym) (h : HeadOk t) : HeadOk (opens ks ++ t) := by
  cases ks with
  | nil => simpa [opens] using h
  | cons k ks => cases k <;> exact ⟨_, _, rfl, by decide, by decide⟩

theorem headOk_append {t : List Sym} (u : List Sym) (h : HeadOk t) : HeadOk (t ++ u) := by
  obtain ⟨s, r, rfl, h1, h2⟩ := h
  exact ⟨s, r ++ u, rfl, h1, h2⟩

/-- one level around a text that is accepted one level deeper -/
theorem value_wrap_ok (max fuel depth : Nat) (k : Bool) (inner rest : List Sym)
    (hd : depth ≠ max + 1) (hh : HeadOk inner)
    (hi : value max fuel (depth + 1) inner = .ok ((if k then Sym.co else Sym.ca) :: rest)) :
    value max (fuel + 2) depth ((if k then Sym.oo else Sym.oa) :: inner) = .ok rest := by
  obtain ⟨s, r, rfl, h1, h2⟩ := hh
  cases k
  · simp [value, elems, hd, h1, hi]
  · simp [value, elems, hd, h2, hi]

/-- one level around a text that is refused one level deeper -/
theorem value_wrap_err (max fuel depth : Nat) (k : Bool) (inner : List Sym) (e : VErr)
    (hd : depth ≠ max + 1) (hh : HeadOk inner)
    (hi : value max fuel (depth + 1) inner = .error e) :
    value max (fuel + 2) depth ((if k then Sym.oo else Sym.oa) :: inner) = .error e := by
  obtain ⟨s, r, rfl, h1, h2⟩ := hh
  cases k
  · simp [value, elems, hd, h1, hi]
  · simp [value, elems, hd, h2, hi]

/-- an opening bracket met at depth max+1 is refused, whatever follows -/
theorem value_open_refused (max fuel : Nat) (k : Bool) (inner : List Sym) :
    value max (fuel + 1) (max + 1) ((if k then Sym.oo else Sym.oa) :: inner) = .error .maxDepth := by
  cases k <;> simp [value]

theorem closes_cons (k : Bool) (ks : List Bool) :
    closes (k :: ks) = closes ks ++ [if k then Sym.co else Sym.ca] := by
  cases k <;> rfl

theorem opens_cons (k : Bool) (ks : List Bool) :
    opens (k :: ks) = (if k then Sym.oo else Sym.oa) :: opens ks := by
  cases k <;> rfl

/-- Wrapping an accepted core in `ks` levels that all stay within the limit. -/
theorem wrap_ok (max : Nat) (core : List Sym) (F : Nat) (hh : HeadOk core) :
    ∀ (ks : List Bool) (depth : Nat) (rest : List Sym) (fuel : Nat),
      (∀ rest', value max F (depth + ks.length) (core ++ rest') = .ok rest') →
      depth + ks.length ≤ max + 1 → fuel = F + 2 * ks.length →
      value max fuel depth (opens ks ++ (core ++ (closes ks ++ rest))) = .ok rest := by
  intro ks
  induction ks with
  | nil =>
    intro depth rest fuel hc _ hf
    subst hf
    simpa [opens, closes] using hc rest
  | cons k ks ih =>
    intro depth rest fuel hc hd hf
    simp only [List.length_cons] at hc hd hf
    have hfuel : fuel = (F + 2 * ks.length) + 2 := by omega
    subst hfuel
    rw [opens_cons, closes_cons, List.cons_append]
    apply value_wrap_ok max _ depth k _ rest (by omega)
    · exact headOk_opens ks _ (headOk_append _ hh)
    · have := ih (depth + 1) ((if k then Sym.co else Sym.ca) :: rest) (F + 2 * ks.length)
        (by intro r; have := hc r; rwa [show depth + (ks.length + 1) = depth + 1 + ks.length by omega] at this)
        (by omega) rfl
      simpa [List.append_assoc] using this

/-- Wrapping a refused core in `ks` levels that all stay within the limit: the same refusal. -/
theorem wrap_err (max : Nat) (core : List Sym) (F : Nat) (e : VErr) (hh : HeadOk core) :
    ∀ (ks : List Bool) (depth : Nat) (rest : List Sym) (fuel : Nat),
      (∀ rest', value max F (depth + ks.length) (core ++ rest') = .error e) →
      depth + ks.length ≤ max + 1 → fuel = F + 2 * ks.length →
      value max fuel depth (opens ks ++ (core ++ (closes ks ++ rest))) = .error e := by
  intro ks
  induction ks with
  | nil =>
    intro depth rest fuel hc _ hf
    subst hf
    simpa [opens, closes] using hc rest
  | cons k ks ih =>
    intro depth rest fuel hc hd hf
    simp only [List.length_cons] at hc hd hf
    have hfuel : fuel = (F + 2 * ks.length) + 2 := by omega
    subst hfuel
    rw [opens_cons, closes_cons, List.cons_append]
    apply value_wrap_err max _ depth k _ e (by omega)
    · exact headOk_opens ks _ (headOk_append _ hh)
    · have := ih (depth + 1) ((if k then Sym.co else Sym.ca) :: rest) (F + 2 * ks.length)
        (by intro r; have := hc r; rwa [show depth + (ks.length + 1) = depth + 1 + ks.length by omega] at this)
        (by omega) rfl
      simpa [List.append_assoc] using this

/-- more fuel never changes a result that is not `fuel` -/
theorem fuel_mono (max : Nat) :
    ∀ (fuel : Nat),
      (∀ depth inp r, value max fuel depth inp = r → r ≠ .error .fuel → value max (fuel + 1) depth inp = r) ∧
      (∀ depth c inp r, elems max fuel depth c inp = r → r ≠ .error .fuel → elems max (fuel + 1) depth c inp = r) := by
  intro fuel
  induction fuel with
  | zero =>
    constructor
    · intro depth inp r h hr; simp [value] at h; exact absurd h.symm hr
    · intro depth c inp r h hr; simp [elems] at h; exact absurd h.symm hr
  | succ n ih =>
    obtain ⟨ihv, ihe⟩ := ih
    constructor
    · intro depth inp r h hr
      match inp with
      | [] => simpa [value] using h
      | .sc :: rest => simpa [value] using h
      | .ca :: rest => simpa [value] using h
      | .co :: rest => simpa [value] using h
      | .oa :: rest =>
        simp only [value] at h ⊢
        split
        · simpa [*] using h
        · split
          · simpa [*] using h
          · rename_i h1 h2
            simp only [h1, h2, if_false] at h
            exact ihe _ _ _ _ h hr
      | .oo :: rest =>
        simp only [value] at h ⊢
        split
        · simpa [*] using h
        · split
          · simpa [*] using h
          · rename_i h1 h2
            simp only [h1, h2, if_false] at h
            exact ihe _ _ _ _ h hr
    · intro depth c inp r h hr
      simp only [elems] at h ⊢
      cases hv : value max n depth inp with
      | error e =>
        rw [hv] at h
        have he : e ≠ .fuel := by
          intro he; subst he; simp at h; exact hr h.symm
        rw [ihv depth inp _ hv (by simpa using he)]
        simpa using h
      | ok r' =>
        rw [hv] at h
        rw [ihv depth inp _ hv (by simp)]
        simp only at h ⊢
        split
        · simpa [*] using h
        · split
          · simpa [*] using h
          · rename_i h1 h2
            simp only [h1, h2, if_false] at h
            exact ihe _ _ _ _ h hr

theorem value_fuel_le (max : Nat) {fuel fuel' depth : Nat} {inp : List Sym} {r : Except VErr (List Sym)}
    (h : value max fuel depth inp = r) (hr : r ≠ .error .fuel) (hle : fuel ≤ fuel') :
    value max fuel' depth inp = r := by
  induction hle with
  | refl => exact h
  | step _ ih => exact (fuel_mono max _).1 _ _ _ ih hr

/-! ### nests -/

/-- A nest entered at `depth` is accepted iff every level stays within the limit. -/
theorem value_nest_ok (max depth fuel : Nat) (ks : List Bool) (rest : List Sym)
    (hd : depth + ks.length ≤ max + 1) (hf : 2 * ks.length + 1 ≤ fuel) :
    value max fuel depth (nest ks ++ rest) = .ok rest := by
  have h := wrap_ok max [Sym.sc] 1 ⟨_, _, rfl, by decide, by decide⟩ ks depth rest (1 + 2 * ks.length)
    (by intro r; simp [value]) hd rfl
  have h' : value max (1 + 2 * ks.length) depth (nest ks ++ rest) = .ok rest := by
    simpa [nest, List.append_assoc] using h
  exact value_fuel_le max h' (by simp) (by omega)

/-- the same with an empty innermost container: it counts as a level -/
theorem value_nestEmpty_ok (max depth fuel : Nat) (ks : List Bool) (k : Bool) (rest : List Sym)
    (hd : depth + ks.length + 1 ≤ max + 1) (hf : 2 * ks.length + 1 ≤ fuel) :
    value max fuel depth (nestEmpty ks k ++ rest) = .ok rest := by
  have hne : depth + ks.length ≠ max + 1 := by omega
  have h := wrap_ok max (if k then [Sym.oo, Sym.co] else [Sym.oa, Sym.ca]) 1
    (by cases k <;> exact ⟨_, _, rfl, by decide, by decide⟩) ks depth rest (1 + 2 * ks.length)
    (by intro r; cases k <;> simp [value, hne]) (by omega) rfl
  have h' : value max (1 + 2 * ks.length) depth (nestEmpty ks k ++ rest) = .ok rest := by
    simpa [nestEmpty, List.append_assoc] using h
  exact value_fuel_le max h' (by simp) (by omega)

theorem value_nestEmpty_refused (max depth fuel : Nat) (ks : List Bool) (k : Bool) (rest : List Sym)
    (hd : depth + ks.length = max + 1) (hf : 2 * ks.length + 1 ≤ fuel) :
    value max fuel depth (nestEmpty ks k ++ rest) = .error .maxDepth := by
  have h := wrap_err max (if k then [Sym.oo, Sym.co] else [Sym.oa, Sym.ca]) 1 .maxDepth
    (by cases k <;> exact ⟨_, _, rfl, by decide, by decide⟩) ks depth rest (1 + 2 * ks.length)
    (by intro r; cases k <;> simp [value, hd]) (by omega) rfl
  have h' : value max (1 + 2 * ks.length) depth (nestEmpty ks k ++ rest) = .error .maxDepth := by
    simpa [nestEmpty, List.append_assoc] using h
  exact value_fuel_le max h' (by simp) (by omega)

theorem opens_append (a b : List Bool) : opens (a ++ b) = opens a ++ opens b := by
  induction a with
  | nil => rfl
  | cons k a ih => cases k <;> simp [opens, ih]

theorem closes_append (a b : List Bool) : closes (a ++ b) = closes b ++ closes a := by
  induction a with
  | nil => simp [closes]
  | cons k a ih => cases k <;> simp [closes, ih, List.append_assoc]

/-- A nest with a level beyond the limit is refused with errMaxDepth (entered at a legal depth). -/
theorem value_nest_refused (max depth fuel : Nat) (ks : List Bool) (rest : List Sym)
    (h0 : depth ≤ max + 1) (hd : max + 1 < depth + ks.length) (hf : 2 * ks.length + 1 ≤ fuel) :
    value max fuel depth (nest ks ++ rest) = .error .maxDepth := by
  -- split ks at the level that sits at depth max+1
  let n := max + 1 - depth
  have hn : n < ks.length := by omega
  have hsplit : ks = ks.take n ++ ks.drop n := (List.take_append_drop n ks).symm
  have hlen1 : (ks.take n).length = n := by simp [List.length_take]; omega
  cases hdrop : ks.drop n with
  | nil =>
    have : (ks.drop n).length = 0 := by rw [hdrop]; rfl
    simp [List.length_drop] at this; omega
  | cons k kt =>
    have hks : ks = ks.take n ++ k :: kt := by rw [← hdrop]; exact hsplit
    have h := wrap_err max (((if k then Sym.oo else Sym.oa) :: (opens kt ++ Sym.sc :: closes kt)) ++
        [if k then Sym.co else Sym.ca]) 1 .maxDepth
      (by cases k <;> exact ⟨_, _, rfl, by decide, by decide⟩) (ks.take n) depth rest (1 + 2 * (ks.take n).length)
      (by
        intro r
        rw [hlen1, show depth + n = max + 1 by omega]
        simp only [List.cons_append]
        exact value_open_refused max 0 k _)
      (by omega) rfl
    have h' : value max (1 + 2 * (ks.take n).length) depth (nest ks ++ rest) = .error .maxDepth := by
      rw [show nest ks = nest (ks.take n ++ k :: kt) by rw [← hks]]
      simp only [nest, opens_append, closes_append, opens_cons, closes_cons]
      simpa [List.append_assoc] using h
    exact value_fuel_le max h' (by simp) (by rw [hlen1]; omega)

end JsonV.Lemmas.DepthValueL
