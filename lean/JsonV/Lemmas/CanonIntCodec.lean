/-
A non-degenerate instance of the float parameter of Model/Canon.lean for which the laws that the C13 theorems
assume of strconv are PROVED: the exact integer codec.  It reads an integer literal of at most 16 digits as that
integer (every other text as 0) and writes an integer as its decimal digits — which is what strconv does on the
integers below 2^53 (exactly representable, shortest digits = all digits up to trailing zeros, layout without
exponent up to 21 digits).
-/
import JsonV.Props.C10Glue

namespace JsonV.Lemmas.CanonIntCodec
open JsonV JsonV.Canon JsonV.Model.Number JsonV.Spec.Ecma
open JsonV.Fmt hiding strOK respell
open JsonV.Lemmas.NumInt JsonV.Lemmas.NumFloat JsonV.Lemmas.NumParse JsonV.Lemmas.CanonAtom JsonV.Props.C10Glue

/-! ### decimal digits: `formatUint ∘ bytesVal` is the identity on canonical decimals -/

theorem natDigits_snoc (a d : Nat) (ha : 0 < a) (hd : d < 10) : natDigits (10 * a + d) = natDigits a ++ [d] := by
  rw [natDigits]
  have h1 : ¬ (10 * a + d < 10) := by omega
  have h2 : (10 * a + d) / 10 = a := by omega
  have h3 : (10 * a + d) % 10 = d := by omega
  simp only [h1, dite_false, h2, h3]

theorem natDigits_foldl : ∀ (cs : Bytes) (a : Nat), 0 < a → (∀ c ∈ cs, Spec.Ecma.isDigit c = true) →
    natDigits (cs.foldl (fun a c => 10 * a + (c.toNat - 48)) a) = natDigits a ++ cs.map (fun c => c.toNat - 48)
  | [], a, _, _ => by simp
  | c :: cs, a, ha, h => by
    have hc : 48 ≤ c.toNat ∧ c.toNat ≤ 57 := by
      have := h c (by simp)
      simp only [Spec.Ecma.isDigit, Bool.and_eq_true, decide_eq_true_eq] at this
      exact ⟨UInt8.le_iff_toNat_le.mp this.1, UInt8.le_iff_toNat_le.mp this.2⟩
    simp only [List.foldl_cons, List.map_cons]
    rw [natDigits_foldl cs _ (by omega) (fun x hx => h x (by simp [hx])), natDigits_snoc a _ ha (by omega)]
    simp

theorem digitByte_sub (c : UInt8) (h : Spec.Ecma.isDigit c = true) : digitByte (c.toNat - 48) = c := by
  have hc : 48 ≤ c.toNat := by
    simp only [Spec.Ecma.isDigit, Bool.and_eq_true, decide_eq_true_eq] at h
    exact UInt8.le_iff_toNat_le.mp h.1
  unfold digitByte
  have : 48 + (c.toNat - 48) = c.toNat := by omega
  rw [this]; exact UInt8.ofNat_toNat

/-- Printing the value of a canonical decimal gives the decimal back. -/
theorem formatUint_bytesVal (t : Bytes) (h : canonicalDecimal t = true) : formatUint (bytesVal t) = t := by
  simp only [canonicalDecimal, Bool.and_eq_true, Bool.not_eq_true', List.all_eq_true, Bool.or_eq_true,
    bne_iff_ne, ne_eq, beq_iff_eq] at h
  obtain ⟨⟨hne, hd⟩, hz⟩ := h
  cases t with
  | nil => simp at hne
  | cons c cs =>
    rcases hz with hz | hz
    · have hc := hd c (by simp)
      have hc' : 48 ≤ c.toNat ∧ c.toNat ≤ 57 := by
        simp only [Spec.Ecma.isDigit, Bool.and_eq_true, decide_eq_true_eq] at hc
        exact ⟨UInt8.le_iff_toNat_le.mp hc.1, UInt8.le_iff_toNat_le.mp hc.2⟩
      have hne48 : c.toNat ≠ 48 := by
        intro e
        apply hz
        simp only [List.head?_cons, Option.some.injEq]
        exact UInt8.toNat_inj.mp (by simpa using e)
      have hv : bytesVal (c :: cs) = cs.foldl (fun a c => 10 * a + (c.toNat - 48)) (c.toNat - 48) := by
        simp [bytesVal]
      rw [hv, formatUint, natDigits_foldl cs _ (by omega) (fun x hx => hd x (by simp [hx]))]
      have h1 : natDigits (c.toNat - 48) = [c.toNat - 48] := by
        rw [natDigits]; simp only [show c.toNat - 48 < 10 by omega, dite_true]
      rw [h1]
      simp only [List.singleton_append, List.map_cons, List.map_map]
      rw [digitByte_sub c hc]
      congr 1
      have : ∀ l : Bytes, (∀ x ∈ l, Spec.Ecma.isDigit x = true) → l.map (digitByte ∘ fun c => c.toNat - 48) = l := by
        intro l hl
        induction l with
        | nil => rfl
        | cons x xs ih =>
          have e := ih (fun y hy => hl y (by simp [hy]))
          simp only [List.map_cons, Function.comp] at e ⊢
          rw [digitByte_sub x (hl x (by simp)), e]
      exact this cs (fun x hx => hd x (by simp [hx]))
    · rw [hz]
      have : bytesVal [48] = 0 := by simp [bytesVal]
      rw [this, formatUint, natDigits]; rfl

/-! ### the codec -/

def zeroFl : Fl := ⟨false, false, 0, 0⟩

/-- `ParseFloat` restricted to integer literals of at most 16 digits (exact there); everything else reads as 0. -/
def intParse (lit : Bytes) : Fl :=
  match lit with
  | 45 :: t => if canonicalDecimal t = true ∧ t.length ≤ 16 then ⟨true, false, bytesVal t, 0⟩ else zeroFl
  | _ => if canonicalDecimal lit = true ∧ lit.length ≤ 16 then ⟨false, false, bytesVal lit, 0⟩ else zeroFl

/-- Shortest digits of an integer: all its decimal digits, decimal point after the last one. -/
def intShortest (f : Fl) : List Nat × Int :=
  if f.mant = 0 ∨ 16 < (natDigits f.mant).length then ([], 0)
  else (natDigits f.mant, ((natDigits f.mant).length : Int))

def intCodec : FloatCodec := ⟨intParse, intShortest⟩

theorem intCodec_wfd (f : Fl) : WFD (intCodec.shortest f).1 (intCodec.shortest f).2 := by
  show WFD (intShortest f).1 (intShortest f).2
  unfold intShortest
  split
  · exact ⟨by simp, by simp, fun _ => rfl, by omega, by omega⟩
  · next h =>
    have hm : 0 < f.mant := by omega
    refine ⟨natDigits_lt _, natDigits_head _ hm, fun e => absurd e (natDigits_ne_nil _), ?_, ?_⟩ <;> simp only [] <;> omega

/-- What the codec writes: the decimal digits with the sign (zero and out-of-range mantissas as `0`). -/
theorem intCodec_append (f : Fl) :
    intCodec.append f = (if f.neg then [45] else []) ++
      (if f.mant = 0 ∨ 16 < (natDigits f.mant).length then [48] else formatUint f.mant) := by
  have hw := intCodec_wfd f
  show appendFloat f.neg (intCodec.shortest f).1 (intCodec.shortest f).2 = _
  rw [JsonV.Props.C10.float_layout _ _ _ hw]
  show numberToString f.neg (intShortest f).1 (intShortest f).2 = _
  unfold numberToString intShortest
  congr 1
  split
  · simp [layout]
  · next h =>
    have hne := natDigits_ne_nil f.mant
    simp only [layout, hne, if_false]
    rw [if_pos ⟨by omega, by omega⟩]
    simp [zeros, formatUint, dig_eq]

theorem formatUint_length (m : Nat) : (formatUint m).length = (natDigits m).length := by simp [formatUint]

theorem formatUint_not_minus (m : Nat) (t : Bytes) : formatUint m ≠ 45 :: t := by
  intro e
  have := canonical_not_minus _ (formatUint_canonical m)
  rw [e] at this; simp at this

/-- Every value the codec produces: finite, exponent 0, at most 16 digits, zero unsigned after normalisation. -/
def Norm (v : Fl) : Prop :=
  v.inf = false ∧ v.exp = 0 ∧ (v.mant = 0 → v.neg = false) ∧ (natDigits v.mant).length ≤ 16

theorem natDigits_bytesVal_length (t : Bytes) (h : canonicalDecimal t = true) : (natDigits (bytesVal t)).length = t.length := by
  rw [← formatUint_length, formatUint_bytesVal t h]

theorem numValue_norm (lit : Bytes) : Norm (numValue intCodec lit) := by
  unfold numValue
  show Norm (if (intParse lit).isZero then { intParse lit with neg := false }
    else if (intParse lit).inf then maxFloat64 (intParse lit).neg else intParse lit)
  have key : ∀ v : Fl, v.inf = false → v.exp = 0 → (natDigits v.mant).length ≤ 16 →
      Norm (if v.isZero then { v with neg := false } else if v.inf then maxFloat64 v.neg else v) := by
    intro v h1 h2 h3
    by_cases hz : v.mant = 0
    · have : v.isZero = true := by simp [Fl.isZero, h1, hz]
      rw [if_pos this]; exact ⟨h1, h2, fun _ => rfl, h3⟩
    · have : v.isZero = false := by simp [Fl.isZero, hz]
      rw [if_neg (by simp [this]), if_neg (by simp [h1])]
      exact ⟨h1, h2, fun e => absurd e hz, h3⟩
  have z : (natDigits 0).length ≤ 16 := by rw [natDigits]; simp
  unfold intParse
  split
  · split
    · next h => exact key _ rfl rfl (by simp only []; rw [natDigits_bytesVal_length _ h.1]; exact h.2)
    · exact key zeroFl rfl rfl z
  · split
    · next h => exact key _ rfl rfl (by simp only []; rw [natDigits_bytesVal_length _ h.1]; exact h.2)
    · exact key zeroFl rfl rfl z

theorem numValue_of_norm (lit : Bytes) (v : Fl) (hp : intParse lit = v) (hn : Norm v) : numValue intCodec lit = v := by
  unfold numValue
  show (if (intParse lit).isZero then { intParse lit with neg := false }
    else if (intParse lit).inf then maxFloat64 (intParse lit).neg else intParse lit) = v
  rw [hp]
  obtain ⟨h1, h2, h3, _⟩ := hn
  by_cases hz : v.mant = 0
  · have : v.isZero = true := by simp [Fl.isZero, h1, hz]
    rw [if_pos this]
    cases v; simp only [] at h3 hz ⊢; rw [h3 hz]
  · have : v.isZero = false := by simp [Fl.isZero, hz]
    rw [if_neg (by simp [this]), if_neg (by simp [h1])]

/-- The canonical spelling of a value reads back as that value. -/
theorem intCodec_reread (lit : Bytes) :
    numValue intCodec (intCodec.append (numValue intCodec lit)) = numValue intCodec lit := by
  have hn := numValue_norm lit
  generalize numValue intCodec lit = v at hn ⊢
  apply numValue_of_norm _ v _ hn
  obtain ⟨h1, h2, h3, h4⟩ := hn
  rw [intCodec_append]
  by_cases hz : v.mant = 0
  · rw [h3 hz]
    simp only [Bool.false_eq_true, if_false, List.nil_append, hz, true_or, if_true]
    show (if canonicalDecimal [48] = true ∧ [48].length ≤ 16 then (⟨false, false, bytesVal [48], 0⟩ : Fl) else zeroFl) = v
    rw [if_pos ⟨by decide, by decide⟩]
    cases v; simp only [] at h1 h2 h3 hz ⊢
    rw [h1, h2, h3 hz, hz]; simp [bytesVal]
  · have hcnd : ¬ (v.mant = 0 ∨ 16 < (natDigits v.mant).length) := by omega
    rw [if_neg hcnd]
    have hc := formatUint_canonical v.mant
    have hl : (formatUint v.mant).length ≤ 16 := by rw [formatUint_length]; exact h4
    by_cases hneg : v.neg = true
    · simp only [hneg, if_true, List.singleton_append]
      show (if canonicalDecimal (formatUint v.mant) = true ∧ (formatUint v.mant).length ≤ 16
        then (⟨true, false, bytesVal (formatUint v.mant), 0⟩ : Fl) else zeroFl) = v
      rw [if_pos ⟨hc, hl⟩, bytesVal_formatUint]
      cases v; simp only [] at h1 h2 hneg ⊢; rw [h1, h2, hneg]
    · simp only [hneg, Bool.false_eq_true, if_false, List.nil_append]
      have : intParse (formatUint v.mant) =
          (if canonicalDecimal (formatUint v.mant) = true ∧ (formatUint v.mant).length ≤ 16
            then (⟨false, false, bytesVal (formatUint v.mant), 0⟩ : Fl) else zeroFl) := by
        unfold intParse
        split
        · next t e => exact absurd e (formatUint_not_minus _ t)
        · rfl
      rw [this, if_pos ⟨hc, hl⟩, bytesVal_formatUint]
      have hneg' : v.neg = false := by simpa using hneg
      cases v; simp only [] at h1 h2 hneg' ⊢; rw [h1, h2, hneg']

theorem intCodec_laws : CodecLaws intCodec := ⟨intCodec_wfd, intCodec_reread⟩

/-- The `n < 16` shortcut is sound for this codec: an integer literal of fewer than 16 characters (not `-0`) is
the canonical spelling of its own value. -/
theorem intCodec_shortInt (lit : Bytes) (hi : isIntLit lit = true) (hs : shortInt lit = true) :
    intCodec.append (numValue intCodec lit) = lit := by
  simp only [shortInt, Bool.and_eq_true, Bool.not_eq_true', decide_eq_true_eq, beq_eq_false_iff_ne, ne_eq] at hs
  obtain ⟨⟨hm0, _hany⟩, hlen⟩ := hs
  rw [maxExactIntegerDigits_eq] at hlen
  -- the magnitude part
  have core : ∀ (neg : Bool) (t : Bytes), canonicalDecimal t = true → t.length ≤ 16 → (neg = true → t ≠ [48]) →
      intParse lit = ⟨neg, false, bytesVal t, 0⟩ → lit = (if neg then [45] else []) ++ t →
      intCodec.append (numValue intCodec lit) = lit := by
    intro neg t hc hl hz hp hlit
    have hlenD := natDigits_bytesVal_length t hc
    by_cases hv : bytesVal t = 0
    · have ht : t = [48] := by
        have := formatUint_bytesVal t hc
        rw [hv] at this
        rw [← this, formatUint, natDigits]; rfl
      have hneg : neg = false := by
        cases neg with
        | false => rfl
        | true => exact absurd ht (hz rfl)
      subst hneg
      have hv' : numValue intCodec lit = ⟨false, false, 0, 0⟩ :=
        numValue_of_norm lit _ (by rw [hp, hv]) ⟨rfl, rfl, fun _ => rfl, by rw [natDigits]; simp⟩
      rw [hv', intCodec_append, hlit, ht]; simp
    · have hv' : numValue intCodec lit = ⟨neg, false, bytesVal t, 0⟩ :=
        numValue_of_norm lit _ hp ⟨rfl, rfl, fun e => absurd e hv, by simp only []; omega⟩
      rw [hv', intCodec_append]
      simp only []
      have hcnd : ¬ (bytesVal t = 0 ∨ 16 < (natDigits (bytesVal t)).length) := by omega
      rw [if_neg hcnd, formatUint_bytesVal t hc, hlit]
  unfold isIntLit at hi
  split at hi
  · rename_i t
    have hl : t.length ≤ 16 := by simp at hlen; omega
    refine core true t hi hl (fun _ e => hm0 (by rw [e])) ?_ (by simp)
    simp only [intParse]; rw [if_pos ⟨hi, hl⟩]
  · rename_i hnm
    have hl : lit.length ≤ 16 := by omega
    refine core false lit hi hl (fun e => by cases e) ?_ (by simp)
    unfold intParse
    split
    · next t => exact absurd rfl (hnm t)
    · rw [if_pos ⟨hi, hl⟩]

end JsonV.Lemmas.CanonIntCodec
