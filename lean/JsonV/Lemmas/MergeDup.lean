/-
Helper lemmas for C14/C08, part 5: the option `allowDup` (AllowDuplicateNames).
  * on trees without repeated names the option is irrelevant (`unm_congr_dup`);
  * with the option on, a member appended to an object behaves exactly like a second Unmarshal call
    with the one-member object (`later_wins_all`) — duplicates are merged like sequential calls.
-/
import JsonV.Lemmas.MergeClauses

namespace JsonV.Lemmas.Merge
open JsonV JsonV.Spec JsonV.Model

/-! ### Without repeated names the option is irrelevant -/

theorem skipOK_of_dupFree (o : UOpts) {j : JTree} (h : j.dupFree = true) : skipOK o j = true := by
  simp [skipOK, h]

theorem wrongKind_of_dupFree (o : UOpts) {j : JTree} (h : j.dupFree = true) : wrongKind o j = .kind := by
  simp [wrongKind, skipOK_of_dupFree o h]

theorem elemsFresh_congr {f1 f2 : Dec} (z : GoVal) (xs : List JTree) (h : ∀ x ∈ xs, ∀ p, f1 x p = f2 x p) :
    elemsFresh f1 z xs = elemsFresh f2 z xs := by
  induction xs with
  | nil => rfl
  | cons x r ih =>
    simp only [elemsFresh, h x List.mem_cons_self, ih (fun y hy => h y (List.mem_cons_of_mem _ hy))]

theorem arrayElems_congr (o1 o2 : UOpts) {f1 f2 : Dec} (z : GoVal) (n : Nat) (xs : List JTree)
    (hd : ∀ x ∈ xs, x.dupFree = true) (h : ∀ x ∈ xs, ∀ p, f1 x p = f2 x p) :
    arrayElems o1 f1 z n xs = arrayElems o2 f2 z n xs := by
  induction xs generalizing n with
  | nil => cases n <;> rfl
  | cons x r ih =>
    have ihr := fun n => ih n (fun y hy => hd y (List.mem_cons_of_mem _ hy)) (fun y hy => h y (List.mem_cons_of_mem _ hy))
    cases n with
    | zero =>
      simp only [arrayElems, skipOK_of_dupFree _ (hd x List.mem_cons_self), if_true]
      exact ihr 0
    | succ n => simp only [arrayElems, h x List.mem_cons_self, ihr n]

/-- The decoders of the two runs agree on the member `(n, j)`. -/
def DecAgree (dec1 dec2 : Bytes → Option Dec) (n : Bytes) (j : JTree) : Prop :=
  match dec1 n, dec2 n with
  | none, none => True
  | some f1, some f2 => ∀ p, f1 j p = f2 j p
  | _, _ => False

theorem objFold_congr (o1 o2 : UOpts) {dec1 dec2 : Bytes → Option Dec} (z : Bytes → GoVal)
    (ms : List (Bytes × JTree)) (hnd : (akeys ms).Nodup) (hd : ∀ n j, (n, j) ∈ ms → j.dupFree = true)
    (h : ∀ n j, (n, j) ∈ ms → DecAgree dec1 dec2 n j) :
    ∀ seen m, (∀ n ∈ akeys ms, n ∉ seen) → objFold o1 dec1 z ms seen m = objFold o2 dec2 z ms seen m := by
  induction ms with
  | nil => intro seen m _; rfl
  | cons p r ih =>
    obtain ⟨n, j⟩ := p
    rw [akeys_cons, List.nodup_cons] at hnd
    intro seen m hseen
    have hns : seen.contains n = false := by
      have := hseen n (by rw [akeys_cons]; exact List.mem_cons_self)
      simpa using this
    have ihr := ih hnd.2 (fun n' j' hm => hd n' j' (List.mem_cons_of_mem _ hm))
      (fun n' j' hm => h n' j' (List.mem_cons_of_mem _ hm))
    have hseen' : ∀ n' ∈ akeys r, n' ∉ n :: seen := by
      intro n' hn' hc
      cases List.mem_cons.1 hc with
      | inl e => subst e; exact hnd.1 hn'
      | inr e => exact hseen n' (by rw [akeys_cons]; exact List.mem_cons_of_mem _ hn') e
    have ha := h n j List.mem_cons_self
    unfold DecAgree at ha
    simp only [objFold, hns, Bool.and_false, Bool.false_eq_true, if_false,
      skipOK_of_dupFree _ (hd n j List.mem_cons_self), if_true]
    cases h1 : dec1 n with
    | none =>
      cases h2 : dec2 n with
      | none => exact ihr _ _ hseen'
      | some f2 => simp [h1, h2] at ha
    | some f1 =>
      cases h2 : dec2 n with
      | none => simp [h1, h2] at ha
      | some f2 =>
        simp only [h1, h2] at ha
        simp only [ha]
        cases f2 j ((alookup n m).getD (z n)) with
        | error e => rfl
        | ok v => exact ihr _ _ hseen'

theorem anyPrior_congr (o1 o2 : UOpts) {j : JTree} (hd : j.dupFree = true) (p : GoVal) (acc : GoVal → Bool) :
    anyPrior o1 j p acc = anyPrior o2 j p acc := by
  cases p <;> simp [anyPrior, heldMismatch, wrongKind_of_dupFree _ hd]

theorem unmAny_congr (o1 o2 : UOpts) : ∀ (j : JTree) (p : GoVal), j.dupFree = true → unmAny o1 j p = unmAny o2 j p := by
  intro j
  induction j using JTree.induct with
  | hnull => intro p _; simp [unmAny]
  | hbool b => intro p hd; simp only [unmAny, anyPrior_congr o1 o2 hd]
  | hnum l => intro p hd; simp only [unmAny, anyPrior_congr o1 o2 hd]
  | hstr s => intro p hd; simp only [unmAny, anyPrior_congr o1 o2 hd]
  | harr xs ih =>
    intro p hd
    have hxs : ∀ x ∈ xs, x.dupFree = true := by simpa [JTree.dupFree, dupFreeL_iff] using hd
    simp only [unmAny, anyPrior_congr o1 o2 hd, unmAnyL_eq,
      elemsFresh_congr (f1 := unmAny o1) (f2 := unmAny o2) .nilIface xs (fun x hx p => ih x hx p (hxs x hx))]
  | hobj ms ih =>
    intro p hd
    have hd' := (dupFree_obj ms).1 hd
    have key : ∀ m, unmAnyM o1 ms [] m = unmAnyM o2 ms [] m := by
      intro m
      rw [unmAnyM_eq, unmAnyM_eq]
      apply objFold_congr o1 o2 _ ms hd'.1 hd'.2 _ [] m (by intro n _ hc; cases hc)
      intro n j hm
      simp only [DecAgree]
      intro p; exact ih n j hm p (hd'.2 n j hm)
    cases p <;> simp only [unmAny, key, heldMismatch, wrongKind_of_dupFree _ hd]

theorem fieldDec_agree (o1 o2 : UOpts) (fs : List (Bytes × GoType)) (n : Bytes) (j : JTree)
    (h : ∀ k t, (k, t) ∈ fs → ∀ p, unm o1 t j p = unm o2 t j p) : DecAgree (fieldDec o1 fs) (fieldDec o2 fs) n j := by
  induction fs with
  | nil => simp [DecAgree, fieldDec]
  | cons ft r ih =>
    obtain ⟨k, t⟩ := ft
    by_cases hk : k = n
    · simp only [DecAgree, fieldDec, hk, if_true]
      exact h k t List.mem_cons_self
    · simp only [DecAgree, fieldDec, hk, if_false]
      exact ih (fun k' t' hm => h k' t' (List.mem_cons_of_mem _ hm))

/-- On a tree without repeated names, two option records that differ only in `allowDup` give the
same result (value or error), for every type and every prior value. -/
theorem unm_congr_dup (o1 o2 : UOpts) (ha : o1.arrayAnyLen = o2.arrayAnyLen) :
    ∀ (T : GoType) (j : JTree) (p : GoVal), j.dupFree = true → unm o1 T j p = unm o2 T j p := by
  intro T
  induction T using GoType.induct with
  | hbool => intro j p _; simp [unm]
  | hint b => intro j p hd; cases j <;> simp [unm, unmInt, wrongKind_of_dupFree _ hd]
  | huint b => intro j p hd; cases j <;> simp [unm, unmUint, wrongKind_of_dupFree _ hd]
  | hfloat => intro j p hd; cases j <;> simp [unm, unmFloat, wrongKind_of_dupFree _ hd]
  | hstring => intro j p hd; cases j <;> simp [unm, unmString, wrongKind_of_dupFree _ hd]
  | hany => intro j p hd; simp only [unm]; exact unmAny_congr o1 o2 j p hd
  | hslice t ih =>
    intro j p hd
    cases j <;> simp only [unm]
    rename_i xs
    have hxs : ∀ x ∈ xs, x.dupFree = true := by simpa [JTree.dupFree, dupFreeL_iff] using hd
    rw [elemsFresh_congr (f1 := unm o1 t) (f2 := unm o2 t) t.zero xs (fun x hx p => ih x p (hxs x hx))]
  | harray n t ih =>
    intro j p hd
    cases j <;> simp only [unm]
    rename_i xs
    have hxs : ∀ x ∈ xs, x.dupFree = true := by simpa [JTree.dupFree, dupFreeL_iff] using hd
    rw [arrayElems_congr o1 o2 (f1 := unm o1 t) (f2 := unm o2 t) t.zero n xs hxs (fun x hx p => ih x p (hxs x hx)), ha]
  | hmap t ih =>
    intro j p hd
    cases j <;> simp only [unm]
    rename_i ms
    have hd' := (dupFree_obj ms).1 hd
    have key : ∀ m, objFold o1 (fun _ => some (unm o1 t)) (fun _ => t.zero) ms [] m =
        objFold o2 (fun _ => some (unm o2 t)) (fun _ => t.zero) ms [] m := by
      intro m
      apply objFold_congr o1 o2 _ ms hd'.1 hd'.2 _ [] m (by intro n _ hc; cases hc)
      intro n j hm
      simp only [DecAgree]
      intro p; exact ih j p (hd'.2 n j hm)
    cases p <;> simp only [key]
  | hptr t ih =>
    intro j p hd
    cases hn : j.isNull with
    | true =>
      have : j = .null := by cases j <;> simp_all [JTree.isNull]
      subst this; simp [unm_null]
    | false =>
      rw [unm_ptr o1 t j p hn, unm_ptr o2 t j p hn]
      cases p <;> simp only [ih j _ hd]
  | hstruct fs ih =>
    intro j p hd
    cases j <;> simp only [unm]
    rename_i ms
    have hd' := (dupFree_obj ms).1 hd
    have key : ∀ m, objFold o1 (fieldDec o1 fs) (fieldZero fs) ms [] m =
        objFold o2 (fieldDec o2 fs) (fieldZero fs) ms [] m := by
      intro m
      apply objFold_congr o1 o2 _ ms hd'.1 hd'.2 _ [] m (by intro n _ hc; cases hc)
      intro n j hm
      exact fieldDec_agree o1 o2 fs n j (fun k t hkt p => ih k t hkt j p (hd'.2 n j hm))
    cases p <;> simp only [key]

/-! ### With the option on, a later member is a second call -/

theorem objFold_seen_irrel {o : UOpts} (ho : o.allowDup = true) (dec : Bytes → Option Dec) (z : Bytes → GoVal)
    (ms : List (Bytes × JTree)) : ∀ seen m, objFold o dec z ms seen m = objFold o dec z ms [] m := by
  induction ms with
  | nil => intro seen m; rfl
  | cons p r ih =>
    obtain ⟨n, j⟩ := p
    intro seen m
    simp only [objFold, ho, Bool.not_true, Bool.false_and, Bool.false_eq_true, if_false]
    cases dec n with
    | none =>
      simp only []
      split
      · rw [ih (n :: seen), ih [n]]
      · rfl
    | some f =>
      simp only []
      cases f j ((alookup n m).getD (z n)) with
      | error e => rfl
      | ok v => simp only []; rw [ih (n :: seen), ih [n]]

theorem objFold_append {o : UOpts} (ho : o.allowDup = true) (dec : Bytes → Option Dec) (z : Bytes → GoVal)
    (a b : List (Bytes × JTree)) : ∀ m, objFold o dec z (a ++ b) [] m =
      (match objFold o dec z a [] m with
       | .error e => .error e
       | .ok m' => objFold o dec z b [] m') := by
  induction a with
  | nil => intro m; simp [objFold]
  | cons p r ih =>
    obtain ⟨n, j⟩ := p
    intro m
    simp only [List.cons_append, objFold, ho, Bool.not_true, Bool.false_and, Bool.false_eq_true, if_false]
    cases dec n with
    | none =>
      simp only []
      split
      · rw [objFold_seen_irrel ho dec z (r ++ b) [n], objFold_seen_irrel ho dec z r [n], ih]
      · rfl
    | some f =>
      simp only []
      cases f j ((alookup n m).getD (z n)) with
      | error e => rfl
      | ok v =>
        simp only []
        rw [objFold_seen_irrel ho dec z (r ++ b) [n], objFold_seen_irrel ho dec z r [n], ih]

/-- Two successive calls. -/
theorem unmChain_two (o : UOpts) (T : GoType) (a b : JTree) (v : GoVal) :
    unmChain o T [a, b] v = (match unm o T a v with | .error e => .error e | .ok v' => unm o T b v') := by
  simp only [unmChain]
  cases unm o T a v with
  | error e => rfl
  | ok v' => simp only []; cases unm o T b v' <;> rfl

theorem heldMismatch_allowDup {o : UOpts} (ho : o.allowDup = true) (j j' : JTree) (dv : GoVal) :
    heldMismatch o j dv = heldMismatch o j' dv := by
  simp [heldMismatch, wrongKind, skipOK, ho]

/-- **Later wins by merging**: with `allowDup`, unmarshaling an object with one more member at the end
is exactly unmarshaling the object without it and then the one-member object, into the same
destination — whatever the type, the prior value, and whether or not the name occurred before. -/
theorem later_wins_all (o : UOpts) (ho : o.allowDup = true) : ∀ (T : GoType) (ms : List (Bytes × JTree)) (k : Bytes)
    (x : JTree) (v : GoVal), unm o T (.obj (ms ++ [(k, x)])) v = unmChain o T [.obj ms, .obj [(k, x)]] v := by
  intro T
  induction T using GoType.induct with
  | hbool => intro ms k x v; rw [unmChain_two]; simp [unm, unmBool]
  | hint b => intro ms k x v; rw [unmChain_two]; simp [unm, unmInt, wrongKind, skipOK, ho]
  | huint b => intro ms k x v; rw [unmChain_two]; simp [unm, unmUint, wrongKind, skipOK, ho]
  | hfloat => intro ms k x v; rw [unmChain_two]; simp [unm, unmFloat, wrongKind, skipOK, ho]
  | hstring => intro ms k x v; rw [unmChain_two]; simp [unm, unmString, wrongKind, skipOK, ho]
  | hslice t _ => intro ms k x v; rw [unmChain_two]; simp [unm]
  | harray n t _ => intro ms k x v; rw [unmChain_two]; simp [unm]
  | hmap t _ =>
    intro ms k x v
    rw [unmChain_two]
    cases v <;> simp only [unm, objFold_append ho]
    · cases objFold o (fun _ => some (unm o t)) (fun _ => t.zero) ms [] [] <;> rfl
    · rename_i m0
      cases objFold o (fun _ => some (unm o t)) (fun _ => t.zero) ms [] m0 <;> rfl
  | hstruct fs _ =>
    intro ms k x v
    rw [unmChain_two]
    cases v <;> simp only [unm, objFold_append ho]
    rename_i fvs
    cases objFold o (fieldDec o fs) (fieldZero fs) ms [] fvs <;> rfl
  | hptr t ih =>
    intro ms k x v
    rw [unmChain_two, unm_ptr o t _ _ rfl, unm_ptr o t _ _ rfl]
    cases v <;> simp only []
    · rw [ih, unmChain_two]
      cases unm o t (.obj ms) t.zero with
      | error e => rfl
      | ok w => simp only []; rw [unm_ptr o t _ _ rfl]
    · rename_i v0
      rw [ih, unmChain_two]
      cases unm o t (.obj ms) v0 with
      | error e => rfl
      | ok w => simp only []; rw [unm_ptr o t _ _ rfl]
  | hany =>
    intro ms k x v
    rw [unmChain_two]
    simp only [unm]
    cases v <;> simp only [unmAny, unmAnyM_eq, objFold_append ho]
    · cases objFold o (fun _ => some (unmAny o)) (fun _ => GoVal.nilIface) ms [] [] <;> rfl
    · rename_i dv
      cases dv <;> simp only [heldMismatch_allowDup ho (.obj (ms ++ [(k, x)])) (.obj ms)]
      · cases objFold o (fun _ => some (unmAny o)) (fun _ => GoVal.nilIface) ms [] [] <;> rfl
      · rename_i m0
        cases objFold o (fun _ => some (unmAny o)) (fun _ => GoVal.nilIface) ms [] m0 <;> rfl

end JsonV.Lemmas.Merge
