/-
GLUE between slice C11 (Model/Quote.lean) and slice C01 (Model/WireDecode.lean): the two independently written
models of `jsonwire.ConsumeString` and `jsonwire.AppendUnquote` are equal on every input — consumed length,
stringNonCanonical flag, error class (via the embedding `errInj` of the small C11 enum into the decoder enum),
unquoted bytes.  Consequences: C01's grammar theorem holds for the C11 scanner, and the RFC 8259 meaning theorem
of C11 holds for C01's `unquote`: one model of strings for the whole framework.  Core Lean only.
-/
import JsonV.Model.WireDecode
import JsonV.Lemmas.QuoteCanon
import JsonV.Lemmas.QuoteTotal
import JsonV.Lemmas.QuoteMeaning
import JsonV.Lemmas.WireBasic
import JsonV.Lemmas.WireString

namespace JsonV.Lemmas.GlueQuote
open JsonV JsonV.Model JsonV.Model.Utf8
open JsonV.Model.Quote JsonV.Lemmas.QuoteL JsonV.Lemmas.QuoteCanon

theorem forall_u8' (P : UInt8 → Prop) (h : ∀ n : Fin 256, P (UInt8.ofNatLT n.val n.isLt)) : ∀ c, P c := by
  intro c
  have := h ⟨c.toNat, c.toNat_lt⟩
  simpa using this

/-! ### byte-level helpers -/

theorem hexVal_eq : ∀ c : UInt8, Wire.hexVal c = hexVal c.toNat := by
  apply forall_u8'; decide +kernel

theorem noEscape_eq : ∀ c : UInt8, Wire.noEscape c = noEscape c.toNat := by
  apply forall_u8'; decide +kernel

theorem parseHex_eq (b : Bytes) : Wire.parseHexUint16 b = parseHexUint16 b := by
  match b with
  | [] => rfl
  | [_] => rfl
  | [_, _] => rfl
  | [_, _, _] => rfl
  | [a, b, c, d] =>
    simp only [Wire.parseHexUint16, parseHexUint16, hexVal_eq]
    cases hexVal a.toNat <;> cases hexVal b.toNat <;> cases hexVal c.toNat <;> cases hexVal d.toNat <;> rfl
  | _ :: _ :: _ :: _ :: _ :: _ => rfl

theorem isHex_eq (c : UInt8) : Wire.isHex c = isHexDigit c.toNat := by
  simp [Wire.isHex, isHexDigit, hexVal_eq]

theorem bne_toNat (c k : UInt8) : (c != k) = decide (c.toNat ≠ k.toNat) := by
  by_cases h : c = k
  · subst h; simp
  · have : c.toNat ≠ k.toNat := fun e => h (UInt8.toNat_inj.mp e)
    simp [h, this]

theorem le_toNat (a b : UInt8) : decide (a ≤ b) = decide (a.toNat ≤ b.toNat) := by
  simp [UInt8.le_iff_toNat_le]

theorem pfxAux_eq (lower : Bool) (i : Nat) (b : Bytes) :
    Wire.hasEscapedUTF16PrefixAux lower i b = hasEscapedUTF16PrefixAux lower i b := by
  induction b generalizing i with
  | nil => simp [Wire.hasEscapedUTF16PrefixAux, hasEscapedUTF16PrefixAux]
  | cons c r ih =>
    simp only [Wire.hasEscapedUTF16PrefixAux, hasEscapedUTF16PrefixAux, ih, bne_toNat, le_toNat, isHex_eq]
    simp
    have e1 : (!decide (c.toNat < 99)) = decide (99 ≤ c.toNat) := by
      by_cases h : c.toNat < 99 <;> simp [h] <;> omega
    have e2 : (!decide (c.toNat < 67)) = decide (67 ≤ c.toNat) := by
      by_cases h : c.toNat < 67 <;> simp [h] <;> omega
    simp only [e1, e2, Bool.or_assoc]

theorem pfx_eq (b : Bytes) (lower : Bool) : Wire.hasEscapedUTF16Prefix b lower = hasEscapedUTF16Prefix b lower :=
  pfxAux_eq lower 0 b

/-! ### ConsumeString: one iteration -/

/-- The error enum of Model/Quote embeds into the decoder-side enum of Model/WireDecode. -/
def errInj : Err → Wire.Err
  | .ok => .ok
  | .invalidUTF8 => .invalidUTF8
  | .invalidChar => .invalidChar
  | .invalidEscape => .invalidEscape
  | .unexpectedEOF => .eof
  | .bug => .bug

theorem errInj_injective : ∀ a b, errInj a = errInj b → a = b := by
  intro a b; cases a <;> cases b <;> simp [errInj]

/-- observable part of a WireDecode step: (continues?, byte count, nonCanonical, error) -/
def projW : Wire.Step → Bool × Nat × Bool × Wire.Err
  | .cont k f => (true, k, f.nonCanonical, .ok)
  | .stop k f e => (false, k, f.nonCanonical, e)

def projQ : CStep → Bool × Nat × Bool × Wire.Err
  | .cont k nc => (true, k, nc, .ok)
  | .stop off e nc => (false, off, nc, errInj e)

theorem beq_toNat (c k : UInt8) : (c == k) = decide (c.toNat = k.toNat) := by
  by_cases h : c = k
  · subst h; simp
  · have : c.toNat ≠ k.toNat := fun e => h (UInt8.toNat_inj.mp e)
    simp [h, this]

theorem upper_eq (d : Bytes) : d.any (fun c => decide (0x41 ≤ c) && decide (c ≤ 0x46)) = hasUpperHex d := by
  unfold hasUpperHex
  congr 1

theorem canonFlags_eq (v1 : Nat) (d : Bytes) : (Wire.escapeCanonFlags v1 d).nonCanonical = escNonCanon v1 d := by
  simp only [Wire.escapeCanonFlags, escNonCanon, upper_eq]
  by_cases h1 : v1 = 0x08 ∨ v1 = 0x0c ∨ v1 = 0x0a ∨ v1 = 0x0d ∨ v1 = 0x09
  · have : (v1 == 0x08 || v1 == 0x0C || v1 == 0x0A || v1 == 0x0D || v1 == 0x09) = true := by
      rcases h1 with h | h | h | h | h <;> subst h <;> rfl
    simp [h1, this, Wire.ValueFlags.nc]
  · have : (v1 == 0x08 || v1 == 0x0C || v1 == 0x0A || v1 == 0x0D || v1 == 0x09) = false := by
      simp only [Bool.or_eq_false_iff, beq_eq_false_iff_ne]; omega
    simp only [this, h1, Bool.false_eq_true, ↓reduceIte]
    by_cases h2 : v1 ≥ 0x20
    · simp [h2, Wire.ValueFlags.nc]
    · simp only [h2, ↓reduceIte]
      cases hasUpperHex d <;> simp [Wire.ValueFlags.nc]

theorem join_nc (f g : Wire.ValueFlags) : (f.join g).nonCanonical = (f.nonCanonical || g.nonCanonical) := rfl

theorem csSurrogate_short (v1 : Nat) (nc : Bool) (r6 : Bytes) (h : r6.length < 6) :
    csSurrogate v1 nc r6 =
      if hasEscapedUTF16Prefix r6 true then .stop 0 .unexpectedEOF nc else .stop 0 .invalidEscape true := by
  match r6, h with
  | [], _ => rfl
  | [_], _ => rfl
  | [_, _], _ => rfl
  | [_, _, _], _ => rfl
  | [_, _, _, _], _ => rfl
  | [_, _, _, _, _], _ => rfl
  | _ :: _ :: _ :: _ :: _ :: _ :: _, h => simp at h; omega


theorem csEscapeU_short (v : Bool) (r : Bytes) (h : r.length < 6) :
    csEscapeU v r = if hasEscapedUTF16Prefix r false then .stop 0 .unexpectedEOF false else .stop 0 .invalidEscape true := by
  match r, h with
  | [], _ => rfl
  | [_], _ => rfl
  | [_, _], _ => rfl
  | [_, _, _], _ => rfl
  | [_, _, _, _], _ => rfl
  | [_, _, _, _, _], _ => rfl
  | _ :: _ :: _ :: _ :: _ :: _ :: _, h => simp at h; omega

theorem escape_eq (v : Bool) (r : Bytes) : projW (Wire.stringEscape v r) = projQ (csEscape v r) := by
  match r with
  | [] => rfl
  | [_] => rfl
  | a :: e :: r2 =>
    simp only [Wire.stringEscape, csEscape, beq_toNat]
    simp only [show (0x2F : UInt8).toNat = 0x2f from rfl, show (0x22 : UInt8).toNat = 0x22 from rfl,
      show (0x5C : UInt8).toNat = 0x5c from rfl, show (0x62 : UInt8).toNat = 0x62 from rfl,
      show (0x66 : UInt8).toNat = 0x66 from rfl, show (0x6E : UInt8).toNat = 0x6e from rfl,
      show (0x72 : UInt8).toNat = 0x72 from rfl, show (0x74 : UInt8).toNat = 0x74 from rfl,
      show (0x75 : UInt8).toNat = 0x75 from rfl]
    by_cases h1 : e.toNat = 0x2f
    · simp [h1, projW, projQ, Wire.ValueFlags.nvnc]
    · by_cases h2 : e.toNat = 0x22 ∨ e.toNat = 0x5c ∨ e.toNat = 0x62 ∨ e.toNat = 0x66 ∨ e.toNat = 0x6e ∨ e.toNat = 0x72 ∨ e.toNat = 0x74
      · have : (decide (e.toNat = 0x22) || decide (e.toNat = 0x5c) || decide (e.toNat = 0x62) || decide (e.toNat = 0x66) ||
            decide (e.toNat = 0x6e) || decide (e.toNat = 0x72) || decide (e.toNat = 0x74)) = true := by
          rcases h2 with h | h | h | h | h | h | h <;> simp [h]
        simp [h1, h2, this, projW, projQ, Wire.ValueFlags.nv]
      · have : (decide (e.toNat = 0x22) || decide (e.toNat = 0x5c) || decide (e.toNat = 0x62) || decide (e.toNat = 0x66) ||
            decide (e.toNat = 0x6e) || decide (e.toNat = 0x72) || decide (e.toNat = 0x74)) = false := by
          simp only [Bool.or_eq_false_iff, decide_eq_false_iff_not]; omega
        simp only [h1, h2, this, decide_false, Bool.false_eq_true, ↓reduceIte]
        by_cases h3 : e.toNat = 0x75
        · simp only [h3, decide_true, ↓reduceIte]
          by_cases hlt : (a :: e :: r2).length < 6
          · have hl : Wire.lenLt (a :: e :: r2) 6 = true := (JsonV.Lemmas.WireBasic.lenLt_iff _ 6).mpr hlt
            rw [csEscapeU_short v _ hlt]
            simp only [hl, ↓reduceIte, pfx_eq]
            by_cases hp : hasEscapedUTF16Prefix (a :: e :: r2) false = true
            · simp [hp, projW, projQ, errInj, Wire.ValueFlags.nv]
            · simp [hp, projW, projQ, errInj, Wire.ValueFlags.nvnc]
          · match r2, hlt with
            | [], h => simp at h
            | [_], h => simp at h
            | [_, _], h => simp at h
            | [_, _, _], h => simp at h
            | h1 :: h2 :: h3 :: h4 :: rest, _ =>
              simp only [Wire.lenLt, Bool.false_eq_true, ↓reduceIte, List.take_succ_cons, List.take_zero, parseHex_eq,
                csEscapeU, List.drop_succ_cons, List.drop_zero]
              cases hp : parseHexUint16 [h1, h2, h3, h4] with
              | none => simp [projW, projQ, errInj, Wire.ValueFlags.nvnc]
              | some v1 =>
                simp only
                have hnc : (Wire.ValueFlags.nv.join (Wire.escapeCanonFlags v1 [h1, h2, h3, h4])).nonCanonical =
                    escNonCanon v1 [h1, h2, h3, h4] := by
                  rw [join_nc, canonFlags_eq]; rfl
                by_cases hs : (v && isSurrogate v1) = true
                · simp only [hs, ↓reduceIte]
                  rw [← hnc]
                  generalize Wire.ValueFlags.nv.join (Wire.escapeCanonFlags v1 [h1, h2, h3, h4]) = f
                  by_cases hlt : rest.length < 6
                  · have hl : Wire.lenLt rest 6 = true := (JsonV.Lemmas.WireBasic.lenLt_iff rest 6).mpr hlt
                    rw [csSurrogate_short v1 _ rest hlt]
                    simp only [hl, ↓reduceIte, pfx_eq]
                    by_cases hp : hasEscapedUTF16Prefix rest true = true
                    · simp [hp, projW, projQ, errInj]
                    · simp [hp, projW, projQ, errInj, join_nc, Wire.ValueFlags.nc]
                  · match rest, hlt with
                    | [], h => simp at h
                    | [_], h => simp at h
                    | [_, _], h => simp at h
                    | [_, _, _], h => simp at h
                    | [_, _, _, _], h => simp at h
                    | [_, _, _, _, _], h => simp at h
                    | a :: b :: h1 :: h2 :: h3 :: h4 :: rest, _ =>
                      simp only [Wire.lenLt, Bool.false_eq_true, ↓reduceIte, List.take_succ_cons, List.take_zero, parseHex_eq, csSurrogate]
                      cases parseHexUint16 [h1, h2, h3, h4] with
                      | none => simp [projW, projQ, errInj, join_nc, Wire.ValueFlags.nc]
                      | some v2 =>
                        by_cases ha : a = 0x5c
                        · by_cases hb : b = 0x75
                          · subst ha hb
                            by_cases hr : utf16DecodeRune v1 v2 = runeError
                            · simp [hr, projW, projQ, errInj, join_nc, Wire.ValueFlags.nc]
                            · simp [hr, projW, projQ, errInj]
                          · simp [ha, hb, projW, projQ, errInj, join_nc, Wire.ValueFlags.nc]
                        · simp [ha, projW, projQ, errInj, join_nc, Wire.ValueFlags.nc]
                · simp [hs, projW, projQ, hnc]
        · simp [h3, projW, projQ, errInj, Wire.ValueFlags.nvnc]

theorem step_eq (v : Bool) (r : Bytes) : projW (Wire.stringStep v r) = projQ (csStep v r) := by
  match r with
  | [] => rfl
  | c :: t =>
    simp only [Wire.stringStep, csStep, noEscape_eq, beq_toNat]
    by_cases h1 : noEscape c.toNat = true
    · simp [h1, projW, projQ]
    · simp only [h1, Bool.false_eq_true, ↓reduceIte]
      by_cases h2 : c = 0x22
      · subst h2; simp [projW, projQ, errInj]
      · have h2' : ¬ c.toNat = (0x22 : UInt8).toNat := fun e => h2 (UInt8.toNat_inj.mp e)
        simp only [h2, h2', decide_false, Bool.false_eq_true, ↓reduceIte]
        by_cases h3 : (decodeRune (c :: t)).2 > 1
        · simp [h3, projW, projQ]
        · simp only [h3, ↓reduceIte]
          by_cases h4 : (decodeRune (c :: t)).1 = 0x5c
          · simp only [h4, beq_self_eq_true, ↓reduceIte]; exact escape_eq v _
          · have : ((decodeRune (c :: t)).1 == 0x5C) = false := by simpa using h4
            simp only [this, h4, Bool.false_eq_true, ↓reduceIte]
            by_cases h5 : (decodeRune (c :: t)).1 = runeError
            · simp only [h5, beq_self_eq_true, ↓reduceIte]
              cases fullRune (c :: t) <;> cases v <;> simp [projW, projQ, errInj, Wire.ValueFlags.nvnc]
            · have : ((decodeRune (c :: t)).1 == runeError) = false := by simpa using h5
              simp only [this, h5, Bool.false_eq_true, ↓reduceIte]
              by_cases h6 : (decodeRune (c :: t)).1 < 0x20
              · simp [h6, projW, projQ, errInj, Wire.ValueFlags.nvnc]
              · simp [h6, projW, projQ, errInj]

theorem projQ_cont {q : CStep} {k : Nat} {nc : Bool} {e : Wire.Err} (h : projQ q = (true, k, nc, e)) : q = .cont k nc := by
  cases q <;> simp_all [projQ]
theorem projQ_stop {q : CStep} {k : Nat} {nc : Bool} {e : Wire.Err} (h : projQ q = (false, k, nc, e)) :
    ∃ e', q = .stop k e' nc ∧ errInj e' = e := by
  cases q <;> simp_all [projQ]

/-- The fuel-driven loop of WireDecode and the well-founded loop of Model/Quote compute the same thing. -/
theorem loop_eq (v : Bool) (fuel : Nat) (r : Bytes) (hf : r.length < fuel) (n : Nat) (nc : Bool) :
    let w := Wire.stringLoop v fuel r
    let q := csLoop v r n nc
    q = (n + w.1, q.2.1, nc || w.2.1.nonCanonical) ∧ w.2.2 = errInj q.2.1 := by
  induction fuel generalizing r n nc with
  | zero => omega
  | succ fuel ih =>
    have hs := step_eq v r
    simp only [Wire.stringLoop]
    cases hw : Wire.stringStep v r with
    | stop k f e =>
      rw [hw] at hs
      obtain ⟨e', hq, he⟩ := projQ_stop hs.symm
      rw [csLoop_stop n nc hq]
      simp [he]
    | cont k f =>
      rw [hw] at hs
      have hq := projQ_cont hs.symm
      have hpos := csStep_cont_pos hq
      have hne : r.length ≠ 0 := by have := hpos.2; simpa using this
      rw [csLoop_cont n nc hq]
      have := ih (r.drop k) (by simp only [List.length_drop]; omega) (n + k) (nc || f.nonCanonical)
      simp only at this ⊢
      obtain ⟨h1, h2⟩ := this
      generalize Wire.stringLoop v fuel (List.drop k r) = w at h1 h2 ⊢
      obtain ⟨wn, wf, we⟩ := w
      simp only at h1 h2 ⊢
      refine ⟨?_, h2⟩
      rw [h1]
      simp [join_nc, Nat.add_assoc, Bool.or_assoc]

/-- GLUE (ConsumeString): the scanner of Model/Quote and the scanner of Model/WireDecode (slice C01) agree on every
input: same consumed length, same stringNonCanonical flag, same error class. -/
theorem consumeString_eq (b : Bytes) (v : Bool) :
    (Wire.consumeString b v).1 = (consumeString v b).1 ∧
    (Wire.consumeString b v).2.1.nonCanonical = (consumeString v b).2.2 ∧
    (Wire.consumeString b v).2.2 = errInj (consumeString v b).2.1 := by
  match b with
  | [] => simp [Wire.consumeString, Wire.consumeStringResumable, consumeString, errInj]
  | c :: r =>
    by_cases hc : c = 0x22
    · subst hc
      have := loop_eq v (r.length + 1) r (by omega) 1 false
      simp only [Wire.consumeString, Wire.consumeStringResumable, consumeString, Nat.lt_irrefl, ↓reduceIte, beq_self_eq_true]
      simp only at this
      obtain ⟨h1, h2⟩ := this
      generalize Wire.stringLoop v (r.length + 1) r = w at h1 h2 ⊢
      obtain ⟨wn, wf, we⟩ := w
      simp only at h1 h2 ⊢
      rw [h1]
      simp [h2]
    · simp [Wire.consumeString, Wire.consumeStringResumable, consumeString, hc, errInj]

/-! ### AppendUnquote -/

def projUW : Wire.UStep → Bool × Nat × Bytes × Option Wire.Err
  | .cont k out err => (true, k, out, err)
  | .stop out e => (false, 0, out, some e)
  | .close more => (false, 0, [], if more then some .invalidChar else none)

def projUQ : Step → Bool × Nat × Bytes × Option Wire.Err
  | .cont out k err => (true, k, out, err.map errInj)
  | .stop out err => (false, 0, out, err.map errInj)

theorem encode_runeError : encodeRune runeError = Wire.runeErrorBytes := by decide

theorem unqEscapeU_short (r : Bytes) (h : r.length < 6) :
    unqEscapeU r = if hasEscapedUTF16Prefix r false then .stop [] (some .unexpectedEOF) else .stop [] (some .invalidEscape) := by
  match r, h with
  | [], _ => rfl
  | [_], _ => rfl
  | [_, _], _ => rfl
  | [_, _, _], _ => rfl
  | [_, _, _, _], _ => rfl
  | [_, _, _, _, _], _ => rfl
  | _ :: _ :: _ :: _ :: _ :: _ :: _, h => simp at h; omega

theorem unqSurrogate_short (v1 : Nat) (r6 : Bytes) (h : r6.length < 6) :
    unqSurrogate v1 r6 =
      if hasEscapedUTF16Prefix r6 true then .stop (encodeRune runeError) (some .unexpectedEOF)
      else .cont (encodeRune runeError) 6 (some .invalidEscape) := by
  match r6, h with
  | [], _ => rfl
  | [_], _ => rfl
  | [_, _], _ => rfl
  | [_, _, _], _ => rfl
  | [_, _, _, _], _ => rfl
  | [_, _, _, _, _], _ => rfl
  | _ :: _ :: _ :: _ :: _ :: _ :: _, h => simp at h; omega

theorem uescape_eq (r : Bytes) : projUW (Wire.unquoteEscape r) = projUQ (unqEscape r) := by
  match r with
  | [] => rfl
  | [_] => rfl
  | a :: e :: r2 =>
    simp only [Wire.unquoteEscape, unqEscape, beq_toNat]
    simp only [show (0x2F : UInt8).toNat = 0x2f from rfl, show (0x22 : UInt8).toNat = 0x22 from rfl,
      show (0x5C : UInt8).toNat = 0x5c from rfl, show (0x62 : UInt8).toNat = 0x62 from rfl,
      show (0x66 : UInt8).toNat = 0x66 from rfl, show (0x6E : UInt8).toNat = 0x6e from rfl,
      show (0x72 : UInt8).toNat = 0x72 from rfl, show (0x74 : UInt8).toNat = 0x74 from rfl,
      show (0x75 : UInt8).toNat = 0x75 from rfl]
    by_cases h1 : e.toNat = 0x22 ∨ e.toNat = 0x5c ∨ e.toNat = 0x2f
    · have : (decide (e.toNat = 0x22) || decide (e.toNat = 0x5c) || decide (e.toNat = 0x2f)) = true := by
        rcases h1 with h | h | h <;> simp [h]
      simp [h1, this, projUW, projUQ]
    · have : (decide (e.toNat = 0x22) || decide (e.toNat = 0x5c) || decide (e.toNat = 0x2f)) = false := by
        simp only [Bool.or_eq_false_iff, decide_eq_false_iff_not]; omega
      simp only [h1, this, Bool.false_eq_true, ↓reduceIte]
      by_cases h62 : e.toNat = 0x62
      · simp [h62, projUW, projUQ]
      · by_cases h66 : e.toNat = 0x66
        · simp [h66, projUW, projUQ]
        · by_cases h6e : e.toNat = 0x6e
          · simp [h6e, projUW, projUQ]
          · by_cases h72 : e.toNat = 0x72
            · simp [h72, projUW, projUQ]
            · by_cases h74 : e.toNat = 0x74
              · simp [h74, projUW, projUQ]
              · simp only [h62, h66, h6e, h72, h74, decide_false, Bool.false_eq_true, ↓reduceIte]
                by_cases h3 : e.toNat = 0x75
                · simp only [h3, decide_true, ↓reduceIte]
                  by_cases hlt : (a :: e :: r2).length < 6
                  · have hl : Wire.lenLt (a :: e :: r2) 6 = true := (JsonV.Lemmas.WireBasic.lenLt_iff _ 6).mpr hlt
                    rw [unqEscapeU_short _ hlt]
                    simp only [hl, ↓reduceIte, pfx_eq]
                    by_cases hp : hasEscapedUTF16Prefix (a :: e :: r2) false = true
                    · simp [hp, projUW, projUQ, errInj]
                    · simp [hp, projUW, projUQ, errInj]
                  · match r2, hlt with
                    | [], h => simp at h
                    | [_], h => simp at h
                    | [_, _], h => simp at h
                    | [_, _, _], h => simp at h
                    | h1 :: h2 :: h3 :: h4 :: rest, _ =>
                      simp only [Wire.lenLt, Bool.false_eq_true, ↓reduceIte, List.take_succ_cons, List.take_zero, parseHex_eq,
                        unqEscapeU, List.drop_succ_cons, List.drop_zero]
                      cases hp : parseHexUint16 [h1, h2, h3, h4] with
                      | none => simp [projUW, projUQ, errInj]
                      | some v1 =>
                        simp only
                        by_cases hs : isSurrogate v1 = true
                        · simp only [hs, ↓reduceIte]
                          by_cases hlt : rest.length < 6
                          · have hl : Wire.lenLt rest 6 = true := (JsonV.Lemmas.WireBasic.lenLt_iff rest 6).mpr hlt
                            rw [unqSurrogate_short v1 rest hlt]
                            simp only [hl, ↓reduceIte, pfx_eq, encode_runeError]
                            by_cases hp : hasEscapedUTF16Prefix rest true = true
                            · simp [hp, projUW, projUQ, errInj]
                            · simp [hp, projUW, projUQ, errInj]
                          · match rest, hlt with
                            | [], h => simp at h
                            | [_], h => simp at h
                            | [_, _], h => simp at h
                            | [_, _, _], h => simp at h
                            | [_, _, _, _], h => simp at h
                            | [_, _, _, _, _], h => simp at h
                            | a' :: b' :: g1 :: g2 :: g3 :: g4 :: rest', _ =>
                              simp only [Wire.lenLt, Bool.false_eq_true, ↓reduceIte, List.take_succ_cons, List.take_zero,
                                parseHex_eq, unqSurrogate, encode_runeError]
                              cases parseHexUint16 [g1, g2, g3, g4] with
                              | none => simp [projUW, projUQ, errInj]
                              | some v2 =>
                                by_cases ha : a' = 0x5c
                                · by_cases hb : b' = 0x75
                                  · subst ha hb
                                    by_cases hr : utf16DecodeRune v1 v2 = runeError
                                    · simp [hr, projUW, projUQ, errInj]
                                    · simp [hr, projUW, projUQ]
                                  · simp [ha, hb, projUW, projUQ, errInj]
                                · simp [ha, projUW, projUQ, errInj]
                        · simp [hs, projUW, projUQ]
                · simp [h3, projUW, projUQ, errInj]

theorem ustep_eq (r : Bytes) : projUW (Wire.unquoteStep r) = projUQ (unqStep r) := by
  match r with
  | [] => rfl
  | c :: t =>
    simp only [Wire.unquoteStep, unqStep, noEscape_eq, beq_toNat]
    by_cases h1 : noEscape c.toNat = true
    · simp [h1, projUW, projUQ]
    · simp only [h1, Bool.false_eq_true, ↓reduceIte]
      by_cases h2 : c = 0x22
      · subst h2
        cases t <;> simp [projUW, projUQ, errInj]
      · have h2' : ¬ c.toNat = (0x22 : UInt8).toNat := fun e => h2 (UInt8.toNat_inj.mp e)
        simp only [h2, h2', decide_false, Bool.false_eq_true, ↓reduceIte]
        by_cases h3 : (decodeRune (c :: t)).2 > 1
        · simp [h3, projUW, projUQ]
        · simp only [h3, ↓reduceIte]
          by_cases h4 : (decodeRune (c :: t)).1 = 0x5c
          · simp only [h4, beq_self_eq_true, ↓reduceIte]; exact uescape_eq _
          · have : ((decodeRune (c :: t)).1 == 0x5C) = false := by simpa using h4
            simp only [this, h4, Bool.false_eq_true, ↓reduceIte]
            by_cases h5 : (decodeRune (c :: t)).1 = runeError
            · simp only [h5, beq_self_eq_true, ↓reduceIte]
              cases fullRune (c :: t) <;> simp [projUW, projUQ, errInj, utf8FFFD, Wire.runeErrorBytes]
            · have : ((decodeRune (c :: t)).1 == runeError) = false := by simpa using h5
              simp only [this, h5, Bool.false_eq_true, ↓reduceIte]
              by_cases h6 : (decodeRune (c :: t)).1 < 0x20
              · simp [h6, projUW, projUQ, errInj]
              · simp [h6, projUW, projUQ, errInj]

theorem getD_map (o : Option Err) (e : Err) : (o.map errInj).getD (errInj e) = errInj (o.getD e) := by
  cases o <;> rfl

theorem uloop_eq (fuel : Nat) (r : Bytes) (hf : r.length < fuel) (e : Err) :
    Wire.unquoteLoop fuel r (errInj e) = ((unqLoop r e).1, errInj (unqLoop r e).2) := by
  induction fuel generalizing r e with
  | zero => omega
  | succ fuel ih =>
    have hs := ustep_eq r
    simp only [Wire.unquoteLoop]
    cases hq : unqStep r with
    | stop o oe =>
      rw [hq] at hs
      rw [unqLoop_stop e hq]
      cases hw : Wire.unquoteStep r with
      | cont k out err => rw [hw] at hs; simp [projUW, projUQ] at hs
      | stop out we =>
        rw [hw] at hs
        simp only [projUW, projUQ, Prod.mk.injEq, true_and] at hs
        obtain ⟨h1, h2⟩ := hs
        cases oe with
        | none => simp at h2
        | some x => simp at h2; simp [h1, h2]
      | close more =>
        rw [hw] at hs
        simp only [projUW, projUQ, Prod.mk.injEq, true_and] at hs
        obtain ⟨h1, h2⟩ := hs
        subst h1
        cases more with
        | false =>
          cases oe with
          | none => rfl
          | some x => simp at h2
        | true =>
          cases oe with
          | none => simp at h2
          | some x =>
            simp only [↓reduceIte, Option.map_some, Option.some.injEq] at h2
            simp only [↓reduceIte, Option.getD_some, h2]
    | cont o k oe =>
      rw [hq] at hs
      have hpos := unqStep_cont_pos hq
      have hne : r.length ≠ 0 := by have := hpos.2; simpa using this
      rw [unqLoop_cont e hq]
      cases hw : Wire.unquoteStep r with
      | stop out we => rw [hw] at hs; simp [projUW, projUQ] at hs
      | close more => rw [hw] at hs; simp [projUW, projUQ] at hs
      | cont k' out err =>
        rw [hw] at hs
        simp only [projUW, projUQ, Prod.mk.injEq, true_and] at hs
        obtain ⟨h1, h2, h3⟩ := hs
        subst h1 h2 h3
        simp only [getD_map]
        rw [ih (r.drop k') (by simp only [List.length_drop]; omega) (oe.getD e)]

/-- GLUE (AppendUnquote): `Wire.unquote` (slice C01) and `appendUnquote` (this slice) agree on every input. -/
theorem unquote_eq (src : Bytes) : Wire.unquote src = ((appendUnquote src).1, errInj (appendUnquote src).2) := by
  match src with
  | [] => rfl
  | c :: r =>
    by_cases hc : c = 0x22
    · subst hc
      simp only [Wire.unquote, appendUnquote, beq_self_eq_true, ↓reduceIte]
      exact uloop_eq (r.length + 1) r (by omega) Err.ok
    · simp [Wire.unquote, appendUnquote, hc, errInj]

/-! ### Corollaries -/

/-- C01's `string_iff` for the C11 scanner: it accepts `n` bytes iff the first `n` bytes are a string of the grammar. -/
theorem consumeString_grammar (b : Bytes) (v : Bool) (n : Nat) :
    (∃ nc, consumeString v b = (n, Err.ok, nc)) ↔ n ≤ b.length ∧ JsonV.Spec.Grammar.JString v (b.take n) := by
  obtain ⟨h1, h2, h3⟩ := consumeString_eq b v
  constructor
  · rintro ⟨nc, h⟩
    rw [h] at h1 h3
    apply JsonV.Lemmas.WireString.consumeString_sound b v n (Wire.consumeString b v).2.1
    generalize Wire.consumeString b v = w at h1 h3
    obtain ⟨wn, wf, we⟩ := w
    simp only [errInj] at h1 h3
    rw [h1, h3]
  · rintro ⟨hn, hj⟩
    obtain ⟨f, hf⟩ := JsonV.Lemmas.WireString.consumeString_complete b v n hn hj
    rw [hf] at h1 h3
    simp only at h1 h3
    have he : (consumeString v b).2.1 = Err.ok := errInj_injective _ _ (by rw [← h3]; rfl)
    refine ⟨(consumeString v b).2.2, ?_⟩
    generalize consumeString v b = q at h1 he
    obtain ⟨qn, qe, qnc⟩ := q
    simp only at h1 he
    rw [← h1, he]

/-- C11's RFC 8259 meaning theorem for C01's `unquote`. -/
theorem wire_unquote_meaning (lit m : Bytes) (h : JsonV.Spec.StringSpec.StringLiteral lit m) :
    Wire.unquote lit = (m, Wire.Err.ok) := by
  rw [unquote_eq, JsonV.Lemmas.QuoteMeaning.appendUnquote_meaning lit m h]; rfl

end JsonV.Lemmas.GlueQuote
