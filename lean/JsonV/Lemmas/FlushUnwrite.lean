/-
C07 helper lemmas, part 2: UnwriteEmptyObjectMember / UnwriteOnlyObjectMemberName on the bytes.
-/
import JsonV.Lemmas.FlushTrim

namespace JsonV.Model.Flush
open JsonV

/-- The four encodings that UnwriteEmptyObjectMember treats as empty: `null`, `""`, `{}`, `[]`. -/
inductive EmptyText : Bytes → Prop
  | null : EmptyText [0x6e, 0x75, 0x6c, 0x6c]
  | str : EmptyText [0x22, 0x22]
  | obj : EmptyText [0x7b, 0x7d]
  | arr : EmptyText [0x5b, 0x5d]

/-- What may precede an object member inside the buffer: a comma (any earlier content), or — for the first
member — content ending in a byte that is not whitespace, not a comma and not a backslash (the `{`). -/
inductive MemberSep : Bytes → Bytes → Prop
  | comma (pre : Bytes) : MemberSep pre [0x2c]
  | first (pre' : Bytes) (o : UInt8) : isWs o = false → o ≠ 0x2c → o ≠ 0x5c → MemberSep (pre' ++ [o]) []

theorem ws_ne_of_isWs {c : UInt8} (h : isWs c = true) : c ≠ 0x5c ∧ c ≠ 0x3a ∧ c ≠ 0x2c ∧ c ≠ 0x22 := by
  simp only [isWs, Bool.or_eq_true, beq_iff_eq] at h
  rcases h with ((h | h) | h) | h <;> subst h <;> decide

theorem head?_ws_append {ws : List UInt8} (h : ∀ c ∈ ws, isWs c = true) {c0 : UInt8} (r : List UInt8)
    (hc : c0 ≠ 0x5c) : (ws ++ c0 :: r).head? ≠ some 0x5c := by
  cases ws with
  | nil => simpa using hc
  | cons a ws => simpa using (ws_ne_of_isWs (h a (by simp))).1

/-- After the value has been cut off: whitespace, colon, name, whitespace, comma are removed and exactly `pre`
remains (reversed-buffer form). -/
theorem unwrite_tail_R (ws2 name ws1 sep pre : Bytes) (h2 : WsOnly ws2) (h1 : WsOnly ws1)
    (hn : QuotesEscaped name) (hs : MemberSep pre sep) :
    trimByteR (trimWsR (trimStringR (trimByteR (trimWsR
      (ws2.reverse ++ (0x3a :: 0x22 :: (name.reverse ++ 0x22 :: (ws1.reverse ++ (sep.reverse ++ pre.reverse)))))) 0x3a))) 0x2c
      = pre.reverse := by
  have h2' : ∀ c ∈ ws2.reverse, isWs c = true := fun c hc => h2 c (List.mem_reverse.mp hc)
  have h1' : ∀ c ∈ ws1.reverse, isWs c = true := fun c hc => h1 c (List.mem_reverse.mp hc)
  have hesc : EscR name.reverse := escR_of_quotesEscaped name.reverse (by simpa using hn)
  rw [trimWsR_append h2', trimWsR_cons_of_not_ws (by decide), trimByteR_cons_self]
  cases hs with
  | comma =>
    have hp : (ws1.reverse ++ ([0x2c].reverse ++ pre.reverse)).head? ≠ some 0x5c := by
      simpa using head?_ws_append h1' pre.reverse (c0 := 0x2c) (by decide)
    rw [trimStringR_spec _ _ hesc hp, trimWsR_append h1']
    have : trimWsR (0x2c :: pre.reverse) = 0x2c :: pre.reverse := trimWsR_cons_of_not_ws (by decide) _
    simp [this]
  | first pre' o ho hoc hob =>
    have hp : (ws1.reverse ++ (([] : Bytes).reverse ++ (pre' ++ [o]).reverse)).head? ≠ some 0x5c := by
      simpa using head?_ws_append h1' pre'.reverse (c0 := o) hob
    rw [trimStringR_spec _ _ hesc hp, trimWsR_append h1']
    simp [trimWsR_cons_of_not_ws ho, trimByteR_cons_ne hoc]

/-- The byte part of UnwriteEmptyObjectMember removes exactly the member when its value is one of the four
empty encodings written without trailing whitespace. -/
theorem unwriteEmptyBytes_member (pre sep ws1 name ws2 val : Bytes) (h2 : WsOnly ws2) (h1 : WsOnly ws1)
    (hn : QuotesEscaped name) (hs : MemberSep pre sep) (hv : EmptyText val) :
    unwriteEmptyBytes (pre ++ sep ++ ws1 ++ (0x22 :: name ++ [0x22]) ++ [0x3a] ++ ws2 ++ val) = some (pre, true) := by
  have tail := unwrite_tail_R ws2 name ws1 sep pre h2 h1 hn hs
  have hz : (ws2.reverse ++ (0x3a :: 0x22 :: (name.reverse ++ 0x22 :: (ws1.reverse ++ (sep.reverse ++ pre.reverse))))).head? ≠ some 0x5c := by
    have h2' : ∀ c ∈ ws2.reverse, isWs c = true := fun c hc => h2 c (List.mem_reverse.mp hc)
    exact head?_ws_append h2' (0x22 :: (name.reverse ++ 0x22 :: (ws1.reverse ++ (sep.reverse ++ pre.reverse)))) (c0 := 0x3a) (by decide)
  generalize hT : (ws2.reverse ++ (0x3a :: 0x22 :: (name.reverse ++ 0x22 :: (ws1.reverse ++ (sep.reverse ++ pre.reverse))))) = T at tail hz
  have hrev : (pre ++ sep ++ ws1 ++ (0x22 :: name ++ [0x22]) ++ [0x3a] ++ ws2 ++ val).reverse = val.reverse ++ T := by
    rw [← hT]; simp [List.reverse_append, List.append_assoc]
  unfold unwriteEmptyBytes
  rw [hrev]
  cases hv with
  | null =>
    simp only [List.reverse_cons, List.reverse_nil, List.nil_append, List.cons_append]
    simp [unwriteEmptyR, emptyLenR, tail]
  | str =>
    cases T with
    | nil => simp at hT
    | cons z T' =>
      have hz' : z ≠ 0x5c := by simpa using hz
      simp [unwriteEmptyR, emptyLenR, hz', tail]
  | obj =>
    cases T with
    | nil => simp at hT
    | cons z T' => simp [unwriteEmptyR, emptyLenR, tail]
  | arr =>
    cases T with
    | nil => simp at hT
    | cons z T' => simp [unwriteEmptyR, emptyLenR, tail]

/-- The byte part of UnwriteOnlyObjectMemberName removes exactly whitespace and the name after the `{`. -/
theorem unwriteNameBytes_first (pre' : Bytes) (o : UInt8) (ws1 name : Bytes) (ho : isWs o = false) (hob : o ≠ 0x5c)
    (h1 : WsOnly ws1) (hn : QuotesEscaped name) :
    unwriteNameBytes (pre' ++ [o] ++ ws1 ++ (0x22 :: name ++ [0x22])) = pre' ++ [o] := by
  have h1' : ∀ c ∈ ws1.reverse, isWs c = true := fun c hc => h1 c (List.mem_reverse.mp hc)
  have hesc : EscR name.reverse := escR_of_quotesEscaped name.reverse (by simpa using hn)
  have hp : (ws1.reverse ++ o :: pre'.reverse).head? ≠ some 0x5c := head?_ws_append h1' pre'.reverse hob
  have hrev : (pre' ++ [o] ++ ws1 ++ (0x22 :: name ++ [0x22])).reverse = 0x22 :: (name.reverse ++ 0x22 :: (ws1.reverse ++ o :: pre'.reverse)) := by
    simp [List.reverse_append, List.append_assoc]
  unfold unwriteNameBytes trimSuffixWhitespace trimSuffixString
  rw [hrev, trimStringR_spec _ _ hesc hp, List.reverse_reverse, trimWsR_append h1', trimWsR_cons_of_not_ws ho]
  simp

end JsonV.Model.Flush
