/-
Lemmas for `num_resume` (C05): resuming ConsumeNumberResumable at the saved (offset, state) over an
extended buffer gives what a scan from scratch gives.  Core Lean only.
-/
import JsonV.Model.Resume

namespace JsonV.Model.Resume

/-- The caller may resume after this result: io.ErrUnexpectedEOF, or nil with the whole buffer consumed
(`err == io.ErrUnexpectedEOF || d.needMore(pos+n)` in decoderState.consumeNumber). -/
def Resumable (len : Nat) (r : NumRes) : Prop := r.2.2 = .eof ∨ (r.2.2 = .ok ∧ r.1 = len)

/-- Same offset and error class; same state whenever the state can still be used (the result is resumable). -/
def NumEquiv (len : Nat) (r1 r2 : NumRes) : Prop :=
  r1.1 = r2.1 ∧ r1.2.2 = r2.2.2 ∧ (Resumable len r1 → r1.2.1 = r2.2.1)

theorem NumEquiv.refl (len : Nat) (r : NumRes) : NumEquiv len r r := ⟨rfl, rfl, fun _ => rfl⟩

theorem NumEquiv.trans {len : Nat} {a b c : NumRes} (h1 : NumEquiv len a b) (h2 : NumEquiv len b c) :
    NumEquiv len a c := by
  obtain ⟨h11, h12, h13⟩ := h1
  obtain ⟨h21, h22, h23⟩ := h2
  refine ⟨h11.trans h21, h12.trans h22, fun hr => ?_⟩
  have hb : Resumable len b := by
    unfold Resumable at hr ⊢
    rw [← h11, ← h12]; exact hr
  exact (h13 hr).trans (h23 hb)

theorem countDigits_le (r : Bytes) : countDigits r ≤ r.length := by
  induction r with
  | nil => simp [countDigits]
  | cons c r ih => simp only [countDigits]; split <;> simp <;> omega

theorem countDigits_append_full (r e : Bytes) (h : countDigits r = r.length) :
    countDigits (r ++ e) = r.length + countDigits e := by
  induction r with
  | nil => simp
  | cons c r ih =>
    simp only [countDigits] at h
    split at h
    · rename_i hc
      simp only [List.length_cons] at h
      simp only [List.cons_append, countDigits, hc, if_true, List.length_cons]
      rw [ih (by omega)]; omega
    · simp at h

theorem countDigits_append_lt (r e : Bytes) (h : countDigits r < r.length) :
    countDigits (r ++ e) = countDigits r := by
  induction r with
  | nil => simp at h
  | cons c r ih =>
    simp only [countDigits] at h ⊢
    simp only [List.cons_append, countDigits]
    split
    · rename_i hc
      simp only [hc, if_true, List.length_cons] at h
      rw [ih (by omega)]
    · rfl

theorem drop_countDigits_append (r e : Bytes) (h : countDigits r < r.length) :
    (r ++ e).drop (countDigits r) = r.drop (countDigits r) ++ e := by
  rw [List.drop_append_of_le_length (by omega)]

theorem drop_countDigits_ne_nil (r : Bytes) (h : countDigits r < r.length) :
    ∃ c r', r.drop (countDigits r) = c :: r' := by
  cases hd : r.drop (countDigits r) with
  | nil => have := congrArg List.length hd; simp at this; omega
  | cons c r' => exact ⟨c, r', rfl⟩

/-! ### unfolding the resume prologue -/

theorem cnr_within (b : Bytes) (n st : Nat) (h : st = 2 ∨ st = 4 ∨ st = 6) :
    consumeNumberResumable b n st =
      if b.length ≤ n + countDigits (b.drop n) then (n + countDigits (b.drop n), st, .ok)
      else numDispatch b (n + countDigits (b.drop n)) (st + 1) := by
  rcases h with h | h | h <;> subst h <;> simp [consumeNumberResumable]

theorem cnr_3 (b : Bytes) (n : Nat) : consumeNumberResumable b n 3 = beforeFractional (b.drop n) n 3 := by
  simp [consumeNumberResumable, numDispatch]

theorem cnr_5 (b : Bytes) (n : Nat) : consumeNumberResumable b n 5 = beforeExponent (b.drop n) n 5 := by
  simp [consumeNumberResumable, numDispatch]

theorem cnr_1 (b : Bytes) (n : Nat) : consumeNumberResumable b n 1 = beforeInteger b n 1 := by
  simp [consumeNumberResumable, numDispatch]

theorem cnr_0 (b : Bytes) (n : Nat) : consumeNumberResumable b n 0 = beforeInteger b n 0 := by
  simp [consumeNumberResumable]


theorem beforeExponent_state (c : UInt8) (r1 : Bytes) (n st st' : Nat) :
    NumEquiv (n + r1.length + 1) (beforeExponent (c :: r1) n st) (beforeExponent (c :: r1) n st') := by
  unfold NumEquiv Resumable beforeExponent
  repeat' split
  all_goals simp
  all_goals omega

theorem length_of_drop_eq {b r : Bytes} {n : Nat} (h : b.drop n = r) (hr : r ≠ []) : b.length = n + r.length := by
  have h1 := congrArg List.length h
  simp only [List.length_drop] at h1
  have : r.length > 0 := List.length_pos_iff.mpr hr
  omega

theorem drop_add_of_drop_eq {b r : Bytes} {n : Nat} (h : b.drop n = r) (k : Nat) : b.drop (n + k) = r.drop k := by
  rw [← h, List.drop_drop]

theorem drop_prefix_len (p e : Bytes) (k : Nat) (hk : k = p.length) : (p ++ e).drop k = e := by
  subst hk; exact List.drop_left

/-- resuming inside a run of digits whose remaining input is `e` -/
theorem cnr_within_tail (b e : Bytes) (m st : Nat) (hst : st = 2 ∨ st = 4 ∨ st = 6)
    (hd : b.drop m = e) (hlen : b.length = m + e.length) :
    consumeNumberResumable b m st =
      if countDigits e = e.length then (m + countDigits e, st, .ok)
      else numDispatch b (m + countDigits e) (st + 1) := by
  rw [cnr_within b m st hst, hd]
  have := countDigits_le e
  by_cases h : countDigits e = e.length
  · simp [h, hlen]
  · have h2 : ¬ (b.length ≤ m + countDigits e) := by omega
    simp [h, h2]

/-- after a complete exponent whose digits reach the end of the old buffer -/
theorem exp_digits_tail (b e : Bytes) (m : Nat) (hd : b.drop m = e) (hlen : b.length = m + e.length) :
    NumEquiv b.length (consumeNumberResumable b m 6) (m + countDigits e, 6, .ok) := by
  rw [cnr_within_tail b e m 6 (by simp) hd hlen]
  have := countDigits_le e
  split
  · exact NumEquiv.refl _ _
  · refine ⟨?_, ?_, ?_⟩ <;> simp [numDispatch, Resumable]
    omega

theorem beforeExponent_ext (c : UInt8) (r1 e b : Bytes) (n st : Nat)
    (hb : b.drop n = c :: (r1 ++ e))
    (hres : Resumable (n + r1.length + 1) (beforeExponent (c :: r1) n st)) :
    NumEquiv b.length
      (consumeNumberResumable b (beforeExponent (c :: r1) n st).1 (beforeExponent (c :: r1) n st).2.1)
      (beforeExponent (c :: (r1 ++ e)) n st) := by
  have hlen : b.length = n + (r1.length + e.length + 1) := by
    have := length_of_drop_eq hb (by simp); simp at this; omega
  by_cases hc : (c == 0x65 || c == 0x45) = true
  · cases r1 with
    | nil =>
      have h5 : beforeExponent [c] n st = (n, 5, .eof) := by simp [beforeExponent, hc]
      rw [h5]; simp only
      rw [cnr_5, hb]
      have h := beforeExponent_state c e n 5 st
      have hl : b.length = n + e.length + 1 := by simp [hlen]; omega
      simp only [List.nil_append]
      rw [hl]; exact h
    | cons s r2 =>
      by_cases hs : (s == 0x2D || s == 0x2B) = true
      · cases r2 with
        | nil =>
          have h5 : beforeExponent [c, s] n st = (n, 5, .eof) := by simp [beforeExponent, hc, hs]
          rw [h5]; simp only
          rw [cnr_5, hb]
          have h := beforeExponent_state c (s :: e) n 5 st
          have hl : b.length = n + (s :: e).length + 1 := by simp [hlen]; omega
          simp only [List.cons_append, List.nil_append]
          rw [hl]; exact h
        | cons d r3 =>
          by_cases hd : isDigit d = true
          · have h6 : beforeExponent (c :: s :: d :: r3) n st = (n + 3 + countDigits r3, 6, .ok) := by
              simp [beforeExponent, hc, hs, hd]
            rw [h6] at hres ⊢; simp only
            have hfull : countDigits r3 = r3.length := by
              rcases hres with h | ⟨_, h⟩
              · simp at h
              · simp at h; omega
            have hR : beforeExponent (c :: (s :: d :: r3 ++ e)) n st = (n + 3 + countDigits (r3 ++ e), 6, .ok) := by
              simp [beforeExponent, hc, hs, hd]
            rw [hR, countDigits_append_full r3 e hfull, hfull]
            have hdrop : b.drop (n + 3 + r3.length) = e := by
              rw [Nat.add_assoc, drop_add_of_drop_eq hb]
              exact drop_prefix_len (c :: s :: d :: r3) e _ (by simp; omega)
            have := exp_digits_tail b e (n + 3 + r3.length) hdrop (by simp [hlen]; omega)
            simpa [Nat.add_assoc] using this
          · have h6 : beforeExponent (c :: s :: d :: r3) n st = (n + 2, st, .invalidChar) := by
              simp [beforeExponent, hc, hs, hd]
            rw [h6] at hres
            rcases hres with h | ⟨h, _⟩ <;> simp at h
      · by_cases hd : isDigit s = true
        · have h6 : beforeExponent (c :: s :: r2) n st = (n + 2 + countDigits r2, 6, .ok) := by
            simp [beforeExponent, hc, hs, hd]
          rw [h6] at hres ⊢; simp only
          have hfull : countDigits r2 = r2.length := by
            rcases hres with h | ⟨_, h⟩
            · simp at h
            · simp at h; omega
          have hR : beforeExponent (c :: (s :: r2 ++ e)) n st = (n + 2 + countDigits (r2 ++ e), 6, .ok) := by
            simp [beforeExponent, hc, hs, hd]
          rw [hR, countDigits_append_full r2 e hfull, hfull]
          have hdrop : b.drop (n + 2 + r2.length) = e := by
            rw [Nat.add_assoc, drop_add_of_drop_eq hb]
            exact drop_prefix_len (c :: s :: r2) e _ (by simp; omega)
          have := exp_digits_tail b e (n + 2 + r2.length) hdrop (by simp [hlen]; omega)
          simpa [Nat.add_assoc] using this
        · have h6 : beforeExponent (c :: s :: r2) n st = (n + 1, st, .invalidChar) := by
            simp [beforeExponent, hc, hs, hd]
          rw [h6] at hres
          rcases hres with h | ⟨h, _⟩ <;> simp at h
  · have h0 : beforeExponent (c :: r1) n st = (n, st, .ok) := by simp [beforeExponent, hc]
    rw [h0] at hres
    rcases hres with h | ⟨_, h⟩
    · simp at h
    · simp at h; omega


theorem beforeExponent_nil (n st : Nat) : beforeExponent [] n st = (n, st, .ok) := rfl
theorem beforeFractional_nil (n st : Nat) : beforeFractional [] n st = (n, st, .ok) := rfl

theorem beforeFractional_state (c : UInt8) (r1 : Bytes) (n st st' : Nat) :
    NumEquiv (n + r1.length + 1) (beforeFractional (c :: r1) n st) (beforeFractional (c :: r1) n st') := by
  by_cases hc : (c == 0x2E) = true
  · cases r1 with
    | nil => simp [beforeFractional, hc]; exact NumEquiv.refl _ _
    | cons d r2 =>
      by_cases hd : isDigit d = true
      · simp [beforeFractional, hc, hd]; exact NumEquiv.refl _ _
      · simp [beforeFractional, hc, hd]
        refine ⟨rfl, rfl, ?_⟩
        intro h; rcases h with h | ⟨h, _⟩ <;> simp at h
  · have h1 : ∀ s, beforeFractional (c :: r1) n s = beforeExponent (c :: r1) n s := by
      intro s; simp [beforeFractional, hc]
    rw [h1, h1]; exact beforeExponent_state c r1 n st st'

/-- after a complete fraction whose digits reach the end of the old buffer -/
theorem frac_digits_tail (b e : Bytes) (m : Nat) (hd : b.drop m = e) (hlen : b.length = m + e.length) :
    NumEquiv b.length (consumeNumberResumable b m 4)
      (beforeExponent (e.drop (countDigits e)) (m + countDigits e) 4) := by
  rw [cnr_within_tail b e m 4 (by simp) hd hlen]
  have hle := countDigits_le e
  split
  · rename_i h
    have : e.drop (countDigits e) = [] := by rw [h]; simp
    rw [this, beforeExponent_nil]; exact NumEquiv.refl _ _
  · rename_i h
    obtain ⟨c', r', hcr⟩ := drop_countDigits_ne_nil e (by omega)
    have hdrop : b.drop (m + countDigits e) = c' :: r' := by rw [drop_add_of_drop_eq hd, hcr]
    have hl : b.length = (m + countDigits e) + r'.length + 1 := by
      have := length_of_drop_eq hdrop (by simp); simp at this; omega
    simp only [numDispatch]
    simp only [show ((4 : Nat) + 1 == 1) = false from rfl, show ((4 : Nat) + 1 == 3) = false from rfl,
      show ((4 : Nat) + 1 == 5) = true from rfl, if_true, Bool.false_eq_true, if_false]
    rw [hdrop, hcr, hl]
    exact beforeExponent_state c' r' (m + countDigits e) 5 4

theorem beforeFractional_ext (c : UInt8) (r1 e b : Bytes) (n st : Nat)
    (hb : b.drop n = c :: (r1 ++ e))
    (hres : Resumable (n + r1.length + 1) (beforeFractional (c :: r1) n st)) :
    NumEquiv b.length
      (consumeNumberResumable b (beforeFractional (c :: r1) n st).1 (beforeFractional (c :: r1) n st).2.1)
      (beforeFractional (c :: (r1 ++ e)) n st) := by
  have hlen : b.length = n + (r1.length + e.length + 1) := by
    have := length_of_drop_eq hb (by simp); simp at this; omega
  by_cases hc : (c == 0x2E) = true
  · cases r1 with
    | nil =>
      have h3 : beforeFractional [c] n st = (n, 3, .eof) := by simp [beforeFractional, hc]
      rw [h3]; simp only
      rw [cnr_3, hb]
      have h := beforeFractional_state c e n 3 st
      have hl : b.length = n + e.length + 1 := by simp [hlen]; omega
      simp only [List.nil_append]
      rw [hl]; exact h
    | cons d r2 =>
      by_cases hd : isDigit d = true
      · have hL : beforeFractional (c :: d :: r2) n st =
            beforeExponent (r2.drop (countDigits r2)) (n + 2 + countDigits r2) 4 := by
          simp [beforeFractional, hc, hd]
        have hR : beforeFractional (c :: (d :: r2 ++ e)) n st =
            beforeExponent ((r2 ++ e).drop (countDigits (r2 ++ e))) (n + 2 + countDigits (r2 ++ e)) 4 := by
          simp [beforeFractional, hc, hd]
        rw [hL] at hres ⊢; rw [hR]
        have hle := countDigits_le r2
        by_cases hfull : countDigits r2 = r2.length
        · have hnil : r2.drop (countDigits r2) = [] := by rw [hfull]; simp
          rw [hnil, beforeExponent_nil]; simp only
          rw [countDigits_append_full r2 e hfull, hfull]
          have hdrop : b.drop (n + 2 + r2.length) = e := by
            rw [Nat.add_assoc, drop_add_of_drop_eq hb]
            exact drop_prefix_len (c :: d :: r2) e _ (by simp; omega)
          have h := frac_digits_tail b e (n + 2 + r2.length) hdrop (by simp [hlen]; omega)
          have hdd : (r2 ++ e).drop (r2.length + countDigits e) = e.drop (countDigits e) := by
            rw [← List.drop_drop]; simp
          rw [hdd]
          simpa [Nat.add_assoc] using h
        · have hlt : countDigits r2 < r2.length := by omega
          obtain ⟨c', r', hcr⟩ := drop_countDigits_ne_nil r2 hlt
          have hr2len : r2.length = countDigits r2 + r'.length + 1 := by
            have := congrArg List.length hcr; simp at this; omega
          rw [hcr] at hres ⊢
          rw [countDigits_append_lt r2 e hlt, drop_countDigits_append r2 e hlt, hcr]
          have hb' : b.drop (n + 2 + countDigits r2) = c' :: (r' ++ e) := by
            rw [Nat.add_assoc, drop_add_of_drop_eq hb]
            have : c :: (d :: r2 ++ e) = c :: d :: (r2 ++ e) := by simp
            rw [this, show 2 + countDigits r2 = countDigits r2 + 1 + 1 by omega, List.drop_succ_cons, List.drop_succ_cons,
              drop_countDigits_append r2 e hlt, hcr]; simp
          have hres' : Resumable (n + 2 + countDigits r2 + r'.length + 1) (beforeExponent (c' :: r') (n + 2 + countDigits r2) 4) := by
            have : n + (d :: r2).length + 1 = n + 2 + countDigits r2 + r'.length + 1 := by simp; omega
            rw [← this]; exact hres
          exact beforeExponent_ext c' r' e b (n + 2 + countDigits r2) 4 hb' hres'
      · have h6 : beforeFractional (c :: d :: r2) n st = (n + 1, st, .invalidChar) := by
          simp [beforeFractional, hc, hd]
        rw [h6] at hres
        rcases hres with h | ⟨h, _⟩ <;> simp at h
  · have h1 : ∀ r, beforeFractional (c :: r) n st = beforeExponent (c :: r) n st := by
      intro r; simp [beforeFractional, hc]
    rw [h1] at hres ⊢; rw [h1]
    exact beforeExponent_ext c r1 e b n st hb hres


theorem integerBody_state (r : Bytes) (n n1 st st' : Nat) (len : Nat) :
    NumEquiv len (integerBody r n n1 st) (integerBody r n n1 st') := by
  cases r with
  | nil => exact NumEquiv.refl _ _
  | cons c r1 =>
    by_cases h0 : (c == 0x30) = true
    · simp [integerBody, h0]; exact NumEquiv.refl _ _
    · by_cases h1 : (0x31 ≤ c && c ≤ 0x39) = true
      · have : ∀ s, integerBody (c :: r1) n n1 s =
            beforeFractional (r1.drop (countDigits r1)) (n1 + 1 + countDigits r1) 2 := by
          intro s; simp only [integerBody, h0, h1]; simp
        rw [this, this]; exact NumEquiv.refl _ _
      · have : ∀ s, integerBody (c :: r1) n n1 s = (n1, s, .invalidChar) := by
          intro s; simp only [integerBody, h0, h1]; simp
        rw [this, this]
        refine ⟨rfl, rfl, ?_⟩
        intro h; rcases h with h | ⟨h, _⟩ <;> simp at h

theorem beforeInteger_state (b : Bytes) (n st st' : Nat) (len : Nat) :
    NumEquiv len (beforeInteger b n st) (beforeInteger b n st') := by
  unfold beforeInteger
  exact integerBody_state _ _ _ _ _ _

/-- after integer digits that reach the end of the old buffer -/
theorem int_digits_tail (b e : Bytes) (m : Nat) (hd : b.drop m = e) (hlen : b.length = m + e.length) :
    NumEquiv b.length (consumeNumberResumable b m 2)
      (beforeFractional (e.drop (countDigits e)) (m + countDigits e) 2) := by
  rw [cnr_within_tail b e m 2 (by simp) hd hlen]
  have hle := countDigits_le e
  split
  · rename_i h
    have : e.drop (countDigits e) = [] := by rw [h]; simp
    rw [this, beforeFractional_nil]; exact NumEquiv.refl _ _
  · rename_i h
    obtain ⟨c', r', hcr⟩ := drop_countDigits_ne_nil e (by omega)
    have hdrop : b.drop (m + countDigits e) = c' :: r' := by rw [drop_add_of_drop_eq hd, hcr]
    have hl : b.length = (m + countDigits e) + r'.length + 1 := by
      have := length_of_drop_eq hdrop (by simp); simp at this; omega
    simp only [numDispatch]
    simp only [show ((2 : Nat) + 1 == 1) = false from rfl, show ((2 : Nat) + 1 == 3) = true from rfl,
      if_true, Bool.false_eq_true, if_false]
    rw [hdrop, hcr, hl]
    exact beforeFractional_state c' r' (m + countDigits e) 3 2

theorem integerBody_ext (c : UInt8) (r1 e b : Bytes) (n1 : Nat)
    (hb : b.drop n1 = c :: (r1 ++ e))
    (hres : Resumable (n1 + r1.length + 1) (integerBody (c :: r1) 0 n1 0)) :
    NumEquiv b.length
      (consumeNumberResumable b (integerBody (c :: r1) 0 n1 0).1 (integerBody (c :: r1) 0 n1 0).2.1)
      (integerBody (c :: (r1 ++ e)) 0 n1 0) := by
  have hlen : b.length = n1 + (r1.length + e.length + 1) := by
    have := length_of_drop_eq hb (by simp); simp at this; omega
  by_cases h0 : (c == 0x30) = true
  · have hL : ∀ r, integerBody (c :: r) 0 n1 0 = beforeFractional r (n1 + 1) 3 := by
      intro r; simp [integerBody, h0]
    rw [hL] at hres ⊢; rw [hL]
    have hb1 : b.drop (n1 + 1) = r1 ++ e := by rw [drop_add_of_drop_eq hb]; simp
    cases r1 with
    | nil =>
      rw [beforeFractional_nil]; simp only
      rw [cnr_3, hb1]; exact NumEquiv.refl _ _
    | cons c' r' =>
      have hres' : Resumable (n1 + 1 + r'.length + 1) (beforeFractional (c' :: r') (n1 + 1) 3) := by
        have : n1 + (c' :: r').length + 1 = n1 + 1 + r'.length + 1 := by simp; omega
        rw [← this]; exact hres
      exact beforeFractional_ext c' r' e b (n1 + 1) 3 (by simpa using hb1) hres'
  · by_cases h1 : (0x31 ≤ c && c ≤ 0x39) = true
    · have hL : ∀ r, integerBody (c :: r) 0 n1 0 =
          beforeFractional (r.drop (countDigits r)) (n1 + 1 + countDigits r) 2 := by
        intro r; simp only [integerBody, h0, h1]; simp
      rw [hL] at hres ⊢; rw [hL]
      have hle := countDigits_le r1
      have hb1 : b.drop (n1 + 1) = r1 ++ e := by rw [drop_add_of_drop_eq hb]; simp
      by_cases hfull : countDigits r1 = r1.length
      · have hnil : r1.drop (countDigits r1) = [] := by rw [hfull]; simp
        rw [hnil, beforeFractional_nil]; simp only
        rw [countDigits_append_full r1 e hfull, hfull]
        have hdrop : b.drop (n1 + 1 + r1.length) = e := by
          rw [drop_add_of_drop_eq hb1]; simp
        have h := int_digits_tail b e (n1 + 1 + r1.length) hdrop (by simp [hlen]; omega)
        have hdd : (r1 ++ e).drop (r1.length + countDigits e) = e.drop (countDigits e) := by
          rw [← List.drop_drop]; simp
        rw [hdd]
        simpa [Nat.add_assoc] using h
      · have hlt : countDigits r1 < r1.length := by omega
        obtain ⟨c', r', hcr⟩ := drop_countDigits_ne_nil r1 hlt
        have hr1len : r1.length = countDigits r1 + r'.length + 1 := by
          have := congrArg List.length hcr; simp at this; omega
        rw [hcr] at hres ⊢
        rw [countDigits_append_lt r1 e hlt, drop_countDigits_append r1 e hlt, hcr]
        have hb' : b.drop (n1 + 1 + countDigits r1) = c' :: (r' ++ e) := by
          rw [drop_add_of_drop_eq hb1, drop_countDigits_append r1 e hlt, hcr]; simp
        have hres' : Resumable (n1 + 1 + countDigits r1 + r'.length + 1)
            (beforeFractional (c' :: r') (n1 + 1 + countDigits r1) 2) := by
          have : n1 + r1.length + 1 = n1 + 1 + countDigits r1 + r'.length + 1 := by omega
          rw [← this]; exact hres
        exact beforeFractional_ext c' r' e b (n1 + 1 + countDigits r1) 2 hb' hres'
    · have h6 : integerBody (c :: r1) 0 n1 0 = (n1, 0, .invalidChar) := by
        simp only [integerBody, h0, h1]; simp
      rw [h6] at hres
      rcases hres with h | ⟨h, _⟩ <;> simp at h

/-- `num_resume`: if a scan from scratch of `b` stops where the decoder refills (io.ErrUnexpectedEOF, or nil at
the very end of the buffer), then resuming at the returned (offset, state) over ANY extension `b ++ e` is
equivalent to scanning `b ++ e` from scratch. -/
theorem num_resume_equiv (b e : Bytes)
    (hres : Resumable b.length (consumeNumberResumable b 0 0)) :
    NumEquiv (b ++ e).length
      (consumeNumberResumable (b ++ e) (consumeNumberResumable b 0 0).1 (consumeNumberResumable b 0 0).2.1)
      (consumeNumberResumable (b ++ e) 0 0) := by
  rw [cnr_0, cnr_0] at *
  cases b with
  | nil =>
    have : beforeInteger [] 0 0 = (0, 1, .eof) := by simp [beforeInteger, integerBody]
    rw [this]; simp only
    rw [cnr_1]
    exact beforeInteger_state _ 0 1 0 _
  | cons c0 b1 =>
    by_cases hm : (c0 == 0x2D) = true
    · have hL : ∀ t, beforeInteger (c0 :: t) 0 0 = integerBody t 0 1 0 := by
        intro t; simp [beforeInteger, hm]
      rw [List.cons_append, hL, hL] at *
      cases b1 with
      | nil =>
        have : integerBody [] 0 1 0 = (0, 1, .eof) := rfl
        rw [this]; simp only
        rw [cnr_1]
        have := beforeInteger_state (c0 :: ([] ++ e)) 0 1 0 (c0 :: ([] ++ e)).length
        rw [hL] at this
        exact this
      | cons c r1 =>
        have hb : (c0 :: (c :: r1 ++ e)).drop 1 = c :: (r1 ++ e) := by simp
        have hres' : Resumable (1 + r1.length + 1) (integerBody (c :: r1) 0 1 0) := by
          have : (c0 :: c :: r1).length = 1 + r1.length + 1 := by simp; omega
          rw [← this]; exact hres
        exact integerBody_ext c r1 e (c0 :: (c :: r1 ++ e)) 1 hb hres'
    · have hL : ∀ t, beforeInteger (c0 :: t) 0 0 = integerBody (c0 :: t) 0 0 0 := by
        intro t; simp [beforeInteger, hm]
      rw [List.cons_append, hL, hL] at *
      have hb : (c0 :: (b1 ++ e)).drop 0 = c0 :: (b1 ++ e) := by simp
      have hres' : Resumable (0 + b1.length + 1) (integerBody (c0 :: b1) 0 0 0) := by
        have : (c0 :: b1).length = 0 + b1.length + 1 := by simp
        rw [← this]; exact hres
      exact integerBody_ext c0 b1 e (c0 :: (b1 ++ e)) 0 hb hres'

end JsonV.Model.Resume
