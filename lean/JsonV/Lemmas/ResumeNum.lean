/-
Lemmas for `num_resume` (C05): resuming ConsumeNumberResumable at the saved (offset, state) over an
extended buffer gives what a scan from scratch gives.  Core Lean only.
-/
import JsonV.Model.Resume

namespace JsonV.Model.Resume

/-- The caller may resume after this result: io.ErrUnexpectedEOF, or nil with the whole buffer consumed
(`err == io.ErrUnexpectedEOF || d.needMore(pos+n)` in decoderState.consumeNumber). -/
def Resumable (len : Nat) (r : NumRes) : Prop := r.2.2 = .eof ∨ (r.2.2 = .ok ∧ r.1 = len)

/-- Same offset and error class; same state whenever the state can still be used (the result is resumable). -/
def NumEquiv (len : Nat) (r1 r2 : NumRes) : Prop :=
  r1.1 = r2.1 ∧ r1.2.2 = r2.2.2 ∧ (Resumable len r1 → r1.2.1 = r2.2.1)

theorem NumEquiv.refl (len : Nat) (r : NumRes) : NumEquiv len r r := ⟨rfl, rfl, fun _ => rfl⟩

theorem NumEquiv.trans {len : Nat} {a b c : NumRes} (h1 : NumEquiv len a b) (h2 : NumEquiv len b c) :
    NumEquiv len a c := by
  obtain ⟨h11, h12, h13⟩ := h1
  obtain ⟨h21, h22, h23⟩ := h2
  refine ⟨h11.trans h21, h12.trans h22, fun hr => ?_⟩
  have hb : Resumable len b := by
    unfold Resumable at hr ⊢
    rw [← h11, ← h12]; exact hr
  exact (h13 hr).trans (h23 hb)

theorem countDigits_le (r : Bytes) : countDigits r ≤ r.length := by
  induction r with
  | nil => simp [countDigits]
  | cons c r ih => simp only [countDigits]; split <;> simp <;> omega

theorem countDigits_append_full (r e : Bytes) (h : countDigits r = r.length) :
    countDigits (r ++ e) = r.length + countDigits e := by
  induction r with
  | nil => simp
  | cons c r ih =>
    simp only [countDigits] at h
    split at h
    · rename_i hc
      simp only [List.length_cons] at h
      simp only [List.cons_append, countDigits, hc, if_true, List.length_cons]
      rw [ih (by omega)]; omega
    · simp at h

theorem countDigits_append_lt (r e : Bytes) (h : countDigits r < r.length) :
    countDigits (r ++ e) = countDigits r := by
  induction r with
  | nil => simp at h
  | cons c r ih =>
    simp only [countDigits] at h ⊢
    simp only [List.cons_append, countDigits]
    split
    · rename_i hc
      simp only [hc, if_true, List.length_cons] at h
      rw [ih (by omega)]
    · rfl

theorem drop_countDigits_append (r e : Bytes) (h : countDigits r < r.length) :
    (r ++ e).drop (countDigits r) = r.drop (countDigits r) ++ e := by
  rw [List.drop_append_of_le_length (by omega)]

theorem drop_countDigits_ne_nil (r : Bytes) (h : countDigits r < r.length) :
    ∃ c r', r.drop (countDigits r) = c :: r' := by
  cases hd : r.drop (countDigits r) with
  | nil => have := congrArg List.length hd; simp at this; omega
  | cons c r' => exact ⟨c, r', rfl⟩

/-! ### unfolding the resume prologue -/

theorem cnr_within (b : Bytes) (n st : Nat) (h : st = 2 ∨ st = 4 ∨ st = 6) :
    consumeNumberResumable b n st =
      if b.length ≤ n + countDigits (b.drop n) then (n + countDigits (b.drop n), st, .ok)
      else numDispatch b (n + countDigits (b.drop n)) (st + 1) := by
  rcases h with h | h | h <;> subst h <;> simp [consumeNumberResumable]

theorem cnr_3 (b : Bytes) (n : Nat) : consumeNumberResumable b n 3 = beforeFractional (b.drop n) n 3 := by
  simp [consumeNumberResumable, numDispatch]

theorem cnr_5 (b : Bytes) (n : Nat) : consumeNumberResumable b n 5 = beforeExponent (b.drop n) n 5 := by
  simp [consumeNumberResumable, numDispatch]

theorem cnr_1 (b : Bytes) (n : Nat) : consumeNumberResumable b n 1 = beforeInteger b n 1 := by
  simp [consumeNumberResumable, numDispatch]

theorem cnr_0 (b : Bytes) (n : Nat) : consumeNumberResumable b n 0 = beforeInteger b n 0 := by
  simp [consumeNumberResumable]


theorem beforeExponent_state (c : UInt8) (r1 : Bytes) (n st st' : Nat) :
    NumEquiv (n + r1.length + 1) (beforeExponent (c :: r1) n st) (beforeExponent (c :: r1) n st') := by
  unfold NumEquiv Resumable beforeExponent
  repeat' split
  all_goals simp
  all_goals omega

theorem length_of_drop_eq {b r : Bytes} {n : Nat} (h : b.drop n = r) (hr : r ≠ []) : b.length = n + r.length := by
  have h1 := congrArg List.length h
  simp only [List.length_drop] at h1
  have : r.length > 0 := List.length_pos_iff.mpr hr
  omega

theorem drop_add_of_drop_eq {b r : Bytes} {n : Nat} (h : b.drop n = r) (k : Nat) : b.drop (n + k) = r.drop k := by
  rw [← h, List.drop_drop]

theorem drop_prefix_len (p e : Bytes) (k : Nat) (hk : k = p.length) : (p ++ e).drop k = e := by
  subst hk; exact List.drop_left

/-- resuming inside a run of digits whose remaining input is `e` -/
theorem cnr_within_tail (b e : Bytes) (m st : Nat) (hst : st = 2 ∨ st = 4 ∨ st = 6)
    (hd : b.drop m = e) (hlen : b.length = m + e.length) :
    consumeNumberResumable b m st =
      if countDigits e = e.length then (m + countDigits e, st, .ok)
      else numDispatch b (m + countDigits e) (st + 1) := by
  rw [cnr_within b m st hst, hd]
  have := countDigits_le e
  by_cases h : countDigits e = e.length
  · simp [h, hlen]
  · have h2 : ¬ (b.length ≤ m + countDigits e) := by omega
    simp [h, h2]

/-- after a complete exponent whose digits reach the end of the old buffer -/
theorem exp_digits_tail (b e : Bytes) (m : Nat) (hd : b.drop m = e) (hlen : b.length = m + e.length) :
    NumEquiv b.length (consumeNumberResumable b m 6) (m + countDigits e, 6, .ok) := by
  rw [cnr_within_tail b e m 6 (by simp) hd hlen]
  have := countDigits_le e
  split
  · exact NumEquiv.refl _ _
  · refine ⟨?_, ?_, ?_⟩ <;> simp [numDispatch, Resumable]
    omega

theorem beforeExponent_ext (c : UInt8) (r1 e b : Bytes) (n st : Nat)
    (hb : b.drop n = c :: (r1 ++ e))
    (hres : Resumable (n + r1.length + 1) (beforeExponent (c :: r1) n st)) :
    NumEquiv b.length
      (consumeNumberResumable b (beforeExponent (c :: r1) n st).1 (beforeExponent (c :: r1) n st).2.1)
      (beforeExponent (c :: (r1 ++ e)) n st) := by
  have hlen : b.length = n + (r1.length + e.length + 1) := by
    have := length_of_drop_eq hb (by simp); simp at this; omega
  by_cases hc : (c == 0x65 || c == 0x45) = true
  · cases r1 with
    | nil =>
      have h5 : beforeExponent [c] n st = (n, 5, .eof) := by simp [beforeExponent, hc]
      rw [h5]; simp only
      rw [cnr_5, hb]
      have h := beforeExponent_state c e n 5 st
      have hl : b.length = n + e.length + 1 := by simp [hlen]; omega
      simp only [List.nil_append]
      rw [hl]; exact h
    | cons s r2 =>
      by_cases hs : (s == 0x2D || s == 0x2B) = true
      · cases r2 with
        | nil =>
          have h5 : beforeExponent [c, s] n st = (n, 5, .eof) := by simp [beforeExponent, hc, hs]
          rw [h5]; simp only
          rw [cnr_5, hb]
          have h := beforeExponent_state c (s :: e) n 5 st
          have hl : b.length = n + (s :: e).length + 1 := by simp [hlen]; omega
          simp only [List.cons_append, List.nil_append]
          rw [hl]; exact h
        | cons d r3 =>
          by_cases hd : isDigit d = true
          · have h6 : beforeExponent (c :: s :: d :: r3) n st = (n + 3 + countDigits r3, 6, .ok) := by
              simp [beforeExponent, hc, hs, hd]
            rw [h6] at hres ⊢; simp only
            have hfull : countDigits r3 = r3.length := by
              rcases hres with h | ⟨_, h⟩
              · simp at h
              · simp at h; omega
            have hR : beforeExponent (c :: (s :: d :: r3 ++ e)) n st = (n + 3 + countDigits (r3 ++ e), 6, .ok) := by
              simp [beforeExponent, hc, hs, hd]
            rw [hR, countDigits_append_full r3 e hfull, hfull]
            have hdrop : b.drop (n + 3 + r3.length) = e := by
              rw [Nat.add_assoc, drop_add_of_drop_eq hb]
              exact drop_prefix_len (c :: s :: d :: r3) e _ (by simp; omega)
            have := exp_digits_tail b e (n + 3 + r3.length) hdrop (by simp [hlen]; omega)
            simpa [Nat.add_assoc] using this
          · have h6 : beforeExponent (c :: s :: d :: r3) n st = (n + 2, st, .invalidChar) := by
              simp [beforeExponent, hc, hs, hd]
            rw [h6] at hres
            rcases hres with h | ⟨h, _⟩ <;> simp at h
      · by_cases hd : isDigit s = true
        · have h6 : beforeExponent (c :: s :: r2) n st = (n + 2 + countDigits r2, 6, .ok) := by
            simp [beforeExponent, hc, hs, hd]
          rw [h6] at hres ⊢; simp only
          have hfull : countDigits r2 = r2.length := by
            rcases hres with h | ⟨_, h⟩
            · simp at h
            · simp at h; omega
          have hR : beforeExponent (c :: (s :: r2 ++ e)) n st = (n + 2 + countDigits (r2 ++ e), 6, .ok) := by
            simp [beforeExponent, hc, hs, hd]
          rw [hR, countDigits_append_full r2 e hfull, hfull]
          have hdrop : b.drop (n + 2 + r2.length) = e := by
            rw [Nat.add_assoc, drop_add_of_drop_eq hb]
            exact drop_prefix_len (c :: s :: r2) e _ (by simp; omega)
          have := exp_digits_tail b e (n + 2 + r2.length) hdrop (by simp [hlen]; omega)
          simpa [Nat.add_assoc] using this
        · have h6 : beforeExponent (c :: s :: r2) n st = (n + 1, st, .invalidChar) := by
            simp [beforeExponent, hc, hs, hd]
          rw [h6] at hres
          rcases hres with h | ⟨h, _⟩ <;> simp at h
  · have h0 : beforeExponent (c :: r1) n st = (n, st, .ok) := by simp [beforeExponent, hc]
    rw [h0] at hres
    rcases hres with h | ⟨_, h⟩
    · simp at h
    · simp at h; omega


theorem beforeExponent_nil (n st : Nat) : beforeExponent [] n st = (n, st, .ok) := rfl
theorem beforeFractional_nil (n st : Nat) : beforeFractional [] n st = (n, st, .ok) := rfl

theorem beforeFractional_state (c : UInt8) (r1 : Bytes) (n st st' : Nat) :
    NumEquiv (n + r1.length + 1) (beforeFractional (c :: r1) n st) (beforeFractional (c :: r1) n st') := by
  by_cases hc : (c == 0x2E) = true
  · cases r1 with
    | nil => simp [beforeFractional, hc]; exact NumEquiv.refl _ _
    | cons d r2 =>
      by_cases hd : isDigit d = true
      · simp [beforeFractional, hc, hd]; exact NumEquiv.refl _ _
      · simp [beforeFractional, hc, hd]
        refine ⟨rfl, rfl, ?_⟩
        intro h; rcases h with h | ⟨h, _⟩ <;> simp at h
  · have h1 : ∀ s, beforeFractional (c :: r1) n s = beforeExponent (c :: r1) n s := by
      intro s; simp [beforeFractional, hc]
    rw [h1, h1]; exact beforeExponent_state c r1 n st st'

/-- after a complete fraction whose digits reach the end of the old buffer -/
theorem frac_digits_tail (b e : Bytes) (m : Nat) (hd : b.drop m = e) (hlen : b.length = m + e.length) :
    NumEquiv b.length (consumeNumberResumable b m 4)
      (beforeExponent (e.drop (countDigits e)) (m + countDigits e) 4) := by
  rw [cnr_within_tail b e m 4 (by simp) hd hlen]
  have hle := countDigits_le e
  split
  · rename_i h
    have : e.drop (countDigits e) = [] := by rw [h]; simp
    rw [this, beforeExponent_nil]; exact NumEquiv.refl _ _
  · rename_i h
    obtain ⟨c', r', hcr⟩ := drop_countDigits_ne_nil e (by omega)
    have hdrop : b.drop (m + countDigits e) = c' :: r' := by rw [drop_add_of_drop_eq hd, hcr]
    have hl : b.length = (m + countDigits e) + r'.length + 1 := by
      have := length_of_drop_eq hdrop (by simp); simp at this; omega
    simp only [numDispatch]
    simp only [show ((4 : Nat) + 1 == 1) = false from rfl, show ((4 : Nat) + 1 == 3) = false from rfl,
      show ((4 : Nat) + 1 == 5) = true from rfl, if_true, Bool.false_eq_true, if_false]
    rw [hdrop, hcr, hl]
    exact beforeExponent_state c' r' (m + countDigits e) 5 4

theorem beforeFractional_ext (c : UInt8) (r1 e b : Bytes) (n st : Nat)
    (hb : b.drop n = c :: (r1 ++ e))
    (hres : Resumable (n + r1.length + 1) (beforeFractional (c :: r1) n st)) :
    NumEquiv b.length
      (consumeNumberResumable b (beforeFractional (c :: r1) n st).1 (beforeFractional (c :: r1) n st).2.1)
      (beforeFractional (c :: (r1 ++ e)) n st) := by
  have hlen : b.length = n + (r1.length + e.length + 1) := by
    have := length_of_drop_eq hb (by simp); simp at this; omega
  by_cases hc : (c == 0x2E) = true
  · cases r1 with
    | nil =>
      have h3 : beforeFractional [c] n st = (n, 3, .eof) := by simp [beforeFractional, hc]
      rw [h3]; simp only
      rw [cnr_3, hb]
      have h := beforeFractional_state c e n 3 st
      have hl : b.length = n + e.length + 1 := by simp [hlen]; omega
      simp only [List.nil_append]
      rw [hl]; exact h
    | cons d r2 =>
      by_cases hd : isDigit d = true
      · have hL : beforeFractional (c :: d :: r2) n st =
            beforeExponent (r2.drop (countDigits r2)) (n + 2 + countDigits r2) 4 := by
          simp [beforeFractional, hc, hd]
        have hR : beforeFractional (c :: (d :: r2 ++ e)) n st =
            beforeExponent ((r2 ++ e).drop (countDigits (r2 ++ e))) (n + 2 + countDigits (r2 ++ e)) 4 := by
          simp [beforeFractional, hc, hd]
        rw [hL] at hres ⊢; rw [hR]
        have hle := countDigits_le r2
        by_cases hfull : countDigits r2 = r2.length
        · have hnil : r2.drop (countDigits r2) = [] := by rw [hfull]; simp
          rw [hnil, beforeExponent_nil]; simp only
          rw [countDigits_append_full r2 e hfull, hfull]
          have hdrop : b.drop (n + 2 + r2.length) = e := by
            rw [Nat.add_assoc, drop_add_of_drop_eq hb]
            exact drop_prefix_len (c :: d :: r2) e _ (by simp; omega)
          have h := frac_digits_tail b e (n + 2 + r2.length) hdrop (by simp [hlen]; omega)
          have hdd : (r2 ++ e).drop (r2.length + countDigits e) = e.drop (countDigits e) := by
            rw [← List.drop_drop]; simp
          rw [hdd]
          simpa [Nat.add_assoc] using h
        · have hlt : countDigits r2 < r2.length := by omega
          obtain ⟨c', r', hcr⟩ := drop_countDigits_ne_nil r2 hlt
          have hr2len : r2.length = countDigits r2 + r'.length + 1 := by
            have := congrArg List.length hcr; simp at this; omega
          rw [hcr] at hres ⊢
          rw [countDigits_append_lt r2 e hlt, drop_countDigits_append r2 e hlt, hcr]
          have hb' : b.drop (n + 2 + countDigits r2) = c' :: (r' ++ e) := by
            rw [Nat.add_assoc, drop_add_of_drop_eq hb]
            have : c :: (d :: r2 ++ e) = c :: d :: (r2 ++ e) := by simp
            rw [this, show 2 + countDigits r2 = countDigits r2 + 1 + 1 by omega, List.drop_succ_cons, List.drop_succ_cons,
              drop_countDigits_append r2 e hlt, hcr]; simp
          have hres' : Resumable (n + 2 + countDigits r2 + r'.length + 1) (beforeExponent (c' :: r') (n + 2 + countDigits r2) 4) := by
            have : n + (d :: r2).length + 1 = n + 2 + countDigits r2 + r'.length + 1 := by simp; omega
            rw [← this]; exact hres
          exact beforeExponent_ext c' r' e b (n + 2 + countDigits r2) 4 hb' hres'
      · have h6 : beforeFractional (c :: d :: r2) n st = (n + 1, st, .invalidChar) := by
          simp [beforeFractional, hc, hd]
        rw [h6] at hres
        rcases hres with h | ⟨h, _⟩ <;> simp at h
  · have h1 : ∀ r, beforeFractional (c :: r) n st = beforeExponent (c :: r) n st := by
      intro r; simp [beforeFractional, hc]
    rw [h1] at hres ⊢; rw [h1]
    exact beforeExponent_ext c r1 e b n st hb hres


theorem integerBody_state (r : Bytes) (n n1 st st' : Nat) (len : Nat) :
    NumEquiv len (integerBody r n n1 st) (integerBody r n n1 st') := by
  cases r with
  | nil => exact NumEquiv.refl _ _
  | cons c r1 =>
    by_cases h0 : (c == 0x30) = true
    · simp [integerBody, h0]; exact NumEquiv.refl _ _
    · by_cases h1 : (0x31 ≤ c && c ≤ 0x39) = true
      · have : ∀ s, integerBody (c :: r1) n n1 s =
            beforeFractional (r1.drop (countDigits r1)) (n1 + 1 + countDigits r1) 2 := by
          intro s; simp only [integerBody, h0, h1]; simp
        rw [this, this]; exact NumEquiv.refl _ _
      · have : ∀ s, integerBody (c :: r1) n n1 s = (n1, s, .invalidChar) := by
          intro s; simp only [integerBody, h0, h1]; simp
        rw [this, this]
        refine ⟨rfl, rfl, ?_⟩
        intro h; rcases h with h | ⟨h, _⟩ <;> simp at h

theorem beforeInteger_state (b : Bytes) (n st st' : Nat) (len : Nat) :
    NumEquiv len (beforeInteger b n st) (beforeInteger b n st') := by
  unfold beforeInteger
  exact integerBody_state _ _ _ _ _ _

/-- after integer digits that reach the end of the old buffer -/
theorem int_digits_tail (b e : Bytes) (m : Nat) (hd : b.drop m = e) (hlen : b.length = m + e.length) :
    NumEquiv b.length (consumeNumberResumable b m 2)
      (beforeFractional (e.drop (countDigits e)) (m + countDigits e) 2) := by
  rw [cnr_within_tail b e m 2 (by simp) hd hlen]
  have hle := countDigits_le e
  split
  · rename_i h
    have : e.drop (countDigits e) = [] := by rw [h]; simp
    rw [this, beforeFractional_nil]; exact NumEquiv.refl _ _
  · rename_i h
    obtain ⟨c', r', hcr⟩ := drop_countDigits_ne_nil e (by omega)
    have hdrop : b.drop (m + countDigits e) = c' :: r' := by rw [drop_add_of_drop_eq hd, hcr]
    have hl : b.length = (m + countDigits e) + r'.length + 1 := by
      have := length_of_drop_eq hdrop (by simp); simp at this; omega
    simp only [numDispatch]
    simp only [show ((2 : Nat) + 1 == 1) = false from rfl, show ((2 : Nat) + 1 == 3) = true from rfl,
      if_true, Bool.false_eq_true, if_false]
    rw [hdrop, hcr, hl]
    exact beforeFractional_state c' r' (m + countDigits e) 3 2

theorem integerBody_ext (c : UInt8) (r1 e b : Bytes) (n1 : Nat)
    (hb : b.drop n1 = c :: (r1 ++ e))
    (hres : Resumable (n1 + r1.length + 1) (integerBody (c :: r1) 0 n1 0)) :
    NumEquiv b.length
      (consumeNumberResumable b (integerBody (c :: r1) 0 n1 0).1 (integerBody (c :: r1) 0 n1 0).2.1)
      (integerBody (c :: (r1 ++ e)) 0 n1 0) := by
  have hlen : b.length = n1 + (r1.length + e.length + 1) := by
    have := length_of_drop_eq hb (by simp); simp at this; omega
  by_cases h0 : (c == 0x30) = true
  · have hL : ∀ r, integerBody (c :: r) 0 n1 0 = beforeFractional r (n1 + 1) 3 := by
      intro r; simp [integerBody, h0]
    rw [hL] at hres ⊢; rw [hL]
    have hb1 : b.drop (n1 + 1) = r1 ++ e := by rw [drop_add_of_drop_eq hb]; simp
    cases r1 with
    | nil =>
      rw [beforeFractional_nil]; simp only
      rw [cnr_3, hb1]; exact NumEquiv.refl _ _
    | cons c' r' =>
      have hres' : Resumable (n1 + 1 + r'.length + 1) (beforeFractional (c' :: r') (n1 + 1) 3) := by
        have : n1 + (c' :: r').length + 1 = n1 + 1 + r'.length + 1 := by simp; omega
        rw [← this]; exact hres
      exact beforeFractional_ext c' r' e b (n1 + 1) 3 (by simpa using hb1) hres'
  · by_cases h1 : (0x31 ≤ c && c ≤ 0x39) = true
    · have hL : ∀ r, integerBody (c :: r) 0 n1 0 =
          beforeFractional (r.drop (countDigits r)) (n1 + 1 + countDigits r) 2 := by
        intro r; simp only [integerBody, h0, h1]; simp
      rw [hL] at hres ⊢; rw [hL]
      have hle := countDigits_le r1
      have hb1 : b.drop (n1 + 1) = r1 ++ e := by rw [drop_add_of_drop_eq hb]; simp
      by_cases hfull : countDigits r1 = r1.length
      · have hnil : r1.drop (countDigits r1) = [] := by rw [hfull]; simp
        rw [hnil, beforeFractional_nil]; simp only
        rw [countDigits_append_full r1 e hfull, hfull]
        have hdrop : b.drop (n1 + 1 + r1.length) = e := by
          rw [drop_add_of_drop_eq hb1]; simp
        have h := int_digits_tail b e (n1 + 1 + r1.length) hdrop (by simp [hlen]; omega)
        have hdd : (r1 ++ e).drop (r1.length + countDigits e) = e.drop (countDigits e) := by
          rw [← List.drop_drop]; simp
        rw [hdd]
        simpa [Nat.add_assoc] using h
      · have hlt : countDigits r1 < r1.length := by omega
        obtain ⟨c', r', hcr⟩ := drop_countDigits_ne_nil r1 hlt
        have hr1len : r1.length = countDigits r1 + r'.length + 1 := by
          have := congrArg List.length hcr; simp at this; omega
        rw [hcr] at hres ⊢
        rw [countDigits_append_lt r1 e hlt, drop_countDigits_append r1 e hlt, hcr]
        have hb' : b.drop (n1 + 1 + countDigits r1) = c' :: (r' ++ e) := by
          rw [drop_add_of_drop_eq hb1, drop_countDigits_append r1 e hlt, hcr]; simp
        have hres' : Resumable (n1 + 1 + countDigits r1 + r'.length + 1)
            (beforeFractional (c' :: r') (n1 + 1 + countDigits r1) 2) := by
          have : n1 + r1.length + 1 = n1 + 1 + countDigits r1 + r'.length + 1 := by omega
          rw [← this]; exact hres
        exact beforeFractional_ext c' r' e b (n1 + 1 + countDigits r1) 2 hb' hres'
    · have h6 : integerBody (c :: r1) 0 n1 0 = (n1, 0, .invalidChar) := by
        simp only [integerBody, h0, h1]; simp
      rw [h6] at hres
      rcases hres with h | ⟨h, _⟩ <;> simp at h

/-- `num_resume`: if a scan from scratch of `b` stops where the decoder refills (io.ErrUnexpectedEOF, or nil at
the very end of the buffer), then resuming at the returned (offset, state) over ANY extension `b ++ e` is
equivalent to scanning `b ++ e` from scratch. -/
theorem num_resume_equiv (b e : Bytes)
    (hres : Resumable b.length (consumeNumberResumable b 0 0)) :
    NumEquiv (b ++ e).length
      (consumeNumberResumable (b ++ e) (consumeNumberResumable b 0 0).1 (consumeNumberResumable b 0 0).2.1)
      (consumeNumberResumable (b ++ e) 0 0) := by
  rw [cnr_0, cnr_0] at *
  cases b with
  | nil =>
    have : beforeInteger [] 0 0 = (0, 1, .eof) := by simp [beforeInteger, integerBody]
    rw [this]; simp only
    rw [cnr_1]
    exact beforeInteger_state _ 0 1 0 _
  | cons c0 b1 =>
    by_cases hm : (c0 == 0x2D) = true
    · have hL : ∀ t, beforeInteger (c0 :: t) 0 0 = integerBody t 0 1 0 := by
        intro t; simp [beforeInteger, hm]
      rw [List.cons_append, hL, hL] at *
      cases b1 with
      | nil =>
        have : integerBody [] 0 1 0 = (0, 1, .eof) := rfl
        rw [this]; simp only
        rw [cnr_1]
        have := beforeInteger_state (c0 :: ([] ++ e)) 0 1 0 (c0 :: ([] ++ e)).length
        rw [hL] at this
        exact this
      | cons c r1 =>
        have hb : (c0 :: (c :: r1 ++ e)).drop 1 = c :: (r1 ++ e) := by simp
        have hres' : Resumable (1 + r1.length + 1) (integerBody (c :: r1) 0 1 0) := by
          have : (c0 :: c :: r1).length = 1 + r1.length + 1 := by simp; omega
          rw [← this]; exact hres
        exact integerBody_ext c r1 e (c0 :: (c :: r1 ++ e)) 1 hb hres'
    · have hL : ∀ t, beforeInteger (c0 :: t) 0 0 = integerBody (c0 :: t) 0 0 0 := by
        intro t; simp [beforeInteger, hm]
      rw [List.cons_append, hL, hL] at *
      have hb : (c0 :: (b1 ++ e)).drop 0 = c0 :: (b1 ++ e) := by simp
      have hres' : Resumable (0 + b1.length + 1) (integerBody (c0 :: b1) 0 0 0) := by
        have : (c0 :: b1).length = 0 + b1.length + 1 := by simp
        rw [← this]; exact hres
      exact integerBody_ext c0 b1 e (c0 :: (b1 ++ e)) 0 hb hres'


/-- a definitive result: the decoder neither refills nor resumes -/
def Definitive (len : Nat) (r : NumRes) : Prop := r.2.2 ≠ .eof ∧ r.1 ≠ len

theorem beforeExponent_stable (r e : Bytes) (n st : Nat)
    (h : Definitive (n + r.length) (beforeExponent r n st)) :
    beforeExponent (r ++ e) n st = beforeExponent r n st := by
  unfold Definitive at h
  cases r with
  | nil => simp [beforeExponent] at h
  | cons c r1 =>
    by_cases hc : (c == 0x65 || c == 0x45) = true
    · cases r1 with
      | nil => simp [beforeExponent, hc] at h
      | cons s r2 =>
        by_cases hs : (s == 0x2D || s == 0x2B) = true
        · cases r2 with
          | nil => simp [beforeExponent, hc, hs] at h
          | cons d r3 =>
            by_cases hd : isDigit d = true
            · simp [beforeExponent, hc, hs, hd] at h ⊢
              have := countDigits_le r3
              rw [countDigits_append_lt r3 e (by omega)]
            · simp [beforeExponent, hc, hs, hd]
        · by_cases hd : isDigit s = true
          · simp [beforeExponent, hc, hs, hd] at h ⊢
            have := countDigits_le r2
            rw [countDigits_append_lt r2 e (by omega)]
          · simp [beforeExponent, hc, hs, hd]
    · simp [beforeExponent, hc]

theorem beforeExponent_err_lt (r : Bytes) (n st : Nat) (h : (beforeExponent r n st).2.2 = .invalidChar) :
    (beforeExponent r n st).1 < n + r.length := by
  unfold beforeExponent at h ⊢
  repeat' split
  all_goals simp_all
  all_goals omega

theorem beforeFractional_stable (r e : Bytes) (n st : Nat)
    (h : Definitive (n + r.length) (beforeFractional r n st)) :
    beforeFractional (r ++ e) n st = beforeFractional r n st := by
  cases r with
  | nil => simp [Definitive, beforeFractional, beforeExponent] at h
  | cons c r1 =>
    by_cases hc : (c == 0x2E) = true
    · cases r1 with
      | nil => simp [Definitive, beforeFractional, hc] at h
      | cons d r2 =>
        by_cases hd : isDigit d = true
        · have hL : ∀ t, beforeFractional (c :: d :: t) n st =
              beforeExponent (t.drop (countDigits t)) (n + 2 + countDigits t) 4 := by
            intro t; simp [beforeFractional, hc, hd]
          rw [List.cons_append, List.cons_append, hL, hL] at *
          have hle := countDigits_le r2
          by_cases hfull : countDigits r2 = r2.length
          · have hnil : r2.drop (countDigits r2) = [] := by rw [hfull]; simp
            rw [hnil, beforeExponent_nil] at h
            simp [Definitive] at h; omega
          · have hlt : countDigits r2 < r2.length := by omega
            rw [countDigits_append_lt r2 e hlt, drop_countDigits_append r2 e hlt]
            apply beforeExponent_stable
            have : n + 2 + countDigits r2 + (r2.drop (countDigits r2)).length = n + (c :: d :: r2).length := by
              simp; omega
            rw [this]; exact h
        · simp [beforeFractional, hc, hd]
    · have h1 : ∀ t, beforeFractional (c :: t) n st = beforeExponent (c :: t) n st := by
        intro t; simp [beforeFractional, hc]
      rw [List.cons_append, h1, h1] at *
      exact beforeExponent_stable (c :: r1) e n st h

theorem beforeFractional_err_lt (r : Bytes) (n st : Nat) (h : (beforeFractional r n st).2.2 = .invalidChar) :
    (beforeFractional r n st).1 < n + r.length := by
  cases r with
  | nil => simp [beforeFractional, beforeExponent] at h
  | cons c r1 =>
    by_cases hc : (c == 0x2E) = true
    · cases r1 with
      | nil => simp [beforeFractional, hc] at h
      | cons d r2 =>
        by_cases hd : isDigit d = true
        · have hL : beforeFractional (c :: d :: r2) n st =
              beforeExponent (r2.drop (countDigits r2)) (n + 2 + countDigits r2) 4 := by
            simp [beforeFractional, hc, hd]
          rw [hL] at h ⊢
          have := beforeExponent_err_lt _ _ _ h
          have hle := countDigits_le r2
          simp at this ⊢; omega
        · simp [beforeFractional, hc, hd]
    · have h1 : beforeFractional (c :: r1) n st = beforeExponent (c :: r1) n st := by
        simp [beforeFractional, hc]
      rw [h1] at h ⊢
      exact beforeExponent_err_lt _ _ _ h


theorem integerBody_stable (r e : Bytes) (n1 : Nat)
    (h : Definitive (n1 + r.length) (integerBody r 0 n1 0)) :
    integerBody (r ++ e) 0 n1 0 = integerBody r 0 n1 0 := by
  cases r with
  | nil => simp [Definitive, integerBody] at h
  | cons c r1 =>
    by_cases h0 : (c == 0x30) = true
    · have hL : ∀ t, integerBody (c :: t) 0 n1 0 = beforeFractional t (n1 + 1) 3 := by
        intro t; simp [integerBody, h0]
      rw [List.cons_append, hL, hL] at *
      apply beforeFractional_stable
      have : n1 + 1 + r1.length = n1 + (c :: r1).length := by simp; omega
      rw [this]; exact h
    · by_cases h1 : (0x31 ≤ c && c ≤ 0x39) = true
      · have hL : ∀ t, integerBody (c :: t) 0 n1 0 =
            beforeFractional (t.drop (countDigits t)) (n1 + 1 + countDigits t) 2 := by
          intro t; simp only [integerBody, h0, h1]; simp
        rw [List.cons_append, hL, hL] at *
        have hle := countDigits_le r1
        by_cases hfull : countDigits r1 = r1.length
        · have hnil : r1.drop (countDigits r1) = [] := by rw [hfull]; simp
          rw [hnil, beforeFractional_nil] at h
          simp [Definitive] at h; omega
        · have hlt : countDigits r1 < r1.length := by omega
          rw [countDigits_append_lt r1 e hlt, drop_countDigits_append r1 e hlt]
          apply beforeFractional_stable
          have : n1 + 1 + countDigits r1 + (r1.drop (countDigits r1)).length = n1 + (c :: r1).length := by
            simp; omega
          rw [this]; exact h
      · simp only [List.cons_append, integerBody, h0, h1]; simp

theorem integerBody_err_lt (r : Bytes) (n1 : Nat) (h : (integerBody r 0 n1 0).2.2 = .invalidChar) :
    (integerBody r 0 n1 0).1 < n1 + r.length := by
  cases r with
  | nil => simp [integerBody] at h
  | cons c r1 =>
    by_cases h0 : (c == 0x30) = true
    · have hL : integerBody (c :: r1) 0 n1 0 = beforeFractional r1 (n1 + 1) 3 := by
        simp [integerBody, h0]
      rw [hL] at h ⊢
      have := beforeFractional_err_lt _ _ _ h
      simp at this ⊢; omega
    · by_cases h1 : (0x31 ≤ c && c ≤ 0x39) = true
      · have hL : integerBody (c :: r1) 0 n1 0 =
            beforeFractional (r1.drop (countDigits r1)) (n1 + 1 + countDigits r1) 2 := by
          simp only [integerBody, h0, h1]; simp
        rw [hL] at h ⊢
        have := beforeFractional_err_lt _ _ _ h
        have hle := countDigits_le r1
        simp at this ⊢; omega
      · have hL : integerBody (c :: r1) 0 n1 0 = (n1, 0, .invalidChar) := by
          simp only [integerBody, h0, h1]; simp
        rw [hL]; simp

/-- a definitive result of a scan from scratch does not change when more input is appended -/
theorem num_stable (b e : Bytes) (h : Definitive b.length (consumeNumberResumable b 0 0)) :
    consumeNumberResumable (b ++ e) 0 0 = consumeNumberResumable b 0 0 := by
  rw [cnr_0, cnr_0] at *
  cases b with
  | nil => simp [Definitive, beforeInteger, integerBody] at h
  | cons c0 b1 =>
    by_cases hm : (c0 == 0x2D) = true
    · have hL : ∀ t, beforeInteger (c0 :: t) 0 0 = integerBody t 0 1 0 := by
        intro t; simp [beforeInteger, hm]
      rw [List.cons_append, hL, hL] at *
      apply integerBody_stable
      have : 1 + b1.length = (c0 :: b1).length := by simp; omega
      rw [this]; exact h
    · have hL : ∀ t, beforeInteger (c0 :: t) 0 0 = integerBody (c0 :: t) 0 0 0 := by
        intro t; simp [beforeInteger, hm]
      rw [List.cons_append, hL, hL] at *
      have := integerBody_stable (c0 :: b1) e 0 (by simpa using h)
      simpa using this

/-- an invalid character is reported strictly inside the buffer -/
theorem num_err_lt (b : Bytes) (h : (consumeNumberResumable b 0 0).2.2 = .invalidChar) :
    (consumeNumberResumable b 0 0).1 < b.length := by
  rw [cnr_0] at *
  cases b with
  | nil => simp [beforeInteger, integerBody] at h
  | cons c0 b1 =>
    by_cases hm : (c0 == 0x2D) = true
    · have hL : beforeInteger (c0 :: b1) 0 0 = integerBody b1 0 1 0 := by simp [beforeInteger, hm]
      rw [hL] at h ⊢
      have := integerBody_err_lt _ _ h
      simp; omega
    · have hL : beforeInteger (c0 :: b1) 0 0 = integerBody (c0 :: b1) 0 0 0 := by simp [beforeInteger, hm]
      rw [hL] at h ⊢
      have := integerBody_err_lt _ _ h
      simpa using this

/-- the only error classes of the number scanner -/
def NumClass (r : NumRes) : Prop := r.2.2 = .ok ∨ r.2.2 = .eof ∨ r.2.2 = .invalidChar

theorem beforeExponent_class (r : Bytes) (n st : Nat) : NumClass (beforeExponent r n st) := by
  unfold NumClass beforeExponent
  repeat' split
  all_goals simp

theorem beforeFractional_class (r : Bytes) (n st : Nat) : NumClass (beforeFractional r n st) := by
  unfold beforeFractional
  repeat' split
  all_goals first | exact beforeExponent_class _ _ _ | simp [NumClass]

theorem integerBody_class (r : Bytes) (n n1 st : Nat) : NumClass (integerBody r n n1 st) := by
  unfold integerBody
  repeat' split
  all_goals first | exact beforeFractional_class _ _ _ | simp [NumClass]

theorem num_class (b : Bytes) : NumClass (consumeNumberResumable b 0 0) := by
  rw [cnr_0]; unfold beforeInteger; exact integerBody_class _ _ _ _

/-- the refill condition of decoderState.consumeNumber coincides with `Resumable` for scans from scratch -/
theorem refill_iff_resumable (b : Bytes) :
    ((consumeNumberResumable b 0 0).2.2 = .eof ∨ (consumeNumberResumable b 0 0).1 = b.length) ↔
    Resumable b.length (consumeNumberResumable b 0 0) := by
  unfold Resumable
  constructor
  · rintro (h | h)
    · exact Or.inl h
    · rcases num_class b with hc | hc | hc
      · exact Or.inr ⟨hc, h⟩
      · exact Or.inl hc
      · have := num_err_lt b hc; omega
  · rintro (h | ⟨_, h⟩)
    · exact Or.inl h
    · exact Or.inr h


theorem beforeExponent_bound (r : Bytes) (n st : Nat) : (beforeExponent r n st).1 ≤ n + r.length := by
  unfold beforeExponent
  repeat' split
  all_goals simp
  all_goals (first | omega | (have := countDigits_le ‹Bytes›; omega) | skip)

theorem beforeFractional_bound (r : Bytes) (n st : Nat) : (beforeFractional r n st).1 ≤ n + r.length := by
  cases r with
  | nil => simp [beforeFractional, beforeExponent]
  | cons c r1 =>
    by_cases hc : (c == 0x2E) = true
    · cases r1 with
      | nil => simp [beforeFractional, hc]
      | cons d r2 =>
        by_cases hd : isDigit d = true
        · have hL : beforeFractional (c :: d :: r2) n st =
              beforeExponent (r2.drop (countDigits r2)) (n + 2 + countDigits r2) 4 := by
            simp [beforeFractional, hc, hd]
          rw [hL]
          have := beforeExponent_bound (r2.drop (countDigits r2)) (n + 2 + countDigits r2) 4
          have hle := countDigits_le r2
          simp at this ⊢; omega
        · simp [beforeFractional, hc, hd]
    · have h1 : beforeFractional (c :: r1) n st = beforeExponent (c :: r1) n st := by
        simp [beforeFractional, hc]
      rw [h1]; exact beforeExponent_bound _ _ _

theorem integerBody_bound (r : Bytes) (n1 : Nat) : (integerBody r 0 n1 0).1 ≤ n1 + r.length := by
  cases r with
  | nil => simp [integerBody]
  | cons c r1 =>
    by_cases h0 : (c == 0x30) = true
    · have hL : integerBody (c :: r1) 0 n1 0 = beforeFractional r1 (n1 + 1) 3 := by
        simp [integerBody, h0]
      rw [hL]
      have := beforeFractional_bound r1 (n1 + 1) 3
      simp at this ⊢; omega
    · by_cases h1 : (0x31 ≤ c && c ≤ 0x39) = true
      · have hL : integerBody (c :: r1) 0 n1 0 =
            beforeFractional (r1.drop (countDigits r1)) (n1 + 1 + countDigits r1) 2 := by
          simp only [integerBody, h0, h1]; simp
        rw [hL]
        have := beforeFractional_bound (r1.drop (countDigits r1)) (n1 + 1 + countDigits r1) 2
        have hle := countDigits_le r1
        simp at this ⊢; omega
      · have hL : integerBody (c :: r1) 0 n1 0 = (n1, 0, .invalidChar) := by
          simp only [integerBody, h0, h1]; simp
        rw [hL]; simp

theorem num_bound (b : Bytes) : (consumeNumberResumable b 0 0).1 ≤ b.length := by
  rw [cnr_0]
  cases b with
  | nil => simp [beforeInteger, integerBody]
  | cons c0 b1 =>
    by_cases hm : (c0 == 0x2D) = true
    · have hL : beforeInteger (c0 :: b1) 0 0 = integerBody b1 0 1 0 := by simp [beforeInteger, hm]
      rw [hL]
      have := integerBody_bound b1 1
      simp; omega
    · have hL : beforeInteger (c0 :: b1) 0 0 = integerBody (c0 :: b1) 0 0 0 := by simp [beforeInteger, hm]
      rw [hL]
      have := integerBody_bound (c0 :: b1) 0
      simpa using this

/-- `(n, st)` is as good as a fresh start on every extension of `b` -/
def FreshEquiv (b : Bytes) (n st : Nat) : Prop :=
  ∀ e, NumEquiv (b ++ e).length (consumeNumberResumable (b ++ e) n st) (consumeNumberResumable (b ++ e) 0 0)

theorem freshEquiv_init (b : Bytes) : FreshEquiv b 0 0 := fun _ => NumEquiv.refl _ _

theorem consumeNumberChunks_nil (b : Bytes) (n st : Nat) :
    consumeNumberChunks b n st [] =
      (let r := consumeNumberResumable b n st
       if r.2.2 = .eof ∨ r.1 = b.length then (if r.2.2 = .ok then (r.1, .ok) else (0, .eof)) else (r.1, r.2.2)) := by
  simp [consumeNumberChunks]

theorem consumeNumberChunks_cons (b : Bytes) (n st : Nat) (c : Bytes) (cs : List Bytes) :
    consumeNumberChunks b n st (c :: cs) =
      (let r := consumeNumberResumable b n st
       if r.2.2 = .eof ∨ r.1 = b.length then consumeNumberChunks (b ++ c) r.1 r.2.1 cs else (r.1, r.2.2)) := by
  simp [consumeNumberChunks]

theorem consumeNumberChunks_inv (cs : List Bytes) : ∀ (b : Bytes) (n st : Nat), FreshEquiv b n st →
    consumeNumberChunks b n st cs = consumeNumberChunks (b ++ cs.flatten) 0 0 [] := by
  induction cs with
  | nil =>
    intro b n st h
    have h0 := h []
    simp only [List.append_nil] at h0
    obtain ⟨hn, herr, _⟩ := h0
    simp only [List.flatten_nil, List.append_nil, consumeNumberChunks_nil, hn, herr]
  | cons c cs ih =>
    intro b n st h
    have h0 := h []
    simp only [List.append_nil] at h0
    obtain ⟨hn, herr, hst⟩ := h0
    rw [consumeNumberChunks_cons]
    simp only
    by_cases hcond : (consumeNumberResumable b n st).2.2 = .eof ∨ (consumeNumberResumable b n st).1 = b.length
    · rw [if_pos hcond]
      have hcond0 : (consumeNumberResumable b 0 0).2.2 = .eof ∨ (consumeNumberResumable b 0 0).1 = b.length := by
        rw [← hn, ← herr]; exact hcond
      have hres0 := (refill_iff_resumable b).mp hcond0
      have hres : Resumable b.length (consumeNumberResumable b n st) := by
        unfold Resumable at *; rw [hn, herr]; exact hres0
      rw [hn, hst hres]
      have hfresh : FreshEquiv (b ++ c) (consumeNumberResumable b 0 0).1 (consumeNumberResumable b 0 0).2.1 := by
        intro e
        have := num_resume_equiv b (c ++ e) hres0
        simpa [List.append_assoc] using this
      rw [ih (b ++ c) _ _ hfresh]
      simp [List.append_assoc]
    · rw [if_neg hcond]
      have hdef : Definitive b.length (consumeNumberResumable b 0 0) := by
        unfold Definitive; rw [← hn, ← herr]
        exact ⟨fun h => hcond (Or.inl h), fun h => hcond (Or.inr h)⟩
      have hstab := num_stable b (c :: cs).flatten hdef
      have hb := num_bound b
      rw [consumeNumberChunks_nil, hstab]
      simp only
      have hne : ¬ ((consumeNumberResumable b 0 0).2.2 = .eof ∨
          (consumeNumberResumable b 0 0).1 = (b ++ (c :: cs).flatten).length) := by
        rintro (h | h)
        · exact hdef.1 h
        · have := hdef.2; simp at h; omega
      rw [if_neg hne, hn, herr]

/-- `chunk_indep` for numbers: however the bytes of the input are split into chunks, the refill loop of
decoderState.consumeNumber returns what it returns on the whole input in one piece. -/
theorem num_chunk_indep (c : Bytes) (cs : List Bytes) :
    consumeNumberChunks c 0 0 cs = consumeNumberChunks (c ++ cs.flatten) 0 0 [] :=
  consumeNumberChunks_inv cs c 0 0 (freshEquiv_init c)

end JsonV.Model.Resume
