/-
Lemmas for C20, token path: stack-length accounting of the state machine of Model/State.lean.
-/
import JsonV.Model.Depth

namespace JsonV.Lemmas.DepthL
open JsonV.Model JsonV.Model.Depth

/-! ### what each operation does to the stack -/

theorem appendLiteral_stack {m m' : Machine} (h : m.appendLiteral = .ok m') : m'.stack = m.stack := by
  unfold Machine.appendLiteral at h
  split at h
  · cases h
  · split at h
    · cases h
    · cases h; rfl

theorem appendString_stack {m m' : Machine} (h : m.appendString = .ok m') : m'.stack = m.stack := by
  unfold Machine.appendString at h
  split at h
  · cases h
  · cases h; rfl

theorem pushArray_ok {max : Nat} {m m' : Machine} (h : m.pushArray max = .ok m') :
    m.stack.length ≠ max ∧ m'.stack.length = m.stack.length + 1 := by
  unfold Machine.pushArray at h
  split at h
  · cases h
  · split at h
    · cases h
    · split at h
      · cases h
      · cases h; simp_all

theorem pushObject_ok {max : Nat} {m m' : Machine} (h : m.pushObject max = .ok m') :
    m.stack.length ≠ max ∧ m'.stack.length = m.stack.length + 1 := by
  unfold Machine.pushObject at h
  split at h
  · cases h
  · split at h
    · cases h
    · split at h
      · cases h
      · cases h; simp_all

theorem popArray_stack {m m' : Machine} (h : m.popArray = .ok m') : m'.stack.length ≤ m.stack.length := by
  unfold Machine.popArray at h
  split at h
  · cases h
  · split at h
    · cases h
    · split at h
      · cases h; simp
      · cases h

theorem popObject_stack {m m' : Machine} (h : m.popObject = .ok m') : m'.stack.length ≤ m.stack.length := by
  unfold Machine.popObject at h
  split at h
  · cases h
  · split at h
    · cases h
    · split at h
      · cases h
      · split at h
        · cases h; simp
        · cases h

theorem step_stack_le {max : Nat} {m m' : Machine} {op : Op} (h : step max m op = .ok m')
    (hm : m.stack.length ≤ max) : m'.stack.length ≤ max := by
  cases op <;> simp only [step] at h
  · rw [appendLiteral_stack h]; exact hm
  · rw [appendString_stack h]; exact hm
  · rw [appendLiteral_stack (by simpa [Machine.appendNumber] using h)]; exact hm
  · have := pushObject_ok h; omega
  · have := popObject_stack h; omega
  · have := pushArray_ok h; omega
  · have := popArray_stack h; omega
  · cases h; exact hm
  · cases h; simpa [Machine.invalidateDisabledNamespaces] using hm

/-- The stack never holds more than `max` entries. -/
theorem reach_stack_le {max : Nat} {m : Machine} (h : Reach max m) : m.stack.length ≤ max := by
  induction h with
  | init => simp [Machine.init]
  | step op _ hs ih => exact step_stack_le hs ih

theorem run_stack_le (max : Nat) (ops : List Op) (m : Machine) (hm : m.stack.length ≤ max) :
    (run max ops m).stack.length ≤ max := by
  induction ops generalizing m with
  | nil => simpa [run] using hm
  | cons op ops ih =>
    simp only [run]
    split
    · next m' h => exact ih m' (step_stack_le h hm)
    · exact ih m hm

theorem run_reach (max : Nat) (ops : List Op) (m : Machine) (hm : Reach max m) : Reach max (run max ops m) := by
  induction ops generalizing m with
  | nil => simpa [run] using hm
  | cons op ops ih =>
    simp only [run]
    split
    · next m' h => exact ih m' (Reach.step op hm h)
    · exact ih m hm

/-! ### when exactly a push is refused -/

theorem pushArray_maxDepth_iff (max : Nat) (m : Machine) :
    m.pushArray max = .error .maxDepth ↔
      (m.last.needObjectName = false ∧ m.last.isValidNamespace = true ∧ m.stack.length = max) := by
  unfold Machine.pushArray
  by_cases h1 : m.last.needObjectName = true <;> by_cases h2 : m.last.isValidNamespace = true <;>
    by_cases h3 : m.stack.length = max <;> simp [h1, h2, h3]

theorem pushObject_maxDepth_iff (max : Nat) (m : Machine) :
    m.pushObject max = .error .maxDepth ↔
      (m.last.needObjectName = false ∧ m.last.isValidNamespace = true ∧ m.stack.length = max) := by
  unfold Machine.pushObject
  by_cases h1 : m.last.needObjectName = true <;> by_cases h2 : m.last.isValidNamespace = true <;>
    by_cases h3 : m.stack.length = max <;> simp [h1, h2, h3]

theorem pushArray_ok_iff (max : Nat) (m : Machine) :
    (∃ m', m.pushArray max = .ok m') ↔
      (m.last.needObjectName = false ∧ m.last.isValidNamespace = true ∧ m.stack.length ≠ max) := by
  unfold Machine.pushArray
  by_cases h1 : m.last.needObjectName = true <;> by_cases h2 : m.last.isValidNamespace = true <;>
    by_cases h3 : m.stack.length = max <;> simp [h1, h2, h3]

theorem pushObject_ok_iff (max : Nat) (m : Machine) :
    (∃ m', m.pushObject max = .ok m') ↔
      (m.last.needObjectName = false ∧ m.last.isValidNamespace = true ∧ m.stack.length ≠ max) := by
  unfold Machine.pushObject
  by_cases h1 : m.last.needObjectName = true <;> by_cases h2 : m.last.isValidNamespace = true <;>
    by_cases h3 : m.stack.length = max <;> simp [h1, h2, h3]

/-! ### the canonical descent -/

/-- the current container was just opened (or is the top level after reset) -/
def Fresh (m : Machine) : Prop := m.last = Entry.typeArray ∨ m.last = Entry.typeObject

theorem arr_needName : Entry.needObjectName Entry.typeArray = false := by decide
theorem arr_valid : Entry.isValidNamespace Entry.typeArray = true := by decide
theorem obj_needName : Entry.needObjectName Entry.typeObject = true := by decide
theorem obj_valid : Entry.isValidNamespace Entry.typeObject = true := by decide
theorem objInc_needName : Entry.needObjectName (Entry.increment Entry.typeObject) = false := by decide
theorem objInc_valid : Entry.isValidNamespace (Entry.increment Entry.typeObject) = true := by decide

theorem fresh_init : Fresh Machine.init := Or.inl rfl

/-- After the member name (if one is due) the machine is ready for a value. -/
theorem ready_of_fresh {m : Machine} (hf : Fresh m) :
    ∃ m1, (if m.last.needObjectName then m.appendString else .ok m) = .ok m1 ∧
      m1.stack = m.stack ∧ m1.last.needObjectName = false ∧ m1.last.isValidNamespace = true := by
  rcases hf with h | h
  · refine ⟨m, ?_, rfl, ?_, ?_⟩
    · simp [h, arr_needName]
    · simp [h, arr_needName]
    · simp [h, arr_valid]
  · refine ⟨{ m with last := m.last.increment }, ?_, rfl, ?_, ?_⟩
    · simp [h, obj_needName, Machine.appendString, obj_valid]
    · simp [h, objInc_needName]
    · simp [h, objInc_valid]

theorem pushKind_ok {max : Nat} {m : Machine} (k : Bool) (hf : Fresh m) (hl : m.stack.length ≠ max) :
    ∃ m', pushKind max k m = .ok m' ∧ m'.stack.length = m.stack.length + 1 ∧ Fresh m' := by
  obtain ⟨m1, h1, hs, hn, hv⟩ := ready_of_fresh hf
  unfold pushKind
  rw [h1]
  cases k
  · refine ⟨{ stack := m1.stack ++ [m1.last.increment], last := Entry.typeArray }, ?_, ?_, Or.inl rfl⟩
    · simp [Machine.pushArray, hn, hv, hs, hl]
    · simp [hs]
  · refine ⟨{ stack := m1.stack ++ [m1.last.increment], last := Entry.typeObject }, ?_, ?_, Or.inr rfl⟩
    · simp [Machine.pushObject, hn, hv, hs, hl]
    · simp [hs]

theorem pushKind_full {max : Nat} {m : Machine} (k : Bool) (hf : Fresh m) (hl : m.stack.length = max) :
    pushKind max k m = .error .maxDepth := by
  obtain ⟨m1, h1, hs, hn, hv⟩ := ready_of_fresh hf
  unfold pushKind
  rw [h1]
  cases k
  · simp [Machine.pushArray, hn, hv, hs, hl]
  · simp [Machine.pushObject, hn, hv, hs, hl]

theorem pushes_ok (max : Nat) (ks : List Bool) (m : Machine) (hf : Fresh m)
    (hl : m.stack.length + ks.length ≤ max) :
    ∃ m', pushes max ks m = .ok m' ∧ m'.stack.length = m.stack.length + ks.length ∧ Fresh m' := by
  induction ks generalizing m with
  | nil => exact ⟨m, rfl, by simp, hf⟩
  | cons k ks ih =>
    simp only [List.length_cons] at hl
    obtain ⟨m1, h1, hlen, hf1⟩ := pushKind_ok (max := max) k hf (by omega)
    obtain ⟨m2, h2, hlen2, hf2⟩ := ih m1 hf1 (by omega)
    refine ⟨m2, ?_, ?_, hf2⟩
    · simp [pushes, h1, h2]
    · simp only [List.length_cons]; omega

theorem pushes_refused (max : Nat) (ks : List Bool) (m : Machine) (hf : Fresh m)
    (hm : m.stack.length ≤ max) (hl : max < m.stack.length + ks.length) :
    pushes max ks m = .error .maxDepth := by
  induction ks generalizing m with
  | nil => simp at hl; omega
  | cons k ks ih =>
    simp only [List.length_cons] at hl
    by_cases hfull : m.stack.length = max
    · simp [pushes, pushKind_full k hf hfull]
    · obtain ⟨m1, h1, hlen, hf1⟩ := pushKind_ok (max := max) k hf hfull
      have := ih m1 hf1 (by omega) (by omega)
      simp [pushes, h1, this]

end JsonV.Lemmas.DepthL
