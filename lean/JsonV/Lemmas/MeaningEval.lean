/-
C03: the TOTAL characterisation of the specialised decoder on valid texts.  `evalV` replays, on the spec tree,
what the decoder does in document order: names are looked up in the map built so far (duplicate ⇒ `dup`), numbers go
through `fp` (overflow ⇒ `range`); the first error wins.  `eval_core`: on every text the spec parses (within the nesting
limit) the decoder's outcome IS `evalV` of the tree — with or without duplicates, with or without overflow.
-/
import JsonV.Lemmas.MeaningSpec

set_option linter.unusedSimpArgs false

namespace JsonV.Lemmas.MeaningEval
open JsonV JsonV.Spec.Meaning JsonV.Model.AnyDecode JsonV.Lemmas.MeaningRoutes JsonV.Lemmas.MeaningSpec

variable {F : Type} (fp : FloatParse F)

mutual
def evalV : MTree → Except Err (GoAny F)
  | .null => .ok .nil
  | .bool b => .ok (.bool b)
  | .str s => .ok (.str s)
  | .num l => match fp l with
    | some x => .ok (.f64 x)
    | none => .error .range
  | .arr xs => match evalXs [] xs with
    | .ok a => .ok (.slice a)
    | .error e => .error e
  | .obj ms => match evalMs [] ms with
    | .ok m => .ok (.map m)
    | .error e => .error e
def evalXs : List (GoAny F) → List MTree → Except Err (List (GoAny F))
  | acc, [] => .ok acc
  | acc, x :: xs => match evalV x with
    | .error e => .error e
    | .ok v => evalXs (acc ++ [v]) xs
def evalMs : List (Bytes × GoAny F) → List (Bytes × MTree) → Except Err (List (Bytes × GoAny F))
  | acc, [] => .ok acc
  | acc, (k, x) :: ms =>
    if mapHas acc k then .error .dup
    else match evalV x with
      | .error e => .error e
      | .ok v => evalMs (mapInsert acc k v) ms
end

/-- an outcome together with the unread input -/
def res {α : Type} (x : Except Err α) (rest : Bytes) : Except Err (α × Bytes) :=
  match x with
  | .ok v => .ok (v, rest)
  | .error e => .error e

theorem of_strip_res_ok {α : Type} {x : Res α} {v : α} {rest : Bytes} (h : strip x = res (.ok v) rest) :
    ∃ c', x = .ok (v, rest, c') := by
  rcases x with e | ⟨v', r, c⟩
  · simp [res] at h
  · simp [res] at h; exact ⟨c, by rw [h.1, h.2]⟩

theorem of_strip_res_err {α : Type} {x : Res α} {e : Err} {rest : Bytes} (h : strip x = res (.error e : Except Err α) rest) :
    x = .error e := by
  rcases x with e' | ⟨v', r, c⟩
  · simp [res] at h; rw [h]
  · simp [res] at h

theorem scalar_eval (fuel d : Nat) (c : Cache) (k : UInt8) (r : Bytes) (t : MTree) (rest : Bytes)
    (h7 : k ≠ 0x7B) (h5 : k ≠ 0x5B) (h : lexScalar (k :: r) = some (t, rest)) :
    strip (fastValue fp (fuel+1) d c (k :: r)) = res (evalV fp t) rest := by
  simp only [fastValue, h7, h5, if_false, h]
  cases t with
  | null => simp [evalV, res]
  | bool v => simp [evalV, res]
  | str s => simp [evalV, res, makeString_fst]
  | num l =>
    simp only [evalV]
    cases fp l <;> simp [res]
  | arr xs => exact absurd h lexScalar_not_arr
  | obj ms => exact absurd h lexScalar_not_obj

theorem members_eval_step (fuel : Nat)
    (ihV : ∀ (d : Nat) (c : Cache) (b : Bytes) (t : MTree) (rest : Bytes), parseValue fuel b = some (t, rest) →
      d + t.depth ≤ maxDepth → strip (fastValue fp fuel d c b) = res (evalV fp t) rest)
    (ihM : ∀ (d : Nat) (acc : List (Bytes × GoAny F)) (c : Cache) (b : Bytes) (ms : List (Bytes × MTree)) (rest : Bytes),
      parseMembers fuel b = some (ms, rest) → d + depthMembers ms ≤ maxDepth →
      strip (fastMembers fp fuel d acc c b) = res (evalMs fp acc ms) rest)
    (d : Nat) (acc : List (Bytes × GoAny F)) (c : Cache) (b : Bytes) (ms : List (Bytes × MTree)) (rest : Bytes)
    (h : parseMembers (fuel+1) b = some (ms, rest)) (hd : d + depthMembers ms ≤ maxDepth) :
    strip (fastMembers fp (fuel+1) d acc c b) = res (evalMs fp acc ms) rest := by
  cases b with
  | nil => simp [parseMembers] at h
  | cons k r =>
    simp only [parseMembers] at h
    simp only [fastMembers]
    by_cases hk : k = 0x22
    · simp only [hk, if_true] at h ⊢
      cases hl : lexStr r with
      | none => simp [hl] at h
      | some p =>
        obtain ⟨name, r1⟩ := p
        simp only [hl] at h ⊢
        cases hs1 : skipWs r1 with
        | nil => simp [hs1] at h
        | cons k2 r2 =>
          simp only [hs1] at h ⊢
          by_cases h2 : k2 = 0x3A
          · simp only [h2, if_true] at h ⊢
            cases hv : parseValue fuel (skipWs r2) with
            | none => simp [hv] at h
            | some q =>
              obtain ⟨v, r3⟩ := q
              simp only [hv] at h
              cases hs3 : skipWs r3 with
              | nil => simp [hs3] at h
              | cons k4 r4 =>
                simp only [hs3] at h
                -- both continuations start with the member (name, v)
                have common : ∀ (ms' : List (Bytes × MTree)) (tailRes : ∀ (acc' : List (Bytes × GoAny F)) (c3 : Cache),
                      Res (List (Bytes × GoAny F))),
                    ms = (name, v) :: ms' → d + v.depth ≤ maxDepth →
                    (∀ acc' c3, strip (tailRes acc' c3) = res (evalMs fp acc' ms') rest) →
                    strip (if mapHas acc name = true then (.error .dup : Res (List (Bytes × GoAny F)))
                      else match fastValue fp fuel d c (skipWs r2) with
                        | .error e => .error e
                        | .ok (gv, r3', c3) => if r3' = r3 then tailRes (mapInsert acc name gv) c3 else .error .syntax) =
                    res (evalMs fp acc ms) rest := by
                  intro ms' tailRes hms hvd htail
                  subst hms
                  simp only [evalMs]
                  by_cases hfresh : mapHas acc name = true
                  · simp [hfresh, res]
                  · simp only [hfresh, if_false, Bool.false_eq_true]
                    have hv' := ihV d c (skipWs r2) v r3 hv hvd
                    cases hg : evalV fp v with
                    | error e =>
                      rw [hg] at hv'
                      rw [of_strip_res_err hv']
                      simp [res]
                    | ok gv =>
                      rw [hg] at hv'
                      obtain ⟨c3, hx⟩ := of_strip_res_ok hv'
                      rw [hx]
                      simp only [if_true]
                      exact htail _ _
                by_cases h4 : k4 = 0x2C
                · simp only [h4, if_true] at h
                  cases hm : parseMembers fuel (skipWs r4) with
                  | none => simp [hm] at h
                  | some q2 =>
                    obtain ⟨ms', r5⟩ := q2
                    simp only [hm, Option.some.injEq, Prod.mk.injEq] at h
                    obtain ⟨hms, hrest⟩ := h
                    subst hrest
                    have hd' := hd
                    rw [← hms] at hd'
                    simp only [depthMembers] at hd'
                    have := common ms' (fun acc' c3 => fastMembers fp fuel d acc' c3 (skipWs r4)) hms.symm (by omega)
                      (fun acc' c3 => ihM d acc' c3 (skipWs r4) ms' _ hm (by omega))
                    rw [← this]
                    by_cases hfresh : mapHas acc name = true
                    · simp [hfresh]
                    · simp only [hfresh, if_false, Bool.false_eq_true]
                      have hv' := ihV d c (skipWs r2) v r3 hv (by omega)
                      cases hg : evalV fp v with
                      | error e => rw [hg] at hv'; rw [of_strip_res_err hv']
                      | ok gv =>
                        rw [hg] at hv'
                        obtain ⟨c3, hx⟩ := of_strip_res_ok hv'
                        rw [hx]
                        simp [hs3, h4]
                · simp only [h4, if_false] at h
                  by_cases h5 : k4 = 0x7D
                  · simp only [h5, if_true, Option.some.injEq, Prod.mk.injEq] at h
                    obtain ⟨hms, hrest⟩ := h
                    subst hrest
                    have hd' := hd
                    rw [← hms] at hd'
                    simp only [depthMembers] at hd'
                    have := common [] (fun acc' c3 => .ok (acc', r4, c3)) hms.symm (by omega)
                      (fun acc' c3 => by simp [evalMs, res])
                    rw [← this]
                    by_cases hfresh : mapHas acc name = true
                    · simp [hfresh]
                    · simp only [hfresh, if_false, Bool.false_eq_true]
                      have hv' := ihV d c (skipWs r2) v r3 hv (by omega)
                      cases hg : evalV fp v with
                      | error e => rw [hg] at hv'; rw [of_strip_res_err hv']
                      | ok gv =>
                        rw [hg] at hv'
                        obtain ⟨c3, hx⟩ := of_strip_res_ok hv'
                        rw [hx]
                        simp [hs3, h4, h5]
                  · simp [h5] at h
          · simp [h2] at h
    · simp [hk] at h

theorem elems_eval_step (fuel : Nat)
    (ihV : ∀ (d : Nat) (c : Cache) (b : Bytes) (t : MTree) (rest : Bytes), parseValue fuel b = some (t, rest) →
      d + t.depth ≤ maxDepth → strip (fastValue fp fuel d c b) = res (evalV fp t) rest)
    (ihE : ∀ (d : Nat) (acc : List (GoAny F)) (c : Cache) (b : Bytes) (xs : List MTree) (rest : Bytes),
      parseElems fuel b = some (xs, rest) → d + depthList xs ≤ maxDepth →
      strip (fastElems fp fuel d acc c b) = res (evalXs fp acc xs) rest)
    (d : Nat) (acc : List (GoAny F)) (c : Cache) (b : Bytes) (xs : List MTree) (rest : Bytes)
    (h : parseElems (fuel+1) b = some (xs, rest)) (hd : d + depthList xs ≤ maxDepth) :
    strip (fastElems fp (fuel+1) d acc c b) = res (evalXs fp acc xs) rest := by
  simp only [parseElems] at h
  simp only [fastElems]
  cases hv : parseValue fuel b with
  | none => simp [hv] at h
  | some q =>
    obtain ⟨v, r3⟩ := q
    simp only [hv] at h
    cases hs3 : skipWs r3 with
    | nil => simp [hs3] at h
    | cons k4 r4 =>
      simp only [hs3] at h
      by_cases h4 : k4 = 0x2C
      · simp only [h4, if_true] at h
        cases hm : parseElems fuel (skipWs r4) with
        | none => simp [hm] at h
        | some q2 =>
          obtain ⟨xs', r5⟩ := q2
          simp only [hm, Option.some.injEq, Prod.mk.injEq] at h
          obtain ⟨rfl, rfl⟩ := h
          simp only [depthList] at hd
          have hv' := ihV d c b v r3 hv (by omega)
          simp only [evalXs]
          cases hg : evalV fp v with
          | error e => rw [hg] at hv'; rw [of_strip_res_err hv']; simp [res]
          | ok gv =>
            rw [hg] at hv'
            obtain ⟨c3, hx⟩ := of_strip_res_ok hv'
            rw [hx]
            simp only [hs3, h4, if_true]
            exact ihE d _ c3 (skipWs r4) xs' _ hm (by omega)
      · simp only [h4, if_false] at h
        by_cases h5 : k4 = 0x5D
        · simp only [h5, if_true, Option.some.injEq, Prod.mk.injEq] at h
          obtain ⟨rfl, rfl⟩ := h
          simp only [depthList] at hd
          have hv' := ihV d c b v r3 hv (by omega)
          simp only [evalXs]
          cases hg : evalV fp v with
          | error e => rw [hg] at hv'; rw [of_strip_res_err hv']; simp [res]
          | ok gv =>
            rw [hg] at hv'
            obtain ⟨c3, hx⟩ := of_strip_res_ok hv'
            rw [hx]
            simp [hs3, h5, res]
        · simp [h5] at h

theorem value_eval_step (fuel : Nat)
    (ihM : ∀ (d : Nat) (acc : List (Bytes × GoAny F)) (c : Cache) (b : Bytes) (ms : List (Bytes × MTree)) (rest : Bytes),
      parseMembers fuel b = some (ms, rest) → d + depthMembers ms ≤ maxDepth →
      strip (fastMembers fp fuel d acc c b) = res (evalMs fp acc ms) rest)
    (ihE : ∀ (d : Nat) (acc : List (GoAny F)) (c : Cache) (b : Bytes) (xs : List MTree) (rest : Bytes),
      parseElems fuel b = some (xs, rest) → d + depthList xs ≤ maxDepth →
      strip (fastElems fp fuel d acc c b) = res (evalXs fp acc xs) rest)
    (d : Nat) (c : Cache) (b : Bytes) (t : MTree) (rest : Bytes)
    (h : parseValue (fuel+1) b = some (t, rest)) (hdep : d + t.depth ≤ maxDepth) :
    strip (fastValue fp (fuel+1) d c b) = res (evalV fp t) rest := by
  cases b with
  | nil => simp [parseValue] at h
  | cons k r =>
    by_cases h7 : k = 0x7B
    · subst h7
      simp only [parseValue, if_true] at h
      simp only [fastValue, if_true]
      cases hs : skipWs r with
      | nil => simp [hs] at h
      | cons k' r' =>
        simp only [hs] at h
        by_cases h7d : k' = 0x7D
        · simp only [h7d, if_true, Option.some.injEq, Prod.mk.injEq] at h
          obtain ⟨ht, hr⟩ := h
          subst ht; subst hr
          simp only [MTree.depth, depthMembers] at hdep
          have hd : d ≠ maxDepth := by omega
          simp [hd, h7d, evalV, evalMs, res]
        · simp only [h7d, if_false] at h
          cases hm : parseMembers fuel (k' :: r') with
          | none => simp [hm] at h
          | some q =>
            obtain ⟨ms, r2⟩ := q
            simp only [hm, Option.some.injEq, Prod.mk.injEq] at h
            obtain ⟨ht, hr⟩ := h
            subst ht; subst hr
            simp only [MTree.depth] at hdep
            have hd : d ≠ maxDepth := by omega
            have hM := ihM (d+1) [] c (k' :: r') ms _ hm (by omega)
            simp only [hd, if_false, h7d, evalV]
            cases hg : evalMs fp [] ms with
            | error e => rw [hg] at hM; rw [of_strip_res_err hM]; simp [res]
            | ok gms =>
              rw [hg] at hM
              obtain ⟨c3, hx⟩ := of_strip_res_ok hM
              rw [hx]; simp [res]
    · by_cases h5 : k = 0x5B
      · subst h5
        simp only [parseValue, show ((0x5B : UInt8) = 0x7B) = False by decide, if_false, if_true] at h
        simp only [fastValue, show ((0x5B : UInt8) = 0x7B) = False by decide, if_false, if_true]
        cases hs : skipWs r with
        | nil => simp [hs] at h
        | cons k' r' =>
          simp only [hs] at h
          by_cases h5d : k' = 0x5D
          · simp only [h5d, if_true, Option.some.injEq, Prod.mk.injEq] at h
            obtain ⟨ht, hr⟩ := h
            subst ht; subst hr
            simp only [MTree.depth, depthList] at hdep
            have hd : d ≠ maxDepth := by omega
            simp [hd, h5d, evalV, evalXs, res]
          · simp only [h5d, if_false] at h
            cases hm : parseElems fuel (k' :: r') with
            | none => simp [hm] at h
            | some q =>
              obtain ⟨xs, r2⟩ := q
              simp only [hm, Option.some.injEq, Prod.mk.injEq] at h
              obtain ⟨ht, hr⟩ := h
              subst ht; subst hr
              simp only [MTree.depth] at hdep
              have hd : d ≠ maxDepth := by omega
              have hE := ihE (d+1) [] c (k' :: r') xs _ hm (by omega)
              simp only [hd, if_false, h5d, evalV]
              cases hg : evalXs fp [] xs with
              | error e => rw [hg] at hE; rw [of_strip_res_err hE]; simp [res]
              | ok gxs =>
                rw [hg] at hE
                obtain ⟨c3, hx⟩ := of_strip_res_ok hE
                rw [hx]; simp [res]
      · simp only [parseValue, h7, h5, if_false] at h
        exact scalar_eval fp fuel d c k r t rest h7 h5 h

/-- On every text the spec parses within the nesting limit, the specialised decoder's outcome and unread input are
`evalV` of the spec tree — for every cache, every depth offset and every amount of fuel. -/
theorem eval_core (fuel : Nat) :
    (∀ (d : Nat) (c : Cache) (b : Bytes) (t : MTree) (rest : Bytes), parseValue fuel b = some (t, rest) →
      d + t.depth ≤ maxDepth → strip (fastValue fp fuel d c b) = res (evalV fp t) rest) ∧
    (∀ (d : Nat) (acc : List (Bytes × GoAny F)) (c : Cache) (b : Bytes) (ms : List (Bytes × MTree)) (rest : Bytes),
      parseMembers fuel b = some (ms, rest) → d + depthMembers ms ≤ maxDepth →
      strip (fastMembers fp fuel d acc c b) = res (evalMs fp acc ms) rest) ∧
    (∀ (d : Nat) (acc : List (GoAny F)) (c : Cache) (b : Bytes) (xs : List MTree) (rest : Bytes),
      parseElems fuel b = some (xs, rest) → d + depthList xs ≤ maxDepth →
      strip (fastElems fp fuel d acc c b) = res (evalXs fp acc xs) rest) := by
  induction fuel with
  | zero =>
    refine ⟨?_, ?_, ?_⟩
    · intro d c b t rest h; simp [parseValue] at h
    · intro d acc c b ms rest h; simp [parseMembers] at h
    · intro d acc c b xs rest h; simp [parseElems] at h
  | succ n ih =>
    obtain ⟨ihV, ihM, ihE⟩ := ih
    exact ⟨value_eval_step fp n ihM ihE, members_eval_step fp n ihV ihM, elems_eval_step fp n ihV ihE⟩

/-- `fast` on a parsed text. -/
theorem fast_eq_eval (c : Cache) (b : Bytes) (t : MTree) (h : parseTree b = some t) (hdep : t.depth ≤ maxDepth) :
    fast fp c b = evalV fp t := by
  unfold parseTree parseTreeF at h
  unfold fast fuelFor
  cases hv : parseValue (2 * b.length + 2) (skipWs b) with
  | none => simp [hv] at h
  | some q =>
    obtain ⟨t', rest⟩ := q
    simp only [hv] at h
    split at h
    · next hws =>
      simp only [Option.some.injEq] at h
      subst h
      have hc := (eval_core fp (2 * b.length + 2)).1 0 c (skipWs b) t' rest hv (by omega)
      cases hg : evalV fp t' with
      | error e => rw [hg] at hc; rw [of_strip_res_err hc]; rfl
      | ok gv =>
        rw [hg] at hc
        obtain ⟨c3, hx⟩ := of_strip_res_ok hc
        rw [hx]
        simp [finish, hws]
    · simp at h

/-! ### a tree with a duplicate name is never decoded successfully -/

mutual
theorem evalV_ok_noDup : ∀ (t : MTree) (v : GoAny F), evalV fp t = .ok v → t.noDup = true
  | .null, _, _ => rfl
  | .bool _, _, _ => rfl
  | .str _, _, _ => rfl
  | .num _, _, _ => rfl
  | .arr xs, v, h => by
    simp only [evalV] at h
    cases hx : evalXs fp [] xs with
    | error e => simp [hx] at h
    | ok a => simp only [MTree.noDup]; exact evalXs_ok_noDup xs [] a hx
  | .obj ms, v, h => by
    simp only [evalV] at h
    cases hx : evalMs fp [] ms with
    | error e => simp [hx] at h
    | ok m =>
      have := evalMs_ok_noDup ms [] m hx
      simp only [MTree.noDup, Bool.and_eq_true]
      exact ⟨this.2.1, this.1⟩
theorem evalXs_ok_noDup : ∀ (xs : List MTree) (acc a : List (GoAny F)), evalXs fp acc xs = .ok a → noDupList xs = true
  | [], _, _, _ => rfl
  | x :: xs, acc, a, h => by
    simp only [evalXs] at h
    cases hv : evalV fp x with
    | error e => simp [hv] at h
    | ok v =>
      simp only [hv] at h
      simp only [noDupList, Bool.and_eq_true]
      exact ⟨evalV_ok_noDup x v hv, evalXs_ok_noDup xs _ a h⟩
theorem evalMs_ok_noDup : ∀ (ms : List (Bytes × MTree)) (acc m : List (Bytes × GoAny F)), evalMs fp acc ms = .ok m →
    noDupMembers ms = true ∧ noDupNames (names ms) = true ∧ ∀ n ∈ names ms, mapHas acc n = false
  | [], _, _, _ => ⟨rfl, rfl, by intro n hn; simp [names] at hn⟩
  | (k, x) :: ms, acc, m, h => by
    simp only [evalMs] at h
    by_cases hfresh : mapHas acc k = true
    · simp [hfresh] at h
    · simp only [hfresh, if_false, Bool.false_eq_true] at h
      have hfresh' : mapHas acc k = false := by simpa using hfresh
      cases hv : evalV fp x with
      | error e => simp [hv] at h
      | ok v =>
        simp only [hv] at h
        obtain ⟨h1, h2, h3⟩ := evalMs_ok_noDup ms _ m h
        rw [mapInsert_fresh acc k v hfresh'] at h3
        refine ⟨?_, ?_, ?_⟩
        · simp only [noDupMembers, Bool.and_eq_true]; exact ⟨evalV_ok_noDup x v hv, h1⟩
        · simp only [names, List.map_cons, noDupNames, Bool.and_eq_true, Bool.not_eq_eq_eq_not, Bool.not_true]
          refine ⟨?_, h2⟩
          rw [List.contains_eq_mem]
          simp only [decide_eq_false_iff_not]
          intro hk
          have := h3 k hk
          rw [mapHas_append] at this
          simp at this
        · intro n hn
          simp only [names, List.map_cons, List.mem_cons] at hn
          rcases hn with rfl | hn
          · exact hfresh'
          · have := h3 n hn
            rw [mapHas_append] at this
            simp only [Bool.or_eq_false_iff] at this
            exact this.1
end

/-- the only errors on a parsed text are a duplicate name, or a float overflow (which needs an overflowing literal) -/
def ErrOK (e : Err) : Prop := e = .dup ∨ (e = .range ∧ ∃ l, fp l = none)

mutual
theorem evalV_err : ∀ (t : MTree) (e : Err), evalV fp t = .error e → ErrOK fp e
  | .null, _, h => by simp [evalV] at h
  | .bool _, _, h => by simp [evalV] at h
  | .str _, _, h => by simp [evalV] at h
  | .num l, e, h => by
    simp only [evalV] at h
    cases hl : fp l with
    | some x => simp [hl] at h
    | none => simp only [hl, Except.error.injEq] at h; exact Or.inr ⟨h.symm, l, hl⟩
  | .arr xs, e, h => by
    simp only [evalV] at h
    cases hx : evalXs fp [] xs with
    | error e' => simp only [hx, Except.error.injEq] at h; subst h; exact evalXs_err xs [] _ hx
    | ok a => simp [hx] at h
  | .obj ms, e, h => by
    simp only [evalV] at h
    cases hx : evalMs fp [] ms with
    | error e' => simp only [hx, Except.error.injEq] at h; subst h; exact evalMs_err ms [] _ hx
    | ok a => simp [hx] at h
theorem evalXs_err : ∀ (xs : List MTree) (acc : List (GoAny F)) (e : Err), evalXs fp acc xs = .error e → ErrOK fp e
  | [], _, _, h => by simp [evalXs] at h
  | x :: xs, acc, e, h => by
    simp only [evalXs] at h
    cases hv : evalV fp x with
    | error e' => simp only [hv, Except.error.injEq] at h; subst h; exact evalV_err x _ hv
    | ok v => simp only [hv] at h; exact evalXs_err xs _ e h
theorem evalMs_err : ∀ (ms : List (Bytes × MTree)) (acc : List (Bytes × GoAny F)) (e : Err), evalMs fp acc ms = .error e → ErrOK fp e
  | [], _, _, h => by simp [evalMs] at h
  | (k, x) :: ms, acc, e, h => by
    simp only [evalMs] at h
    by_cases hfresh : mapHas acc k = true
    · simp only [hfresh, if_true, Except.error.injEq] at h; exact Or.inl h.symm
    · simp only [hfresh, if_false, Bool.false_eq_true] at h
      cases hv : evalV fp x with
      | error e' => simp only [hv, Except.error.injEq] at h; subst h; exact evalV_err x _ hv
      | ok v => simp only [hv] at h; exact evalMs_err ms _ e h
end

end JsonV.Lemmas.MeaningEval
