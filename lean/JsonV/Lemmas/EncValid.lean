/-
The encoder-side validator `reformatValue` and the decoder-side validator `Validate.consumeValue` (slice C01)
accept the same texts with the same extent: two simulations by induction on the fuel (the leaves are shared:
Model/Encoder.lean uses the jsonwire models of Model/Validate.lean), then the link to the grammar through
C01's `value_sound` / `value_complete`.
-/
import JsonV.Lemmas.EncRaw
import JsonV.Props.C01

namespace JsonV.Lemmas.EncValid
open JsonV JsonV.Model JsonV.Model.Encoder JsonV.Model.Wire

theorem isWS_eq (c : UInt8) : isWS c = Wire.isWs c := by
  unfold isWS Wire.isWs
  by_cases h1 : c = 0x20 <;> by_cases h2 : c = 0x09 <;> by_cases h3 : c = 0x0d <;> by_cases h4 : c = 0x0a <;> simp [h1, h2, h3, h4]

theorem skipWS_drop : ∀ r : Bytes, skipWS r = r.drop (consumeWhitespace r) := by
  intro r
  induction r with
  | nil => rfl
  | cons c r ih =>
    simp only [skipWS, consumeWhitespace, isWS_eq]
    cases h : Wire.isWs c <;> simp [ih]

theorem drop_cons_tail {l t : Bytes} {c : UInt8} {a : Nat} (h : l.drop a = c :: t) : t = l.drop (a + 1) := by
  have : (l.drop a).drop 1 = t := by rw [h]; rfl
  rw [← this, List.drop_drop]

theorem drop_add (l : Bytes) (a b : Nat) : (l.drop a).drop b = l.drop (a + b) := by
  rw [List.drop_drop]

def vo (o : Opts) : Validate.VOpts := vopts o

/-- accepted array loops of the encoder are accepted by the decoder-side validator, with the same rest -/
def SV (o : Opts) (f : Nat) : Prop :=
  ∀ dst src d dst' rest, reformatValue o f dst src d = .ok (dst', rest) →
    ∀ F, 2 * f ≤ F → ∃ n, Validate.consumeValue (vopts o) F d src = (n, .ok) ∧ rest = src.drop n
def SO (o : Opts) (f : Nat) : Prop :=
  ∀ dst src d names dst' rest, objectLoop o f dst src d names = .ok (dst', rest) →
    ∀ F, 2 * f ≤ F → ∃ n, Validate.objectLoop (vopts o) F d names src = (n, .ok) ∧ rest = src.drop n
def SA (o : Opts) (f : Nat) : Prop :=
  ∀ dst src d dst' rest, arrayLoop o f dst src d = .ok (dst', rest) →
    ∀ F, 2 * f ≤ F → ∃ n, Validate.arrayLoop (vopts o) F d src = (n, .ok) ∧ rest = src.drop n

theorem sa_step (o : Opts) (f : Nat) (hV : SV o f) (hA : SA o f) : SA o (f + 1) := by
  intro dst src d dst' rest h F hF
  obtain ⟨F', rfl⟩ : ∃ F', F = F' + 1 := ⟨F - 1, by omega⟩
  simp only [arrayLoop] at h
  cases hs : skipWS src with
  | nil => rw [hs] at h; cases h
  | cons c0 s0 =>
    rw [hs] at h
    simp only at h
    have hs' : src.drop (consumeWhitespace src) = c0 :: s0 := by rw [← skipWS_drop]; exact hs
    split at h
    · cases h
    rename_i dst2 s1 hv
    obtain ⟨k, hk, hk2⟩ := hV _ _ _ _ _ hv F' (by omega)
    cases hw : skipWS s1 with
    | nil => rw [hw] at h; cases h
    | cons c2 s2 =>
      rw [hw] at h
      simp only at h
      have e1 : c0 :: s0 = src.drop (consumeWhitespace src) := hs'.symm
      have e2 : s1 = src.drop (consumeWhitespace src + k) := by rw [hk2, e1, drop_add]
      have hw' : s1.drop (consumeWhitespace s1) = c2 :: s2 := by rw [← skipWS_drop]; exact hw
      have e4 : s2 = src.drop (consumeWhitespace src + k + consumeWhitespace s1 + 1) := by
        apply drop_cons_tail (c := c2); rw [← hw', e2, drop_add]
      simp only [Validate.arrayLoop, hs', hk, ← hk2, hw']
      have hok : (Err.ok != Err.ok) = false := by decide
      simp only [hok, Bool.false_eq_true, if_false]
      by_cases hc : c2 = 0x2c
      · rw [if_pos hc] at h
        obtain ⟨n2, hn2, hr2⟩ := hA _ _ _ _ _ h F' (by omega)
        have hc' : (c2 == 44) = true := by simp [hc]
        simp only [hc', if_true, hn2, Validate.addOff]
        exact ⟨_, rfl, by rw [hr2, e4, drop_add]⟩
      · rw [if_neg hc] at h
        have hc' : (c2 == 44) = false := by simp [hc]
        simp only [hc', Bool.false_eq_true, if_false]
        by_cases hc2 : c2 = 0x5d
        · rw [if_pos hc2] at h
          have hc2' : (c2 == 93) = true := by simp [hc2]
          simp only [hc2', if_true]
          simp only [Except.ok.injEq, Prod.mk.injEq] at h
          exact ⟨_, rfl, by rw [← h.2, e4]⟩
        · rw [if_neg hc2] at h; cases h


theorem reformatString_ok {o : Opts} {src q name s1 : Bytes} (h : reformatString o src = .ok (q, name, s1)) :
    ∃ n fl, Validate.valueString (vopts o) src = (n, fl, .ok) ∧
      name = Validate.unescapedName (src.take n) fl ∧ s1 = src.drop n := by
  unfold reformatString at h
  split at h
  rename_i n fl e hvs
  split at h
  · rename_i he
    simp only [Except.ok.injEq, Prod.mk.injEq] at h
    exact ⟨n, fl, by rw [hvs, he], h.2.1.symm, h.2.2.symm⟩
  · cases h

theorem so_step (o : Opts) (f : Nat) (hV : SV o f) (hO : SO o f) : SO o (f + 1) := by
  intro dst src d names dst' rest h F hF
  obtain ⟨F', rfl⟩ : ∃ F', F = F' + 1 := ⟨F - 1, by omega⟩
  simp only [objectLoop] at h
  cases hs : skipWS src with
  | nil => rw [hs] at h; cases h
  | cons c0 s0 =>
    rw [hs] at h
    simp only at h
    have hs' : src.drop (consumeWhitespace src) = c0 :: s0 := by rw [← skipWS_drop]; exact hs
    cases hq : reformatString o (c0 :: s0) with
    | error x => rw [hq] at h; cases h
    | ok p =>
      obtain ⟨q, name, s1⟩ := p
      rw [hq] at h
      simp only at h
      obtain ⟨n, fl, hvs, hname, hs1⟩ := reformatString_ok hq
      split at h
      · cases h
      rename_i hdup
      cases hw : skipWS s1 with
      | nil => rw [hw] at h; cases h
      | cons c2 s2 =>
        rw [hw] at h
        simp only at h
        by_cases hc : c2 = 0x3a
        · simp only [hc, ne_eq, not_true_eq_false, if_false] at h
          cases hw3 : skipWS s2 with
          | nil => rw [hw3] at h; cases h
          | cons c3 s3 =>
            rw [hw3] at h
            simp only at h
            split at h
            · cases h
            rename_i dst5 s4 hv
            obtain ⟨k, hk, hk2⟩ := hV _ _ _ _ _ hv F' (by omega)
            cases hw5 : skipWS s4 with
            | nil => rw [hw5] at h; cases h
            | cons c5 s5 =>
              rw [hw5] at h
              simp only at h
              -- offsets
              have e1 : c0 :: s0 = src.drop (consumeWhitespace src) := hs'.symm
              have e2 : s1 = src.drop (consumeWhitespace src + n) := by rw [hs1, e1, drop_add]
              have hw' : s1.drop (consumeWhitespace s1) = c2 :: s2 := by rw [← skipWS_drop]; exact hw
              have e3 : s2 = src.drop (consumeWhitespace src + n + consumeWhitespace s1 + 1) := by
                apply drop_cons_tail (c := c2); rw [← hw', e2, drop_add]
              have hw3' : s2.drop (consumeWhitespace s2) = c3 :: s3 := by rw [← skipWS_drop]; exact hw3
              have e4 : s4 = src.drop (consumeWhitespace src + n + consumeWhitespace s1 + 1 + consumeWhitespace s2 + k) := by
                have : s4 = (s2.drop (consumeWhitespace s2)).drop k := by rw [hk2, hw3']
                rw [this]
                generalize consumeWhitespace s2 = w2
                rw [e3, drop_add, drop_add]
                congr 1; omega
              have hw5' : s4.drop (consumeWhitespace s4) = c5 :: s5 := by rw [← skipWS_drop]; exact hw5
              have e5 : s5 = src.drop (consumeWhitespace src + n + consumeWhitespace s1 + 1 + consumeWhitespace s2 + k +
                  consumeWhitespace s4 + 1) := by
                apply drop_cons_tail (c := c5); rw [← hw5', e4, drop_add]
              have hok : (Err.ok != Err.ok) = false := by decide
              have hdup' : (!(vopts o).allowDup && names.contains (Validate.unescapedName ((c0 :: s0).take n) fl)) = false := by
                rw [← hname]; simpa [vopts] using hdup
              simp only [Validate.objectLoop, hs', hvs, hok, Bool.false_eq_true, if_false, hdup', ← hs1, hw']
              have hcc : (c2 != 58) = false := by simp [hc]
              simp only [hcc, Bool.false_eq_true, if_false, hw3', hk, hok, ← hk2, hw5']
              by_cases hc5 : c5 = 0x2c
              · rw [if_pos hc5] at h
                obtain ⟨n2, hn2, hr2⟩ := hO _ _ _ _ _ _ h F' (by omega)
                have hc' : (c5 == 44) = true := by simp [hc5]
                have hn2' : Validate.objectLoop (vopts o) F' d
                    (if (vopts o).allowDup = true then names else names ++ [name]) s5 = (n2, .ok) := hn2
                rw [hname] at hn2'
                simp only [hc', if_true, Validate.addOff, hn2']
                exact ⟨_, rfl, by rw [hr2, e5, drop_add]⟩
              · rw [if_neg hc5] at h
                have hc' : (c5 == 44) = false := by simp [hc5]
                simp only [hc', Bool.false_eq_true, if_false]
                by_cases hc6 : c5 = 0x7d
                · rw [if_pos hc6] at h
                  have hc6' : (c5 == 125) = true := by simp [hc6]
                  simp only [hc6', if_true]
                  simp only [Except.ok.injEq, Prod.mk.injEq] at h
                  exact ⟨_, rfl, by rw [← h.2, e5]⟩
                · rw [if_neg hc6] at h; cases h
        · simp only [hc, ne_eq, not_false_eq_true, if_true] at h
          cases h


theorem normKind_eq : ∀ c : UInt8, normKind c = Validate.normKind c := by
  apply JsonV.Lemmas.WireNumber.forall_u8; decide +kernel

theorem scanLiteral_ok {src lit r : Bytes} (h : scanLiteral src lit = .ok r) :
    ∃ n, Validate.valueLiteral lit src = (n, .ok) ∧ r = src.drop n := by
  unfold scanLiteral at h
  split at h
  rename_i n e hv
  split at h
  · rename_i he; cases h; exact ⟨n, by rw [hv, he], rfl⟩
  · cases h

theorem scanNumber_ok {src t r : Bytes} (h : scanNumber src = .ok (t, r)) :
    ∃ n, Validate.valueNumber src = (n, .ok) ∧ r = src.drop n := by
  unfold scanNumber at h
  split at h
  rename_i n e hv
  split at h
  · rename_i he
    simp only [Except.ok.injEq, Prod.mk.injEq] at h
    exact ⟨n, by rw [hv, he], h.2.symm⟩
  · cases h

theorem sv_step (o : Opts) (hmax : o.maxDepth = Validate.maxNestingDepth) (f : Nat) (hO : SO o f) (hA : SA o f) :
    SV o (f + 1) := by
  intro dst src d dst' rest h F hF
  obtain ⟨F', rfl⟩ : ∃ F', F = F' + 1 := ⟨F - 1, by omega⟩
  obtain ⟨F'', rfl⟩ : ∃ F'', F' = F'' + 1 := ⟨F' - 1, by omega⟩
  simp only [reformatValue] at h
  cases src with
  | nil => simp at h
  | cons c s =>
    simp only at h
    simp only [Validate.consumeValue, ← normKind_eq]
    by_cases k1 : normKind c = 0x6e
    · simp only [k1, if_true] at h
      cases hl : scanLiteral (c :: s) [0x6e, 0x75, 0x6c, 0x6c] with
      | error x => rw [hl] at h; simp [Except.map] at h
      | ok r =>
        rw [hl] at h
        simp only [Except.map, Except.ok.injEq, Prod.mk.injEq] at h
        obtain ⟨n, hn, hr⟩ := scanLiteral_ok hl
        have : (normKind c == 0x6E) = true := by simp [k1]
        simp only [this, if_true]
        exact ⟨n, hn, by rw [← h.2, hr]⟩
    rw [if_neg k1] at h
    have k1' : (normKind c == 0x6E) = false := by simp [k1]
    simp only [k1', Bool.false_eq_true, if_false]
    by_cases k2 : normKind c = 0x66
    · simp only [k2, if_true] at h
      cases hl : scanLiteral (c :: s) [0x66, 0x61, 0x6c, 0x73, 0x65] with
      | error x => rw [hl] at h; simp [Except.map] at h
      | ok r =>
        rw [hl] at h
        simp only [Except.map, Except.ok.injEq, Prod.mk.injEq] at h
        obtain ⟨n, hn, hr⟩ := scanLiteral_ok hl
        have : (normKind c == 0x66) = true := by simp [k2]
        simp only [this, if_true]
        exact ⟨n, hn, by rw [← h.2, hr]⟩
    rw [if_neg k2] at h
    have k2' : (normKind c == 0x66) = false := by simp [k2]
    simp only [k2', Bool.false_eq_true, if_false]
    by_cases k3 : normKind c = 0x74
    · simp only [k3, if_true] at h
      cases hl : scanLiteral (c :: s) [0x74, 0x72, 0x75, 0x65] with
      | error x => rw [hl] at h; simp [Except.map] at h
      | ok r =>
        rw [hl] at h
        simp only [Except.map, Except.ok.injEq, Prod.mk.injEq] at h
        obtain ⟨n, hn, hr⟩ := scanLiteral_ok hl
        have : (normKind c == 0x74) = true := by simp [k3]
        simp only [this, if_true]
        exact ⟨n, hn, by rw [← h.2, hr]⟩
    rw [if_neg k3] at h
    have k3' : (normKind c == 0x74) = false := by simp [k3]
    simp only [k3', Bool.false_eq_true, if_false]
    by_cases k4 : normKind c = 0x22
    · simp only [k4, if_true] at h
      cases hl : reformatString o (c :: s) with
      | error x => rw [hl] at h; simp [Except.map] at h
      | ok p =>
        obtain ⟨q, name, r⟩ := p
        rw [hl] at h
        simp only [Except.map, Except.ok.injEq, Prod.mk.injEq] at h
        obtain ⟨n, fl, hn, _, hr⟩ := reformatString_ok hl
        have : (normKind c == 0x22) = true := by simp [k4]
        simp only [this, if_true, hn]
        exact ⟨n, rfl, by rw [← h.2, hr]⟩
    rw [if_neg k4] at h
    have k4' : (normKind c == 0x22) = false := by simp [k4]
    simp only [k4', Bool.false_eq_true, if_false]
    by_cases k5 : normKind c = 0x30
    · simp only [k5, if_true] at h
      cases hl : scanNumber (c :: s) with
      | error x => rw [hl] at h; simp [Except.map] at h
      | ok p =>
        obtain ⟨t, r⟩ := p
        rw [hl] at h
        simp only [Except.map, Except.ok.injEq, Prod.mk.injEq] at h
        obtain ⟨n, hn, hr⟩ := scanNumber_ok hl
        have : (normKind c == 0x30) = true := by simp [k5]
        simp only [this, if_true]
        exact ⟨n, hn, by rw [← h.2, hr]⟩
    rw [if_neg k5] at h
    have k5' : (normKind c == 0x30) = false := by simp [k5]
    simp only [k5', Bool.false_eq_true, if_false]
    by_cases k6 : normKind c = 0x7b
    · simp only [k6, if_true] at h
      have k6' : (normKind c == 0x7B) = true := by simp [k6]
      simp only [k6', if_true, Validate.consumeObject]
      by_cases hdp : d = o.maxDepth + 1
      · rw [if_pos hdp] at h; cases h
      rw [if_neg hdp] at h
      have hdp' : (d == Validate.maxNestingDepth + 1) = false := by rw [← hmax]; simp [hdp]
      simp only [hdp', Bool.false_eq_true, if_false]
      cases hw : skipWS ((c :: s).drop 1) with
      | nil => rw [hw] at h; cases h
      | cons c1 r1 =>
        rw [hw] at h
        simp only at h
        have hw' : ((c :: s).drop 1).drop (consumeWhitespace ((c :: s).drop 1)) = c1 :: r1 := by
          rw [← skipWS_drop]; exact hw
        have e1 : r1 = (c :: s).drop (1 + consumeWhitespace ((c :: s).drop 1) + 1) := by
          apply drop_cons_tail (c := c1); rw [← hw', drop_add]
        simp only [hw']
        by_cases hc : c1 = 0x7d
        · rw [if_pos hc] at h
          simp only [Except.ok.injEq, Prod.mk.injEq] at h
          have hc' : (c1 == 0x7D) = true := by simp [hc]
          simp only [hc', if_true]
          exact ⟨_, rfl, by rw [← h.2, e1]⟩
        · rw [if_neg hc] at h
          have hc' : (c1 == 0x7D) = false := by simp [hc]
          simp only [hc', Bool.false_eq_true, if_false]
          obtain ⟨n2, hn2, hr2⟩ := hO _ _ _ _ _ _ h F'' (by omega)
          simp only [hn2, Validate.addOff]
          refine ⟨_, rfl, ?_⟩
          rw [hr2, ← hw', drop_add, drop_add, Nat.add_assoc]
    rw [if_neg k6] at h
    have k6' : (normKind c == 0x7B) = false := by simp [k6]
    simp only [k6', Bool.false_eq_true, if_false]
    by_cases k7 : normKind c = 0x5b
    · simp only [k7, if_true] at h
      have k7' : (normKind c == 0x5B) = true := by simp [k7]
      simp only [k7', if_true, Validate.consumeArray]
      by_cases hdp : d = o.maxDepth + 1
      · rw [if_pos hdp] at h; cases h
      rw [if_neg hdp] at h
      have hdp' : (d == Validate.maxNestingDepth + 1) = false := by rw [← hmax]; simp [hdp]
      simp only [hdp', Bool.false_eq_true, if_false]
      cases hw : skipWS ((c :: s).drop 1) with
      | nil => rw [hw] at h; cases h
      | cons c1 r1 =>
        rw [hw] at h
        simp only at h
        have hw' : ((c :: s).drop 1).drop (consumeWhitespace ((c :: s).drop 1)) = c1 :: r1 := by
          rw [← skipWS_drop]; exact hw
        have e1 : r1 = (c :: s).drop (1 + consumeWhitespace ((c :: s).drop 1) + 1) := by
          apply drop_cons_tail (c := c1); rw [← hw', drop_add]
        simp only [hw']
        by_cases hc : c1 = 0x5d
        · rw [if_pos hc] at h
          simp only [Except.ok.injEq, Prod.mk.injEq] at h
          have hc' : (c1 == 0x5D) = true := by simp [hc]
          simp only [hc', if_true]
          exact ⟨_, rfl, by rw [← h.2, e1]⟩
        · rw [if_neg hc] at h
          have hc' : (c1 == 0x5D) = false := by simp [hc]
          simp only [hc', Bool.false_eq_true, if_false]
          obtain ⟨n2, hn2, hr2⟩ := hA _ _ _ _ _ h F'' (by omega)
          simp only [hn2, Validate.addOff]
          refine ⟨_, rfl, ?_⟩
          rw [hr2, ← hw', drop_add, drop_add, Nat.add_assoc]
    rw [if_neg k7] at h
    cases h


theorem forward_all (o : Opts) (hmax : o.maxDepth = Validate.maxNestingDepth) :
    ∀ f, SV o f ∧ SO o f ∧ SA o f := by
  intro f
  induction f with
  | zero =>
    refine ⟨?_, ?_, ?_⟩
    · intro dst src d dst' rest h; simp [reformatValue] at h
    · intro dst src d names dst' rest h; simp [objectLoop] at h
    · intro dst src d dst' rest h; simp [arrayLoop] at h
  | succ f ih =>
    obtain ⟨hV, hO, hA⟩ := ih
    exact ⟨sv_step o hmax f hO hA, so_step o f hV hO, sa_step o f hV hA⟩

/-! ### Backward simulation: what the decoder-side validator accepts, the encoder accepts -/

theorem addOff_ok {k n : Nat} {p : Nat × Err} (h : Validate.addOff k p = (n, .ok)) :
    ∃ n2, p = (n2, .ok) ∧ n = k + n2 := by
  obtain ⟨a, e⟩ := p
  simp only [Validate.addOff, Prod.mk.injEq] at h
  exact ⟨a, by rw [h.2], h.1.symm⟩

theorem scanLiteral_of {src lit : Bytes} {n : Nat} (h : Validate.valueLiteral lit src = (n, .ok)) :
    scanLiteral src lit = .ok (src.drop n) := by
  simp [scanLiteral, h]

theorem scanNumber_of {src : Bytes} {n : Nat} (h : Validate.valueNumber src = (n, .ok)) :
    scanNumber src = .ok (src.take n, src.drop n) := by
  simp [scanNumber, h]

theorem reformatString_of {o : Opts} {src : Bytes} {n : Nat} {fl : ValueFlags}
    (h : Validate.valueString (vopts o) src = (n, fl, .ok)) :
    reformatString o src = .ok ((appendQuote o (Validate.unescapedName (src.take n) fl)).1,
      Validate.unescapedName (src.take n) fl, src.drop n) := by
  simp [reformatString, h]

def TV (o : Opts) (F : Nat) : Prop :=
  ∀ d src n, Validate.consumeValue (vopts o) F d src = (n, .ok) →
    ∀ f, F ≤ f → ∀ dst, ∃ dst', reformatValue o f dst src d = .ok (dst', src.drop n)
def TCO (o : Opts) (F : Nat) : Prop :=
  ∀ d c s n, normKind c = 0x7b → Validate.consumeObject (vopts o) F d (c :: s) = (n, .ok) →
    ∀ f, F ≤ f → ∀ dst, ∃ dst', reformatValue o (f + 1) dst (c :: s) d = .ok (dst', (c :: s).drop n)
def TCA (o : Opts) (F : Nat) : Prop :=
  ∀ d c s n, normKind c = 0x5b → Validate.consumeArray (vopts o) F d (c :: s) = (n, .ok) →
    ∀ f, F ≤ f → ∀ dst, ∃ dst', reformatValue o (f + 1) dst (c :: s) d = .ok (dst', (c :: s).drop n)
def TOL (o : Opts) (F : Nat) : Prop :=
  ∀ d names src n, Validate.objectLoop (vopts o) F d names src = (n, .ok) →
    ∀ f, F ≤ f → ∀ dst, ∃ dst', objectLoop o f dst src d names = .ok (dst', src.drop n)
def TAL (o : Opts) (F : Nat) : Prop :=
  ∀ d src n, Validate.arrayLoop (vopts o) F d src = (n, .ok) →
    ∀ f, F ≤ f → ∀ dst, ∃ dst', arrayLoop o f dst src d = .ok (dst', src.drop n)

theorem skipWS_of_drop {src : Bytes} {c : UInt8} {t : Bytes} (h : src.drop (consumeWhitespace src) = c :: t) :
    skipWS src = c :: t := by rw [skipWS_drop]; exact h

theorem tal_step (o : Opts) (F : Nat) (hV : TV o F) (hA : TAL o F) : TAL o (F + 1) := by
  intro d src n h f hf dst
  obtain ⟨f', rfl⟩ : ∃ f', f = f' + 1 := ⟨f - 1, by omega⟩
  simp only [Validate.arrayLoop] at h
  cases hd0 : src.drop (consumeWhitespace src) with
  | nil => rw [hd0] at h; simp at h
  | cons c1 rd0 =>
    rw [hd0] at h
    simp only at h
    rcases hcv : Validate.consumeValue (vopts o) F d (c1 :: rd0) with ⟨k, e⟩
    rw [hcv] at h
    simp only at h
    by_cases he : e = .ok
    · subst he
      have hok : (Err.ok != Err.ok) = false := by decide
      simp only [hok, Bool.false_eq_true, if_false] at h
      simp only [arrayLoop, skipWS_of_drop hd0]
      obtain ⟨dst2, hv2⟩ := hV d _ k hcv f' (by omega) (if o.multiline = true then appendIndent o dst d else dst)
      simp only [hv2]
      cases hd4 : ((c1 :: rd0).drop k).drop (consumeWhitespace ((c1 :: rd0).drop k)) with
      | nil => rw [hd4] at h; simp at h
      | cons c2 rf =>
        rw [hd4] at h
        simp only at h
        simp only [skipWS_of_drop hd4]
        have erf : rf = src.drop (consumeWhitespace src + k + consumeWhitespace ((c1 :: rd0).drop k) + 1) := by
          apply drop_cons_tail (c := c2); rw [← hd4, ← hd0, drop_add, drop_add]
        by_cases hc : c2 = 0x2c
        · have hc' : (c2 == 44) = true := by simp [hc]
          simp only [hc', if_true] at h
          obtain ⟨n2, hn2, hn⟩ := addOff_ok h
          obtain ⟨dst3, hv3⟩ := hA d rf n2 hn2 f' (by omega)
            (if o.spaceAfterComma = true then dst2 ++ [44] ++ [32] else dst2 ++ [44])
          rw [if_pos hc, hv3]
          exact ⟨dst3, by rw [hn, erf, drop_add]⟩
        · have hc' : (c2 == 44) = false := by simp [hc]
          simp only [hc', Bool.false_eq_true, if_false] at h
          rw [if_neg hc]
          by_cases hc2 : c2 = 0x5d
          · have hc2' : (c2 == 93) = true := by simp [hc2]
            simp only [hc2', if_true, Prod.mk.injEq, and_true] at h
            rw [if_pos hc2]
            exact ⟨_, by rw [← h, erf]⟩
          · have hc2' : (c2 == 93) = false := by simp [hc2]
            simp [hc2'] at h
    · have : (e != Err.ok) = true := by simp [he]
      simp only [this, if_true, Prod.mk.injEq] at h
      exact absurd h.2 he


theorem tol_step (o : Opts) (F : Nat) (hV : TV o F) (hO : TOL o F) : TOL o (F + 1) := by
  intro d names src n h f hf dst
  obtain ⟨f', rfl⟩ : ∃ f', f = f' + 1 := ⟨f - 1, by omega⟩
  have hok : (Err.ok != Err.ok) = false := by decide
  simp only [Validate.objectLoop] at h
  cases hd0 : src.drop (consumeWhitespace src) with
  | nil => rw [hd0] at h; simp at h
  | cons c0 ra0 =>
    rw [hd0] at h
    simp only at h
    rcases hvs : Validate.valueString (vopts o) (c0 :: ra0) with ⟨n1, fl, e1⟩
    rw [hvs] at h
    simp only at h
    by_cases he1 : e1 = .ok
    · subst he1
      simp only [hok, Bool.false_eq_true, if_false] at h
      by_cases hdup : (!(vopts o).allowDup && names.contains (Validate.unescapedName ((c0 :: ra0).take n1) fl)) = true
      · rw [if_pos hdup] at h; simp at h
      have hdup' : (!(vopts o).allowDup && names.contains (Validate.unescapedName ((c0 :: ra0).take n1) fl)) = false := by
        simpa using hdup
      simp only [hdup', Bool.false_eq_true, if_false] at h
      cases hd2 : ((c0 :: ra0).drop n1).drop (consumeWhitespace ((c0 :: ra0).drop n1)) with
      | nil => rw [hd2] at h; simp at h
      | cons c2 rc =>
        rw [hd2] at h
        simp only at h
        by_cases hc : c2 = 0x3a
        · have hc' : (c2 != 58) = false := by simp [hc]
          simp only [hc', Bool.false_eq_true, if_false] at h
          cases hd3 : rc.drop (consumeWhitespace rc) with
          | nil => rw [hd3] at h; simp at h
          | cons c3 rd0 =>
            rw [hd3] at h
            simp only at h
            rcases hcv : Validate.consumeValue (vopts o) F d (c3 :: rd0) with ⟨k, e⟩
            rw [hcv] at h
            simp only at h
            by_cases he : e = .ok
            · subst he
              simp only [hok, Bool.false_eq_true, if_false] at h
              cases hd4 : ((c3 :: rd0).drop k).drop (consumeWhitespace ((c3 :: rd0).drop k)) with
              | nil => rw [hd4] at h; simp at h
              | cons c5 rf =>
                rw [hd4] at h
                simp only at h
                -- my side
                have hdupm : ¬ (!o.allowDup && names.contains (Validate.unescapedName ((c0 :: ra0).take n1) fl)) = true := hdup
                simp only [objectLoop, skipWS_of_drop hd0, reformatString_of hvs, hdupm, if_false, skipWS_of_drop hd2, hc,
                  ne_eq, not_true_eq_false, skipWS_of_drop hd3]
                obtain ⟨dst5, hv5⟩ := hV d _ k hcv f' (by omega)
                  (if o.spaceAfterColon = true then
                    (if o.multiline = true then appendIndent o dst d else dst) ++
                      (appendQuote o (Validate.unescapedName ((c0 :: ra0).take n1) fl)).1 ++ [58] ++ [32]
                   else (if o.multiline = true then appendIndent o dst d else dst) ++
                      (appendQuote o (Validate.unescapedName ((c0 :: ra0).take n1) fl)).1 ++ [58])
                simp only [hv5, skipWS_of_drop hd4, Bool.false_eq_true, if_false]
                have erc : rc = src.drop (consumeWhitespace src + n1 + consumeWhitespace ((c0 :: ra0).drop n1) + 1) := by
                  apply drop_cons_tail (c := c2); rw [← hd2, ← hd0, drop_add, drop_add]
                have erf : rf = src.drop (consumeWhitespace src + n1 + consumeWhitespace ((c0 :: ra0).drop n1) + 1 +
                    consumeWhitespace rc + k + consumeWhitespace ((c3 :: rd0).drop k) + 1) := by
                  apply drop_cons_tail (c := c5)
                  have h5 : c5 :: rf = ((rc.drop (consumeWhitespace rc)).drop k).drop
                      (consumeWhitespace ((c3 :: rd0).drop k)) := by rw [hd3, hd4]
                  rw [h5]
                  generalize consumeWhitespace rc = w3
                  generalize consumeWhitespace ((c3 :: rd0).drop k) = w4
                  rw [erc, drop_add, drop_add, drop_add]
                  congr 1; omega
                by_cases hc5 : c5 = 0x2c
                · have hc5' : (c5 == 44) = true := by simp [hc5]
                  simp only [hc5', if_true] at h
                  obtain ⟨n2, hn2, hn⟩ := addOff_ok h
                  obtain ⟨dst6, hv6⟩ := hO d _ rf n2 hn2 f' (by omega)
                    (if o.spaceAfterComma = true then dst5 ++ [44] ++ [32] else dst5 ++ [44])
                  have hv6' : objectLoop o f' (if o.spaceAfterComma = true then dst5 ++ [44] ++ [32] else dst5 ++ [44]) rf d
                      (if o.allowDup = true then names else names ++ [Validate.unescapedName ((c0 :: ra0).take n1) fl]) =
                      .ok (dst6, rf.drop n2) := hv6
                  rw [if_pos hc5, hv6']
                  exact ⟨dst6, by rw [hn, erf, drop_add]⟩
                · have hc5' : (c5 == 44) = false := by simp [hc5]
                  simp only [hc5', Bool.false_eq_true, if_false] at h
                  rw [if_neg hc5]
                  by_cases hc6 : c5 = 0x7d
                  · have hc6' : (c5 == 125) = true := by simp [hc6]
                    simp only [hc6', if_true, Prod.mk.injEq, and_true] at h
                    rw [if_pos hc6]
                    exact ⟨_, by rw [← h, erf]⟩
                  · have hc6' : (c5 == 125) = false := by simp [hc6]
                    simp [hc6'] at h
            · have : (e != Err.ok) = true := by simp [he]
              simp only [this, if_true, Prod.mk.injEq] at h
              exact absurd h.2 he
        · have hc' : (c2 != 58) = true := by simp [hc]
          simp [hc'] at h
    · have : (e1 != Err.ok) = true := by simp [he1]
      simp only [this, if_true, Prod.mk.injEq] at h
      exact absurd h.2 he1


theorem tco_step (o : Opts) (hmax : o.maxDepth = Validate.maxNestingDepth) (F : Nat) (hO : TOL o F) : TCO o (F + 1) := by
  intro d c s n hk h f hf dst
  simp only [Validate.consumeObject] at h
  by_cases hdp : d = o.maxDepth + 1
  · have : (d == Validate.maxNestingDepth + 1) = true := by rw [← hmax]; simp [hdp]
    simp [this] at h
  have hdp' : (d == Validate.maxNestingDepth + 1) = false := by rw [← hmax]; simp [hdp]
  simp only [hdp', Bool.false_eq_true, if_false] at h
  have k1 : ¬ normKind c = 0x6e := by rw [hk]; decide
  have k2 : ¬ normKind c = 0x66 := by rw [hk]; decide
  have k3 : ¬ normKind c = 0x74 := by rw [hk]; decide
  have k4 : ¬ normKind c = 0x22 := by rw [hk]; decide
  have k5 : ¬ normKind c = 0x30 := by rw [hk]; decide
  simp only [reformatValue, if_neg k1, if_neg k2, if_neg k3, if_neg k4, if_neg k5, if_pos hk, if_neg hdp]
  cases hd1 : ((c :: s).drop 1).drop (consumeWhitespace ((c :: s).drop 1)) with
  | nil => rw [hd1] at h; simp at h
  | cons c1 r1 =>
    rw [hd1] at h
    simp only at h
    simp only [skipWS_of_drop hd1]
    by_cases hc : c1 = 0x7d
    · have hc' : (c1 == 0x7D) = true := by simp [hc]
      simp only [hc', if_true, Prod.mk.injEq, and_true] at h
      rw [if_pos hc]
      have er1 : r1 = (c :: s).drop (1 + consumeWhitespace ((c :: s).drop 1) + 1) := by
        apply drop_cons_tail (c := c1); rw [← hd1, drop_add]
      exact ⟨_, by rw [← h, er1]⟩
    · have hc' : (c1 == 0x7D) = false := by simp [hc]
      simp only [hc', Bool.false_eq_true, if_false] at h
      obtain ⟨n2, hn2, hn⟩ := addOff_ok h
      obtain ⟨dst2, hv2⟩ := hO (d + 1) [] (c1 :: r1) n2 hn2 f (by omega) (dst ++ [0x7b])
      rw [if_neg hc, hv2]
      exact ⟨dst2, by rw [hn, ← hd1, drop_add, drop_add, Nat.add_assoc]⟩

theorem tca_step (o : Opts) (hmax : o.maxDepth = Validate.maxNestingDepth) (F : Nat) (hA : TAL o F) : TCA o (F + 1) := by
  intro d c s n hk h f hf dst
  simp only [Validate.consumeArray] at h
  by_cases hdp : d = o.maxDepth + 1
  · have : (d == Validate.maxNestingDepth + 1) = true := by rw [← hmax]; simp [hdp]
    simp [this] at h
  have hdp' : (d == Validate.maxNestingDepth + 1) = false := by rw [← hmax]; simp [hdp]
  simp only [hdp', Bool.false_eq_true, if_false] at h
  have k1 : ¬ normKind c = 0x6e := by rw [hk]; decide
  have k2 : ¬ normKind c = 0x66 := by rw [hk]; decide
  have k3 : ¬ normKind c = 0x74 := by rw [hk]; decide
  have k4 : ¬ normKind c = 0x22 := by rw [hk]; decide
  have k5 : ¬ normKind c = 0x30 := by rw [hk]; decide
  have k6 : ¬ normKind c = 0x7b := by rw [hk]; decide
  simp only [reformatValue, if_neg k1, if_neg k2, if_neg k3, if_neg k4, if_neg k5, if_neg k6, if_pos hk, if_neg hdp]
  cases hd1 : ((c :: s).drop 1).drop (consumeWhitespace ((c :: s).drop 1)) with
  | nil => rw [hd1] at h; simp at h
  | cons c1 r1 =>
    rw [hd1] at h
    simp only at h
    simp only [skipWS_of_drop hd1]
    by_cases hc : c1 = 0x5d
    · have hc' : (c1 == 0x5D) = true := by simp [hc]
      simp only [hc', if_true, Prod.mk.injEq, and_true] at h
      rw [if_pos hc]
      have er1 : r1 = (c :: s).drop (1 + consumeWhitespace ((c :: s).drop 1) + 1) := by
        apply drop_cons_tail (c := c1); rw [← hd1, drop_add]
      exact ⟨_, by rw [← h, er1]⟩
    · have hc' : (c1 == 0x5D) = false := by simp [hc]
      simp only [hc', Bool.false_eq_true, if_false] at h
      obtain ⟨n2, hn2, hn⟩ := addOff_ok h
      obtain ⟨dst2, hv2⟩ := hA (d + 1) (c1 :: r1) n2 hn2 f (by omega) (dst ++ [0x5b])
      rw [if_neg hc, hv2]
      exact ⟨dst2, by rw [hn, ← hd1, drop_add, drop_add, Nat.add_assoc]⟩


theorem tv_step (o : Opts) (F : Nat) (hCO : TCO o F) (hCA : TCA o F) : TV o (F + 1) := by
  intro d src n h f hf dst
  obtain ⟨f', rfl⟩ : ∃ f', f = f' + 1 := ⟨f - 1, by omega⟩
  cases src with
  | nil => simp [Validate.consumeValue] at h
  | cons c s =>
    simp only [Validate.consumeValue, ← normKind_eq] at h
    by_cases k1 : normKind c = 0x6e
    · have : (normKind c == 0x6E) = true := by simp [k1]
      simp only [this, if_true] at h
      refine ⟨dst ++ [0x6e, 0x75, 0x6c, 0x6c], ?_⟩
      simp only [reformatValue, if_pos k1]
      rw [show scanLiteral (c :: s) [0x6e, 0x75, 0x6c, 0x6c] = _ from scanLiteral_of h]; rfl
    have k1' : (normKind c == 0x6E) = false := by simp [k1]
    simp only [k1', Bool.false_eq_true, if_false] at h
    by_cases k2 : normKind c = 0x66
    · have : (normKind c == 0x66) = true := by simp [k2]
      simp only [this, if_true] at h
      refine ⟨dst ++ [0x66, 0x61, 0x6c, 0x73, 0x65], ?_⟩
      simp only [reformatValue, if_neg k1, if_pos k2]
      rw [show scanLiteral (c :: s) [0x66, 0x61, 0x6c, 0x73, 0x65] = _ from scanLiteral_of h]; rfl
    have k2' : (normKind c == 0x66) = false := by simp [k2]
    simp only [k2', Bool.false_eq_true, if_false] at h
    by_cases k3 : normKind c = 0x74
    · have : (normKind c == 0x74) = true := by simp [k3]
      simp only [this, if_true] at h
      refine ⟨dst ++ [0x74, 0x72, 0x75, 0x65], ?_⟩
      simp only [reformatValue, if_neg k1, if_neg k2, if_pos k3]
      rw [show scanLiteral (c :: s) [0x74, 0x72, 0x75, 0x65] = _ from scanLiteral_of h]; rfl
    have k3' : (normKind c == 0x74) = false := by simp [k3]
    simp only [k3', Bool.false_eq_true, if_false] at h
    by_cases k4 : normKind c = 0x22
    · have : (normKind c == 0x22) = true := by simp [k4]
      simp only [this, if_true] at h
      rcases hvs : Validate.valueString (vopts o) (c :: s) with ⟨n1, fl, e1⟩
      rw [hvs] at h
      simp only [Prod.mk.injEq] at h
      obtain ⟨h1, h2⟩ := h
      subst h1 h2
      refine ⟨dst ++ (appendQuote o (Validate.unescapedName ((c :: s).take n1) fl)).1, ?_⟩
      simp only [reformatValue, if_neg k1, if_neg k2, if_neg k3, if_pos k4]
      rw [reformatString_of hvs]; rfl
    have k4' : (normKind c == 0x22) = false := by simp [k4]
    simp only [k4', Bool.false_eq_true, if_false] at h
    by_cases k5 : normKind c = 0x30
    · have : (normKind c == 0x30) = true := by simp [k5]
      simp only [this, if_true] at h
      refine ⟨dst ++ (c :: s).take n, ?_⟩
      simp only [reformatValue, if_neg k1, if_neg k2, if_neg k3, if_neg k4, if_pos k5]
      rw [scanNumber_of h]; rfl
    have k5' : (normKind c == 0x30) = false := by simp [k5]
    simp only [k5', Bool.false_eq_true, if_false] at h
    by_cases k6 : normKind c = 0x7b
    · have : (normKind c == 0x7B) = true := by simp [k6]
      simp only [this, if_true] at h
      exact hCO d c s n k6 h f' (by omega) dst
    have k6' : (normKind c == 0x7B) = false := by simp [k6]
    simp only [k6', Bool.false_eq_true, if_false] at h
    by_cases k7 : normKind c = 0x5b
    · have : (normKind c == 0x5B) = true := by simp [k7]
      simp only [this, if_true] at h
      exact hCA d c s n k7 h f' (by omega) dst
    have k7' : (normKind c == 0x5B) = false := by simp [k7]
    simp only [k7', Bool.false_eq_true, if_false] at h
    split at h <;> simp at h

theorem backward_all (o : Opts) (hmax : o.maxDepth = Validate.maxNestingDepth) :
    ∀ F, TV o F ∧ TCO o F ∧ TCA o F ∧ TOL o F ∧ TAL o F := by
  intro F
  induction F with
  | zero =>
    refine ⟨?_, ?_, ?_, ?_, ?_⟩
    · intro d src n h; simp [Validate.consumeValue] at h
    · intro d c s n _ h; simp [Validate.consumeObject] at h
    · intro d c s n _ h; simp [Validate.consumeArray] at h
    · intro d names src n h; simp [Validate.objectLoop] at h
    · intro d src n h; simp [Validate.arrayLoop] at h
  | succ F ih =>
    obtain ⟨hV, hCO, hCA, hOL, hAL⟩ := ih
    exact ⟨tv_step o F hCO hCA, tco_step o hmax F hOL, tca_step o hmax F hAL, tol_step o F hV hOL, tal_step o F hV hAL⟩

/-! ### The grammar -/

open JsonV.Spec.Grammar JsonV.Lemmas.WireBasic JsonV.Lemmas.WireValue JsonV.Lemmas.WireComplete

theorem skipWS_nil_ws {r : Bytes} (h : skipWS r = []) : JWs r := by
  induction r with
  | nil => intro c hc; cases hc
  | cons c r ih =>
    simp only [skipWS] at h
    split at h
    · rename_i hc
      intro x hx
      rcases List.mem_cons.mp hx with rfl | hx
      · rw [isWS_eq] at hc; exact (isWs_iff _).1 hc
      · exact ih h x hx
    · cases h

theorem ws_skipWS_nil {r : Bytes} (h : JWs r) : skipWS r = [] := by
  induction r with
  | nil => rfl
  | cons c r ih =>
    have hc : isWS c = true := by rw [isWS_eq]; exact (isWs_iff c).2 (h c (by simp))
    simp only [skipWS, hc, if_true]
    exact ih (fun x hx => h x (by simp [hx]))

theorem skipWS_ws_append {w tail : Bytes} (hw : JWs w) (ht : ∀ c t, tail = c :: t → isWs c = false) :
    skipWS (w ++ tail) = tail := by
  rw [skipWS_drop, ws_exact w tail hw ht]; simp

/-- **The encoder's validator accepts exactly the values of the grammar** (at every depth): `reformatValue` at
the one-based depth `d + 1`, with the fuel `3·|v| + 4` the model uses, accepts `ws value ws` iff `value` is a value
of the RFC 8259/7493 grammar selected by the options, nested at most `maxNestingDepth - d` deep. -/
theorem reformat_iff_grammar (o : Opts) (hmax : o.maxDepth = Validate.maxNestingDepth) (d : Nat)
    (hd : d ≤ Validate.maxNestingDepth) (dst v : Bytes) :
    (∃ out rest, reformatValue o (3 * v.length + 4) dst (skipWS v) (d + 1) = .ok (out, rest) ∧ skipWS rest = []) ↔
      ∃ w1 val w2, JWs w1 ∧ JValue (G (vopts o)) Validate.maxNestingDepth (nameKey (vopts o)) d val ∧ JWs w2 ∧
        v = w1 ++ val ++ w2 := by
  constructor
  · rintro ⟨out, rest, hr, hws⟩
    obtain ⟨n, hn, hrest⟩ := (forward_all o hmax (3 * v.length + 4)).1 _ _ _ _ _ hr _ (Nat.le_refl _)
    obtain ⟨hle, hv⟩ := (sound_all (vopts o) _).1 d (skipWS v) n hd hn
    refine ⟨v.take (consumeWhitespace v), (skipWS v).take n, rest, ws_take v, hv, skipWS_nil_ws hws, ?_⟩
    rw [hrest, List.append_assoc, List.take_append_drop, skipWS_drop, List.take_append_drop]
  · rintro ⟨w1, val, w2, hw1, hv, hw2, rfl⟩
    obtain ⟨hcv, c, t, hval, hc⟩ := value_complete (vopts o) d val hv
    have hstart : ∀ c' t', val ++ w2 = c' :: t' → isWs c' = false := by
      intro c' t' h; rw [hval] at h
      simp only [List.cons_append, List.cons.injEq] at h; rw [← h.1]; exact (start_facts c hc).1
    have hskip : skipWS (w1 ++ val ++ w2) = val ++ w2 := by
      rw [List.append_assoc]; exact skipWS_ws_append hw1 hstart
    have hcons := hcv w2 (3 * (val ++ w2).length + 1) (follow_of_delim _ _ (delimHead_ws w2 hw2)) (Nat.le_refl _)
    obtain ⟨dst', hm⟩ := (backward_all o hmax (3 * (val ++ w2).length + 1)).1 _ _ _ hcons
      (3 * (w1 ++ val ++ w2).length + 4) (by simp; omega) dst
    refine ⟨dst', w2, by rw [hskip]; simpa using hm, ws_skipWS_nil hw2⟩

end JsonV.Lemmas.EncValid
