/-
Completeness of the C03 meaning spec against the C01 grammar: every value / text of the grammar
(strict UTF-8, duplicate names allowed) is parsed by `Spec.Meaning.parseTree`.
-/
import JsonV.Lemmas.GlueMeaningNumC
import JsonV.Lemmas.GlueMeaningStrC
import JsonV.Lemmas.GlueMeaningTree
import JsonV.Lemmas.WireComplete

set_option linter.unusedSimpArgs false

namespace JsonV.Lemmas.GlueMeaningTreeC
open JsonV JsonV.Spec.Meaning JsonV.Spec.Grammar
open JsonV.Lemmas.GlueMeaningLex JsonV.Lemmas.GlueMeaningNumC JsonV.Lemmas.GlueMeaningStrC JsonV.Lemmas.GlueMeaningTree
open JsonV.Lemmas.WireComplete (DelimHead isDelim follow_of_delim delimHead_ws_sep delimHead_ws delimHead_cons delimHead_nil)

/-- `v` is parsed, with one tree, whatever delimiter-headed input follows and with any sufficient fuel. -/
def Parses (md d : Nat) (v : Bytes) : Prop :=
  ∃ t : MTree, d + t.depth ≤ md ∧ ∀ rest, DelimHead rest → ∀ m, 2 * (v ++ rest).length ≤ m →
    parseValue m (v ++ rest) = some (t, rest)

/-- `v` starts with a byte that is not whitespace. -/
def NonWsHead (v : Bytes) : Prop := ∃ c t, v = c :: t ∧ Spec.Meaning.isWs c = false

theorem skipWs_ws_append (w t : Bytes) (hw : JWs w) : skipWs (w ++ t) = skipWs t := by
  induction w with
  | nil => rfl
  | cons c w ih =>
    have hc : Spec.Meaning.isWs c = true := (GlueMeaningLex.isWs_iff c).2 (hw c (by simp))
    simp only [List.cons_append, skipWs, hc, if_true]
    exact ih (fun x hx => hw x (by simp [hx]))

theorem skipWs_ws_nonws (w v t : Bytes) (hw : JWs w) (hv : NonWsHead v) : skipWs (w ++ (v ++ t)) = v ++ t := by
  rw [skipWs_ws_append w _ hw]
  obtain ⟨c, t', rfl, hc⟩ := hv
  simp [skipWs, hc]

theorem skipWs_ws_byte (w : Bytes) (c : UInt8) (t : Bytes) (hw : JWs w) (hc : Spec.Meaning.isWs c = false) :
    skipWs (w ++ c :: t) = c :: t := by
  rw [skipWs_ws_append w _ hw]; simp [skipWs, hc]

theorem jnumber_head {v : Bytes} (h : JNumber v) : ∃ c t, v = c :: t ∧ (c = 0x2D ∨ Digit c) := by
  cases h with
  | mk minus int frac exp hm hi _ _ =>
    rcases hm with rfl | rfl
    · cases hi with
      | zero => exact ⟨0x30, _, rfl, Or.inr digit_zero⟩
      | nonzero d ds h19 _ => exact ⟨d, _, rfl, Or.inr ⟨by unfold Digit19 at h19; exact UInt8.le_trans (by decide) h19.1, h19.2⟩⟩
    · exact ⟨0x2D, _, rfl, Or.inl rfl⟩

theorem numhead_facts : ∀ c : UInt8, (c = 0x2D ∨ Digit c) →
    c ≠ 0x7B ∧ c ≠ 0x5B ∧ c ≠ 0x22 ∧ c ≠ 0x6E ∧ c ≠ 0x74 ∧ c ≠ 0x66 ∧ Spec.Meaning.isWs c = false := by
  intro c h
  rcases h with rfl | h
  · decide
  · unfold Digit at h
    have h1 := UInt8.le_iff_toNat_le.mp h.1
    have h2 := UInt8.le_iff_toNat_le.mp h.2
    simp at h1 h2
    have ne : ∀ k : UInt8, (k.toNat < 0x30 ∨ 0x39 < k.toNat) → c ≠ k := by
      intro k hk e; subst e; omega
    refine ⟨ne _ (by decide), ne _ (by decide), ne _ (by decide), ne _ (by decide), ne _ (by decide), ne _ (by decide), ?_⟩
    simp [Spec.Meaning.isWs, ne 0x20 (by decide), ne 0x09 (by decide), ne 0x0A (by decide), ne 0x0D (by decide)]

theorem parses_null (md d : Nat) (hd : d ≤ md) : Parses md d nullLit := by
  refine ⟨.null, by simpa [MTree.depth] using hd, ?_⟩
  intro rest _ m hm
  cases m with
  | zero => simp [nullLit] at hm
  | succ m' => simp [nullLit, parseValue, lexScalar, litNull, stripPrefix]

theorem parses_true (md d : Nat) (hd : d ≤ md) : Parses md d trueLit := by
  refine ⟨.bool true, by simpa [MTree.depth] using hd, ?_⟩
  intro rest _ m hm
  cases m with
  | zero => simp [trueLit] at hm
  | succ m' => simp [trueLit, parseValue, lexScalar, litTrue, stripPrefix]

theorem parses_false (md d : Nat) (hd : d ≤ md) : Parses md d falseLit := by
  refine ⟨.bool false, by simpa [MTree.depth] using hd, ?_⟩
  intro rest _ m hm
  cases m with
  | zero => simp [falseLit] at hm
  | succ m' => simp [falseLit, parseValue, lexScalar, litFalse, stripPrefix]

theorem parses_num (md d : Nat) (hd : d ≤ md) (p : Bytes) (hp : JNumber p) : Parses md d p := by
  refine ⟨.num p, by simpa [MTree.depth] using hd, ?_⟩
  intro rest hr m hm
  obtain ⟨c, t, rfl, hc⟩ := jnumber_head hp
  obtain ⟨h1, h2, h3, h4, h5, h6, _⟩ := numhead_facts c hc
  have hl := lexNum_complete (c :: t) rest hp (follow_of_delim _ rest hr hp)
  cases m with
  | zero => simp at hm
  | succ m' =>
    rw [List.cons_append] at hl ⊢
    simp [parseValue, lexScalar, h1, h2, h3, h4, h5, h6, hl]

theorem parses_str (md d : Nat) (hd : d ≤ md) (p : Bytes) (hp : JString true p) : Parses md d p := by
  obtain ⟨s, hs⟩ := lexStr_complete p hp
  refine ⟨.str s, by simpa [MTree.depth] using hd, ?_⟩
  intro rest _ m hm
  obtain ⟨r, hr, hl⟩ := hs rest
  cases m with
  | zero =>
    have := congrArg List.length hr
    simp at this hm; omega
  | succ m' =>
    rw [hr]
    simp [parseValue, lexScalar, hl]

theorem nonWs_len {v : Bytes} (h : NonWsHead v) : 0 < v.length := by
  obtain ⟨c, t, rfl, _⟩ := h; simp

theorem elems_loop (md d : Nat) : ∀ (elems : List Elem), elems ≠ [] →
    (∀ e ∈ elems, JWs e.1 ∧ JWs e.2.2) → (∀ e ∈ elems, Parses md d e.2.1 ∧ NonWsHead e.2.1) →
    ∃ xs, d + depthList xs ≤ md ∧ ∀ rest m, 2 * (joinSep (elems.map elemPiece) ++ 0x5D :: rest).length + 1 ≤ m →
      parseElems m (skipWs (joinSep (elems.map elemPiece) ++ 0x5D :: rest)) = some (xs, rest) := by
  intro elems
  induction elems with
  | nil => intro h; exact absurd rfl h
  | cons e l ih =>
    intro _ hws hvals
    obtain ⟨w1, v, w2⟩ := e
    obtain ⟨hw1, hw2⟩ := hws (w1, v, w2) (by simp)
    obtain ⟨⟨t, htd, hpt⟩, hnw⟩ := hvals (w1, v, w2) (by simp)
    have hvpos := nonWs_len hnw
    simp only at hw1 hw2 hpt hnw
    cases l with
    | nil =>
      refine ⟨[t], by simpa [depthList] using htd, ?_⟩
      intro rest m hm
      simp only [List.map_cons, List.map_nil, joinSep, elemPiece, List.append_assoc] at hm ⊢
      rw [skipWs_ws_nonws w1 v _ hw1 hnw]
      cases m with
      | zero => omega
      | succ m' =>
        have hR : DelimHead (w2 ++ 0x5D :: rest) := delimHead_ws_sep w2 0x5D rest hw2 (by decide)
        have hp := hpt (w2 ++ 0x5D :: rest) hR m' (by simp only [List.length_append, List.length_cons] at hm ⊢; omega)
        simp only [parseElems, hp, skipWs_ws_byte w2 0x5D rest hw2 (by decide)]
        rw [if_neg (by decide), if_pos trivial]
    | cons e2 l' =>
      obtain ⟨xs, hxd, hxs⟩ := ih (by simp) (fun e he => hws e (by simp [he])) (fun e he => hvals e (by simp [he]))
      refine ⟨t :: xs, by simp only [depthList]; omega, ?_⟩
      intro rest m hm
      rw [List.map_cons, joinSep_cons (by simp)] at hm ⊢
      simp only [elemPiece, List.append_assoc, List.cons_append, List.nil_append] at hm ⊢
      rw [skipWs_ws_nonws w1 v _ hw1 hnw]
      cases m with
      | zero => omega
      | succ m' =>
        have hR : DelimHead (w2 ++ 0x2C :: (joinSep (List.map elemPiece (e2 :: l')) ++ 0x5D :: rest)) :=
          delimHead_ws_sep w2 0x2C _ hw2 (by decide)
        have hp := hpt _ hR m' (by simp only [List.length_append, List.length_cons] at hm ⊢; omega)
        simp only [parseElems, hp, skipWs_ws_byte w2 0x2C _ hw2 (by decide)]
        have hx := hxs rest m' (by simp only [List.length_append, List.length_cons] at hm ⊢; omega)
        rw [if_pos trivial, hx]

theorem jstring_len {p : Bytes} (h : JString true p) : 2 ≤ p.length := by
  obtain ⟨body, _, rfl⟩ := h; simp

theorem members_loop (md d : Nat) : ∀ (mems : List Mem), mems ≠ [] →
    (∀ m ∈ mems, JWs m.1 ∧ JString true m.2.1 ∧ JWs m.2.2.1 ∧ JWs m.2.2.2.1 ∧ JWs m.2.2.2.2.2) →
    (∀ m ∈ mems, Parses md d m.2.2.2.2.1 ∧ NonWsHead m.2.2.2.2.1) →
    ∃ ms, d + depthMembers ms ≤ md ∧ ∀ rest m, 2 * (joinSep (mems.map memPiece) ++ 0x7D :: rest).length ≤ m →
      parseMembers m (skipWs (joinSep (mems.map memPiece) ++ 0x7D :: rest)) = some (ms, rest) := by
  intro mems
  induction mems with
  | nil => intro h; exact absurd rfl h
  | cons e l ih =>
    intro _ hws hvals
    obtain ⟨w1, name, w2, w3, v, w4⟩ := e
    obtain ⟨hw1, hname, hw2, hw3, hw4⟩ := hws (w1, name, w2, w3, v, w4) (by simp)
    obtain ⟨⟨t, htd, hpt⟩, hnw⟩ := hvals (w1, name, w2, w3, v, w4) (by simp)
    simp only at hw1 hname hw2 hw3 hw4 hpt hnw
    obtain ⟨s, hs⟩ := lexStr_complete name hname
    have hnl := jstring_len hname
    have hvpos := nonWs_len hnw
    cases l with
    | nil =>
      refine ⟨[(s, t)], by simpa [depthMembers] using htd, ?_⟩
      intro rest m hm
      simp only [List.map_cons, List.map_nil, joinSep, memPiece, List.append_assoc, List.cons_append, List.nil_append] at hm ⊢
      obtain ⟨r, hr, hl⟩ := hs (w2 ++ 0x3A :: (w3 ++ (v ++ (w4 ++ 0x7D :: rest))))
      rw [hr] at hm ⊢
      rw [skipWs_ws_byte w1 0x22 r hw1 (by decide)]
      have hlen := congrArg List.length hr
      simp only [List.length_append, List.length_cons] at hlen hm
      cases m with
      | zero => omega
      | succ m' =>
        have hR : DelimHead (w4 ++ 0x7D :: rest) := delimHead_ws_sep w4 0x7D rest hw4 (by decide)
        have hp := hpt (w4 ++ 0x7D :: rest) hR m' (by simp only [List.length_append, List.length_cons]; omega)
        simp only [parseMembers, if_true, hl, skipWs_ws_byte w2 0x3A _ hw2 (by decide), skipWs_ws_nonws w3 v _ hw3 hnw, hp,
          skipWs_ws_byte w4 0x7D rest hw4 (by decide)]
        first | rfl | rw [if_neg (by decide), if_pos trivial]
    | cons e2 l' =>
      obtain ⟨ms, hmd, hms⟩ := ih (by simp) (fun e he => hws e (by simp [he])) (fun e he => hvals e (by simp [he]))
      refine ⟨(s, t) :: ms, by simp only [depthMembers]; omega, ?_⟩
      intro rest m hm
      rw [List.map_cons, joinSep_cons (by simp)] at hm ⊢
      simp only [memPiece, List.append_assoc, List.cons_append, List.nil_append] at hm ⊢
      obtain ⟨r, hr, hl⟩ := hs (w2 ++ 0x3A :: (w3 ++ (v ++ (w4 ++ 0x2C :: (joinSep (List.map memPiece (e2 :: l')) ++ 0x7D :: rest)))))
      try simp only [memPiece] at hr
      rw [hr] at hm ⊢
      rw [skipWs_ws_byte w1 0x22 r hw1 (by decide)]
      have hlen := congrArg List.length hr
      simp only [List.length_append, List.length_cons] at hlen hm
      cases m with
      | zero => omega
      | succ m' =>
        have hR : DelimHead (w4 ++ 0x2C :: (joinSep (List.map memPiece (e2 :: l')) ++ 0x7D :: rest)) :=
          delimHead_ws_sep w4 0x2C _ hw4 (by decide)
        have hp := hpt _ hR m' (by simp only [List.length_append, List.length_cons]; omega)
        have hx := hms rest m' (by simp only [List.length_append, List.length_cons]; omega)
        try simp only [memPiece] at hp hx
        simp only [parseMembers, if_true, hl, skipWs_ws_byte w2 0x3A _ hw2 (by decide), skipWs_ws_nonws w3 v _ hw3 hnw, hp,
          skipWs_ws_byte w4 0x2C _ hw4 (by decide)]
        first | rw [hx] | rw [if_pos trivial, hx]

theorem parseValue_head {n : Nat} {b : Bytes} {r : MTree × Bytes} (h : parseValue n b = some r) :
    ∃ c t, b = c :: t ∧ c ≠ 0x5D := by
  cases n with
  | zero => simp [parseValue] at h
  | succ n =>
    cases b with
    | nil => simp [parseValue] at h
    | cons c t =>
      refine ⟨c, t, rfl, ?_⟩
      intro hc; subst hc
      simp [parseValue, lexScalar, lexNum] at h

theorem parseElems_head {n : Nat} {b : Bytes} {r : List MTree × Bytes} (h : parseElems n b = some r) :
    ∃ c t, b = c :: t ∧ c ≠ 0x5D := by
  cases n with
  | zero => simp [parseElems] at h
  | succ n =>
    simp only [parseElems] at h
    cases hv : parseValue n b with
    | none => simp [hv] at h
    | some q => exact parseValue_head hv

theorem parseMembers_head {n : Nat} {b : Bytes} {r : List (Bytes × MTree) × Bytes} (h : parseMembers n b = some r) :
    ∃ t, b = 0x22 :: t := by
  cases n with
  | zero => simp [parseMembers] at h
  | succ n =>
    cases b with
    | nil => simp [parseMembers] at h
    | cons c t =>
      simp only [parseMembers] at h
      by_cases hc : c = 0x22
      · exact ⟨t, by rw [hc]⟩
      · simp [hc] at h

/-- every value of the grammar (strict UTF-8, duplicate names allowed) is parsed by the spec -/
theorem value_complete (md : Nat) {d : Nat} {v : Bytes} (h : JValue go md id d v) (hd : d ≤ md) :
    Parses md d v ∧ NonWsHead v := by
  induction h with
  | null d => exact ⟨parses_null md d hd, 0x6E, _, rfl, by decide⟩
  | true d => exact ⟨parses_true md d hd, 0x74, _, rfl, by decide⟩
  | false d => exact ⟨parses_false md d hd, 0x66, _, rfl, by decide⟩
  | num d p hp =>
    obtain ⟨c, t, rfl, hc⟩ := jnumber_head hp
    exact ⟨parses_num md d hd _ hp, c, t, rfl, (numhead_facts c hc).2.2.2.2.2.2⟩
  | str d p hp =>
    refine ⟨parses_str md d hd p hp, ?_⟩
    obtain ⟨body, _, rfl⟩ := hp
    exact ⟨0x22, _, rfl, by decide⟩
  | emptyArr d w hlt hw =>
    refine ⟨⟨.arr [], by simp only [MTree.depth, depthList]; omega, ?_⟩, 0x5B, _, rfl, by decide⟩
    intro rest _ m hm
    cases m with
    | zero => simp at hm
    | succ m' =>
      simp only [List.cons_append, List.append_assoc, List.nil_append, parseValue,
        show ((0x5B : UInt8) = 0x7B) = False by decide, if_false, if_true, skipWs_ws_byte w 0x5D rest hw (by decide)]
  | emptyObj d w hlt hw =>
    refine ⟨⟨.obj [], by simp only [MTree.depth, depthMembers]; omega, ?_⟩, 0x7B, _, rfl, by decide⟩
    intro rest _ m hm
    cases m with
    | zero => simp at hm
    | succ m' =>
      simp only [List.cons_append, List.append_assoc, List.nil_append, parseValue, if_true,
        skipWs_ws_byte w 0x7D rest hw (by decide)]
  | arr d elems hlt hne hws _ ih =>
    obtain ⟨xs, hxd, hxs⟩ := elems_loop md (d+1) elems hne hws (fun e he => ih e he (by omega))
    refine ⟨⟨.arr xs, by simp only [MTree.depth]; omega, ?_⟩, 0x5B, _, rfl, by decide⟩
    intro rest _ m hm
    simp only [show (fun e : Bytes × Bytes × Bytes => e.1 ++ e.2.1 ++ e.2.2) = elemPiece from rfl] at hm ⊢
    cases m with
    | zero => simp at hm
    | succ m' =>
      have hx := hxs rest m' (by simp only [List.cons_append, List.append_assoc, List.length_cons, List.length_append] at hm ⊢; omega)
      obtain ⟨c, t, hct, hc⟩ := parseElems_head hx
      simp only [List.cons_append, List.append_assoc, List.nil_append, parseValue,
        show ((0x5B : UInt8) = 0x7B) = False by decide, if_false, if_true]
      rw [hct] at hx ⊢
      simp only [hc, if_false, hx]
  | obj d mems hlt hne hws _ _ ih =>
    obtain ⟨ms, hmd, hms⟩ := members_loop md (d+1) mems hne hws (fun e he => ih e he (by omega))
    refine ⟨⟨.obj ms, by simp only [MTree.depth]; omega, ?_⟩, 0x7B, _, rfl, by decide⟩
    intro rest _ m hm
    simp only [show (fun m : Bytes × Bytes × Bytes × Bytes × Bytes × Bytes =>
      m.1 ++ m.2.1 ++ m.2.2.1 ++ [0x3A] ++ m.2.2.2.1 ++ m.2.2.2.2.1 ++ m.2.2.2.2.2) = memPiece from rfl] at hm ⊢
    cases m with
    | zero => simp at hm
    | succ m' =>
      have hx := hms rest m' (by simp only [List.cons_append, List.append_assoc, List.length_cons, List.length_append] at hm ⊢; omega)
      obtain ⟨t, hct⟩ := parseMembers_head hx
      simp only [List.cons_append, List.append_assoc, List.nil_append, parseValue, if_true]
      rw [hct] at hx ⊢
      simp only [show ((0x22 : UInt8) = 0x7D) = False by decide, if_false, hx]

/-- **Every text of the grammar is parsed by the spec**, with a tree no deeper than the grammar's bound. -/
theorem text_complete (md : Nat) (b : Bytes) (h : JText go md id b) : ∃ t, parseTree b = some t ∧ t.depth ≤ md := by
  obtain ⟨w1, v, w2, hw1, hv, hw2, rfl⟩ := h
  obtain ⟨⟨t, htd, hpt⟩, hnw⟩ := value_complete md hv (Nat.zero_le _)
  refine ⟨t, ?_, by omega⟩
  unfold parseTree parseTreeF
  rw [List.append_assoc, skipWs_ws_nonws w1 v w2 hw1 hnw]
  rw [hpt w2 (delimHead_ws w2 hw2) _ (by simp only [List.length_append]; omega)]
  have : skipWs w2 = [] := by
    have := skipWs_ws_append w2 [] hw2
    simpa [skipWs] using this
  simp [this]

/-- with duplicate names allowed the key function of the grammar is irrelevant -/
theorem jvalue_key_irrel (strict : Bool) (md : Nat) (k k' : Bytes → Bytes) {d : Nat} {v : Bytes}
    (h : JValue ⟨strict, true⟩ md k d v) : JValue ⟨strict, true⟩ md k' d v := by
  induction h with
  | null d => exact .null d
  | true d => exact .true d
  | false d => exact .false d
  | num d p hp => exact .num d p hp
  | str d p hp => exact .str d p hp
  | emptyArr d w h1 h2 => exact .emptyArr d w h1 h2
  | emptyObj d w h1 h2 => exact .emptyObj d w h1 h2
  | arr d elems h1 h2 h3 _ ih => exact .arr d elems h1 h2 h3 ih
  | obj d mems h1 h2 h3 _ _ ih => exact .obj d mems h1 h2 h3 ih (Or.inl rfl)

theorem jtext_key_irrel (strict : Bool) (md : Nat) (k k' : Bytes → Bytes) {b : Bytes}
    (h : JText ⟨strict, true⟩ md k b) : JText ⟨strict, true⟩ md k' b := by
  obtain ⟨w1, v, w2, h1, h2, h3, h4⟩ := h
  exact ⟨w1, v, w2, h1, jvalue_key_irrel strict md k k' h2, h3, h4⟩

end JsonV.Lemmas.GlueMeaningTreeC
