/-
The fuel of `needEscapeAux` (= number of bytes) always suffices: more fuel never changes the answer.
-/
import JsonV.Model.Fields

namespace JsonV.Lemmas.Fields
open JsonV JsonV.Model JsonV.Model.Fields

theorem needEscapeAux_fuel : ∀ (fuel : Nat) (b : Bytes), b.length ≤ fuel →
    needEscapeAux fuel b = needEscapeAux b.length b
  | 0, [], _ => rfl
  | 0, _ :: _, h => by simp at h
  | fuel + 1, [], _ => by simp [needEscapeAux]
  | fuel + 1, c :: rest, h => by
    have hr : rest.length ≤ fuel := by simpa using h
    simp only [List.length_cons, needEscapeAux]
    have h1 := needEscapeAux_fuel fuel rest hr
    have hd : ∀ k, needEscapeAux fuel (rest.drop k) = needEscapeAux rest.length (rest.drop k) := by
      intro k
      have hk : (rest.drop k).length ≤ rest.length := by simp
      rw [needEscapeAux_fuel fuel (rest.drop k) (Nat.le_trans hk hr), needEscapeAux_fuel rest.length (rest.drop k) hk]
    rw [h1, hd]

theorem needEscape_fuel (fuel : Nat) (b : Bytes) (h : b.length ≤ fuel) : needEscapeAux fuel b = needEscape b :=
  needEscapeAux_fuel fuel b h

end JsonV.Lemmas.Fields
