/-
Completeness of the spec's string lexer against the C01 grammar (strict UTF-8).
-/
import JsonV.Lemmas.GlueMeaningStr

set_option linter.unusedSimpArgs false

namespace JsonV.Lemmas.GlueMeaningStrC
open JsonV JsonV.Spec.Meaning JsonV.Spec.Grammar JsonV.Model
open JsonV.Lemmas.GlueMeaningLex JsonV.Lemmas.GlueMeaningStr JsonV.Lemmas.WireNumber

theorem specHexVal_of (a : UInt8) (h : HexDigit a) : Spec.Meaning.hexVal a = some (hexValue a) := by
  rw [hexVal_eq, WireString.hexVal_spec]; simp [h]

theorem hex4_complete (a b c d : UInt8) (t : Bytes) (ha : HexDigit a) (hb : HexDigit b) (hc : HexDigit c) (hd : HexDigit d) :
    hex4 (a :: b :: c :: d :: t) = some (hex4Value a b c d, t) := by
  simp only [hex4, specHexVal_of a ha, specHexVal_of b hb, specHexVal_of c hc, specHexVal_of d hd, Option.some.injEq,
    Prod.mk.injEq, and_true]
  exact hex_arith _ _ _ _

theorem lead_none_hi : ∀ b0 : UInt8, ¬ b0 < 0xF5 → Utf8.leadInfo b0.toNat = none := by
  apply forall_u8; decide +kernel

theorem toNat_le_ite (p : Prop) [Decidable p] (a b x : UInt8) (h : (if p then a.toNat else b.toNat) ≤ x.toNat) :
    (if p then a else b) ≤ x := by
  split <;> rename_i hp <;> simp only [hp, if_true, if_false] at h <;> exact UInt8.le_iff_toNat_le.mpr h
theorem ite_toNat_le (p : Prop) [Decidable p] (a b x : UInt8) (h : x.toNat ≤ (if p then a.toNat else b.toNat)) :
    x ≤ (if p then a else b) := by
  split <;> rename_i hp <;> simp only [hp, if_true, if_false] at h <;> exact UInt8.le_iff_toNat_le.mpr h

theorem isCont_of_toNat (c : UInt8) (h : Utf8.isCont c.toNat = true) : Spec.Meaning.isCont c = true := by
  simp only [Utf8.isCont, Bool.and_eq_true, decide_eq_true_eq] at h
  simp only [Spec.Meaning.isCont, Bool.and_eq_true, decide_eq_true_eq]
  exact ⟨UInt8.le_iff_toNat_le.mpr (by simpa using h.1), UInt8.le_iff_toNat_le.mpr (by simpa using h.2)⟩

/-- a well-formed multi-byte sequence of table 3-7 is accepted by the spec's `utf8Char`, which cuts right after it -/
theorem utf8Char_of_multi (p t : Bytes) (h : Utf8Multi p) :
    utf8Char (p ++ t) = some (p, t) ∧ ∃ b0 p', p = b0 :: p' ∧ ¬ b0 < 0xC2 := by
  obtain ⟨b0, b1, rest, sz, lo, hi, rfl, hli, hlen, hlo, hhi, hcont⟩ := h
  have hf := WireString.leadInfo_facts _ _ _ _ hli
  have hc2 : ¬ b0 < 0xC2 := by rw [UInt8.lt_iff_toNat_lt]; simp; omega
  have h80 : ¬ b0 < 0x80 := by rw [UInt8.lt_iff_toNat_lt]; simp; omega
  refine ⟨?_, b0, _, rfl, hc2⟩
  simp only [List.cons_append, utf8Char, h80, hc2, if_false]
  by_cases he0 : b0 < 0xE0
  · have := lead2 b0 hc2 he0
    rw [hli] at this
    simp only [Option.some.injEq, Prod.mk.injEq] at this
    obtain ⟨rfl, rfl, rfl⟩ := this
    have hr : rest = [] := by
      simp only [List.length_cons] at hlen
      cases rest with
      | nil => rfl
      | cons _ _ => simp at hlen
    subst hr
    have hb1 : Spec.Meaning.isCont b1 = true := isCont_of_toNat b1 (by simp [Utf8.isCont]; omega)
    simp [he0, hb1]
  · simp only [he0, if_false]
    by_cases hf0 : b0 < 0xF0
    · have := lead3 b0 he0 hf0
      rw [hli] at this
      simp only [Option.some.injEq, Prod.mk.injEq] at this
      obtain ⟨rfl, rfl, rfl⟩ := this
      match rest, hlen, hcont with
      | [b2], _, hcont =>
        have hb2 : Spec.Meaning.isCont b2 = true := isCont_of_toNat b2 (hcont b2 (by simp))
        have g1 := toNat_le_ite (b0 = 0xE0) 0xA0 0x80 b1 (by simpa using hlo)
        have g2 := ite_toNat_le (b0 = 0xED) 0x9F 0xBF b1 (by simpa using hhi)
        simp [hf0, hb2, g1, g2]
    · simp only [hf0, if_false]
      by_cases hf5 : b0 < 0xF5
      · have := lead4 b0 hf0 hf5
        rw [hli] at this
        simp only [Option.some.injEq, Prod.mk.injEq] at this
        obtain ⟨rfl, rfl, rfl⟩ := this
        match rest, hlen, hcont with
        | [b2, b3], _, hcont =>
          have hb2 : Spec.Meaning.isCont b2 = true := isCont_of_toNat b2 (hcont b2 (by simp))
          have hb3 : Spec.Meaning.isCont b3 = true := isCont_of_toNat b3 (hcont b3 (by simp))
          have g1 := toNat_le_ite (b0 = 0xF0) 0x90 0x80 b1 (by simpa using hlo)
          have g2 := ite_toNat_le (b0 = 0xF4) 0x8F 0xBF b1 (by simpa using hhi)
          simp [hf5, hb2, hb3, g1, g2]
      · rw [lead_none_hi b0 hf5] at hli; cases hli

def contWith (u : Bytes) (o : Option (Bytes × Bytes)) : Option (Bytes × Bytes) :=
  match o with
  | some (s, r) => some (u ++ s, r)
  | none => none

theorem strBody_esc_step (e u t : Bytes) (f : Nat) (h : escape (e ++ t) = some (u, t)) :
    strBody (f+1) (0x5C :: e ++ t) = contWith u (strBody f t) := by
  simp only [List.cons_append, strBody, show ((0x5C : UInt8) = 0x22) = False by decide, if_false, if_true, h, contWith]
  cases strBody f t with
  | none => rfl
  | some p => rfl

theorem not_surrogate_bools (v : Nat) (h : ¬ Surrogate v) :
    (decide (0xD800 ≤ v) && decide (v < 0xDC00)) = false ∧ (decide (0xDC00 ≤ v) && decide (v < 0xE000)) = false := by
  unfold Surrogate at h
  constructor <;> simp only [Bool.and_eq_false_iff, decide_eq_false_iff_not] <;> omega

theorem high_bools (v : Nat) (h : HighSurrogate v) : (decide (0xD800 ≤ v) && decide (v < 0xDC00)) = true := by
  unfold HighSurrogate at h; simp [h.1, h.2]
theorem low_bools (v : Nat) (h : LowSurrogate v) : (decide (0xDC00 ≤ v) && decide (v < 0xE000)) = true := by
  unfold LowSurrogate at h; simp [h.1, h.2]

/-- one `char` of the grammar (strict) is consumed by one iteration of `strBody` -/
theorem strBody_char_step (c : Bytes) (hc : JChar true c) :
    0 < c.length ∧ ∃ u, ∀ (t : Bytes) (f : Nat), strBody (f+1) (c ++ t) = contWith u (strBody f t) := by
  cases hc with
  | plain x h20 h80 h22 h5c =>
    refine ⟨by simp, [x], ?_⟩
    intro t f
    have hlt : ¬ x < 0x20 := by
      rw [UInt8.lt_iff_toNat_lt]; rw [UInt8.le_iff_toNat_le] at h20; omega
    simp only [List.cons_append, List.nil_append, strBody, h22, h5c, if_false, hlt, utf8Char, h80, if_true, contWith]
    cases strBody f t with
    | none => rfl
    | some p => rfl
  | utf8 _ hm =>
    obtain ⟨hu, b0, p', hp, hc2⟩ := utf8Char_of_multi c [] hm
    refine ⟨by rw [hp]; simp, c, ?_⟩
    intro t f
    have hu' := (utf8Char_of_multi c t hm).1
    subst hp
    have h22 : b0 ≠ 0x22 := by intro e; subst e; exact hc2 (by decide)
    have h5c : b0 ≠ 0x5C := by intro e; subst e; exact hc2 (by decide)
    have hlt : ¬ b0 < 0x20 := by
      intro h; apply hc2
      rw [UInt8.lt_iff_toNat_lt] at h ⊢; simp at h ⊢; omega
    rw [List.cons_append] at hu' ⊢
    simp only [strBody, h22, h5c, if_false, hlt, hu', contWith]
    cases strBody f t with
    | none => rfl
    | some p => rfl
  | raw x hs _ => cases hs
  | esc x hx =>
    unfold SimpleEscape at hx
    have : ∃ out : UInt8, ∀ t, escape ([x] ++ t) = some ([out], t) := by
      rcases hx with rfl | rfl | rfl | rfl | rfl | rfl | rfl | rfl
      · exact ⟨0x22, fun t => by simp [escape]⟩
      · exact ⟨0x5C, fun t => by simp [escape]⟩
      · exact ⟨0x2F, fun t => by simp [escape]⟩
      · exact ⟨0x08, fun t => by simp [escape]⟩
      · exact ⟨0x0C, fun t => by simp [escape]⟩
      · exact ⟨0x0A, fun t => by simp [escape]⟩
      · exact ⟨0x0D, fun t => by simp [escape]⟩
      · exact ⟨0x09, fun t => by simp [escape]⟩
    obtain ⟨out, ho⟩ := this
    exact ⟨by simp, [out], fun t f => strBody_esc_step [x] [out] t f (ho t)⟩
  | uni a b c d ha hb hc hd hns =>
    refine ⟨by simp, utf8Encode (hex4Value a b c d), fun t f => ?_⟩
    have hb' := not_surrogate_bools _ (hns rfl)
    have : escape ([0x75, a, b, c, d] ++ t) = some (utf8Encode (hex4Value a b c d), t) := by
      simp [escape, hex4_complete a b c d t ha hb hc hd, hb'.1, hb'.2]
    exact strBody_esc_step [0x75, a, b, c, d] _ t f this
  | pair a b c d e f' g h ha hb hc hd he hf hg hh hhi hlo =>
    refine ⟨by simp, utf8Encode (0x10000 + (hex4Value a b c d - 0xD800) * 1024 + (hex4Value e f' g h - 0xDC00)), fun t f => ?_⟩
    have : escape ([0x75, a, b, c, d, 0x5C, 0x75, e, f', g, h] ++ t) =
        some (utf8Encode (0x10000 + (hex4Value a b c d - 0xD800) * 1024 + (hex4Value e f' g h - 0xDC00)), t) := by
      simp [escape, hex4_complete a b c d _ ha hb hc hd, hex4_complete e f' g h t he hf hg hh, high_bools _ hhi, low_bools _ hlo]
    exact strBody_esc_step [0x75, a, b, c, d, 0x5C, 0x75, e, f', g, h] _ t f this

/-- `*char "` of the grammar is consumed by `strBody`, which cuts right after the quote; the decoded bytes depend
on the body only. -/
theorem strBody_complete (body : Bytes) (h : JChars true body) :
    ∃ s, ∀ (rest : Bytes) (fuel : Nat), body.length < fuel → strBody fuel (body ++ 0x22 :: rest) = some (s, rest) := by
  induction h with
  | nil =>
    refine ⟨[], ?_⟩
    intro rest fuel hf
    cases fuel with
    | zero => omega
    | succ n => simp [strBody]
  | cons c r hc _ ih =>
    obtain ⟨hpos, u, hstep⟩ := strBody_char_step c hc
    obtain ⟨s, hs⟩ := ih
    refine ⟨u ++ s, ?_⟩
    intro rest fuel hf
    cases fuel with
    | zero => omega
    | succ n =>
      simp only [List.length_append] at hf
      rw [List.append_assoc, hstep, hs rest n (by omega)]; rfl

/-- a `string` of the grammar (strict), followed by anything, is lexed by `lexStr` (after its opening quote) -/
theorem lexStr_complete (lit : Bytes) (h : JString true lit) :
    ∃ s, ∀ rest, ∃ r, lit ++ rest = 0x22 :: r ∧ lexStr r = some (s, rest) := by
  obtain ⟨body, hb, rfl⟩ := h
  obtain ⟨s, hs⟩ := strBody_complete body hb
  refine ⟨s, fun rest => ⟨body ++ 0x22 :: rest, by simp, ?_⟩⟩
  exact hs rest _ (by simp; omega)

end JsonV.Lemmas.GlueMeaningStrC
