/-
Order lemmas for the comparators of `makeStructFields`: `bytesLe` (strings.Compare ≤ 0),
`indexLe` (slices.Compare ≤ 0 on index paths) and `candLe` (name, depth, explicitly-named first)
are total preorders; `bytesLe` is antisymmetric.
-/
import JsonV.Model.Fields

namespace JsonV.Lemmas.Fields
open JsonV JsonV.Model JsonV.Model.Fields

theorem u8_eq_of_toNat {a b : UInt8} (h : a.toNat = b.toNat) : a = b := UInt8.toNat_inj.mp h

theorem bytesLe_refl : ∀ a : Bytes, bytesLe a a = true
  | [] => rfl
  | x :: xs => by simp [bytesLe, bytesLe_refl xs]

theorem bytesLe_total : ∀ a b : Bytes, (bytesLe a b || bytesLe b a) = true
  | [], _ => by simp [bytesLe]
  | _ :: _, [] => by simp [bytesLe]
  | x :: xs, y :: ys => by
    have ih := bytesLe_total xs ys
    simp only [bytesLe, Bool.or_eq_true, decide_eq_true_eq, Bool.and_eq_true, beq_iff_eq] at ih ⊢
    by_cases h1 : x.toNat < y.toNat
    · exact Or.inl (Or.inl h1)
    · by_cases h2 : y.toNat < x.toNat
      · exact Or.inr (Or.inl h2)
      · have : x = y := u8_eq_of_toNat (by omega)
        subst this
        rcases ih with h | h
        · exact Or.inl (Or.inr ⟨rfl, h⟩)
        · exact Or.inr (Or.inr ⟨rfl, h⟩)

theorem bytesLe_trans : ∀ a b c : Bytes, bytesLe a b = true → bytesLe b c = true → bytesLe a c = true
  | [], _, _, _, _ => by simp [bytesLe]
  | _ :: _, [], _, h, _ => by simp [bytesLe] at h
  | _ :: _, _ :: _, [], _, h => by simp [bytesLe] at h
  | x :: xs, y :: ys, z :: zs, h1, h2 => by
    simp only [bytesLe, Bool.or_eq_true, decide_eq_true_eq, Bool.and_eq_true, beq_iff_eq] at h1 h2 ⊢
    rcases h1 with h1 | ⟨e1, h1⟩ <;> rcases h2 with h2 | ⟨e2, h2⟩
    · exact Or.inl (by omega)
    · subst e2; exact Or.inl h1
    · subst e1; exact Or.inl h2
    · subst e1; subst e2; exact Or.inr ⟨rfl, bytesLe_trans xs ys zs h1 h2⟩

theorem bytesLe_antisymm : ∀ a b : Bytes, bytesLe a b = true → bytesLe b a = true → a = b
  | [], [], _, _ => rfl
  | [], _ :: _, _, h => by simp [bytesLe] at h
  | _ :: _, [], h, _ => by simp [bytesLe] at h
  | x :: xs, y :: ys, h1, h2 => by
    simp only [bytesLe, Bool.or_eq_true, decide_eq_true_eq, Bool.and_eq_true, beq_iff_eq] at h1 h2
    rcases h1 with h1 | ⟨e1, h1⟩ <;> rcases h2 with h2 | ⟨e2, h2⟩
    · omega
    · subst e2; omega
    · subst e1; omega
    · subst e1; rw [bytesLe_antisymm xs ys h1 h2]

theorem indexLe_total : ∀ a b : List Nat, (indexLe a b || indexLe b a) = true
  | [], _ => by simp [indexLe]
  | _ :: _, [] => by simp [indexLe]
  | x :: xs, y :: ys => by
    have ih := indexLe_total xs ys
    simp only [indexLe, Bool.or_eq_true, decide_eq_true_eq, Bool.and_eq_true, beq_iff_eq] at ih ⊢
    by_cases h1 : x < y
    · exact Or.inl (Or.inl h1)
    · by_cases h2 : y < x
      · exact Or.inr (Or.inl h2)
      · have : x = y := by omega
        subst this
        rcases ih with h | h
        · exact Or.inl (Or.inr ⟨rfl, h⟩)
        · exact Or.inr (Or.inr ⟨rfl, h⟩)

theorem indexLe_trans : ∀ a b c : List Nat, indexLe a b = true → indexLe b c = true → indexLe a c = true
  | [], _, _, _, _ => by simp [indexLe]
  | _ :: _, [], _, h, _ => by simp [indexLe] at h
  | _ :: _, _ :: _, [], _, h => by simp [indexLe] at h
  | x :: xs, y :: ys, z :: zs, h1, h2 => by
    simp only [indexLe, Bool.or_eq_true, decide_eq_true_eq, Bool.and_eq_true, beq_iff_eq] at h1 h2 ⊢
    rcases h1 with h1 | ⟨e1, h1⟩ <;> rcases h2 with h2 | ⟨e2, h2⟩
    · exact Or.inl (by omega)
    · subst e2; exact Or.inl h1
    · subst e1; exact Or.inl h2
    · subst e1; subst e2; exact Or.inr ⟨rfl, indexLe_trans xs ys zs h1 h2⟩

/-- `candLe` unfolded into propositions. -/
theorem candLe_iff (x y : RField) : candLe x y = true ↔
    (x.name ≠ y.name ∧ bytesLe x.name y.name = true) ∨
    (x.name = y.name ∧ x.depth < y.depth) ∨
    (x.name = y.name ∧ x.depth = y.depth ∧ (x.hasName = true ∨ y.hasName = false)) := by
  unfold candLe
  by_cases hn : x.name = y.name
  · by_cases hd : x.depth = y.depth
    · simp [hn, hd]
    · simp [hn, hd]
  · simp [hn]

theorem candLe_total (x y : RField) : (candLe x y || candLe y x) = true := by
  simp only [Bool.or_eq_true, candLe_iff]
  by_cases hn : x.name = y.name
  · by_cases hd : x.depth = y.depth
    · cases hx : x.hasName <;> cases hy : y.hasName <;> simp [hn, hd]
    · rcases Nat.lt_or_gt_of_ne hd with h | h
      · exact Or.inl (Or.inr (Or.inl ⟨hn, h⟩))
      · exact Or.inr (Or.inr (Or.inl ⟨hn.symm, h⟩))
  · have := bytesLe_total x.name y.name
    simp only [Bool.or_eq_true] at this
    rcases this with h | h
    · exact Or.inl (Or.inl ⟨hn, h⟩)
    · exact Or.inr (Or.inl ⟨fun e => hn e.symm, h⟩)

theorem candLe_trans (x y z : RField) (h1 : candLe x y = true) (h2 : candLe y z = true) : candLe x z = true := by
  rw [candLe_iff] at h1 h2 ⊢
  rcases h1 with ⟨n1, b1⟩ | ⟨n1, d1⟩ | ⟨n1, d1, t1⟩ <;> rcases h2 with ⟨n2, b2⟩ | ⟨n2, d2⟩ | ⟨n2, d2, t2⟩
  · by_cases hxz : x.name = z.name
    · exfalso; rw [← hxz] at b2; exact n1 (bytesLe_antisymm _ _ b1 b2)
    · exact Or.inl ⟨hxz, bytesLe_trans _ _ _ b1 b2⟩
  · exact Or.inl ⟨by rw [← n2]; exact n1, by rw [← n2]; exact b1⟩
  · exact Or.inl ⟨by rw [← n2]; exact n1, by rw [← n2]; exact b1⟩
  · exact Or.inl ⟨by rw [n1]; exact n2, by rw [n1]; exact b2⟩
  · exact Or.inr (Or.inl ⟨n1.trans n2, by omega⟩)
  · exact Or.inr (Or.inl ⟨n1.trans n2, by omega⟩)
  · exact Or.inl ⟨by rw [n1]; exact n2, by rw [n1]; exact b2⟩
  · exact Or.inr (Or.inl ⟨n1.trans n2, by omega⟩)
  · refine Or.inr (Or.inr ⟨n1.trans n2, by omega, ?_⟩)
    rcases t1 with t | t
    · exact Or.inl t
    · rcases t2 with t' | t'
      · rw [t] at t'; cases t'
      · exact Or.inr t'

end JsonV.Lemmas.Fields
