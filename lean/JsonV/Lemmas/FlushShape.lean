/-
C07 helper lemmas, part 5: the shape of the unflushed buffer.

`AShape`/`VShape`/`CShape` say, for the innermost open containers, that the bytes a later
UnwriteEmptyObjectMember / UnwriteOnlyObjectMemberName would scan over are still in `buf` and are laid out as
`[,] ws "name" : ws value`; the recursion over the stack covers nested retractions (`"E":{` … `}` whose own
members were all retracted, then `"E":{}` itself).
-/
import JsonV.Lemmas.FlushCycle

namespace JsonV.Model.Flush
open JsonV

/-! ### what the detection of UnwriteEmptyObjectMember looks at -/

theorem emptyLenR_ne_zero {r : List UInt8} (h : emptyLenR r ≠ 0) :
    ∃ x y z r', r = x :: y :: z :: r' ∧
      ((y = 0x6c ∧ x = 0x6c) ∨ (y = 0x22 ∧ x = 0x22 ∧ z ≠ 0x5c) ∨ (y = 0x7b ∧ x = 0x7d) ∨ (y = 0x5b ∧ x = 0x5d)) := by
  match r, h with
  | x :: y :: z :: r', h =>
    refine ⟨x, y, z, r', rfl, ?_⟩
    simp only [emptyLenR] at h
    by_cases h1 : (y == 0x6c && x == 0x6c) = true
    · left; simpa using h1
    · by_cases h2 : (y == 0x22 && x == 0x22) = true
      · right; left
        have h2' : y = 0x22 ∧ x = 0x22 := by simpa using h2
        refine ⟨h2'.1, h2'.2, ?_⟩
        intro hz; simp [h1, h2, hz] at h
      · by_cases h3 : (y == 0x7b && x == 0x7d) = true
        · right; right; left; simpa using h3
        · by_cases h4 : (y == 0x5b && x == 0x5d) = true
          · right; right; right; simpa using h4
          · simp [h1, h2, h3, h4] at h
  | [], h => simp [emptyLenR] at h
  | [_], h => simp [emptyLenR] at h
  | [_, _], h => simp [emptyLenR] at h

/-- Only the last three bytes matter. -/
theorem emptyLenR_three (x y z : UInt8) (r r' : List UInt8) :
    emptyLenR (x :: y :: z :: r) = emptyLenR (x :: y :: z :: r') := by simp [emptyLenR]

/-- If the whole stream does not end like an empty value, neither does any suffix of it. -/
theorem emptyLenR_suffix_zero (b d : List UInt8) (h : emptyLenR (b ++ d) = 0) : emptyLenR b = 0 := by
  match b with
  | [] => rfl
  | [_] => rfl
  | [_, _] => rfl
  | x :: y :: z :: r =>
    rw [emptyLenR_three x y z r (r ++ d)]
    simpa using h

theorem endsEmptyR_of_emptyLenR {r : List UInt8} (h : emptyLenR r ≠ 0) : endsEmptyR r = true := by
  obtain ⟨x, y, z, r', rfl, hc⟩ := emptyLenR_ne_zero h
  rcases hc with ⟨rfl, rfl⟩ | ⟨rfl, rfl, _⟩ | ⟨rfl, rfl⟩ | ⟨rfl, rfl⟩ <;> simp [endsEmptyR]

theorem isWs_cases {c : UInt8} (h : isWs c = true) : c = 0x20 ∨ c = 0x09 ∨ c = 0x0d ∨ c = 0x0a := by
  simp only [isWs, Bool.or_eq_true, beq_iff_eq] at h
  rcases h with ((h | h) | h) | h <;> simp [h]

theorem ws_not_special {c : UInt8} (h : isWs c = true) :
    c ≠ 0x6c ∧ c ≠ 0x22 ∧ c ≠ 0x7b ∧ c ≠ 0x5b ∧ c ≠ 0x7d ∧ c ≠ 0x5d ∧ c ≠ 0x5c := by
  rcases isWs_cases h with h | h | h | h <;> subst h <;> decide

/-- Token texts as the encoder produces them (what `SaneOp` asks of a literal/number or a string). -/
def SaneText (text : Bytes) : Prop :=
  text = [0x6e, 0x75, 0x6c, 0x6c] ∨
  (∃ p c, text = p ++ [c] ∧ c ≠ 0x6c ∧ c ≠ 0x22 ∧ c ≠ 0x7d ∧ c ≠ 0x5d ∧ c ≠ 0x7b ∧ c ≠ 0x5b) ∨
  (∃ body, text = 0x22 :: body ++ [0x22] ∧ QuotesEscaped body)

theorem saneText_ne_nil {text : Bytes} (h : SaneText text) : text ≠ [] := by
  rcases h with rfl | ⟨p, c, rfl, _⟩ | ⟨b, rfl, _⟩ <;> simp

/-- The last byte of a sane token text is not an opening bracket. -/
theorem saneText_last {text : Bytes} (h : SaneText text) : ∃ p c, text = p ++ [c] ∧ c ≠ 0x7b ∧ c ≠ 0x5b := by
  rcases h with rfl | ⟨p, c, rfl, h⟩ | ⟨b, rfl, _⟩
  · exact ⟨[0x6e, 0x75, 0x6c], 0x6c, rfl, by decide, by decide⟩
  · exact ⟨p, c, rfl, h.2.2.2.2.1, h.2.2.2.2.2⟩
  · exact ⟨0x22 :: b, 0x22, by simp, by decide, by decide⟩

/-- After `: ws`, a sane scalar/string whose end makes the detection fire IS one of the empty encodings. -/
theorem emptyText_of_value (text ws2 : Bytes) (R : List UInt8) (_hws : WsOnly ws2) (ht : SaneText text)
    (h : emptyLenR (text.reverse ++ (ws2.reverse ++ 0x3a :: R)) ≠ 0) : EmptyText text := by
  obtain ⟨x, y, z, r', hr, hc⟩ := emptyLenR_ne_zero h
  rcases ht with rfl | ⟨p, c, rfl, hcne⟩ | ⟨body, rfl, hq⟩
  · exact EmptyText.null
  · exfalso
    have hx : c = x := by simpa using congrArg List.head? hr
    subst hx
    rcases hc with ⟨_, rfl⟩ | ⟨_, rfl, _⟩ | ⟨_, rfl⟩ | ⟨_, rfl⟩
    · exact hcne.1 rfl
    · exact hcne.2.1 rfl
    · exact hcne.2.2.1 rfl
    · exact hcne.2.2.2.1 rfl
  · cases hb : body.reverse with
    | nil =>
      have : body = [] := by simpa using hb
      subst this; exact EmptyText.str
    | cons yb br =>
      exfalso
      have hbody : body = br.reverse ++ [yb] := by
        have := congrArg List.reverse hb; simpa using this
      have hr' : 0x22 :: yb :: (br ++ 0x22 :: (ws2.reverse ++ 0x3a :: R)) = x :: y :: z :: r' := by
        rw [← hr]; simp [hb]
      have hx : x = 0x22 := by simpa using (congrArg List.head? hr').symm
      have hy : y = yb := by
        have := congrArg (fun l => l.tail.head?) hr'; simpa using this.symm
      subst hx
      rcases hc with ⟨_, h⟩ | ⟨hy2, _, hz⟩ | ⟨_, h⟩ | ⟨_, h⟩
      · exact absurd h (by decide)
      · -- y = '"' inside the body: it is escaped, so z = '\'
        rw [hy] at hy2; subst hy2
        obtain ⟨l1', hl1⟩ := hq br.reverse [] (by simpa using hbody)
        have hbr : br = 0x5c :: l1'.reverse := by
          have := congrArg List.reverse hl1; simpa using this
        apply hz
        have := congrArg (fun l => l.tail.tail.head?) hr'
        simpa [hbr] using this.symm
      · exact absurd h (by decide)
      · exact absurd h (by decide)

/-- Closing a container directly after its opening byte: the detection fires only for `{}` / `[]` written
without whitespace in between. -/
theorem emptyText_of_close (c o : UInt8) (ws3 : Bytes) (R : List UInt8) (hws : WsOnly ws3)
    (hc : c = 0x7d ∨ c = 0x5d) (h : emptyLenR (c :: (ws3.reverse ++ o :: R)) ≠ 0) :
    ws3 = [] ∧ EmptyText [o, c] := by
  obtain ⟨x, y, z, r', hr, hcs⟩ := emptyLenR_ne_zero h
  have hx : c = x := by simpa using congrArg List.head? hr
  subst hx
  cases hw : ws3.reverse with
  | cons w wr =>
    exfalso
    have hwws : isWs w = true := hws w (by rw [← List.mem_reverse, hw]; simp)
    have hy : y = w := by
      have := congrArg (fun l => l.tail.head?) hr; simpa [hw] using this.symm
    subst hy
    have := ws_not_special hwws
    rcases hcs with ⟨h, _⟩ | ⟨h, _, _⟩ | ⟨h, _⟩ | ⟨h, _⟩
    · exact this.1 h
    · exact this.2.1 h
    · exact this.2.2.1 h
    · exact this.2.2.2.1 h
  | nil =>
    have hws3 : ws3 = [] := by simpa using hw
    refine ⟨hws3, ?_⟩
    have hy : y = o := by
      have := congrArg (fun l => l.tail.head?) hr; simpa [hw] using this.symm
    subst hy
    rcases hcs with ⟨_, h⟩ | ⟨_, h, _⟩ | ⟨h1, h2⟩ | ⟨h1, h2⟩
    · rcases hc with hc | hc <;> (rw [hc] at h; exact absurd h (by decide))
    · rcases hc with hc | hc <;> (rw [hc] at h; exact absurd h (by decide))
    · rw [h1, h2]; exact EmptyText.obj
    · rw [h1, h2]; exact EmptyText.arr

/-- The stream does not end in an opening bracket. -/
def NoOpenerEnd (t : Bytes) : Prop := ∀ c, t.getLast? = some c → c ≠ 0x7b ∧ c ≠ 0x5b

/-- Closing a container that already has content never looks like an empty value. -/
theorem emptyLen_close_nonempty (c : UInt8) (ws3 T : Bytes) (hws : WsOnly ws3) (hc : c = 0x7d ∨ c = 0x5d)
    (hT : NoOpenerEnd T) : emptyLenR (c :: (ws3.reverse ++ T.reverse)) = 0 := by
  apply Decidable.byContradiction
  intro h
  obtain ⟨x, y, z, r', hr, hcs⟩ := emptyLenR_ne_zero h
  have hx : c = x := by simpa using congrArg List.head? hr
  subst hx
  have hyo : y = 0x7b ∨ y = 0x5b := by
    rcases hcs with ⟨_, h⟩ | ⟨_, h, _⟩ | ⟨h1, _⟩ | ⟨h1, _⟩
    · rcases hc with hc | hc <;> (rw [hc] at h; exact absurd h (by decide))
    · rcases hc with hc | hc <;> (rw [hc] at h; exact absurd h (by decide))
    · exact Or.inl h1
    · exact Or.inr h1
  cases hw : ws3.reverse with
  | cons w wr =>
    have hwws : isWs w = true := hws w (by rw [← List.mem_reverse, hw]; simp)
    have hy : y = w := by
      have := congrArg (fun l => l.tail.head?) hr; simpa [hw] using this.symm
    subst hy
    have := ws_not_special hwws
    rcases hyo with h | h
    · exact this.2.2.1 h
    · exact this.2.2.2.1 h
  | nil =>
    have hy : T.getLast? = some y := by
      have := congrArg (fun l => l.tail.head?) hr
      rw [← List.head?_reverse]; simpa [hw] using this
    have := hT y hy
    rcases hyo with h | h
    · exact this.1 h
    · exact this.2 h

theorem noOpenerEnd_append_last (t : Bytes) (c : UInt8) (h1 : c ≠ 0x7b) (h2 : c ≠ 0x5b) : NoOpenerEnd (t ++ [c]) := by
  intro d hd
  have : d = c := by simpa using hd.symm
  subst this; exact ⟨h1, h2⟩

/-! ### the shapes -/

/-- What precedes the member inside the buffer, and what is remembered about it: for the first member of its
object the buffer before it has the shape `A` (it ends in the `{`); otherwise a comma was written, the stream
before it does not end in an opening bracket, and the buffer before it satisfies `Q` (it is again
unwrite-compatible with the whole stream). -/
def MemberHead (dl : Bytes) (first : Bool) (A Q : Bytes → Prop) (pre sep : Bytes) : Prop :=
  MemberSep pre sep ∧ (first = true → sep = [] ∧ A pre) ∧
    (first = false → sep = [0x2c] ∧ NoOpenerEnd (dl ++ pre) ∧ Q pre)

/-- `buf` is unwrite-compatible with the whole stream `dl ++ buf` for `n` successive calls of
UnwriteEmptyObjectMember (n = Length()/2 members of the current object): whenever the detection fires on the whole
stream, the call on `buf` alone removes exactly the same bytes, lands on a member boundary (shape `A` after the last
member, otherwise not after an opening bracket), and what is left is compatible for n-1 further calls. -/
def CompatA (dl : Bytes) (A : Bytes → Prop) : Nat → Bytes → Prop
  | 0, _ => True
  | k + 1, buf => emptyLenR (dl ++ buf).reverse ≠ 0 →
      ∃ pre, unwriteEmptyBytes buf = some (pre, true) ∧ unwriteEmptyBytes (dl ++ buf) = some (dl ++ pre, true) ∧
        (k = 0 → A pre) ∧ (k ≠ 0 → NoOpenerEnd (dl ++ pre)) ∧ CompatA dl A k pre

/-- The buffer directly after an opening byte (Length() == 0), for the stack of enclosing frames: the opening byte
is in the buffer; if the enclosing frame is an object, so is `[,] ws "name" : ws` of the member being written, and
if that member is the first of its object (parent Length() == 2 after name and value), recursively the same holds
for what precedes it. -/
def AShape (dl : Bytes) : List Frame → Bytes → Prop
  | [], _ => True
  | p :: rest, buf => ∃ b o, buf = b ++ [o] ∧ OpenerLike o ∧
      (p.isObj = true → ∃ pre sep ws1 name ws2,
        b = pre ++ sep ++ ws1 ++ (0x22 :: name ++ [0x22]) ++ [0x3a] ++ ws2 ∧
        WsOnly ws1 ∧ WsOnly ws2 ∧ QuotesEscaped name ∧
        MemberHead dl (p.len == 2) (AShape dl rest) (CompatA dl (AShape dl rest) ((p.len - 2) / 2)) pre sep)

def Compat (dl : Bytes) (stack : List Frame) : Nat → Bytes → Prop := CompatA dl (AShape dl stack)

/-- The buffer after a member name (needObjectValue). -/
def VShape (dl : Bytes) (len : Nat) (stack : List Frame) (buf : Bytes) : Prop :=
  ∃ pre sep ws1 name, buf = pre ++ sep ++ ws1 ++ (0x22 :: name ++ [0x22]) ∧ WsOnly ws1 ∧ QuotesEscaped name ∧
    MemberHead dl (len == 1) (AShape dl stack) (Compat dl stack ((len - 1) / 2)) pre sep

/-- The buffer after a member whose value is one of the empty encodings. -/
def CShape (dl : Bytes) (len : Nat) (stack : List Frame) (buf : Bytes) : Prop :=
  ∃ pre sep ws1 name ws2 val,
    buf = pre ++ sep ++ ws1 ++ (0x22 :: name ++ [0x22]) ++ [0x3a] ++ ws2 ++ val ∧
    WsOnly ws1 ∧ WsOnly ws2 ∧ QuotesEscaped name ∧ EmptyText val ∧
    MemberHead dl (len == 2) (AShape dl stack) (Compat dl stack ((len - 2) / 2)) pre sep

/-- The invariant of a run.  (The Bool is the freshness flag of `stepD`; the invariant does not depend on it.) -/
structure InvS (e : Enc) (fresh : Bool) : Prop where
  bottom : bottomIsObj e.last e.stack = false
  parents : ∀ f ∈ e.stack, f.len > 0 ∧ (f.isObj = true → f.len % 2 = 0)
  opened : e.last.len = 0 → AShape e.delivered e.stack e.buf
  named : e.last.needValue = true → VShape e.delivered e.last.len e.stack e.buf
  stale : e.last.needName = true → e.last.len > 0 → Compat e.delivered e.stack (e.last.len / 2) e.buf
  noOpen : e.last.len > 0 → NoOpenerEnd e.total

theorem compat_zero (dl : Bytes) (st : List Frame) (buf : Bytes) : Compat dl st 0 buf := trivial

theorem compat_of_zero {dl : Bytes} {st : List Frame} {buf : Bytes} (n : Nat)
    (h : emptyLenR (dl ++ buf).reverse = 0) : Compat dl st n buf := by
  cases n with
  | zero => trivial
  | succ k => intro hne; exact absurd h hne

theorem compat_step {dl : Bytes} {st : List Frame} {n : Nat} {buf : Bytes} (h : Compat dl st n buf) (hn : n ≠ 0)
    (hne : emptyLenR (dl ++ buf).reverse ≠ 0) :
    ∃ pre, unwriteEmptyBytes buf = some (pre, true) ∧ unwriteEmptyBytes (dl ++ buf) = some (dl ++ pre, true) ∧
      (n = 1 → AShape dl st pre) ∧ (n ≠ 1 → NoOpenerEnd (dl ++ pre)) ∧ Compat dl st (n - 1) pre := by
  cases n with
  | zero => exact absurd rfl hn
  | succ k =>
    obtain ⟨pre, h1, h2, h3, h4, h5⟩ := h hne
    exact ⟨pre, h1, h2, fun e => h3 (by omega), fun e => h4 (by omega), h5⟩

theorem invS_init (omitNL fresh : Bool) : InvS { omitNL := omitNL } fresh :=
  ⟨rfl, by simp, fun _ => trivial, by simp [Frame.needValue], by simp [Frame.needName], by simp⟩

end JsonV.Model.Flush
