/-
C20 — the depth limit of the value path for ARBITRARY texts (trees with siblings), on wire's model of
`decoderState.consumeValue/consumeArray/consumeObject` (Model/Validate.lean) and the grammar `JValue`
(Spec/Grammar.lean, parameterised by the nesting limit):

* `jvalue_mono`: a value within nesting `M` is a value within any larger limit (so "nesting ≤ k" is
  `JValue … k …`);
* `Ctx o d p`: `p` is a well-formed *context* that leads from "about to read a value at nesting `d`" to
  "about to read a value at nesting maxNestingDepth": a chain of opened arrays/objects, each with
  complete earlier siblings (values within the limit, unique names) and, for objects, the name and colon
  of the member being entered;
* `ctx_refused`: after such a context, an opening bracket is refused with errMaxDepth at its own offset,
  WHATEVER follows it (well-formed or not).
-/
import JsonV.Lemmas.WireComplete

namespace JsonV.Lemmas.DepthTree
open JsonV JsonV.Model JsonV.Model.Wire JsonV.Model.Validate JsonV.Spec.Grammar
open JsonV.Lemmas.WireBasic JsonV.Lemmas.WireValue JsonV.Lemmas.WireComplete

/-! ### the grammar is monotone in the nesting limit -/

theorem jvalue_mono {o : GOpts} {M M' : Nat} {key : Bytes → Bytes} (h : M ≤ M') :
    ∀ {d : Nat} {v : Bytes}, JValue o M key d v → JValue o M' key d v := by
  intro d v hv
  induction hv with
  | null d => exact .null d
  | true d => exact .true d
  | false d => exact .false d
  | num d p hp => exact .num d p hp
  | str d p hp => exact .str d p hp
  | emptyArr d w hlt hw => exact .emptyArr d w (by omega) hw
  | arr d elems hlt hne hws _ ih => exact .arr d elems (by omega) hne hws ih
  | emptyObj d w hlt hw => exact .emptyObj d w (by omega) hw
  | obj d mems hlt hne hok _ hu ih => exact .obj d mems (by omega) hne hok ih hu

theorem jtext_mono {o : GOpts} {M M' : Nat} {key : Bytes → Bytes} (h : M ≤ M') {b : Bytes}
    (hb : JText o M key b) : JText o M' key b := by
  obtain ⟨w1, v, w2, h1, hv, h2, rfl⟩ := hb
  exact ⟨w1, v, w2, h1, jvalue_mono h hv, h2, rfl⟩

/-! ### an opening bracket at the limit -/

theorem open_at_limit (o : VOpts) (f : Nat) (c : UInt8) (hc : c = 0x5B ∨ c = 0x7B) (rest : Bytes) :
    consumeValue o (f + 2) (maxNestingDepth + 1) (c :: rest) = (0, .maxDepth) := by
  rcases hc with rfl | rfl
  · have hk : normKind 0x5B = 0x5B := by decide
    simp [consumeValue, hk, consumeArray]
  · have hk : normKind 0x7B = 0x7B := by decide
    simp [consumeValue, hk, consumeObject]

/-! ### arrays: complete earlier elements, then an element that is refused -/

/-- elements, each followed by its comma -/
def sepd (pre : List (Bytes × Bytes × Bytes)) : Bytes := (pre.map fun e => elemBytes e ++ [0x2C]).flatten

theorem sepd_cons (e : Bytes × Bytes × Bytes) (pre : List (Bytes × Bytes × Bytes)) (x : Bytes) :
    sepd (e :: pre) ++ x = e.1 ++ (e.2.1 ++ (e.2.2 ++ 0x2C :: (sepd pre ++ x))) := by
  simp [sepd, elemBytes, List.append_assoc]

theorem sepd_cons_len (e : Bytes × Bytes × Bytes) (pre : List (Bytes × Bytes × Bytes)) :
    (sepd (e :: pre)).length = e.1.length + e.2.1.length + e.2.2.length + 1 + (sepd pre).length := by
  simp [sepd, elemBytes]; omega

/-- what the refused element looks like to the loop: it starts with a non-blank byte and `consumeValue`
answers `(k, e)`, `e ≠ ok`, on it for every sufficient fuel -/
def Refused (o : VOpts) (depth : Nat) (q : Bytes) (k : Nat) (e : Err) : Prop :=
  (∃ c t, q = c :: t ∧ isWs c = false) ∧ e ≠ .ok ∧
  ∀ f, 3 * q.length + 1 ≤ f → consumeValue o f depth q = (k, e)

theorem arrayLoop_ctx (o : VOpts) (d : Nat) : ∀ (pre : List (Bytes × Bytes × Bytes)),
    (∀ e ∈ pre, JWs e.1 ∧ JWs e.2.2) → (∀ e ∈ pre, CV o (d + 1) e.2.1 ∧ Starts e.2.1) →
    ∀ (w1 q : Bytes) (k : Nat) (e : Err) (fuel : Nat), JWs w1 → Refused o (d + 2) q k e →
      3 * (sepd pre ++ (w1 ++ q)).length + 2 ≤ fuel →
      arrayLoop o fuel (d + 2) (sepd pre ++ (w1 ++ q)) = ((sepd pre).length + w1.length + k, e) := by
  intro pre
  induction pre with
  | nil =>
    intro _ _ w1 q k e fuel hw1 hq hfuel
    obtain ⟨⟨c, t, rfl, hc⟩, hne, hcv⟩ := hq
    cases fuel with
    | zero => omega
    | succ f =>
      have h1 : consumeWhitespace (w1 ++ c :: t) = w1.length := by
        apply ws_exact _ _ hw1
        intro c' t' h; simp only [List.cons.injEq] at h; rw [← h.1]; exact hc
      have hd1 : (w1 ++ c :: t).drop w1.length = c :: t := by simp
      have h2 := hcv f (by simp [sepd] at hfuel ⊢; omega)
      have hne' : (e != .ok) = true := by simpa using hne
      simp only [sepd, List.map_nil, List.flatten_nil, List.nil_append, List.length_nil, Nat.zero_add]
      simp only [arrayLoop, h1, hd1, h2, hne']
      simp
  | cons e0 pre ih =>
    intro hws hvals w1 q k e fuel hw1 hq hfuel
    obtain ⟨a, val, b⟩ := e0
    have hw := hws (a, val, b) (by simp)
    have hv := hvals (a, val, b) (by simp)
    obtain ⟨c, t, hval, hc⟩ := hv.2
    simp only at hval hw hv
    cases fuel with
    | zero => omega
    | succ f =>
      rw [sepd_cons, sepd_cons_len]
      rw [sepd_cons] at hfuel
      simp only at hfuel ⊢
      generalize htl : sepd pre ++ (w1 ++ q) = tl at hfuel ⊢
      obtain ⟨h1, h2, h3⟩ := elem_facts o d f a val b 0x2C tl hw.1 hw.2 hv.1 hv.2 (by decide) (by decide)
        (by simp at hfuel ⊢; omega)
      have hd1 : (a ++ (val ++ (b ++ 0x2C :: tl))).drop a.length = c :: (t ++ (b ++ 0x2C :: tl)) := by
        simp [hval]
      have hd2 : (c :: (t ++ (b ++ 0x2C :: tl))).drop val.length = b ++ 0x2C :: tl := by
        rw [hval]; simp
      have hd3 : (b ++ 0x2C :: tl).drop b.length = 0x2C :: tl := by simp
      have hrec := ih (fun x hx => hws x (by simp [hx])) (fun x hx => hvals x (by simp [hx])) w1 q k e f hw1 hq
        (by rw [htl]; simp at hfuel ⊢; omega)
      rw [htl] at hrec
      rw [hval] at h2
      simp only [List.cons_append] at h2
      rw [← hval] at h2
      simp only [arrayLoop, h1, hd1, h2, hd2, h3, hd3, hrec]
      simp [addOff]
      omega

/-! ### objects: complete earlier members, then a member whose value is refused -/

/-- one iteration of `objectLoop` whose value scan fails -/
theorem objectLoop_step_err (o : VOpts) (f d : Nat) (names : List Bytes) (r : Bytes) (nn k : Nat) (fl : ValueFlags)
    (c0 : UInt8) (ra0 rc : Bytes) (c1 : UInt8) (rd0 : Bytes) (e : Err)
    (h1 : r.drop (consumeWhitespace r) = c0 :: ra0)
    (h2 : valueString o (c0 :: ra0) = (nn, fl, .ok))
    (h3 : (!o.allowDup && names.contains (unescapedName ((c0 :: ra0).take nn) fl)) = false)
    (h4 : ((c0 :: ra0).drop nn).drop (consumeWhitespace ((c0 :: ra0).drop nn)) = 0x3A :: rc)
    (h5 : rc.drop (consumeWhitespace rc) = c1 :: rd0)
    (h6 : consumeValue o f d (c1 :: rd0) = (k, e)) (hne : (e != .ok) = true) :
    objectLoop o (f + 1) d names r =
      (consumeWhitespace r + nn + consumeWhitespace ((c0 :: ra0).drop nn) + 1 + consumeWhitespace rc + k, e) := by
  simp only [objectLoop, h1, h2, h3, h4, h5, h6, hne]
  simp

/-- the member being entered: `w1 name w2 : w3` and then a value that is refused -/
theorem member_err (o : VOpts) (d f : Nat) (names : List Bytes) (w1 name w2 w3 q : Bytes) (k : Nat) (e : Err)
    (hw1 : JWs w1) (hstr : JString (G o).strict name) (hw2 : JWs w2) (hw3 : JWs w3)
    (hq : Refused o (d + 2) q k e)
    (hdup : o.allowDup = true ∨ nameKey o name ∉ names)
    (hfuel : 3 * q.length + 1 ≤ f) :
    objectLoop o (f + 1) (d + 2) names (w1 ++ (name ++ (w2 ++ 0x3A :: (w3 ++ q)))) =
      (w1.length + name.length + w2.length + 1 + w3.length + k, e) := by
  have hstr' : JString (!o.allowInvalidUTF8) name := hstr
  obtain ⟨body, hj, hname⟩ := hstr'
  obtain ⟨⟨c1, vt, hqe, hc1⟩, hne, hcv⟩ := hq
  generalize hC2 : w3 ++ q = C2
  generalize hC1 : w2 ++ 0x3A :: C2 = C1
  obtain ⟨fl, hvs⟩ := valueString_complete o name C1 hstr
  have hkey : unescapedName ((name ++ C1).take name.length) fl = nameKey o name := by
    have := valueString_take o (name ++ C1) name.length fl hvs
    simp only [List.take_left'] at this ⊢
    unfold nameKey; rw [this]
  have hnt : name ++ C1 = 0x22 :: (body ++ [0x22] ++ C1) := by rw [hname]; simp
  have f1 : consumeWhitespace (w1 ++ (name ++ C1)) = w1.length := by
    apply ws_exact _ _ hw1
    intro c t h; rw [hnt] at h; simp only [List.cons.injEq] at h; rw [← h.1]; exact not_ws_quote
  have f2 : consumeWhitespace C1 = w2.length := by
    rw [← hC1]; apply ws_exact _ _ hw2
    intro c t h; simp only [List.cons.injEq] at h; rw [← h.1]; exact not_ws_colon
  have f3 : consumeWhitespace C2 = w3.length := by
    rw [← hC2]; apply ws_exact _ _ hw3
    intro c t h; rw [hqe] at h; simp only [List.cons.injEq] at h
    rw [← h.1]; exact hc1
  have h1 : (w1 ++ (name ++ C1)).drop (consumeWhitespace (w1 ++ (name ++ C1))) = 0x22 :: (body ++ [0x22] ++ C1) := by
    rw [f1, ← hnt]; simp
  have h4 : ((0x22 :: (body ++ [0x22] ++ C1)).drop name.length).drop
      (consumeWhitespace ((0x22 :: (body ++ [0x22] ++ C1)).drop name.length)) = 0x3A :: C2 := by
    rw [← hnt]; simp only [List.drop_left']; rw [f2, ← hC1]; simp
  have h5 : C2.drop (consumeWhitespace C2) = c1 :: vt := by
    rw [f3, ← hC2, hqe]; simp
  have h2 : valueString o (0x22 :: (body ++ [0x22] ++ C1)) = (name.length, fl, .ok) := by rw [← hnt]; exact hvs
  have h6 : consumeValue o f (d + 2) (c1 :: vt) = (k, e) := by rw [← hqe]; exact hcv f hfuel
  have h3 : (!o.allowDup && names.contains (unescapedName ((0x22 :: (body ++ [0x22] ++ C1)).take name.length) fl)) = false := by
    rw [← hnt, hkey]
    rcases hdup with h | h
    · simp [h]
    · simp [h]
  have := objectLoop_step_err o f (d + 2) names (w1 ++ (name ++ C1)) name.length k fl 0x22 _ C2 c1 _ e
    h1 h2 h3 h4 h5 h6 (by simpa using hne)
  rw [this]
  have e1 : (0x22 :: (body ++ [0x22] ++ C1)).drop name.length = C1 := by rw [← hnt]; simp
  simp only [f1, e1, f2, f3]

/-- members, each followed by its comma -/
def sepdM (pre : List Mem) : Bytes := (pre.map fun m => memBytes m ++ [0x2C]).flatten

theorem sepdM_cons (m : Mem) (pre : List Mem) (x : Bytes) :
    sepdM (m :: pre) ++ x =
      m.1 ++ (m.2.1 ++ (m.2.2.1 ++ 0x3A :: (m.2.2.2.1 ++ (m.2.2.2.2.1 ++ (m.2.2.2.2.2 ++ 0x2C :: (sepdM pre ++ x)))))) := by
  simp [sepdM, memBytes, List.append_assoc]

theorem sepdM_cons_len (m : Mem) (pre : List Mem) :
    (sepdM (m :: pre)).length =
      m.1.length + m.2.1.length + m.2.2.1.length + 1 + m.2.2.2.1.length + m.2.2.2.2.1.length + m.2.2.2.2.2.length + 1 +
        (sepdM pre).length := by
  simp [sepdM, memBytes]; omega

theorem objectLoop_ctx (o : VOpts) (d : Nat) : ∀ (pre : List Mem),
    (∀ m ∈ pre, MemOk o m) → (∀ m ∈ pre, CV o (d + 1) m.2.2.2.2.1 ∧ Starts m.2.2.2.2.1) →
    ∀ (names : List Bytes) (w1 name w2 w3 q : Bytes) (k : Nat) (e : Err) (fuel : Nat),
      JWs w1 → JString (G o).strict name → JWs w2 → JWs w3 → Refused o (d + 2) q k e →
      (o.allowDup = true ∨ (names ++ (pre.map fun m => nameKey o m.2.1) ++ [nameKey o name]).Nodup) →
      3 * (sepdM pre ++ (w1 ++ (name ++ (w2 ++ 0x3A :: (w3 ++ q))))).length + 2 ≤ fuel →
      objectLoop o fuel (d + 2) names (sepdM pre ++ (w1 ++ (name ++ (w2 ++ 0x3A :: (w3 ++ q))))) =
        ((sepdM pre).length + w1.length + name.length + w2.length + 1 + w3.length + k, e) := by
  intro pre
  induction pre with
  | nil =>
    intro _ _ names w1 name w2 w3 q k e fuel hw1 hstr hw2 hw3 hq hnod hfuel
    cases fuel with
    | zero => omega
    | succ f =>
      have hdup : o.allowDup = true ∨ nameKey o name ∉ names := by
        rcases hnod with h | h
        · exact Or.inl h
        · right
          intro hmem
          simp only [List.map_nil, List.append_nil] at h
          rw [List.nodup_append] at h
          exact h.2.2 _ hmem _ (by simp) rfl
      simp only [sepdM, List.map_nil, List.flatten_nil, List.nil_append, List.length_nil, Nat.zero_add] at hfuel ⊢
      exact member_err o d f names w1 name w2 w3 q k e hw1 hstr hw2 hw3 hq hdup (by simp at hfuel; omega)
  | cons m pre ih =>
    intro hok hvals names w1 name w2 w3 q k e fuel hw1 hstr hw2 hw3 hq hnod hfuel
    have hm := hok m (by simp)
    have hv := hvals m (by simp)
    obtain ⟨a, nm, b, c3, val, w4⟩ := m
    simp only at hv
    have hdup : o.allowDup = true ∨ nameKey o nm ∉ names := by
      rcases hnod with h | h
      · exact Or.inl h
      · right
        intro hmem
        simp only [List.map_cons, List.append_assoc] at h
        rw [List.nodup_append] at h
        exact h.2.2 _ hmem _ (by simp) rfl
    cases fuel with
    | zero => omega
    | succ f =>
      rw [sepdM_cons, sepdM_cons_len]
      rw [sepdM_cons] at hfuel
      simp only at hfuel ⊢
      generalize htl : sepdM pre ++ (w1 ++ (name ++ (w2 ++ 0x3A :: (w3 ++ q)))) = tl at hfuel ⊢
      rw [member_step o d f names a nm b c3 val w4 0x2C tl hm hv.1 hv.2 (by decide) (by decide) hdup
        (by simp at hfuel ⊢; omega)]
      have hnod' : o.allowDup = true ∨
          ((if o.allowDup = true then names else names ++ [nameKey o nm]) ++
            (pre.map fun m => nameKey o m.2.1) ++ [nameKey o name]).Nodup := by
        cases ha : o.allowDup with
        | true => exact Or.inl rfl
        | false =>
          rcases hnod with h | h
          · rw [ha] at h; cases h
          · right; simpa [List.append_assoc] using h
      have hrec := ih (fun x hx => hok x (by simp [hx])) (fun x hx => hvals x (by simp [hx]))
        (if o.allowDup = true then names else names ++ [nameKey o nm]) w1 name w2 w3 q k e f hw1 hstr hw2 hw3 hq hnod'
        (by rw [htl]; simp at hfuel ⊢; omega)
      rw [htl] at hrec
      simp only [hrec]
      simp [addOff]
      omega

/-! ### contexts -/

/-- `Ctx o d p`: `p` leads from "about to read a value at nesting `d`" (= `d` enclosing containers) to
"about to read a value at nesting maxNestingDepth", through containers whose earlier siblings are complete. -/
inductive Ctx (o : VOpts) : Nat → Bytes → Prop
  | here : Ctx o maxNestingDepth []
  | arr (d : Nat) (pre : List (Bytes × Bytes × Bytes)) (w1 p : Bytes) : d < maxNestingDepth →
      (∀ e ∈ pre, JWs e.1 ∧ JWs e.2.2) → (∀ e ∈ pre, JV o (d + 1) e.2.1) → JWs w1 → Ctx o (d + 1) p →
      Ctx o d (0x5B :: (sepd pre ++ (w1 ++ p)))
  | obj (d : Nat) (pre : List Mem) (w1 name w2 w3 p : Bytes) : d < maxNestingDepth →
      (∀ m ∈ pre, MemOk o m) → (∀ m ∈ pre, JV o (d + 1) m.2.2.2.2.1) →
      JWs w1 → JString (G o).strict name → JWs w2 → JWs w3 →
      (o.allowDup = true ∨ ((pre.map fun m => nameKey o m.2.1) ++ [nameKey o name]).Nodup) → Ctx o (d + 1) p →
      Ctx o d (0x7B :: (sepdM pre ++ (w1 ++ (name ++ (w2 ++ 0x3A :: (w3 ++ p))))))

theorem ctx_le {o : VOpts} {d : Nat} {p : Bytes} (h : Ctx o d p) : d ≤ maxNestingDepth := by
  cases h <;> omega

/-- what follows a context-and-bracket starts with a non-blank byte -/
theorem ctx_head {o : VOpts} {d : Nat} {p : Bytes} (h : Ctx o d p) (c : UInt8) (hc : c = 0x5B ∨ c = 0x7B) (rest : Bytes) :
    ∃ c' t, p ++ c :: rest = c' :: t ∧ isWs c' = false := by
  cases h with
  | here => rcases hc with rfl | rfl <;> exact ⟨_, _, rfl, by decide⟩
  | arr => exact ⟨_, _, rfl, by decide⟩
  | obj => exact ⟨_, _, rfl, by decide⟩

theorem consumeArray_strip (o : VOpts) (f depth : Nat) (wl : Bytes) (c : UInt8) (t : Bytes)
    (hwl : JWs wl) (hc : isWs c = false) (hc5 : (c == 0x5D) = false)
    (hdepth : (depth == maxNestingDepth + 1) = false) :
    consumeArray o (f + 1) depth (0x5B :: (wl ++ c :: t)) = addOff (1 + wl.length) (arrayLoop o f (depth + 1) (c :: t)) := by
  have hws : consumeWhitespace (wl ++ c :: t) = wl.length := by
    apply ws_exact _ _ hwl; intro c' t' h; simp only [List.cons.injEq] at h; rw [← h.1]; exact hc
  have hdrop : (wl ++ c :: t).drop (consumeWhitespace (wl ++ c :: t)) = c :: t := by rw [hws]; simp
  rw [consumeArray_eq o f depth (wl ++ c :: t) c t hdepth hdrop, hws]
  simp [hc5]

theorem consumeObject_strip (o : VOpts) (f depth : Nat) (wl : Bytes) (c : UInt8) (t : Bytes)
    (hwl : JWs wl) (hc : isWs c = false) (hc7 : (c == 0x7D) = false)
    (hdepth : (depth == maxNestingDepth + 1) = false) :
    consumeObject o (f + 1) depth (0x7B :: (wl ++ c :: t)) = addOff (1 + wl.length) (objectLoop o f (depth + 1) [] (c :: t)) := by
  have hws : consumeWhitespace (wl ++ c :: t) = wl.length := by
    apply ws_exact _ _ hwl; intro c' t' h; simp only [List.cons.injEq] at h; rw [← h.1]; exact hc
  have hdrop : (wl ++ c :: t).drop (consumeWhitespace (wl ++ c :: t)) = c :: t := by rw [hws]; simp
  rw [consumeObject_eq o f depth (wl ++ c :: t) c t hdepth hdrop, hws]
  simp [hc7]

theorem sepd_strip (a val b : Bytes) (pre : List (Bytes × Bytes × Bytes)) (x : Bytes) :
    sepd ((a, val, b) :: pre) ++ x = a ++ (sepd (([], val, b) :: pre) ++ x) := by
  simp [sepd, elemBytes, List.append_assoc]

theorem sepd_strip_len (a val b : Bytes) (pre : List (Bytes × Bytes × Bytes)) :
    (sepd ((a, val, b) :: pre)).length = a.length + (sepd (([], val, b) :: pre)).length := by
  simp [sepd, elemBytes]

theorem sepdM_strip (a nm b c3 val w4 : Bytes) (pre : List Mem) (x : Bytes) :
    sepdM ((a, nm, b, c3, val, w4) :: pre) ++ x = a ++ (sepdM (([], nm, b, c3, val, w4) :: pre) ++ x) := by
  simp [sepdM, memBytes, List.append_assoc]

theorem sepdM_strip_len (a nm b c3 val w4 : Bytes) (pre : List Mem) :
    (sepdM ((a, nm, b, c3, val, w4) :: pre)).length = a.length + (sepdM (([], nm, b, c3, val, w4) :: pre)).length := by
  simp [sepdM, memBytes]

/-- **After a context, an opening bracket is refused with errMaxDepth at its own offset, whatever follows.** -/
theorem ctx_refused (o : VOpts) : ∀ {d : Nat} {p : Bytes}, Ctx o d p →
    ∀ (c : UInt8) (rest : Bytes) (fuel : Nat), (c = 0x5B ∨ c = 0x7B) → 3 * (p ++ c :: rest).length + 1 ≤ fuel →
      consumeValue o fuel (d + 1) (p ++ c :: rest) = (p.length, .maxDepth) := by
  intro d p h
  induction h with
  | here =>
    intro c rest fuel hc hf
    match fuel, hf with
    | f + 2, _ => simpa using open_at_limit o f c hc rest
    | 0, hf => simp at hf
    | 1, hf => simp at hf
  | arr d pre w1 p hlt hws hvals hw1 hctx ih =>
    intro c rest fuel hc hf
    have hq : Refused o (d + 2) (p ++ c :: rest) p.length .maxDepth :=
      ⟨ctx_head hctx c hc rest, by simp, fun f hf' => ih c rest f hc hf'⟩
    have hk : normKind 0x5B = 0x5B := by decide
    have hcv : ∀ e ∈ pre, CV o (d + 1) e.2.1 ∧ Starts e.2.1 := fun e he => value_complete o (d + 1) e.2.1 (hvals e he)
    obtain ⟨c', t', hq', hcw⟩ := ctx_head hctx c hc rest
    match fuel, hf with
    | 0, hf => simp at hf
    | 1, hf => simp at hf
    | f + 2, hf =>
      cases pre with
      | nil =>
        have hin : (0x5B :: (sepd [] ++ (w1 ++ p))) ++ c :: rest = 0x5B :: (w1 ++ (p ++ c :: rest)) := by
          simp [sepd, List.append_assoc]
        rw [hin] at hf ⊢
        have hloop := arrayLoop_ctx o d [] (by simp) (by simp) [] (p ++ c :: rest) p.length .maxDepth f jws_nil hq
          (by simp [sepd] at hf ⊢; omega)
        simp only [sepd, List.map_nil, List.flatten_nil, List.nil_append, List.length_nil, Nat.zero_add] at hloop
        rw [hq'] at hloop ⊢
        have hc5 : (c' == 0x5D) = false := by
          cases hctx with
          | here => simp at hq'; rcases hc with rfl | rfl <;> (rw [← hq'.1]; decide)
          | arr => simp at hq'; rw [← hq'.1]; decide
          | obj => simp at hq'; rw [← hq'.1]; decide
        simp only [consumeValue, hk]
        simp [consumeArray_strip o f (d + 1) w1 c' t' hw1 hcw hc5 (depth_ok d hlt), hloop, addOff, sepd]
        omega
      | cons e0 pre' =>
        obtain ⟨a, val, b⟩ := e0
        have hw0 := hws (a, val, b) (by simp)
        have hv0 := hcv (a, val, b) (by simp)
        simp only at hw0 hv0
        obtain ⟨cv, tv, hval, hcs⟩ := hv0.2
        have hin : (0x5B :: (sepd ((a, val, b) :: pre') ++ (w1 ++ p))) ++ c :: rest =
            0x5B :: (a ++ (sepd (([], val, b) :: pre') ++ (w1 ++ (p ++ c :: rest)))) := by
          simp only [List.cons_append, List.append_assoc]
          rw [sepd_strip]
        rw [hin] at hf ⊢
        have hloop := arrayLoop_ctx o d (([], val, b) :: pre')
          (by intro e he; simp only [List.mem_cons] at he; rcases he with rfl | he
              · exact ⟨jws_nil, hw0.2⟩
              · exact hws e (by simp [he]))
          (by intro e he; simp only [List.mem_cons] at he; rcases he with rfl | he
              · exact hv0
              · exact hcv e (by simp [he]))
          w1 (p ++ c :: rest) p.length .maxDepth f hw1 hq
          (by simp only [List.length_cons, List.length_append] at hf ⊢; omega)
        have hhead : sepd (([], val, b) :: pre') ++ (w1 ++ (p ++ c :: rest)) =
            cv :: (tv ++ (b ++ 0x2C :: (sepd pre' ++ (w1 ++ (p ++ c :: rest))))) := by
          rw [sepd_cons]; simp [hval]
        rw [hhead] at hloop ⊢
        have hcw' : isWs cv = false := (start_facts cv hcs).1
        have hc5 : (cv == 0x5D) = false := (start_facts cv hcs).2.1
        simp only [consumeValue, hk]
        simp [consumeArray_strip o f (d + 1) a cv _ hw0.1 hcw' hc5 (depth_ok d hlt), hloop, addOff]
        have := sepd_strip_len a val b pre'
        omega
  | obj d pre w1 name w2 w3 p hlt hok hvals hw1 hstr hw2 hw3 hnod hctx ih =>
    intro c rest fuel hc hf
    have hq : Refused o (d + 2) (p ++ c :: rest) p.length .maxDepth :=
      ⟨ctx_head hctx c hc rest, by simp, fun f hf' => ih c rest f hc hf'⟩
    have hk : normKind 0x7B = 0x7B := by decide
    have hcv : ∀ m ∈ pre, CV o (d + 1) m.2.2.2.2.1 ∧ Starts m.2.2.2.2.1 :=
      fun m hm => value_complete o (d + 1) m.2.2.2.2.1 (hvals m hm)
    have hstr' : JString (!o.allowInvalidUTF8) name := hstr
    match fuel, hf with
    | 0, hf => simp at hf
    | 1, hf => simp at hf
    | f + 2, hf =>
      cases pre with
      | nil =>
        obtain ⟨body, _, hname⟩ := hstr'
        have hin : (0x7B :: (sepdM [] ++ (w1 ++ (name ++ (w2 ++ 0x3A :: (w3 ++ p)))))) ++ c :: rest =
            0x7B :: (w1 ++ (0x22 :: (body ++ 0x22 :: (w2 ++ 0x3A :: (w3 ++ (p ++ c :: rest)))))) := by
          simp [sepdM, hname, List.append_assoc]
        have hloop := objectLoop_ctx o d [] (by simp) (by simp) [] [] name w2 w3 (p ++ c :: rest) p.length .maxDepth f
          jws_nil hstr hw2 hw3 hq (by simpa using hnod)
          (by rw [hin] at hf; simp [sepdM, hname] at hf ⊢; omega)
        simp only [sepdM, List.map_nil, List.flatten_nil, List.nil_append, List.length_nil, Nat.zero_add] at hloop
        have hnm : name ++ (w2 ++ 0x3A :: (w3 ++ (p ++ c :: rest))) =
            0x22 :: (body ++ 0x22 :: (w2 ++ 0x3A :: (w3 ++ (p ++ c :: rest)))) := by rw [hname]; simp
        rw [hnm] at hloop
        rw [hin]
        simp only [consumeValue, hk]
        simp [consumeObject_strip o f (d + 1) w1 0x22 _ hw1 (by decide) (by decide) (depth_ok d hlt), hloop, addOff, sepdM]
        omega
      | cons m0 pre' =>
        obtain ⟨a, nm, b, c3, val, w4⟩ := m0
        have hm0 := hok (a, nm, b, c3, val, w4) (by simp)
        have hv0 := hcv (a, nm, b, c3, val, w4) (by simp)
        simp only at hv0
        have hstr0 : JString (!o.allowInvalidUTF8) nm := hm0.2.1
        obtain ⟨body, _, hname⟩ := hstr0
        have hin : (0x7B :: (sepdM ((a, nm, b, c3, val, w4) :: pre') ++ (w1 ++ (name ++ (w2 ++ 0x3A :: (w3 ++ p)))))) ++ c :: rest =
            0x7B :: (a ++ (sepdM (([], nm, b, c3, val, w4) :: pre') ++ (w1 ++ (name ++ (w2 ++ 0x3A :: (w3 ++ (p ++ c :: rest))))))) := by
          simp only [List.cons_append, List.append_assoc]
          rw [sepdM_strip]
        rw [hin] at hf ⊢
        have hloop := objectLoop_ctx o d (([], nm, b, c3, val, w4) :: pre')
          (by intro m hm; simp only [List.mem_cons] at hm; rcases hm with rfl | hm
              · exact ⟨jws_nil, hm0.2⟩
              · exact hok m (by simp [hm]))
          (by intro m hm; simp only [List.mem_cons] at hm; rcases hm with rfl | hm
              · exact hv0
              · exact hcv m (by simp [hm]))
          [] w1 name w2 w3 (p ++ c :: rest) p.length .maxDepth f hw1 hstr hw2 hw3 hq
          (by rcases hnod with h | h
              · exact Or.inl h
              · right; simpa using h)
          (by simp only [List.length_cons, List.length_append] at hf ⊢; omega)
        have hhead : ∃ x, sepdM (([], nm, b, c3, val, w4) :: pre') ++ (w1 ++ (name ++ (w2 ++ 0x3A :: (w3 ++ (p ++ c :: rest))))) = 0x22 :: x := by
          rw [sepdM_cons]; simp [hname]
        obtain ⟨x, hx⟩ := hhead
        rw [hx] at hloop ⊢
        simp only [consumeValue, hk]
        simp [consumeObject_strip o f (d + 1) a 0x22 x hm0.1 (by decide) (by decide) (depth_ok d hlt), hloop, addOff]
        have := sepdM_strip_len a nm b c3 val w4 pre'
        omega

/-! ### every value that exceeds the limit has such a context -/

theorem split_first {α : Type} (P : α → Prop) : ∀ (l : List α), (∃ x ∈ l, ¬ P x) →
    ∃ pre e post, l = pre ++ e :: post ∧ (∀ x ∈ pre, P x) ∧ ¬ P e := by
  intro l
  induction l with
  | nil => intro ⟨x, hx, _⟩; simp at hx
  | cons a l ih =>
    intro ⟨x, hx, hnp⟩
    by_cases ha : P a
    · have : ∃ x ∈ l, ¬ P x := by
        simp only [List.mem_cons] at hx
        rcases hx with rfl | hx
        · exact absurd ha hnp
        · exact ⟨x, hx, hnp⟩
      obtain ⟨pre, e, post, rfl, hpre, he⟩ := ih this
      refine ⟨a :: pre, e, post, rfl, ?_, he⟩
      intro y hy
      simp only [List.mem_cons] at hy
      rcases hy with rfl | hy
      · exact ha
      · exact hpre y hy
    · exact ⟨[], a, l, rfl, by simp, ha⟩

theorem joinSep_split (pre : List (Bytes × Bytes × Bytes)) (e : Bytes × Bytes × Bytes) (post : List (Bytes × Bytes × Bytes)) :
    ∃ y, joinSep ((pre ++ e :: post).map elemBytes) = sepd pre ++ (e.1 ++ (e.2.1 ++ y)) := by
  induction pre with
  | nil =>
    cases post with
    | nil => exact ⟨e.2.2, by simp [joinSep, sepd, elemBytes]⟩
    | cons e2 post => exact ⟨e.2.2 ++ [0x2C] ++ joinSep ((e2 :: post).map elemBytes), by simp [joinSep, sepd, elemBytes]⟩
  | cons a pre ih =>
    obtain ⟨y, hy⟩ := ih
    refine ⟨y, ?_⟩
    have hne : (pre ++ e :: post).map elemBytes ≠ [] := by simp
    simp only [List.cons_append, List.map_cons]
    rw [joinSep_cons_ne _ _ hne, hy]
    simp [sepd, List.append_assoc]

theorem joinSepM_split (pre : List Mem) (m : Mem) (post : List Mem) :
    ∃ y, joinSep ((pre ++ m :: post).map memBytes) =
      sepdM pre ++ (m.1 ++ (m.2.1 ++ (m.2.2.1 ++ 0x3A :: (m.2.2.2.1 ++ (m.2.2.2.2.1 ++ y))))) := by
  induction pre with
  | nil =>
    cases post with
    | nil => exact ⟨m.2.2.2.2.2, by simp [joinSep, sepdM, memBytes]⟩
    | cons m2 post => exact ⟨m.2.2.2.2.2 ++ [0x2C] ++ joinSep ((m2 :: post).map memBytes), by simp [joinSep, sepdM, memBytes]⟩
  | cons a pre ih =>
    obtain ⟨y, hy⟩ := ih
    refine ⟨y, ?_⟩
    have hne : (pre ++ m :: post).map memBytes ≠ [] := by simp
    simp only [List.cons_append, List.map_cons]
    rw [joinSep_cons_ne _ _ hne, hy]
    simp [sepdM, List.append_assoc]

/-- A value of the grammar with ANY nesting limit `M` that is not a value within maxNestingDepth decomposes as
a context, an opening bracket at nesting maxNestingDepth + 1, and a remainder. -/
theorem exceeds_has_ctx (o : VOpts) (M : Nat) : ∀ {d : Nat} {v : Bytes}, JValue (G o) M (nameKey o) d v →
    d ≤ maxNestingDepth → ¬ JV o d v →
    ∃ p c rest, v = p ++ c :: rest ∧ Ctx o d p ∧ (c = 0x5B ∨ c = 0x7B) := by
  intro d v hv
  induction hv with
  | null d => intro _ hn; exact absurd (.null d) hn
  | true d => intro _ hn; exact absurd (.true d) hn
  | false d => intro _ hn; exact absurd (.false d) hn
  | num d p hp => intro _ hn; exact absurd (.num d p hp) hn
  | str d p hp => intro _ hn; exact absurd (.str d p hp) hn
  | emptyArr d w _ hw =>
    intro hd hn
    by_cases hlt : d < maxNestingDepth
    · exact absurd (.emptyArr d w hlt hw) hn
    · have : d = maxNestingDepth := by omega
      subst this
      exact ⟨[], 0x5B, w ++ [0x5D], by simp, .here, Or.inl rfl⟩
  | emptyObj d w _ hw =>
    intro hd hn
    by_cases hlt : d < maxNestingDepth
    · exact absurd (.emptyObj d w hlt hw) hn
    · have : d = maxNestingDepth := by omega
      subst this
      exact ⟨[], 0x7B, w ++ [0x7D], by simp, .here, Or.inr rfl⟩
  | arr d elems _ hne hws _ ih =>
    intro hd hn
    by_cases hlt : d < maxNestingDepth
    · have hex : ∃ e ∈ elems, ¬ JV o (d + 1) e.2.1 := by
        apply Classical.byContradiction
        intro hall
        apply hn
        refine .arr d elems hlt hne hws ?_
        intro e he
        apply Classical.byContradiction
        intro hne'
        exact hall ⟨e, he, hne'⟩
      obtain ⟨pre, e, post, rfl, hpre, he⟩ := split_first (fun e : Bytes × Bytes × Bytes => JV o (d + 1) e.2.1) elems hex
      obtain ⟨p', c, rest', hval, hctx, hc⟩ := ih e (by simp) (by omega) he
      obtain ⟨y, hy⟩ := joinSep_split pre e post
      have hfun : (fun e : Bytes × Bytes × Bytes => e.1 ++ e.2.1 ++ e.2.2) = elemBytes := rfl
      refine ⟨0x5B :: (sepd pre ++ (e.1 ++ p')), c, rest' ++ (y ++ [0x5D]), ?_,
        .arr d pre e.1 p' hlt (fun x hx => hws x (by simp [hx])) hpre (hws e (by simp)).1 hctx, hc⟩
      rw [hfun, hy, hval]
      simp [List.append_assoc]
    · have : d = maxNestingDepth := by omega
      subst this
      exact ⟨[], 0x5B, _, rfl, .here, Or.inl rfl⟩
  | obj d mems _ hne hok _ huniq ih =>
    intro hd hn
    by_cases hlt : d < maxNestingDepth
    · have hex : ∃ m ∈ mems, ¬ JV o (d + 1) m.2.2.2.2.1 := by
        apply Classical.byContradiction
        intro hall
        apply hn
        refine .obj d mems hlt hne hok ?_ huniq
        intro m hm
        apply Classical.byContradiction
        intro hne'
        exact hall ⟨m, hm, hne'⟩
      obtain ⟨pre, m, post, rfl, hpre, hm⟩ := split_first (fun m : Mem => JV o (d + 1) m.2.2.2.2.1) mems hex
      obtain ⟨p', c, rest', hval, hctx, hc⟩ := ih m (by simp) (by omega) hm
      obtain ⟨y, hy⟩ := joinSepM_split pre m post
      have hfun : (fun m : Mem => m.1 ++ m.2.1 ++ m.2.2.1 ++ [0x3A] ++ m.2.2.2.1 ++ m.2.2.2.2.1 ++ m.2.2.2.2.2) = memBytes := rfl
      have hmok := hok m (by simp)
      have hnod : (G o).allowDup = true ∨ ((pre.map fun m => nameKey o m.2.1) ++ [nameKey o m.2.1]).Nodup := by
        rcases huniq with h | h
        · exact Or.inl h
        · right
          simp only [List.map_append, List.map_cons] at h
          have : (((pre.map fun m => nameKey o m.2.1) ++ [nameKey o m.2.1]) ++ (post.map fun m => nameKey o m.2.1)).Nodup := by
            simpa [List.append_assoc] using h
          exact (List.nodup_append.1 this).1
      refine ⟨0x7B :: (sepdM pre ++ (m.1 ++ (m.2.1 ++ (m.2.2.1 ++ 0x3A :: (m.2.2.2.1 ++ p'))))), c, rest' ++ (y ++ [0x7D]), ?_,
        .obj d pre m.1 m.2.1 m.2.2.1 m.2.2.2.1 p' hlt (fun x hx => hok x (by simp [hx])) hpre
          hmok.1 hmok.2.1 hmok.2.2.1 hmok.2.2.2.1 hnod hctx, hc⟩
      rw [hfun, hy, hval]
      simp [List.append_assoc]
    · have : d = maxNestingDepth := by omega
      subst this
      exact ⟨[], 0x7B, _, rfl, .here, Or.inr rfl⟩

/-! ### the top level -/

/-- `Value.IsValid` / `ReadValue` on blanks, a context from the top level, an opening bracket, anything:
errMaxDepth at the offset of that bracket. -/
theorem validText_ctx (o : VOpts) (w p : Bytes) (c : UInt8) (rest : Bytes) (hw : JWs w) (hctx : Ctx o 0 p)
    (hc : c = 0x5B ∨ c = 0x7B) :
    validText o (w ++ (p ++ c :: rest)) = (w.length + p.length, .maxDepth) := by
  obtain ⟨c', t', hq, hcw⟩ := ctx_head hctx c hc rest
  have hws : consumeWhitespace (w ++ (p ++ c :: rest)) = w.length := by
    rw [hq]; apply ws_exact _ _ hw; intro c'' t'' h; simp only [List.cons.injEq] at h; rw [← h.1]; exact hcw
  have hsep : (c' == 0x3A || c' == 0x2C) = false := by
    cases hctx with
    | arr => simp at hq; rw [← hq.1]; decide
    | obj => simp at hq; rw [← hq.1]; decide
  have hcv := ctx_refused o hctx c rest (fuelFor (w ++ (p ++ c :: rest))) hc (by simp [fuelFor]; omega)
  have hdrop : (w ++ (p ++ c :: rest)).drop w.length = c' :: t' := by rw [← hq]; simp
  have hrv : readValueTop o (fuelFor (w ++ (p ++ c :: rest))) (w ++ (p ++ c :: rest)) = (w.length + p.length, .maxDepth) := by
    unfold readValueTop
    simp only [hws, hdrop, hsep]
    rw [← hq, hcv]
    simp [addOff]
  unfold validText
  rw [hrv]
  simp

end JsonV.Lemmas.DepthTree

