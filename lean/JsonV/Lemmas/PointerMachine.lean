/-
Lemmas for C16, part 7: `stackptr_spec` on the PACKED state machine (Model/State.lean) with the names stack
maintained as the code does, through slice C06's refinement of the machine to the PDA.
-/
import JsonV.Lemmas.PointerSim
import JsonV.Lemmas.StateRun

namespace JsonV.Lemmas.Pointer
open JsonV JsonV.Model JsonV.Model.Pointer JsonV.Spec.Pointer JsonV.Spec JsonV.Lemmas.StateRefine

def toSE : PDA.Frame → SEntry
  | .obj n => ⟨true, n⟩
  | .arr n => ⟨false, n⟩

def kindOf : Tok → PDA.Kind
  | .scalar => .lit
  | .str _ => .str
  | .beginObj => .beginObj
  | .endObj => .endObj
  | .beginArr => .beginArr
  | .endArr => .endArr

theorem toSE_absE (e : Entry) : toSE (absE e) = ⟨e.isObject, e.length⟩ := by
  unfold absE; cases h : e.isObject <;> simp [toSE]

theorem view_eq (s : MState) : s.view = ⟨(abs s.m).map toSE, s.names⟩ := by
  have hf : (fun e : Entry => (⟨e.isObject, e.length⟩ : SEntry)) = toSE ∘ absE := by
    funext e; exact (toSE_absE e).symm
  simp only [MState.view, abs, List.map_cons, List.map_reverse, List.map_map, hf, Function.comp]

theorem toSE_needName (f : PDA.Frame) : (toSE f).needObjectName = f.needName := by
  cases f <;> simp [toSE, SEntry.needObjectName, PDA.Frame.needName]
  rename_i n; by_cases h : n % 2 = 0 <;> simp [h]

/-- names after one token, as in MState.step -/
def namesStep (needName : Bool) (names : List Bytes) : Tok → List Bytes
  | .str n => if needName then replaceHead names n else names
  | .beginObj => [] :: names
  | .endObj => names.drop 1
  | _ => names

/-- A defined PDA step is a defined step of the (kind, count) model, with the names moved as the code moves them. -/
theorem pda_astep (max : Nat) (fs fs' : PDA.Frames) (t : Tok) (names : List Bytes)
    (h : PDA.step max fs (kindOf t) = some fs')
    (hn : ∀ f rest, fs = f :: rest → f.needName = true → names ≠ []) :
    AState.step ⟨fs.map toSE, names⟩ t =
      some ⟨fs'.map toSE, namesStep ((fs.head?.map PDA.Frame.needName).getD false) names t⟩ := by
  cases fs with
  | nil => simp [PDA.step] at h
  | cons f rest =>
    have hnn := toSE_needName f
    cases t with
    | scalar =>
      simp only [kindOf, PDA.step] at h
      split at h
      · cases h
      · rename_i hf
        cases h
        cases f <;> simp_all [AState.step, namesStep, toSE, PDA.Frame.bump]
    | str x =>
      simp only [kindOf, PDA.step] at h
      cases h
      by_cases hf : f.needName = true
      · have hne := hn f rest rfl hf
        cases names with
        | nil => exact absurd rfl hne
        | cons n0 ns =>
          cases f <;> simp_all [AState.step, namesStep, toSE, PDA.Frame.bump, replaceHead]
      · cases f <;> simp_all [AState.step, namesStep, toSE, PDA.Frame.bump]
    | beginObj =>
      simp only [kindOf, PDA.step] at h
      split at h
      · cases h
      · split at h
        · cases h
          cases f <;> simp_all [AState.step, namesStep, toSE, PDA.Frame.bump]
        · cases h
    | beginArr =>
      simp only [kindOf, PDA.step] at h
      split at h
      · cases h
      · split at h
        · cases h
          cases f <;> simp_all [AState.step, namesStep, toSE, PDA.Frame.bump]
        · cases h
    | endObj =>
      simp only [kindOf, PDA.step] at h
      split at h
      · rename_i n g rest'
        split at h
        · cases h
          rename_i hpar
          have h1 : (n % 2 == 1) = false := by simp; omega
          simp [AState.step, namesStep, toSE, SEntry.needObjectValue, h1]
        · cases h
      · cases h
    | endArr =>
      simp only [kindOf, PDA.step] at h
      split at h
      · cases h
        simp [AState.step, namesStep, toSE]
      · cases h

theorem mstep_names {max : Nat} {s s' : MState} {t : Tok} (h : MState.step max s t = .ok s') :
    smStep max s.m (kindOf t) = .ok s'.m ∧ s'.names = namesStep s.m.last.needObjectName s.names t := by
  cases t with
  | scalar =>
    simp only [MState.step, kindOf, smStep] at h ⊢
    cases hm : s.m.appendLiteral with
    | error e => rw [hm] at h; cases h
    | ok m' => rw [hm] at h; cases h; exact ⟨rfl, rfl⟩
  | str x =>
    simp only [MState.step, kindOf, smStep] at h ⊢
    cases hm : s.m.appendString with
    | error e => rw [hm] at h; cases h
    | ok m' => rw [hm] at h; cases h; exact ⟨rfl, rfl⟩
  | beginObj =>
    simp only [MState.step, kindOf, smStep] at h ⊢
    cases hm : s.m.pushObject max with
    | error e => rw [hm] at h; cases h
    | ok m' => rw [hm] at h; cases h; exact ⟨rfl, rfl⟩
  | endObj =>
    simp only [MState.step, kindOf, smStep] at h ⊢
    cases hm : s.m.popObject with
    | error e => rw [hm] at h; cases h
    | ok m' => rw [hm] at h; cases h; exact ⟨rfl, rfl⟩
  | beginArr =>
    simp only [MState.step, kindOf, smStep] at h ⊢
    cases hm : s.m.pushArray max with
    | error e => rw [hm] at h; cases h
    | ok m' => rw [hm] at h; cases h; exact ⟨rfl, rfl⟩
  | endArr =>
    simp only [MState.step, kindOf, smStep] at h ⊢
    cases hm : s.m.popArray with
    | error e => rw [hm] at h; cases h
    | ok m' => rw [hm] at h; cases h; exact ⟨rfl, rfl⟩

/-- One accepted token on the packed machine is one step of the (kind, count) model on what
`appendStackPointer` reads off the machine. -/
theorem mstep_view {max b : Nat} {s s' : MState} {t : Tok} {fs : List Frame} (hinv : Inv max b s.m)
    (hb : b + 1 < 2^61) (hr : Rel s.view.stack s.names fs) (h : MState.step max s t = .ok s') :
    AState.step s.view t = some s'.view ∧ Inv max (b + 1) s'.m := by
  obtain ⟨hk, hnames⟩ := mstep_names h
  have hs := step_refines hinv hb (kindOf t)
  unfold StepRel at hs
  rw [hk] at hs
  obtain ⟨hstep, hinv'⟩ := hs
  refine ⟨?_, hinv'⟩
  rw [view_eq s] at hr ⊢
  rw [view_eq s', hnames]
  generalize s.names = names at hr ⊢
  have := pda_astep max (abs s.m) (abs s'.m) t names hstep (by
    intro f rest hfr hneed
    rw [hfr] at hr
    simp only [List.map_cons] at hr
    cases f with
    | arr n => simp [PDA.Frame.needName] at hneed
    | obj n =>
      simp only [toSE] at hr
      cases hr
      simp)
  rw [this]
  simp [abs_cons, needName_abs]

def MInv (max b : Nat) (s : MState) (fs : List Frame) : Prop :=
  Inv max b s.m ∧ Rel s.view.stack s.names fs ∧ Good s.view

theorem mrun_view {max : Nat} (hist : List Tok) : ∀ {b : Nat} {s s' : MState} {fs : List Frame},
    MInv max b s fs → b + hist.length < 2^61 → MState.run max s hist = .ok s' →
    s.view.run hist = some s'.view := by
  induction hist with
  | nil => intro b s s' fs _ _ h; simp [MState.run] at h; subst h; rfl
  | cons t ts ih =>
    intro b s s' fs hi hb h
    simp only [MState.run] at h
    cases hst : MState.step max s t with
    | error e => rw [hst] at h; cases h
    | ok s1 =>
      rw [hst] at h
      simp only at h
      obtain ⟨hinv, hr, hg⟩ := hi
      have hb1 : b + 1 < 2^61 := by simp at hb; omega
      obtain ⟨hv, hinv1⟩ := mstep_view hinv hb1 hr hst
      have hr' : Rel s.view.stack s.view.names fs := hr
      obtain ⟨fs1, _, hr1, hg1⟩ := step_sim hr' hg hv
      have := ih (b := b + 1) ⟨hinv1, hr1, hg1⟩ (by simp at hb ⊢; omega) h
      simp [AState.run, hv, this]

theorem minv_init (max : Nat) : MInv max 0 ({} : MState) [.arr 0] := by
  refine ⟨inv_init max, ?_, ?_⟩
  · exact Rel.arr 0 Rel.nil
  · exact ⟨by simp [MState.view], rfl⟩

/-- **stackptr_spec on the packed machine**: for every token history accepted by the real state-machine operations
(any depth limit), with `Names` pushed on '{', replaced on a member name and popped on '}', the pointer
`appendStackPointer(where)` assembles from `e.isObject()`, `e.Length()` and the names is the rendering of the
declarative path `pointerOf where hist`, for where = -1, 0 and +1. -/
theorem stackptr_spec_machine (max : Nat) (hist : List Tok) (hlen : hist.length < 2^61) (w : Int)
    (hw : w = -1 ∨ w = 0 ∨ w = 1) (s : MState) (hrun : MState.run max {} hist = .ok s) :
    ∃ path, pointerOf w hist = some path ∧ s.appendStackPointer [] w = some (render (path.map refToken)) := by
  have hv := mrun_view hist (minv_init max) (by omega) hrun
  have hinit : ({} : MState).view = AState.init := rfl
  rw [hinit] at hv
  exact stackptr_spec hist w s.view hw hv

end JsonV.Lemmas.Pointer
