/-
Lemmas for C17: the memo tables (`cache_indep`) and the legacy addressability rule as a decision table.
-/
import JsonV.Model.Dispatch
import JsonV.Lemmas.DispatchL

namespace JsonV.Lemmas.DispatchLegacy
open JsonV.Model JsonV.Model.Dispatch JsonV.Lemmas.DispatchL

/-! ### memo tables -/

/-- Every entry of the table is what `compute` gives for its key. -/
def MemoOK {κ α : Type} (compute : κ → α) (cache : Memo κ α) : Prop := ∀ t v, cache t = some v → v = compute t

theorem memoOK_empty {κ α : Type} (compute : κ → α) : MemoOK compute (Memo.empty : Memo κ α) := by
  intro t v h; cases h

theorem memoLookup_spec {κ α : Type} [DecidableEq κ] (compute : κ → α) (cache : Memo κ α) (t : κ) (h : MemoOK compute cache) :
    (memoLookup compute cache t).1 = compute t ∧ MemoOK compute (memoLookup compute cache t).2 := by
  unfold memoLookup
  cases hc : cache t with
  | some v => exact ⟨h t v hc, h⟩
  | none =>
    refine ⟨rfl, ?_⟩
    intro t' v hv
    simp only at hv
    split at hv
    · rename_i ht; cases hv; rw [ht]
    · exact h t' v hv

theorem memoRun_spec {κ α : Type} [DecidableEq κ] (compute : κ → α) (ts : List κ) :
    ∀ cache, MemoOK compute cache → (memoRun compute cache ts).1 = ts.map compute ∧ MemoOK compute (memoRun compute cache ts).2 := by
  induction ts with
  | nil => intro cache h; exact ⟨rfl, h⟩
  | cons t ts ih =>
    intro cache h
    obtain ⟨h1, h2⟩ := memoLookup_spec compute cache t h
    obtain ⟨h3, h4⟩ := ih _ h2
    simp only [memoRun, List.map_cons]
    exact ⟨by rw [h1, h3], h4⟩

/-! ### legacy semantics: each wrapper is the default-options wrapper of the reduced method set -/

theorem legacy_wrapText (r : Recv) (beh : Behav) (prev : Arshaler) (ctx : Ctx) (h : ctx.legacy = true) :
    wrapMarshalText r beh prev ctx = tryMeth (r.legacyVisible ctx.forcedAddr false) .tx false beh ctx.lvl ctx.m (prev ctx) := by
  cases r <;> cases hf : ctx.forcedAddr <;>
    simp [wrapMarshalText, tryMeth, Recv.implements, Recv.present, Recv.legacyVisible, h, hf, callFinal, Outcome.won, Outcome.failed] <;>
    cases beh (Cand.meth Meth.tx ctx.lvl) ctx.m <;> rfl

theorem legacy_wrapAppend (r : Recv) (beh : Behav) (prev : Arshaler) (ctx : Ctx) (h : ctx.legacy = true) :
    wrapAppendText r beh prev ctx = tryMeth (r.legacyVisible ctx.forcedAddr false) .ap false beh ctx.lvl ctx.m (prev ctx) := by
  cases r <;> cases hf : ctx.forcedAddr <;>
    simp [wrapAppendText, tryMeth, Recv.implements, Recv.present, Recv.legacyVisible, h, hf, callFinal, Outcome.won, Outcome.failed] <;>
    cases beh (Cand.meth Meth.ap ctx.lvl) ctx.m <;> rfl

theorem legacy_wrapJSON (r : Recv) (beh : Behav) (prev : Arshaler) (ctx : Ctx) (h : ctx.legacy = true) :
    wrapMarshalJSON r beh prev ctx =
      tryMeth (r.legacyVisible ctx.forcedAddr ctx.m.last.needObjectName) .js false beh ctx.lvl ctx.m (prev ctx) := by
  cases r <;> cases hf : ctx.forcedAddr <;> cases hn : ctx.m.last.needObjectName <;>
    simp [wrapMarshalJSON, tryMeth, Recv.implements, Recv.present, Recv.legacyVisible, h, hf, hn, callFinal, Outcome.won, Outcome.failed] <;>
    cases beh (Cand.meth Meth.js ctx.lvl) ctx.m <;> rfl

theorem legacy_wrapJSONTo (r : Recv) (beh : Behav) (prev : Arshaler) (ctx : Ctx) (h : ctx.legacy = true) :
    wrapMarshalJSONTo r beh prev ctx =
      tryMeth (r.legacyVisible ctx.forcedAddr ctx.m.last.needObjectName) .to true beh ctx.lvl ctx.m (prev ctx) := by
  cases r <;> cases hf : ctx.forcedAddr <;> cases hn : ctx.m.last.needObjectName <;>
    simp [wrapMarshalJSONTo, tryMeth, Recv.implements, Recv.present, Recv.legacyVisible, h, hf, hn, callOrPrev, Outcome.won, Outcome.failed] <;>
    cases beh (Cand.meth Meth.to ctx.lvl) ctx.m <;> rfl

theorem legacy_makeMethodMarshaler (ms : MethodSet) (beh : Behav) (fncs : Arshaler) (ctx : Ctx) (h : ctx.legacy = true) :
    makeMethodMarshaler .named ms beh fncs ctx =
      documentedMethodsM (ms.legacy ctx.forcedAddr ctx.m.last.needObjectName) beh ctx.lvl ctx.m (fncs ctx) := by
  simp only [makeMethodMarshaler, documentedMethodsM, MethodSet.legacy, reduceCtorEq, or_self, ↓reduceIte]
  rw [legacy_wrapJSONTo _ _ _ _ h, legacy_wrapJSON _ _ _ _ h, legacy_wrapAppend _ _ _ _ h, legacy_wrapText _ _ _ _ h]

theorem legacy_wrapUJSON (r : Recv) (beh : Behav) (prev : Arshaler) (ctx : Ctx) (h : ctx.legacy = true) :
    wrapUnmarshalJSON r beh prev ctx =
      tryMeth (r.legacyVisible false ctx.m.last.needObjectName) .uj false beh ctx.lvl ctx.m (prev ctx) := by
  cases r <;> cases hn : ctx.m.last.needObjectName <;>
    simp [wrapUnmarshalJSON, tryMeth, Recv.implements, Recv.present, Recv.legacyVisible, h, hn, callFinal, Outcome.won, Outcome.failed] <;>
    cases beh (Cand.meth Meth.uj ctx.lvl) ctx.m <;> rfl

theorem legacy_wrapUFrom (r : Recv) (beh : Behav) (prev : Arshaler) (ctx : Ctx) (h : ctx.legacy = true) :
    wrapUnmarshalJSONFrom r beh prev ctx =
      tryMeth (r.legacyVisible false ctx.m.last.needObjectName) .frm true beh ctx.lvl ctx.m (prev ctx) := by
  cases r <;> cases hn : ctx.m.last.needObjectName <;>
    simp [wrapUnmarshalJSONFrom, tryMeth, Recv.implements, Recv.present, Recv.legacyVisible, h, hn, callOrPrev, Outcome.won, Outcome.failed] <;>
    cases beh (Cand.meth Meth.frm ctx.lvl) ctx.m <;> rfl

theorem legacy_makeMethodUnmarshaler (ms : UMethodSet) (beh : Behav) (fncs : Arshaler) (ctx : Ctx) (h : ctx.legacy = true) :
    makeMethodUnmarshaler .named ms beh fncs ctx =
      documentedMethodsU (ms.legacy ctx.m.last.needObjectName) beh ctx.lvl ctx.m ctx.inNull ctx.inStr (fncs ctx) := by
  simp only [makeMethodUnmarshaler, documentedMethodsU, UMethodSet.legacy, reduceCtorEq, or_self, ↓reduceIte]
  rw [legacy_wrapUFrom _ _ _ _ h, legacy_wrapUJSON _ _ _ _ h, wrapUnmarshalText_eq]

end JsonV.Lemmas.DispatchLegacy
