/-
Glue C12 ↔ C01, part 4 (converse): every text of the tree grammar `JText` (permissive strings, duplicate names
allowed) is accepted by the C12 tokenizer.  By induction on the derivation: build the tree and the layout.
-/
import JsonV.Lemmas.GlueTreeGrammar

namespace JsonV.Fmt
open JsonV.Canon JsonV.Lemmas.CanonNest JsonV.Spec.Grammar

theorem Layout.ws_append {ls : List Lex} {b : Bytes} (w : Bytes) (hw : JWs w) (h : Layout ls b) : Layout ls (w ++ b) := by
  induction w with
  | nil => exact h
  | cons c cs ih =>
    have hc : isWs c = true := (wsByte_iff c).mp (hw c (by simp))
    exact Layout.ws_cons c hc (ih (fun x hx => hw x (List.mem_cons_of_mem _ hx)))

theorem Layout.lex_cons (l : Lex) {ls : List Lex} {b : Bytes} (h : Layout ls b) : Layout (l :: ls) (l.bytes ++ b) := by
  have := Layout.cons [] l ls b rfl h
  simpa using this

/-- a string of the strict mode is a string of the permissive mode -/
theorem jchar_weaken {s : Bool} {c : Bytes} (h : JChar s c) : JChar false c := by
  cases h with
  | plain c h1 h2 h3 h4 => exact JChar.plain c h1 h2 h3 h4
  | utf8 p hp => exact JChar.utf8 _ hp
  | raw c _ hc => exact JChar.raw c rfl hc
  | esc c hc => exact JChar.esc c hc
  | uni a b c d ha hb hc hd _ => exact JChar.uni a b c d ha hb hc hd (by simp)
  | pair a b c d e f g k ha hb hc hd he hf hg hk h1 h2 => exact JChar.pair a b c d e f g k ha hb hc hd he hf hg hk h1 h2

theorem jstring_weaken {s : Bool} {p : Bytes} (h : JString s p) : JString false p := by
  obtain ⟨body, hb, rfl⟩ := h
  refine ⟨body, ?_, rfl⟩
  induction hb with
  | nil => exact JChars.nil
  | cons c r hc _ ih => exact JChars.cons c r (jchar_weaken hc) ih

section
variable (o : GOpts) (key : Bytes → Bytes)

/-- what the induction builds for a value `v` at depth `d`: a tree whose lexemes lay out as `v` -/
def Built (d : Nat) (v : Bytes) (t : JV) : Prop :=
  AtomsOK t = true ∧ (∀ k ∈ t.toks, k.valid = true) ∧ depthOK t d = true ∧ StrsOK o t.toks ∧ DupOK o (dupT key t) ∧
  ∀ (R : List Lex) (X : Bytes), Layout R X → Layout (lexT t ++ R) (v ++ X)

theorem built_atom (d : Nat) (k : Tok) (hk : atomOK k = true) (hv : k.valid = true)
    (hs : ∀ raw, k = .str raw → JString o.strict raw) : Built o key d k.bytes (.atom k) :=
  ⟨by simpa [AtomsOK] using hk, by simpa [JV.toks] using hv, rfl,
   fun raw hm => hs raw (by simp only [JV.toks, List.mem_singleton] at hm; exact hm.symm), Or.inr rfl,
   fun R X h => by simpa [lexT, Lex.bytes] using Layout.lex_cons (.tok k) h⟩

/-- the elements after the first: `, e` repeatedly, then `]` -/
theorem build_tailL (d : Nat) : ∀ (more : List (Bytes × Bytes × Bytes)),
    (∀ e ∈ more, JWs e.1 ∧ JWs e.2.2) → (∀ e ∈ more, ∃ t, Built o key d e.2.1 t) →
    ∃ es : List JV, AtomsOKL es = true ∧ (∀ k ∈ toksL es, k.valid = true) ∧ depthOKL es d = true ∧
      StrsOK o (toksL es) ∧ DupOK o (dupL key es) ∧
      ∀ (wprev : Bytes), JWs wprev → ∀ (R : List Lex) (X : Bytes), Layout R X →
        Layout (lexL false es ++ (.tok .ea :: R)) (wprev ++ (sepTail (more.map fun e => e.1 ++ e.2.1 ++ e.2.2) ++ (0x5D :: X))) := by
  intro more
  induction more with
  | nil =>
    intro _ _
    refine ⟨[], rfl, by simp [toksL], rfl, by intro raw hm; simp [toksL] at hm, Or.inr rfl, ?_⟩
    intro wprev hw R X h
    simpa [lexL, sepTail, Lex.bytes, Tok.bytes] using Layout.ws_append wprev hw (Layout.lex_cons (.tok .ea) h)
  | cons e more ih =>
    intro hws hb
    obtain ⟨t, ht1, ht2, ht3, hts, htd, ht4⟩ := hb e (by simp)
    obtain ⟨es, h1, h2, h3, hs, hdp, h4⟩ := ih (fun x hx => hws x (List.mem_cons_of_mem _ hx)) (fun x hx => hb x (List.mem_cons_of_mem _ hx))
    refine ⟨t :: es, by simp [AtomsOKL, ht1, h1], ?_, by simp [depthOKL, ht3, h3], ?_, DupOK.mk_and htd hdp, ?_⟩
    · intro k hk
      simp only [toksL, List.mem_append] at hk
      rcases hk with hk | hk
      · exact ht2 k hk
      · exact h2 k hk
    · intro raw hk
      simp only [toksL, List.mem_append] at hk
      rcases hk with hk | hk
      · exact hts raw hk
      · exact hs raw hk
    · intro wprev hw R X h
      have hrec := h4 e.2.2 (hws e (by simp)).2 R X h
      have hval := ht4 _ _ hrec
      have hval' := Layout.ws_append e.1 (hws e (by simp)).1 hval
      have := Layout.ws_append wprev hw (Layout.lex_cons (.delim .comma) hval')
      simpa [lexL, sepLex, sepTail, elemText, Lex.bytes, Delim.bytes, List.append_assoc] using this

theorem build_tailM (d : Nat) : ∀ (more : List (Bytes × Bytes × Bytes × Bytes × Bytes × Bytes)),
    (∀ m ∈ more, JWs m.1 ∧ JString o.strict m.2.1 ∧ JWs m.2.2.1 ∧ JWs m.2.2.2.1 ∧ JWs m.2.2.2.2.2) →
    (∀ m ∈ more, ∃ t, Built o key d m.2.2.2.2.1 t) →
    ∃ ms : List (Bytes × JV), AtomsOKM ms = true ∧ (∀ k ∈ toksM ms, k.valid = true) ∧ depthOKM ms d = true ∧
      StrsOK o (toksM ms) ∧ DupOK o (dupM key ms) ∧ ms.map Prod.fst = more.map (fun m => m.2.1) ∧
      ∀ (wprev : Bytes), JWs wprev → ∀ (R : List Lex) (X : Bytes), Layout R X →
        Layout (lexM false ms ++ (.tok .eo :: R)) (wprev ++ (sepTail (more.map fun m => m.1 ++ m.2.1 ++ m.2.2.1 ++ [0x3A] ++ m.2.2.2.1 ++ m.2.2.2.2.1 ++ m.2.2.2.2.2) ++ (0x7D :: X))) := by
  intro more
  induction more with
  | nil =>
    intro _ _
    refine ⟨[], rfl, by simp [toksM], rfl, by intro raw hm; simp [toksM] at hm, Or.inr rfl, rfl, ?_⟩
    intro wprev hw R X h
    simpa [lexM, sepTail, Lex.bytes, Tok.bytes] using Layout.ws_append wprev hw (Layout.lex_cons (.tok .eo) h)
  | cons m more ih =>
    intro hws hb
    obtain ⟨t, ht1, ht2, ht3, hts, htd, ht4⟩ := hb m (by simp)
    obtain ⟨ms, h1, h2, h3, hs, hdp, hnm, h4⟩ := ih (fun x hx => hws x (List.mem_cons_of_mem _ hx)) (fun x hx => hb x (List.mem_cons_of_mem _ hx))
    obtain ⟨hw1, hn, hw2, hw3, hw4⟩ := hws m (by simp)
    refine ⟨(m.2.1, t) :: ms, by simp [AtomsOKM, ht1, h1], ?_, by simp [depthOKM, ht3, h3], ?_, DupOK.mk_and htd hdp,
      by simp [hnm], ?_⟩
    · intro k hk
      simp only [toksM, List.mem_cons, List.mem_append] at hk
      rcases hk with rfl | hk | hk
      · exact (str_valid_iff _).mpr (jstring_weaken hn)
      · exact ht2 k hk
      · exact h2 k hk
    · intro raw hk
      simp only [toksM, List.mem_cons, List.mem_append] at hk
      rcases hk with hk | hk | hk
      · have : raw = m.2.1 := by simpa using hk
        subst this; exact hn
      · exact hts raw hk
      · exact hs raw hk
    · intro wprev hw R X h
      have hrec := h4 m.2.2.2.2.2 hw4 R X h
      have hval := Layout.ws_append m.2.2.2.1 hw3 (ht4 _ _ hrec)
      have hcol := Layout.ws_append m.2.2.1 hw2 (Layout.lex_cons (.delim .colon) hval)
      have hname := Layout.ws_append m.1 hw1 (Layout.lex_cons (.tok (.str m.2.1)) hcol)
      have := Layout.ws_append wprev hw (Layout.lex_cons (.delim .comma) hname)
      simpa [lexM, sepLex, sepTail, memText, Lex.bytes, Tok.bytes, Delim.bytes, List.append_assoc] using this

/-- every value of the grammar is the layout of a tree -/
theorem build_value (d : Nat) (v : Bytes) (h : JValue o maxDepth key d v) : ∃ t, Built o key d v t := by
  induction h with
  | null d => exact ⟨_, built_atom o key d .null rfl rfl (by intro _ e; cases e)⟩
  | true d => exact ⟨_, built_atom o key d .tru rfl rfl (by intro _ e; cases e)⟩
  | false d => exact ⟨_, built_atom o key d .fls rfl rfl (by intro _ e; cases e)⟩
  | num d p hp =>
    exact ⟨_, built_atom o key d (.num p) rfl (by simp [Tok.valid, (scanNum_iff' p).mpr hp]) (by intro _ e; cases e)⟩
  | str d p hp =>
    exact ⟨_, built_atom o key d (.str p) rfl ((str_valid_iff p).mpr (jstring_weaken hp))
      (by intro raw e; cases e; exact hp)⟩
  | emptyArr d w hd hw =>
    refine ⟨.arr [], rfl, by simp [JV.toks, toksL, Tok.valid], by simp [depthOK, depthOKL, hd],
      by intro raw hm; simp [JV.toks, toksL] at hm, Or.inr rfl, ?_⟩
    intro R X h
    have := Layout.lex_cons (.tok .ba) (Layout.ws_append w hw (Layout.lex_cons (.tok .ea) h))
    simpa [lexT, lexL, Lex.bytes, Tok.bytes, List.append_assoc] using this
  | emptyObj d w hd hw =>
    refine ⟨.obj [], rfl, by simp [JV.toks, toksM, Tok.valid], by simp [depthOK, depthOKM, hd],
      by intro raw hm; simp [JV.toks, toksM] at hm, Or.inr (by simp [dupT, dupM]), ?_⟩
    intro R X h
    have := Layout.lex_cons (.tok .bo) (Layout.ws_append w hw (Layout.lex_cons (.tok .eo) h))
    simpa [lexT, lexM, Lex.bytes, Tok.bytes, List.append_assoc] using this
  | arr d elems hd hne hws _ ih =>
    cases elems with
    | nil => exact absurd rfl hne
    | cons e more =>
      obtain ⟨t, ht1, ht2, ht3, hts, htd, ht4⟩ := ih e (by simp)
      obtain ⟨es, h1, h2, h3, hs, hdp, h4⟩ := build_tailL o key (d + 1) more (fun x hx => hws x (List.mem_cons_of_mem _ hx))
        (fun x hx => ih x (List.mem_cons_of_mem _ hx))
      refine ⟨.arr (t :: es), by simp [AtomsOK, AtomsOKL, ht1, h1], ?_, by simp [depthOK, depthOKL, hd, ht3, h3], ?_,
        by simpa [dupT, dupL] using DupOK.mk_and htd hdp, ?_⟩
      · intro k hk
        simp only [JV.toks, toksL, List.mem_cons, List.mem_append, List.mem_singleton] at hk
        rcases hk with rfl | (hk | hk) | hk
        · rfl
        · exact ht2 k hk
        · exact h2 k hk
        · have : k = .ea := by simpa using hk
          subst this; rfl
      · intro raw hk
        simp only [JV.toks, toksL, List.mem_cons, List.mem_append, List.mem_singleton] at hk
        rcases hk with hk | (hk | hk) | hk
        · cases hk
        · exact hts raw hk
        · exact hs raw hk
        · simp at hk
      · intro R X h
        have hrec := h4 e.2.2 (hws e (by simp)).2 R X h
        have hval := Layout.ws_append e.1 (hws e (by simp)).1 (ht4 _ _ hrec)
        have := Layout.lex_cons (.tok .ba) hval
        rw [List.map_cons, joinSep_cons]
        simpa [lexT, lexL, sepLex, elemText, Lex.bytes, Tok.bytes, List.append_assoc] using this
  | obj d mems hd hne hws _ hdup ih =>
    cases mems with
    | nil => exact absurd rfl hne
    | cons m more =>
      obtain ⟨t, ht1, ht2, ht3, hts, htd, ht4⟩ := ih m (by simp)
      obtain ⟨ms, h1, h2, h3, hs, hdp, hnm, h4⟩ := build_tailM o key (d + 1) more (fun x hx => hws x (List.mem_cons_of_mem _ hx))
        (fun x hx => ih x (List.mem_cons_of_mem _ hx))
      obtain ⟨hw1, hn, hw2, hw3, hw4⟩ := hws m (by simp)
      have hnodup : DupOK o (decide ((((m.2.1, t) :: ms).map fun p => key p.1).Nodup)) := by
        rcases hdup with hdup | hdup
        · exact Or.inl hdup
        · right
          have e : (((m.2.1, t) :: ms).map fun p => key p.1) = ((m :: more).map fun m => key m.2.1) := by
            have := congrArg (List.map key) hnm
            rw [List.map_map, List.map_map] at this
            simp only [List.map_cons]
            exact congrArg _ this
          rw [e]; simpa using hdup
      refine ⟨.obj ((m.2.1, t) :: ms), by simp [AtomsOK, AtomsOKM, ht1, h1], ?_, by simp [depthOK, depthOKM, hd, ht3, h3], ?_,
        ?_, ?_⟩
      · intro k hk
        simp only [JV.toks, toksM, List.mem_cons, List.mem_append, List.mem_singleton] at hk
        rcases hk with rfl | (rfl | hk | hk) | hk
        · rfl
        · exact (str_valid_iff _).mpr (jstring_weaken hn)
        · exact ht2 k hk
        · exact h2 k hk
        · have : k = .eo := by simpa using hk
          subst this; rfl
      · intro raw hk
        simp only [JV.toks, toksM, List.mem_cons, List.mem_append, List.mem_singleton] at hk
        rcases hk with hk | (hk | hk | hk) | hk
        · cases hk
        · have : raw = m.2.1 := by simpa using hk
          subst this; exact hn
        · exact hts raw hk
        · exact hs raw hk
        · simp at hk
      · have := DupOK.mk_and hnodup (DupOK.mk_and htd hdp)
        simpa [dupT, dupM] using this
      · intro R X h
        have hrec := h4 m.2.2.2.2.2 hw4 R X h
        have hval := Layout.ws_append m.2.2.2.1 hw3 (ht4 _ _ hrec)
        have hcol := Layout.ws_append m.2.2.1 hw2 (Layout.lex_cons (.delim .colon) hval)
        have hname := Layout.ws_append m.1 hw1 (Layout.lex_cons (.tok (.str m.2.1)) hcol)
        have := Layout.lex_cons (.tok .bo) hname
        rw [List.map_cons, joinSep_cons]
        simpa [lexT, lexM, sepLex, memText, Lex.bytes, Tok.bytes, Delim.bytes, List.append_assoc] using this

/-- every text of the grammar is tokenized to the tokens of a tree with the strings of the selected mode and names
passing the duplicate test -/
theorem text_tokenize_gen (b : Bytes) (h : JText o maxDepth key b) :
    ∃ t : JV, tokenize b = some t.toks ∧ AtomsOK t = true ∧ StrsOK o t.toks ∧ DupOK o (dupT key t) := by
  obtain ⟨w1, v, w2, hw1, hv, hw2, rfl⟩ := h
  obtain ⟨t, ht1, ht2, ht3, hts, htd, ht4⟩ := build_value o key 0 v hv
  refine ⟨t, (tokenize_iff_layout' _ _).mpr ⟨⟨ht2, by rw [accepts_tree t ht1]; exact ht3⟩, ?_⟩, ht1, hts, htd⟩
  have hp : punct [.top0] t.toks = lexT t := by
    have := punctV t ht1 .top0 .top1 none [] [] (by simp [Fr.value]) (by simpa using ht3)
    simpa [delimLex, punct] using this
  rw [hp]
  have := Layout.ws_append w1 hw1 (ht4 [] w2 (Layout.nil w2 ((jws_iff w2).mp hw2)))
  simpa [List.append_assoc] using this

end

/-- **JText ⇒ tokenize**: every text of the C01 grammar (permissive) is accepted by the tokenizer. -/
theorem text_tokenize (key : Bytes → Bytes) (b : Bytes) (h : JText ⟨false, true⟩ maxDepth key b) :
    ∃ ts, tokenize b = some ts := by
  obtain ⟨t, ht, _⟩ := text_tokenize_gen ⟨false, true⟩ key b h
  exact ⟨_, ht⟩

end JsonV.Fmt
