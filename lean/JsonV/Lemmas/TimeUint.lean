/-
`jsonwire.ParseUint` on canonical decimal digits: value below 2^64 parses back to itself, value at or
above 2^64 is reported as overflow `(MaxUint64, false)` (this relies on the uint64 wrap-around of the
accumulator, which the model keeps).  Core Lean only.
-/
import JsonV.Lemmas.TimeDigits

namespace JsonV.Model.Time
open JsonV

/-- the wrapping accumulator of the ParseUint loop. -/
def decFromMod (a : Nat) (b : Bytes) : Nat := b.foldl (fun a c => (10 * a + digitVal c) % U64) a

theorem scanDigits_all (ds : Bytes) (h : ds.all isDigit = true) (v n : Nat) :
    scanDigits ds v n = (decFromMod v ds, n + ds.length) := by
  induction ds generalizing v n with
  | nil => simp [scanDigits, decFromMod]
  | cons c cs ih =>
    simp only [List.all_cons, Bool.and_eq_true] at h
    rw [scanDigits, if_pos h.1, ih h.2]
    simp [decFromMod, List.foldl_cons]; omega

theorem decFrom_mod_congr (a a' : Nat) (cs : Bytes) (h : a % U64 = a' % U64) :
    decFrom a cs % U64 = decFrom a' cs % U64 := by
  rw [decFrom_eq, decFrom_eq, Nat.add_mod, Nat.mul_mod, h, ← Nat.mul_mod, ← Nat.add_mod]

theorem decFromMod_eq (v : Nat) (ds : Bytes) : decFromMod (v % U64) ds = decFrom v ds % U64 := by
  induction ds generalizing v with
  | nil => simp [decFromMod, decFrom]
  | cons c cs ih =>
    have e : decFromMod (v % U64) (c :: cs) = decFromMod ((10 * (v % U64) + digitVal c) % U64) cs := by
      simp [decFromMod, List.foldl_cons]
    rw [e, ih, decFrom_cons]
    apply decFrom_mod_congr
    simp only [U64]; omega

theorem scanDigits_digits (ds : Bytes) (h : ds.all isDigit = true) :
    scanDigits ds 0 0 = (decValue ds % U64, ds.length) := by
  rw [scanDigits_all ds h]
  have := decFromMod_eq 0 ds
  simp only [Nat.zero_mod] at this
  rw [this]; simp [decValue]

theorem digitChar_eq_c0 {d : Nat} (h : d < 10) (e : digitChar d = c0) : d = 0 := by
  have := congrArg UInt8.toNat e
  rw [digitChar_toNat h] at this
  have h0 : c0.toNat = 48 := by decide
  omega

theorem digitChar_eq_c1 {d : Nat} (h : d < 10) (e : digitChar d = c1) : d = 1 := by
  have := congrArg UInt8.toNat e
  rw [digitChar_toNat h] at this
  have h0 : c1.toNat = 49 := by decide
  omega

theorem natDigits_cons (k n : Nat) (hlt : n < 10 ^ (k + 1)) (hge : k = 0 ∨ 10 ^ k ≤ n) :
    natDigits n = digitChar (n / 10 ^ k) :: padDigits k n := by
  rw [natDigits_eq_pad k n hlt hge, padDigits]
  congr 2
  apply Nat.mod_eq_of_lt
  rw [Nat.pow_succ] at hlt
  exact (Nat.div_lt_iff_lt_mul (Nat.pow_pos (by decide))).mpr (by omega)

/-- the first two tests of ParseUint never fire on canonical digits. -/
theorem natDigits_head_ok (n : Nat) : ¬ ((natDigits n).head? = some c0 ∧ natDigits n ≠ strZero) := by
  obtain ⟨k, h1, h2⟩ := exists_digits n
  rw [natDigits_cons k n h1 h2]
  simp only [List.head?_cons, Option.some.injEq]
  intro ⟨e, hne⟩
  have hlt : n / 10 ^ k < 10 := by
    rw [Nat.pow_succ] at h1
    exact (Nat.div_lt_iff_lt_mul (Nat.pow_pos (by decide))).mpr (by omega)
  have hz := digitChar_eq_c0 hlt e
  cases h2 with
  | inl hk =>
    subst hk
    apply hne
    simp at hz
    subst hz
    rfl
  | inr hge =>
    have : 0 < n / 10 ^ k := Nat.div_pos hge (Nat.pow_pos (by decide))
    omega

theorem pow10_19 : (10 : Nat) ^ 19 = 10000000000000000000 := by decide
theorem pow10_20 : (10 : Nat) ^ 20 = 100000000000000000000 := by decide

/-- `uint_digits_rt`: decimal printing of any uint64 parses back to itself through `jsonwire.ParseUint`. -/
theorem parseUint_natDigits {n : Nat} (h : n < U64) : parseUint (natDigits n) = (n, true) := by
  obtain ⟨k, h1, h2⟩ := exists_digits n
  have hscan := scanDigits_digits (natDigits n) (natDigits_allDigits n)
  rw [decValue_natDigits, Nat.mod_eq_of_lt h] at hscan
  have hlen : (natDigits n).length = k + 1 := by rw [natDigits_eq_pad k n h1 h2, padDigits_length]
  have hk : k ≤ 19 := by
    apply Nat.le_of_not_lt; intro hk
    cases h2 with
    | inl h0 => omega
    | inr hge =>
      have : 10 ^ 20 ≤ 10 ^ k := Nat.pow_le_pow_right (by decide) hk
      rw [pow10_20] at this; simp only [U64] at h; omega
  unfold parseUint
  rw [hscan]
  simp only []
  rw [if_neg, if_neg]
  · intro ⟨hn, hor⟩
    have hk19 : k = 19 := by omega
    subst hk19
    have hge : 10 ^ 19 ≤ n := by cases h2 with
      | inl h0 => omega
      | inr h => exact h
    rw [pow10_19] at hge
    rcases hor with hh | hv | hl
    · apply hh
      rw [natDigits_cons 19 n h1 h2, pow10_19]
      simp only [List.head?_cons, Option.some.injEq]
      have : n / 10000000000000000000 = 1 := by simp only [U64] at h; omega
      rw [this]; rfl
    · omega
    · omega
  · intro hor
    rcases hor with h0 | hl | hh
    · omega
    · exact hl rfl
    · exact natDigits_head_ok n hh

/-- digits of a number that does not fit in 64 bits are reported as overflow. -/
theorem parseUint_natDigits_ge {n : Nat} (h : U64 ≤ n) : parseUint (natDigits n) = (maxU64, false) := by
  obtain ⟨k, h1, h2⟩ := exists_digits n
  have hscan := scanDigits_digits (natDigits n) (natDigits_allDigits n)
  rw [decValue_natDigits] at hscan
  have hlen : (natDigits n).length = k + 1 := by rw [natDigits_eq_pad k n h1 h2, padDigits_length]
  have hk : 19 ≤ k := by
    apply Nat.le_of_not_lt; intro hk
    have : 10 ^ (k + 1) ≤ 10 ^ 19 := Nat.pow_le_pow_right (by decide) hk
    rw [pow10_19] at this; simp only [U64] at h; omega
  have hge : 10 ^ k ≤ n := by cases h2 with
    | inl h0 => omega
    | inr h => exact h
  unfold parseUint
  rw [hscan]
  simp only []
  rw [if_neg, if_pos]
  · refine ⟨by omega, ?_⟩
    by_cases hk19 : k = 19
    · subst hk19
      rw [pow10_19] at hge
      rw [pow10_20] at h1
      by_cases hd : n / 10000000000000000000 = 1
      · right; left; simp only [U64] at h ⊢; omega
      · left
        rw [natDigits_cons 19 n (by rw [pow10_20]; exact h1) h2, pow10_19]
        simp only [List.head?_cons]
        intro e
        exact hd (digitChar_eq_c1 (by omega) (Option.some.inj e))
    · right; right; omega
  · intro hor
    rcases hor with h0 | hl | hh
    · omega
    · exact hl rfl
    · exact natDigits_head_ok n hh

end JsonV.Model.Time
