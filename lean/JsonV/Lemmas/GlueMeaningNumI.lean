/-
`Spec.Meaning.lexNum` accepts exactly what the model of jsonwire.ConsumeNumber accepts (C01 `number_iff`).
-/
import JsonV.Lemmas.GlueMeaningNumC
import JsonV.Props.C01

namespace JsonV.Lemmas.GlueMeaningNumI
open JsonV JsonV.Spec.Meaning JsonV.Spec.Grammar JsonV.Model.Wire
open JsonV.Lemmas.GlueMeaningLex JsonV.Lemmas.GlueMeaningNumC

theorem lexNum_iff (b : Bytes) (n : Nat) :
    (∃ l r, lexNum b = some (l, r) ∧ l.length = n) ↔ consumeNumber b = (n, .ok) := by
  rw [JsonV.Props.C01.number_iff]
  constructor
  · rintro ⟨l, r, h, rfl⟩
    obtain ⟨hb, hj⟩ := lexNum_spec h
    subst hb
    refine ⟨by simp, by simpa using hj, ?_⟩
    cases r with
    | nil => left; simp
    | cons c t =>
      right
      have : (l ++ c :: t).take (l.length + 1) = l ++ [c] := by
        rw [show l ++ c :: t = (l ++ [c]) ++ t by simp]
        rw [List.take_left' (by simp)]
      rw [this]
      exact lexNum_maximal _ l c t h
  · rintro ⟨hn, hj, hstop⟩
    refine ⟨b.take n, b.drop n, ?_, by simp [List.length_take]; omega⟩
    have := lexNum_complete (b.take n) (b.drop n) hj (by
      intro c t hd
      rcases hstop with rfl | hnp
      · simp at hd
      · have : b.take (n + 1) = b.take n ++ [c] := by
          rw [List.take_add_one]
          have : b[n]? = some c := by
            have h2 := List.getElem?_drop (xs := b) (i := n) (j := 0)
            rw [hd] at h2; simpa using h2.symm
          simp [this]
        rwa [this] at hnp)
    rwa [List.take_append_drop] at this

end JsonV.Lemmas.GlueMeaningNumI
