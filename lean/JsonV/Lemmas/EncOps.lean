/-
Histories of `WriteToken` and `WriteValue` calls in any order: the token history of a script, the
invariant of every reachable encoder state, and the lifting of the single-call theorems.  Core Lean only.
-/
import JsonV.Lemmas.EncRaw
import JsonV.Lemmas.EncNoop

namespace JsonV.Lemmas.EncOps
open JsonV JsonV.Model JsonV.Model.Encoder JsonV.Spec JsonV.Spec.PDA JsonV.Spec.Render JsonV.Spec.Names
open JsonV.Lemmas.StateRefine JsonV.Lemmas.StateRun JsonV.Lemmas.EncRender JsonV.Lemmas.EncIff
open JsonV.Lemmas.EncValue JsonV.Lemmas.EncRaw JsonV.Lemmas.EncNoop

/-- The tokens one call contributes to the history. -/
def opToks (o : Opts) : Call → List Tok
  | .tok t => [t]
  | .val v => valueToks o v

/-- The token history of a script of calls. -/
def histToks (o : Opts) : List Call → List Tok
  | [] => []
  | c :: cs => opToks o c ++ histToks o cs

/-- Run a script all of whose calls have to be accepted. -/
def runOps : Enc → List Call → Option Enc
  | e, [] => some e
  | e, c :: cs =>
    match doCall e c with
    | (e', none) => runOps e' cs
    | (_, some _) => none

theorem trackRun_run {o : Opts} (ts : List Tok) : ∀ {fs fs' : Frames} {ns ns' : List (List Bytes)},
    trackRun o fs ns ts = some (fs', ns') →
    PDA.run o.maxDepth fs (ts.map kindOf) = some fs' ∧ track o (fs, ns) ts = (fs', ns') := by
  induction ts with
  | nil => intro fs fs' ns ns' h; simp [trackRun] at h; obtain ⟨h1, h2⟩ := h; subst h1 h2; exact ⟨rfl, rfl⟩
  | cons t ts ih =>
    intro fs fs' ns ns' h
    simp only [trackRun] at h
    cases hs : step o.maxDepth fs (kindOf t) with
    | none => rw [hs] at h; cases h
    | some fs1 =>
      rw [hs] at h
      have := ih h
      simp only [List.map_cons, PDA.run, track, hs]
      exact this

theorem run_append_some {max : Nat} {a b : List Kind} : ∀ {fs fs1 fs2 : Frames},
    PDA.run max fs a = some fs1 → PDA.run max fs1 b = some fs2 → PDA.run max fs (a ++ b) = some fs2 := by
  induction a with
  | nil => intro fs fs1 fs2 h1 h2; simp [PDA.run] at h1; subst h1; exact h2
  | cons k a ih =>
    intro fs fs1 fs2 h1 h2
    simp only [PDA.run, List.cons_append] at h1 ⊢
    cases hs : step max fs k with
    | none => rw [hs] at h1; cases h1
    | some f1 => rw [hs] at h1; simp only; exact ih h1 h2

theorem encInv_mono {o : Opts} {b b' : Nat} {fs : Frames} {ns : List (List Bytes)} {e : Enc}
    (h : EncInv o b fs ns e) (hb : b ≤ b') : EncInv o b' fs ns e :=
  ⟨h.opts, inv_mono h.inv hb, h.abs_eq, h.bottom, h.names⟩

/-- One accepted call, token or raw value. -/
theorem doCall_inv {o : Opts} {b : Nat} {fs : Frames} {ns : List (List Bytes)} {e e' : Enc}
    (hI : EncInv o b fs ns e) (hb : b + 2 < 2^61) (c : Call) (h : doCall e c = (e', none)) :
    ∃ fs' ns', trackRun o fs ns (opToks o c) = some (fs', ns') ∧ EncInv o (b + 2) fs' ns' e' ∧
      e'.out = e.out ++ renderFrom o fs (opToks o c) := by
  cases c with
  | tok t =>
    simp only [doCall] at h
    obtain ⟨fs', hstep, hI'⟩ := writeToken_inv hI (by omega) t h
    refine ⟨fs', namesStep o fs ns t, by simp [opToks, trackRun, hstep], encInv_mono hI' (by omega), ?_⟩
    have hr : runToks e [t] = some e' := by simp [runToks, h]
    have := out_render_from [t] (b := b) (e := e) (e' := e') (by rw [hI.opts]; exact hI.inv)
      (by rw [hI.abs_eq]; exact hI.bottom) (by simp; omega) hr
    rw [hI.opts, hI.abs_eq] at this
    exact this.1
  | val v =>
    simp only [doCall] at h
    obtain ⟨toks, rest, fs', ns', ht, hout, htr, hI', _⟩ := writeValue_inv hI hb v h
    have hvt : valueToks o v = toks := by simp [valueToks, ht]
    exact ⟨fs', ns', by simp [opToks, hvt, htr], hI', by simp [opToks, hvt, hout]⟩

/-- **Every state reached by an accepted script** of `WriteToken`/`WriteValue` calls is a reachable
state in the sense of `EncInv`, with frames and names those after the script's token history, and the
output is the rendering of the history. -/
theorem runOps_inv (o : Opts) (cs : List Call) : ∀ {b : Nat} {fs : Frames} {ns : List (List Bytes)} {e e' : Enc},
    EncInv o b fs ns e → b + 2 * cs.length < 2^61 → runOps e cs = some e' →
    ∃ fs' ns', trackRun o fs ns (histToks o cs) = some (fs', ns') ∧ EncInv o (b + 2 * cs.length) fs' ns' e' ∧
      e'.out = e.out ++ renderFrom o fs (histToks o cs) := by
  induction cs with
  | nil =>
    intro b fs ns e e' hI _ h
    simp [runOps] at h; subst h
    exact ⟨fs, ns, rfl, hI, by simp [histToks, renderFrom]⟩
  | cons c cs ih =>
    intro b fs ns e e' hI hlen h
    simp only [runOps] at h
    cases hc : doCall e c with
    | mk e1 r =>
      rw [hc] at h
      cases r with
      | some err => simp at h
      | none =>
        simp only at h
        obtain ⟨fs1, ns1, htr1, hI1, hout1⟩ := doCall_inv hI (by simp at hlen; omega) c hc
        obtain ⟨fs2, ns2, htr2, hI2, hout2⟩ := ih hI1 (by simp at hlen ⊢; omega) h
        refine ⟨fs2, ns2, ?_, ?_, ?_⟩
        · simp only [histToks, trackRun_append, htr1, Option.bind_some, htr2]
        · have : b + 2 + 2 * cs.length = b + 2 * (c :: cs).length := by simp; omega
          rw [this] at hI2; exact hI2
        · rw [hout2, hout1, histToks, renderFrom_append o _ _ fs fs1 (trackRun_run _ htr1).1, List.append_assoc]


/-- The reachable state after an accepted script from a new encoder. -/
theorem runOps_new (o : Opts) (cs : List Call) (e : Enc) (hlen : 2 * cs.length < 2^61)
    (h : runOps (Encoder.new o) cs = some e) :
    ∃ fs ns, EncInv o (2 * cs.length) fs ns e ∧
      PDA.run o.maxDepth PDA.init ((histToks o cs).map kindOf) = some fs ∧
      track o (PDA.init, []) (histToks o cs) = (fs, ns) ∧ e.out = render o (histToks o cs) := by
  obtain ⟨fs, ns, htr, hI, hout⟩ := runOps_inv o cs (encInv_new o) (by omega) h
  obtain ⟨hrun, htrack⟩ := trackRun_run _ htr
  refine ⟨fs, ns, by simpa using hI, hrun, htrack, ?_⟩
  simpa [Encoder.new, render] using hout

theorem writeToken_ops_iff (o : Opts) (cs : List Call) (e : Enc) (t : Tok) (hlen : 2 * cs.length + 1 < 2^61)
    (h : runOps (Encoder.new o) cs = some e) :
    (writeToken e t).2 = none ↔
      (Viable o.maxDepth ((histToks o cs ++ [t]).map kindOf) ∧ badUTF8 o t = false ∧
        (o.allowDup = false → FreshName o (histToks o cs) t)) := by
  obtain ⟨fs, ns, hI, hrun, htrack, _⟩ := runOps_new o cs e (by omega) h
  rw [writeToken_iff hI (by omega) t]
  have hv : Viable o.maxDepth ((histToks o cs ++ [t]).map kindOf) ↔
      (step o.maxDepth fs (kindOf t)).isSome = true := by
    simp only [Viable, List.map_append, List.map_cons, List.map_nil, run_snoc, hrun, Option.bind]
  have hf : FreshName o (histToks o cs) t ↔ Fresh o fs ns t := by
    simp only [FreshName, Fresh, innermost_eq, htrack]
  rw [hv, hf]

theorem writeValue_ops_iff (o : Opts) (cs : List Call) (e : Enc) (v : Bytes) (hlen : 2 * cs.length + 2 < 2^61)
    (h : runOps (Encoder.new o) cs = some e) :
    (writeValue e v).2 = none ↔
      ∃ out rest,
        reformatValue o (3 * v.length + 4) (beforeToken e (valueKind v)) (skipWS v) e.m.depth = .ok (out, rest) ∧
        skipWS rest = [] ∧
        Viable o.maxDepth (((histToks o cs).map kindOf) ++ [firstKind (valueKind v)]) ∧
        (valueKind v = 0x22 → o.allowDup = false → isNamePos (track o (PDA.init, []) (histToks o cs)).1 = true →
          unquote (out.drop (beforeToken e (valueKind v)).length) ∉ innermostNames o (histToks o cs)) := by
  obtain ⟨fs, ns, hI, hrun, htrack, _⟩ := runOps_new o cs e (by omega) h
  rw [writeValue_iff hI (by omega) v]
  have hv : Viable o.maxDepth (((histToks o cs).map kindOf) ++ [firstKind (valueKind v)]) ↔
      (step o.maxDepth fs (firstKind (valueKind v))).isSome = true := by
    simp only [Viable, run_snoc, hrun, Option.bind]
  simp only [hv, innermost_eq, htrack]

end JsonV.Lemmas.EncOps
