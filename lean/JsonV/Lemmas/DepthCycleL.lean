/-
Lemmas for C20, marshal traversal of heap graphs (Model/Cycle.lean).
-/
import JsonV.Model.Cycle

namespace JsonV.Lemmas.DepthCycleL
open JsonV.Model.Cycle

theorem seqRes_ne_outOfFuel (f : Nat → Res) (cs : List Nat) (h : ∀ c ∈ cs, f c ≠ .outOfFuel) :
    seqRes f cs ≠ .outOfFuel := by
  induction cs with
  | nil => simp [seqRes]
  | cons c cs ih =>
    have hc := h c (by simp)
    have ht := ih (fun x hx => h x (by simp [hx]))
    simp only [seqRes]
    cases hf : f c <;> simp_all

/-- A rank certificate: every hop that does not deepen the token depth (pointer, interface)
goes to a node of strictly smaller rank — i.e. no cycle consists of pointer/interface hops only. -/
structure Ranked (g : Heap) (rank : Nat → Nat) (R : Nat) : Prop where
  bound : ∀ n, rank n ≤ R
  desc : ∀ n nd, g[n]? = some nd → nd.kind.deepens = false → ∀ c ∈ nd.succ, rank c < rank n

/-- With a rank certificate the traversal ends: fuel (max+1-depth)·(R+1) + rank n + 1 is enough. -/
theorem marshal_terminates (g : Heap) (max after : Nat) (rank : Nat → Nat) (R : Nat)
    (hr : Ranked g rank R) :
    ∀ (fuel depth : Nat) (seen : List Nat) (n : Nat), depth ≤ max + 1 →
      (max + 1 - depth) * (R + 1) + rank n < fuel →
      marshal g max after fuel depth seen n ≠ .outOfFuel := by
  intro fuel
  induction fuel with
  | zero => intro depth seen n _ h; omega
  | succ fuel ih =>
    intro depth seen n hd hf
    unfold marshal
    cases hg : g[n]? with
    | none => simp
    | some nd =>
      simp only
      split
      · simp
      · split
        · simp
        · split
          · rename_i hdeep
            split
            · simp
            · split
              · simp
              · rename_i hne
                apply seqRes_ne_outOfFuel
                intro c _
                apply ih
                · omega
                · have hb := hr.bound c
                  have hb' := hr.bound n
                  have e : max + 1 - depth = (max + 1 - (depth + 1)) + 1 := by omega
                  rw [e, Nat.succ_mul] at hf
                  generalize (max + 1 - (depth + 1)) * (R + 1) = A at hf ⊢
                  omega
          · rename_i hdeep
            apply seqRes_ne_outOfFuel
            intro c hc
            apply ih _ _ _ hd
            have := hr.desc n nd hg (by simpa using hdeep) c hc
            generalize (max + 1 - depth) * (R + 1) = A at hf ⊢
            omega

/-! ### the pointer-only cycle: the traversal as implemented never ends -/

theorem selfPtr_diverges (max after : Nat) :
    ∀ (fuel depth : Nat) (seen : List Nat), depth ≤ after →
      marshal selfPtr max after fuel depth seen 0 = .outOfFuel := by
  intro fuel
  induction fuel with
  | zero => intro depth seen _; rfl
  | succ fuel ih =>
    intro depth seen hd
    have hlt : ¬ after < depth := by omega
    unfold marshal
    simp [selfPtr, Kind.tracked, Kind.deepens, hlt, seqRes]
    have := ih depth seen hd
    simp [selfPtr] at this
    rw [this]

theorem selfIface_diverges (max after : Nat) :
    ∀ (fuel depth : Nat) (seen : List Nat), depth ≤ after →
      marshal selfIface max after fuel depth seen 0 = .outOfFuel ∧
      marshal selfIface max after fuel depth seen 1 = .outOfFuel := by
  intro fuel
  induction fuel with
  | zero => intro depth seen _; exact ⟨rfl, rfl⟩
  | succ fuel ih =>
    intro depth seen hd
    have hlt : ¬ after < depth := by omega
    obtain ⟨h0, h1⟩ := ih depth seen hd
    simp [selfIface] at h0 h1
    constructor
    · unfold marshal
      simp [selfIface, Kind.tracked, Kind.deepens, hlt, seqRes]
      rw [h1]
    · unfold marshal
      simp [selfIface, Kind.tracked, Kind.deepens, hlt, seqRes]
      rw [h0]

end JsonV.Lemmas.DepthCycleL
