/-
Lemmas for C20, marshal traversal of heap graphs (Model/Cycle.lean).
-/
import JsonV.Model.Cycle

namespace JsonV.Lemmas.DepthCycleL
open JsonV.Model.Cycle

theorem seqRes_ne_outOfFuel (f : Nat → Res) (cs : List Nat) (h : ∀ c ∈ cs, f c ≠ .outOfFuel) :
    seqRes f cs ≠ .outOfFuel := by
  induction cs with
  | nil => simp [seqRes]
  | cons c cs ih =>
    have hc := h c (by simp)
    have ht := ih (fun x hx => h x (by simp [hx]))
    simp only [seqRes]
    cases hf : f c <;> simp_all

/-! ### the measure: nodes not yet in the visited set, and the kind of the current node -/

/-- number of nodes of `g` that are not in `seen` -/
def unseen (g : Heap) (seen : List Nat) : Nat := (List.range g.length).countP (fun i => !seen.contains i)

theorem countP_le_of_imp {α} (p q : α → Bool) (l : List α) (h : ∀ x ∈ l, p x = true → q x = true) :
    l.countP p ≤ l.countP q := by
  induction l with
  | nil => simp
  | cons a l ih =>
    have ih' := ih (fun x hx => h x (by simp [hx]))
    have ha := h a (by simp)
    simp only [List.countP_cons]
    cases hp : p a <;> cases hq : q a <;> simp_all <;> omega

theorem countP_lt_of_imp {α} (p q : α → Bool) (l : List α) (h : ∀ x ∈ l, p x = true → q x = true)
    (a : α) (ha : a ∈ l) (hqa : q a = true) (hpa : p a = false) : l.countP p < l.countP q := by
  induction l with
  | nil => simp at ha
  | cons b l ih =>
    simp only [List.countP_cons]
    have hmono := countP_le_of_imp p q l (fun x hx => h x (by simp [hx]))
    rcases List.mem_cons.1 ha with rfl | hmem
    · simp [hqa, hpa]; omega
    · have := ih (fun x hx => h x (by simp [hx])) hmem
      have hb := h b (by simp)
      cases hp : p b <;> cases hq : q b <;> simp_all <;> omega

theorem unseen_le (g : Heap) (seen : List Nat) : unseen g seen ≤ g.length := by
  unfold unseen
  have := List.countP_le_length (p := fun i => !seen.contains i) (l := List.range g.length)
  simpa using this

theorem unseen_cons_le (g : Heap) (seen : List Nat) (n : Nat) : unseen g (n :: seen) ≤ unseen g seen := by
  unfold unseen
  apply countP_le_of_imp
  intro x _ hx
  simp at hx ⊢
  exact hx.2

theorem unseen_cons_lt (g : Heap) (seen : List Nat) (n : Nat) (hn : n < g.length) (hs : n ∉ seen) :
    unseen g (n :: seen) < unseen g seen := by
  unfold unseen
  apply countP_lt_of_imp _ _ _ _ n (by simpa using hn)
  · simpa using hs
  · simp
  · intro x _ hx
    simp at hx ⊢
    exact hx.2

/-- 2 for an interface, 1 for a pointer, 0 otherwise (also for a missing node) -/
def flag (g : Heap) (n : Nat) : Nat :=
  match kindOf g n with
  | some .iface => 2
  | some .ptr => 1
  | _ => 0

theorem flag_le (g : Heap) (n : Nat) : flag g n ≤ 2 := by
  unfold flag; split <;> omega

theorem flag_of_not_ptrLike {g : Heap} {c : Nat} (h : isPtrLike g c = false) : flag g c = 0 := by
  unfold isPtrLike at h
  unfold flag
  split <;> simp_all

theorem flag_of_not_iface {g : Heap} {c : Nat} (h : isIface g c = false) : flag g c ≤ 1 := by
  unfold isIface at h
  unfold flag
  split <;> simp_all

theorem lt_length_of_get {g : Heap} {n : Nat} {nd : Node} (h : g[n]? = some nd) : n < g.length := by
  have := List.getElem?_eq_some_iff.1 h
  exact this.1

/-- The traversal with the `pointsToPointerLike` clause ends on EVERY heap:
fuel (max+1-depth)·(3·|g|+3) + 3·unseen + flag + 1 is enough. -/
theorem marshal_terminates (cfg : Cfg) (g : Heap) (ht : cfg.trackPtrLike = true) :
    ∀ (fuel depth : Nat) (seen : List Nat) (n : Nat), depth ≤ cfg.max + 1 →
      (cfg.max + 1 - depth) * (3 * g.length + 3) + 3 * unseen g seen + flag g n < fuel →
      marshal cfg g fuel depth seen n ≠ .outOfFuel := by
  intro fuel
  induction fuel with
  | zero => intro depth seen n _ h; omega
  | succ fuel ih =>
    intro depth seen n hd hf
    unfold marshal
    cases hg : g[n]? with
    | none => simp
    | some nd =>
      have hn := lt_length_of_get hg
      simp only
      split
      · simp
      · rename_i hcyc
        -- the visited set handed to the children
        have hseen_le : unseen g (if consults cfg g nd depth = true then n :: seen else seen) ≤ unseen g seen := by
          split
          · exact unseen_cons_le g seen n
          · exact Nat.le_refl _
        split
        · simp
        · split
          · -- slice / map / array / struct
            split
            · simp
            · split
              · simp
              · apply seqRes_ne_outOfFuel
                intro c _
                apply ih
                · omega
                · have hu := unseen_le g (if consults cfg g nd depth = true then n :: seen else seen)
                  have hfl := flag_le g c
                  have e : cfg.max + 1 - depth = (cfg.max + 1 - (depth + 1)) + 1 := by omega
                  rw [e, Nat.succ_mul] at hf
                  generalize (cfg.max + 1 - (depth + 1)) * (3 * g.length + 3) = A at hf ⊢
                  omega
          · rename_i hscalar hdeep
            split
            · simp
            · rename_i hiface
              apply seqRes_ne_outOfFuel
              intro c hc
              apply ih _ _ _ hd
              generalize (cfg.max + 1 - depth) * (3 * g.length + 3) = A at hf ⊢
              -- pointer or interface
              have hkind : nd.kind = .ptr ∨ nd.kind = .iface := by
                cases hk : nd.kind <;> simp_all [Kind.deepens]
              have hflagn : flag g n = (if nd.kind = .iface then 2 else 1) := by
                unfold flag kindOf
                rcases hkind with hk | hk <;> simp [hg, hk]
              rcases hkind with hk | hk
              · -- pointer
                by_cases hpl : isPtrLike g c = true
                · -- target is pointer-like: the pointer is tracked, so it enters the visited set
                  have hcons : consults cfg g nd depth = true := by
                    unfold consults pointsToPtrLike
                    have : nd.succ.any (isPtrLike g) = true := List.any_eq_true.2 ⟨c, hc, hpl⟩
                    simp [hk, Kind.tracked, ht, this]
                  have hns : n ∉ seen := by
                    intro hmem; exact hcyc ⟨hcons, hmem⟩
                  have hlt := unseen_cons_lt g seen n hn hns
                  have hfl := flag_le g c
                  simp only [hcons, if_true]
                  simp [hk] at hflagn
                  omega
                · have hfl := flag_of_not_ptrLike (by simpa using hpl : isPtrLike g c = false)
                  simp [hk] at hflagn
                  omega
              · -- interface: its value is not an interface
                have hni : isIface g c = false := by
                  cases hci : isIface g c with
                  | false => rfl
                  | true => exact absurd ⟨hk, List.any_eq_true.2 ⟨c, hc, hci⟩⟩ hiface
                have hfl := flag_of_not_iface hni
                simp [hk] at hflagn
                omega

/-! ### the old traversal (no `pointsToPointerLike` clause): pointer-only cycles never end -/

theorem selfPtr_diverges_old (cfg : Cfg) (ht : cfg.trackPtrLike = false) :
    ∀ (fuel depth : Nat) (seen : List Nat), depth ≤ cfg.after →
      marshal cfg selfPtr fuel depth seen 0 = .outOfFuel := by
  intro fuel
  induction fuel with
  | zero => intro depth seen _; rfl
  | succ fuel ih =>
    intro depth seen hd
    have hlt : ¬ cfg.after < depth := by omega
    have := ih depth seen hd
    unfold marshal
    simp [selfPtr, consults, Kind.tracked, Kind.deepens, hlt, ht, seqRes]
    simp [selfPtr] at this
    rw [this]

theorem selfIface_diverges_old (cfg : Cfg) (ht : cfg.trackPtrLike = false) :
    ∀ (fuel depth : Nat) (seen : List Nat), depth ≤ cfg.after →
      marshal cfg selfIface fuel depth seen 0 = .outOfFuel ∧
      marshal cfg selfIface fuel depth seen 1 = .outOfFuel := by
  intro fuel
  induction fuel with
  | zero => intro depth seen _; exact ⟨rfl, rfl⟩
  | succ fuel ih =>
    intro depth seen hd
    have hlt : ¬ cfg.after < depth := by omega
    obtain ⟨h0, h1⟩ := ih depth seen hd
    simp [selfIface] at h0 h1
    constructor
    · unfold marshal
      simp [selfIface, consults, Kind.tracked, Kind.deepens, hlt, ht, seqRes, isIface, kindOf]
      rw [h1]
    · unfold marshal
      simp [selfIface, consults, Kind.tracked, Kind.deepens, hlt, ht, seqRes, isIface, kindOf]
      rw [h0]

/-! ### the new traversal reports them -/

set_option linter.unusedSimpArgs false

theorem selfPtr_cycle (cfg : Cfg) (ht : cfg.trackPtrLike = true) (fuel depth : Nat) :
    marshal cfg selfPtr (fuel + 2) depth [] 0 = .cycle := by
  unfold marshal
  simp [selfPtr, consults, pointsToPtrLike, isPtrLike, kindOf, Kind.tracked, Kind.deepens, ht, seqRes]
  unfold marshal
  simp [consults, pointsToPtrLike, isPtrLike, kindOf, Kind.tracked, ht]

theorem selfIface_cycle (cfg : Cfg) (ht : cfg.trackPtrLike = true) (fuel depth : Nat) :
    marshal cfg selfIface (fuel + 4) depth [] 0 = .cycle := by
  unfold marshal
  simp [selfIface, consults, pointsToPtrLike, isPtrLike, isIface, kindOf, Kind.tracked, Kind.deepens, seqRes]
  unfold marshal
  simp [selfIface, consults, pointsToPtrLike, isPtrLike, isIface, kindOf, Kind.tracked, Kind.deepens, ht, seqRes]
  unfold marshal
  simp [selfIface, consults, pointsToPtrLike, isPtrLike, isIface, kindOf, Kind.tracked, Kind.deepens, seqRes]
  unfold marshal
  simp [selfIface, consults, pointsToPtrLike, isPtrLike, isIface, kindOf, Kind.tracked, ht]

/-! ### the `[]` / `{}` shortcuts at the depth limit -/

/-- If every shortcut that applies to the kind carries the `AtMaxDepth` guard, a container met at
`Depth() = max+1` is never written: the result is the cycle error (if the visited set already holds it)
or errMaxDepth — also when it is empty. -/
theorem container_at_limit_refused (cfg : Cfg) (g : Heap)
    (fuel : Nat) (seen : List Nat) (n : Nat) (nd : Node) (hn : g[n]? = some nd) (hk : nd.kind.deepens = true)
    (hg : cfg.shortcut nd.kind = true → cfg.guarded nd.kind = true) :
    marshal cfg g (fuel + 1) (cfg.max + 1) seen n =
      if consults cfg g nd (cfg.max + 1) = true ∧ n ∈ seen then .cycle else .maxDepth := by
  unfold marshal
  have hs : nd.kind ≠ .scalar := by intro h; simp [h, Kind.deepens] at hk
  cases hsc : cfg.shortcut nd.kind with
  | false => simp [hn, hk, hs, hsc]
  | true => simp [hn, hk, hs, hsc, hg hsc]

/-- A shortcut WITHOUT the guard writes an empty container at `Depth() = max+1`
(slices/maps before c2b1a73; a fast path for member-less structs that forgets the guard). -/
theorem unguarded_shortcut_accepts (cfg : Cfg) (g : Heap)
    (fuel : Nat) (seen : List Nat) (n : Nat) (nd : Node) (hn : g[n]? = some nd)
    (hk : nd.kind.deepens = true) (hsc : cfg.shortcut nd.kind = true) (hg : cfg.guarded nd.kind = false)
    (he : nd.succ = []) (hs : n ∉ seen) :
    marshal cfg g (fuel + 1) (cfg.max + 1) seen n = .ok := by
  unfold marshal
  have hsk : nd.kind ≠ .scalar := by intro h; simp [h, Kind.deepens] at hk
  simp [hn, hk, he, hsc, hg, hs, hsk]

end JsonV.Lemmas.DepthCycleL
