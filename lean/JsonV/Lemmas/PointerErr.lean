/-
Lemmas for C16, part 9: jsontext/errors.go — the reversed suffix of `pointerSuffixError`
(`wrapWithObjectName`, `wrapWithArrayIndex`, `appendPointer`) and the JSONPointer of `wrapSyntacticError`.
-/
import JsonV.Lemmas.PointerSim

namespace JsonV.Lemmas.Pointer
open JsonV JsonV.Model JsonV.Model.Pointer JsonV.Spec.Pointer

/-! ### appendPointer reverses the segments -/

def joinSegs (segs : List Bytes) : Bytes := segs.flatMap (fun a => cSlash :: a)

theorem joinSegs_snoc (segs : List Bytes) (a : Bytes) : joinSegs (segs ++ [a]) = joinSegs segs ++ cSlash :: a := by
  simp [joinSegs]

theorem appendPointer_nil (bo : Bytes) : appendPointer [] bo = some bo := by
  rw [appendPointer]; simp

theorem appendPointer_snoc (pre a bo : Bytes) (ha : ∀ b ∈ a, b ≠ cSlash) :
    appendPointer (pre ++ cSlash :: a) bo = appendPointer pre (bo ++ cSlash :: a) := by
  rw [appendPointer]
  have hne : pre ++ cSlash :: a ≠ [] := by simp
  rw [dif_neg hne]
  have hl := lastIndexByte_sep cSlash pre a ha
  split
  · rename_i h; rw [hl] at h; cases h
  · rename_i i h
    rw [hl] at h
    simp only [Option.some.injEq] at h
    subst h
    simp

theorem appendPointer_segs (segs : List Bytes) (hs : ∀ a ∈ segs, ∀ b ∈ a, b ≠ cSlash) (bo : Bytes) :
    appendPointer (joinSegs segs) bo = some (bo ++ joinSegs segs.reverse) := by
  generalize hn : segs.length = n
  induction n generalizing segs bo with
  | zero =>
    have : segs = [] := List.length_eq_zero_iff.mp hn
    subst this; simp [joinSegs, appendPointer_nil]
  | succ n ih =>
    rcases List.eq_nil_or_concat segs with rfl | ⟨pre, a, rfl⟩
    · simp at hn
    · rw [List.concat_eq_append] at hs hn ⊢
      rw [joinSegs_snoc, appendPointer_snoc _ _ _ (hs a (by simp))]
      rw [ih pre (fun x hx => hs x (by simp [hx])) _ (by simpa using hn)]
      simp [joinSegs]

theorem render_eq_joinSegs (ts : List Bytes) : render ts = joinSegs (ts.map escapeTok) := by
  induction ts with
  | nil => rfl
  | cons t ts ih => simp [render, joinSegs, ih, cSlash]

/-! ### the suffix built while the call stack unwinds -/

/-- One frame of the unwinding: `wrapWithObjectName` / `wrapWithArrayIndex`. -/
def wrapRef (rev : Bytes) : Ref → Bytes
  | .name n => wrapWithObjectName rev n
  | .index i => wrapWithArrayIndex rev i

/-- `reversePointer` after unwinding through `path` (given outermost first; the innermost frame wraps first). -/
def buildRev (path : List Ref) : Bytes := path.reverse.foldl wrapRef []

theorem wrapRef_eq (rev : Bytes) (x : Ref) : wrapRef rev x = rev ++ cSlash :: escapeTok (refToken x) := by
  cases x with
  | name n => simp [wrapRef, wrapWithObjectName, refToken, appendEscape_eq]
  | index i => simp [wrapRef, wrapWithArrayIndex, refToken, escapeTok_decimal]

theorem foldl_wrapRef (xs : List Ref) (rev : Bytes) :
    xs.foldl wrapRef rev = rev ++ joinSegs (xs.map (fun x => escapeTok (refToken x))) := by
  induction xs generalizing rev with
  | nil => simp [joinSegs]
  | cons x xs ih => simp [List.foldl_cons, ih, wrapRef_eq, joinSegs]

/-- **Suffix**: the reversed construction plus `appendPointer` appends exactly the rendering of the path,
with RFC 6901 escaping of every name (whatever bytes it holds). -/
theorem suffix_spec (path : List Ref) (ptr : Bytes) :
    appendPointer (buildRev path) ptr = some (ptr ++ render (path.map refToken)) := by
  unfold buildRev
  rw [foldl_wrapRef, List.nil_append, appendPointer_segs]
  · rw [render_eq_joinSegs]; simp [List.map_reverse, List.map_map]; rfl
  · intro a ha
    simp only [List.mem_map, List.mem_reverse] at ha
    obtain ⟨x, _, rfl⟩ := ha
    exact escapeTok_no_slash _

/-! ### wrapSyntacticError -/

theorem pathOfFrames_container (w : Int) (f g : Frame) (rest : List Frame) :
    pathOfFrames w (f :: g :: rest) = containerOfFrames (f :: g :: rest) ++ (f.innermost w).toList := rfl

theorem innermost_nexts (w : Int) (f : Frame) : ∀ x, f.innermost w = some x → x ∈ f.nexts := by
  intro x hx
  cases f with
  | arr n =>
    simp only [Frame.innermost] at hx
    split at hx
    · split at hx
      · cases hx
      · rename_i hn; cases hx; simp [Frame.nexts, hn]
    · split at hx
      · cases hx
      · cases hx; simp [Frame.nexts]
  | obj last aw =>
    simp only [Frame.innermost] at hx
    have : last.map Ref.name = some x := by
      split at hx
      · exact hx
      · split at hx
        · exact hx
        · cases hx
    simp [Frame.nexts, this]

theorem parent_render_snoc (ts : List Bytes) (t : Bytes) : parent (render (ts ++ [t])) = render ts := by
  rw [render_snoc]; exact parent_sep _ _ (escapeTok_no_slash t)

/-- Acceptable set: `ptr(C)` or `ptr(C)/next`. -/
def Acceptable (fs : List Frame) (p : Bytes) : Prop :=
  p = render ((containerOfFrames fs).map refToken) ∨
  ∃ x, x ∈ nextsOfFrames fs ∧
    p = render ((containerOfFrames fs ++ [x]).map refToken)

/-- **err_pointer, token path** (no suffix): on a good state related to frames `fs`, for where ∈ {-1,0,+1} —
and where = +1 whenever the mismatched-delimiter branch is taken, as in ReadToken/ReadValue — the reported pointer is
`ptr(C)` or `ptr(C)/next`. -/
theorem wrap_acceptable (w : Int) (hw : w = -1 ∨ w = 0 ∨ w = 1) (mm : Bool) (hmm : mm = true → w = 1)
    {s : AState} {fs : List Frame} (hr : Rel s.stack s.names fs) (hg : Good s) :
    ∃ p, wrapSyntacticErrorPtr s w none mm = some p ∧ Acceptable fs p := by
  have hp := pointer_of_rel w hw hr hg
  unfold wrapSyntacticErrorPtr
  rw [hp]
  simp only
  -- the unmodified pointer is acceptable
  have hbase : Acceptable fs (render ((pathOfFrames w fs).map refToken)) := by
    cases fs with
    | nil => exact Or.inl rfl
    | cons f below =>
      cases below with
      | nil => exact Or.inl rfl
      | cons g rest =>
        rw [pathOfFrames_container]
        cases hi : f.innermost w with
        | none => left; simp
        | some x => right; exact ⟨x, innermost_nexts w f x hi, by simp⟩
  cases hmmv : mm with
  | false => exact ⟨_, rfl, hbase⟩
  | true =>
    have hw1 : w = 1 := hmm hmmv
    subst hw1
    simp only [if_true]
    obtain ⟨stack, names⟩ := s
    simp only at hr ⊢
    cases hr with
    | nil => exact ⟨_, rfl, hbase⟩
    | @arr n es ns fs0 h0 =>
      cases es with
      | nil => exact ⟨_, rfl, hbase⟩
      | cons e2 es2 =>
        have hl := h0.length
        cases fs0 with
        | nil => simp at hl
        | cons g rest =>
          by_cases hn : n = 0
          · subst hn; exact ⟨_, by simp, hbase⟩
          · have hpos : (0 : Nat) < n := by omega
            refine ⟨parent (render ((pathOfFrames 1 (Frame.arr n :: g :: rest)).map refToken)),
              by simp [hpos, SEntry.isArray], ?_⟩
            rw [pathOfFrames_container]
            simp only [Frame.innermost]
            left
            simp only [show ¬ ((1 : Int) < 0) by decide, show ¬ ((1 : Int) = 0) by decide, if_false, Option.toList,
              List.map_append, List.map_cons, List.map_nil]
            exact parent_render_snoc _ _
    | @obj n nm es ns fs0 h0 =>
      cases es with
      | nil => exact ⟨_, rfl, hbase⟩
      | cons e2 es2 =>
        have hl := h0.length
        cases fs0 with
        | nil => simp at hl
        | cons g rest =>
          by_cases hn : n = 0
          · subst hn; exact ⟨_, by simp, hbase⟩
          · have hpos : (0 : Nat) < n := by omega
            by_cases hpar : n % 2 = 0
            · -- a name is expected: the pointer is the parent object already
              refine ⟨_, by simp [hpos, SEntry.isArray, SEntry.needObjectName, hpar], hbase⟩
            · have hodd : n % 2 = 1 := by omega
              refine ⟨parent (render ((pathOfFrames 1
                  (Frame.obj (if n = 0 then none else some nm) (n % 2 == 1) :: g :: rest)).map refToken)),
                by simp [hpos, SEntry.isArray, SEntry.needObjectName, hpar], ?_⟩
              rw [pathOfFrames_container]
              simp only [Frame.innermost]
              left
              simp only [show ¬ ((1 : Int) < 0) by decide, hn, hodd, if_false, Option.map, Option.toList,
                List.map_append, List.map_cons, List.map_nil, beq_self_eq_true, if_true]
              exact parent_render_snoc _ _

/-- **Duplicate name on the token path**: ReadToken raises `wrapWithObjectName(ErrDuplicateName, name)` with
where = +1 while a name is expected: the pointer is exactly the duplicated member `ptr(C)/name`. -/
theorem wrap_duplicate {s : AState} {fs : List Frame} (hr : Rel s.stack s.names fs) (hg : Good s)
    (hname : ∀ f rest, fs = f :: rest → f.innermost 1 = none) (dup : Bytes) :
    wrapSyntacticErrorPtr s 1 (some (wrapWithObjectName [] dup)) false =
      some (render ((containerOfFrames fs ++ [Ref.name dup]).map refToken)) := by
  have hp := pointer_of_rel 1 (Or.inr (Or.inr rfl)) hr hg
  unfold wrapSyntacticErrorPtr
  rw [hp]
  have hsuf := suffix_spec [.name dup] (render ((pathOfFrames 1 fs).map refToken))
  have hb : buildRev [.name dup] = wrapWithObjectName [] dup := rfl
  rw [hb] at hsuf
  simp only [hsuf]
  have hpath : pathOfFrames 1 fs = containerOfFrames fs := by
    cases fs with
    | nil => rfl
    | cons f below =>
      cases below with
      | nil => rfl
      | cons g rest => rw [pathOfFrames_container, hname f _ rfl]; simp
  rw [hpath, ← render_append]
  simp

/-- **Errors nested inside ReadValue / WriteValue**: the suffix path is appended to the stack pointer. -/
theorem wrap_suffix (w : Int) (hw : w = -1 ∨ w = 0 ∨ w = 1) {s : AState} {fs : List Frame}
    (hr : Rel s.stack s.names fs) (hg : Good s) (path : List Ref) :
    wrapSyntacticErrorPtr s w (some (buildRev path)) false =
      some (render ((pathOfFrames w fs ++ path).map refToken)) := by
  have hp := pointer_of_rel w hw hr hg
  unfold wrapSyntacticErrorPtr
  rw [hp]
  simp only [suffix_spec]
  rw [← render_append]; simp

/-! ### on reachable states -/

theorem acceptable_containerOf {hist : List Tok} {fs : List Frame} (hf : runFrames [.arr 0] hist = some fs) {p : Bytes}
    (h : Acceptable fs p) : ∃ C nexts, containerOf hist = some (C, nexts) ∧
      (p = render (C.map refToken) ∨ ∃ x ∈ nexts, p = render ((C ++ [x]).map refToken)) := by
  refine ⟨containerOfFrames fs, nextsOfFrames fs, by unfold containerOf; rw [hf]; rfl, ?_⟩
  rcases h with h | ⟨x, hx, h⟩
  · exact Or.inl h
  · exact Or.inr ⟨x, hx, h⟩

/-- **err_pointer** (ReadToken / ReadValue top level, no suffix): after any accepted token history the JSONPointer of
`wrapSyntacticError` is `ptr(C)` or `ptr(C)/next` for the innermost open container `C` — never an ancestor of `C`. -/
theorem err_pointer (hist : List Tok) (w : Int) (hw : w = -1 ∨ w = 0 ∨ w = 1) (mm : Bool) (hmm : mm = true → w = 1)
    (s : AState) (hrun : AState.init.run hist = some s) :
    ∃ p C nexts, containerOf hist = some (C, nexts) ∧ wrapSyntacticErrorPtr s w none mm = some p ∧
      (p = render (C.map refToken) ∨ ∃ x ∈ nexts, p = render ((C ++ [x]).map refToken)) := by
  obtain ⟨fs, hf, hr, hg⟩ := run_sim init_rel init_good hrun
  obtain ⟨p, hp, ha⟩ := wrap_acceptable w hw mm hmm hr hg
  obtain ⟨C, nexts, hc, hcase⟩ := acceptable_containerOf hf ha
  exact ⟨p, C, nexts, hc, hp, hcase⟩

/-- **err_pointer for a duplicate name** on the token path: exactly the duplicated member. -/
theorem err_pointer_dup (hist : List Tok) (s : AState) (hrun : AState.init.run hist = some s)
    (hneed : s.stack.head?.map SEntry.needObjectName = some true) (dup : Bytes) :
    ∃ C nexts, containerOf hist = some (C, nexts) ∧
      wrapSyntacticErrorPtr s 1 (some (wrapWithObjectName [] dup)) false =
        some (render ((C ++ [Ref.name dup]).map refToken)) := by
  obtain ⟨fs, hf, hr, hg⟩ := run_sim init_rel init_good hrun
  refine ⟨containerOfFrames fs, nextsOfFrames fs, by unfold containerOf; rw [hf]; rfl, ?_⟩
  apply wrap_duplicate hr hg
  intro f rest hfs
  subst hfs
  obtain ⟨stack, names⟩ := s
  simp only at hr hneed
  cases hr with
  | arr n h0 => simp [SEntry.needObjectName] at hneed
  | obj n nm h0 =>
    simp only [List.head?_cons, Option.map_some, SEntry.needObjectName, Bool.true_and, Option.some.injEq,
      beq_iff_eq] at hneed
    have : (n % 2 == 1) = false := by simp; omega
    simp [Frame.innermost, this]

/-- **err_pointer for errors nested in a value** (ReadValue / WriteValue): stack pointer, then the path inside the
value, every name escaped. -/
theorem err_pointer_nested (hist : List Tok) (w : Int) (hw : w = -1 ∨ w = 0 ∨ w = 1) (s : AState)
    (hrun : AState.init.run hist = some s) (path : List Ref) :
    ∃ base, pointerOf w hist = some base ∧
      wrapSyntacticErrorPtr s w (some (buildRev path)) false = some (render ((base ++ path).map refToken)) := by
  obtain ⟨fs, hf, hr, hg⟩ := run_sim init_rel init_good hrun
  exact ⟨pathOfFrames w fs, by simp [pointerOf, hf], wrap_suffix w hw hr hg path⟩

end JsonV.Lemmas.Pointer
