/-
Helper lemmas for the L3 round trip (C04L3), part 3: `null` outputs, and the round trip of values
of static type `any` (induction on the value).
-/
import JsonV.Lemmas.RoundTripLoops

namespace JsonV.Lemmas.RoundTrip
open JsonV JsonV.Spec JsonV.Model JsonV.Lemmas.Merge

/-! ### Which values marshal as `null` -/

theorem nilSliceTree_null (o : MOpts) : (nilSliceTree o).isNull = o.nilSliceAsNull := by
  unfold nilSliceTree; cases o.nilSliceAsNull <;> rfl

theorem nilMapTree_null (o : MOpts) : (nilMapTree o).isNull = o.nilMapAsNull := by
  unfold nilMapTree; cases o.nilMapAsNull <;> rfl

theorem marDyn_null (o : MOpts) (dv : GoVal) (j : JTree) (h : marDyn o dv = .ok j) (hn : j.isNull = true) :
    printsNull o dv = true := by
  cases dv <;> simp only [marDyn] at h <;> try (cases h; done)
  case bool b => cases h; simp [JTree.isNull] at hn
  case float l => cases h; simp [JTree.isNull] at hn
  case str s => split at h <;> cases h; simp [JTree.isNull] at hn
  case nilSlice => cases h; rw [nilSliceTree_null] at hn; simpa [printsNull] using hn
  case nilMap => cases h; rw [nilMapTree_null] at hn; simpa [printsNull] using hn
  case sliceOf vs =>
    cases hl : marAnyL o vs with
    | error e => simp [hl] at h
    | ok js => simp only [hl, Except.ok.injEq] at h; subst h; simp [JTree.isNull] at hn
  case mapOf ms =>
    cases hl : marAnyM o ms with
    | error e => simp [hl] at h
    | ok mem => simp only [hl, Except.ok.injEq] at h; subst h; simp [JTree.isNull] at hn

theorem marAny_null (o : MOpts) (v : GoVal) (j : JTree) (h : marAny o v = .ok j) (hn : j.isNull = true) :
    printsNull o v = true := by
  cases v <;> simp only [marAny] at h <;> try (cases h; done)
  case nilIface => rfl
  case ifaceOf dv => simp only [printsNull]; exact marDyn_null o dv j h hn

theorem mar_null (o : MOpts) : ∀ (T : GoType) (v : GoVal) (j : JTree), mar o T v = .ok j → j.isNull = true →
    printsNull o v = true := by
  intro T
  induction T using GoType.induct with
  | hbool => intro v j h hn; cases v <;> simp only [mar] at h <;> cases h; simp [JTree.isNull] at hn
  | hint b => intro v j h hn; cases v <;> simp only [mar] at h <;> cases h; simp [JTree.isNull] at hn
  | huint b => intro v j h hn; cases v <;> simp only [mar] at h <;> cases h; simp [JTree.isNull] at hn
  | hfloat => intro v j h hn; cases v <;> simp only [mar] at h <;> cases h; simp [JTree.isNull] at hn
  | hstring =>
    intro v j h hn
    cases v <;> simp only [mar] at h <;> try (cases h; done)
    split at h <;> cases h; simp [JTree.isNull] at hn
  | hslice t _ =>
    intro v j h hn
    cases v <;> simp only [mar] at h <;> try (cases h; done)
    case nilSlice => cases h; rw [nilSliceTree_null] at hn; simpa [printsNull] using hn
    case sliceOf vs =>
      cases hl : marList (mar o t) vs with
      | error e => simp [hl] at h
      | ok js => simp only [hl, Except.ok.injEq] at h; subst h; simp [JTree.isNull] at hn
  | harray n t _ =>
    intro v j h hn
    cases v <;> simp only [mar] at h <;> try (cases h; done)
    case arrayOf vs =>
      cases hl : marList (mar o t) vs with
      | error e => simp [hl] at h
      | ok js => simp only [hl, Except.ok.injEq] at h; subst h; simp [JTree.isNull] at hn
  | hmap t _ =>
    intro v j h hn
    cases v <;> simp only [mar] at h <;> try (cases h; done)
    case nilMap => cases h; rw [nilMapTree_null] at hn; simpa [printsNull] using hn
    case mapOf ms =>
      cases hl : marMembers (mar o t) ms with
      | error e => simp [hl] at h
      | ok mem => simp only [hl, Except.ok.injEq] at h; subst h; simp [JTree.isNull] at hn
  | hptr t ih =>
    intro v j h hn
    cases v <;> simp only [mar] at h <;> try (cases h; done)
    case nilPtr => rfl
    case ptrTo w => simp only [printsNull]; exact ih w j h hn
  | hstruct fs _ =>
    intro v j h hn
    cases v <;> simp only [mar] at h <;> try (cases h; done)
    case structOf fvs =>
      cases hl : marFields o fs fvs with
      | error e => simp [hl] at h
      | ok mem => simp only [hl, Except.ok.injEq] at h; subst h; simp [JTree.isNull] at hn
  | hany => intro v j h hn; simp only [mar] at h; exact marAny_null o v j h hn

/-! ### `any` -/

/-- Round trip of the dynamic value held by an interface (when it does not marshal as `null`). -/
def RTDyn (o : MOpts) (dv : GoVal) : Prop :=
  ∀ j, dynTyped dv = true → marDyn o dv = .ok j → j.isNull = false →
    ∃ dv', unmAny j .nilIface = .ok (.ifaceOf dv') ∧ (safe o dv = true → veq dv dv') ∧ marDyn o dv' = .ok j ∧
      dynTyped dv' = true

theorem rt_any_both (o : MOpts) : ∀ v : GoVal, RT1 o (marAny o) unmAny .nilIface anyTyped v ∧ RTDyn o v := by
  intro v
  induction v using GoVal.induct with
  | hnilIface =>
    refine ⟨?_, ?_⟩
    · intro j _ h
      simp only [marAny, Except.ok.injEq] at h
      subst h
      exact ⟨.nilIface, by simp [unmAny], (by intro _; simp [veq]), rfl, rfl⟩
    · intro j ht; simp [dynTyped] at ht
  | hiface dv ih =>
    refine ⟨?_, ?_⟩
    · intro j ht h
      simp only [anyTyped] at ht
      simp only [marAny] at h
      cases hn : j.isNull with
      | true =>
        have hj : j = .null := by cases j <;> simp_all [JTree.isNull]
        subst hj
        refine ⟨.nilIface, by simp [unmAny], ?_, rfl, rfl⟩
        intro hs
        simp only [safe, Bool.and_eq_true, Bool.not_eq_eq_eq_not, Bool.not_true] at hs
        rw [marDyn_null o dv .null h rfl] at hs
        exact absurd hs.1 (by decide)
      | false =>
        obtain ⟨dv', h1, h2, h3, h4⟩ := ih.2 j ht h hn
        refine ⟨.ifaceOf dv', h1, ?_, by simpa [marAny] using h3, by simpa [anyTyped] using h4⟩
        intro hs
        simp only [safe, Bool.and_eq_true] at hs
        simpa [veq] using h2 hs.2
    · intro j ht; simp [dynTyped] at ht
  | hbool b =>
    refine ⟨by intro j ht; simp [anyTyped] at ht, ?_⟩
    intro j _ h _
    simp only [marDyn, Except.ok.injEq] at h
    subst h
    exact ⟨.bool b, by simp [unmAny, anyPrior], (by intro _; simp [veq]), rfl, rfl⟩
  | hfloat l =>
    refine ⟨by intro j ht; simp [anyTyped] at ht, ?_⟩
    intro j _ h _
    simp only [marDyn, Except.ok.injEq] at h
    subst h
    exact ⟨.float l, by simp [unmAny, anyPrior], (by intro _; simp [veq]), rfl, rfl⟩
  | hstr s =>
    refine ⟨by intro j ht; simp [anyTyped] at ht, ?_⟩
    intro j ht h _
    simp only [dynTyped] at ht
    simp only [marDyn, ht, if_true, Except.ok.injEq] at h
    subst h
    exact ⟨.str s, by simp [unmAny, anyPrior], (by intro _; simp [veq]), by simp [marDyn, ht], by simp [dynTyped, ht]⟩
  | hnilSlice =>
    refine ⟨by intro j ht; simp [anyTyped] at ht, ?_⟩
    intro j _ h hn
    simp only [marDyn, Except.ok.injEq] at h
    subst h
    rw [nilSliceTree_null] at hn
    simp only [nilSliceTree, hn, Bool.false_eq_true, if_false]
    exact ⟨.sliceOf [], by simp [unmAny, anyPrior, unmAnyL], (by intro _; simp [veq]),
      by simp [marDyn, marAnyL], by simp [dynTyped, anyTypedL]⟩
  | hnilMap =>
    refine ⟨by intro j ht; simp [anyTyped] at ht, ?_⟩
    intro j _ h hn
    simp only [marDyn, Except.ok.injEq] at h
    subst h
    rw [nilMapTree_null] at hn
    simp only [nilMapTree, hn, Bool.false_eq_true, if_false]
    refine ⟨.mapOf [], by simp [unmAny, unmAnyM], (by intro _; simp [veq]), ?_, by simp [dynTyped, anyTypedM, nodupB, akeys]⟩
    simp [marDyn, marAnyM, sortMembers]
  | hslice vs ih =>
    refine ⟨by intro j ht; simp [anyTyped] at ht, ?_⟩
    intro j ht h _
    simp only [dynTyped, anyTypedL_iff] at ht
    simp only [marDyn, marAnyL_eq] at h
    cases hl : marList (marAny o) vs with
    | error e => simp [hl] at h
    | ok js =>
      simp only [hl, Except.ok.injEq] at h
      subst h
      obtain ⟨ws, h1, h2, h3, h4, _, _⟩ := rt_list (o := o) (mdec := unmAny) (z := .nilIface) (ty := anyTyped) vs
        (fun v hv => (ih v hv).1) ht js hl
      refine ⟨.sliceOf ws, ?_, ?_, ?_, ?_⟩
      · simp [unmAny, anyPrior, unmAnyL_eq, h1]
      · intro hs; simp only [safe, safeL_iff] at hs; simpa [veq] using h2 hs
      · simp [marDyn, marAnyL_eq, h3]
      · simp only [dynTyped, anyTypedL_iff]; exact h4
  | hmap ms ih =>
    refine ⟨by intro j ht; simp [anyTyped] at ht, ?_⟩
    intro j ht h _
    simp only [dynTyped, Bool.and_eq_true, nodupB_iff, anyTypedM_iff] at ht
    simp only [marDyn, marAnyM_eq] at h
    cases hl : marMembers (marAny o) ms with
    | error e => simp [hl] at h
    | ok mem =>
      simp only [hl, Except.ok.injEq] at h
      subst h
      obtain ⟨m', h1, h2, h3, h4, h5⟩ := rt_map (o := o) (mdec := unmAny) (z := .nilIface) (ty := anyTyped) ms
        (fun k v hv => (ih k v hv).1) ht.1 (fun k v hv => (ht.2 k v hv).2) mem hl
      refine ⟨.mapOf m', ?_, ?_, ?_, ?_⟩
      · simp [unmAny, unmAnyM_eq, h1]
      · intro hs; simp only [safe, safeM_iff] at hs; simpa [veq] using ⟨h2.1, h2.2 hs⟩
      · simp [marDyn, marAnyM_eq, h3, sortMembers_idem]
      · simp only [dynTyped, Bool.and_eq_true, nodupB_iff, anyTypedM_iff]; exact ⟨h4, h5⟩
  | hint i => exact ⟨by intro j ht; simp [anyTyped] at ht, by intro j ht; simp [dynTyped] at ht⟩
  | huint n => exact ⟨by intro j ht; simp [anyTyped] at ht, by intro j ht; simp [dynTyped] at ht⟩
  | harray vs _ => exact ⟨by intro j ht; simp [anyTyped] at ht, by intro j ht; simp [dynTyped] at ht⟩
  | hnilPtr => exact ⟨by intro j ht; simp [anyTyped] at ht, by intro j ht; simp [dynTyped] at ht⟩
  | hptr v _ => exact ⟨by intro j ht; simp [anyTyped] at ht, by intro j ht; simp [dynTyped] at ht⟩
  | hstruct fvs _ => exact ⟨by intro j ht; simp [anyTyped] at ht, by intro j ht; simp [dynTyped] at ht⟩

theorem rt_any (o : MOpts) (v : GoVal) : RT1 o (marAny o) unmAny .nilIface anyTyped v := (rt_any_both o v).1

end JsonV.Lemmas.RoundTrip
