/-
C07 helper lemmas, part 6: the shape invariant is kept by Flush and by both unwrite functions.
-/
import JsonV.Lemmas.FlushShape

namespace JsonV.Model.Flush
open JsonV

theorem InvS.weaken {e : Enc} {f : Bool} (h : InvS e f) : InvS e false :=
  ⟨h.bottom, h.parents, h.opened, h.named, h.stale, h.noOpen⟩

theorem stack_ne_nil_of_obj {e : Enc} (hb : bottomIsObj e.last e.stack = false) (ho : e.last.isObj = true) :
    e.stack ≠ [] := by
  intro hs; rw [hs] at hb; simp [bottomIsObj, ho] at hb

theorem needName_isObj {f : Frame} (h : f.needName = true) : f.isObj = true ∧ f.len % 2 = 0 := by
  simpa [Frame.needName] using h

theorem needValue_isObj {f : Frame} (h : f.needValue = true) : f.isObj = true ∧ f.len % 2 = 1 := by
  simpa [Frame.needValue] using h

theorem unwriteEmptyBytes_of_zero {b : Bytes} (h : emptyLenR b.reverse = 0) : unwriteEmptyBytes b = some (b, false) := by
  simp [unwriteEmptyBytes, unwriteEmptyR, h]

theorem emptyLenR_of_unwrite_true {b r : Bytes} (h : unwriteEmptyBytes b = some (r, true)) :
    emptyLenR b.reverse ≠ 0 := by
  intro hz
  rw [unwriteEmptyBytes_of_zero hz] at h
  simp at h

theorem emptyLenR_buf_of_total {e : Enc} (h : emptyLenR e.total.reverse = 0) : emptyLenR e.buf.reverse = 0 := by
  apply emptyLenR_suffix_zero e.buf.reverse e.delivered.reverse
  simpa [Enc.total, List.reverse_append] using h

/-- A buffer on which UnwriteEmptyObjectMember would fire ends in an empty encoding, so avoidFlush (third case)
suppresses the flush. -/
theorem avoid_of_unwrite {e : Enc} {pre : Bytes} (hn : e.last.needName = true) (hl : e.last.len > 0)
    (hu : unwriteEmptyBytes e.buf = some (pre, true)) : avoidFlush e = true := by
  have hne := emptyLenR_of_unwrite_true hu
  have he := endsEmptyR_of_emptyLenR hne
  obtain ⟨x, y, z, r', hr, _⟩ := emptyLenR_ne_zero hne
  have hl2 : 2 ≤ e.buf.length := by
    have := congrArg List.length hr
    simp at this; omega
  obtain ⟨ho, hk⟩ := needName_isObj hn
  have hl0 : e.last.len ≠ 0 := by omega
  simp [avoidFlush, Frame.needValue, Frame.needName, ho, hk, hl0, he, hl2]

theorem half_ne_zero {n : Nat} (h0 : n > 0) (hk : n % 2 = 0) : n / 2 ≠ 0 := by omega

theorem invS_flush {e : Enc} {f : Bool} (h : InvS e f) (a : WAct) : InvS (flush e a) f := by
  cases hav : avoidFlush e
  · have hl0 : e.last.len ≠ 0 := by
      intro h0; rw [avoidFlush_of_len0 h0] at hav; cases hav
    have hnv : e.last.needValue = false := by
      cases hv : e.last.needValue
      · rfl
      · simp [avoidFlush, hv] at hav
    refine ⟨by simpa using h.bottom, by simpa using h.parents, ?_, ?_, ?_, ?_⟩
    · intro h0; rw [flush_last] at h0; exact absurd h0 hl0
    · intro hv; rw [flush_last] at hv; rw [hnv] at hv; cases hv
    · intro hn hl
      rw [flush_last] at hn hl
      rw [flush_last, flush_stack]
      have hst := stack_ne_nil_of_obj h.bottom (needName_isObj hn).1
      have hnl : flushNL e = [] := by
        have : e.stack.length ≠ 0 := by simpa using hst
        simp [flushNL, Enc.depth, this]
      have htot : (flush e a).delivered ++ (flush e a).buf = e.delivered ++ e.buf := by
        have := flush_total e a
        rwa [hnl, List.append_nil] at this
      apply compat_of_zero
      rw [htot]
      apply Decidable.byContradiction
      intro hne
      obtain ⟨pre, hu, _⟩ := compat_step (h.stale hn hl) (half_ne_zero hl (needName_isObj hn).2) hne
      rw [avoid_of_unwrite hn hl hu] at hav; cases hav
    · intro hl
      rw [flush_last] at hl
      rw [flush_total]
      unfold flushNL
      split
      · simpa using h.noOpen hl
      · split
        · exact noOpenerEnd_append_last _ _ (by decide) (by decide)
        · simpa using h.noOpen hl
  · rw [flush_of_avoid hav]; exact h

theorem bottomIsObj_congr (f g : Frame) (s : List Frame) (h : f.isObj = g.isObj) :
    bottomIsObj f s = bottomIsObj g s := by
  cases s with
  | nil => simpa [bottomIsObj] using h
  | cons p r => rfl

theorem memberSep_prefix {pre sep : Bytes} (dl : Bytes) (h : MemberSep pre sep) : MemberSep (dl ++ pre) sep := by
  cases h with
  | comma => exact MemberSep.comma _
  | first pre' o h1 h2 h3 =>
    rw [← List.append_assoc]; exact MemberSep.first _ o h1 h2 h3

/-- A buffer of shape C (after the member number len/2 of its object) is unwrite-compatible with the stream. -/
theorem compat_of_cshape {dl buf : Bytes} {len : Nat} {stack : List Frame} (hc : CShape dl len stack buf)
    (h0 : len > 0) (hk : len % 2 = 0) : Compat dl stack (len / 2) buf := by
  obtain ⟨pre, sep, ws1, name, ws2, val, hb, h1, h2, hn, hv, hsep, hfirst, hrest⟩ := hc
  obtain ⟨k, hk2⟩ : ∃ k, len / 2 = k + 1 := ⟨len / 2 - 1, by omega⟩
  rw [hk2]
  intro _
  refine ⟨pre, ?_, ?_, ?_, ?_, ?_⟩
  · rw [hb]; exact unwriteEmptyBytes_member pre sep ws1 name ws2 val h2 h1 hn hsep hv
  · have := unwriteEmptyBytes_member (dl ++ pre) sep ws1 name ws2 val h2 h1 hn (memberSep_prefix dl hsep) hv
    rw [hb]; simpa [List.append_assoc] using this
  · intro hk0
    have : len = 2 := by omega
    exact (hfirst (by simp [this])).2
  · intro hk0
    have : len ≠ 2 := by omega
    exact (hrest (by simp [this])).2.1
  · by_cases h2' : len = 2
    · have : k = 0 := by omega
      rw [this]; trivial
    · have hq := (hrest (by simp [h2'])).2.2
      have : (len - 2) / 2 = k := by omega
      rw [this] at hq; exact hq

/-- UnwriteEmptyObjectMember keeps the invariant — whether or not it directly follows the member value. -/
theorem invS_unwriteEmpty {e : Enc} {f : Bool} (h : InvS e f) : InvS (unwriteEmpty e).1 false := by
  unfold unwriteEmpty
  split
  · exact h.weaken
  · rename_i hpre
    have hpre' : (e.last.isObj = true ∧ e.last.needName = true) ∧ ¬ e.last.len = 0 := by
      simpa using hpre
    obtain ⟨⟨ho, hn⟩, hl0⟩ := hpre'
    have hl : e.last.len > 0 := Nat.pos_of_ne_zero hl0
    have hk := (needName_isObj hn).2
    by_cases hz : emptyLenR e.total.reverse = 0
    · rw [unwriteEmptyBytes_of_zero (emptyLenR_buf_of_total hz)]
      exact h.weaken
    · obtain ⟨pre, hu, _, hA, hN, hC⟩ := compat_step (h.stale hn hl) (half_ne_zero hl hk) hz
      rw [hu]
      refine ⟨?_, h.parents, ?_, ?_, ?_, ?_⟩
      · rw [← h.bottom]; exact bottomIsObj_congr _ _ _ (by simp [ho])
      · intro h0
        have : e.last.len / 2 = 1 := by simp at h0; omega
        exact hA this
      · intro hv
        have := (needValue_isObj hv).2
        simp at this; omega
      · intro _ hl2
        have : (e.last.len - 2) / 2 = e.last.len / 2 - 1 := by omega
        simp only
        rw [this]; exact hC
      · intro hl2
        have : e.last.len / 2 ≠ 1 := by simp at hl2; omega
        simpa [Enc.total] using hN this

/-- The same for two runs at once: with equal streams both calls remove the same bytes. -/
theorem unwriteEmpty_sim {e₁ e₂ : Enc} {f₁ f₂ : Bool} (hs : Sim e₁ e₂) (h₁ : InvS e₁ f₁) (h₂ : InvS e₂ f₂) :
    Sim (unwriteEmpty e₁).1 (unwriteEmpty e₂).1 := by
  unfold unwriteEmpty
  rw [← hs.last]
  split
  · exact hs
  · rename_i hpre
    have hpre' : (e₁.last.isObj = true ∧ e₁.last.needName = true) ∧ ¬ e₁.last.len = 0 := by
      simpa using hpre
    obtain ⟨⟨ho, hn⟩, hl0⟩ := hpre'
    have hl : e₁.last.len > 0 := Nat.pos_of_ne_zero hl0
    have hk := (needName_isObj hn).2
    by_cases hz : emptyLenR e₁.total.reverse = 0
    · have hz2 : emptyLenR e₂.total.reverse = 0 := by rw [← hs.total]; exact hz
      rw [unwriteEmptyBytes_of_zero (emptyLenR_buf_of_total hz), unwriteEmptyBytes_of_zero (emptyLenR_buf_of_total hz2)]
      exact hs
    · have hz2 : emptyLenR e₂.total.reverse ≠ 0 := by rw [← hs.total]; exact hz
      obtain ⟨pre₁, hu₁, ht₁, _⟩ := compat_step (h₁.stale hn hl) (half_ne_zero hl hk) hz
      obtain ⟨pre₂, hu₂, ht₂, _⟩ := compat_step
        (h₂.stale (by rw [← hs.last]; exact hn) (by rw [← hs.last]; exact hl))
        (by rw [← hs.last]; exact half_ne_zero hl hk) hz2
      rw [hu₁, hu₂]
      have ht := hs.total
      simp only [Enc.total] at ht
      rw [ht, ht₂] at ht₁
      have : e₂.delivered ++ pre₂ = e₁.delivered ++ pre₁ := by simpa using ht₁
      exact ⟨by simpa [Enc.total] using this.symm, rfl, hs.stack, hs.omitNL⟩

/-- What UnwriteOnlyObjectMemberName does on a buffer of shape V for the first name of an object. -/
theorem unwriteName_of_vshape {dl buf : Bytes} {stack : List Frame} (hv : VShape dl 1 stack buf) :
    ∃ pre, unwriteNameBytes buf = pre ∧ unwriteNameBytes (dl ++ buf) = dl ++ pre ∧ AShape dl stack pre := by
  obtain ⟨pre, sep, ws1, name, hb, h1, hn, hsep, hfirst, _⟩ := hv
  obtain ⟨hs0, hA⟩ := hfirst rfl
  subst hs0
  cases hsep with
  | first pre' o ho hoc hob =>
    refine ⟨pre' ++ [o], ?_, ?_, hA⟩
    · rw [hb]; simpa using unwriteNameBytes_first pre' o ws1 name ho hob h1 hn
    · have := unwriteNameBytes_first (dl ++ pre') o ws1 name ho hob h1 hn
      rw [hb]; simpa [List.append_assoc] using this

theorem invS_unwriteName {e : Enc} {f : Bool} (h : InvS e f) : InvS (unwriteName e) false := by
  unfold unwriteName
  split
  · exact h.weaken
  · rename_i hpre
    have hpre' : e.last.isObj = true ∧ e.last.len = 1 := by simpa using hpre
    obtain ⟨ho, hl⟩ := hpre'
    have hv : e.last.needValue = true := by simp [Frame.needValue, ho, hl]
    have hvs := h.named hv
    rw [hl] at hvs
    obtain ⟨pre, hu, _, hA⟩ := unwriteName_of_vshape hvs
    refine ⟨?_, h.parents, ?_, by simp [Frame.needValue], by simp, by simp⟩
    · rw [← h.bottom]; exact bottomIsObj_congr _ _ _ (by simp [ho])
    · intro _; simpa [hu] using hA

theorem unwriteName_sim {e₁ e₂ : Enc} {f : Bool} (hs : Sim e₁ e₂) (h₁ : InvS e₁ f) (h₂ : InvS e₂ f) :
    Sim (unwriteName e₁) (unwriteName e₂) := by
  unfold unwriteName
  rw [← hs.last]
  split
  · exact hs
  · rename_i hpre
    have hpre' : e₁.last.isObj = true ∧ e₁.last.len = 1 := by simpa using hpre
    obtain ⟨ho, hl⟩ := hpre'
    have hv : e₁.last.needValue = true := by simp [Frame.needValue, ho, hl]
    have hv1 := h₁.named hv
    have hv2 := h₂.named (by rw [← hs.last]; exact hv)
    rw [← hs.last] at hv2
    rw [hl] at hv1 hv2
    obtain ⟨pre₁, hu₁, ht₁, _⟩ := unwriteName_of_vshape hv1
    obtain ⟨pre₂, hu₂, ht₂, _⟩ := unwriteName_of_vshape hv2
    have ht := hs.total
    simp only [Enc.total] at ht
    rw [ht, ht₂] at ht₁
    refine ⟨?_, rfl, hs.stack, hs.omitNL⟩
    simp only [Enc.total, hu₁, hu₂]
    exact ht₁.symm

end JsonV.Model.Flush
