/-
C11 lemma for slice C02: AppendQuote's output is accepted in full by ConsumeString — hence is a (strict) JString of
C01's grammar — for EVERY EscapeForHTML / EscapeForJS / AllowInvalidUTF8 combination and every input.
(`QuoteCanon.csLoop_quoteLoop` is the special case html = js = false, which in addition stays canonical.)
-/
import JsonV.Lemmas.GlueQuote

namespace JsonV.Lemmas.QuoteJString
open JsonV JsonV.Model.Utf8 JsonV.Model.Quote JsonV.Lemmas.QuoteUtf8 JsonV.Lemmas.QuoteL JsonV.Spec.StringSpec JsonV.Lemmas.QuoteSpec JsonV.Lemmas.QuoteWf JsonV.Lemmas.QuoteCanon

/-- `\uXXXX` as produced by appendEscapedUTF16 for any non-surrogate code unit: one step of 6 bytes. -/
theorem csStep_u16 (v : Bool) (x : Nat) (hx : x < 65536) (hs : isSurrogate x = false) (tail : Bytes) :
    ∃ nc, csStep v (appendEscapedUTF16 x ++ tail) = .cont 6 nc := by
  simp only [appendEscapedUTF16, List.cons_append, List.nil_append]
  rw [csStep_backslash]
  simp only [csEscape]
  simp only [csEscapeU, parseHex_u16 x hx, hs]
  simp

theorem csStep_escASCII_any (v : Bool) (c : UInt8) (hc : c.toNat < 128) (tail : Bytes) :
    ∃ nc, csStep v (appendEscapedASCII c.toNat ++ tail) = .cont (appendEscapedASCII c.toNat).length nc := by
  unfold appendEscapedASCII
  split
  · rename_i h
    refine ⟨false, ?_⟩
    simp only [UInt8.ofNat_toNat, List.cons_append, List.nil_append, csStep_backslash, csEscape]
    rcases h with h | h <;> simp [h]
  · split
    · rename_i h; have := u8_eq_of_toNat (by omega) h; subst this
      exact ⟨false, by simp [csStep_backslash, csEscape]⟩
    · split
      · rename_i h; have := u8_eq_of_toNat (by omega) h; subst this
        exact ⟨false, by simp [csStep_backslash, csEscape]⟩
      · split
        · rename_i h; have := u8_eq_of_toNat (by omega) h; subst this
          exact ⟨false, by simp [csStep_backslash, csEscape]⟩
        · split
          · rename_i h; have := u8_eq_of_toNat (by omega) h; subst this
            exact ⟨false, by simp [csStep_backslash, csEscape]⟩
          · split
            · rename_i h; have := u8_eq_of_toNat (by omega) h; subst this
              exact ⟨false, by simp [csStep_backslash, csEscape]⟩
            · obtain ⟨nc, h⟩ := csStep_u16 v c.toNat (by omega) (by simp [isSurrogate]; omega) tail
              exact ⟨nc, by rw [h]; simp [appendEscapedUTF16]⟩

/-- ConsumeString takes the chunk the quote loop emitted for one character in one step, under every escape option. -/
theorem csStep_quoteStep_any (v html js : Bool) (c : UInt8) (t tail : Bytes) :
    ∃ nc, csStep v ((quoteStep html js c t).1 ++ tail) = .cont (quoteStep html js c t).1.length nc := by
  by_cases h0 : c.toNat < runeSelf
  · have h128 : c.toNat < 128 := h0
    simp only [quoteStep, h0, ↓reduceIte]
    split
    · rename_i h
      exact ⟨false, csStep_plain v c tail (noEscape_of_table ⟨c.toNat, h128⟩ h)⟩
    · split
      · exact csStep_escASCII_any v c h128 tail
      · rename_i h
        have : isHTMLChar c.toNat = true := by
          cases hh : isHTMLChar c.toNat <;> simp_all
        exact ⟨false, csStep_plain v c tail (html_noEscape this)⟩
  · rcases decodeRune_high c t h0 with h1 | h1
    · have hinv : isInvalidUTF8 (decodeRune (c :: t)).1 (decodeRune (c :: t)).2 = false := by
        have : ¬ (decodeRune (c :: t)).2 = 1 := by omega
        simp [isInvalidUTF8, this]
      have key : ∃ nc, csStep v ((c :: t).take (decodeRune (c :: t)).2 ++ tail) =
          .cont ((c :: t).take (decodeRune (c :: t)).2).length nc :=
        ⟨false, by simp only [take_decodeRune_length]; exact csStep_multi v c t tail h0 h1⟩
      simp only [quoteStep, h0, hinv, ↓reduceIte]
      split
      · exact key
      · split
        · simp at *
        · split
          · rename_i h
            have hr : (decodeRune (c :: t)).1 < 0x10000 := by omega
            rw [appendEscapedUnicode_bmp _ hr]
            obtain ⟨nc, hh⟩ := csStep_u16 v _ hr (by simp [isSurrogate]; omega) tail
            exact ⟨nc, by rw [hh]; simp [appendEscapedUTF16]⟩
          · exact key
    · have : (quoteStep html js c t).1 = utf8FFFD := by
        simp [quoteStep, h0, h1, isInvalidUTF8, runeError]
      rw [this, csStep_fffd]; exact ⟨false, by simp [utf8FFFD]⟩

theorem csLoop_quoteLoop_any (v html js : Bool) (s : Bytes) (n : Nat) (nc : Bool) :
    ∃ nc', csLoop v ((quoteLoop html js s).1 ++ [0x22]) n nc = (n + (quoteLoop html js s).1.length + 1, Err.ok, nc') := by
  fun_induction quoteLoop html js s generalizing n nc with
  | case1 => exact ⟨nc, by simp [csLoop_close]⟩
  | case2 c t st r ih =>
    obtain ⟨nc1, h1⟩ := csStep_quoteStep_any v html js c t ((quoteLoop html js (List.drop st.2.1 (c :: t))).1 ++ [0x22])
    obtain ⟨nc', h2⟩ := ih (n + st.1.length) (nc || nc1)
    refine ⟨nc', ?_⟩
    show csLoop v ((st.1 ++ (quoteLoop html js (List.drop st.2.1 (c :: t))).1) ++ [0x22]) n nc = _
    rw [List.append_assoc, csLoop_cont n nc h1, List.drop_left]
    rw [h2]
    simp only [List.length_append]
    congr 1
    show _ = n + (st.1.length + (quoteLoop html js (List.drop st.2.1 (c :: t))).1.length) + 1
    omega

/-- ConsumeString accepts the whole output of AppendQuote, for every flag set, input and UTF-8 mode. -/
theorem consumeString_appendQuote (v : Bool) (f : QFlags) (s : Bytes) :
    ∃ nc, consumeString v (appendQuote f s).1 = ((appendQuote f s).1.length, Err.ok, nc) := by
  obtain ⟨nc, h⟩ := csLoop_quoteLoop_any v f.html f.js s 1 false
  refine ⟨nc, ?_⟩
  simp only [appendQuote, consumeString, ↓reduceIte, h]
  simp; omega

/-- **AppendQuote always returns a string literal of C01's grammar** — strict sense (well-formed UTF-8, no unpaired
surrogate), every flag combination, every input (ill-formed bytes included). -/
theorem appendQuote_is_jstring (f : QFlags) (v : Bool) (s : Bytes) : JsonV.Spec.Grammar.JString v (appendQuote f s).1 := by
  obtain ⟨nc, h⟩ := consumeString_appendQuote v f s
  have := (JsonV.Lemmas.GlueQuote.consumeString_grammar _ v _).mp ⟨nc, h⟩
  simpa using this.2

end JsonV.Lemmas.QuoteJString
