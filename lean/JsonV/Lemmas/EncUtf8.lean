/-
The UTF-8 flag of the Encoder model's AppendQuote (`quoteGo`) is "the input has an ill-formed byte"
(`Spec.StringSpec.illFormedCount`, slice C11), hence `badUTF8` is `¬ AllowInvalidUTF8 ∧ ¬ Utf8.valid`.
-/
import JsonV.Lemmas.EncIff
import JsonV.Lemmas.QuoteMeaning

namespace JsonV.Lemmas.EncUtf8
open JsonV JsonV.Model JsonV.Model.Encoder JsonV.Model.Utf8 JsonV.Spec.StringSpec
open JsonV.Lemmas.QuoteUtf8 JsonV.Lemmas.QuoteMeaning JsonV.Lemmas.EncIff

theorem quoteGo_skip (o : Opts) : ∀ (k : Nat) (p : Bytes), quoteGo o k p = quoteGo o 0 (p.drop k) := by
  intro k
  induction k with
  | zero => intro p; simp
  | succ k ih =>
    intro p
    cases p with
    | nil => simp [quoteGo]
    | cons c t => simp only [quoteGo, List.drop_succ_cons]; exact ih t

theorem quoteGo_flag (o : Opts) : ∀ (n : Nat) (s : Bytes), s.length ≤ n →
    (quoteGo o 0 s).2 = decide (0 < illFormedCount s) := by
  intro n
  induction n with
  | zero =>
    intro s h
    have : s = [] := List.eq_nil_of_length_eq_zero (by omega)
    subst this; simp [quoteGo, illFormedCount]
  | succ n ih =>
    intro s h
    cases s with
    | nil => simp [quoteGo, illFormedCount]
    | cons c t =>
      have hp := JsonV.Model.Quote.decodeRune_pos c t
      rw [illFormedCount]
      simp only [quoteGo]
      by_cases hc : c < 0x80
      · have hc' : c.toNat < runeSelf := by
          have : c.toNat < 128 := UInt8.lt_iff_toNat_lt.mp hc
          simpa [runeSelf] using this
        have hd := decodeRune_ascii c t hc'
        have hill : illFormedHead (c :: t) = false := by
          have h128 : c.toNat < 128 := UInt8.lt_iff_toNat_lt.mp hc
          simp [illFormedHead, hd, runeError]; intro h1; omega
        simp only [hc, if_true, hill, Bool.false_eq_true, if_false, Nat.zero_add, hd, List.drop_succ_cons, List.drop_zero]
        have := ih t (by simp at h; omega)
        split <;> simpa using this
      · simp only [hc, if_false]
        by_cases hi : (decodeRune (c :: t)).1 = runeError ∧ (decodeRune (c :: t)).2 = 1
        · have hill : illFormedHead (c :: t) = true := by simp [illFormedHead, hi.1, hi.2]
          simp [hi, hill]; omega
        · have hill : illFormedHead (c :: t) = false := by
            simpa [illFormedHead] using hi
          have hrec := ih ((c :: t).drop (decodeRune (c :: t)).2)
            (by simp only [List.length_drop, List.length_cons] at h ⊢; omega)
          have hdrop : (c :: t).drop (decodeRune (c :: t)).2 = t.drop ((decodeRune (c :: t)).2 - 1) := by
            obtain ⟨m, hm⟩ : ∃ m, (decodeRune (c :: t)).2 = m + 1 := ⟨(decodeRune (c :: t)).2 - 1, by omega⟩
            rw [hm]; simp
          simp only [hi, if_false, hill, Bool.false_eq_true, Nat.zero_add]
          split
          · simp only [quoteGo_skip o _ t, ← hdrop]; exact hrec
          · simp only [quoteGo_skip o _ t, ← hdrop]; exact hrec

/-- **The UTF-8 check of a string token**: `WriteToken(String(s))` passes it iff AllowInvalidUTF8 is set or `s` is
well-formed UTF-8 (`Utf8.valid`, the model of `utf8.Valid`). -/
theorem badUTF8_str_iff (o : Opts) (s : Bytes) :
    badUTF8 o (.str s) = false ↔ (o.allowInvalidUTF8 = true ∨ Utf8.valid s = true) := by
  have hf := quoteGo_flag o s.length s (Nat.le_refl _)
  have hv := validAux_iff s.length s (Nat.le_refl _)
  simp only [badUTF8, appendQuote]
  rw [show (quoteGo o 0 s) = ((quoteGo o 0 s).1, (quoteGo o 0 s).2) from rfl]
  simp only [hf]
  unfold Utf8.valid
  rw [hv]
  cases o.allowInvalidUTF8 <;> simp <;> omega

theorem badUTF8_iff (o : Opts) (t : Tok) :
    badUTF8 o t = false ↔ ∀ s, t = .str s → (o.allowInvalidUTF8 = true ∨ Utf8.valid s = true) := by
  cases t
  case str s =>
    rw [badUTF8_str_iff]
    exact ⟨fun h s' hs => by cases hs; exact h, fun h => h s rfl⟩
  all_goals
    simp only [badUTF8, true_iff]
    intro s hs; cases hs

end JsonV.Lemmas.EncUtf8
