/-
Helper lemmas for C14, part 3: the merge law for `any` (induction on the tree) and for every type
(induction on the type), from three ingredients per decoder `f` with zero value `z`:
  (N) `null` yields the zero value,
  (R) a non-object input replaces: a success does not depend on the prior value,
  (K) after a successful non-null, non-object input, an object input is rejected,
and the merge law of the member loop (`objFold_merge`) for object-into-object.
-/
import JsonV.Lemmas.MergeFold

namespace JsonV.Lemmas.Merge
open JsonV JsonV.Spec JsonV.Model

/-! ### `merge` and `dupFree` -/

theorem merge_nonobj (a b : JTree) (h : a.isObj = false ∨ b.isObj = false) : JTree.merge a b = b := by
  cases a <;> cases b <;> simp_all [JTree.merge, JTree.isObj]

theorem merge_null_left (b : JTree) : JTree.merge .null b = b := merge_nonobj _ _ (Or.inl rfl)

theorem dupFree_merge : ∀ a b : JTree, a.dupFree = true → b.dupFree = true → (JTree.merge a b).dupFree = true := by
  intro a
  induction a using JTree.induct with
  | hobj ms1 ih =>
    intro b ha hb
    cases b with
    | obj ms2 =>
      rw [merge_obj, dupFree_obj]
      rw [dupFree_obj] at ha hb
      refine ⟨nodup_mergedMembers ha.1 hb.1, ?_⟩
      intro n x hx
      rcases mem_mergedMembers hx with ⟨a, hma, rfl⟩ | ⟨hx2, _⟩
      · unfold mergedWith
        cases hl : alookup n ms2 with
        | none => exact ha.2 n a hma
        | some b => exact ih n a hma b (ha.2 n a hma) (hb.2 n b (alookup_mem hl))
      · exact hb.2 n x hx2
    | _ => rw [merge_nonobj _ _ (Or.inr rfl)]; exact hb
  | _ => intro b _ hb; rw [merge_nonobj _ _ (Or.inl rfl)]; exact hb

/-! ### The structural `any` loops are the generic loops -/

theorem unmAnyM_eq (o : UOpts) (ms : List (Bytes × JTree)) (seen : List Bytes) (m : List (Bytes × GoVal)) :
    unmAnyM o ms seen m = objFold o (fun _ => some (unmAny o)) (fun _ => .nilIface) ms seen m := by
  induction ms generalizing seen m with
  | nil => simp [unmAnyM, objFold]
  | cons p r ih =>
    obtain ⟨n, j⟩ := p
    simp only [unmAnyM, objFold]
    split
    · rfl
    · cases unmAny o j ((alookup n m).getD .nilIface) with
      | error e => rfl
      | ok v => exact ih _ _

theorem unmAnyL_eq (o : UOpts) (xs : List JTree) : unmAnyL o xs = elemsFresh (unmAny o) .nilIface xs := by
  induction xs with
  | nil => simp [unmAnyL, elemsFresh]
  | cons x r ih =>
    simp only [unmAnyL, elemsFresh, ih]

/-! ### The non-object cases, generically -/

/-- The three per-decoder ingredients. -/
structure Replaces (f : Dec) (z : GoVal) : Prop where
  null : ∀ v, f .null v = .ok z
  repl : ∀ j v v', j.isObj = false → f j v = .ok v' → f j z = .ok v'
  kill : ∀ j1 v1 ms2 r, j1.isObj = false → j1.isNull = false → f j1 z = .ok v1 → f (.obj ms2) v1 = .ok r → False

theorem nonobj_case {f : Dec} {z : GoVal} (H : Replaces f z) (a b : JTree) (v1 v2 : GoVal)
    (hab : a.isObj = false ∨ b.isObj = false) (h1 : f a z = .ok v1) (h2 : f b v1 = .ok v2) :
    f (JTree.merge a b) z = .ok v2 := by
  rw [merge_nonobj a b hab]
  cases hb : b.isObj with
  | false => exact H.repl b v1 v2 hb h2
  | true =>
    have ha : a.isObj = false := by
      cases hab with
      | inl h => exact h
      | inr h => rw [hb] at h; cases h
    cases hn : a.isNull with
    | true =>
      have : a = .null := by cases a <;> simp_all [JTree.isNull]
      subst this
      rw [H.null] at h1
      cases h1
      exact h2
    | false =>
      cases b with
      | obj ms2 => exact (H.kill a v1 ms2 v2 ha hn h1 h2).elim
      | _ => simp [JTree.isObj] at hb

/-! ### `any` -/

theorem anyPrior_nil (o : UOpts) (j : JTree) (acc : GoVal → Bool) : anyPrior o j .nilIface acc = .ok () := rfl

theorem replaces_any (o : UOpts) : Replaces (unmAny o) .nilIface := by
  refine ⟨?_, ?_, ?_⟩
  · intro v; simp [unmAny]
  · intro j v v' hj h
    cases j with
    | null => simpa [unmAny] using h
    | bool b =>
      simp only [unmAny] at h ⊢
      cases hp : anyPrior o (.bool b) v isBoolV with
      | error e => simp [hp] at h
      | ok u => simpa [hp, anyPrior_nil] using h
    | num l =>
      simp only [unmAny] at h ⊢
      cases hp : anyPrior o (.num l) v isFloatV with
      | error e => simp [hp] at h
      | ok u => simpa [hp, anyPrior_nil] using h
    | str s =>
      simp only [unmAny] at h ⊢
      cases hp : anyPrior o (.str s) v isStrV with
      | error e => simp [hp] at h
      | ok u => simpa [hp, anyPrior_nil] using h
    | arr xs =>
      simp only [unmAny] at h ⊢
      cases hp : anyPrior o (.arr xs) v isSliceV with
      | error e => simp [hp] at h
      | ok u => simpa [hp, anyPrior_nil] using h
    | obj ms => simp [JTree.isObj] at hj
  · intro j1 v1 ms2 r hj hn h1 h2
    cases j1 with
    | null => simp [JTree.isNull] at hn
    | bool b =>
      simp only [unmAny, anyPrior_nil, Except.ok.injEq] at h1
      subst h1
      simp [unmAny] at h2
    | num l =>
      simp only [unmAny, anyPrior_nil, Except.ok.injEq] at h1
      subst h1
      simp [unmAny] at h2
    | str s =>
      simp only [unmAny, anyPrior_nil, Except.ok.injEq] at h1
      subst h1
      simp [unmAny] at h2
    | arr xs =>
      simp only [unmAny, anyPrior_nil] at h1
      cases hl : unmAnyL o xs with
      | error e => simp [hl] at h1
      | ok vs =>
        simp only [hl, Except.ok.injEq] at h1
        subst h1
        simp [unmAny] at h2
    | obj ms => simp [JTree.isObj] at hj

/-- Merge law for a destination of type `any`. -/
theorem merge_law_any (o : UOpts) : ∀ a b : JTree, ∀ v1 v2 : GoVal, a.dupFree = true → b.dupFree = true →
    unmAny o a .nilIface = .ok v1 → unmAny o b v1 = .ok v2 → unmAny o (JTree.merge a b) .nilIface = .ok v2 := by
  intro a
  induction a using JTree.induct with
  | hobj ms1 ih =>
    intro b v1 v2 ha hb h1 h2
    cases b with
    | obj ms2 =>
      rw [merge_obj]
      rw [dupFree_obj] at ha hb
      simp only [unmAny, unmAnyM_eq] at h1 h2 ⊢
      cases hf1 : objFold o (fun _ => some (unmAny o)) (fun _ => GoVal.nilIface) ms1 [] [] with
      | error e => simp [hf1] at h1
      | ok m1 =>
        simp only [hf1, Except.ok.injEq] at h1
        subst h1
        simp only [] at h2
        cases hf2 : objFold o (fun _ => some (unmAny o)) (fun _ => GoVal.nilIface) ms2 [] m1 with
        | error e => simp [hf2] at h2
        | ok m2 =>
          simp only [hf2, Except.ok.injEq] at h2
          subst h2
          have := objFold_merge (o := o) (dec := fun _ => some (unmAny o)) (z := fun _ => GoVal.nilIface)
            ha.1 hb.1 ha.2 hb.2 (m0 := []) (by simp [akeys]) (by intro n; simp [alookup])
            (fun n a hma b ha hb => by simp [skipOK, dupFree_merge a b ha hb])
            (by
              intro n a hma f hf b w1 w2 hda hdb hw1 hw2
              simp only [Option.some.injEq] at hf
              subst hf
              exact ih n a hma b w1 w2 hda hdb hw1 hw2)
            hf1 hf2
          simp [this]
    | _ => exact nonobj_case (replaces_any o) _ _ v1 v2 (Or.inr rfl) h1 h2
  | _ => intro b v1 v2 _ _ h1 h2; exact nonobj_case (replaces_any o) _ _ v1 v2 (Or.inl rfl) h1 h2

/-! ### Every type -/

/-- Clause "a JSON null zeroes its destination", for every type and every prior value. -/
theorem unm_null (o : UOpts) (T : GoType) (v : GoVal) : unm o T .null v = .ok T.zero := by
  cases T <;> simp [unm, GoType.zero, unmBool, unmInt, unmUint, unmFloat, unmString, unmAny]

theorem unm_ptr (o : UOpts) (t : GoType) (j : JTree) (p : GoVal) (hj : j.isNull = false) :
    unm o (.ptr t) j p =
      (match p with
       | .nilPtr => (match unm o t j t.zero with | .error e => .error e | .ok v => .ok (.ptrTo v))
       | .ptrTo v0 => (match unm o t j v0 with | .error e => .error e | .ok v => .ok (.ptrTo v))
       | _ => .error .illTyped) := by
  cases j <;> first | (simp [JTree.isNull] at hj; done) | (cases p <;> simp only [unm] <;> (try (generalize unm o t _ _ = r; cases r <;> rfl)))

theorem replaces_unm (o : UOpts) : ∀ T : GoType, Replaces (unm o T) T.zero := by
  intro T
  induction T using GoType.induct with
  | hbool =>
    refine ⟨unm_null o _, ?_, ?_⟩
    · intro j v v' _ h; simpa [unm] using h
    · intro j1 v1 ms2 r _ _ _ h2; simp [unm, unmBool] at h2
  | hint b =>
    refine ⟨unm_null o _, ?_, ?_⟩
    · intro j v v' _ h; simpa [unm] using h
    · intro j1 v1 ms2 r _ _ _ h2; simp [unm, unmInt] at h2
  | huint b =>
    refine ⟨unm_null o _, ?_, ?_⟩
    · intro j v v' _ h; simpa [unm] using h
    · intro j1 v1 ms2 r _ _ _ h2; simp [unm, unmUint] at h2
  | hfloat =>
    refine ⟨unm_null o _, ?_, ?_⟩
    · intro j v v' _ h; simpa [unm] using h
    · intro j1 v1 ms2 r _ _ _ h2; simp [unm, unmFloat] at h2
  | hstring =>
    refine ⟨unm_null o _, ?_, ?_⟩
    · intro j v v' _ h; simpa [unm] using h
    · intro j1 v1 ms2 r _ _ _ h2; simp [unm, unmString] at h2
  | hslice t _ =>
    refine ⟨unm_null o _, ?_, ?_⟩
    · intro j v v' _ h; cases j <;> (simp only [unm] at h ⊢; exact h)
    · intro j1 v1 ms2 r _ _ _ h2; simp [unm] at h2
  | harray n t _ =>
    refine ⟨unm_null o _, ?_, ?_⟩
    · intro j v v' _ h; cases j <;> (simp only [unm] at h ⊢; exact h)
    · intro j1 v1 ms2 r _ _ _ h2; simp [unm] at h2
  | hmap t _ =>
    refine ⟨unm_null o _, ?_, ?_⟩
    · intro j v v' hj h
      cases j <;> first | (simp [JTree.isObj] at hj; done) | (simp only [unm] at h ⊢; first | exact h | cases h)
    · intro j1 v1 ms2 r hj hn h1 _
      cases j1 <;> first | (simp [JTree.isObj] at hj; done) | (simp [JTree.isNull] at hn; done) | (simp [unm] at h1)
  | hstruct fs _ =>
    refine ⟨unm_null o _, ?_, ?_⟩
    · intro j v v' hj h
      cases j <;> first | (simp [JTree.isObj] at hj; done) | (simp only [unm] at h ⊢; first | exact h | cases h)
    · intro j1 v1 ms2 r hj hn h1 _
      cases j1 <;> first | (simp [JTree.isObj] at hj; done) | (simp [JTree.isNull] at hn; done) | (simp [unm] at h1)
  | hptr t ih =>
    refine ⟨unm_null o _, ?_, ?_⟩
    · intro j v v' hj h
      cases hn : j.isNull with
      | true =>
        have : j = .null := by cases j <;> simp_all [JTree.isNull]
        subst this
        rw [unm_null] at h ⊢; exact h
      | false =>
        rw [unm_ptr o t j _ hn] at h ⊢
        simp only [GoType.zero]
        cases v with
        | nilPtr => exact h
        | ptrTo v0 =>
          simp only [] at h
          cases hv : unm o t j v0 with
          | error e => simp [hv] at h
          | ok w =>
            simp only [hv, Except.ok.injEq] at h
            subst h
            rw [ih.repl j v0 w hj hv]
        | _ => simp at h
    · intro j1 v1 ms2 r hj hn h1 h2
      rw [unm_ptr o t j1 _ hn] at h1
      simp only [GoType.zero] at h1
      cases hv : unm o t j1 t.zero with
      | error e => simp [hv] at h1
      | ok w =>
        simp only [hv, Except.ok.injEq] at h1
        subst h1
        rw [unm_ptr o t _ _ rfl] at h2
        simp only [] at h2
        cases hv2 : unm o t (.obj ms2) w with
        | error e => simp [hv2] at h2
        | ok w2 => exact ih.kill j1 w ms2 w2 hj hn hv hv2
  | hany =>
    have h := replaces_any o
    refine ⟨unm_null o _, ?_, ?_⟩
    · intro j v v' hj hh; simp only [unm, GoType.zero] at hh ⊢; exact h.repl j v v' hj hh
    · intro j1 v1 ms2 r hj hn h1 h2
      simp only [unm, GoType.zero] at h1 h2; exact h.kill j1 v1 ms2 r hj hn h1 h2

/-! ### Struct helpers -/

theorem wfFields_iff (fs : List (Bytes × GoType)) :
    GoType.wfFields fs = true ↔ ∀ n t, (n, t) ∈ fs → t.wf = true := by
  induction fs with
  | nil => simp [GoType.wfFields]
  | cons p r ih =>
    obtain ⟨k, y⟩ := p
    simp only [GoType.wfFields, Bool.and_eq_true, ih, List.mem_cons, Prod.mk.injEq]
    constructor
    · rintro ⟨h1, h2⟩ n x (⟨rfl, rfl⟩ | h)
      · exact h1
      · exact h2 n x h
    · intro h
      exact ⟨h k y (Or.inl ⟨rfl, rfl⟩), fun n x hx => h n x (Or.inr hx)⟩

theorem wf_struct (fs : List (Bytes × GoType)) :
    (GoType.struct fs).wf = true ↔ (akeys fs).Nodup ∧ ∀ n t, (n, t) ∈ fs → t.wf = true := by
  simp only [GoType.wf, Bool.and_eq_true, nodupB_iff, wfFields_iff]

theorem akeys_zeroFields (fs : List (Bytes × GoType)) : akeys (GoType.zeroFields fs) = akeys fs := by
  induction fs with
  | nil => rfl
  | cons p r ih => obtain ⟨n, t⟩ := p; simp [GoType.zeroFields, akeys_cons, ih]

theorem alookup_zeroFields (fs : List (Bytes × GoType)) (n : Bytes) :
    alookup n (GoType.zeroFields fs) = (alookup n fs).map GoType.zero := by
  induction fs with
  | nil => rfl
  | cons p r ih =>
    obtain ⟨k, t⟩ := p
    by_cases hk : k = n
    · simp [GoType.zeroFields, alookup, hk]
    · simp [GoType.zeroFields, alookup, hk, ih]

theorem fieldDec_some {o : UOpts} {fs : List (Bytes × GoType)} {n : Bytes} {f : Dec}
    (h : fieldDec o fs n = some f) : ∃ t, alookup n fs = some t ∧ f = unm o t := by
  induction fs with
  | nil => simp [fieldDec] at h
  | cons p r ih =>
    obtain ⟨k, t⟩ := p
    by_cases hk : k = n
    · simp only [fieldDec, hk, if_true, Option.some.injEq] at h
      exact ⟨t, by simp [alookup, hk], h.symm⟩
    · simp only [fieldDec, hk, if_false] at h
      obtain ⟨t', h1, h2⟩ := ih h
      exact ⟨t', by simp [alookup, hk, h1], h2⟩

theorem fieldDec_none {o : UOpts} {fs : List (Bytes × GoType)} {n : Bytes} :
    fieldDec o fs n = none ↔ n ∉ akeys fs := by
  induction fs with
  | nil => simp [fieldDec, akeys]
  | cons p r ih =>
    obtain ⟨k, t⟩ := p
    by_cases hk : k = n
    · simp [fieldDec, hk, akeys_cons]
    · have : ¬ n = k := fun e => hk e.symm
      simp [fieldDec, hk, akeys_cons, ih, this]

theorem fieldZero_getD (fs : List (Bytes × GoType)) (n : Bytes) :
    (alookup n (GoType.zeroFields fs)).getD (fieldZero fs n) = fieldZero fs n := by
  rw [alookup_zeroFields]
  unfold fieldZero
  cases alookup n fs <;> rfl

/-! ### The merge law for every type -/

/-- Statement of the merge law for one decoder. -/
def MergeLawFor (f : Dec) (z : GoVal) : Prop :=
  ∀ j1 j2 : JTree, ∀ v1 v2 : GoVal, j1.dupFree = true → j2.dupFree = true →
    f j1 z = .ok v1 → f j2 v1 = .ok v2 → f (JTree.merge j1 j2) z = .ok v2

theorem law_of_obj {f : Dec} {z : GoVal} (H : Replaces f z)
    (hobj : ∀ ms1 ms2 v1 v2, (JTree.obj ms1).dupFree = true → (JTree.obj ms2).dupFree = true →
      f (.obj ms1) z = .ok v1 → f (.obj ms2) v1 = .ok v2 → f (.obj (mergedMembers ms1 ms2)) z = .ok v2) :
    MergeLawFor f z := by
  intro j1 j2 v1 v2 hd1 hd2 h1 h2
  cases j1 with
  | obj ms1 =>
    cases j2 with
    | obj ms2 => rw [merge_obj]; exact hobj ms1 ms2 v1 v2 hd1 hd2 h1 h2
    | _ => exact nonobj_case H _ _ v1 v2 (Or.inr rfl) h1 h2
  | _ => exact nonobj_case H _ _ v1 v2 (Or.inl rfl) h1 h2

theorem merge_law_unm (o : UOpts) : ∀ T : GoType, T.wf = true → MergeLawFor (unm o T) T.zero := by
  intro T
  induction T using GoType.induct with
  | hbool => intro _; apply law_of_obj (replaces_unm o _); intro ms1 ms2 v1 v2 _ _ h1; simp [unm, unmBool] at h1
  | hint b => intro _; apply law_of_obj (replaces_unm o _); intro ms1 ms2 v1 v2 _ _ h1; simp [unm, unmInt] at h1
  | huint b => intro _; apply law_of_obj (replaces_unm o _); intro ms1 ms2 v1 v2 _ _ h1; simp [unm, unmUint] at h1
  | hfloat => intro _; apply law_of_obj (replaces_unm o _); intro ms1 ms2 v1 v2 _ _ h1; simp [unm, unmFloat] at h1
  | hstring => intro _; apply law_of_obj (replaces_unm o _); intro ms1 ms2 v1 v2 _ _ h1; simp [unm, unmString] at h1
  | hslice t _ => intro _; apply law_of_obj (replaces_unm o _); intro ms1 ms2 v1 v2 _ _ h1; simp [unm] at h1
  | harray n t _ => intro _; apply law_of_obj (replaces_unm o _); intro ms1 ms2 v1 v2 _ _ h1; simp [unm] at h1
  | hany =>
    intro _ j1 j2 v1 v2 hd1 hd2 h1 h2
    simp only [unm, GoType.zero] at h1 h2 ⊢
    exact merge_law_any o j1 j2 v1 v2 hd1 hd2 h1 h2
  | hptr t ih =>
    intro hwf
    have hwt : t.wf = true := by simpa [GoType.wf] using hwf
    apply law_of_obj (replaces_unm o _)
    intro ms1 ms2 v1 v2 hd1 hd2 h1 h2
    rw [unm_ptr o t _ _ rfl] at h1 ⊢
    simp only [GoType.zero] at h1 ⊢
    cases hv : unm o t (.obj ms1) t.zero with
    | error e => simp [hv] at h1
    | ok w1 =>
      simp only [hv, Except.ok.injEq] at h1
      subst h1
      rw [unm_ptr o t _ _ rfl] at h2
      simp only [] at h2
      cases hv2 : unm o t (.obj ms2) w1 with
      | error e => simp [hv2] at h2
      | ok w2 =>
        simp only [hv2, Except.ok.injEq] at h2
        subst h2
        have := ih hwt (.obj ms1) (.obj ms2) w1 w2 hd1 hd2 hv hv2
        rw [merge_obj] at this
        simp [this]
  | hmap t ih =>
    intro hwf
    have hwt : t.wf = true := by simpa [GoType.wf] using hwf
    apply law_of_obj (replaces_unm o _)
    intro ms1 ms2 v1 v2 hd1 hd2 h1 h2
    rw [dupFree_obj] at hd1 hd2
    simp only [unm, GoType.zero] at h1 ⊢
    cases hf1 : objFold o (fun _ => some (unm o t)) (fun _ => t.zero) ms1 [] [] with
    | error e => simp [hf1] at h1
    | ok m1 =>
      simp only [hf1, Except.ok.injEq] at h1
      subst h1
      simp only [unm] at h2
      cases hf2 : objFold o (fun _ => some (unm o t)) (fun _ => t.zero) ms2 [] m1 with
      | error e => simp [hf2] at h2
      | ok m2 =>
        simp only [hf2, Except.ok.injEq] at h2
        subst h2
        have := objFold_merge (o := o) (dec := fun _ => some (unm o t)) (z := fun _ => t.zero)
          hd1.1 hd2.1 hd1.2 hd2.2 (m0 := []) (by simp [akeys]) (by intro n; simp [alookup])
          (fun n a _ b ha hb => by simp [skipOK, dupFree_merge a b ha hb])
          (by
            intro n a _ f hf b w1 w2 hda hdb hw1 hw2
            simp only [Option.some.injEq] at hf
            subst hf
            exact ih hwt a b w1 w2 hda hdb hw1 hw2)
          hf1 hf2
        simp [this]
  | hstruct fs ih =>
    intro hwf
    rw [wf_struct] at hwf
    apply law_of_obj (replaces_unm o _)
    intro ms1 ms2 v1 v2 hd1 hd2 h1 h2
    rw [dupFree_obj] at hd1 hd2
    simp only [unm, GoType.zero] at h1 ⊢
    cases hf1 : objFold o (fieldDec o fs) (fieldZero fs) ms1 [] (GoType.zeroFields fs) with
    | error e => simp [hf1] at h1
    | ok m1 =>
      simp only [hf1, Except.ok.injEq] at h1
      subst h1
      simp only [unm] at h2
      cases hf2 : objFold o (fieldDec o fs) (fieldZero fs) ms2 [] m1 with
      | error e => simp [hf2] at h2
      | ok m2 =>
        simp only [hf2, Except.ok.injEq] at h2
        subst h2
        have := objFold_merge (o := o) (dec := fieldDec o fs) (z := fieldZero fs)
          hd1.1 hd2.1 hd1.2 hd2.2 (m0 := GoType.zeroFields fs)
          (by rw [akeys_zeroFields]; exact hwf.1) (fieldZero_getD fs)
          (fun n a _ b ha hb => by simp [skipOK, dupFree_merge a b ha hb])
          (by
            intro n a _ f hf b w1 w2 hda hdb hw1 hw2
            obtain ⟨t, hl, rfl⟩ := fieldDec_some hf
            have hz : fieldZero fs n = t.zero := by simp [fieldZero, hl]
            rw [hz] at hw1 ⊢
            exact ih n t (alookup_mem hl) (hwf.2 n t (alookup_mem hl)) a b w1 w2 hda hdb hw1 hw2)
          hf1 hf2
        simp [this]

end JsonV.Lemmas.Merge
