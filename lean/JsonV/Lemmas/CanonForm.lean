/-
Tree-level lemmas about Model/Canon.lean: the canonical tree is sorted at every depth, re-spelling and
reordering are idempotent on it, and trees that agree up to member order are reordered identically.
-/
import JsonV.Lemmas.CanonTree
import JsonV.Lemmas.CanonSort

namespace JsonV.Lemmas.CanonForm
open JsonV JsonV.Canon JsonV.Model JsonV.Model.Utf8
open JsonV.Fmt hiding strOK respell
open JsonV.Lemmas.CanonTree JsonV.Lemmas.CanonAtom JsonV.Lemmas.CanonSort

/-! ### predicates on trees -/

mutual
/-- Every object of the tree has well-formed, pairwise different names. -/
def NamesOK : JV → Prop
  | .atom _ => True
  | .arr es => NamesOKL es
  | .obj ms => NamesOK1 ms ∧ NamesOKM ms
def NamesOKL : List JV → Prop
  | [] => True
  | e :: es => NamesOK e ∧ NamesOKL es
def NamesOKM : List (Bytes × JV) → Prop
  | [] => True
  | (_, v) :: ms => NamesOK v ∧ NamesOKM ms
end

mutual
/-- The members of every object, at every depth, are strictly increasing in the UTF-16 order of their
unescaped names (RFC 8785 §3.2.3). -/
def SortedT : JV → Prop
  | .atom _ => True
  | .arr es => SortedL es
  | .obj ms => ms.Pairwise NameLt ∧ SortedM ms
def SortedL : List JV → Prop
  | [] => True
  | e :: es => SortedT e ∧ SortedL es
def SortedM : List (Bytes × JV) → Prop
  | [] => True
  | (_, v) :: ms => SortedT v ∧ SortedM ms
end

theorem sortedM_iff (ms : List (Bytes × JV)) : SortedM ms ↔ ∀ p ∈ ms, SortedT p.2 := by
  induction ms with
  | nil => simp [SortedM]
  | cons p ms ih => obtain ⟨n, v⟩ := p; simp [SortedM, ih]

theorem namesOKM_iff (ms : List (Bytes × JV)) : NamesOKM ms ↔ ∀ p ∈ ms, NamesOK p.2 := by
  induction ms with
  | nil => simp [NamesOKM]
  | cons p ms ih => obtain ⟨n, v⟩ := p; simp [NamesOKM, ih]

theorem namesOK1_iff (ms : List (Bytes × JV)) :
    NamesOK1 ms ↔ (∀ x ∈ names ms, valid x = true) ∧ (names ms).Nodup := by
  unfold NamesOK1 names
  constructor
  · rintro ⟨h1, h2⟩
    refine ⟨?_, h2⟩
    intro x hx
    obtain ⟨p, hp, rfl⟩ := List.mem_map.mp hx
    exact h1 p hp
  · rintro ⟨h1, h2⟩
    exact ⟨fun p hp => h1 _ (List.mem_map.mpr ⟨p, hp, rfl⟩), h2⟩

theorem namesOK1_congr {ms ms' : List (Bytes × JV)} (e : names ms' = names ms) (h : NamesOK1 ms) : NamesOK1 ms' := by
  rw [namesOK1_iff] at h ⊢; rw [e]; exact h

/-! ### `sortM` only touches the values -/

theorem sortM_eq_map (ms : List (Bytes × JV)) : sortM ms = ms.map (fun p => (p.1, sortTree p.2)) := by
  induction ms with
  | nil => simp [sortM]
  | cons p ms ih => obtain ⟨n, v⟩ := p; simp [sortM, ih]

theorem names_sortM (ms : List (Bytes × JV)) : names (sortM ms) = names ms := by
  rw [sortM_eq_map]; simp [names, List.map_map, Function.comp_def]

/-! ### strict input gives good names after re-spelling -/

theorem names_respellM (fp : FloatCodec) : ∀ ms : List (Bytes × JV), strictM ms = true → names (respellM fp ms) = names ms
  | [], _ => by simp [respellM, names]
  | (n, v) :: ms, h => by
    simp only [strictM, Bool.and_eq_true] at h
    have ih := names_respellM fp ms h.2
    simp only [names, respellM, List.map_cons] at ih ⊢
    rw [ih, unq_canonStr n h.1.1]

theorem strictM_valid : ∀ ms : List (Bytes × JV), strictM ms = true → ∀ x ∈ names ms, valid x = true
  | [], _, x, hx => by simp [names] at hx
  | (n, v) :: ms, h, x, hx => by
    simp only [strictM, Bool.and_eq_true] at h
    simp only [names, List.map_cons, List.mem_cons] at hx
    rcases hx with e | hx
    · subst e; exact ((strOK_iff n).mp h.1.1).2
    · exact strictM_valid ms h.2 x hx

mutual
theorem namesOK_respell (fp : FloatCodec) : ∀ t : JV, strict t = true → NamesOK (respell fp t)
  | .atom _, _ => by simp [respell, NamesOK]
  | .arr es, h => by
    simp only [respell, NamesOK]; exact namesOKL_respell fp es (by simpa [strict] using h)
  | .obj ms, h => by
    simp only [strict, Bool.and_eq_true, decide_eq_true_eq] at h
    simp only [respell, NamesOK]
    refine ⟨?_, namesOKM_respell fp ms h.1⟩
    rw [namesOK1_iff, names_respellM fp ms h.1]
    exact ⟨strictM_valid ms h.1, h.2⟩
theorem namesOKL_respell (fp : FloatCodec) : ∀ es : List JV, strictL es = true → NamesOKL (respellL fp es)
  | [], _ => by simp [respellL, NamesOKL]
  | e :: es, h => by
    simp only [strictL, Bool.and_eq_true] at h
    simp only [respellL, NamesOKL]
    exact ⟨namesOK_respell fp e h.1, namesOKL_respell fp es h.2⟩
theorem namesOKM_respell (fp : FloatCodec) : ∀ ms : List (Bytes × JV), strictM ms = true → NamesOKM (respellM fp ms)
  | [], _ => by simp [respellM, NamesOKM]
  | (n, v) :: ms, h => by
    simp only [strictM, Bool.and_eq_true] at h
    simp only [respellM, NamesOKM]
    exact ⟨namesOK_respell fp v h.1.2, namesOKM_respell fp ms h.2⟩
end

/-! ### the reordered tree is sorted at every depth and keeps good names -/

mutual
theorem good_sortTree : ∀ t : JV, NamesOK t → SortedT (sortTree t) ∧ NamesOK (sortTree t)
  | .atom _, _ => by simp [sortTree, SortedT, NamesOK]
  | .arr es, h => by
    simp only [sortTree, SortedT, NamesOK]; exact good_sortL es (by simpa [NamesOK] using h)
  | .obj ms, h => by
    simp only [NamesOK] at h
    have ih := good_sortM ms h.2
    have h1 : NamesOK1 (sortM ms) := namesOK1_congr (names_sortM ms) h.1
    have perm := sortObj_perm (sortM ms)
    simp only [sortTree, SortedT, NamesOK]
    refine ⟨⟨sortObj_strict h1, ?_⟩, h1.perm perm, ?_⟩
    · rw [sortedM_iff]; intro p hp
      exact (sortedM_iff _).mp ih.1 p (perm.mem_iff.mp hp)
    · rw [namesOKM_iff]; intro p hp
      exact (namesOKM_iff _).mp ih.2 p (perm.mem_iff.mp hp)
theorem good_sortL : ∀ es : List JV, NamesOKL es → SortedL (sortL es) ∧ NamesOKL (sortL es)
  | [], _ => by simp [sortL, SortedL, NamesOKL]
  | e :: es, h => by
    simp only [NamesOKL] at h
    simp only [sortL, SortedL, NamesOKL]
    exact ⟨⟨(good_sortTree e h.1).1, (good_sortL es h.2).1⟩, (good_sortTree e h.1).2, (good_sortL es h.2).2⟩
theorem good_sortM : ∀ ms : List (Bytes × JV), NamesOKM ms → SortedM (sortM ms) ∧ NamesOKM (sortM ms)
  | [], _ => by simp [sortM, SortedM, NamesOKM]
  | (n, v) :: ms, h => by
    simp only [NamesOKM] at h
    simp only [sortM, SortedM, NamesOKM]
    exact ⟨⟨(good_sortTree v h.1).1, (good_sortM ms h.2).1⟩, (good_sortTree v h.1).2, (good_sortM ms h.2).2⟩
end

/-! ### fixed points -/

mutual
theorem respell_fixed (fp : FloatCodec) : ∀ t : JV, (∀ k ∈ t.toks, canonAtom fp k = k) → respell fp t = t
  | .atom k, h => by simp [respell, h k (by simp [JV.toks])]
  | .arr es, h => by
    simp only [respell]
    rw [respellL_fixed fp es (fun k hk => h k (by simp [JV.toks, hk]))]
  | .obj ms, h => by
    simp only [respell]
    rw [respellM_fixed fp ms (fun k hk => h k (by simp [JV.toks, hk]))]
theorem respellL_fixed (fp : FloatCodec) : ∀ es : List JV, (∀ k ∈ toksL es, canonAtom fp k = k) → respellL fp es = es
  | [], _ => by simp [respellL]
  | e :: es, h => by
    simp only [respellL]
    rw [respell_fixed fp e (fun k hk => h k (by simp [toksL, hk])),
      respellL_fixed fp es (fun k hk => h k (by simp [toksL, hk]))]
theorem respellM_fixed (fp : FloatCodec) :
    ∀ ms : List (Bytes × JV), (∀ k ∈ toksM ms, canonAtom fp k = k) → respellM fp ms = ms
  | [], _ => by simp [respellM]
  | (n, v) :: ms, h => by
    simp only [respellM]
    have hn : canonStr n = n := by
      have := h (.str n) (by simp [toksM])
      simpa [canonAtom] using this
    rw [hn, respell_fixed fp v (fun k hk => h k (by simp [toksM, hk])),
      respellM_fixed fp ms (fun k hk => h k (by simp [toksM, hk]))]
end

mutual
theorem sortTree_fixed : ∀ t : JV, NamesOK t → SortedT t → sortTree t = t
  | .atom _, _, _ => by simp [sortTree]
  | .arr es, h, s => by
    simp only [sortTree]; rw [sortL_fixed es (by simpa [NamesOK] using h) (by simpa [SortedT] using s)]
  | .obj ms, h, s => by
    simp only [NamesOK] at h
    simp only [SortedT] at s
    simp only [sortTree]
    rw [sortM_fixed ms h.2 s.2, sortObj_fixed h.1 s.1]
theorem sortL_fixed : ∀ es : List JV, NamesOKL es → SortedL es → sortL es = es
  | [], _, _ => by simp [sortL]
  | e :: es, h, s => by
    simp only [NamesOKL] at h
    simp only [SortedL] at s
    simp only [sortL]
    rw [sortTree_fixed e h.1 s.1, sortL_fixed es h.2 s.2]
theorem sortM_fixed : ∀ ms : List (Bytes × JV), NamesOKM ms → SortedM ms → sortM ms = ms
  | [], _, _ => by simp [sortM]
  | (n, v) :: ms, h, s => by
    simp only [NamesOKM] at h
    simp only [SortedM] at s
    simp only [sortM]
    rw [sortTree_fixed v h.1 s.1, sortM_fixed ms h.2 s.2]
end

/-! ### strictness from tokens and names -/

mutual
theorem strict_of : ∀ t : JV, (∀ r, Tok.str r ∈ t.toks → strOK r = true) → NamesOK t → strict t = true
  | .atom (.str r), h, _ => by simpa [strict] using h r (by simp [JV.toks])
  | .atom .bo, _, _ => rfl
  | .atom .eo, _, _ => rfl
  | .atom .ba, _, _ => rfl
  | .atom .ea, _, _ => rfl
  | .atom (.num _), _, _ => rfl
  | .atom .null, _, _ => rfl
  | .atom .tru, _, _ => rfl
  | .atom .fls, _, _ => rfl
  | .arr es, h, n => by
    simp only [strict]
    exact strictL_of es (fun r hr => h r (by simp [JV.toks, hr])) (by simpa [NamesOK] using n)
  | .obj ms, h, n => by
    simp only [NamesOK] at n
    simp only [strict, Bool.and_eq_true, decide_eq_true_eq]
    exact ⟨strictM_of ms (fun r hr => h r (by simp [JV.toks, hr])) n.2, n.1.2⟩
theorem strictL_of : ∀ es : List JV, (∀ r, Tok.str r ∈ toksL es → strOK r = true) → NamesOKL es → strictL es = true
  | [], _, _ => rfl
  | e :: es, h, n => by
    simp only [NamesOKL] at n
    simp only [strictL, Bool.and_eq_true]
    exact ⟨strict_of e (fun r hr => h r (by simp [toksL, hr])) n.1,
      strictL_of es (fun r hr => h r (by simp [toksL, hr])) n.2⟩
theorem strictM_of :
    ∀ ms : List (Bytes × JV), (∀ r, Tok.str r ∈ toksM ms → strOK r = true) → NamesOKM ms → strictM ms = true
  | [], _, _ => rfl
  | (nm, v) :: ms, h, n => by
    simp only [NamesOKM] at n
    simp only [strictM, Bool.and_eq_true]
    exact ⟨⟨h nm (by simp [toksM]), strict_of v (fun r hr => h r (by simp [toksM, hr])) n.1⟩,
      strictM_of ms (fun r hr => h r (by simp [toksM, hr])) n.2⟩
end

/-! ### trees that agree up to the order of members -/

mutual
/-- `t₂` is `t₁` with the members of some objects (at any depth) permuted. -/
def PermEq : JV → JV → Prop
  | .atom a, .atom b => a = b
  | .arr es, .arr fs => PermEqL es fs
  | .obj ms, .obj ns => ∃ ns', ns'.Perm ns ∧ PermEqM ms ns'
  | _, _ => False
def PermEqL : List JV → List JV → Prop
  | [], [] => True
  | e :: es, f :: fs => PermEq e f ∧ PermEqL es fs
  | _, _ => False
def PermEqM : List (Bytes × JV) → List (Bytes × JV) → Prop
  | [], [] => True
  | (n, v) :: ms, (n', v') :: ns => n = n' ∧ PermEq v v' ∧ PermEqM ms ns
  | _, _ => False
end

mutual
theorem sortTree_permEq : ∀ (t u : JV), NamesOK t → PermEq t u → sortTree t = sortTree u
  | .atom a, .atom b, _, h => by simp only [PermEq] at h; rw [h]
  | .atom _, .arr _, _, h => by simp [PermEq] at h
  | .atom _, .obj _, _, h => by simp [PermEq] at h
  | .arr _, .atom _, _, h => by simp [PermEq] at h
  | .arr _, .obj _, _, h => by simp [PermEq] at h
  | .obj _, .atom _, _, h => by simp [PermEq] at h
  | .obj _, .arr _, _, h => by simp [PermEq] at h
  | .arr es, .arr fs, n, h => by
    simp only [PermEq] at h
    simp only [sortTree]
    rw [sortL_permEq es fs (by simpa [NamesOK] using n) h]
  | .obj ms, .obj ns, n, h => by
    simp only [NamesOK] at n
    simp only [PermEq] at h
    obtain ⟨ns', hp, hm⟩ := h
    have e := sortM_permEq ms ns' n.2 hm
    have h1 : NamesOK1 (sortM ns') := by
      refine namesOK1_congr ?_ n.1
      rw [← e, names_sortM]
    have hp' : (sortM ns).Perm (sortM ns') := by
      rw [sortM_eq_map, sortM_eq_map]; exact (hp.map _).symm
    simp only [sortTree]
    rw [e, sortObj_unique h1 hp']
theorem sortL_permEq : ∀ (es fs : List JV), NamesOKL es → PermEqL es fs → sortL es = sortL fs
  | [], [], _, _ => rfl
  | [], _ :: _, _, h => by simp [PermEqL] at h
  | _ :: _, [], _, h => by simp [PermEqL] at h
  | e :: es, f :: fs, n, h => by
    simp only [NamesOKL] at n
    simp only [PermEqL] at h
    simp only [sortL]
    rw [sortTree_permEq e f n.1 h.1, sortL_permEq es fs n.2 h.2]
theorem sortM_permEq : ∀ (ms ns : List (Bytes × JV)), NamesOKM ms → PermEqM ms ns → sortM ms = sortM ns
  | [], [], _, _ => rfl
  | [], _ :: _, _, h => by simp [PermEqM] at h
  | _ :: _, [], _, h => by simp [PermEqM] at h
  | (a, v) :: ms, (b, w) :: ns, n, h => by
    simp only [NamesOKM] at n
    simp only [PermEqM] at h
    simp only [sortM]
    rw [h.1, sortTree_permEq v w n.1 h.2.1, sortM_permEq ms ns n.2 h.2.2]
end

/-- Two trees are *canonically equivalent* when, after re-spelling every literal, they agree up to the order of the
members of their objects (at every depth).  Whitespace never reaches the tree (`tokenize` drops it); `respell` only
looks at the text of a string literal and at the float value of a number literal (`respell_congr_*` below); `PermEq`
allows any permutation of the members of any object. -/
def CanonEquiv (fp : FloatCodec) (t u : JV) : Prop := PermEq (respell fp t) (respell fp u)


end JsonV.Lemmas.CanonForm
