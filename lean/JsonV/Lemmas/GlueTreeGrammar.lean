/-
Glue C12 ↔ C01, part 3: a blank layout of the lexemes of a tree (valid atoms, depth within the limit) is a value
of the tree grammar `JValue` of Spec/Grammar.lean (permissive strings, duplicate names allowed).
-/
import JsonV.Lemmas.GlueTreeParse
import JsonV.Lemmas.GlueFormatNum
import JsonV.Lemmas.GlueFormatStr

namespace JsonV.Fmt
open JsonV.Canon JsonV.Lemmas.CanonNest JsonV.Spec.Grammar

/-! ### small facts -/

theorem wsByte_iff (c : UInt8) : WsByte c ↔ isWs c = true := by
  simp [WsByte, isWs, or_assoc]

theorem jws_iff (w : Bytes) : JWs w ↔ allWs w = true := by
  simp [JWs, allWs, List.all_eq_true, wsByte_iff]

theorem Layout.inv_cons {l : Lex} {ls : List Lex} {b : Bytes} (h : Layout (l :: ls) b) :
    ∃ w b', b = w ++ (l.bytes ++ b') ∧ JWs w ∧ Layout ls b' := by
  cases h with
  | cons w _ _ b' hw hl => exact ⟨w, b', rfl, (jws_iff w).mpr hw, hl⟩

theorem Layout.inv_nil {b : Bytes} (h : Layout [] b) : JWs b := by
  cases h with
  | nil _ hw => exact (jws_iff b).mpr hw

/-- `,x₁,x₂…` -/
def sepTail : List Bytes → Bytes
  | [] => []
  | x :: xs => 0x2C :: (x ++ sepTail xs)

theorem joinSep_cons (x : Bytes) (xs : List Bytes) : joinSep (x :: xs) = x ++ sepTail xs := by
  induction xs generalizing x with
  | nil => simp [joinSep, sepTail]
  | cons y r ih => simp [joinSep, sepTail, ih y]

abbrev elemText (e : Bytes × Bytes × Bytes) : Bytes := e.1 ++ e.2.1 ++ e.2.2
abbrev memText (m : Bytes × Bytes × Bytes × Bytes × Bytes × Bytes) : Bytes :=
  m.1 ++ m.2.1 ++ m.2.2.1 ++ [0x3A] ++ m.2.2.2.1 ++ m.2.2.2.2.1 ++ m.2.2.2.2.2

section
variable (key : Bytes → Bytes)

/-- the grammar instance: permissive strings, duplicate names allowed, the model's nesting limit -/
abbrev GV (d : Nat) (v : Bytes) : Prop := JValue ⟨false, true⟩ maxDepth key d v

def ElemsOK (d : Nat) (elems : List (Bytes × Bytes × Bytes)) : Prop :=
  (∀ e ∈ elems, JWs e.1 ∧ JWs e.2.2) ∧ (∀ e ∈ elems, GV key d e.2.1)

def MemsOK (d : Nat) (mems : List (Bytes × Bytes × Bytes × Bytes × Bytes × Bytes)) : Prop :=
  (∀ m ∈ mems, JWs m.1 ∧ JString false m.2.1 ∧ JWs m.2.2.1 ∧ JWs m.2.2.2.1 ∧ JWs m.2.2.2.2.2) ∧
  (∀ m ∈ mems, GV key d m.2.2.2.2.1)

theorem ElemsOK.cons {d : Nat} {e : Bytes × Bytes × Bytes} {es : List (Bytes × Bytes × Bytes)}
    (h1 : JWs e.1) (h2 : JWs e.2.2) (h3 : GV key d e.2.1) (h : ElemsOK key d es) : ElemsOK key d (e :: es) :=
  ⟨fun x hx => by rcases List.mem_cons.mp hx with rfl | hx; exact ⟨h1, h2⟩; exact h.1 x hx,
   fun x hx => by rcases List.mem_cons.mp hx with rfl | hx; exact h3; exact h.2 x hx⟩

theorem MemsOK.cons {d : Nat} {m : Bytes × Bytes × Bytes × Bytes × Bytes × Bytes}
    {ms : List (Bytes × Bytes × Bytes × Bytes × Bytes × Bytes)}
    (h1 : JWs m.1 ∧ JString false m.2.1 ∧ JWs m.2.2.1 ∧ JWs m.2.2.2.1 ∧ JWs m.2.2.2.2.2) (h3 : GV key d m.2.2.2.2.1)
    (h : MemsOK key d ms) : MemsOK key d (m :: ms) :=
  ⟨fun x hx => by rcases List.mem_cons.mp hx with rfl | hx; exact h1; exact h.1 x hx,
   fun x hx => by rcases List.mem_cons.mp hx with rfl | hx; exact h3; exact h.2 x hx⟩

/-- a valid scalar token is a value of the grammar -/
theorem atom_value (k : Tok) (hk : atomOK k = true) (hv : k.valid = true) (d : Nat) : GV key d k.bytes := by
  cases k with
  | bo => simp [atomOK] at hk
  | eo => simp [atomOK] at hk
  | ba => simp [atomOK] at hk
  | ea => simp [atomOK] at hk
  | str raw => exact JValue.str d raw ((str_valid_iff raw).mp hv)
  | num raw => exact JValue.num d raw ((scanNum_iff' raw).mp (Tok.valid_num hv))
  | null => exact JValue.null d
  | tru => exact JValue.true d
  | fls => exact JValue.false d

mutual
theorem coreV : ∀ (t : JV), AtomsOK t = true → (∀ k ∈ t.toks, k.valid = true) → ∀ (d : Nat) (rest : List Lex) (b : Bytes),
    depthOK t d = true → Layout (lexT t ++ rest) b →
    ∃ w v b', b = w ++ (v ++ b') ∧ JWs w ∧ GV key d v ∧ Layout rest b'
  | .atom k, h, hv, d, rest, b, _, hl => by
    simp only [AtomsOK] at h
    simp only [lexT, List.singleton_append] at hl
    obtain ⟨w, b', rfl, hw, hl'⟩ := hl.inv_cons
    exact ⟨w, k.bytes, b', rfl, hw, atom_value key k h (hv k (by simp [JV.toks])) d, hl'⟩
  | .arr es, h, hv, d, rest, b, hd, hl => by
    simp only [AtomsOK] at h
    simp only [depthOK, Bool.and_eq_true, decide_eq_true_eq] at hd
    have e : lexT (.arr es) ++ rest = .tok .ba :: (lexL true es ++ (.tok .ea :: rest)) := by simp [lexT]
    rw [e] at hl
    obtain ⟨w, b1, rfl, hw, hl1⟩ := hl.inv_cons
    obtain ⟨body, b', rfl, hl', hb⟩ := bodyL es h (fun k hk => hv k (by simp [JV.toks, hk])) (d + 1) rest b1 hd.2 hl1
    refine ⟨w, 0x5B :: (body ++ [0x5D]), b', by simp [Lex.bytes, Tok.bytes], hw, ?_, hl'⟩
    rcases hb with hws | ⟨elems, hne, hok, rfl⟩
    · exact JValue.emptyArr d body hd.1 hws
    · exact JValue.arr d elems hd.1 hne hok.1 hok.2
  | .obj ms, h, hv, d, rest, b, hd, hl => by
    simp only [AtomsOK] at h
    simp only [depthOK, Bool.and_eq_true, decide_eq_true_eq] at hd
    have e : lexT (.obj ms) ++ rest = .tok .bo :: (lexM true ms ++ (.tok .eo :: rest)) := by simp [lexT]
    rw [e] at hl
    obtain ⟨w, b1, rfl, hw, hl1⟩ := hl.inv_cons
    obtain ⟨body, b', rfl, hl', hb⟩ := bodyM ms h (fun k hk => hv k (by simp [JV.toks, hk])) (d + 1) rest b1 hd.2 hl1
    refine ⟨w, 0x7B :: (body ++ [0x7D]), b', by simp [Lex.bytes, Tok.bytes], hw, ?_, hl'⟩
    rcases hb with hws | ⟨mems, hne, hok, rfl⟩
    · exact JValue.emptyObj d body hd.1 hws
    · exact JValue.obj d mems hd.1 hne hok.1 hok.2 (Or.inl rfl)
/-- the inside of an array: whitespace only, or the elements joined by commas -/
theorem bodyL : ∀ (es : List JV), AtomsOKL es = true → (∀ k ∈ toksL es, k.valid = true) →
    ∀ (d : Nat) (rest : List Lex) (b : Bytes), depthOKL es d = true → Layout (lexL true es ++ (.tok .ea :: rest)) b →
    ∃ body b', b = body ++ (0x5D :: b') ∧ Layout rest b' ∧
      (JWs body ∨ ∃ elems, elems ≠ [] ∧ ElemsOK key d elems ∧ body = joinSep (elems.map fun e => e.1 ++ e.2.1 ++ e.2.2))
  | [], _, _, d, rest, b, _, hl => by
    simp only [lexL, List.nil_append] at hl
    obtain ⟨w, b', rfl, hw, hl'⟩ := hl.inv_cons
    exact ⟨w, b', by simp [Lex.bytes, Tok.bytes], hl', Or.inl hw⟩
  | e :: es, h, hv, d, rest, b, hd, hl => by
    simp only [AtomsOKL, Bool.and_eq_true] at h
    simp only [depthOKL, Bool.and_eq_true] at hd
    have e1 : lexL true (e :: es) ++ (.tok .ea :: rest) = lexT e ++ (lexL false es ++ (.tok .ea :: rest)) := by
      simp [lexL, sepLex]
    rw [e1] at hl
    obtain ⟨w1, v, b2, rfl, hw1, hgv, hl2⟩ := coreV e h.1 (fun k hk => hv k (by simp [toksL, hk])) d _ b hd.1 hl
    obtain ⟨w2, elems, b', rfl, hw2, hok, hl'⟩ := tailL es h.2 (fun k hk => hv k (by simp [toksL, hk])) d rest b2 hd.2 hl2
    refine ⟨(w1 ++ v ++ w2) ++ sepTail (elems.map elemText), b', by simp [List.append_assoc], hl', Or.inr ?_⟩
    refine ⟨(w1, v, w2) :: elems, by simp, ElemsOK.cons key hw1 hw2 hgv hok, ?_⟩
    rw [List.map_cons, joinSep_cons]
/-- after an element: whitespace, then `, element` repeatedly, up to the closing bracket -/
theorem tailL : ∀ (es : List JV), AtomsOKL es = true → (∀ k ∈ toksL es, k.valid = true) →
    ∀ (d : Nat) (rest : List Lex) (b : Bytes), depthOKL es d = true → Layout (lexL false es ++ (.tok .ea :: rest)) b →
    ∃ w elems b', b = w ++ (sepTail (elems.map elemText) ++ (0x5D :: b')) ∧ JWs w ∧ ElemsOK key d elems ∧ Layout rest b'
  | [], _, _, d, rest, b, _, hl => by
    simp only [lexL, List.nil_append] at hl
    obtain ⟨w, b', rfl, hw, hl'⟩ := hl.inv_cons
    exact ⟨w, [], b', by simp [Lex.bytes, Tok.bytes, sepTail], hw, ⟨by simp, by simp⟩, hl'⟩
  | e :: es, h, hv, d, rest, b, hd, hl => by
    simp only [AtomsOKL, Bool.and_eq_true] at h
    simp only [depthOKL, Bool.and_eq_true] at hd
    have e1 : lexL false (e :: es) ++ (.tok .ea :: rest) =
        .delim .comma :: (lexT e ++ (lexL false es ++ (.tok .ea :: rest))) := by simp [lexL, sepLex]
    rw [e1] at hl
    obtain ⟨w, b1, rfl, hw, hl1⟩ := hl.inv_cons
    obtain ⟨w1, v, b2, rfl, hw1, hgv, hl2⟩ := coreV e h.1 (fun k hk => hv k (by simp [toksL, hk])) d _ b1 hd.1 hl1
    obtain ⟨w2, elems, b', rfl, hw2, hok, hl'⟩ := tailL es h.2 (fun k hk => hv k (by simp [toksL, hk])) d rest b2 hd.2 hl2
    exact ⟨w, (w1, v, w2) :: elems, b', by simp [Lex.bytes, Delim.bytes, sepTail, List.append_assoc], hw,
      ElemsOK.cons key hw1 hw2 hgv hok, hl'⟩
theorem bodyM : ∀ (ms : List (Bytes × JV)), AtomsOKM ms = true → (∀ k ∈ toksM ms, k.valid = true) →
    ∀ (d : Nat) (rest : List Lex) (b : Bytes), depthOKM ms d = true → Layout (lexM true ms ++ (.tok .eo :: rest)) b →
    ∃ body b', b = body ++ (0x7D :: b') ∧ Layout rest b' ∧
      (JWs body ∨ ∃ mems, mems ≠ [] ∧ MemsOK key d mems ∧ body = joinSep (mems.map fun m =>
        m.1 ++ m.2.1 ++ m.2.2.1 ++ [0x3A] ++ m.2.2.2.1 ++ m.2.2.2.2.1 ++ m.2.2.2.2.2))
  | [], _, _, d, rest, b, _, hl => by
    simp only [lexM, List.nil_append] at hl
    obtain ⟨w, b', rfl, hw, hl'⟩ := hl.inv_cons
    exact ⟨w, b', by simp [Lex.bytes, Tok.bytes], hl', Or.inl hw⟩
  | (n, x) :: ms, h, hv, d, rest, b, hd, hl => by
    simp only [AtomsOKM, Bool.and_eq_true] at h
    simp only [depthOKM, Bool.and_eq_true] at hd
    have e1 : lexM true ((n, x) :: ms) ++ (.tok .eo :: rest) =
        .tok (.str n) :: .delim .colon :: (lexT x ++ (lexM false ms ++ (.tok .eo :: rest))) := by simp [lexM, sepLex]
    rw [e1] at hl
    obtain ⟨w1, b1, rfl, hw1, hl1⟩ := hl.inv_cons
    obtain ⟨w2, b2, rfl, hw2, hl2⟩ := hl1.inv_cons
    obtain ⟨w3, v, b3, rfl, hw3, hgv, hl3⟩ := coreV x h.1 (fun k hk => hv k (by simp [toksM, hk])) d _ b2 hd.1 hl2
    obtain ⟨w4, mems, b', rfl, hw4, hok, hl'⟩ := tailM ms h.2 (fun k hk => hv k (by simp [toksM, hk])) d rest b3 hd.2 hl3
    have hn : JString false n := (str_valid_iff n).mp (hv (.str n) (by simp [toksM]))
    refine ⟨memText (w1, n, w2, w3, v, w4) ++ sepTail (mems.map memText), b',
      by simp [Lex.bytes, Tok.bytes, Delim.bytes, List.append_assoc], hl', Or.inr ?_⟩
    refine ⟨(w1, n, w2, w3, v, w4) :: mems, by simp, MemsOK.cons key ⟨hw1, hn, hw2, hw3, hw4⟩ hgv hok, ?_⟩
    rw [List.map_cons, joinSep_cons]
theorem tailM : ∀ (ms : List (Bytes × JV)), AtomsOKM ms = true → (∀ k ∈ toksM ms, k.valid = true) →
    ∀ (d : Nat) (rest : List Lex) (b : Bytes), depthOKM ms d = true → Layout (lexM false ms ++ (.tok .eo :: rest)) b →
    ∃ w mems b', b = w ++ (sepTail (mems.map memText) ++ (0x7D :: b')) ∧ JWs w ∧ MemsOK key d mems ∧ Layout rest b'
  | [], _, _, d, rest, b, _, hl => by
    simp only [lexM, List.nil_append] at hl
    obtain ⟨w, b', rfl, hw, hl'⟩ := hl.inv_cons
    exact ⟨w, [], b', by simp [Lex.bytes, Tok.bytes, sepTail], hw, ⟨by simp, by simp⟩, hl'⟩
  | (n, x) :: ms, h, hv, d, rest, b, hd, hl => by
    simp only [AtomsOKM, Bool.and_eq_true] at h
    simp only [depthOKM, Bool.and_eq_true] at hd
    have e1 : lexM false ((n, x) :: ms) ++ (.tok .eo :: rest) =
        .delim .comma :: .tok (.str n) :: .delim .colon :: (lexT x ++ (lexM false ms ++ (.tok .eo :: rest))) := by
      simp [lexM, sepLex]
    rw [e1] at hl
    obtain ⟨w, b0, rfl, hw, hl0⟩ := hl.inv_cons
    obtain ⟨w1, b1, rfl, hw1, hl1⟩ := hl0.inv_cons
    obtain ⟨w2, b2, rfl, hw2, hl2⟩ := hl1.inv_cons
    obtain ⟨w3, v, b3, rfl, hw3, hgv, hl3⟩ := coreV x h.1 (fun k hk => hv k (by simp [toksM, hk])) d _ b2 hd.1 hl2
    obtain ⟨w4, mems, b', rfl, hw4, hok, hl'⟩ := tailM ms h.2 (fun k hk => hv k (by simp [toksM, hk])) d rest b3 hd.2 hl3
    have hn : JString false n := (str_valid_iff n).mp (hv (.str n) (by simp [toksM]))
    exact ⟨w, (w1, n, w2, w3, v, w4) :: mems, b',
      by simp [Lex.bytes, Tok.bytes, Delim.bytes, sepTail, List.append_assoc], hw,
      MemsOK.cons key ⟨hw1, hn, hw2, hw3, hw4⟩ hgv hok, hl'⟩
end

/-- **tokenize ⇒ JText**: every text the tokenizer accepts is a text of the RFC 8259 grammar of C01 (permissive
strings, duplicate names allowed, nesting ≤ maxNestingDepth), for every name-key function. -/
theorem tokenize_text (b : Bytes) (ts : List Tok) (h : tokenize b = some ts) :
    JText ⟨false, true⟩ maxDepth key b := by
  obtain ⟨hw, hl⟩ := (tokenize_iff_layout' b ts).mp h
  obtain ⟨t, rfl, ht, hd⟩ := accepts_is_tree ts hw.2
  have hp : punct [.top0] t.toks = lexT t := by
    have := punctV t ht .top0 .top1 none [] [] (by simp [Fr.value]) (by simpa using hd)
    simpa [delimLex, punct] using this
  rw [hp] at hl
  have hl' : Layout (lexT t ++ []) b := by simpa using hl
  obtain ⟨w, v, b', rfl, hws, hgv, hrest⟩ := coreV key t ht hw.1 0 [] b hd hl'
  exact ⟨w, v, b', hws, hgv, hrest.inv_nil, by simp [List.append_assoc]⟩

end

end JsonV.Fmt
