/-
Glue C12 ↔ C01, part 3: a blank layout of the lexemes of a tree (valid atoms, depth within the limit) is a value
of the tree grammar `JValue` of Spec/Grammar.lean (permissive strings, duplicate names allowed).
-/
import JsonV.Lemmas.GlueTreeParse
import JsonV.Lemmas.GlueFormatNum
import JsonV.Lemmas.GlueFormatStr
import JsonV.Model.FormatStrict

namespace JsonV.Fmt
open JsonV.Canon JsonV.Lemmas.CanonNest JsonV.Spec.Grammar

/-! ### small facts -/

theorem wsByte_iff (c : UInt8) : WsByte c ↔ isWs c = true := by
  simp [WsByte, isWs, or_assoc]

theorem jws_iff (w : Bytes) : JWs w ↔ allWs w = true := by
  simp [JWs, allWs, List.all_eq_true, wsByte_iff]

theorem Layout.inv_cons {l : Lex} {ls : List Lex} {b : Bytes} (h : Layout (l :: ls) b) :
    ∃ w b', b = w ++ (l.bytes ++ b') ∧ JWs w ∧ Layout ls b' := by
  cases h with
  | cons w _ _ b' hw hl => exact ⟨w, b', rfl, (jws_iff w).mpr hw, hl⟩

theorem Layout.inv_nil {b : Bytes} (h : Layout [] b) : JWs b := by
  cases h with
  | nil _ hw => exact (jws_iff b).mpr hw

/-- `,x₁,x₂…` -/
def sepTail : List Bytes → Bytes
  | [] => []
  | x :: xs => 0x2C :: (x ++ sepTail xs)

theorem joinSep_cons (x : Bytes) (xs : List Bytes) : joinSep (x :: xs) = x ++ sepTail xs := by
  induction xs generalizing x with
  | nil => simp [joinSep, sepTail]
  | cons y r ih => simp [joinSep, sepTail, ih y]

abbrev elemText (e : Bytes × Bytes × Bytes) : Bytes := e.1 ++ e.2.1 ++ e.2.2
abbrev memText (m : Bytes × Bytes × Bytes × Bytes × Bytes × Bytes) : Bytes :=
  m.1 ++ m.2.1 ++ m.2.2.1 ++ [0x3A] ++ m.2.2.2.1 ++ m.2.2.2.2.1 ++ m.2.2.2.2.2

/-- duplicate names are allowed, or the test `b` passed -/
def DupOK (o : GOpts) (b : Bool) : Prop := o.allowDup = true ∨ b = true

theorem DupOK.and {o : GOpts} {a b : Bool} (h : DupOK o (a && b)) : DupOK o a ∧ DupOK o b := by
  rcases h with h | h
  · exact ⟨Or.inl h, Or.inl h⟩
  · simp only [Bool.and_eq_true] at h; exact ⟨Or.inr h.1, Or.inr h.2⟩

theorem DupOK.mk_and {o : GOpts} {a b : Bool} (ha : DupOK o a) (hb : DupOK o b) : DupOK o (a && b) := by
  rcases ha with h | ha
  · exact Or.inl h
  · rcases hb with h | hb
    · exact Or.inl h
    · exact Or.inr (by simp [ha, hb])

section
variable (o : GOpts) (key : Bytes → Bytes)

/-- the grammar instance: the model's nesting limit, any string mode / duplicate policy -/
abbrev GV (d : Nat) (v : Bytes) : Prop := JValue o maxDepth key d v

def ElemsOK (d : Nat) (elems : List (Bytes × Bytes × Bytes)) : Prop :=
  (∀ e ∈ elems, JWs e.1 ∧ JWs e.2.2) ∧ (∀ e ∈ elems, GV o key d e.2.1)

def MemsOK (d : Nat) (mems : List (Bytes × Bytes × Bytes × Bytes × Bytes × Bytes)) : Prop :=
  (∀ m ∈ mems, JWs m.1 ∧ JString o.strict m.2.1 ∧ JWs m.2.2.1 ∧ JWs m.2.2.2.1 ∧ JWs m.2.2.2.2.2) ∧
  (∀ m ∈ mems, GV o key d m.2.2.2.2.1)

theorem ElemsOK.cons {d : Nat} {e : Bytes × Bytes × Bytes} {es : List (Bytes × Bytes × Bytes)}
    (h1 : JWs e.1) (h2 : JWs e.2.2) (h3 : GV o key d e.2.1) (h : ElemsOK o key d es) : ElemsOK o key d (e :: es) :=
  ⟨fun x hx => by rcases List.mem_cons.mp hx with rfl | hx; exact ⟨h1, h2⟩; exact h.1 x hx,
   fun x hx => by rcases List.mem_cons.mp hx with rfl | hx; exact h3; exact h.2 x hx⟩

theorem MemsOK.cons {d : Nat} {m : Bytes × Bytes × Bytes × Bytes × Bytes × Bytes}
    {ms : List (Bytes × Bytes × Bytes × Bytes × Bytes × Bytes)}
    (h1 : JWs m.1 ∧ JString o.strict m.2.1 ∧ JWs m.2.2.1 ∧ JWs m.2.2.2.1 ∧ JWs m.2.2.2.2.2) (h3 : GV o key d m.2.2.2.2.1)
    (h : MemsOK o key d ms) : MemsOK o key d (m :: ms) :=
  ⟨fun x hx => by rcases List.mem_cons.mp hx with rfl | hx; exact h1; exact h.1 x hx,
   fun x hx => by rcases List.mem_cons.mp hx with rfl | hx; exact h3; exact h.2 x hx⟩

/-- a valid scalar token is a value of the grammar -/
theorem atom_value (k : Tok) (hk : atomOK k = true) (hv : k.valid = true)
    (hs : ∀ raw, k = .str raw → JString o.strict raw) (d : Nat) : GV o key d k.bytes := by
  cases k with
  | bo => simp [atomOK] at hk
  | eo => simp [atomOK] at hk
  | ba => simp [atomOK] at hk
  | ea => simp [atomOK] at hk
  | str raw => exact JValue.str d raw (hs raw rfl)
  | num raw => exact JValue.num d raw ((scanNum_iff' raw).mp (Tok.valid_num hv))
  | null => exact JValue.null d
  | tru => exact JValue.true d
  | fls => exact JValue.false d

/-- the strings of a token list are strings of the selected mode -/
def StrsOK (ts : List Tok) : Prop := ∀ raw, Tok.str raw ∈ ts → JString o.strict raw

mutual
theorem coreV : ∀ (t : JV), AtomsOK t = true → (∀ k ∈ t.toks, k.valid = true) → StrsOK o t.toks → DupOK o (dupT key t) →
    ∀ (d : Nat) (rest : List Lex) (b : Bytes),
    depthOK t d = true → Layout (lexT t ++ rest) b →
    ∃ w v b', b = w ++ (v ++ b') ∧ JWs w ∧ GV o key d v ∧ Layout rest b'
  | .atom k, h, hv, hs, _, d, rest, b, _, hl => by
    simp only [AtomsOK] at h
    simp only [lexT, List.singleton_append] at hl
    obtain ⟨w, b', rfl, hw, hl'⟩ := hl.inv_cons
    exact ⟨w, k.bytes, b', rfl, hw,
      atom_value o key k h (hv k (by simp [JV.toks])) (fun raw e => hs raw (by simp [JV.toks, e])) d, hl'⟩
  | .arr es, h, hv, hs, hdp, d, rest, b, hd, hl => by
    simp only [AtomsOK] at h
    simp only [depthOK, Bool.and_eq_true, decide_eq_true_eq] at hd
    simp only [dupT] at hdp
    have e : lexT (.arr es) ++ rest = .tok .ba :: (lexL true es ++ (.tok .ea :: rest)) := by simp [lexT]
    rw [e] at hl
    obtain ⟨w, b1, rfl, hw, hl1⟩ := hl.inv_cons
    obtain ⟨body, b', rfl, hl', hb⟩ := bodyL es h (fun k hk => hv k (by simp [JV.toks, hk]))
      (fun raw hk => hs raw (by simp [JV.toks, hk])) hdp (d + 1) rest b1 hd.2 hl1
    refine ⟨w, 0x5B :: (body ++ [0x5D]), b', by simp [Lex.bytes, Tok.bytes], hw, ?_, hl'⟩
    rcases hb with hws | ⟨elems, hne, hok, rfl⟩
    · exact JValue.emptyArr d body hd.1 hws
    · exact JValue.arr d elems hd.1 hne hok.1 hok.2
  | .obj ms, h, hv, hs, hdp, d, rest, b, hd, hl => by
    simp only [AtomsOK] at h
    simp only [depthOK, Bool.and_eq_true, decide_eq_true_eq] at hd
    simp only [dupT] at hdp
    have e : lexT (.obj ms) ++ rest = .tok .bo :: (lexM true ms ++ (.tok .eo :: rest)) := by simp [lexT]
    rw [e] at hl
    obtain ⟨w, b1, rfl, hw, hl1⟩ := hl.inv_cons
    obtain ⟨body, b', rfl, hl', hb⟩ := bodyM ms h (fun k hk => hv k (by simp [JV.toks, hk]))
      (fun raw hk => hs raw (by simp [JV.toks, hk])) hdp.and.2 (d + 1) rest b1 hd.2 hl1
    refine ⟨w, 0x7B :: (body ++ [0x7D]), b', by simp [Lex.bytes, Tok.bytes], hw, ?_, hl'⟩
    rcases hb with hws | ⟨mems, hne, hok, hnames, rfl⟩
    · exact JValue.emptyObj d body hd.1 hws
    · refine JValue.obj d mems hd.1 hne hok.1 hok.2 ?_
      rcases hdp.and.1 with hdup | hdup
      · exact Or.inl hdup
      · right
        have : (mems.map fun m => key m.2.1) = ms.map fun p => key p.1 := by
          have := congrArg (List.map key) hnames
          rw [List.map_map, List.map_map] at this
          exact this
        rw [this]; simpa using hdup
/-- the inside of an array: whitespace only, or the elements joined by commas -/
theorem bodyL : ∀ (es : List JV), AtomsOKL es = true → (∀ k ∈ toksL es, k.valid = true) → StrsOK o (toksL es) →
    DupOK o (dupL key es) →
    ∀ (d : Nat) (rest : List Lex) (b : Bytes), depthOKL es d = true → Layout (lexL true es ++ (.tok .ea :: rest)) b →
    ∃ body b', b = body ++ (0x5D :: b') ∧ Layout rest b' ∧
      (JWs body ∨ ∃ elems, elems ≠ [] ∧ ElemsOK o key d elems ∧ body = joinSep (elems.map fun e => e.1 ++ e.2.1 ++ e.2.2))
  | [], _, _, _, _, d, rest, b, _, hl => by
    simp only [lexL, List.nil_append] at hl
    obtain ⟨w, b', rfl, hw, hl'⟩ := hl.inv_cons
    exact ⟨w, b', by simp [Lex.bytes, Tok.bytes], hl', Or.inl hw⟩
  | e :: es, h, hv, hs, hdp, d, rest, b, hd, hl => by
    simp only [AtomsOKL, Bool.and_eq_true] at h
    simp only [depthOKL, Bool.and_eq_true] at hd
    simp only [dupL] at hdp
    have e1 : lexL true (e :: es) ++ (.tok .ea :: rest) = lexT e ++ (lexL false es ++ (.tok .ea :: rest)) := by
      simp [lexL, sepLex]
    rw [e1] at hl
    obtain ⟨w1, v, b2, rfl, hw1, hgv, hl2⟩ := coreV e h.1 (fun k hk => hv k (by simp [toksL, hk]))
      (fun raw hk => hs raw (by simp [toksL, hk])) hdp.and.1 d _ b hd.1 hl
    obtain ⟨w2, elems, b', rfl, hw2, hok, hl'⟩ := tailL es h.2 (fun k hk => hv k (by simp [toksL, hk]))
      (fun raw hk => hs raw (by simp [toksL, hk])) hdp.and.2 d rest b2 hd.2 hl2
    refine ⟨(w1 ++ v ++ w2) ++ sepTail (elems.map elemText), b', by simp [List.append_assoc], hl', Or.inr ?_⟩
    refine ⟨(w1, v, w2) :: elems, by simp, ElemsOK.cons o key hw1 hw2 hgv hok, ?_⟩
    rw [List.map_cons, joinSep_cons]
/-- after an element: whitespace, then `, element` repeatedly, up to the closing bracket -/
theorem tailL : ∀ (es : List JV), AtomsOKL es = true → (∀ k ∈ toksL es, k.valid = true) → StrsOK o (toksL es) →
    DupOK o (dupL key es) →
    ∀ (d : Nat) (rest : List Lex) (b : Bytes), depthOKL es d = true → Layout (lexL false es ++ (.tok .ea :: rest)) b →
    ∃ w elems b', b = w ++ (sepTail (elems.map elemText) ++ (0x5D :: b')) ∧ JWs w ∧ ElemsOK o key d elems ∧ Layout rest b'
  | [], _, _, _, _, d, rest, b, _, hl => by
    simp only [lexL, List.nil_append] at hl
    obtain ⟨w, b', rfl, hw, hl'⟩ := hl.inv_cons
    exact ⟨w, [], b', by simp [Lex.bytes, Tok.bytes, sepTail], hw, ⟨by simp, by simp⟩, hl'⟩
  | e :: es, h, hv, hs, hdp, d, rest, b, hd, hl => by
    simp only [AtomsOKL, Bool.and_eq_true] at h
    simp only [depthOKL, Bool.and_eq_true] at hd
    simp only [dupL] at hdp
    have e1 : lexL false (e :: es) ++ (.tok .ea :: rest) =
        .delim .comma :: (lexT e ++ (lexL false es ++ (.tok .ea :: rest))) := by simp [lexL, sepLex]
    rw [e1] at hl
    obtain ⟨w, b1, rfl, hw, hl1⟩ := hl.inv_cons
    obtain ⟨w1, v, b2, rfl, hw1, hgv, hl2⟩ := coreV e h.1 (fun k hk => hv k (by simp [toksL, hk]))
      (fun raw hk => hs raw (by simp [toksL, hk])) hdp.and.1 d _ b1 hd.1 hl1
    obtain ⟨w2, elems, b', rfl, hw2, hok, hl'⟩ := tailL es h.2 (fun k hk => hv k (by simp [toksL, hk]))
      (fun raw hk => hs raw (by simp [toksL, hk])) hdp.and.2 d rest b2 hd.2 hl2
    exact ⟨w, (w1, v, w2) :: elems, b', by simp [Lex.bytes, Delim.bytes, sepTail, List.append_assoc], hw,
      ElemsOK.cons o key hw1 hw2 hgv hok, hl'⟩
theorem bodyM : ∀ (ms : List (Bytes × JV)), AtomsOKM ms = true → (∀ k ∈ toksM ms, k.valid = true) → StrsOK o (toksM ms) →
    DupOK o (dupM key ms) →
    ∀ (d : Nat) (rest : List Lex) (b : Bytes), depthOKM ms d = true → Layout (lexM true ms ++ (.tok .eo :: rest)) b →
    ∃ body b', b = body ++ (0x7D :: b') ∧ Layout rest b' ∧
      (JWs body ∨ ∃ mems, mems ≠ [] ∧ MemsOK o key d mems ∧ (mems.map fun m => m.2.1) = ms.map Prod.fst ∧
        body = joinSep (mems.map fun m =>
        m.1 ++ m.2.1 ++ m.2.2.1 ++ [0x3A] ++ m.2.2.2.1 ++ m.2.2.2.2.1 ++ m.2.2.2.2.2))
  | [], _, _, _, _, d, rest, b, _, hl => by
    simp only [lexM, List.nil_append] at hl
    obtain ⟨w, b', rfl, hw, hl'⟩ := hl.inv_cons
    exact ⟨w, b', by simp [Lex.bytes, Tok.bytes], hl', Or.inl hw⟩
  | (n, x) :: ms, h, hv, hs, hdp, d, rest, b, hd, hl => by
    simp only [AtomsOKM, Bool.and_eq_true] at h
    simp only [depthOKM, Bool.and_eq_true] at hd
    simp only [dupM] at hdp
    have e1 : lexM true ((n, x) :: ms) ++ (.tok .eo :: rest) =
        .tok (.str n) :: .delim .colon :: (lexT x ++ (lexM false ms ++ (.tok .eo :: rest))) := by simp [lexM, sepLex]
    rw [e1] at hl
    obtain ⟨w1, b1, rfl, hw1, hl1⟩ := hl.inv_cons
    obtain ⟨w2, b2, rfl, hw2, hl2⟩ := hl1.inv_cons
    obtain ⟨w3, v, b3, rfl, hw3, hgv, hl3⟩ := coreV x h.1 (fun k hk => hv k (by simp [toksM, hk]))
      (fun raw hk => hs raw (by simp [toksM, hk])) hdp.and.1 d _ b2 hd.1 hl2
    obtain ⟨w4, mems, b', rfl, hw4, hok, hnames, hl'⟩ := tailM ms h.2 (fun k hk => hv k (by simp [toksM, hk]))
      (fun raw hk => hs raw (by simp [toksM, hk])) hdp.and.2 d rest b3 hd.2 hl3
    have hn : JString o.strict n := hs n (by simp [toksM])
    refine ⟨memText (w1, n, w2, w3, v, w4) ++ sepTail (mems.map memText), b',
      by simp [Lex.bytes, Tok.bytes, Delim.bytes, List.append_assoc], hl', Or.inr ?_⟩
    refine ⟨(w1, n, w2, w3, v, w4) :: mems, by simp, MemsOK.cons o key ⟨hw1, hn, hw2, hw3, hw4⟩ hgv hok,
      by simp [hnames], ?_⟩
    rw [List.map_cons, joinSep_cons]
theorem tailM : ∀ (ms : List (Bytes × JV)), AtomsOKM ms = true → (∀ k ∈ toksM ms, k.valid = true) → StrsOK o (toksM ms) →
    DupOK o (dupM key ms) →
    ∀ (d : Nat) (rest : List Lex) (b : Bytes), depthOKM ms d = true → Layout (lexM false ms ++ (.tok .eo :: rest)) b →
    ∃ w mems b', b = w ++ (sepTail (mems.map memText) ++ (0x7D :: b')) ∧ JWs w ∧ MemsOK o key d mems ∧
      (mems.map fun m => m.2.1) = ms.map Prod.fst ∧ Layout rest b'
  | [], _, _, _, _, d, rest, b, _, hl => by
    simp only [lexM, List.nil_append] at hl
    obtain ⟨w, b', rfl, hw, hl'⟩ := hl.inv_cons
    exact ⟨w, [], b', by simp [Lex.bytes, Tok.bytes, sepTail], hw, ⟨by simp, by simp⟩, rfl, hl'⟩
  | (n, x) :: ms, h, hv, hs, hdp, d, rest, b, hd, hl => by
    simp only [AtomsOKM, Bool.and_eq_true] at h
    simp only [depthOKM, Bool.and_eq_true] at hd
    simp only [dupM] at hdp
    have e1 : lexM false ((n, x) :: ms) ++ (.tok .eo :: rest) =
        .delim .comma :: .tok (.str n) :: .delim .colon :: (lexT x ++ (lexM false ms ++ (.tok .eo :: rest))) := by
      simp [lexM, sepLex]
    rw [e1] at hl
    obtain ⟨w, b0, rfl, hw, hl0⟩ := hl.inv_cons
    obtain ⟨w1, b1, rfl, hw1, hl1⟩ := hl0.inv_cons
    obtain ⟨w2, b2, rfl, hw2, hl2⟩ := hl1.inv_cons
    obtain ⟨w3, v, b3, rfl, hw3, hgv, hl3⟩ := coreV x h.1 (fun k hk => hv k (by simp [toksM, hk]))
      (fun raw hk => hs raw (by simp [toksM, hk])) hdp.and.1 d _ b2 hd.1 hl2
    obtain ⟨w4, mems, b', rfl, hw4, hok, hnames, hl'⟩ := tailM ms h.2 (fun k hk => hv k (by simp [toksM, hk]))
      (fun raw hk => hs raw (by simp [toksM, hk])) hdp.and.2 d rest b3 hd.2 hl3
    have hn : JString o.strict n := hs n (by simp [toksM])
    exact ⟨w, (w1, n, w2, w3, v, w4) :: mems, b',
      by simp [Lex.bytes, Tok.bytes, Delim.bytes, sepTail, List.append_assoc], hw,
      MemsOK.cons o key ⟨hw1, hn, hw2, hw3, hw4⟩ hgv hok, by simp [hnames], hl'⟩
end

/-- A text tokenized to the tokens of a tree whose strings are of the selected mode and whose names pass the
duplicate test is a text of the grammar with those options. -/
theorem tokenize_text_gen (b : Bytes) (ts : List Tok) (h : tokenize b = some ts) (hs : StrsOK o ts)
    (hdp : ∀ t : JV, ts = t.toks → AtomsOK t = true → DupOK o (dupT key t)) :
    JText o maxDepth key b := by
  obtain ⟨hw, hl⟩ := (tokenize_iff_layout' b ts).mp h
  obtain ⟨t, rfl, ht, hd⟩ := accepts_is_tree ts hw.2
  have hp : punct [.top0] t.toks = lexT t := by
    have := punctV t ht .top0 .top1 none [] [] (by simp [Fr.value]) (by simpa using hd)
    simpa [delimLex, punct] using this
  rw [hp] at hl
  have hl' : Layout (lexT t ++ []) b := by simpa using hl
  obtain ⟨w, v, b', rfl, hws, hgv, hrest⟩ := coreV o key t ht hw.1 hs (hdp t rfl ht) 0 [] b hd hl'
  exact ⟨w, v, b', hws, hgv, hrest.inv_nil, by simp [List.append_assoc]⟩

end

/-- **tokenize ⇒ JText**: every text the tokenizer accepts is a text of the RFC 8259 grammar of C01 (permissive
strings, duplicate names allowed, nesting ≤ maxNestingDepth), for every name-key function. -/
theorem tokenize_text (key : Bytes → Bytes) (b : Bytes) (ts : List Tok) (h : tokenize b = some ts) :
    JText ⟨false, true⟩ maxDepth key b :=
  tokenize_text_gen ⟨false, true⟩ key b ts h
    (fun raw hm => (str_valid_iff raw).mp ((tokenize_sound' b ts h).1 _ hm)) (fun _ _ _ => Or.inl rfl)

end JsonV.Fmt
