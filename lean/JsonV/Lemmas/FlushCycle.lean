/-
C07 helper lemmas, part 4: the invariant behind avoidFlush and the omitempty cycle
"write name, write an empty value, UnwriteEmptyObjectMember".
-/
import JsonV.Lemmas.FlushRun

namespace JsonV.Model.Flush
open JsonV

/-- A byte at which the backwards scans of UnwriteEmptyObjectMember stop: not whitespace, not a comma, not a
backslash.  `{`, `[`, `}`, `]` are such bytes. -/
def OpenerLike (o : UInt8) : Prop := isWs o = false ∧ o ≠ 0x2c ∧ o ≠ 0x5c

/-- The invariant that avoidFlush's first case ("never flush after BeginObject or BeginArray") maintains:
directly after an opening token the opening byte is still in the buffer. -/
structure Inv (e : Enc) : Prop where
  bottom : bottomIsObj e.last e.stack = false
  opened : e.last.len = 0 → e.stack ≠ [] → ∃ b o, e.buf = b ++ [o] ∧ OpenerLike o

theorem inv_init (omitNL : Bool) : Inv { omitNL := omitNL } :=
  ⟨rfl, fun _ h => absurd rfl h⟩

theorem avoidFlush_of_len0 {e : Enc} (h : e.last.len = 0) : avoidFlush e = true := by
  simp [avoidFlush, h]

theorem inv_flush {e : Enc} (h : Inv e) (a : WAct) : Inv (flush e a) := by
  cases hav : avoidFlush e
  · refine ⟨by simpa using h.bottom, ?_⟩
    intro hl
    rw [flush_last] at hl
    rw [avoidFlush_of_len0 hl] at hav; cases hav
  · rw [flush_of_avoid hav]; exact h

theorem inv_write {e e' : Enc} {t : Tok} {ws : Bytes} (h : Inv e) (hw : write e t ws = some e') : Inv e' := by
  obtain ⟨_, hn, hb, _, _⟩ := write_some hw
  refine ⟨nextFrames_bottom hn h.bottom, ?_⟩
  intro hl hs
  have close : ∀ c : UInt8, OpenerLike c → t.text = [c] → ∃ b o, e'.buf = b ++ [o] ∧ OpenerLike o := by
    intro c hc ht
    exact ⟨e.buf ++ delim e.last e.stack t ++ ws, c, by rw [hb, ht], hc⟩
  cases t with
  | scalar x => simp [nextFrames] at hn; rw [← hn.1] at hl; simp [Frame.inc] at hl
  | str x => simp [nextFrames] at hn; rw [← hn.1] at hl; simp [Frame.inc] at hl
  | openObj => exact close 0x7b (by simp [OpenerLike, isWs]) rfl
  | openArr => exact close 0x5b (by simp [OpenerLike, isWs]) rfl
  | closeObj => exact close 0x7d (by simp [OpenerLike, isWs]) rfl
  | closeArr => exact close 0x5d (by simp [OpenerLike, isWs]) rfl

/-- Every token call keeps the invariant, whatever the flush decision and the writer do. -/
theorem inv_step_tok {e : Enc} (h : Inv e) (t : Tok) (ws : Bytes) (s : Sched) : Inv (step e (.tok t ws) s) := by
  simp only [step]
  cases hw : write e t ws with
  | none => exact h
  | some e' =>
    have := inv_write h hw
    simp only
    split
    · exact inv_flush this _
    · exact this

theorem step_tok_of_avoid {e e' : Enc} {t : Tok} {ws : Bytes} (hw : write e t ws = some e')
    (hav : avoidFlush e' = true) (s : Sched) : step e (.tok t ws) s = e' := by
  simp only [step, hw]
  split
  · exact flush_of_avoid hav _
  · rfl

theorem write_eq {e : Enc} {t : Tok} {ws : Bytes} {l : Frame} {st : List Frame}
    (ha : accepts e.last e.stack t = true) (hn : nextFrames e.last e.stack t = some (l, st)) :
    write e t ws = some { e with buf := e.buf ++ delim e.last e.stack t ++ ws ++ t.text, last := l, stack := st } := by
  simp [write, ha, hn]

/-! ### the cycle -/

theorem even_succ_succ {k : Nat} (h : k % 2 = 0) : (k + 1) % 2 = 1 ∧ (k + 2) % 2 = 0 := by omega

/-- Writing a member name into an object that expects one: the call is accepted, appends
`[,] ws "name"` and the flush opportunity that follows is always suppressed (avoidFlush, case needObjectValue). -/
theorem step_name (dl bf : Bytes) (k : Nat) (st : List Frame) (nl : Bool) (hk : k % 2 = 0)
    (name ws1 : Bytes) (s : Sched) :
    step ⟨dl, bf, ⟨true, k⟩, st, nl⟩ (.tok (.str name) ws1) s =
      ⟨dl, bf ++ delim ⟨true, k⟩ st (.str name) ++ ws1 ++ (0x22 :: name ++ [0x22]), ⟨true, k + 1⟩, st, nl⟩ := by
  have h1 := (even_succ_succ hk).1
  refine step_tok_of_avoid (write_eq (by simp [accepts]) (by simp [nextFrames, Frame.inc])) ?_ s
  simp [avoidFlush, Frame.needValue, h1]

theorem delim_name (k : Nat) (st : List Frame) (hk : k % 2 = 0) (hst : st ≠ []) (name : Bytes) :
    delim ⟨true, k⟩ st (.str name) = if k = 0 then [] else [0x2c] := by
  have : st.isEmpty = false := by simpa using hst
  by_cases h0 : k = 0
  · simp [delim, Frame.needValue, h0]
  · have : 0 < k := Nat.pos_of_ne_zero h0
    simp [delim, Frame.needValue, Tok.isClose, *]

theorem delim_value (k : Nat) (st : List Frame) (hk : k % 2 = 1) (t : Tok) : delim ⟨true, k⟩ st t = [0x3a] := by
  simp [delim, Frame.needValue, hk]

theorem endsEmptyR_of_emptyText {val : Bytes} (hv : EmptyText val) (r : List UInt8) :
    endsEmptyR (val.reverse ++ r) = true := by
  cases hv <;> simp [endsEmptyR]

theorem emptyText_len {val : Bytes} (hv : EmptyText val) : 2 ≤ val.length := by
  cases hv <;> simp

/-- After an empty value in an object that now expects a name, a flush is suppressed
(avoidFlush, third case). -/
theorem avoid_after_empty (dl pre val : Bytes) (k : Nat) (st : List Frame) (nl : Bool) (hk : k % 2 = 0) (hk0 : k ≠ 0)
    (hv : EmptyText val) : avoidFlush ⟨dl, pre ++ val, ⟨true, k⟩, st, nl⟩ = true := by
  have hl := emptyText_len hv
  have he : endsEmptyR (val.reverse ++ pre.reverse) = true := endsEmptyR_of_emptyText hv _
  simp [avoidFlush, Frame.needValue, Frame.needName, hk, hk0, he]
  omega

/-- Writing `null` or `""` as the member value: accepted, appends `: ws value`, flush suppressed. -/
theorem step_scalar_value (dl bf : Bytes) (k : Nat) (st : List Frame) (nl : Bool) (hk : k % 2 = 0)
    (t : Tok) (ht : t = .scalar [0x6e, 0x75, 0x6c, 0x6c] ∨ t = .str []) (ws2 : Bytes) (s : Sched) :
    step ⟨dl, bf, ⟨true, k + 1⟩, st, nl⟩ (.tok t ws2) s =
      ⟨dl, bf ++ [0x3a] ++ ws2 ++ t.text, ⟨true, k + 2⟩, st, nl⟩ ∧ EmptyText t.text := by
  obtain ⟨h1, h2⟩ := even_succ_succ hk
  have hacc : accepts ⟨true, k + 1⟩ st t = true := by
    rcases ht with rfl | rfl <;> simp [accepts, Frame.needName, h1]
  have hnf : nextFrames ⟨true, k + 1⟩ st t = some (⟨true, k + 2⟩, st) := by
    rcases ht with rfl | rfl <;> simp [nextFrames, Frame.inc]
  have hv : EmptyText t.text := by
    rcases ht with rfl | rfl
    · exact EmptyText.null
    · exact EmptyText.str
  refine ⟨?_, hv⟩
  have hw := write_eq (e := ⟨dl, bf, ⟨true, k + 1⟩, st, nl⟩) (ws := ws2) hacc hnf
  simp only [delim_value (k + 1) st h1] at hw
  refine step_tok_of_avoid hw ?_ s
  exact avoid_after_empty dl (bf ++ [0x3a] ++ ws2) t.text (k + 2) st nl h2 (by omega) hv

/-- Writing `{` `}` or `[` `]` as the member value: both calls accepted, `: ws {}` appended, both flush
opportunities suppressed (avoidFlush, first and third case). -/
theorem step_compound_value (dl bf : Bytes) (k : Nat) (st : List Frame) (nl : Bool) (hk : k % 2 = 0)
    (isObj : Bool) (ws2 : Bytes) (s₁ s₂ : Sched) :
    let o : Tok := if isObj then .openObj else .openArr
    let c : Tok := if isObj then .closeObj else .closeArr
    step (step ⟨dl, bf, ⟨true, k + 1⟩, st, nl⟩ (.tok o ws2) s₁) (.tok c []) s₂ =
      ⟨dl, bf ++ [0x3a] ++ ws2 ++ (o.text ++ c.text), ⟨true, k + 2⟩, st, nl⟩ ∧ EmptyText (o.text ++ c.text) := by
  obtain ⟨h1, h2⟩ := even_succ_succ hk
  intro o c
  have hv : EmptyText (o.text ++ c.text) := by
    cases isObj
    · exact EmptyText.arr
    · exact EmptyText.obj
  refine ⟨?_, hv⟩
  -- the opening token
  have hacc : accepts ⟨true, k + 1⟩ st o = true := by
    cases isObj <;> simp [o, accepts, Frame.needName, h1]
  have hnf : nextFrames ⟨true, k + 1⟩ st o = some (⟨isObj, 0⟩, ⟨true, k + 2⟩ :: st) := by
    cases isObj <;> simp [o, nextFrames, Frame.inc]
  have hw := write_eq (e := ⟨dl, bf, ⟨true, k + 1⟩, st, nl⟩) (ws := ws2) hacc hnf
  simp only [delim_value (k + 1) st h1] at hw
  rw [step_tok_of_avoid hw (avoidFlush_of_len0 rfl) s₁]
  -- the closing token
  have hacc2 : accepts ⟨isObj, 0⟩ (⟨true, k + 2⟩ :: st) c = true := by
    cases isObj <;> simp [c, accepts, Frame.needValue]
  have hnf2 : nextFrames ⟨isObj, 0⟩ (⟨true, k + 2⟩ :: st) c = some (⟨true, k + 2⟩, st) := by
    cases isObj <;> simp [c, nextFrames]
  have hd2 : delim ⟨isObj, 0⟩ (⟨true, k + 2⟩ :: st) c = [] := by
    cases isObj <;> simp [c, delim, Frame.needValue]
  have hw2 := write_eq (e := ⟨dl, bf ++ [0x3a] ++ ws2 ++ o.text, ⟨isObj, 0⟩, ⟨true, k + 2⟩ :: st, nl⟩) (ws := [])
    hacc2 hnf2
  simp only [hd2, List.append_nil] at hw2
  have hav := avoid_after_empty dl (bf ++ [0x3a] ++ ws2) (o.text ++ c.text) (k + 2) st nl h2 (by omega) hv
  have hbuf : bf ++ [0x3a] ++ ws2 ++ o.text ++ c.text = bf ++ [0x3a] ++ ws2 ++ (o.text ++ c.text) := by
    simp [List.append_assoc]
  rw [hbuf] at hw2
  exact step_tok_of_avoid hw2 hav s₂

/-- UnwriteEmptyObjectMember after `name : empty value`: true, and the buffer, the frames and what was delivered
are exactly what they were before the name was written. -/
theorem unwrite_after_member (dl bf : Bytes) (k : Nat) (st : List Frame) (nl : Bool) (hk : k % 2 = 0)
    (sep ws1 name ws2 val : Bytes) (h2 : WsOnly ws2) (h1 : WsOnly ws1) (hn : QuotesEscaped name)
    (hs : MemberSep bf sep) (hv : EmptyText val) :
    unwriteEmpty ⟨dl, bf ++ sep ++ ws1 ++ (0x22 :: name ++ [0x22]) ++ [0x3a] ++ ws2 ++ val, ⟨true, k + 2⟩, st, nl⟩ =
      (⟨dl, bf, ⟨true, k⟩, st, nl⟩, true) := by
  have h2' := (even_succ_succ hk).2
  have hb := unwriteEmptyBytes_member bf sep ws1 name ws2 val h2 h1 hn hs hv
  simp at hb
  simp [unwriteEmpty, Frame.needName, h2', hb]

end JsonV.Model.Flush
