/-
C10 lemmas: jsonwire.AppendFloat (strconv %e/%f layout of the shortest digits + the e-0X clean-up)
is the ECMA-262 Number::toString layout.
-/
import JsonV.Model.Number
import JsonV.Spec.Ecma

namespace JsonV.Lemmas.NumFloat
open JsonV JsonV.Model.Number JsonV.Spec.Ecma

/-- Well-formed shortest decomposition `0.d₁…d_k × 10^n`: decimal digits, no leading zero digit,
zero is `([], 0)`, and the exponent has at most three digits (true of every float64 and float32). -/
def WFD (ds : List Nat) (n : Int) : Prop :=
  (∀ d ∈ ds, d < 10) ∧ ds.head? ≠ some 0 ∧ (ds = [] → n = 0) ∧ -1000 < n - 1 ∧ n - 1 < 1000

theorem dig_eq : digitByte = dig := rfl

/-! ### the fraction loop of fmtF -/

theorem frac_inside (ds : List Nat) (a : Nat) (ha : a ≤ ds.length) :
    (List.range (ds.length - a)).map (fun (i : Nat) =>
        let j : Int := (a : Int) + (i : Int)
        if 0 ≤ j ∧ j < (ds.length : Int) then digitByte (ds.getD j.toNat 0) else 48)
      = (ds.drop a).map digitByte := by
  apply List.ext_getElem
  · simp
  · intro i h1 h2
    simp only [List.length_map, List.length_range] at h1
    simp only [List.getElem_map, List.getElem_range, List.getElem_drop]
    have hj : ((a : Int) + (i : Int)).toNat = a + i := by omega
    rw [if_pos (by omega), hj, List.getD_eq_getElem?_getD, List.getElem?_eq_getElem (by omega)]
    rfl

theorem frac_leading (ds : List Nat) (z : Nat) :
    (List.range (ds.length + z)).map (fun (i : Nat) =>
        let j : Int := -(z : Int) + (i : Int)
        if 0 ≤ j ∧ j < (ds.length : Int) then digitByte (ds.getD j.toNat 0) else 48)
      = List.replicate z 48 ++ ds.map digitByte := by
  apply List.ext_getElem
  · simp; omega
  · intro i h1 h2
    simp only [List.length_map, List.length_range] at h1
    simp only [List.getElem_map, List.getElem_range]
    by_cases hi : i < z
    · rw [if_neg (by omega), List.getElem_append_left (by simpa using hi)]; simp
    · rw [if_pos (by omega), List.getElem_append_right (by simpa using hi)]
      have hj : (-(z : Int) + (i : Int)).toNat = i - z := by omega
      simp only [List.length_replicate, List.getElem_map]
      rw [hj, List.getD_eq_getElem?_getD, List.getElem?_eq_getElem (by omega)]
      rfl

/-! ### exponent digits -/

theorem decimal_lt10 (e : Nat) (h : e < 10) : decimal e = [e] := by
  rw [decimal, dif_pos h]

theorem decimal_lt100 (e : Nat) (h1 : 10 ≤ e) (h2 : e < 100) : decimal e = [e / 10, e % 10] := by
  rw [decimal, dif_neg (by omega), decimal_lt10 _ (by omega)]; rfl

theorem decimal_lt1000 (e : Nat) (h1 : 100 ≤ e) (h2 : e < 1000) : decimal e = [e / 100, e / 10 % 10, e % 10] := by
  rw [decimal, dif_neg (by omega), decimal_lt100 _ (by omega) (by omega)]
  have : e / 10 / 10 = e / 100 := by omega
  rw [this]; rfl

theorem digitByte_ne_48 (q : Nat) (h1 : 1 ≤ q) (h2 : q ≤ 9) : (digitByte q == 48) = false := by
  have : ∀ q : Fin 10, 1 ≤ q.val → (digitByte q.val == 48) = false := by decide
  exact this ⟨q, by omega⟩ h1

/-! ### the clean-up of `e-0X` -/

theorem cleanExp_minus0 (P : Bytes) (x : UInt8) : cleanExp (P ++ [101, 45, 48, x]) = P ++ [101, 45, x] := by
  simp [cleanExp]

theorem cleanExp_minus2 (P : Bytes) (a x : UInt8) (ha : (a == 48) = false) :
    cleanExp (P ++ [101, 45, a, x]) = P ++ [101, 45, a, x] := by
  simp [cleanExp, ha]

theorem cleanExp_plus (P : Bytes) (a x : UInt8) : cleanExp (P ++ [101, 43, a, x]) = P ++ [101, 43, a, x] := by
  simp [cleanExp]

theorem cleanExp_three (P : Bytes) (s a b x : UInt8) (hs : s = 43 ∨ s = 45) :
    cleanExp (P ++ [101, s, a, b, x]) = P ++ [101, s, a, b, x] := by
  rcases hs with h | h <;> subst h <;> simp [cleanExp]

/-- The exponent part printed by fmtE, after the clean-up, is `e ± decimal(|n-1|)` in the two ranges where
the exponent form is used. -/
theorem exp_part (P : Bytes) (x : Int) (hx : x ≤ -7 ∨ 21 ≤ x) (hlo : -1000 < x) (hhi : x < 1000) :
    cleanExp (P ++ [101] ++
      ((if x < 0 then (45 : UInt8) else 43) ::
        (if x.natAbs < 10 then [48, digitByte x.natAbs]
         else if x.natAbs < 100 then [digitByte (x.natAbs / 10), digitByte (x.natAbs % 10)]
         else [digitByte (x.natAbs / 100), digitByte (x.natAbs / 10 % 10), digitByte (x.natAbs % 10)])))
    = P ++ [101] ++ (if x < 0 then [45] else [43]) ++ (decimal x.natAbs).map dig := by
  rw [dig_eq]
  by_cases hneg : x < 0
  · simp only [hneg, if_true]
    by_cases h10 : x.natAbs < 10
    · rw [if_pos h10, decimal_lt10 _ h10]
      have := cleanExp_minus0 P (dig x.natAbs)
      simpa using this
    · by_cases h100 : x.natAbs < 100
      · rw [if_neg h10, if_pos h100, decimal_lt100 _ (by omega) h100]
        have := cleanExp_minus2 P (dig (x.natAbs / 10)) (dig (x.natAbs % 10)) (digitByte_ne_48 _ (by omega) (by omega))
        simpa using this
      · rw [if_neg h10, if_neg h100, decimal_lt1000 _ (by omega) (by omega)]
        have := cleanExp_three P 45 (dig (x.natAbs / 100)) (dig (x.natAbs / 10 % 10)) (dig (x.natAbs % 10)) (Or.inr rfl)
        simpa using this
  · simp only [hneg, if_false]
    have h10 : ¬ x.natAbs < 10 := by omega
    by_cases h100 : x.natAbs < 100
    · rw [if_neg h10, if_pos h100, decimal_lt100 _ (by omega) h100]
      have := cleanExp_plus P (dig (x.natAbs / 10)) (dig (x.natAbs % 10))
      simpa using this
    · rw [if_neg h10, if_neg h100, decimal_lt1000 _ (by omega) (by omega)]
      have := cleanExp_three P 43 (dig (x.natAbs / 100)) (dig (x.natAbs / 10 % 10)) (dig (x.natAbs % 10)) (Or.inl rfl)
      simpa using this

/-! ### AppendFloat = ECMA layout -/

theorem layout_zero (neg : Bool) : appendFloat neg [] 0 = numberToString neg [] 0 := by
  cases neg <;> decide

def sgn (neg : Bool) : Bytes := if neg then [45] else []

theorem ecma_int (neg : Bool) (ds : List Nat) (n : Int) (hne : ds ≠ []) (hA : (ds.length : Int) ≤ n) (h2 : n ≤ 21) :
    numberToString neg ds n = sgn neg ++ (ds.map dig ++ zeros (n - ds.length).toNat) := by
  unfold numberToString layout
  dsimp only
  refine congrArg (sgn neg ++ ·) ?_
  rw [if_neg hne, if_pos ⟨hA, h2⟩]

theorem ecma_point (neg : Bool) (ds : List Nat) (n : Int) (hne : ds ≠ []) (hA : ¬ (ds.length : Int) ≤ n) (hB : 0 < n) (h2 : n ≤ 21) :
    numberToString neg ds n = sgn neg ++ ((ds.take n.toNat).map dig ++ [46] ++ (ds.drop n.toNat).map dig) := by
  unfold numberToString layout
  dsimp only
  refine congrArg (sgn neg ++ ·) ?_
  rw [if_neg hne, if_neg (fun h => hA h.1), if_pos ⟨hB, h2⟩]

theorem ecma_small (neg : Bool) (ds : List Nat) (n : Int) (hne : ds ≠ []) (h1 : -6 < n) (hB : n ≤ 0) :
    numberToString neg ds n = sgn neg ++ ([48, 46] ++ zeros (-n).toNat ++ ds.map dig) := by
  have hk : 0 < ds.length := List.length_pos_iff.2 hne
  unfold numberToString layout
  dsimp only
  refine congrArg (sgn neg ++ ·) ?_
  rw [if_neg hne, if_neg (by omega), if_neg (by omega), if_pos ⟨h1, hB⟩]

theorem ecma_exp1 (neg : Bool) (d : Nat) (n : Int) (h : n ≤ -6 ∨ 21 < n) :
    numberToString neg [d] n = sgn neg ++ ([dig d] ++ ([101] ++ (if n - 1 < 0 then [45] else [43]) ++ (decimal (n - 1).natAbs).map dig)) := by
  unfold numberToString layout
  dsimp only
  refine congrArg (sgn neg ++ ·) ?_
  rw [if_neg (by simp), if_neg (by simp; omega), if_neg (by omega), if_neg (by omega), if_pos (by simp)]; rfl

theorem ecma_expk (neg : Bool) (d : Nat) (r : List Nat) (hr : r ≠ []) (n : Int) (h : n ≤ -6 ∨ 21 < n) :
    numberToString neg (d :: r) n = sgn neg ++ ([dig d] ++ [46] ++ r.map dig ++ ([101] ++ (if n - 1 < 0 then [45] else [43]) ++ (decimal (n - 1).natAbs).map dig)) := by
  have hrl : 0 < r.length := List.length_pos_iff.2 hr
  unfold numberToString layout
  dsimp only
  refine congrArg (sgn neg ++ ·) ?_
  rw [if_neg (by simp), if_neg (by simp; omega), if_neg (by omega), if_neg (by omega), if_neg (by simp; omega)]
  simp

theorem go_plain (neg : Bool) (ds : List Nat) (n : Int) (_hne : ds ≠ []) (h1 : -6 < n) (h2 : n ≤ 21) :
    appendFloat neg ds n = fmtF neg ds n ((ds.length : Int) - n).toNat := by
  have hu : useExp ds n = false := by
    simp only [useExp, Bool.and_eq_false_iff, Bool.not_eq_false', Bool.or_eq_false_iff, decide_eq_false_iff_not]
    right; omega
  simp only [appendFloat, hu, Bool.false_eq_true, if_false, strconvShortest]

theorem go_exp (neg : Bool) (ds : List Nat) (n : Int) (hne : ds ≠ []) (h : n ≤ -6 ∨ 21 < n) :
    appendFloat neg ds n = cleanExp (fmtE neg ds n (ds.length - 1)) := by
  have hu : useExp ds n = true := by
    simp only [useExp, Bool.and_eq_true, Bool.not_eq_true', Bool.or_eq_true, decide_eq_true_eq]
    refine ⟨by simpa using hne, ?_⟩
    omega
  simp only [appendFloat, hu, if_true, strconvShortest]

theorem layout_plain (neg : Bool) (ds : List Nat) (n : Int) (hne : ds ≠ []) (h1 : -6 < n) (h2 : n ≤ 21) :
    appendFloat neg ds n = numberToString neg ds n := by
  have hk : 0 < ds.length := List.length_pos_iff.2 hne
  rw [go_plain neg ds n hne h1 h2]
  by_cases hA : (ds.length : Int) ≤ n
  · -- integer, padded with zeros
    rw [ecma_int neg ds n hne hA h2]
    have hn0 : n > 0 := by omega
    have hprec : ((ds.length : Int) - n).toNat = 0 := by omega
    have hm : min ds.length n.toNat = ds.length := by omega
    have hz : n.toNat - ds.length = (n - (ds.length : Int)).toNat := by omega
    simp only [fmtF, hprec, Nat.lt_irrefl, if_false, List.append_nil, hn0, if_true, hm, List.take_length, hz]
    rfl
  · by_cases hB : 0 < n
    · -- point inside the digits
      rw [ecma_point neg ds n hne hA hB h2]
      obtain ⟨a, rfl⟩ : ∃ a : Nat, n = a := ⟨n.toNat, by omega⟩
      have hprec : ((ds.length : Int) - (a : Int)).toNat = ds.length - a := by omega
      have hpos : ds.length - a > 0 := by omega
      have hm : min ds.length a = a := by omega
      simp only [fmtF, hprec, hpos, if_true, hB, Int.toNat_natCast, hm, Nat.sub_self, List.replicate_zero, List.append_nil]
      rw [frac_inside ds a (by omega)]
      simp [sgn, dig_eq]
    · -- 0.000ddd
      rw [ecma_small neg ds n hne h1 (by omega)]
      obtain ⟨z, rfl⟩ : ∃ z : Nat, n = -(z : Int) := ⟨(-n).toNat, by omega⟩
      have hprec : ((ds.length : Int) - -(z : Int)).toNat = ds.length + z := by omega
      have hpos : ds.length + z > 0 := by omega
      have hn0 : ¬ (-(z : Int) > 0) := by omega
      simp only [fmtF, hprec, hpos, if_true, hn0, if_false]
      rw [frac_leading ds z]
      simp [sgn, dig_eq, zeros]

theorem layout_exp (neg : Bool) (ds : List Nat) (n : Int) (hne : ds ≠ []) (h : n ≤ -6 ∨ 21 < n)
    (hlo : -1000 < n - 1) (hhi : n - 1 < 1000) :
    appendFloat neg ds n = numberToString neg ds n := by
  rw [go_exp neg ds n hne h]
  obtain ⟨d, r, rfl⟩ : ∃ d r, ds = d :: r := by
    cases ds with
    | nil => exact absurd rfl hne
    | cons d r => exact ⟨d, r, rfl⟩
  have hx : n - 1 ≤ -7 ∨ 21 ≤ n - 1 := by omega
  by_cases hr : r = []
  · subst hr
    rw [ecma_exp1 neg d n h]
    have := exp_part (sgn neg ++ [digitByte d]) (n - 1) hx hlo hhi
    simp only [List.append_assoc] at this
    simp only [fmtE, List.length_cons, List.length_nil, Nat.zero_add, Nat.sub_self, Nat.lt_irrefl, if_false,
      List.append_nil, List.append_assoc]
    exact this
  · have hrl : 0 < r.length := List.length_pos_iff.2 hr
    rw [ecma_expk neg d r hr n h]
    have := exp_part (sgn neg ++ [digitByte d] ++ 46 :: r.map digitByte) (n - 1) hx hlo hhi
    have hk1 : (d :: r).length - 1 > 0 := by simp; omega
    have hm : min (d :: r).length ((d :: r).length - 1 + 1) = (d :: r).length := by simp
    have hz : (d :: r).length - 1 + 1 - max (d :: r).length 1 = 0 := by simp
    have hnd : ((d :: r).length == 0) = false := by simp
    simp only [fmtE, hk1, if_true, hm, List.take_length, hz, hnd, List.replicate_zero, List.append_nil,
      List.drop_one, List.tail_cons, Bool.false_eq_true, if_false]
    simp only [List.append_assoc, List.cons_append, List.nil_append, dig_eq] at this ⊢
    exact this

/-- jsonwire.AppendFloat lays the shortest digits out exactly as ECMA-262 Number::toString (−0 kept). -/
theorem appendFloat_eq_ecma (neg : Bool) (ds : List Nat) (n : Int) (h : WFD ds n) :
    appendFloat neg ds n = numberToString neg ds n := by
  obtain ⟨_, _, hz, hlo, hhi⟩ := h
  by_cases hne : ds = []
  · subst hne; rw [hz rfl]; exact layout_zero neg
  · by_cases hp : -6 < n ∧ n ≤ 21
    · exact layout_plain neg ds n hne hp.1 hp.2
    · exact layout_exp neg ds n hne (by omega) hlo hhi

end JsonV.Lemmas.NumFloat
