/-
Grammar lemmas for C08: the strict string grammar is contained in the lenient one, and a value of one grammar
instance is a value of another instance as soon as the two agree on the string literals that OCCUR in it (as infixes)
and on the keys of those literals.  Used for "AllowInvalidUTF8 only adds texts containing an ill-formed literal" and
for replacing the validator's name key by the unquoted name.
-/
import JsonV.Spec.Grammar

namespace JsonV.Lemmas.DupGrammar
open JsonV JsonV.Spec.Grammar

theorem JChar_mono {p : Bytes} (h : JChar true p) : JChar false p := by
  cases h with
  | plain c h1 h2 h3 h4 => exact .plain c h1 h2 h3 h4
  | utf8 p h => exact .utf8 p h
  | raw c hs _ => cases hs
  | esc c h => exact .esc c h
  | uni a b c d ha hb hc hd _ => exact .uni a b c d ha hb hc hd (fun h => by cases h)
  | pair a b c d e f g h h1 h2 h3 h4 h5 h6 h7 h8 h9 h10 => exact .pair a b c d e f g h h1 h2 h3 h4 h5 h6 h7 h8 h9 h10

theorem JChars_mono {p : Bytes} (h : JChars true p) : JChars false p := by
  induction h with
  | nil => exact .nil
  | cons c r hc _ ih => exact .cons c r (JChar_mono hc) ih

/-- Every strict string literal (well-formed UTF-8, paired surrogates) is a lenient one. -/
theorem JString_mono {p : Bytes} (h : JString true p) : JString false p := by
  obtain ⟨body, hb, rfl⟩ := h
  exact ⟨body, JChars_mono hb, rfl⟩

theorem infix_joinSep {x : Bytes} : ∀ {l : List Bytes}, x ∈ l → x <:+: joinSep l
  | [], h => by cases h
  | [y], h => by
    simp only [List.mem_singleton] at h
    subst h
    exact List.infix_refl _
  | y :: z :: r, h => by
    simp only [joinSep]
    rcases List.mem_cons.1 h with rfl | h'
    · exact ⟨[], [0x2C] ++ joinSep (z :: r), by simp⟩
    · obtain ⟨s, t, e⟩ := infix_joinSep (l := z :: r) h'
      exact ⟨y ++ [0x2C] ++ s, t, by rw [← e]; simp [List.append_assoc]⟩

theorem infix_bracket (o c : UInt8) (x inner : Bytes) (h : x <:+: inner) : x <:+: o :: (inner ++ [c]) := by
  obtain ⟨s, t, e⟩ := h
  exact ⟨o :: s, t ++ [c], by rw [← e]; simp [List.append_assoc]⟩

/-- Transfer between grammar instances that agree on the literals occurring in the value. -/
theorem jvalue_transfer (o1 o2 : GOpts) (K : Nat) (k1 k2 : Bytes → Bytes) (hdup : o1.allowDup = o2.allowDup) :
    ∀ (d : Nat) (v : Bytes), JValue o1 K k1 d v →
      (∀ q, q <:+: v → JString o1.strict q → JString o2.strict q ∧ k1 q = k2 q) → JValue o2 K k2 d v := by
  intro d v h
  induction h with
  | null d => intro _; exact .null d
  | true d => intro _; exact .true d
  | false d => intro _; exact .false d
  | num d p hp => intro _; exact .num d p hp
  | str d p hp => intro hs; exact .str d p (hs p (List.infix_refl _) hp).1
  | emptyArr d w hd hw => intro _; exact .emptyArr d w hd hw
  | emptyObj d w hd hw => intro _; exact .emptyObj d w hd hw
  | arr d elems hd hne hws _ ih =>
    intro hs
    refine .arr d elems hd hne hws (fun e he => ih e he (fun q hq => hs q ?_))
    refine List.IsInfix.trans hq ?_
    refine List.IsInfix.trans (?_ : e.2.1 <:+: e.1 ++ e.2.1 ++ e.2.2) ?_
    · exact ⟨e.1, e.2.2, rfl⟩
    · exact infix_bracket _ _ _ _ (infix_joinSep (List.mem_map.2 ⟨e, he, rfl⟩))
  | obj d mems hd hne hws _ hnd ih =>
    intro hs
    have hmem : ∀ m ∈ mems, (m.1 ++ m.2.1 ++ m.2.2.1 ++ [0x3A] ++ m.2.2.2.1 ++ m.2.2.2.2.1 ++ m.2.2.2.2.2) <:+:
        0x7B :: (joinSep (mems.map fun m =>
          m.1 ++ m.2.1 ++ m.2.2.1 ++ [0x3A] ++ m.2.2.2.1 ++ m.2.2.2.2.1 ++ m.2.2.2.2.2) ++ [0x7D]) :=
      fun m hm => infix_bracket _ _ _ _ (infix_joinSep (List.mem_map.2 ⟨m, hm, rfl⟩))
    have hname : ∀ m ∈ mems, JString o2.strict m.2.1 ∧ k1 m.2.1 = k2 m.2.1 := by
      intro m hm
      refine hs m.2.1 (List.IsInfix.trans ?_ (hmem m hm)) (hws m hm).2.1
      exact ⟨m.1, m.2.2.1 ++ [0x3A] ++ m.2.2.2.1 ++ m.2.2.2.2.1 ++ m.2.2.2.2.2, by simp [List.append_assoc]⟩
    refine .obj d mems hd hne ?_ ?_ ?_
    · intro m hm
      obtain ⟨h1, _, h3, h4, h5⟩ := hws m hm
      exact ⟨h1, (hname m hm).1, h3, h4, h5⟩
    · intro m hm
      refine ih m hm (fun q hq => hs q (List.IsInfix.trans hq (List.IsInfix.trans ?_ (hmem m hm))))
      exact ⟨m.1 ++ m.2.1 ++ m.2.2.1 ++ [0x3A] ++ m.2.2.2.1, m.2.2.2.2.2, by simp [List.append_assoc]⟩
    · rw [← hdup]
      rcases hnd with h | h
      · exact Or.inl h
      · right
        have : (mems.map fun m => k2 m.2.1) = (mems.map fun m => k1 m.2.1) :=
          List.map_congr_left (fun m hm => ((hname m hm).2).symm)
        rw [this]; exact h

theorem jtext_transfer (o1 o2 : GOpts) (K : Nat) (k1 k2 : Bytes → Bytes) (hdup : o1.allowDup = o2.allowDup)
    (b : Bytes) (h : JText o1 K k1 b)
    (hs : ∀ q, q <:+: b → JString o1.strict q → JString o2.strict q ∧ k1 q = k2 q) : JText o2 K k2 b := by
  obtain ⟨w1, v, w2, h1, hv, h2, rfl⟩ := h
  refine ⟨w1, v, w2, h1, ?_, h2, rfl⟩
  exact jvalue_transfer o1 o2 K k1 k2 hdup 0 v hv (fun q hq => hs q (List.IsInfix.trans hq ⟨w1, w2, rfl⟩))

end JsonV.Lemmas.DupGrammar
