/-
C07 helper lemmas, part 1: the wire.go trim helpers (Model/Flush.lean part (i)).
-/
import JsonV.Model.Flush

namespace JsonV.Model.Flush
open JsonV

/-- every byte is JSON whitespace -/
def WsOnly (ws : Bytes) : Prop := ∀ c ∈ ws, isWs c = true

/-- Every `"` of the string body is immediately preceded by a backslash.  This is the minimal hypothesis about the
string literal under which TrimSuffixString finds the opening quote; every valid JSON string body satisfies it
(`StrBody.quotesEscaped`). -/
def QuotesEscaped (body : Bytes) : Prop :=
  ∀ l1 l2, body = l1 ++ 0x22 :: l2 → ∃ l1', l1 = l1' ++ [0x5c]

/-- The body of a JSON string literal, over-approximated: unescaped bytes other than `"` and `\`, or a backslash
followed by any byte (`\"`, `\\`, `\n`, `\u` …; the four hex digits of `\uXXXX` are then plain bytes). -/
inductive StrBody : Bytes → Prop
  | nil : StrBody []
  | plain (c : UInt8) (rest : Bytes) : c ≠ 0x22 → c ≠ 0x5c → StrBody rest → StrBody (c :: rest)
  | esc (c : UInt8) (rest : Bytes) : StrBody rest → StrBody (0x5c :: c :: rest)

theorem StrBody.quotesEscaped {body : Bytes} (h : StrBody body) : QuotesEscaped body := by
  induction h with
  | nil => intro l1 l2 e; cases l1 <;> simp at e
  | plain c rest h1 h2 _ ih =>
    intro l1 l2 e
    cases l1 with
    | nil => simp at e; exact absurd e.1 h1
    | cons a l1t =>
      simp at e
      obtain ⟨l1', hl⟩ := ih l1t l2 e.2
      exact ⟨a :: l1', by simp [hl]⟩
  | esc c rest _ ih =>
    intro l1 l2 e
    match l1, e with
    | [], e => simp at e
    | [a], e => simp at e; exact ⟨[], by simp [e.1]⟩
    | a :: b :: l1t, e =>
      simp at e
      obtain ⟨l1', hl⟩ := ih l1t l2 e.2.2
      exact ⟨a :: b :: l1', by simp [hl]⟩

/-- `QuotesEscaped` seen from the end of the buffer. -/
def EscR : List UInt8 → Prop
  | [] => True
  | a :: r => (a = 0x22 → r.head? = some 0x5c) ∧ EscR r

theorem escR_of_quotesEscaped : ∀ (r : List UInt8), QuotesEscaped r.reverse → EscR r
  | [], _ => trivial
  | a :: r, h => by
    refine ⟨?_, escR_of_quotesEscaped r ?_⟩
    · intro ha
      obtain ⟨l1', hl⟩ := h r.reverse [] (by simp [ha])
      have : r = 0x5c :: l1'.reverse := by
        have := congrArg List.reverse hl
        simpa using this
      simp [this]
    · intro l1 l2 e
      exact h l1 (l2 ++ [a]) (by simp [e])

/-! #### whitespace -/

theorem trimWsR_append {ws : List UInt8} (h : ∀ c ∈ ws, isWs c = true) (r : List UInt8) :
    trimWsR (ws ++ r) = trimWsR r := by
  induction ws with
  | nil => rfl
  | cons a ws ih =>
    have ha : isWs a = true := h a (by simp)
    have : trimWsR (a :: (ws ++ r)) = trimWsR (ws ++ r) := by simp [trimWsR, List.dropWhile, ha]
    simpa [this] using ih (fun c hc => h c (by simp [hc]))

theorem trimWsR_cons_of_not_ws {a : UInt8} (h : isWs a = false) (r : List UInt8) :
    trimWsR (a :: r) = a :: r := by simp [trimWsR, List.dropWhile, h]

@[simp] theorem trimWsR_nil : trimWsR [] = [] := rfl

/-- The result of trimming never ends in whitespace. -/
theorem trimWsR_head (r : List UInt8) : ∀ c, (trimWsR r).head? = some c → isWs c = false := by
  induction r with
  | nil => intro c h; simp at h
  | cons a r ih =>
    intro c h
    cases ha : isWs a with
    | true => exact ih c (by simpa [trimWsR, List.dropWhile, ha] using h)
    | false =>
      have : c = a := by simpa [trimWsR, List.dropWhile, ha, eq_comm] using h
      simpa [this] using ha

/-- What was removed is whitespace only: `r = ws ++ trimWsR r`. -/
theorem trimWsR_decomp (r : List UInt8) : ∃ ws, (∀ c ∈ ws, isWs c = true) ∧ r = ws ++ trimWsR r := by
  induction r with
  | nil => exact ⟨[], by simp, rfl⟩
  | cons a r ih =>
    cases ha : isWs a with
    | true =>
      obtain ⟨ws, hws, e⟩ := ih
      refine ⟨a :: ws, ?_, ?_⟩
      · intro c hc; cases List.mem_cons.mp hc with
        | inl h => simpa [h] using ha
        | inr h => exact hws c h
      · have : trimWsR (a :: r) = trimWsR r := by simp [trimWsR, List.dropWhile, ha]
        rw [this]; simpa using e
    | false => exact ⟨[], by simp, by simp [trimWsR_cons_of_not_ws ha]⟩

/-! #### single bytes -/

@[simp] theorem trimByteR_cons_self (c : UInt8) (r : List UInt8) : trimByteR (c :: r) c = r := by
  simp [trimByteR]

theorem trimByteR_cons_ne {a c : UInt8} (h : a ≠ c) (r : List UInt8) : trimByteR (a :: r) c = a :: r := by
  simp [trimByteR, h]

@[simp] theorem trimByteR_nil (c : UInt8) : trimByteR [] c = [] := rfl

/-! #### strings -/

theorem scanOpenR_spec : ∀ (rb pr : List UInt8), EscR rb → pr.head? ≠ some 0x5c →
    scanOpenR (rb ++ 0x22 :: pr) = 0x22 :: pr
  | [], [], _, _ => by simp [scanOpenR]
  | [], b :: r, _, hp => by
    have : b ≠ 0x5c := by simpa using hp
    simp [scanOpenR, this]
  | [a], pr, h, hp => by
    have ha : a ≠ 0x22 := by
      intro e; have := h.1 e; simp at this
    have ih := scanOpenR_spec [] pr trivial hp
    simp only [List.cons_append, List.nil_append] at ih ⊢
    rw [scanOpenR]; simp [ha, ih]
  | a :: b :: rb, pr, h, hp => by
    have ih := scanOpenR_spec (b :: rb) pr h.2 hp
    have hc : (a == 0x22 && b != 0x5c) = false := by
      by_cases e : a = 0x22
      · have := h.1 e; simp at this; simp [this]
      · simp [e]
    simp only [List.cons_append] at ih ⊢
    rw [scanOpenR]; simp only [hc]; simpa using ih

theorem trimStringR_spec (rb pr : List UInt8) (h : EscR rb) (hp : pr.head? ≠ some 0x5c) :
    trimStringR (0x22 :: (rb ++ 0x22 :: pr)) = pr := by
  simp only [trimStringR, trimByteR_cons_self]
  rw [scanOpenR_spec rb pr h hp]; simp

end JsonV.Model.Flush
