/-
Helper lemmas for C02, part 2: the fragments of `Model/EncInv` are values, and values compose into
arrays and objects (for lists of any length).
-/
import JsonV.Lemmas.EncInvL
import JsonV.Model.EncInv

namespace JsonV.Lemmas.EncInvCompose
open JsonV JsonV.Spec.ValidJson JsonV.Lemmas.EncInvL JsonV.Model.EncInv

theorem digit_ofNat (k : Nat) (h : k < 10) : isDigit (UInt8.ofNat (0x30 + k)) = true := by
  have : k = 0 ∨ k = 1 ∨ k = 2 ∨ k = 3 ∨ k = 4 ∨ k = 5 ∨ k = 6 ∨ k = 7 ∨ k = 8 ∨ k = 9 := by omega
  rcases this with h|h|h|h|h|h|h|h|h|h <;> subst h <;> decide

theorem digit_ofNat_zero (k : Nat) (h : k < 10) (hz : UInt8.ofNat (0x30 + k) = 0x30) : k = 0 := by
  have : k = 0 ∨ k = 1 ∨ k = 2 ∨ k = 3 ∨ k = 4 ∨ k = 5 ∨ k = 6 ∨ k = 7 ∨ k = 8 ∨ k = 9 := by omega
  rcases this with h|h|h|h|h|h|h|h|h|h <;> subst h <;> first | rfl | (exact absurd hz (by decide))

theorem natDigits_digits (n : Nat) : ∀ c ∈ natDigits n, isDigit c = true := by
  fun_induction natDigits n with
  | case1 n h => intro c hc; rw [List.mem_singleton] at hc; subst hc; exact digit_ofNat n h
  | case2 n h ih =>
    intro c hc
    rw [List.mem_append, List.mem_singleton] at hc
    rcases hc with hc | hc
    · exact ih c hc
    · subst hc; exact digit_ofNat (n % 10) (by omega)

theorem natDigits_ne_nil (n : Nat) : natDigits n ≠ [] := by
  fun_induction natDigits n <;> simp

/-- no leading zero: the first digit is '0' only for the number 0 -/
theorem natDigits_head (n : Nat) : ∀ d ds, natDigits n = d :: ds → d = 0x30 → n = 0 := by
  fun_induction natDigits n with
  | case1 n h => intro d ds e hz; exact digit_ofNat_zero n h ((List.cons.inj e).1.trans hz)
  | case2 n h ih =>
    intro d ds e hz
    cases hq : natDigits (n / 10) with
    | nil => exact absurd hq (natDigits_ne_nil _)
    | cons d' ds' =>
      rw [hq, List.cons_append] at e
      have := ih d' ds' hq ((List.cons.inj e).1.trans hz)
      omega

theorem dropDigits_all (s : Bytes) (h : ∀ c ∈ s, isDigit c = true) : dropDigits s = [] := by
  induction s with
  | nil => rfl
  | cons c s ih => simp [dropDigits, h c (by simp)]; exact ih (fun c hc => h c (by simp [hc]))

theorem digit_ne (c : UInt8) (h : isDigit c = true) :
    c ≠ 0x22 ∧ c ≠ 0x5b ∧ c ≠ 0x7b ∧ c ≠ 0x6e ∧ c ≠ 0x74 ∧ c ≠ 0x66 ∧ c ≠ 0x2d ∧ c ≠ 0x5d ∧ c ≠ 0x7d := by
  refine ⟨?_, ?_, ?_, ?_, ?_, ?_, ?_, ?_, ?_⟩ <;> (rintro rfl; simp [isDigit] at h)

theorem pNumber_natDigits (n : Nat) : pNumber (natDigits n) = some [] := by
  cases hq : natDigits n with
  | nil => exact absurd hq (natDigits_ne_nil _)
  | cons d ds =>
    have hd := natDigits_digits n
    rw [hq] at hd
    have hd0 := hd d (by simp)
    have hds : ∀ c ∈ ds, isDigit c = true := fun c hc => hd c (by simp [hc])
    have hne := (digit_ne d hd0).2.2.2.2.2.2.1
    unfold pNumber
    simp only [hne, if_false]
    by_cases hz : d = 0x30
    · have := natDigits_head n d ds hq hz
      subst this
      have : natDigits 0 = [0x30] := by rw [natDigits]; simp
      rw [this] at hq
      obtain ⟨h1, h2⟩ := List.cons.inj hq
      subst h2
      simp [pInt, hz, pFrac, pExp]
    · simp [pInt, hz, hd0, dropDigits_all ds hds, pFrac, pExp]

theorem pNumber_neg (d : UInt8) (ds : Bytes) (hd : isDigit d = true) (h : pNumber (d :: ds) = some []) :
    pNumber (0x2d :: d :: ds) = some [] := by
  have hne := (digit_ne d hd).2.2.2.2.2.2.1
  unfold pNumber at h ⊢
  simpa [hne] using h

/-- A number literal is a value at every depth. -/
theorem validAt_number (o : Opt) (d : Nat) (c : UInt8) (s : Bytes) (hc : isDigit c = true ∨ c = 0x2d)
    (h : pNumber (c :: s) = some []) : validAt o d (c :: s) = true := by
  have hne : c ≠ 0x22 ∧ c ≠ 0x5b ∧ c ≠ 0x7b ∧ c ≠ 0x6e ∧ c ≠ 0x74 ∧ c ≠ 0x66 := by
    rcases hc with hc | rfl
    · have := digit_ne c hc; exact ⟨this.1, this.2.1, this.2.2.1, this.2.2.2.1, this.2.2.2.2.1, this.2.2.2.2.2.1⟩
    · decide
  unfold validAt parse
  simp [hne.1, hne.2.1, hne.2.2.1, hne.2.2.2.1, hne.2.2.2.2.1, hne.2.2.2.2.2, h]

theorem validAt_natDigits (o : Opt) (d n : Nat) : validAt o d (natDigits n) = true := by
  cases hq : natDigits n with
  | nil => exact absurd hq (natDigits_ne_nil _)
  | cons c s =>
    have hd := natDigits_digits n c (by simp [hq])
    exact validAt_number o d c s (.inl hd) (hq ▸ pNumber_natDigits n)

theorem validAt_intDigits (o : Opt) (d : Nat) (i : Int) : validAt o d (intDigits i) = true := by
  unfold intDigits
  split
  · cases hq : natDigits i.natAbs with
    | nil => exact absurd hq (natDigits_ne_nil _)
    | cons c s =>
      have hd := natDigits_digits i.natAbs c (by simp [hq])
      exact validAt_number o d 0x2d (c :: s) (.inr rfl) (pNumber_neg c s hd (hq ▸ pNumber_natDigits _))
  · exact validAt_natDigits o d _

theorem validAt_null (o : Opt) (d : Nat) : validAt o d [0x6e, 0x75, 0x6c, 0x6c] = true := by
  unfold validAt parse; simp [lit]
theorem validAt_true (o : Opt) (d : Nat) : validAt o d [0x74, 0x72, 0x75, 0x65] = true := by
  unfold validAt parse; simp [lit]
theorem validAt_false (o : Opt) (d : Nat) : validAt o d [0x66, 0x61, 0x6c, 0x73, 0x65] = true := by
  unfold validAt parse; simp [lit]
theorem validAt_emptyArr (o : Opt) (d : Nat) (h : d < o.maxDepth) : validAt o d [0x5b, 0x5d] = true := by
  unfold validAt parse; simp [h]
theorem validAt_emptyObj (o : Opt) (d : Nat) (h : d < o.maxDepth) : validAt o d [0x7b, 0x7d] = true := by
  unfold validAt parse; simp [h]
theorem invalid_beyond_maxDepth (o : Opt) (d : Nat) (h : ¬ d < o.maxDepth) (c : UInt8) (hc : c = 0x5b ∨ c = 0x7b)
    (s : Bytes) : validAt o d (c :: s) = false := by
  rcases hc with rfl | rfl <;> (unfold validAt parse; simp [h])

theorem validAt_string (o : Opt) (d : Nat) (s : Bytes) (h : validString o s = true) : validAt o d s = true := by
  cases s with
  | nil => simp [validString] at h
  | cons c r =>
    simp [validString] at h
    obtain ⟨rfl, h2⟩ := h
    unfold validAt parse; simp [h2]

/-! ### composition -/

theorem validAt_iff (o : Opt) (d : Nat) (x : Bytes) : validAt o d x = true ↔ parse o .value d x = some [] := by
  simp [validAt]

theorem value_ne_nil (o : Opt) (d : Nat) (x : Bytes) (h : validAt o d x = true) : x ≠ [] := by
  rintro rfl; rw [validAt_iff] at h; unfold parse at h; simp at h

/-- a value never starts with `]` or `}` -/
theorem value_head (o : Opt) (d : Nat) (c : UInt8) (s t : Bytes) (h : parse o .value d (c :: s) = some t) :
    c ≠ 0x5d ∧ c ≠ 0x7d := by
  constructor <;> (rintro rfl; unfold parse at h; simp [pNumber, pInt, isDigit] at h)

/-- one step of the element loop -/
theorem elem_step (o : Opt) (d : Nat) (x tail : Bytes) (c : UInt8) (hx : validAt o d x = true)
    (hc : c = 0x2c ∨ c = 0x5d) :
    parse o .elems d (x ++ c :: tail) = if c = 0x2c then parse o .elems d tail else some tail := by
  rw [validAt_iff] at hx
  have e := parse_append o .value d x (c :: tail) [] hx (fun _ => by
    rcases hc with rfl | rfl
    · exact okFollow_comma _
    · exact okFollow_rbracket _)
  rw [parse]
  simp only [e, List.nil_append]
  have : tail.length < x.length + (tail.length + 1) := by omega
  rcases hc with rfl | rfl <;> simp [this] <;> omega

theorem elems_compose (o : Opt) (d : Nat) : ∀ (xs : List Bytes) (r : Bytes), xs ≠ [] →
    (∀ x ∈ xs, validAt o d x = true) → parse o .elems d (joinElems xs ++ 0x5d :: r) = some r
  | [], _, h, _ => absurd rfl h
  | [x], r, _, hx => by
    simp only [joinElems]
    rw [elem_step o d x r 0x5d (hx x (by simp)) (.inr rfl)]; simp
  | x :: y :: ys, r, _, hx => by
    simp only [joinElems, List.append_assoc, List.cons_append]
    rw [elem_step o d x _ 0x2c (hx x (by simp)) (.inl rfl)]
    simp only [if_true]
    exact elems_compose o d (y :: ys) r (by simp) (fun z hz => hx z (by simp at hz ⊢; exact .inr hz))

theorem joinElems_cons_head (c : UInt8) (x' : Bytes) (xs : List Bytes) :
    ∃ r', joinElems ((c :: x') :: xs) = c :: r' := by
  cases xs with
  | nil => exact ⟨x', rfl⟩
  | cons y ys => exact ⟨x' ++ 0x2c :: joinElems (y :: ys), rfl⟩

/-- `[` x₁ `,` … `,` xₙ `]` is a value when every xᵢ is a value one level deeper (any n, including 0). -/
theorem array_compose' (o : Opt) (d : Nat) (xs : List Bytes) (hd : d < o.maxDepth)
    (h : ∀ x ∈ xs, validAt o (d + 1) x = true) : validAt o d (arr xs) = true := by
  cases xs with
  | nil => exact validAt_emptyArr o d hd
  | cons x xs' =>
    have hx := h x (by simp)
    cases x with
    | nil => exact absurd rfl (value_ne_nil o _ _ hx)
    | cons c x' =>
      obtain ⟨r', hr'⟩ := joinElems_cons_head c x' xs'
      have hc := (value_head o (d + 1) c x' [] ((validAt_iff _ _ _).mp hx)).1
      have e := elems_compose o (d + 1) ((c :: x') :: xs') [] (by simp) h
      rw [hr'] at e
      rw [validAt_iff]
      unfold arr
      rw [hr', List.cons_append, parse]
      simp only [hd, hc, if_true, if_false]
      simpa using e

/-- one step of the member loop -/
theorem member_step (o : Opt) (d : Nat) (nm v tail : Bytes) (seen : List Bytes) (c : UInt8)
    (hn : validString o nm = true) (hv : validAt o d v = true) (hc : c = 0x2c ∨ c = 0x7d)
    (hk : o.noDup = true → o.key nm ∉ seen) :
    parse o (.members seen) d (nm ++ 0x3a :: (v ++ c :: tail)) =
      if c = 0x2c then parse o (.members (o.key nm :: seen)) d tail else some tail := by
  cases nm with
  | nil => simp [validString] at hn
  | cons q body =>
    simp [validString] at hn
    obtain ⟨rfl, hb⟩ := hn
    rw [validAt_iff] at hv
    have e1 := strBody_append o.strict body (0x3a :: (v ++ c :: tail)) [] hb
    have e2 := parse_append o .value d v (c :: tail) [] hv (fun _ => by
      rcases hc with rfl | rfl
      · exact okFollow_comma _
      · exact okFollow_rbrace _)
    have hlen1 : (v ++ c :: tail).length < (body ++ 0x3a :: (v ++ c :: tail)).length := by simp; omega
    have hlen2 : tail.length < (v ++ c :: tail).length := by simp; omega
    have htake : List.take ((body ++ 0x3a :: (v ++ c :: tail)).length - (v ++ c :: tail).length)
        (0x22 :: (body ++ 0x3a :: (v ++ c :: tail))) = 0x22 :: body := by
      have : (body ++ 0x3a :: (v ++ c :: tail)).length - (v ++ c :: tail).length = (0x22 :: body).length := by
        simp; omega
      rw [this, ← List.cons_append, List.take_left']
      rfl
    have hk' : (o.noDup && seen.contains (o.key (0x22 :: body))) = false := by
      cases hnd : o.noDup with
      | false => simp
      | true => simpa using hk hnd
    simp only [List.cons_append]
    rw [parse]
    simp only [e1, List.nil_append, true_and, hlen1, htake, hk', e2, hlen2, if_true]
    rcases hc with rfl | rfl <;> simp

theorem members_compose (o : Opt) (d : Nat) : ∀ (ms : List (Bytes × Bytes)) (seen : List Bytes) (r : Bytes),
    ms ≠ [] → (∀ m ∈ ms, validString o m.1 = true ∧ validAt o d m.2 = true) →
    (o.noDup = true → (ms.map fun m => o.key m.1).Nodup ∧ ∀ m ∈ ms, o.key m.1 ∉ seen) →
    parse o (.members seen) d (joinElems (ms.map member) ++ 0x7d :: r) = some r
  | [], _, _, h, _, _ => absurd rfl h
  | [m], seen, r, _, hm, hk => by
    simp only [List.map, joinElems, member, List.append_assoc, List.cons_append]
    rw [member_step o d m.1 m.2 r seen 0x7d (hm m (by simp)).1 (hm m (by simp)).2 (.inr rfl)
      (fun hnd => (hk hnd).2 m (by simp))]
    simp
  | m :: m2 :: ms, seen, r, _, hm, hk => by
    simp only [List.map, joinElems, member, List.append_assoc, List.cons_append]
    rw [member_step o d m.1 m.2 _ seen 0x2c (hm m (by simp)).1 (hm m (by simp)).2 (.inl rfl)
      (fun hnd => (hk hnd).2 m (by simp))]
    simp only [if_true]
    have ih := members_compose o d (m2 :: ms) (o.key m.1 :: seen) r (by simp)
      (fun z hz => hm z (by simp at hz ⊢; exact .inr hz))
      (fun hnd => by
        obtain ⟨hnod, hseen⟩ := hk hnd
        simp only [List.map_cons, List.nodup_cons] at hnod
        refine ⟨by simpa using hnod.2, ?_⟩
        intro z hz
        simp only [List.mem_cons, not_or]
        refine ⟨?_, hseen z (by simp at hz ⊢; exact .inr hz)⟩
        intro heq
        apply hnod.1
        simp only [List.mem_cons, List.mem_map] at hz ⊢
        rcases hz with rfl | hz
        · exact .inl heq.symm
        · exact .inr ⟨z, hz, heq⟩)
    simpa [List.map, member] using ih

/-- `{` n₁ `:` v₁ `,` … `}` is a value when every nᵢ is a string literal, every vᵢ a value one level deeper,
and (under the no-duplicates option) the names are pairwise distinct as JSON strings. -/
theorem object_compose' (o : Opt) (d : Nat) (ms : List (Bytes × Bytes)) (hd : d < o.maxDepth)
    (h : ∀ m ∈ ms, validString o m.1 = true ∧ validAt o (d + 1) m.2 = true)
    (hk : o.noDup = true → (ms.map fun m => o.key m.1).Nodup) : validAt o d (obj ms) = true := by
  cases ms with
  | nil => exact validAt_emptyObj o d hd
  | cons m ms' =>
    have hm := (h m (by simp)).1
    cases hn : m.1 with
    | nil => simp [hn, validString] at hm
    | cons q body =>
      have hq : q = 0x22 := by simp [hn, validString] at hm; exact hm.1
      have e := members_compose o (d + 1) (m :: ms') [] [] (by simp) h (fun hnd => ⟨hk hnd, by simp⟩)
      obtain ⟨r', hr'⟩ : ∃ r', joinElems ((m :: ms').map member) = 0x22 :: r' := by
        have : member m = 0x22 :: (body ++ 0x3a :: m.2) := by simp [member, hn, hq]
        simp only [List.map_cons, this]
        exact joinElems_cons_head _ _ _
      rw [hr'] at e
      rw [validAt_iff]
      unfold obj
      rw [hr', List.cons_append, parse]
      simp only [hd, if_true]
      simpa using e

end JsonV.Lemmas.EncInvCompose
