/-
C02, part 7: the tree theorem stated directly against the grammar of slice C01 — every well-formed
`OutTree` of fragments renders to a `JValue` (hence a `JText`), given only that `quote` returns `JString`s.
No recogniser is involved here.
-/
import JsonV.Lemmas.EncInvSound
import JsonV.Lemmas.EncInvCompose

namespace JsonV.Lemmas.EncInvGrammar
open JsonV JsonV.Spec.ValidJson JsonV.Spec.Grammar JsonV.Model.EncInv
open JsonV.Lemmas.EncInvSound JsonV.Lemmas.EncInvCompose

theorem joinElems_eq_joinSep : ∀ xs : List Bytes, joinElems xs = joinSep xs
  | [] => rfl
  | [_] => rfl
  | x :: y :: ys => by simp [joinElems, joinSep, joinElems_eq_joinSep (y :: ys)]

theorem jnumber_of_pNumber (lit : Bytes) (h : pNumber lit = some []) : JNumber lit := by
  obtain ⟨p, hp, hn⟩ := pNumber_sound h
  simp at hp; subst hp; exact hn

theorem jnumber_natDigits (n : Nat) : JNumber (natDigits n) := jnumber_of_pNumber _ (pNumber_natDigits n)

theorem jnumber_intDigits (i : Int) : JNumber (intDigits i) := by
  unfold intDigits
  split
  · cases hq : natDigits i.natAbs with
    | nil => exact absurd hq (natDigits_ne_nil _)
    | cons c s =>
      have hd := natDigits_digits i.natAbs c (by simp [hq])
      exact jnumber_of_pNumber _ (pNumber_neg c s hd (hq ▸ pNumber_natDigits _))
  · exact jnumber_natDigits _

/-- Every fragment is a value of the grammar. -/
theorem frag_jvalue (o : Opt) (quote : Bytes → Bytes) (hq : ∀ s, JString o.strict (quote s)) (f : Frag) (d : Nat)
    (hd : d + f.depth ≤ o.maxDepth) : JV o d (f.bytes quote) := by
  cases f with
  | null => exact .null d
  | bool b => cases b
              · exact .false d
              · exact .true d
  | int i => exact .num d _ (jnumber_intDigits i)
  | uint n => exact .num d _ (jnumber_natDigits n)
  | str s => exact .str d _ (hq s)
  | num lit h => exact .num d _ (jnumber_of_pNumber lit h)
  | emptyObj =>
    have : d < o.maxDepth := by simp [Frag.depth] at hd; omega
    simpa [Frag.bytes] using JValue.emptyObj (o := gopts o) (key := o.key) d [] this jws_nil
  | emptyArr =>
    have : d < o.maxDepth := by simp [Frag.depth] at hd; omega
    simpa [Frag.bytes] using JValue.emptyArr (o := gopts o) (key := o.key) d [] this jws_nil

theorem arr_jvalue (o : Opt) (d : Nat) (xs : List Bytes) (hd : d < o.maxDepth) (h : ∀ x ∈ xs, JV o (d + 1) x) :
    JV o d (arr xs) := by
  cases xs with
  | nil => simpa [arr, joinElems] using JValue.emptyArr (o := gopts o) (key := o.key) d [] hd jws_nil
  | cons x xs' =>
    unfold arr; rw [joinElems_eq_joinSep]
    exact arr_of_values o d (x :: xs') hd (by simp) h

theorem obj_jvalue (o : Opt) (d : Nat) (ms : List (Bytes × Bytes)) (hd : d < o.maxDepth)
    (h : ∀ m ∈ ms, JString o.strict m.1 ∧ JV o (d + 1) m.2)
    (hk : o.noDup = true → (ms.map fun m => o.key m.1).Nodup) : JV o d (obj ms) := by
  cases ms with
  | nil => simpa [obj, joinElems] using JValue.emptyObj (o := gopts o) (key := o.key) d [] hd jws_nil
  | cons m ms' =>
    unfold obj; rw [joinElems_eq_joinSep]
    exact obj_of_members o d (m :: ms') hd (by simp) h hk

mutual
theorem render_jvalue (o : Opt) (quote : Bytes → Bytes) (hq : ∀ s, JString o.strict (quote s)) :
    ∀ (t : OutTree) (d : Nat), t.WellFormed o quote → d + t.depth ≤ o.maxDepth → JV o d (t.render quote)
  | .atom f, d, _, hd => by simpa [OutTree.render] using frag_jvalue o quote hq f d (by simpa [OutTree.depth] using hd)
  | .arr ts, d, hw, hd => by
    simp only [OutTree.depth] at hd
    simp only [OutTree.render]
    exact arr_jvalue o d _ (by omega)
      (renderList_jvalue o quote hq ts (d + 1) (by simpa [OutTree.WellFormed] using hw) (by omega))
  | .obj ms, d, hw, hd => by
    simp only [OutTree.depth] at hd
    simp only [OutTree.WellFormed] at hw
    simp only [OutTree.render]
    exact obj_jvalue o d _ (by omega) (renderMembers_jvalue o quote hq ms (d + 1) hw.1 (by omega)) hw.2
theorem renderList_jvalue (o : Opt) (quote : Bytes → Bytes) (hq : ∀ s, JString o.strict (quote s)) :
    ∀ (ts : List OutTree) (d : Nat), wfList o quote ts → d + depthList ts ≤ o.maxDepth →
      ∀ x ∈ renderList quote ts, JV o d x
  | [], _, _, _ => by simp [renderList]
  | t :: ts, d, hw, hd => by
    simp only [wfList] at hw
    simp only [depthList] at hd
    intro x hx
    simp only [renderList, List.mem_cons] at hx
    rcases hx with rfl | hx
    · exact render_jvalue o quote hq t d hw.1 (by omega)
    · exact renderList_jvalue o quote hq ts d hw.2 (by omega) x hx
theorem renderMembers_jvalue (o : Opt) (quote : Bytes → Bytes) (hq : ∀ s, JString o.strict (quote s)) :
    ∀ (ms : List (Bytes × OutTree)) (d : Nat), wfMembers o quote ms → d + depthMembers ms ≤ o.maxDepth →
      ∀ m ∈ renderMembers quote ms, JString o.strict m.1 ∧ JV o d m.2
  | [], _, _, _ => by simp [renderMembers]
  | (n, t) :: ms, d, hw, hd => by
    simp only [wfMembers] at hw
    simp only [depthMembers] at hd
    intro m hm
    simp only [renderMembers, List.mem_cons] at hm
    rcases hm with rfl | hm
    · exact ⟨hq n, render_jvalue o quote hq t d hw.1 (by omega)⟩
    · exact renderMembers_jvalue o quote hq ms d hw.2 (by omega) m hm
end

end JsonV.Lemmas.EncInvGrammar
