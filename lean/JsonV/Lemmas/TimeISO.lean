/-
ISO 8601 durations, part 1: `cutBytes`, and the two halves of `mayParseUnit` on canonical input.
Core Lean only.  Every lemma unfolds ONE small model function.
-/
import JsonV.Lemmas.TimeInt

namespace JsonV.Model.Time
open JsonV

/-! ### cutBytes -/

theorem cutBytes_absent (ca cb : UInt8) (b : Bytes) (h : ∀ c ∈ b, c ≠ ca ∧ c ≠ cb) : cutBytes ca cb b = (b, [], false) := by
  induction b with
  | nil => rfl
  | cons x xs ih =>
    have hx := h x (List.mem_cons_self)
    have : ¬ (x = ca ∨ x = cb) := by intro e; cases e with
      | inl e => exact hx.1 e
      | inr e => exact hx.2 e
    rw [cutBytes, if_neg this, ih (fun c hc => h c (List.mem_cons_of_mem _ hc))]

theorem cutBytes_present (ca cb : UInt8) (pre rest : Bytes) (h : ∀ c ∈ pre, c ≠ ca ∧ c ≠ cb) :
    cutBytes ca cb (pre ++ ca :: rest) = (pre, rest, true) := by
  induction pre with
  | nil => simp [cutBytes]
  | cons x xs ih =>
    have hx := h x (List.mem_cons_self)
    have : ¬ (x = ca ∨ x = cb) := by intro e; cases e with
      | inl e => exact hx.1 e
      | inr e => exact hx.2 e
    rw [List.cons_append, cutBytes, if_neg this, ih (fun c hc => h c (List.mem_cons_of_mem _ hc))]

theorem cutBytes_head (ca cb : UInt8) (rest : Bytes) : cutBytes ca cb (ca :: rest) = ([], rest, true) := by
  simp [cutBytes]

theorem digits_avoid {ds : Bytes} (hd : ds.all isDigit = true) {a b : UInt8}
    (ha : a.toNat < 48 ∨ 57 < a.toNat) (hb : b.toNat < 48 ∨ 57 < b.toNat) : ∀ c ∈ ds, c ≠ a ∧ c ≠ b := by
  intro c hc
  have := List.all_eq_true.mp hd c hc
  exact ⟨digit_ne this ha, digit_ne this hb⟩

theorem trimLeadingZeros_natDigits (x : Nat) : trimLeadingZeros (natDigits x) = natDigits x := by
  have hh := natDigits_head_ok x
  cases hd : natDigits x with
  | nil => rfl
  | cons c cs =>
    cases cs with
    | nil => rfl
    | cons d rest =>
      rw [hd] at hh
      have hne : c ≠ c0 := by
        intro e
        apply hh
        refine ⟨by simp [e], ?_⟩
        simp [strZero]
      rw [trimLeadingZeros, if_neg hne]

/-! ### the two halves of mayParseUnit -/

/-- a clean state: no flag raised, `a` nanoseconds accumulated, `sf` = a fraction has been seen. -/
def cleanSt (a : Nat) (sf : Bool) : IsoSt := ⟨false, false, false, sf, a, false⟩

theorem unitWhole_digits (a x unit : Nat) (sf : Bool) (hunit : ¬ unit > hourNs) (hsum : a + x * unit < U64) (hx : x < U64) :
    unitWhole (cleanSt a sf) (natDigits x) unit = cleanSt (a + x * unit) sf := by
  have hmul : mul64 x unit = (0, x * unit) := by
    simp only [mul64]; rw [Nat.div_eq_of_lt (by omega), Nat.mod_eq_of_lt (by omega)]
  have hadd : add64 a (x * unit) 0 = (a + x * unit, 0) := by
    simp only [add64, Nat.add_zero]; rw [Nat.div_eq_of_lt hsum, Nat.mod_eq_of_lt hsum]
  have hdec : decide (unit > hourNs) = false := by simp [hunit]
  unfold unitWhole cleanSt
  simp only [trimLeadingZeros_natDigits, parseUint_natDigits hx, hmul, hadd, hdec]
  rfl

theorem unitFrac_second (ff : FloatFrac) (a f : Nat) (ds : Bytes) (hne : ds ≠ [])
    (hpad : parsePaddedBase10 ds secondNs = (f, true)) (hsum : a + f < U64) :
    unitFrac ff (cleanSt a false) ds secondNs = cleanSt (a + f) true := by
  have hadd : add64 a f 0 = (a + f, 0) := by
    simp only [add64, Nat.add_zero]; rw [Nat.div_eq_of_lt hsum, Nat.mod_eq_of_lt hsum]
  have hlen : decide (ds.length = 0) = false := by
    cases ds with
    | nil => exact absurd rfl hne
    | cons _ _ => rfl
  have hu : decide (secondNs > hourNs) = false := by decide
  unfold unitFrac cleanSt
  simp only [if_true, hpad, hlen, hu, hadd]
  rfl

/-! ### one unit of the writer's output through mayParseUnit -/

/-- designator absent (and no fraction seen): nothing happens. -/
theorem mayParseUnit_absent (ff : FloatFrac) (st : IsoSt) (b : Bytes) (hi lo : UInt8) (unit : Nat)
    (h : ∀ c ∈ b, c ≠ hi ∧ c ≠ lo) : mayParseUnit ff st b hi lo unit = (st, b) := by
  have hc := cutBytes_absent hi lo b h
  unfold mayParseUnit
  simp only [hc]
  simp

/-- `digits(x) des rest` with an accurate unit and no fraction: `x * unit` is added. -/
theorem mayParseUnit_whole (ff : FloatFrac) (a x : Nat) (rest : Bytes) (hi lo : UInt8) (unit : Nat)
    (hhi : hi.toNat < 48 ∨ 57 < hi.toNat) (hlo : lo.toNat < 48 ∨ 57 < lo.toNat)
    (hunit : ¬ unit > hourNs) (hsum : a + x * unit < U64) (hx : x < U64) :
    mayParseUnit ff (cleanSt a false) (natDigits x ++ hi :: rest) hi lo unit = (cleanSt (a + x * unit) false, rest) := by
  have hc1 := cutBytes_present hi lo _ rest (digits_avoid (natDigits_allDigits x) hhi hlo)
  have hc2 := cutBytes_absent cDot cComma _ (digits_avoid (natDigits_allDigits x)
    (by decide : cDot.toNat < 48 ∨ 57 < cDot.toNat) (by decide : cComma.toNat < 48 ∨ 57 < cComma.toNat))
  have hw := unitWhole_digits a x unit false hunit hsum hx
  have hsf : (cleanSt a false).sawFrac = false := rfl
  unfold mayParseUnit
  simp only [hc1, hc2, hsf]
  simp
  exact hw

/-- seconds with a fraction: `digits(x) . ds S rest`. -/
theorem mayParseUnit_secFrac (ff : FloatFrac) (a x f : Nat) (ds rest : Bytes) (hne : ds ≠ [])
    (hds : ds.all isDigit = true) (hpad : parsePaddedBase10 ds secondNs = (f, true))
    (hsum : a + f + x * secondNs < U64) (hx : x < U64) :
    mayParseUnit ff (cleanSt a false) (natDigits x ++ (cDot :: ds) ++ 83 :: rest) 83 115 secondNs
      = (cleanSt (a + f + x * secondNs) true, rest) := by
  have hav : ∀ c ∈ natDigits x ++ (cDot :: ds), c ≠ (83 : UInt8) ∧ c ≠ (115 : UInt8) := by
    intro c hc
    rcases List.mem_append.mp hc with h | h
    · exact digits_avoid (natDigits_allDigits x) (by decide) (by decide) c h
    · rcases List.mem_cons.mp h with h | h
      · subst h; decide
      · exact digits_avoid hds (by decide) (by decide) c h
  have hc1 := cutBytes_present 83 115 _ rest hav
  have hc2 := cutBytes_present cDot cComma _ ds (digits_avoid (natDigits_allDigits x)
    (by decide : cDot.toNat < 48 ∨ 57 < cDot.toNat) (by decide : cComma.toNat < 48 ∨ 57 < cComma.toNat))
  have hf := unitFrac_second ff a f ds hne hpad (by omega)
  have hw := unitWhole_digits (a + f) x secondNs true (by decide) hsum hx
  have hsf : (cleanSt a false).sawFrac = false := rfl
  unfold mayParseUnit
  simp only [hc1, hc2, hsf, hf]
  simp
  exact hw

end JsonV.Model.Time
