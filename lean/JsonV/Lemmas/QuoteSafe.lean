/-
C11 lemmas: with EscapeForHTML the quote loop emits no raw `<` `>` `&`; with EscapeForJS it emits no raw
U+2028 / U+2029 (for every input, well-formed or not).  Core Lean only.
-/
import JsonV.Lemmas.QuoteL

namespace JsonV.Lemmas.QuoteSafe
open JsonV JsonV.Model.Utf8 JsonV.Model.Quote JsonV.Lemmas.QuoteUtf8 JsonV.Lemmas.QuoteL JsonV.Spec.StringSpec

/-! ### HTML -/

/-- no raw `<`, `>`, `&` -/
def noHTML (l : Bytes) : Prop := ∀ b ∈ l, isHTMLChar b.toNat = false

theorem noHTML_append {a b : Bytes} (ha : noHTML a) (hb : noHTML b) : noHTML (a ++ b) := by
  intro x hx; rcases List.mem_append.mp hx with h | h
  · exact ha x h
  · exact hb x h

theorem table_zero_noHTML : ∀ c : Fin 128, escapeASCII c.val = 0 → isHTMLChar c.val = false := by decide +kernel
theorem escaped_noHTML : ∀ c : Fin 128, (appendEscapedASCII c.val).all (fun b => !isHTMLChar b.toNat) = true := by decide +kernel

theorem quoteStep_noHTML (js : Bool) (c : UInt8) (t : Bytes) : noHTML (quoteStep true js c t).1 := by
  by_cases h0 : c.toNat < runeSelf
  · have h128 : c.toNat < 128 := h0
    simp only [quoteStep, h0, ↓reduceIte, Bool.or_true]
    split
    · rename_i h; intro b hb; simp only [List.mem_singleton] at hb; rw [hb]
      exact table_zero_noHTML ⟨c.toNat, h128⟩ h
    · intro b hb
      have := escaped_noHTML ⟨c.toNat, h128⟩
      simp only [List.all_eq_true, Bool.not_eq_eq_eq_not, Bool.not_true] at this
      exact this b hb
  · have hhigh := decodeRune_take_high c t h0
    have hT : noHTML ((c :: t).take (decodeRune (c :: t)).2) := by
      intro b hb; have := hhigh b hb
      simp [isHTMLChar]; omega
    simp only [quoteStep, h0, ↓reduceIte]
    repeat' split
    · exact hT
    · intro b hb; simp [utf8FFFD] at hb; rcases hb with h | h | h <;> subst h <;> decide
    · rename_i h
      have e1 : noHTML (appendEscapedUnicode 0x2028) := by intro b; revert b; decide
      have e2 : noHTML (appendEscapedUnicode 0x2029) := by intro b; revert b; decide
      rcases h.1 with h | h <;> rw [h]
      · exact e1
      · exact e2
    · exact hT

theorem quoteLoop_noHTML (js : Bool) (s : Bytes) : noHTML (quoteLoop true js s).1 := by
  fun_induction quoteLoop true js s with
  | case1 => intro b hb; simp at hb
  | case2 c t st r ih => exact noHTML_append (quoteStep_noHTML js c t) ih

/-! ### JS -/

/-- A raw U+2028 (E2 80 A8) or U+2029 (E2 80 A9) occurs somewhere in `l`. -/
def hasLS : Bytes → Bool
  | [] => false
  | b :: t => (b == 0xE2 && (t.take 2 == [0x80, 0xA8] || t.take 2 == [0x80, 0xA9])) || hasLS t

theorem hasLS_skip {a : Bytes} (rest : Bytes) (h : ∀ b ∈ a, b ≠ 0xE2) : hasLS (a ++ rest) = hasLS rest := by
  induction a with
  | nil => rfl
  | cons x a ih =>
    have hx : (x == 0xE2) = false := by simpa using h x (by simp)
    simp only [List.cons_append, hasLS, hx, Bool.false_and, Bool.false_or]
    exact ih (fun b hb => h b (by simp [hb]))

theorem ne_E2_of_lt {b : UInt8} (h : b.toNat < 0xE2) : b ≠ 0xE2 := by
  intro e; subst e; simp at h
theorem ne_E2_of_toNat_ne {b : UInt8} (h : b.toNat ≠ 0xE2) : b ≠ 0xE2 := by
  intro e; subst e; simp at h

theorem hasLS_take (c : UInt8) (t rest : Bytes) (h0 : ¬ c.toNat < runeSelf) (h1 : 1 < (decodeRune (c :: t)).2)
    (n1 : (decodeRune (c :: t)).1 ≠ 0x2028) (n2 : (decodeRune (c :: t)).1 ≠ 0x2029) :
    hasLS ((c :: t).take (decodeRune (c :: t)).2 ++ rest) = hasLS rest := by
  have hd := dec_sound (c :: t)
  generalize decodeRune (c :: t) = d at hd h1 n1 n2
  cases hd with
  | ascii h => simp at h1
  | bad h => simp at h1
  | @two _ b1 q lo hi _ hl hb1 hb2 =>
    have := leadInfo_exact hl
    apply hasLS_skip; intro b hb
    simp only [List.take_succ_cons, List.take_zero, List.mem_cons, List.not_mem_nil, or_false] at hb
    rcases hb with rfl | rfl <;> apply ne_E2_of_toNat_ne <;> omega
  | @three _ b1 b2 q lo hi _ hl hb1 hb2 hc2 =>
    have := leadInfo_exact hl
    rw [isCont_iff] at hc2
    have e1 : b1 ≠ 0xE2 := ne_E2_of_lt (by omega)
    have e2 : b2 ≠ 0xE2 := ne_E2_of_lt (by omega)
    simp only [List.take_succ_cons, List.take_zero, List.cons_append, List.nil_append, hasLS]
    have x1 : (b1 == 0xE2) = false := by simpa using e1
    have x2 : (b2 == 0xE2) = false := by simpa using e2
    simp only [x1, x2, Bool.false_and, Bool.false_or]
    by_cases hc : c = 0xE2
    · subst hc
      have k1 : ¬ (b1 = 0x80 ∧ b2 = 0xA8) := by
        rintro ⟨rfl, rfl⟩; simp at n1
      have k2 : ¬ (b1 = 0x80 ∧ b2 = 0xA9) := by
        rintro ⟨rfl, rfl⟩; simp at n2
      simp [k1, k2]
    · have : (c == 0xE2) = false := by simpa using hc
      simp [this]
  | @four _ b1 b2 b3 q lo hi _ hl hb1 hb2 hc2 hc3 =>
    have := leadInfo_exact hl
    rw [isCont_iff] at hc2 hc3
    apply hasLS_skip; intro b hb
    simp only [List.take_succ_cons, List.take_zero, List.mem_cons, List.not_mem_nil, or_false] at hb
    rcases hb with rfl | rfl | rfl | rfl <;> apply ne_E2_of_toNat_ne <;> omega

theorem escaped_ascii_bytes : ∀ c : Fin 128, (appendEscapedASCII c.val).all (fun b => b.toNat < 0x80) = true := by decide +kernel

theorem quoteStep_noLS (html : Bool) (c : UInt8) (t rest : Bytes) :
    hasLS ((quoteStep html true c t).1 ++ rest) = hasLS rest := by
  by_cases h0 : c.toNat < runeSelf
  · have h128 : c.toNat < 128 := h0
    have hc : ∀ b ∈ [c], b ≠ 0xE2 := by
      intro b hb; simp only [List.mem_singleton] at hb; rw [hb]; exact ne_E2_of_lt (by omega)
    simp only [quoteStep, h0, ↓reduceIte]
    repeat' split
    · exact hasLS_skip rest hc
    · apply hasLS_skip; intro b hb
      have := escaped_ascii_bytes ⟨c.toNat, h128⟩
      simp only [List.all_eq_true, decide_eq_true_eq] at this
      exact ne_E2_of_lt (by have := this b hb; omega)
    · exact hasLS_skip rest hc
  · simp only [quoteStep, h0, ↓reduceIte, and_true]
    rcases decodeRune_high c t h0 with h1 | h1
    · have hinv : isInvalidUTF8 (decodeRune (c :: t)).1 (decodeRune (c :: t)).2 = false := by
        have : ¬ (decodeRune (c :: t)).2 = 1 := by omega
        simp [isInvalidUTF8, this]
      simp only [hinv, Bool.false_eq_true, ↓reduceIte]
      by_cases hs : (decodeRune (c :: t)).1 = 0x2028 ∨ (decodeRune (c :: t)).1 = 0x2029
      · have hne : ¬ ((decodeRune (c :: t)).1 ≠ runeError ∧ (decodeRune (c :: t)).1 ≠ 0x2028 ∧ (decodeRune (c :: t)).1 ≠ 0x2029) := by omega
        simp only [hne, hs, ↓reduceIte]
        have e1 : ∀ b ∈ appendEscapedUnicode 0x2028, b ≠ 0xE2 := by decide
        have e2 : ∀ b ∈ appendEscapedUnicode 0x2029, b ≠ 0xE2 := by decide
        rcases hs with h | h <;> rw [h]
        · exact hasLS_skip rest e1
        · exact hasLS_skip rest e2
      · have n1 : (decodeRune (c :: t)).1 ≠ 0x2028 := by omega
        have n2 : (decodeRune (c :: t)).1 ≠ 0x2029 := by omega
        have := hasLS_take c t rest h0 h1 n1 n2
        simp only [hs, ↓reduceIte]
        split <;> exact this
    · have : ∀ b ∈ utf8FFFD, b ≠ 0xE2 := by decide
      simp [h1, isInvalidUTF8, runeError, hasLS_skip rest this]

theorem quoteLoop_noLS (html : Bool) (s rest : Bytes) : hasLS ((quoteLoop html true s).1 ++ rest) = hasLS rest := by
  fun_induction quoteLoop html true s with
  | case1 => rfl
  | case2 c t st r ih => simp only [List.append_assoc]; rw [quoteStep_noLS, ih]

theorem take2_eq_iff_prefix (x y : UInt8) (t : Bytes) : t.take 2 = [x, y] ↔ [x, y] <+: t := by
  rw [List.prefix_iff_eq_take]; simp [eq_comm]

theorem hasLS_iff (l : Bytes) :
    hasLS l = true ↔ ([0xE2, 0x80, 0xA8] <:+: l ∨ [0xE2, 0x80, 0xA9] <:+: l) := by
  induction l with
  | nil => simp [hasLS]
  | cons b t ih =>
    simp only [hasLS, Bool.or_eq_true, Bool.and_eq_true, beq_iff_eq, ih, List.infix_cons_iff,
      List.cons_prefix_cons, take2_eq_iff_prefix]
    constructor
    · rintro (⟨rfl, h | h⟩ | h | h)
      · exact Or.inl (Or.inl ⟨rfl, h⟩)
      · exact Or.inr (Or.inl ⟨rfl, h⟩)
      · exact Or.inl (Or.inr h)
      · exact Or.inr (Or.inr h)
    · rintro ((⟨rfl, h⟩ | h) | (⟨rfl, h⟩ | h))
      · exact Or.inl ⟨rfl, Or.inl h⟩
      · exact Or.inr (Or.inl h)
      · exact Or.inl ⟨rfl, Or.inr h⟩
      · exact Or.inr (Or.inr h)

/-! ### The PreserveRawStrings loop of ReformatString -/

theorem noHTML_take {l : Bytes} (n : Nat) (h : noHTML l) : noHTML (l.take n) :=
  fun b hb => h b (List.mem_of_mem_take hb)

theorem preserveLoop_noHTML (js : Bool) (k : Nat) (src : Bytes) : noHTML (preserveLoop true js k src) := by
  fun_induction preserveLoop true js k src with
  | case1 => intro b hb; simp at hb
  | case2 => intro b hb; simp at hb
  | case3 k c t s ih =>
    apply noHTML_append _ ih
    by_cases h0 : c.toNat < runeSelf
    · have h128 : c.toNat < 128 := h0
      by_cases hc : isHTMLChar c.toNat = true
      · have hs : s = (some (appendEscapedASCII c.toNat), 1) := by
          show preserveStep true js c t = _
          simp [preserveStep, h0, hc]
        rw [hs]
        intro b hb
        have := escaped_noHTML ⟨c.toNat, h128⟩
        simp only [List.all_eq_true, Bool.not_eq_eq_eq_not, Bool.not_true] at this
        exact this b hb
      · have hs : s = (none, 1) := by
          show preserveStep true js c t = _
          simp [preserveStep, h0, hc]
        rw [hs]
        intro b hb
        have hb' : b ∈ [c] := by
          have : min 1 (k + 1) = 1 := by omega
          simpa [this] using hb
        simp only [List.mem_singleton] at hb'; rw [hb']
        simpa using hc
    · have hhigh := decodeRune_take_high c t h0
      have hT : noHTML ((c :: t).take (decodeRune (c :: t)).2) := by
        intro b hb; have := hhigh b hb
        simp [isHTMLChar]; omega
      by_cases hj : ((decodeRune (c :: t)).1 = 0x2028 ∨ (decodeRune (c :: t)).1 = 0x2029) ∧ js = true
      · have hs : s = (some (appendEscapedUnicode (decodeRune (c :: t)).1), (decodeRune (c :: t)).2) := by
          show preserveStep true js c t = _
          simp only [preserveStep, h0, ↓reduceIte]; rw [if_pos hj]
        rw [hs]
        have e1 : noHTML (appendEscapedUnicode 0x2028) := by intro b; revert b; decide
        have e2 : noHTML (appendEscapedUnicode 0x2029) := by intro b; revert b; decide
        rcases hj.1 with h | h <;> simp only [h]
        · exact e1
        · exact e2
      · have hs : s = (none, (decodeRune (c :: t)).2) := by
          show preserveStep true js c t = _
          simp only [preserveStep, h0, ↓reduceIte]; rw [if_neg hj]
        rw [hs]
        intro b hb
        have hb' : b ∈ (c :: t).take (min (decodeRune (c :: t)).2 (k + 1)) := by simpa using hb
        rw [Nat.min_comm, ← List.take_take] at hb'
        exact hT b (List.mem_of_mem_take hb')

end JsonV.Lemmas.QuoteSafe
