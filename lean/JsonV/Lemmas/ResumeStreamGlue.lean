/-
Bridge between the whole-input functions of the refill lemmas (Model/Resume.lean scanners) and the functions the
whole-buffer token model uses (Model/Validate.lean: valueLiteral / valueString / valueNumber with their inlinable
fast paths), via slice C01's glue lemmas.  The fast paths never change an answer.
-/
import JsonV.Lemmas.ResumeStream
import JsonV.Lemmas.GlueResume
import JsonV.Lemmas.GlueResumeStr
import JsonV.Lemmas.WireValue
import JsonV.Lemmas.WireBasic
import JsonV.Lemmas.WireNumberScan
import JsonV.Lemmas.WireString
namespace JsonV.Model.Stream
open JsonV JsonV.Model JsonV.Model.Validate
open JsonV.Lemmas.GlueResume JsonV.Lemmas.WireBasic JsonV.Lemmas.WireString JsonV.Lemmas.WireNumber

theorem toWire_eq (e : Resume.Err) : toWire e = eR e := by cases e <;> rfl
theorem toWireFlags_eq (f : Resume.VFlags) : toWireFlags f = fR f := rfl

theorem wsW_wire (t : Bytes) :
    wsW t = (Wire.consumeWhitespace t, decide (Wire.consumeWhitespace t ≠ t.length)) := by
  unfold wsW
  rw [ws_eq]
  split <;> simp_all

/-- the inlinable fast path never changes the answer: a literal of the value path is ConsumeLiteral -/
theorem valueLiteral_eq (lit t : Bytes) (hl : lit ≠ []) :
    valueLiteral lit t = ((litW lit t).1, toWire (litW lit t).2) := by
  unfold valueLiteral litW
  rw [toWire_eq, lit_eq]
  by_cases h : Wire.consumeExact lit t = 0
  · simp [h]
  · have hp := (exact_iff lit t hl).mp h
    have hv : Wire.consumeExact lit t = lit.length := by
      rcases exact_val lit t with h0 | h0
      · exact absurd h0 h
      · exact h0
    have := (literal_ok_iff t lit lit.length).mpr ⟨rfl, hp⟩
    simp [h, hv, this]

theorem empty_join (f : Wire.ValueFlags) : Wire.ValueFlags.join {} f = f := by
  cases f; simp [Wire.ValueFlags.join]

theorem valueString_eq (o : VOpts) (t : Bytes) :
    valueString o t = ((strW (!o.allowInvalidUTF8) t).1, toWireFlags (strW (!o.allowInvalidUTF8) t).2.1,
      toWire (strW (!o.allowInvalidUTF8) t).2.2) := by
  have hv : valueString o t = Wire.consumeStringResumable t 0 (!o.allowInvalidUTF8) := by
    unfold valueString
    by_cases h : Wire.consumeSimpleString t = 0
    · simp [h]
    · have := simple_string_sound' t (!o.allowInvalidUTF8) h
      unfold Wire.consumeString at this
      simp [h, this]
  obtain ⟨g1, g2, g3⟩ := string_resumable_eq .none t 0 (!o.allowInvalidUTF8)
  have hnone : fR Resume.VFlags.none = {} := rfl
  rw [hnone, empty_join] at g2
  rw [hv, toWire_eq, toWireFlags_eq]
  unfold strW
  exact Prod.ext g1.symm (Prod.ext g2.symm g3.symm)

theorem consumeNumberD_eq (t : Bytes) : consumeNumberD t = ((numW t).1, toWire (numW t).2) := by
  have hg := number_resumable_eq t 0 0
  have hb := Resume.num_bound t
  unfold consumeNumberD numW
  rw [Resume.consumeNumberChunks_nil]
  simp only [Wire.stInit, ← hg, mapNum]
  rcases hr : Resume.consumeNumberResumable t 0 0 with ⟨n, st, e⟩
  rw [hr] at hb
  simp only at hb ⊢
  have hl : Wire.lenLt t (n + 1) = decide (n = t.length) := by
    by_cases h : n = t.length
    · simp [h, lenLt_iff]
    · have : ¬ t.length < n + 1 := by omega
      simp [h]
      cases hh : Wire.lenLt t (n + 1)
      · rfl
      · exact absurd ((lenLt_iff t (n + 1)).mp hh) this
  rw [hl]
  cases e <;> by_cases h : n = t.length <;> simp [eR, toWire, h]

theorem valueNumber_eq (t : Bytes) : valueNumber t = ((numW t).1, toWire (numW t).2) := by
  rw [← consumeNumberD_eq]
  unfold valueNumber
  by_cases h : (Wire.consumeSimpleNumber t == 0 || Wire.lenLt t (Wire.consumeSimpleNumber t + 1)) = true
  · simp [h]
  · simp only [h, Bool.false_eq_true, if_false]
    simp at h
    obtain ⟨h0, h1⟩ := h
    have hs := simple_number_sound' t h0
    unfold Wire.consumeNumber at hs
    unfold consumeNumberD
    rcases hr : Wire.consumeNumberResumable t 0 Wire.stInit with ⟨n, st, e⟩
    rw [hr] at hs
    simp only at hs ⊢
    injection hs with hn he
    subst hn; subst he
    simp [h1]

end JsonV.Model.Stream
