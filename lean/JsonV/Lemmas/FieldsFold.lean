/-
`foldName` on ASCII input: delete `_`/`-`, upper-case; two ASCII names fold to the same string iff they
are equal after deleting `_`/`-` and folding ASCII case (`Spec.FieldRule.normAscii`).
-/
import JsonV.Model.Fold
import JsonV.Spec.FieldRule

namespace JsonV.Lemmas.Fields
open JsonV JsonV.Model JsonV.Model.Fold JsonV.Spec.FieldRule

theorem foldName_ascii (fr : Nat → Nat) : ∀ (b : Bytes), IsAscii b →
    foldName fr b = (b.filter (fun c => !isDelim c)).map upperAscii
  | [], _ => by simp [foldName]
  | c :: rest, h => by
    have hc : c.toNat < Utf8.runeSelf := h c (List.mem_cons_self ..)
    have ih := foldName_ascii fr rest (fun x hx => h x (List.mem_cons_of_mem _ hx))
    rw [foldName]
    simp only [hc, if_true]
    by_cases hd : isDelim c = true
    · simp [hd, ih]
    · simp [hd, ih]

theorem upperAscii_toNat (c : UInt8) : (upperAscii c).toNat = if 0x61 ≤ c.toNat ∧ c.toNat ≤ 0x7A then c.toNat - 32 else c.toNat := by
  unfold upperAscii
  split
  · rename_i h
    rw [UInt8.toNat_ofNat']
    have : c.toNat < 256 := c.toNat_lt
    omega
  · rfl

theorem lowerAscii_toNat (c : UInt8) : (lowerAscii c).toNat = if 0x41 ≤ c.toNat ∧ c.toNat ≤ 0x5A then c.toNat + 32 else c.toNat := by
  unfold lowerAscii
  split
  · rename_i h
    rw [UInt8.toNat_ofNat']
    omega
  · rfl

/-- Upper-casing and lower-casing identify the same pairs of bytes. -/
theorem upper_eq_iff_lower_eq (a b : UInt8) : upperAscii a = upperAscii b ↔ lowerAscii a = lowerAscii b := by
  rw [← UInt8.toNat_inj, ← UInt8.toNat_inj, upperAscii_toNat, upperAscii_toNat, lowerAscii_toNat, lowerAscii_toNat]
  have := a.toNat_lt
  have := b.toNat_lt
  split <;> split <;> split <;> split <;> omega

theorem map_eq_map_iff {α β γ} (f : α → β) (g : α → γ) (hfg : ∀ a b, f a = f b ↔ g a = g b) :
    ∀ l₁ l₂ : List α, l₁.map f = l₂.map f ↔ l₁.map g = l₂.map g
  | [], [] => by simp
  | [], _ :: _ => by simp
  | _ :: _, [] => by simp
  | a :: as, b :: bs => by
    simp only [List.map_cons, List.cons.injEq, hfg a b, map_eq_map_iff f g hfg as bs]

theorem foldName_eq_iff_norm (fr : Nat → Nat) (x y : Bytes) (hx : IsAscii x) (hy : IsAscii y) :
    foldName fr x = foldName fr y ↔ normAscii x = normAscii y := by
  rw [foldName_ascii fr x hx, foldName_ascii fr y hy]
  unfold normAscii
  have : (fun c : UInt8 => !isDelim c) = (fun c : UInt8 => !(c.toNat == 0x5F || c.toNat == 0x2D)) := by
    funext c; simp [isDelim]
  rw [this]
  exact map_eq_map_iff _ _ upper_eq_iff_lower_eq _ _

end JsonV.Lemmas.Fields
