/-
Lemmas about the member sort of `mustReorderObjectsFromDecoder`: `objectMember.Compare` is a total preorder
on members whose name and text are well-formed UTF-8 (it is the lexicographic product of two UTF-16 orders),
so the sort returns a sorted permutation, which is unique when no two names are equal.
-/
import JsonV.Model.Reorder
import JsonV.Lemmas.CmpL

namespace JsonV.Lemmas.CmpSort
open JsonV JsonV.Model.Utf8 JsonV.Model.Compare JsonV.Model.Reorder JsonV.Spec.Utf16Order
open JsonV.Lemmas.CmpUtf8 JsonV.Lemmas.CmpLex JsonV.Lemmas.CmpL

/-- A member of a valid I-JSON object: name and raw text are well-formed UTF-8. -/
def WF (m : Member) : Prop := valid m.name = true ∧ valid (trimLeft m.buffer) = true

/-- The sort key in spec terms. -/
def key (m : Member) : List Nat × List Nat := (utf16 m.name, utf16 (trimLeft m.buffer))

def cmpKey (a b : List Nat × List Nat) : Int :=
  if lexCmp a.1 b.1 ≠ 0 then lexCmp a.1 b.1 else lexCmp a.2 b.2

def keyLe (a b : List Nat × List Nat) : Bool := decide (cmpKey a b ≤ 0)

theorem compareUTF16_lex (x y : Bytes) (hx : valid x = true) (hy : valid y = true) :
    compareUTF16 x y = lexCmp (utf16 x) (utf16 y) := by
  obtain ⟨sx, ex⟩ := valid_encode x hx
  obtain ⟨sy, ey⟩ := valid_encode y hy
  unfold compareUTF16 utf16
  have := go_encode (runes x) (runes y) sx sy x.length (by rw [ex]; exact Nat.le_refl _)
  rw [ex, ey] at this
  exact this

theorem memberCompare_key (a b : Member) (ha : WF a) (hb : WF b) : memberCompare a b = cmpKey (key a) (key b) := by
  unfold memberCompare cmpKey key
  simp only []
  rw [compareUTF16_lex _ _ ha.1 hb.1, compareUTF16_lex _ _ ha.2 hb.2]

theorem memberLe_key (a b : Member) (ha : WF a) (hb : WF b) : memberLe a b = keyLe (key a) (key b) := by
  unfold memberLe keyLe
  rw [memberCompare_key a b ha hb]

theorem cmpKey_swap (a b : List Nat × List Nat) : cmpKey b a = - cmpKey a b := by
  unfold cmpKey
  rw [lexCmp_swap a.1 b.1, lexCmp_swap a.2 b.2]
  by_cases h : lexCmp a.1 b.1 = 0
  · simp [h]
  · have : ¬ (- lexCmp a.1 b.1 = 0) := by omega
    simp [h]

theorem cmpKey_range (a b : List Nat × List Nat) : cmpKey a b = -1 ∨ cmpKey a b = 0 ∨ cmpKey a b = 1 := by
  unfold cmpKey
  split
  · exact lexCmp_range _ _
  · exact lexCmp_range _ _

theorem keyLe_total (a b : List Nat × List Nat) : (keyLe a b || keyLe b a) = true := by
  unfold keyLe
  rw [cmpKey_swap a b]
  rcases cmpKey_range a b with h | h | h <;> simp [h]

theorem cmpKey_trans (a b c : List Nat × List Nat) (h1 : cmpKey a b ≤ 0) (h2 : cmpKey b c ≤ 0) : cmpKey a c ≤ 0 := by
  unfold cmpKey at h1 h2 ⊢
  by_cases l1 : lexCmp a.1 b.1 = 0
  · have e1 := lexCmp_eq_zero.mp l1
    simp only [l1, ne_eq, not_true_eq_false, if_false] at h1
    rw [e1]
    by_cases l2 : lexCmp b.1 c.1 = 0
    · simp only [l2, ne_eq, not_true_eq_false, if_false] at h2 ⊢
      exact lexCmp_le_trans h1 h2
    · simp only [l2, ne_eq, not_false_eq_true, if_true] at h2 ⊢
      exact h2
  · simp only [l1, ne_eq, not_false_eq_true, if_true] at h1
    have lt1 : lexCmp a.1 b.1 < 0 := by omega
    have le2 : lexCmp b.1 c.1 ≤ 0 := by
      by_cases l2 : lexCmp b.1 c.1 = 0
      · omega
      · simp only [l2, ne_eq, not_false_eq_true, if_true] at h2; exact h2
    have := lexCmp_lt_of_lt_of_le lt1 le2
    have ne : lexCmp a.1 c.1 ≠ 0 := by omega
    simp only [ne, ne_eq, not_false_eq_true, if_true]
    omega

theorem keyLe_trans (a b c : List Nat × List Nat) (h1 : keyLe a b = true) (h2 : keyLe b c = true) : keyLe a c = true := by
  unfold keyLe at h1 h2 ⊢
  simp only [decide_eq_true_eq] at h1 h2 ⊢
  exact cmpKey_trans a b c h1 h2

/-- `reorder_perm`: the sorted members are a permutation of the collected members (nothing lost, nothing duplicated). -/
theorem sortMembers_perm (ms : List Member) : (sortMembers ms).Perm ms := List.mergeSort_perm ms memberLe

theorem mem_sortMembers {ms : List Member} {m : Member} : m ∈ sortMembers ms ↔ m ∈ ms :=
  (sortMembers_perm ms).mem_iff

/-- The output is sorted: every earlier member is ≤ every later member under `objectMember.Compare`. -/
theorem sortMembers_pairwise (ms : List Member) (hv : ∀ m ∈ ms, WF m) :
    (sortMembers ms).Pairwise (fun a b => memberCompare a b ≤ 0) := by
  have hm : List.map key (sortMembers ms) = (List.map key ms).mergeSort keyLe := by
    unfold sortMembers
    exact List.map_mergeSort (fun a ha b hb => memberLe_key a b (hv a ha) (hv b hb))
  have hp : ((List.map key ms).mergeSort keyLe).Pairwise (fun a b => keyLe a b = true) :=
    List.pairwise_mergeSort keyLe_trans keyLe_total _
  rw [← hm, List.pairwise_map] at hp
  have hmem : ∀ m ∈ sortMembers ms, WF m := fun m h => hv m (mem_sortMembers.mp h)
  refine List.Pairwise.imp_of_mem ?_ hp
  intro a b ha hb h
  rw [← memberLe_key a b (hmem a ha) (hmem b hb)] at h
  unfold memberLe at h
  simpa using h

theorem memberCompare_name (a b : Member) (h : memberCompare a b ≤ 0) : compareUTF16 a.name b.name ≤ 0 := by
  unfold memberCompare at h
  simp only [] at h
  by_cases c : compareUTF16 a.name b.name = 0
  · omega
  · simp only [c, ne_eq, not_false_eq_true, if_true] at h; exact h

theorem nodup_map_inj {α β : Type} (f : α → β) (l : List α) (h : (l.map f).Nodup) (a b : α) (ha : a ∈ l) (hb : b ∈ l)
    (e : f a = f b) : a = b := by
  induction l with
  | nil => simp at ha
  | cons x xs ih =>
    simp only [List.map_cons, List.nodup_cons, List.mem_map, not_exists, not_and] at h
    simp only [List.mem_cons] at ha hb
    rcases ha with ha | ha <;> rcases hb with hb | hb
    · rw [ha, hb]
    · subst ha; exact absurd e.symm (h.1 b hb)
    · subst hb; exact absurd e (h.1 a ha)
    · exact ih h.2 ha hb

/-- With pairwise different names the sorted order is unique: the result does not depend on the order in
which the members were written. -/
theorem sortMembers_unique (ms ms' : List Member) (hv : ∀ m ∈ ms, WF m) (hd : (ms.map (·.name)).Nodup)
    (hp : ms'.Perm ms) : sortMembers ms' = sortMembers ms := by
  have hv' : ∀ m ∈ ms', WF m := fun m h => hv m (hp.mem_iff.mp h)
  have p1 := sortMembers_pairwise ms hv
  have p2 := sortMembers_pairwise ms' hv'
  have perm : (sortMembers ms').Perm (sortMembers ms) :=
    ((sortMembers_perm ms').trans hp).trans (sortMembers_perm ms).symm
  refine List.Perm.eq_of_pairwise (le := fun a b => memberCompare a b ≤ 0) ?_ p2 p1 perm
  intro a b ha hb hab hba
  have ha' : a ∈ ms := hp.mem_iff.mp (mem_sortMembers.mp ha)
  have hb' : b ∈ ms := mem_sortMembers.mp hb
  have n1 := memberCompare_name a b hab
  have n2 := memberCompare_name b a hba
  rw [JsonV.Lemmas.CmpL.go_swap_cmp a.name b.name] at n2
  have z : compareUTF16 a.name b.name = 0 := by omega
  rw [compareUTF16_lex _ _ (hv a ha').1 (hv b hb').1] at z
  have en : a.name = b.name := by
    obtain ⟨sx, ex⟩ := valid_encode a.name (hv a ha').1
    obtain ⟨sy, ey⟩ := valid_encode b.name (hv b hb').1
    have := units_inj sx sy (lexCmp_eq_zero.mp z)
    rw [← ex, ← ey, this]
  exact nodup_map_inj (·.name) ms hd a b ha' hb' en

/-- A strictly increasing scan (`isSorted`) means the list is already what the sort would return,
so the early return of value.go:360-362 does not change the result. -/
theorem isSorted_pairwise (ms : List Member) (hv : ∀ m ∈ ms, WF m) (h : isSorted ms = true) :
    ms.Pairwise (fun a b => memberLe a b = true) := by
  induction ms with
  | nil => exact List.Pairwise.nil
  | cons a rest ih =>
    cases rest with
    | nil => simp
    | cons b rest' =>
      simp only [isSorted, Bool.and_eq_true, decide_eq_true_eq] at h
      have ihp := ih (fun m hm => hv m (by simp [hm])) h.2
      refine List.Pairwise.cons ?_ ihp
      intro c hc
      have wa := hv a (by simp)
      have wb := hv b (by simp)
      have wc := hv c (by simp [hc])
      have ab : keyLe (key a) (key b) = true := by
        rw [← memberLe_key a b wa wb]; unfold memberLe; simp; omega
      rw [memberLe_key a c wa wc]
      simp only [List.mem_cons] at hc
      rcases hc with e | hc
      · rw [e]; exact ab
      · have bc := List.rel_of_pairwise_cons ihp hc
        rw [memberLe_key b c wb wc] at bc
        exact keyLe_trans _ _ _ ab bc

theorem reorder_eq_sort (ms : List Member) (hv : ∀ m ∈ ms, WF m) : reorder ms = sortMembers ms := by
  unfold reorder
  by_cases h : isSorted ms = true
  · rw [if_pos h]
    unfold sortMembers
    exact (List.mergeSort_of_pairwise (isSorted_pairwise ms hv h)).symm
  · rw [if_neg h]

end JsonV.Lemmas.CmpSort
