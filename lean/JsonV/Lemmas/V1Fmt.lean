/-
Lemmas for the v1.Compact / v1.Indent models of slice C09 (Model/V1.lean) on top of slice C12's token-level
format model (read-only imports).
-/
import JsonV.Model.V1
import JsonV.Lemmas.FormatCompact
import JsonV.Lemmas.GlueFormatLayout

namespace JsonV.Lemmas.V1Fmt
open JsonV JsonV.Model.V1 JsonV.Fmt

/-! ### whitespace predicates of the two slices agree -/

theorem isJsonWs_eq (c : UInt8) : isJsonWs c = Fmt.isWs c := by
  unfold isJsonWs Fmt.isWs
  cases (c == 0x20) <;> cases (c == 0x0A) <;> cases (c == 0x0D) <;> cases (c == 0x09) <;> rfl

theorem mem_takeWhile_imp {p : UInt8 → Bool} : ∀ (l : Bytes) (c : UInt8), c ∈ l.takeWhile p → p c = true := by
  intro l
  induction l with
  | nil => intro c h; simp at h
  | cons a l ih =>
    intro c h
    rw [List.takeWhile_cons] at h
    split at h
    · rename_i ha
      rcases List.mem_cons.mp h with rfl | h
      · exact ha
      · exact ih c h
    · simp at h

theorem trailingWs_allWs (b : Bytes) : allWs (trailingWs b) = true := by
  unfold allWs trailingWs
  rw [List.all_eq_true]
  intro c hc
  rw [List.mem_reverse] at hc
  rw [← isJsonWs_eq]; exact mem_takeWhile_imp _ c hc

theorem isBlank_allWs (s : Bytes) (h : isBlank s = true) : allWs s = true := by
  unfold isBlank at h; unfold allWs
  rw [List.all_eq_true] at h ⊢
  intro c hc
  have := h c hc
  simp only [Bool.or_eq_true, beq_iff_eq] at this
  rcases this with rfl | rfl <;> decide

/-! ### trailing whitespace does not change what the tokenizer reads -/

theorem layout_append_ws {ls : List Lex} {b : Bytes} (h : Layout ls b) (w : Bytes) (hw : allWs w = true) :
    Layout ls (b ++ w) := by
  induction h with
  | nil w0 h0 =>
    exact Layout.nil _ (by simp only [allWs, List.all_append, Bool.and_eq_true] at *; exact ⟨h0, hw⟩)
  | cons w0 l ls b h0 _ ih =>
    have := Layout.cons w0 l ls (b ++ w) h0 ih
    simpa [List.append_assoc] using this

theorem tokenize_append_ws (b w : Bytes) (ts : List Tok) (h : tokenize b = some ts) (hw : allWs w = true) :
    tokenize (b ++ w) = some ts := by
  obtain ⟨h1, h2⟩ := (tokenize_iff_layout' b ts).mp h
  exact (tokenize_iff_layout' _ ts).mpr ⟨h1, layout_append_ws h2 w hw⟩

/-! ### no token contains a raw newline -/

theorem sst_next_no_nl (st : SSt) (x : Option SSt) (h : st.next 0x0A = some x) : False := by
  cases st <;> simp [SSt.next, Fmt.isSimpleEsc, Fmt.isHex, Fmt.isDigit] at h

theorem scanStr_no_nl : ∀ (b : Bytes) (st : SSt) (a r : Bytes), scanStr st b = some (a, r) → ∀ c ∈ a, c ≠ 0x0A := by
  intro b
  induction b with
  | nil => intro st a r h; simp [scanStr] at h
  | cons c cs ih =>
    intro st a r h
    unfold scanStr at h
    split at h
    · simp at h
    · rename_i hn
      simp only [Option.some.injEq, Prod.mk.injEq] at h
      obtain ⟨rfl, rfl⟩ := h
      intro x hx
      simp only [List.mem_singleton] at hx
      subst hx
      intro hx; subst hx
      exact sst_next_no_nl st _ hn
    · rename_i st' hn
      obtain ⟨a', rfl, h'⟩ := consFst_eq_some.mp h
      intro x hx
      rcases List.mem_cons.mp hx with rfl | hx
      · intro hx; subst hx
        exact sst_next_no_nl st _ hn
      · exact ih _ _ _ h' x hx

theorem tok_no_nl (t : Tok) (hv : t.valid = true) : ∀ c ∈ t.bytes, c ≠ 0x0A := by
  cases t with
  | str raw =>
    obtain ⟨a, rfl, h⟩ := Tok.valid_str hv
    intro c hc
    simp only [Tok.bytes] at hc
    rcases List.mem_cons.mp hc with rfl | hc
    · decide
    · exact scanStr_no_nl _ _ _ _ h c hc
  | num raw =>
    intro c hc hx
    have := lexeme_no_ws (.tok (.num raw)) hv (by intro r h; cases h) c hc
    subst hx; simp [Fmt.isWs] at this
  | bo => simp [Tok.bytes]
  | eo => simp [Tok.bytes]
  | ba => simp [Tok.bytes]
  | ea => simp [Tok.bytes]
  | null => simp [Tok.bytes]
  | tru => simp [Tok.bytes]
  | fls => simp [Tok.bytes]

theorem delim_no_nl (d : Delim) : ∀ c ∈ d.bytes, c ≠ 0x0A := by
  cases d <;> simp [Delim.bytes]

/-! ### `spaces`, `repeatBytes`, `fill` -/

theorem spaces_zero : spaces 0 = [] := rfl
theorem spaces_succ (n : Nat) : spaces (n + 1) = 0x20 :: spaces n := rfl
theorem spaces_length (n : Nat) : (spaces n).length = n := by simp [spaces]
theorem spaces_append (a b : Nat) : spaces a ++ spaces b = spaces (a + b) := by
  simp [spaces, List.replicate_append_replicate]

theorem repeat_spaces (a : Nat) : ∀ k, repeatBytes (spaces a) k = spaces (k * a) := by
  intro k
  induction k with
  | zero => simp [repeatBytes, spaces]
  | succ k ih => rw [repeatBytes, ih, spaces_append, Nat.succ_mul, Nat.add_comm]

theorem repeat_nil : ∀ k, repeatBytes ([] : Bytes) k = [] := by
  intro k; induction k with
  | zero => rfl
  | succ k ih => simp [repeatBytes, ih]

theorem repeat_length (b : Bytes) : ∀ k, (repeatBytes b k).length = k * b.length := by
  intro k; induction k with
  | zero => simp [repeatBytes]
  | succ k ih => simp [repeatBytes, ih, Nat.succ_mul, Nat.add_comm]

theorem repeat_add (b : Bytes) : ∀ k j, repeatBytes b (k + j) = repeatBytes b k ++ repeatBytes b j := by
  intro k
  induction k with
  | zero => intro j; simp [repeatBytes]
  | succ k ih => intro j; rw [Nat.succ_add, repeatBytes, ih, repeatBytes, List.append_assoc]

/-- On the run lengths that the formatter produces, the placeholder run becomes `prefix ++ indent^k`. -/
theorem fill_exact (pre ind : Bytes) (k : Nat) :
    fill pre ind (pre.length + k * ind.length) = pre ++ repeatBytes ind k := by
  unfold fill
  by_cases hi : ind = []
  · subst hi
    simp [repeat_nil, spaces]
  · have hpos : 0 < ind.length := List.length_pos_iff.mpr hi
    have hk : k ≤ pre.length + k * ind.length :=
      Nat.le_trans (Nat.le_mul_of_pos_right k hpos) (Nat.le_add_left _ _)
    obtain ⟨j, hj⟩ := Nat.exists_eq_add_of_le hk
    have e1 : (pre ++ repeatBytes ind (pre.length + k * ind.length)).take (pre.length + k * ind.length)
        = pre ++ repeatBytes ind k := by
      rw [hj, repeat_add, ← List.append_assoc, ← hj]
      have hl : (pre ++ repeatBytes ind k).length = pre.length + k * ind.length := by
        simp [repeat_length]
      rw [← hl, List.take_left']
      rfl
    simp only [e1]
    have hl : (pre ++ repeatBytes ind k).length = pre.length + k * ind.length := by simp [repeat_length]
    rw [hl, Nat.sub_self, spaces_zero, List.append_nil]

/-! ### `replacePH` step by step -/

theorem replacePH_nil (pre ind : Bytes) : replacePH pre ind [] = [] := by rw [replacePH]

theorem replacePH_cons_ne (pre ind : Bytes) (c : UInt8) (rest : Bytes) (h : c ≠ 0x0A) :
    replacePH pre ind (c :: rest) = c :: replacePH pre ind rest := by
  rw [replacePH]; simp [h]

theorem replacePH_cons_nl (pre ind : Bytes) (rest : Bytes) :
    replacePH pre ind (0x0A :: rest) =
      0x0A :: (fill pre ind (rest.takeWhile (· == 0x20)).length ++
        replacePH pre ind (rest.drop (rest.takeWhile (· == 0x20)).length)) := by
  rw [replacePH]; simp

/-- bytes without a newline are copied -/
theorem replacePH_append_no_nl (pre ind : Bytes) : ∀ (x y : Bytes), (∀ c ∈ x, c ≠ 0x0A) →
    replacePH pre ind (x ++ y) = x ++ replacePH pre ind y := by
  intro x
  induction x with
  | nil => intro y _; rfl
  | cons c x ih =>
    intro y h
    rw [List.cons_append, replacePH_cons_ne pre ind c _ (h c (by simp)), ih y (fun c hc => h c (by simp [hc]))]
    rfl

theorem takeWhile_spaces (n : Nat) (y : Bytes) (hy : ∀ c cs, y = c :: cs → c ≠ 0x20) :
    (spaces n ++ y).takeWhile (· == 0x20) = spaces n := by
  induction n with
  | zero =>
    cases y with
    | nil => rfl
    | cons c cs => simp [spaces, hy c cs rfl]
  | succ n ih => rw [spaces_succ, List.cons_append, List.takeWhile_cons]; simp [ih]

/-- a newline followed by `n` placeholder spaces and then a non-space byte -/
theorem replacePH_nl_spaces (pre ind : Bytes) (n : Nat) (y : Bytes) (hy : ∀ c cs, y = c :: cs → c ≠ 0x20) :
    replacePH pre ind (0x0A :: (spaces n ++ y)) = 0x0A :: (fill pre ind n ++ replacePH pre ind y) := by
  rw [replacePH_cons_nl, takeWhile_spaces n y hy, spaces_length]
  have : (spaces n ++ y).drop n = y := by
    have := List.drop_left' (l₁ := spaces n) (l₂ := y) (spaces_length n)
    exact this
  rw [this]

/-! ### the placeholder emulation computes the rendering with the literal prefix and indent -/

/-- the options v1 formats with: placeholder spaces of the same lengths -/
def phOpts (pre ind : Bytes) : WsOpts := ⟨spaces pre.length, spaces ind.length, true, true, false⟩
/-- the options of the classic semantics: the prefix and indent themselves, whatever bytes they are -/
def litOpts (pre ind : Bytes) : WsOpts := ⟨pre, ind, true, true, false⟩

theorem nl_ph (pre ind : Bytes) (k : Nat) : nl (phOpts pre ind) k = 0x0A :: spaces (pre.length + k * ind.length) := by
  simp [nl, phOpts, repeat_spaces, spaces_append]

theorem nl_lit (pre ind : Bytes) (k : Nat) : nl (litOpts pre ind) k = 0x0A :: (pre ++ repeatBytes ind k) := by
  simp [nl, litOpts]

/-- The whitespace before a token is nothing, one space (after a colon), or a newline with indentation —
the same shape under both option sets. -/
theorem wsBefore_shape (pre ind : Bytes) (st : Stack) (t : Tok) :
    (wsBefore (phOpts pre ind) st t = [] ∧ wsBefore (litOpts pre ind) st t = []) ∨
    (wsBefore (phOpts pre ind) st t = [0x20] ∧ wsBefore (litOpts pre ind) st t = [0x20]) ∨
    (∃ k, wsBefore (phOpts pre ind) st t = nl (phOpts pre ind) k ∧ wsBefore (litOpts pre ind) st t = nl (litOpts pre ind) k) := by
  cases st with
  | nil => left; simp [wsBefore]
  | cons f s =>
    cases f
    case top0 => left; simp [wsBefore]
    case top1 => left; simp [wsBefore]
    case arr0 =>
      simp only [wsBefore]
      split
      · left; exact ⟨rfl, rfl⟩
      · right; right; exact ⟨_, rfl, rfl⟩
    case arrN =>
      simp only [wsBefore]
      split
      · right; right; exact ⟨_, rfl, rfl⟩
      · right; right; exact ⟨s.length, by simp [sp, phOpts], by simp [sp, litOpts]⟩
    case obj0 =>
      simp only [wsBefore]
      split
      · left; exact ⟨rfl, rfl⟩
      · right; right; exact ⟨_, rfl, rfl⟩
    case objK => right; left; simp [wsBefore, sp, phOpts, litOpts]
    case objV =>
      simp only [wsBefore]
      split
      · right; right; exact ⟨_, rfl, rfl⟩
      · right; right; exact ⟨s.length, by simp [sp, phOpts], by simp [sp, litOpts]⟩

theorem tok_head_not_space (t : Tok) (hv : t.valid = true) (X : Bytes) :
    ∀ c cs, t.bytes ++ X = c :: cs → c ≠ 0x20 := by
  intro c cs h
  obtain ⟨c', cs', h', hc⟩ := tok_first_not_ws t X hv
  rw [h'] at h
  injection h with h1 _
  subst h1
  intro hx; subst hx; simp [Fmt.isWs] at hc

/-- one (whitespace, token) piece -/
theorem replacePH_piece (pre ind : Bytes) (st : Stack) (t : Tok) (hv : t.valid = true) (X X' : Bytes)
    (ih : replacePH pre ind X = X') :
    replacePH pre ind (wsBefore (phOpts pre ind) st t ++ (t.bytes ++ X)) =
      wsBefore (litOpts pre ind) st t ++ (t.bytes ++ X') := by
  have htok : replacePH pre ind (t.bytes ++ X) = t.bytes ++ X' := by
    rw [replacePH_append_no_nl pre ind _ _ (tok_no_nl t hv), ih]
  rcases wsBefore_shape pre ind st t with ⟨h1, h2⟩ | ⟨h1, h2⟩ | ⟨k, h1, h2⟩
  · rw [h1, h2]; simpa using htok
  · rw [h1, h2, replacePH_append_no_nl pre ind [0x20] _ (by simp), htok]
  · rw [h1, h2, nl_ph, nl_lit, List.cons_append,
      replacePH_nl_spaces pre ind _ _ (tok_head_not_space t hv X), fill_exact, htok]
    simp

theorem replacePH_pieces (pre ind : Bytes) : ∀ (ts : List Tok) (st : Stack), (∀ t ∈ ts, t.valid = true) →
    replacePH pre ind (flatWs (pieces (phOpts pre ind) st ts)) = flatWs (pieces (litOpts pre ind) st ts) := by
  intro ts
  induction ts with
  | nil => intro st _; simp [pieces, flatWs, replacePH_nil]
  | cons t ts ih =>
    intro st hv
    have hvt := hv t (by simp)
    have hvs : ∀ t' ∈ ts, t'.valid = true := fun t' h => hv t' (by simp [h])
    simp only [pieces]
    cases hs : step st t with
    | none =>
      simp only [flatWs, List.nil_append]
      rw [replacePH_append_no_nl pre ind _ _ (by
        intro c hc; exact tok_no_nl t hvt c (by simpa [Lex.bytes] using hc)), ih st hvs]
    | some p =>
      obtain ⟨d, st'⟩ := p
      cases d with
      | none =>
        simp only [delimPiece, List.nil_append, flatWs, Lex.bytes]
        exact replacePH_piece pre ind st t hvt _ _ (ih st' hvs)
      | some d =>
        simp only [delimPiece, List.cons_append, List.nil_append, flatWs, Lex.bytes]
        rw [replacePH_append_no_nl pre ind _ _ (delim_no_nl d)]
        rw [replacePH_piece pre ind st t hvt _ _ (ih st' hvs)]

/-- **The placeholder emulation is exact**: formatting with spaces of the same lengths and then overwriting the
placeholders line by line yields the rendering with the literal prefix and indent, for every token list whose
literals are valid and EVERY prefix and indent (any bytes). -/
theorem replacePH_render (pre ind : Bytes) (ts : List Tok) (hv : ∀ t ∈ ts, t.valid = true) :
    replacePH pre ind (render (phOpts pre ind) ts) = render (litOpts pre ind) ts :=
  replacePH_pieces pre ind ts _ hv

/-! ### the rendering ends in a non-whitespace byte, so appended whitespace is exactly the trailing whitespace -/

theorem scanStr_last : ∀ (b : Bytes) (st : SSt) (a r : Bytes), scanStr st b = some (a, r) → ∃ Y, a = Y ++ [0x22] := by
  intro b
  induction b with
  | nil => intro st a r h; simp [scanStr] at h
  | cons c cs ih =>
    intro st a r h
    unfold scanStr at h
    split at h
    · simp at h
    · rename_i hn
      simp only [Option.some.injEq, Prod.mk.injEq] at h
      obtain ⟨rfl, rfl⟩ := h
      have hc : c = 0x22 := by
        cases st <;> simp only [SSt.next] at hn <;> (repeat' split at hn) <;> simp_all
      exact ⟨[], by simp [hc]⟩
    · obtain ⟨a', rfl, h'⟩ := consFst_eq_some.mp h
      obtain ⟨Y, rfl⟩ := ih _ _ _ h'
      exact ⟨c :: Y, rfl⟩

theorem tok_last_not_ws (t : Tok) (hv : t.valid = true) : ∃ Y c, t.bytes = Y ++ [c] ∧ Fmt.isWs c = false := by
  cases t with
  | str raw =>
    obtain ⟨a, rfl, h⟩ := Tok.valid_str hv
    obtain ⟨Y, hY⟩ := scanStr_last _ _ _ _ h
    exact ⟨0x22 :: Y, 0x22, by simp [Tok.bytes, hY], by decide⟩
  | num raw =>
    obtain ⟨c, cs, hraw, _⟩ := num_first (Tok.valid_num hv)
    have hne : raw ≠ [] := by rw [hraw]; simp
    refine ⟨raw.dropLast, raw.getLast hne, by simp [Tok.bytes, List.dropLast_concat_getLast], ?_⟩
    exact lexeme_no_ws (.tok (.num raw)) hv (by intro r h; cases h) _ (by simp [Lex.bytes, Tok.bytes, List.getLast_mem])
  | bo => exact ⟨[], _, rfl, by decide⟩
  | eo => exact ⟨[], _, rfl, by decide⟩
  | ba => exact ⟨[], _, rfl, by decide⟩
  | ea => exact ⟨[], _, rfl, by decide⟩
  | null => exact ⟨[0x6e, 0x75, 0x6c], 0x6c, rfl, by decide⟩
  | tru => exact ⟨[0x74, 0x72, 0x75], 0x65, rfl, by decide⟩
  | fls => exact ⟨[0x66, 0x61, 0x6c, 0x73], 0x65, rfl, by decide⟩

theorem pieces_cons (o : WsOpts) (st : Stack) (t : Tok) (ts : List Tok) :
    pieces o st (t :: ts) = match step st t with
      | some (d, st') => delimPiece d ++ (wsBefore o st t, .tok t) :: pieces o st' ts
      | none => ([], .tok t) :: pieces o st ts := by
  rw [pieces]; rfl

/-- a non-empty rendering ends with the bytes of one of its (valid) tokens -/
theorem pieces_end (o : WsOpts) : ∀ (ts : List Tok) (st : Stack), ts ≠ [] →
    ∃ X t, t ∈ ts ∧ flatWs (pieces o st ts) = X ++ t.bytes := by
  intro ts
  induction ts with
  | nil => intro st h; exact absurd rfl h
  | cons t ts ih =>
    intro st _
    cases ts with
    | nil =>
      simp only [pieces]
      cases hs : step st t with
      | none => exact ⟨[], t, by simp, by simp [flatWs, Lex.bytes]⟩
      | some p =>
        obtain ⟨d, st'⟩ := p
        cases d with
        | none => exact ⟨wsBefore o st t, t, by simp, by simp [delimPiece, flatWs, Lex.bytes]⟩
        | some d => exact ⟨d.bytes ++ wsBefore o st t, t, by simp, by simp [delimPiece, flatWs, Lex.bytes]⟩
    | cons t' rest =>
      rw [pieces_cons]
      cases hs : step st t with
      | none =>
        obtain ⟨X, u, hu, hX⟩ := ih st (by simp)
        exact ⟨t.bytes ++ X, u, by simp [hu], by simp only [flatWs, Lex.bytes, hX]; simp⟩
      | some p =>
        obtain ⟨d, st'⟩ := p
        obtain ⟨X, u, hu, hX⟩ := ih st' (by simp)
        cases d with
        | none =>
          exact ⟨wsBefore o st t ++ (t.bytes ++ X), u, by simp [hu], by
            simp only [delimPiece, List.nil_append, flatWs, Lex.bytes, hX]; simp⟩
        | some d =>
          exact ⟨d.bytes ++ (wsBefore o st t ++ (t.bytes ++ X)), u, by simp [hu], by
            simp only [delimPiece, List.cons_append, List.nil_append, flatWs, Lex.bytes, hX]; simp⟩

theorem wellNested_ne_nil (ts : List Tok) (h : WellNested ts) : ts ≠ [] := by
  intro e; subst e
  have := h.2
  simp [accepts] at this

theorem render_end (o : WsOpts) (ts : List Tok) (h : WellNested ts) :
    ∃ X c, render o ts = X ++ [c] ∧ Fmt.isWs c = false := by
  obtain ⟨X, t, ht, hX⟩ := pieces_end o ts [.top0] (wellNested_ne_nil ts h)
  obtain ⟨Y, c, hY, hc⟩ := tok_last_not_ws t (h.1 t ht)
  exact ⟨X ++ Y, c, by simp [render, hX, hY], hc⟩

theorem takeWhile_all_then (p : UInt8 → Bool) : ∀ (l : Bytes) (c : UInt8) (r : Bytes), (∀ x ∈ l, p x = true) → p c = false →
    (l ++ c :: r).takeWhile p = l := by
  intro l
  induction l with
  | nil => intro c r _ hc; simp [hc]
  | cons a l ih =>
    intro c r hl hc
    rw [List.cons_append, List.takeWhile_cons, hl a (by simp)]
    simp [ih c r (fun x hx => hl x (by simp [hx])) hc]

/-- whitespace appended after a byte that is not whitespace is exactly the trailing whitespace of the result -/
theorem trailingWs_append (X : Bytes) (c : UInt8) (w : Bytes) (hc : Fmt.isWs c = false) (hw : allWs w = true) :
    trailingWs ((X ++ [c]) ++ w) = w := by
  unfold trailingWs
  have hr : ((X ++ [c]) ++ w).reverse = w.reverse ++ c :: X.reverse := by simp
  rw [hr, takeWhile_all_then isJsonWs w.reverse c X.reverse]
  · simp
  · intro x hx
    rw [isJsonWs_eq]
    unfold allWs at hw; rw [List.all_eq_true] at hw
    exact hw x (List.mem_reverse.mp hx)
  · rw [isJsonWs_eq]; exact hc

end JsonV.Lemmas.V1Fmt
