/-
Lemmas for `ws_resume`, `lit_resume` and the corresponding refill loops (C05).  Core Lean only.
-/
import JsonV.Model.Resume

namespace JsonV.Model.Resume

theorem consumeWhitespace_le (b : Bytes) : consumeWhitespace b ≤ b.length := by
  induction b with
  | nil => simp [consumeWhitespace]
  | cons c r ih => simp only [consumeWhitespace]; split <;> simp <;> omega

/-- scanning `b ++ e`: if all of `b` is blank the scan continues into `e`, otherwise `e` is irrelevant -/
theorem consumeWhitespace_append (b e : Bytes) :
    consumeWhitespace (b ++ e) =
      if consumeWhitespace b = b.length then b.length + consumeWhitespace e else consumeWhitespace b := by
  induction b with
  | nil => simp [consumeWhitespace]
  | cons c r ih =>
    simp only [List.cons_append, consumeWhitespace]
    by_cases hc : isWs c = true
    · simp only [hc, if_true, ih, List.length_cons]
      by_cases h : consumeWhitespace r = r.length
      · simp [h]; omega
      · simp [h]
    · simp [hc]

/-- continuing at an offset inside the blank prefix is the same as scanning from the start -/
theorem consumeWhitespace_drop (b : Bytes) (pos : Nat) (h : pos ≤ consumeWhitespace b) :
    pos + consumeWhitespace (b.drop pos) = consumeWhitespace b := by
  induction b generalizing pos with
  | nil => simp [consumeWhitespace] at h ⊢; exact h
  | cons c r ih =>
    cases pos with
    | zero => simp
    | succ p =>
      simp only [consumeWhitespace] at h ⊢
      by_cases hc : isWs c = true
      · simp only [hc, if_true] at h ⊢
        simp only [List.drop_succ_cons]
        have := ih p (by omega)
        omega
      · simp [hc] at h

theorem consumeWhitespaceChunks_inv (cs : List Bytes) : ∀ (b : Bytes) (pos : Nat), pos ≤ consumeWhitespace b →
    consumeWhitespaceChunks b pos cs = consumeWhitespaceChunks (b ++ cs.flatten) 0 [] := by
  induction cs with
  | nil =>
    intro b pos h
    simp only [consumeWhitespaceChunks, List.flatten_nil, List.append_nil, List.drop_zero, Nat.zero_add,
      consumeWhitespace_drop b pos h]
  | cons c cs ih =>
    intro b pos h
    have hle := consumeWhitespace_le b
    simp only [consumeWhitespaceChunks, consumeWhitespace_drop b pos h, List.drop_zero, Nat.zero_add]
    by_cases hfull : consumeWhitespace b = b.length
    · rw [if_pos hfull]
      have hinv : consumeWhitespace b ≤ consumeWhitespace (b ++ c) := by
        rw [consumeWhitespace_append, if_pos hfull]; omega
      rw [ih (b ++ c) _ hinv]
      simp [consumeWhitespaceChunks, List.append_assoc]
    · rw [if_neg hfull]
      rw [consumeWhitespace_append, if_neg hfull]
      have : ¬ (consumeWhitespace b = (b ++ (c :: cs).flatten).length) := by simp; omega
      rw [if_neg this]

theorem consumeLiteral_eof_len (b lit : Bytes) (h : (consumeLiteral b lit).2 = .eof) :
    (consumeLiteral b lit).1 = b.length := by
  induction b generalizing lit with
  | nil => cases lit <;> simp [consumeLiteral]
  | cons c r ih =>
    cases lit with
    | nil => simp [consumeLiteral] at h
    | cons l lit =>
      simp only [consumeLiteral] at h ⊢
      by_cases hc : (c != l) = true
      · simp [hc] at h
      · simp only [hc] at h ⊢
        simp only [Bool.false_eq_true, if_false] at h ⊢
        simp [ih lit h]

theorem consumeLiteral_stable (b lit e : Bytes) (h : (consumeLiteral b lit).2 ≠ .eof) :
    consumeLiteral (b ++ e) lit = consumeLiteral b lit := by
  induction b generalizing lit with
  | nil => cases lit <;> simp [consumeLiteral] at h ⊢
  | cons c r ih =>
    cases lit with
    | nil => simp [consumeLiteral]
    | cons l lit =>
      simp only [List.cons_append, consumeLiteral] at h ⊢
      by_cases hc : (c != l) = true
      · simp [hc]
      · simp only [hc, Bool.false_eq_true, if_false] at h ⊢
        rw [ih lit h]

theorem consumeLiteralChunks_eq (cs : List Bytes) : ∀ (b lit : Bytes),
    consumeLiteralChunks b lit cs = consumeLiteral (b ++ cs.flatten) lit := by
  induction cs with
  | nil => intro b lit; simp [consumeLiteralChunks]
  | cons c cs ih =>
    intro b lit
    simp only [consumeLiteralChunks]
    by_cases h : (consumeLiteral b lit).2 = .eof
    · rw [if_pos h, ih]; simp [List.append_assoc]
    · rw [if_neg h, consumeLiteral_stable b lit _ h]

end JsonV.Model.Resume
