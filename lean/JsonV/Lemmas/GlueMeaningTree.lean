/-
Glue between the C03 meaning spec and the C01 grammar: values.  A text the spec parser accepts is a value
of the grammar (strict UTF-8, duplicate names allowed, nesting bounded by the depth of the tree).
-/
import JsonV.Lemmas.GlueMeaningStr

set_option linter.unusedSimpArgs false

namespace JsonV.Lemmas.GlueMeaningTree
open JsonV JsonV.Spec.Meaning JsonV.Spec.Grammar
open JsonV.Lemmas.GlueMeaningLex JsonV.Lemmas.GlueMeaningStr

def go : GOpts := ⟨true, true⟩

abbrev Mem := Bytes × Bytes × Bytes × Bytes × Bytes × Bytes
abbrev Elem := Bytes × Bytes × Bytes

def memPiece (m : Mem) : Bytes := m.1 ++ m.2.1 ++ m.2.2.1 ++ [0x3A] ++ m.2.2.2.1 ++ m.2.2.2.2.1 ++ m.2.2.2.2.2
def elemPiece (e : Elem) : Bytes := e.1 ++ e.2.1 ++ e.2.2

theorem joinSep_cons {x : Bytes} {l : List Bytes} (h : l ≠ []) : joinSep (x :: l) = x ++ [0x2C] ++ joinSep l := by
  cases l with
  | nil => exact absurd rfl h
  | cons y r => rfl

theorem skipWs_cons_split {b : Bytes} {c : UInt8} {r : Bytes} (h : skipWs b = c :: r) : ∃ w, JWs w ∧ b = w ++ c :: r := by
  obtain ⟨w, hw, hb⟩ := skipWs_split b
  exact ⟨w, hw, by rw [h] at hb; exact hb⟩

/-- scalars -/
theorem scalar_grammar (md d : Nat) (b : Bytes) (t : MTree) (rest : Bytes) (h : lexScalar b = some (t, rest)) :
    ∃ v, b = v ++ rest ∧ JValue go md id d v := by
  cases b with
  | nil => simp [lexScalar] at h
  | cons c r =>
    simp only [lexScalar] at h
    by_cases h22 : c = 0x22
    · subst h22
      simp only [if_true] at h
      cases hl : lexStr r with
      | none => simp [hl] at h
      | some p =>
        obtain ⟨s, r'⟩ := p
        simp only [hl, Option.some.injEq, Prod.mk.injEq] at h
        obtain ⟨_, rfl⟩ := h
        obtain ⟨lit, hj, hb⟩ := lexStr_spec hl
        exact ⟨lit, hb, .str d lit hj⟩
    · simp only [h22, if_false] at h
      by_cases h6e : c = 0x6E
      · simp only [h6e, if_true] at h
        cases hs : stripPrefix litNull (c :: r) with
        | none => rw [h6e] at hs; simp [hs] at h
        | some r' =>
          rw [h6e] at hs
          simp only [hs, Option.map_some, Option.some.injEq, Prod.mk.injEq] at h
          obtain ⟨_, rfl⟩ := h
          exact ⟨nullLit, by rw [h6e]; exact stripPrefix_eq hs, .null d⟩
      · simp only [h6e, if_false] at h
        by_cases h74 : c = 0x74
        · simp only [h74, if_true] at h
          cases hs : stripPrefix litTrue (c :: r) with
          | none => rw [h74] at hs; simp [hs] at h
          | some r' =>
            rw [h74] at hs
            simp only [hs, Option.map_some, Option.some.injEq, Prod.mk.injEq] at h
            obtain ⟨_, rfl⟩ := h
            exact ⟨trueLit, by rw [h74]; exact stripPrefix_eq hs, .true d⟩
        · simp only [h74, if_false] at h
          by_cases h66 : c = 0x66
          · simp only [h66, if_true] at h
            cases hs : stripPrefix litFalse (c :: r) with
            | none => rw [h66] at hs; simp [hs] at h
            | some r' =>
              rw [h66] at hs
              simp only [hs, Option.map_some, Option.some.injEq, Prod.mk.injEq] at h
              obtain ⟨_, rfl⟩ := h
              exact ⟨falseLit, by rw [h66]; exact stripPrefix_eq hs, .false d⟩
          · simp only [h66, if_false] at h
            cases hn : lexNum (c :: r) with
            | none => simp [hn] at h
            | some p =>
              obtain ⟨l, r'⟩ := p
              simp only [hn, Option.some.injEq, Prod.mk.injEq] at h
              obtain ⟨_, rfl⟩ := h
              obtain ⟨hb, hj⟩ := lexNum_spec hn
              exact ⟨l, hb, .num d l hj⟩

/-- What the member loop yields: a non-empty list of members of the grammar whose pieces, joined by commas and
followed by `}`, are the input (with `w0`, the whitespace before the first name, put in front). -/
def MembersG (md d : Nat) (w0 b rest : Bytes) : Prop :=
  ∃ mems : List Mem, mems ≠ [] ∧
    (∀ m ∈ mems, JWs m.1 ∧ JString true m.2.1 ∧ JWs m.2.2.1 ∧ JWs m.2.2.2.1 ∧ JWs m.2.2.2.2.2) ∧
    (∀ m ∈ mems, JValue go md id d m.2.2.2.2.1) ∧
    w0 ++ b = joinSep (mems.map memPiece) ++ 0x7D :: rest

def ElemsG (md d : Nat) (w0 b rest : Bytes) : Prop :=
  ∃ elems : List Elem, elems ≠ [] ∧ (∀ e ∈ elems, JWs e.1 ∧ JWs e.2.2) ∧ (∀ e ∈ elems, JValue go md id d e.2.1) ∧
    w0 ++ b = joinSep (elems.map elemPiece) ++ 0x5D :: rest

theorem members_step (md fuel : Nat)
    (ihV : ∀ (d : Nat) (b : Bytes) (t : MTree) (rest : Bytes), parseValue fuel b = some (t, rest) → d + t.depth ≤ md →
      ∃ v, b = v ++ rest ∧ JValue go md id d v)
    (ihM : ∀ (d : Nat) (w0 b : Bytes) (ms : List (Bytes × MTree)) (rest : Bytes), parseMembers fuel b = some (ms, rest) →
      d + depthMembers ms ≤ md → JWs w0 → MembersG md d w0 b rest)
    (d : Nat) (w0 b : Bytes) (ms : List (Bytes × MTree)) (rest : Bytes) (h : parseMembers (fuel+1) b = some (ms, rest))
    (hd : d + depthMembers ms ≤ md) (hw0 : JWs w0) : MembersG md d w0 b rest := by
  cases b with
  | nil => simp [parseMembers] at h
  | cons k r =>
    simp only [parseMembers] at h
    by_cases hk : k = 0x22
    · subst hk
      simp only [if_true] at h
      cases hl : lexStr r with
      | none => simp [hl] at h
      | some p =>
        obtain ⟨name, r1⟩ := p
        simp only [hl] at h
        obtain ⟨lit, hlit, hb⟩ := lexStr_spec hl
        cases hs1 : skipWs r1 with
        | nil => simp [hs1] at h
        | cons k2 r2 =>
          simp only [hs1] at h
          obtain ⟨w2, hw2, hr1⟩ := skipWs_cons_split hs1
          by_cases h2 : k2 = 0x3A
          · subst h2
            simp only [if_true] at h
            obtain ⟨w3, hw3, hr2⟩ := skipWs_split r2
            cases hv : parseValue fuel (skipWs r2) with
            | none => simp [hv] at h
            | some q =>
              obtain ⟨v, r3⟩ := q
              simp only [hv] at h
              cases hs3 : skipWs r3 with
              | nil => simp [hs3] at h
              | cons k4 r4 =>
                simp only [hs3] at h
                obtain ⟨w4, hw4, hr3⟩ := skipWs_cons_split hs3
                by_cases h4 : k4 = 0x2C
                · subst h4
                  simp only [if_true] at h
                  cases hm : parseMembers fuel (skipWs r4) with
                  | none => simp [hm] at h
                  | some q2 =>
                    obtain ⟨ms', r5⟩ := q2
                    simp only [hm, Option.some.injEq, Prod.mk.injEq] at h
                    obtain ⟨rfl, rfl⟩ := h
                    simp only [depthMembers] at hd
                    obtain ⟨vb, hvb, hjv⟩ := ihV d (skipWs r2) v r3 hv (by omega)
                    obtain ⟨w5, hw5, hr4⟩ := skipWs_split r4
                    obtain ⟨mems, hne, hws, hvals, heq⟩ := ihM d w5 (skipWs r4) ms' _ hm (by omega) hw5
                    refine ⟨(w0, lit, w2, w3, vb, w4) :: mems, by simp, ?_, ?_, ?_⟩
                    · intro m hm'
                      rcases List.mem_cons.mp hm' with rfl | hm'
                      · exact ⟨hw0, hlit, hw2, hw3, hw4⟩
                      · exact hws m hm'
                    · intro m hm'
                      rcases List.mem_cons.mp hm' with rfl | hm'
                      · exact hjv
                      · exact hvals m hm'
                    · rw [List.map_cons, joinSep_cons (by simpa using hne)]
                      rw [List.append_assoc, ← heq, ← hr4]
                      simp only [memPiece]
                      rw [hb, hr1, hr2, hvb, hr3]
                      simp [List.append_assoc]
                · simp only [h4, if_false] at h
                  by_cases h5 : k4 = 0x7D
                  · subst h5
                    simp only [if_true, Option.some.injEq, Prod.mk.injEq] at h
                    obtain ⟨rfl, rfl⟩ := h
                    simp only [depthMembers] at hd
                    obtain ⟨vb, hvb, hjv⟩ := ihV d (skipWs r2) v r3 hv (by omega)
                    refine ⟨[(w0, lit, w2, w3, vb, w4)], by simp, ?_, ?_, ?_⟩
                    · intro m hm'
                      simp only [List.mem_singleton] at hm'; subst hm'
                      exact ⟨hw0, hlit, hw2, hw3, hw4⟩
                    · intro m hm'
                      simp only [List.mem_singleton] at hm'; subst hm'
                      exact hjv
                    · simp only [List.map_cons, List.map_nil, joinSep, memPiece]
                      rw [hb, hr1, hr2, hvb, hr3]
                      simp [List.append_assoc]
                  · simp [h5] at h
          · simp [h2] at h
    · simp [hk] at h

theorem elems_step (md fuel : Nat)
    (ihV : ∀ (d : Nat) (b : Bytes) (t : MTree) (rest : Bytes), parseValue fuel b = some (t, rest) → d + t.depth ≤ md →
      ∃ v, b = v ++ rest ∧ JValue go md id d v)
    (ihE : ∀ (d : Nat) (w0 b : Bytes) (xs : List MTree) (rest : Bytes), parseElems fuel b = some (xs, rest) →
      d + depthList xs ≤ md → JWs w0 → ElemsG md d w0 b rest)
    (d : Nat) (w0 b : Bytes) (xs : List MTree) (rest : Bytes) (h : parseElems (fuel+1) b = some (xs, rest))
    (hd : d + depthList xs ≤ md) (hw0 : JWs w0) : ElemsG md d w0 b rest := by
  simp only [parseElems] at h
  cases hv : parseValue fuel b with
  | none => simp [hv] at h
  | some q =>
    obtain ⟨v, r3⟩ := q
    simp only [hv] at h
    cases hs3 : skipWs r3 with
    | nil => simp [hs3] at h
    | cons k4 r4 =>
      simp only [hs3] at h
      obtain ⟨w4, hw4, hr3⟩ := skipWs_cons_split hs3
      by_cases h4 : k4 = 0x2C
      · subst h4
        simp only [if_true] at h
        cases hm : parseElems fuel (skipWs r4) with
        | none => simp [hm] at h
        | some q2 =>
          obtain ⟨xs', r5⟩ := q2
          simp only [hm, Option.some.injEq, Prod.mk.injEq] at h
          obtain ⟨rfl, rfl⟩ := h
          simp only [depthList] at hd
          obtain ⟨vb, hvb, hjv⟩ := ihV d b v r3 hv (by omega)
          obtain ⟨w5, hw5, hr4⟩ := skipWs_split r4
          obtain ⟨elems, hne, hws, hvals, heq⟩ := ihE d w5 (skipWs r4) xs' _ hm (by omega) hw5
          refine ⟨(w0, vb, w4) :: elems, by simp, ?_, ?_, ?_⟩
          · intro e he
            rcases List.mem_cons.mp he with rfl | he
            · exact ⟨hw0, hw4⟩
            · exact hws e he
          · intro e he
            rcases List.mem_cons.mp he with rfl | he
            · exact hjv
            · exact hvals e he
          · rw [List.map_cons, joinSep_cons (by simpa using hne)]
            rw [List.append_assoc, ← heq, ← hr4]
            simp only [elemPiece]
            rw [hvb, hr3]
            simp [List.append_assoc]
      · simp only [h4, if_false] at h
        by_cases h5 : k4 = 0x5D
        · subst h5
          simp only [if_true, Option.some.injEq, Prod.mk.injEq] at h
          obtain ⟨rfl, rfl⟩ := h
          simp only [depthList] at hd
          obtain ⟨vb, hvb, hjv⟩ := ihV d b v r3 hv (by omega)
          refine ⟨[(w0, vb, w4)], by simp, ?_, ?_, ?_⟩
          · intro e he
            simp only [List.mem_singleton] at he; subst he
            exact ⟨hw0, hw4⟩
          · intro e he
            simp only [List.mem_singleton] at he; subst he
            exact hjv
          · simp only [List.map_cons, List.map_nil, joinSep, elemPiece]
            rw [hvb, hr3]
            simp [List.append_assoc]
        · simp [h5] at h

theorem value_step (md fuel : Nat)
    (ihM : ∀ (d : Nat) (w0 b : Bytes) (ms : List (Bytes × MTree)) (rest : Bytes), parseMembers fuel b = some (ms, rest) →
      d + depthMembers ms ≤ md → JWs w0 → MembersG md d w0 b rest)
    (ihE : ∀ (d : Nat) (w0 b : Bytes) (xs : List MTree) (rest : Bytes), parseElems fuel b = some (xs, rest) →
      d + depthList xs ≤ md → JWs w0 → ElemsG md d w0 b rest)
    (d : Nat) (b : Bytes) (t : MTree) (rest : Bytes) (h : parseValue (fuel+1) b = some (t, rest)) (hd : d + t.depth ≤ md) :
    ∃ v, b = v ++ rest ∧ JValue go md id d v := by
  cases b with
  | nil => simp [parseValue] at h
  | cons k r =>
    by_cases h7 : k = 0x7B
    · subst h7
      simp only [parseValue, if_true] at h
      cases hs : skipWs r with
      | nil => simp [hs] at h
      | cons k' r' =>
        simp only [hs] at h
        obtain ⟨w, hw, hr⟩ := skipWs_cons_split hs
        by_cases h7d : k' = 0x7D
        · subst h7d
          simp only [if_true, Option.some.injEq, Prod.mk.injEq] at h
          obtain ⟨rfl, rfl⟩ := h
          simp only [MTree.depth, depthMembers] at hd
          exact ⟨0x7B :: (w ++ [0x7D]), by rw [hr]; simp, .emptyObj d w (by omega) hw⟩
        · simp only [h7d, if_false] at h
          cases hm : parseMembers fuel (k' :: r') with
          | none => simp [hm] at h
          | some q =>
            obtain ⟨ms, r2⟩ := q
            simp only [hm, Option.some.injEq, Prod.mk.injEq] at h
            obtain ⟨rfl, rfl⟩ := h
            simp only [MTree.depth] at hd
            obtain ⟨mems, hne, hws, hvals, heq⟩ := ihM (d+1) w (k' :: r') ms _ hm (by omega) hw
            refine ⟨0x7B :: (joinSep (mems.map memPiece) ++ [0x7D]), ?_, .obj d mems (by omega) hne hws hvals (Or.inl rfl)⟩
            rw [hr, heq]; simp [List.append_assoc]
    · by_cases h5 : k = 0x5B
      · subst h5
        simp only [parseValue, show ((0x5B : UInt8) = 0x7B) = False by decide, if_false, if_true] at h
        cases hs : skipWs r with
        | nil => simp [hs] at h
        | cons k' r' =>
          simp only [hs] at h
          obtain ⟨w, hw, hr⟩ := skipWs_cons_split hs
          by_cases h5d : k' = 0x5D
          · subst h5d
            simp only [if_true, Option.some.injEq, Prod.mk.injEq] at h
            obtain ⟨rfl, rfl⟩ := h
            simp only [MTree.depth, depthList] at hd
            exact ⟨0x5B :: (w ++ [0x5D]), by rw [hr]; simp, .emptyArr d w (by omega) hw⟩
          · simp only [h5d, if_false] at h
            cases hm : parseElems fuel (k' :: r') with
            | none => simp [hm] at h
            | some q =>
              obtain ⟨xs, r2⟩ := q
              simp only [hm, Option.some.injEq, Prod.mk.injEq] at h
              obtain ⟨rfl, rfl⟩ := h
              simp only [MTree.depth] at hd
              obtain ⟨elems, hne, hws, hvals, heq⟩ := ihE (d+1) w (k' :: r') xs _ hm (by omega) hw
              refine ⟨0x5B :: (joinSep (elems.map elemPiece) ++ [0x5D]), ?_, .arr d elems (by omega) hne hws hvals⟩
              rw [hr, heq]; simp [List.append_assoc]
      · simp only [parseValue, h7, h5, if_false] at h
        exact scalar_grammar md d (k :: r) t rest h

theorem grammar_core (md : Nat) (fuel : Nat) :
    (∀ (d : Nat) (b : Bytes) (t : MTree) (rest : Bytes), parseValue fuel b = some (t, rest) → d + t.depth ≤ md →
      ∃ v, b = v ++ rest ∧ JValue go md id d v) ∧
    (∀ (d : Nat) (w0 b : Bytes) (ms : List (Bytes × MTree)) (rest : Bytes), parseMembers fuel b = some (ms, rest) →
      d + depthMembers ms ≤ md → JWs w0 → MembersG md d w0 b rest) ∧
    (∀ (d : Nat) (w0 b : Bytes) (xs : List MTree) (rest : Bytes), parseElems fuel b = some (xs, rest) →
      d + depthList xs ≤ md → JWs w0 → ElemsG md d w0 b rest) := by
  induction fuel with
  | zero =>
    refine ⟨?_, ?_, ?_⟩
    · intro d b t rest h; simp [parseValue] at h
    · intro d w0 b ms rest h; simp [parseMembers] at h
    · intro d w0 b xs rest h; simp [parseElems] at h
  | succ n ih =>
    obtain ⟨ihV, ihM, ihE⟩ := ih
    exact ⟨value_step md n ihM ihE, members_step md n ihV ihM, elems_step md n ihV ihE⟩

theorem skipWs_nil_JWs {r : Bytes} (h : (skipWs r).isEmpty = true) : JWs r := by
  obtain ⟨w, hw, hr⟩ := skipWs_split r
  have : skipWs r = [] := by simpa using h
  rw [this, List.append_nil] at hr
  rw [hr]; exact hw

/-- Any fuel: a text the spec parser accepts is `ws value ws` of the C01 grammar (strict UTF-8, duplicate names
allowed, key function irrelevant), for every nesting bound that admits the tree. -/
theorem parseTreeF_grammar (fuel : Nat) (b : Bytes) (t : MTree) (md : Nat) (h : parseTreeF fuel b = some t) (hd : t.depth ≤ md) :
    JText go md id b := by
  unfold parseTreeF at h
  cases hv : parseValue fuel (skipWs b) with
  | none => simp [hv] at h
  | some q =>
    obtain ⟨t', r⟩ := q
    simp only [hv] at h
    split at h
    · next hws =>
      simp only [Option.some.injEq] at h; subst h
      obtain ⟨v, hb, hj⟩ := (grammar_core md fuel).1 0 (skipWs b) t' r hv (by omega)
      obtain ⟨w1, hw1, hb1⟩ := skipWs_split b
      exact ⟨w1, v, r, hw1, hj, skipWs_nil_JWs hws, by rw [List.append_assoc, ← hb]; exact hb1⟩
    · simp at h

end JsonV.Lemmas.GlueMeaningTree
