/-
C11 lemmas: (a) every `char` of C01's STRICT string grammar has a meaning in the sense of Spec.StringSpec.Unescapes,
so a literal the strict scanner accepts is a `StringLiteral` and AppendUnquote returns its meaning; (b) ReformatString's
PreserveRawStrings loop with the escape options on, run over such a literal, yields a literal with the same meaning.
-/
import JsonV.Lemmas.QuoteJString
import JsonV.Lemmas.QuotePreserve

namespace JsonV.Lemmas.QuoteReformat
open JsonV JsonV.Model.Utf8 JsonV.Model.Quote JsonV.Lemmas.QuoteUtf8 JsonV.Lemmas.QuoteL JsonV.Spec.StringSpec JsonV.Lemmas.QuoteSpec JsonV.Lemmas.QuoteWf
open JsonV.Spec.Grammar

/-! ### C01's strict grammar ⊆ the meaning relation `Unescapes` -/

theorem hexDigitVal_of_HexDigit (x : UInt8) (h : HexDigit x) : hexDigitVal x = some (hexValue x) := by
  rw [← JsonV.Lemmas.QuoteMeaning.hexVal_eq, ← JsonV.Lemmas.GlueQuote.hexVal_eq, JsonV.Lemmas.WireString.hexVal_spec, if_pos h]

theorem hex4_of_HexDigit (a b c d : UInt8) (ha : HexDigit a) (hb : HexDigit b) (hc : HexDigit c) (hd : HexDigit d) :
    hex4 a b c d = some (hex4Value a b c d) := by
  simp only [hex4, hexDigitVal_of_HexDigit _ ha, hexDigitVal_of_HexDigit _ hb, hexDigitVal_of_HexDigit _ hc,
    hexDigitVal_of_HexDigit _ hd, hex4Value]
  congr 1; omega

theorem simpleEscape_mem (c : UInt8) (h : SimpleEscape c) : ∃ v, (c, v) ∈ simpleEscapes := by
  rcases h with rfl | rfl | rfl | rfl | rfl | rfl | rfl | rfl
  · exact ⟨0x22, by decide⟩
  · exact ⟨0x5c, by decide⟩
  · exact ⟨0x2f, by decide⟩
  · exact ⟨0x08, by decide⟩
  · exact ⟨0x0c, by decide⟩
  · exact ⟨0x0a, by decide⟩
  · exact ⟨0x0d, by decide⟩
  · exact ⟨0x09, by decide⟩

/-- every `char` of the strict grammar has a meaning -/
theorem unescapes_of_jchar (c rest m : Bytes) (hc : JChar true c) (hr : Unescapes rest m) : ∃ m', Unescapes (c ++ rest) m' := by
  cases hc with
  | plain x h1 h2 h3 h4 =>
    have hx : x.toNat < runeSelf := by simpa [UInt8.lt_iff_toNat_lt, runeSelf] using h2
    have h20 : 0x20 ≤ x.toNat := by simpa [UInt8.le_iff_toNat_le] using h1
    have hd := decodeRune_ascii x [] hx
    refine ⟨_, Unescapes.unescaped (p := [x]) (r := x.toNat) (by simpa using hd) (by simp) ?_ h20 ?_ ?_ hr⟩
    · have : ¬ x.toNat = runeError := by simp only [runeError, runeSelf] at *; omega
      simp [illFormedHead, hd, this]
    · intro e; exact h3 (by have := u8_eq_of_toNat (by omega) e; simpa using this)
    · intro e; exact h4 (by have := u8_eq_of_toNat (by omega) e; simpa using this)
  | utf8 _ hp =>
    obtain ⟨hlen, hgt, b0, p', rfl, hb0⟩ := JsonV.Lemmas.WireString.decodeRune_of_multi c [] hp
    simp only [List.append_nil] at hlen
    have h1 : 1 < (decodeRune (b0 :: p')).2 := by rw [hlen]; exact hgt
    have hge := decodeRune_multi_ge b0 p' h1
    refine ⟨_, Unescapes.unescaped (p := b0 :: p') (r := (decodeRune (b0 :: p')).1) ?_ (by simp) ?_ (by omega) (by omega) (by omega) hr⟩
    · rw [← hlen]
    · have : ¬ (decodeRune (b0 :: p')).2 = 1 := by omega
      simp [illFormedHead, this]
  | raw x h => cases h
  | esc x h =>
    obtain ⟨v, hv⟩ := simpleEscape_mem x h
    exact ⟨_, Unescapes.simple hv hr⟩
  | uni a b c d ha hb hc hd hs =>
    have hns : isSurrogate (hex4Value a b c d) = false := by
      have := hs rfl
      simp only [Surrogate] at this
      simp only [isSurrogate, Bool.and_eq_false_iff, decide_eq_false_iff_not]; omega
    exact ⟨_, Unescapes.unicode (hex4_of_HexDigit a b c d ha hb hc hd) hns hr⟩
  | pair a b c d e f g h ha hb hc hd he hf hg hh hhi hlo =>
    have h1 : isHighSurrogate (hex4Value a b c d) = true := by
      simp only [HighSurrogate] at hhi; simp [isHighSurrogate]; omega
    have h2 : isLowSurrogate (hex4Value e f g h) = true := by
      simp only [LowSurrogate] at hlo; simp [isLowSurrogate]; omega
    exact ⟨_, Unescapes.pair (hex4_of_HexDigit a b c d ha hb hc hd) (hex4_of_HexDigit e f g h he hf hg hh) h1 h2 hr⟩

theorem unescapes_of_jchars (body : Bytes) (h : JChars true body) : ∃ m, Unescapes body m := by
  induction h with
  | nil => exact ⟨[], Unescapes.nil⟩
  | cons c r hc _ ih =>
    obtain ⟨m, hm⟩ := ih
    exact unescapes_of_jchar c r m hc hm

/-- A literal of C01's strict grammar is a `StringLiteral` with some meaning. -/
theorem stringLiteral_of_jstring (lit : Bytes) (h : JString true lit) : ∃ m, StringLiteral lit m := by
  obtain ⟨body, hb, rfl⟩ := h
  obtain ⟨m, hm⟩ := unescapes_of_jchars body hb
  exact ⟨m, body, rfl, hm⟩

/-! ### The PreserveRawStrings loop keeps the meaning of a strictly valid literal -/

open JsonV.Lemmas.QuotePreserve JsonV.Lemmas.QuoteMeaning

/-- bytes the loop never rewrites: ASCII other than `<` `>` `&` -/
def Inert (b : UInt8) : Prop := b.toNat < runeSelf ∧ isHTMLChar b.toNat = false

theorem PL_run (html js : Bool) (l : Bytes) (hl : ∀ b ∈ l, Inert b) (rest : Bytes) (k : Nat) :
    preserveLoop html js (l.length + k) (l ++ rest) = l ++ preserveLoop html js k rest := by
  induction l with
  | nil => simp
  | cons b l ih =>
    have hb := hl b (by simp)
    have : (b :: l).length + k = (l.length + k) + 1 := by simp; omega
    rw [this, List.cons_append, PL_ascii_plain html js _ b _ hb.1 (by simp [hb.2])]
    rw [ih (fun x hx => hl x (by simp [hx]))]
    rfl

theorem inert_of_hex : ∀ x : UInt8, (hexDigitVal x).isSome = true → Inert x := by
  apply JsonV.Lemmas.GlueQuote.forall_u8'
  unfold Inert
  decide +kernel

theorem inert_of_simple (e v : UInt8) (h : (e, v) ∈ simpleEscapes) : Inert e := by
  simp only [simpleEscapes, List.mem_cons, Prod.mk.injEq, List.not_mem_nil, or_false] at h
  rcases h with ⟨rfl, _⟩ | ⟨rfl, _⟩ | ⟨rfl, _⟩ | ⟨rfl, _⟩ | ⟨rfl, _⟩ | ⟨rfl, _⟩ | ⟨rfl, _⟩ | ⟨rfl, _⟩ <;>
    (unfold Inert; decide)

theorem inert_hex4 {a b c d : UInt8} {v : Nat} (h : hex4 a b c d = some v) : Inert a ∧ Inert b ∧ Inert c ∧ Inert d := by
  simp only [hex4] at h
  cases ha : hexDigitVal a <;> cases hb : hexDigitVal b <;> cases hc : hexDigitVal c <;> cases hd : hexDigitVal d <;>
    simp only [ha, hb, hc, hd] at h <;> first | cases h | skip
  exact ⟨inert_of_hex a (by simp [ha]), inert_of_hex b (by simp [hb]), inert_of_hex c (by simp [hc]), inert_of_hex d (by simp [hd])⟩

theorem inert_5c : Inert 0x5c := by unfold Inert; decide
theorem inert_75 : Inert 0x75 := by unfold Inert; decide
theorem inert_22 : Inert 0x22 := by unfold Inert; decide

theorem preserve_close (html js : Bool) (junk : Bytes) (e : Err) :
    unqLoop (preserveLoop html js 1 (0x22 :: junk)) e = ([], e) := by
  rw [PL_ascii_plain html js 0 0x22 junk (by decide) (by simp [isHTMLChar]), preserveLoop_zero]
  exact unqLoop_close e

/-- The loop output for a body with meaning `m` (followed by the closing quote and anything) unquotes to `m`. -/
theorem preserve_meaning (html js : Bool) {body m : Bytes} (h : Unescapes body m) (junk : Bytes) (e : Err) :
    unqLoop (preserveLoop html js (body.length + 1) (body ++ 0x22 :: junk)) e = (m, e) := by
  induction h with
  | nil => simpa using preserve_close html js junk e
  | @unescaped p rest m r hd hp hi h20 hq hb _ ih =>
    match p, hp with
    | c :: p', _ =>
      by_cases h0 : c.toNat < runeSelf
      · have hda := decodeRune_ascii c p' h0
        rw [hda] at hd
        have hp' : p' = [] := by
          have : (c :: p').length = 1 := by injection hd with _ h2; exact h2.symm
          simpa using this
        have hr : r = c.toNat := by injection hd with h1 _; exact h1.symm
        subst hp' hr
        have hk : ([c] ++ rest).length + 1 = (rest.length + 1) + 1 := by simp
        rw [hk]
        cases hh : (isHTMLChar c.toNat && html)
        · simp only [List.cons_append, List.nil_append]
          rw [PL_ascii_plain html js _ c _ h0 hh]
          have hne : noEscape c.toNat = true := by
            simp only [noEscape, Bool.and_eq_true, decide_eq_true_eq, ne_eq]
            exact ⟨⟨⟨h0, h20⟩, hb⟩, hq⟩
          rw [unqLoop_cont e (unqStep_plain c _ hne)]
          simp [ih]
        · simp only [List.cons_append, List.nil_append]
          rw [PL_ascii_esc html js _ c _ h0 hh, unqLoop_cont e (unqStep_escASCII c h0 _)]
          simp [ih]
      · have h1 : 1 < (decodeRune (c :: p')).2 := by
          rcases decodeRune_high c p' h0 with h | h
          · exact h
          · simp [illFormedHead, h] at hi
        have hlen : (decodeRune (c :: p')).2 = (c :: p').length := by rw [hd]
        have hr : (decodeRune (c :: p')).1 = r := by rw [hd]
        have hdt : ∀ q, decodeRune (c :: (p' ++ q)) = (r, (c :: p').length) := by
          intro q
          have := decodeRune_take_append (c :: p') q h1
          rw [hlen, List.take_length, hd] at this
          exact this
        have hk : ((c :: p') ++ rest).length + 1 = ((p'.length + rest.length + 1)) + 1 := by simp
        have hsub : (p'.length + rest.length + 1) + 1 - (c :: p').length = rest.length + 1 := by simp; omega
        have hdrop : ∀ q : Bytes, List.drop (c :: p').length (c :: (p' ++ q)) = q := by
          intro q; rw [← List.cons_append]; exact List.drop_left
        rw [hk, List.append_assoc, List.cons_append]
        by_cases hj : (r = 0x2028 ∨ r = 0x2029) ∧ js = true
        · have hj' : ((decodeRune (c :: (p' ++ (rest ++ 0x22 :: junk)))).1 = 0x2028 ∨
              (decodeRune (c :: (p' ++ (rest ++ 0x22 :: junk)))).1 = 0x2029) ∧ js = true := by rw [hdt]; exact hj
          rw [PL_multi_esc html js _ c _ h0 hj', hdt, hsub, hdrop]
          have hr16 : r < 0x10000 := by omega
          rw [appendEscapedUnicode_bmp _ hr16, unqLoop_cont e (unqStep_u16 r hr16 (by simp [isSurrogate]; omega) _)]
          have hne : ¬ ((decodeRune (c :: p')).1 = runeError ∧ (decodeRune (c :: p')).2 = 1) := by omega
          have hen := encodeRune_decodeRune c p' hne
          rw [hr, hlen, List.take_length] at hen
          simp only [appendEscapedUTF16, List.length_cons, List.length_nil, List.drop_left']
          simp [hen, ih]
        · have hj' : ¬ (((decodeRune (c :: (p' ++ (rest ++ 0x22 :: junk)))).1 = 0x2028 ∨
              (decodeRune (c :: (p' ++ (rest ++ 0x22 :: junk)))).1 = 0x2029) ∧ js = true) := by rw [hdt]; exact hj
          rw [PL_multi_plain html js _ c _ h0 hj', hdt, hsub, hdrop]
          have hmin : min (c :: p').length (p'.length + rest.length + 1 + 1) = (c :: p').length := by simp; omega
          have htake : ∀ q : Bytes, List.take (c :: p').length (c :: (p' ++ q)) = c :: p' := by
            intro q; rw [← List.cons_append]; exact List.take_left
          rw [hmin, htake]
          rw [unqLoop_cont e (unqStep_unescaped (c :: p') r hd (by simp) hi h20 hq hb _)]
          simp [ih]
  | @simple e' v rest m hmem _ ih =>
    have hrun := PL_run html js [0x5c, e'] (by
      intro b hb; simp at hb; rcases hb with rfl | rfl
      · exact inert_5c
      · exact inert_of_simple _ v hmem) (rest ++ 0x22 :: junk) (rest.length + 1)
    have hk : (0x5c :: e' :: rest).length + 1 = [0x5c, e'].length + (rest.length + 1) := by simp; omega
    rw [hk, show (0x5c :: e' :: rest) ++ 0x22 :: junk = [0x5c, e'] ++ (rest ++ 0x22 :: junk) from rfl, hrun]
    simp only [List.cons_append, List.nil_append]
    rw [unqLoop_cont e (unqStep_simple e' v hmem _)]
    simp [ih]
  | @unicode a b c d v rest m h4 hs _ ih =>
    obtain ⟨ia, ib, ic, id⟩ := inert_hex4 h4
    have hrun := PL_run html js [0x5c, 0x75, a, b, c, d] (by
      intro x hx; simp at hx
      rcases hx with rfl | rfl | rfl | rfl | rfl | rfl
      · exact inert_5c
      · exact inert_75
      all_goals assumption) (rest ++ 0x22 :: junk) (rest.length + 1)
    have hk : (0x5c :: 0x75 :: a :: b :: c :: d :: rest).length + 1 = [0x5c, 0x75, a, b, c, d].length + (rest.length + 1) := by
      simp; omega
    rw [hk, show (0x5c :: 0x75 :: a :: b :: c :: d :: rest) ++ 0x22 :: junk = [0x5c, 0x75, a, b, c, d] ++ (rest ++ 0x22 :: junk) from rfl, hrun]
    simp only [List.cons_append, List.nil_append]
    rw [unqLoop_cont e (unqStep_unicode a b c d v h4 hs _)]
    simp [ih]
  | @pair a b c d a' b' c' d' hi lo rest m h1 h2 hh hl _ ih =>
    obtain ⟨ia, ib, ic, id⟩ := inert_hex4 h1
    obtain ⟨ja, jb, jc, jd⟩ := inert_hex4 h2
    have hrun := PL_run html js [0x5c, 0x75, a, b, c, d, 0x5c, 0x75, a', b', c', d'] (by
      intro x hx; simp at hx
      rcases hx with rfl | rfl | rfl | rfl | rfl | rfl | rfl | rfl | rfl | rfl | rfl | rfl
      · exact inert_5c
      · exact inert_75
      · exact ia
      · exact ib
      · exact ic
      · exact id
      · exact inert_5c
      · exact inert_75
      all_goals assumption) (rest ++ 0x22 :: junk) (rest.length + 1)
    have hk : (0x5c :: 0x75 :: a :: b :: c :: d :: 0x5c :: 0x75 :: a' :: b' :: c' :: d' :: rest).length + 1 =
        [0x5c, 0x75, a, b, c, d, 0x5c, 0x75, a', b', c', d'].length + (rest.length + 1) := by simp; omega
    rw [hk, show (0x5c :: 0x75 :: a :: b :: c :: d :: 0x5c :: 0x75 :: a' :: b' :: c' :: d' :: rest) ++ 0x22 :: junk =
      [0x5c, 0x75, a, b, c, d, 0x5c, 0x75, a', b', c', d'] ++ (rest ++ 0x22 :: junk) from rfl, hrun]
    simp only [List.cons_append, List.nil_append]
    rw [unqLoop_cont e (unqStep_pair a b c d a' b' c' d' hi lo h1 h2 hh hl _)]
    simp [ih]

/-- A literal accepted by the strict scanner has a meaning in the sense of `StringLiteral`, and AppendUnquote returns it. -/
theorem consume_strict_meaning (src : Bytes) (n : Nat) (nc : Bool) (h : consumeString true src = (n, Err.ok, nc)) :
    ∃ body m junk, src = 0x22 :: (body ++ 0x22 :: junk) ∧ n = body.length + 2 ∧ Unescapes body m ∧
      appendUnquote (src.take n) = (m, Err.ok) := by
  obtain ⟨hn, hj⟩ := (JsonV.Lemmas.GlueQuote.consumeString_grammar src true n).mp ⟨nc, h⟩
  obtain ⟨m, body, hlit, hu⟩ := stringLiteral_of_jstring _ hj
  have hlen : n = body.length + 2 := by
    have := congrArg List.length hlit
    simp only [List.length_take, List.length_cons, List.length_append, List.length_nil] at this
    omega
  refine ⟨body, m, src.drop n, ?_, hlen, hu, ?_⟩
  · have := List.take_append_drop n src
    rw [hlit] at this
    simpa using this.symm
  · rw [hlit]; exact appendUnquote_meaning _ m ⟨body, rfl, hu⟩

/-- ReformatString's PreserveRawStrings loop, run over a strictly valid literal, yields a literal with the same meaning
(and no unquote error). -/
theorem preserve_loop_meaning (html js : Bool) (src : Bytes) (n : Nat) (nc : Bool) (h : consumeString true src = (n, Err.ok, nc)) :
    appendUnquote (preserveLoop html js n src) = appendUnquote (src.take n) := by
  obtain ⟨body, m, junk, hsrc, hn, hu, hm⟩ := consume_strict_meaning src n nc h
  rw [hm, hsrc, hn]
  rw [PL_ascii_plain html js (body.length + 1) 0x22 _ (by decide) (by simp [isHTMLChar])]
  simp only [appendUnquote, ↓reduceIte]
  exact preserve_meaning html js hu junk Err.ok

/-! ### The loop output is again a strict literal and a fixed point of the loop -/

/-- `l` passes through the PreserveRawStrings loop unchanged, whatever follows -/
def Fixed (html js : Bool) (l : Bytes) : Prop :=
  ∀ (rest : Bytes) (k : Nat), preserveLoop html js (l.length + k) (l ++ rest) = l ++ preserveLoop html js k rest

theorem fixed_nil (html js : Bool) : Fixed html js [] := by intro rest k; simp
theorem fixed_append {html js : Bool} {a b : Bytes} (ha : Fixed html js a) (hb : Fixed html js b) : Fixed html js (a ++ b) := by
  intro rest k
  rw [List.append_assoc, List.length_append, Nat.add_assoc, ha, hb, List.append_assoc]
theorem fixed_inert {html js : Bool} {l : Bytes} (h : ∀ b ∈ l, Inert b) : Fixed html js l :=
  fun rest k => PL_run html js l h rest k

theorem spec_hexDigit_hexLower : ∀ n : Fin 16, hexDigitVal (hexLower n.val) = some n.val := by decide +kernel
theorem inert_hexLower : ∀ n : Fin 16, Inert (hexLower n.val) := by unfold Inert; decide +kernel

theorem hex4_digits (a b c d : Nat) (ha : a < 16) (hb : b < 16) (hc : c < 16) (hd : d < 16) :
    hex4 (hexLower a) (hexLower b) (hexLower c) (hexLower d) = some (a * 4096 + b * 256 + c * 16 + d) := by
  have h1 := spec_hexDigit_hexLower ⟨a, ha⟩
  have h2 := spec_hexDigit_hexLower ⟨b, hb⟩
  have h3 := spec_hexDigit_hexLower ⟨c, hc⟩
  have h4 := spec_hexDigit_hexLower ⟨d, hd⟩
  simp only at h1 h2 h3 h4
  simp only [hex4, h1, h2, h3, h4]

theorem hex4_u16 (x : Nat) (hx : x < 65536) :
    hex4 (hexLower ((x >>> 12) % 16)) (hexLower ((x >>> 8) % 16)) (hexLower ((x >>> 4) % 16)) (hexLower (x % 16)) = some x := by
  rw [hex4_digits _ _ _ _ (Nat.mod_lt _ (by omega)) (Nat.mod_lt _ (by omega)) (Nat.mod_lt _ (by omega)) (Nat.mod_lt _ (by omega))]
  simp only [Nat.shiftRight_eq_div_pow]
  congr 1; omega

theorem inert_u16 (x : Nat) : ∀ b ∈ appendEscapedUTF16 x, Inert b := by
  intro b hb
  simp only [appendEscapedUTF16, List.mem_cons, List.not_mem_nil, or_false] at hb
  rcases hb with rfl | rfl | rfl | rfl | rfl | rfl
  · exact inert_5c
  · exact inert_75
  · exact inert_hexLower ⟨_, Nat.mod_lt _ (by omega)⟩
  · exact inert_hexLower ⟨_, Nat.mod_lt _ (by omega)⟩
  · exact inert_hexLower ⟨_, Nat.mod_lt _ (by omega)⟩
  · exact inert_hexLower ⟨_, Nat.mod_lt _ (by omega)⟩

/-- `\uXXXX` as emitted by appendEscapedUTF16, as a production of the meaning relation -/
theorem unescapes_u16 (x : Nat) (hx : x < 65536) (hs : isSurrogate x = false) {rest m : Bytes} (h : Unescapes rest m) :
    Unescapes (appendEscapedUTF16 x ++ rest) (encodeRune x ++ m) := by
  simp only [appendEscapedUTF16, List.cons_append, List.nil_append]
  exact Unescapes.unicode (hex4_u16 x hx) hs h

theorem fixed_ascii {html js : Bool} (c : UInt8) (h0 : c.toNat < runeSelf) (hh : (isHTMLChar c.toNat && html) = false) :
    Fixed html js [c] := by
  intro rest k
  have : [c].length + k = k + 1 := by simp; omega
  rw [this]; exact PL_ascii_plain html js k c rest h0 hh

theorem fixed_multi {html js : Bool} (c : UInt8) (p' : Bytes) (r : Nat) (h0 : ¬ c.toNat < runeSelf)
    (hdt : ∀ q, decodeRune (c :: (p' ++ q)) = (r, (c :: p').length)) (hj : ¬ ((r = 0x2028 ∨ r = 0x2029) ∧ js = true)) :
    Fixed html js (c :: p') := by
  intro rest k
  have hj' : ¬ (((decodeRune (c :: (p' ++ rest))).1 = 0x2028 ∨ (decodeRune (c :: (p' ++ rest))).1 = 0x2029) ∧ js = true) := by
    rw [hdt]; exact hj
  have hk : (c :: p').length + k = (p'.length + k) + 1 := by simp; omega
  rw [hk, List.cons_append, PL_multi_plain html js _ c _ h0 hj', hdt]
  have hmin : min (c :: p').length (p'.length + k + 1) = (c :: p').length := by simp
  have htake : List.take (c :: p').length (c :: (p' ++ rest)) = c :: p' := by
    rw [← List.cons_append]; exact List.take_left
  have hdrop : List.drop (c :: p').length (c :: (p' ++ rest)) = rest := by
    rw [← List.cons_append]; exact List.drop_left
  have hsub : p'.length + k + 1 - (c :: p').length = k := by simp
  rw [hmin, htake, hdrop, hsub]

/-- Shape of the loop output over a body with meaning `m`: some `tb` followed by the closing quote, where `tb` is left
unchanged by the loop and has the same meaning `m`. -/
theorem preserve_shape (html js : Bool) {body m : Bytes} (h : Unescapes body m) :
    ∃ tb, (∀ junk, preserveLoop html js (body.length + 1) (body ++ 0x22 :: junk) = tb ++ [0x22]) ∧
      Fixed html js tb ∧ Unescapes tb m := by
  induction h with
  | nil =>
    refine ⟨[], fun junk => ?_, fixed_nil html js, Unescapes.nil⟩
    simp only [List.length_nil, Nat.zero_add, List.nil_append]
    rw [PL_ascii_plain html js 0 0x22 junk (by decide) (by simp [isHTMLChar]), preserveLoop_zero]
  | @unescaped p rest m r hd hp hi h20 hq hb hrest ih =>
    obtain ⟨tb, hout, hfix, hun⟩ := ih
    match p, hp with
    | c :: p', _ =>
      by_cases h0 : c.toNat < runeSelf
      · have hda := decodeRune_ascii c p' h0
        have hd0 := hd
        rw [hda] at hd
        have hp' : p' = [] := by
          have : (c :: p').length = 1 := by injection hd with _ h2; exact h2.symm
          simpa using this
        have hr : r = c.toNat := by injection hd with h1 _; exact h1.symm
        subst hp' hr
        have hk : ([c] ++ rest).length + 1 = (rest.length + 1) + 1 := by simp
        cases hh : (isHTMLChar c.toNat && html)
        · refine ⟨[c] ++ tb, fun junk => ?_, fixed_append (fixed_ascii c h0 hh) hfix, Unescapes.unescaped hd0 (by simp) hi h20 hq hb hun⟩
          rw [hk]; simp only [List.cons_append, List.nil_append]
          rw [PL_ascii_plain html js _ c _ h0 hh, hout]
        · refine ⟨appendEscapedASCII c.toNat ++ tb, fun junk => ?_, fixed_append (fixed_inert ?_) hfix, ?_⟩
          · rw [hk]; simp only [List.cons_append, List.nil_append]
            rw [PL_ascii_esc html js _ c _ h0 hh, hout, List.append_assoc]
          · have hc : isHTMLChar c.toNat = true := by cases h1 : isHTMLChar c.toNat <;> simp_all
            have : appendEscapedASCII c.toNat = appendEscapedUTF16 c.toNat := by
              simp only [isHTMLChar, Bool.or_eq_true, decide_eq_true_eq] at hc
              rcases hc with (h | h) | h <;> rw [h] <;> rfl
            rw [this]; exact inert_u16 _
          · have hc : isHTMLChar c.toNat = true := by cases h1 : isHTMLChar c.toNat <;> simp_all
            have : appendEscapedASCII c.toNat = appendEscapedUTF16 c.toNat := by
              simp only [isHTMLChar, Bool.or_eq_true, decide_eq_true_eq] at hc
              rcases hc with (h | h) | h <;> rw [h] <;> rfl
            rw [this]
            have := unescapes_u16 c.toNat (by simp only [runeSelf] at h0; omega) (by simp [isSurrogate]; simp only [runeSelf] at h0; omega) hun
            rw [encodeRune_ascii c h0] at this
            exact this
      · have h1 : 1 < (decodeRune (c :: p')).2 := by
          rcases decodeRune_high c p' h0 with h | h
          · exact h
          · simp [illFormedHead, h] at hi
        have hlen : (decodeRune (c :: p')).2 = (c :: p').length := by rw [hd]
        have hr : (decodeRune (c :: p')).1 = r := by rw [hd]
        have hdt : ∀ q, decodeRune (c :: (p' ++ q)) = (r, (c :: p').length) := by
          intro q
          have := decodeRune_take_append (c :: p') q h1
          rw [hlen, List.take_length, hd] at this
          exact this
        have hk : ((c :: p') ++ rest).length + 1 = ((p'.length + rest.length + 1)) + 1 := by simp
        have hsub : (p'.length + rest.length + 1) + 1 - (c :: p').length = rest.length + 1 := by simp; omega
        have hdrop : ∀ q : Bytes, List.drop (c :: p').length (c :: (p' ++ q)) = q := by
          intro q; rw [← List.cons_append]; exact List.drop_left
        by_cases hj : (r = 0x2028 ∨ r = 0x2029) ∧ js = true
        · have hr16 : r < 0x10000 := by omega
          have hne : ¬ ((decodeRune (c :: p')).1 = runeError ∧ (decodeRune (c :: p')).2 = 1) := by omega
          have hen := encodeRune_decodeRune c p' hne
          rw [hr, hlen, List.take_length] at hen
          refine ⟨appendEscapedUTF16 r ++ tb, fun junk => ?_, fixed_append (fixed_inert (inert_u16 r)) hfix, ?_⟩
          · have hj' : ((decodeRune (c :: (p' ++ (rest ++ 0x22 :: junk)))).1 = 0x2028 ∨
                (decodeRune (c :: (p' ++ (rest ++ 0x22 :: junk)))).1 = 0x2029) ∧ js = true := by rw [hdt]; exact hj
            rw [hk, List.append_assoc, List.cons_append, PL_multi_esc html js _ c _ h0 hj', hdt, hsub, hdrop,
              appendEscapedUnicode_bmp _ hr16, hout, List.append_assoc]
          · have := unescapes_u16 r hr16 (by simp [isSurrogate]; omega) hun
            rw [hen] at this; exact this
        · refine ⟨(c :: p') ++ tb, fun junk => ?_, fixed_append (fixed_multi c p' r h0 hdt hj) hfix,
            Unescapes.unescaped hd (by simp) hi h20 hq hb hun⟩
          have := fixed_multi (html := html) (js := js) c p' r h0 hdt hj (rest ++ 0x22 :: junk) (rest.length + 1)
          have hk2 : ((c :: p') ++ rest).length + 1 = (c :: p').length + (rest.length + 1) := by simp; omega
          rw [hk2, List.append_assoc, this, hout, List.append_assoc]
  | @simple e' v rest m hmem _ ih =>
    obtain ⟨tb, hout, hfix, hun⟩ := ih
    have hin : ∀ b ∈ [0x5c, e'], Inert b := by
      intro b hb; simp at hb; rcases hb with rfl | rfl
      · exact inert_5c
      · exact inert_of_simple _ v hmem
    refine ⟨[0x5c, e'] ++ tb, fun junk => ?_, fixed_append (fixed_inert hin) hfix, Unescapes.simple hmem hun⟩
    have hk : (0x5c :: e' :: rest).length + 1 = [0x5c, e'].length + (rest.length + 1) := by simp; omega
    rw [hk, show (0x5c :: e' :: rest) ++ 0x22 :: junk = [0x5c, e'] ++ (rest ++ 0x22 :: junk) from rfl,
      PL_run html js _ hin, hout, List.append_assoc]
  | @unicode a b c d v rest m h4 hs _ ih =>
    obtain ⟨tb, hout, hfix, hun⟩ := ih
    obtain ⟨ia, ib, ic, id⟩ := inert_hex4 h4
    have hin : ∀ x ∈ [0x5c, 0x75, a, b, c, d], Inert x := by
      intro x hx; simp at hx
      rcases hx with rfl | rfl | rfl | rfl | rfl | rfl
      · exact inert_5c
      · exact inert_75
      all_goals assumption
    refine ⟨[0x5c, 0x75, a, b, c, d] ++ tb, fun junk => ?_, fixed_append (fixed_inert hin) hfix, Unescapes.unicode h4 hs hun⟩
    have hk : (0x5c :: 0x75 :: a :: b :: c :: d :: rest).length + 1 = [0x5c, 0x75, a, b, c, d].length + (rest.length + 1) := by
      simp; omega
    rw [hk, show (0x5c :: 0x75 :: a :: b :: c :: d :: rest) ++ 0x22 :: junk = [0x5c, 0x75, a, b, c, d] ++ (rest ++ 0x22 :: junk) from rfl,
      PL_run html js _ hin, hout, List.append_assoc]
  | @pair a b c d a' b' c' d' hi lo rest m h1 h2 hh hl _ ih =>
    obtain ⟨tb, hout, hfix, hun⟩ := ih
    obtain ⟨ia, ib, ic, id⟩ := inert_hex4 h1
    obtain ⟨ja, jb, jc, jd⟩ := inert_hex4 h2
    have hin : ∀ x ∈ [0x5c, 0x75, a, b, c, d, 0x5c, 0x75, a', b', c', d'], Inert x := by
      intro x hx; simp at hx
      rcases hx with rfl | rfl | rfl | rfl | rfl | rfl | rfl | rfl | rfl | rfl | rfl | rfl
      · exact inert_5c
      · exact inert_75
      · exact ia
      · exact ib
      · exact ic
      · exact id
      · exact inert_5c
      · exact inert_75
      all_goals assumption
    refine ⟨[0x5c, 0x75, a, b, c, d, 0x5c, 0x75, a', b', c', d'] ++ tb, fun junk => ?_, fixed_append (fixed_inert hin) hfix,
      Unescapes.pair h1 h2 hh hl hun⟩
    have hk : (0x5c :: 0x75 :: a :: b :: c :: d :: 0x5c :: 0x75 :: a' :: b' :: c' :: d' :: rest).length + 1 =
        [0x5c, 0x75, a, b, c, d, 0x5c, 0x75, a', b', c', d'].length + (rest.length + 1) := by simp; omega
    rw [hk, show (0x5c :: 0x75 :: a :: b :: c :: d :: 0x5c :: 0x75 :: a' :: b' :: c' :: d' :: rest) ++ 0x22 :: junk =
      [0x5c, 0x75, a, b, c, d, 0x5c, 0x75, a', b', c', d'] ++ (rest ++ 0x22 :: junk) from rfl,
      PL_run html js _ hin, hout, List.append_assoc]

open JsonV.Lemmas.QuoteCanon in
/-- A body with a meaning (`Unescapes`) followed by the closing quote is consumed by the STRICT scanner. -/
theorem csLoop_of_unescapes {b m : Bytes} (h : Unescapes b m) (tail : Bytes) (n : Nat) (nc : Bool) :
    ∃ nc', csLoop true (b ++ 0x22 :: tail) n nc = (n + b.length + 1, Err.ok, nc') := by
  induction h generalizing n nc with
  | nil =>
    refine ⟨nc, ?_⟩
    rw [List.nil_append, csLoop_stop (off := 1) (e := .ok) (nc' := false) n nc (by simp [csStep, noEscape])]; simp
  | @unescaped p rest m r hd hp hi h20 hq hb _ ih =>
    match p, hp with
    | c :: p', _ =>
      by_cases h0 : c.toNat < runeSelf
      · have hda := decodeRune_ascii c p' h0
        rw [hda] at hd
        have hp' : p' = [] := by
          have : (c :: p').length = 1 := by injection hd with _ h2; exact h2.symm
          simpa using this
        have hr : r = c.toNat := by injection hd with h1 _; exact h1.symm
        subst hp' hr
        have hne : noEscape c.toNat = true := by
          simp only [noEscape, Bool.and_eq_true, decide_eq_true_eq, ne_eq]
          exact ⟨⟨⟨h0, h20⟩, hb⟩, hq⟩
        obtain ⟨nc', h'⟩ := ih (n + 1) (nc || false)
        refine ⟨nc', ?_⟩
        simp only [List.cons_append, List.nil_append]
        rw [csLoop_cont n nc (csStep_plain true c _ hne)]
        simp only [List.drop_succ_cons, List.drop_zero, h']
        simp; omega
      · have h1 : 1 < (decodeRune (c :: p')).2 := by
          rcases decodeRune_high c p' h0 with h | h
          · exact h
          · simp [illFormedHead, h] at hi
        have hlen : (decodeRune (c :: p')).2 = (c :: p').length := by rw [hd]
        have hstep := csStep_multi true c p' (rest ++ 0x22 :: tail) h0 h1
        rw [hlen, List.take_length] at hstep
        obtain ⟨nc', h'⟩ := ih (n + (c :: p').length) (nc || false)
        refine ⟨nc', ?_⟩
        rw [List.append_assoc, csLoop_cont n nc hstep, List.drop_left, h']
        simp only [List.length_append]; congr 1; omega
  | @simple e' v rest m hmem _ ih =>
    have hstep : ∃ nc1, csStep true (0x5c :: e' :: (rest ++ 0x22 :: tail)) = .cont 2 nc1 := by
      rw [csStep_backslash]
      simp only [simpleEscapes, List.mem_cons, Prod.mk.injEq, List.not_mem_nil, or_false] at hmem
      rcases hmem with ⟨rfl, _⟩ | ⟨rfl, _⟩ | ⟨rfl, _⟩ | ⟨rfl, _⟩ | ⟨rfl, _⟩ | ⟨rfl, _⟩ | ⟨rfl, _⟩ | ⟨rfl, _⟩ <;>
        simp [csEscape]
    obtain ⟨nc1, hs⟩ := hstep
    obtain ⟨nc', h'⟩ := ih (n + 2) (nc || nc1)
    refine ⟨nc', ?_⟩
    simp only [List.cons_append]
    rw [csLoop_cont n nc hs]
    simp only [List.drop_succ_cons, List.drop_zero, h']
    simp; omega
  | @unicode a b c d v rest m h4 hs _ ih =>
    have hstep : ∃ nc1, csStep true (0x5c :: 0x75 :: a :: b :: c :: d :: (rest ++ 0x22 :: tail)) = .cont 6 nc1 := by
      rw [csStep_backslash]
      simp [csEscape, csEscapeU, parseHex_eq_hex4, h4, hs]
    obtain ⟨nc1, hs'⟩ := hstep
    obtain ⟨nc', h'⟩ := ih (n + 6) (nc || nc1)
    refine ⟨nc', ?_⟩
    simp only [List.cons_append]
    rw [csLoop_cont n nc hs']
    simp only [List.drop_succ_cons, List.drop_zero, h']
    simp; omega
  | @pair a b c d a' b' c' d' hi lo rest m h1 h2 hh hl _ ih =>
    have hsur : isSurrogate hi = true := by
      simp only [isHighSurrogate, isSurrogate, Bool.and_eq_true, decide_eq_true_eq] at hh ⊢; omega
    have hne : ¬ (utf16DecodeRune hi lo = runeError) := by
      simp only [utf16DecodeRune, hh, hl, Bool.and_self, ↓reduceIte, runeError]; omega
    have hstep : ∃ nc1, csStep true (0x5c :: 0x75 :: a :: b :: c :: d :: 0x5c :: 0x75 :: a' :: b' :: c' :: d' :: (rest ++ 0x22 :: tail)) = .cont 12 nc1 := by
      rw [csStep_backslash]
      simp [csEscape, csEscapeU, csSurrogate, parseHex_eq_hex4, h1, h2, hsur, hne]
    obtain ⟨nc1, hs'⟩ := hstep
    obtain ⟨nc', h'⟩ := ih (n + 12) (nc || nc1)
    refine ⟨nc', ?_⟩
    simp only [List.cons_append]
    rw [csLoop_cont n nc hs']
    simp only [List.drop_succ_cons, List.drop_zero, h']
    simp; omega

/-- a literal with a meaning is a string of C01's strict grammar -/
theorem jstring_of_unescapes {b m : Bytes} (h : Unescapes b m) : JsonV.Spec.Grammar.JString true (0x22 :: (b ++ [0x22])) := by
  obtain ⟨nc, hc⟩ := csLoop_of_unescapes h [] 1 false
  have hcs : consumeString true (0x22 :: (b ++ [0x22])) = ((0x22 :: (b ++ [0x22])).length, Err.ok, nc) := by
    simp only [consumeString, ↓reduceIte, hc]; simp; omega
  have := (JsonV.Lemmas.GlueQuote.consumeString_grammar _ true _).mp ⟨nc, hcs⟩
  rw [List.take_length] at this
  exact this.2

/-- **`preserve_is_jstring` / `preserve_idem` / meaning** for a literal the strict scanner accepts (`consumeString true
src = (n, ok, _)`): the PreserveRawStrings loop's output is again a literal of the strict grammar, running the loop on
it again (same flags) returns it unchanged, and it unquotes to the same text without error. -/
theorem preserve_strict (html js : Bool) (src : Bytes) (n : Nat) (nc : Bool) (h : consumeString true src = (n, Err.ok, nc)) :
    let out := preserveLoop html js n src
    JsonV.Spec.Grammar.JString true out ∧
    (∀ junk, preserveLoop html js out.length (out ++ junk) = out) ∧
    appendUnquote out = appendUnquote (src.take n) := by
  obtain ⟨body, m, junk, hsrc, hn, hu, hm⟩ := consume_strict_meaning src n nc h
  obtain ⟨tb, hout, hfix, hun⟩ := preserve_shape html js hu
  have hO : preserveLoop html js n src = 0x22 :: (tb ++ [0x22]) := by
    rw [hsrc, hn, PL_ascii_plain html js (body.length + 1) 0x22 _ (by decide) (by simp [isHTMLChar]), hout]
  simp only [hO]
  refine ⟨jstring_of_unescapes hun, fun junk' => ?_, ?_⟩
  · have hl : (0x22 :: (tb ++ [0x22])).length = (tb.length + 1) + 1 := by simp
    have e : (tb ++ [0x22]) ++ junk' = tb ++ 0x22 :: junk' := by simp
    rw [hl, List.cons_append, PL_ascii_plain html js _ 0x22 _ (by decide) (by simp [isHTMLChar]), e]
    have := hfix (0x22 :: junk') 1
    rw [this, PL_ascii_plain html js 0 0x22 junk' (by decide) (by simp [isHTMLChar]), preserveLoop_zero]
  · rw [hm]; exact appendUnquote_meaning _ m ⟨tb, rfl, hun⟩

end JsonV.Lemmas.QuoteReformat
