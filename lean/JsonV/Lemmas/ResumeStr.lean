/-
Lemmas for `str_resume` (C05): resuming ConsumeStringResumable at the saved offset with the saved flags over
an extended buffer gives what a scan from scratch gives.  Core Lean only.
-/
import JsonV.Model.Resume
import JsonV.Lemmas.ResumeUtf8

namespace JsonV.Model.Resume
open JsonV.Model

namespace VFlags
theorem join_assoc (f g h : VFlags) : (f.join g).join h = f.join (g.join h) := by
  simp [join, Bool.or_assoc]
theorem join_comm (f g : VFlags) : f.join g = g.join f := by
  simp [join, Bool.or_comm]
theorem join_self (f : VFlags) : f.join f = f := by
  simp [join]
theorem join_none (f : VFlags) : f.join .none = f := by
  simp [join, none]
theorem none_join (f : VFlags) : VFlags.none.join f = f := by
  simp [join, none]
end VFlags

/-- flags joined by one loop iteration -/
def Step.flags : Step → VFlags
  | .adv _ g => g
  | .done => .none
  | .stop g _ => g

def Step.isEof : Step → Bool
  | .stop _ .eof => true
  | _ => false

theorem strLoop_nil (n : Nat) (f : VFlags) (v : Bool) : strLoop [] n f v = (n, f, .eof) := by
  unfold strLoop; rfl

theorem strLoop_cons (c : UInt8) (r1 : Bytes) (n : Nat) (f : VFlags) (v : Bool) :
    strLoop (c :: r1) n f v =
      match strStep c r1 v with
      | .adv k g => strLoop (r1.drop k) (n + k + 1) (f.join g) v
      | .done => (n + 1, f, .ok)
      | .stop g e => (n, f.join g, e) := by
  rw [strLoop]; rfl

/-- the flags only accumulate: the incoming flags can be joined afterwards -/
theorem strLoop_flags (r : Bytes) (n : Nat) (f : VFlags) (v : Bool) :
    strLoop r n f v = ((strLoop r n .none v).1, f.join (strLoop r n .none v).2.1, (strLoop r n .none v).2.2) := by
  induction hlen : r.length using Nat.strongRecOn generalizing r n f with
  | ind len ih =>
    cases r with
    | nil => simp [strLoop_nil, VFlags.join_none]
    | cons c r1 =>
      rw [strLoop_cons, strLoop_cons]
      cases hs : strStep c r1 v with
      | adv k g =>
        simp only
        have hlt : (r1.drop k).length < len := by subst hlen; simp [List.length_drop]; omega
        rw [ih _ hlt (r1.drop k) (n + k + 1) (f.join g) rfl, ih _ hlt (r1.drop k) (n + k + 1) (VFlags.none.join g) rfl]
        simp [VFlags.join_assoc, VFlags.none_join]
      | done => simp [VFlags.join_none]
      | stop g e => simp [VFlags.none_join]


theorem lowSurrogateStep_long (v1 : Nat) (f1 : VFlags) (b0 b1 l0 l1 l2 l3 : UInt8) (rest : Bytes) :
    lowSurrogateStep v1 f1 (b0 :: b1 :: l0 :: l1 :: l2 :: l3 :: rest) =
      lowSurrogateStep v1 f1 [b0, b1, l0, l1, l2, l3] := by
  simp [lowSurrogateStep]

theorem lowSurrogateStep_short_not_adv (v1 : Nat) (f1 : VFlags) (r6 : Bytes) (h : r6.length < 6) (k : Nat) (g : VFlags) :
    lowSurrogateStep v1 f1 r6 ≠ .adv k g := by
  rcases r6 with _ | ⟨b0, _ | ⟨b1, _ | ⟨l0, _ | ⟨l1, _ | ⟨l2, _ | ⟨l3, rest⟩⟩⟩⟩⟩⟩
  all_goals first
    | (simp at h; omega)
    | (simp only [lowSurrogateStep]; split <;> simp)

theorem lowSurrogateStep_adv_append (v1 : Nat) (f1 : VFlags) (r6 e : Bytes) (k : Nat) (g : VFlags)
    (h : lowSurrogateStep v1 f1 r6 = .adv k g) :
    lowSurrogateStep v1 f1 (r6 ++ e) = .adv k g ∧ k = 11 ∧ 6 ≤ r6.length := by
  by_cases hl : r6.length < 6
  · exact absurd h (lowSurrogateStep_short_not_adv v1 f1 r6 hl k g)
  · rcases r6 with _ | ⟨b0, _ | ⟨b1, _ | ⟨l0, _ | ⟨l1, _ | ⟨l2, _ | ⟨l3, rest⟩⟩⟩⟩⟩⟩
    all_goals first
      | (simp at hl; done)
      | skip
    simp only [List.cons_append]
    rw [lowSurrogateStep_long] at h ⊢
    refine ⟨h, ?_, by simp⟩
    simp only [lowSurrogateStep] at h
    repeat' split at h
    all_goals simp_all

theorem escStep_u_long (h0 h1 h2 h3 : UInt8) (r6 : Bytes) (v : Bool) :
    escStep (0x75 :: h0 :: h1 :: h2 :: h3 :: r6) v =
      match parseHex4 h0 h1 h2 h3 with
      | Option.none => .stop .nvnc .invalidEscape
      | some v1 =>
        if v && Utf8.isSurrogate v1 then lowSurrogateStep v1 ⟨true, uEscNonCanonical v1 h0 h1 h2 h3⟩ r6
        else .adv 5 ⟨true, uEscNonCanonical v1 h0 h1 h2 h3⟩ := by
  unfold escStep
  simp [isSimpleEscape]
  cases parseHex4 h0 h1 h2 h3 <;> simp

theorem escStep_u_short_not_adv (r2 : Bytes) (v : Bool) (h : r2.length < 4) (k : Nat) (g : VFlags) :
    escStep (0x75 :: r2) v ≠ .adv k g := by
  rcases r2 with _ | ⟨h0, _ | ⟨h1, _ | ⟨h2, _ | ⟨h3, r6⟩⟩⟩⟩
  all_goals first
    | (simp at h; omega)
    | (simp only [escStep, isSimpleEscape]; simp; split <;> simp)

theorem escStep_adv_append (r1 e : Bytes) (v : Bool) (k : Nat) (g : VFlags) (h : escStep r1 v = .adv k g) :
    escStep (r1 ++ e) v = .adv k g ∧ k ≤ r1.length := by
  cases r1 with
  | nil => simp [escStep] at h
  | cons c1 r2 =>
    simp only [List.cons_append]
    by_cases hs : (c1 == 0x2F) = true
    · have he : ∀ t, escStep (c1 :: t) v = .adv 1 .nvnc := by intro t; simp [escStep, hs]
      rw [he] at h ⊢
      exact ⟨h, by injection h with h1 _; subst h1; simp⟩
    · by_cases hq : isSimpleEscape c1 = true
      · have he : ∀ t, escStep (c1 :: t) v = .adv 1 .nv := by intro t; simp [escStep, hs, hq]
        rw [he] at h ⊢
        exact ⟨h, by injection h with h1 _; subst h1; simp⟩
      · by_cases hu : (c1 == 0x75) = true
        · have hc : c1 = 0x75 := by simpa using hu
          subst hc
          by_cases hl : r2.length < 4
          · exact absurd h (escStep_u_short_not_adv r2 v hl k g)
          · rcases r2 with _ | ⟨h0, _ | ⟨h1, _ | ⟨h2, _ | ⟨h3, r6⟩⟩⟩⟩
            all_goals first
              | (simp at hl; done)
              | skip
            simp only [List.cons_append]
            rw [escStep_u_long] at h ⊢
            cases hp : parseHex4 h0 h1 h2 h3 with
            | none => simp [hp] at h
            | some v1 =>
              simp only [hp] at h ⊢
              by_cases hsur : (v && Utf8.isSurrogate v1) = true
              · simp only [hsur, if_true] at h ⊢
                obtain ⟨ha, hk, hlen⟩ := lowSurrogateStep_adv_append v1 _ r6 e k g h
                refine ⟨ha, ?_⟩
                simp; omega
              · simp only [hsur] at h ⊢
                simp only [Bool.false_eq_true, if_false] at h ⊢
                refine ⟨h, ?_⟩
                have : k = 5 := by injection h with h1 _; exact h1.symm
                simp; omega
        · simp [escStep, hs, hq, hu] at h

theorem strStep_not_full (c : UInt8) (r1 : Bytes) (v : Bool) (hne : noEscape c = false) (hq : (c == 0x22) = false)
    (hfull : Utf8.fullRune (c :: r1) = false) : strStep c r1 v = .stop .none .eof := by
  have hd := Utf8.decodeRune_of_not_full c r1 hfull
  simp [strStep, hne, hq, hd, hfull, Utf8.runeError]

theorem strStep_adv_append (c : UInt8) (r1 e : Bytes) (v : Bool) (k : Nat) (g : VFlags)
    (h : strStep c r1 v = .adv k g) :
    strStep c (r1 ++ e) v = .adv k g ∧ k ≤ r1.length := by
  by_cases hne : noEscape c = true
  · simp [strStep, hne] at h ⊢
    obtain ⟨h1, h2⟩ := h
    subst h1; exact ⟨⟨rfl, h2⟩, by omega⟩
  · have hne' : noEscape c = false := by simpa using hne
    by_cases hq : (c == 0x22) = true
    · simp [strStep, hne', hq] at h
    · have hq' : (c == 0x22) = false := by simpa using hq
      by_cases hfull : Utf8.fullRune (c :: r1) = true
      · have hd : Utf8.decodeRune (c :: (r1 ++ e)) = Utf8.decodeRune (c :: r1) :=
          Utf8.decodeRune_append_of_full (c :: r1) e hfull
        have hf : Utf8.fullRune (c :: (r1 ++ e)) = true := Utf8.fullRune_append (c :: r1) e hfull
        have hsz := Utf8.decodeRune_size_le (c :: r1)
        unfold strStep at h ⊢
        simp only [hne', hq', hd, hf, hfull, Bool.false_eq_true, if_false, Bool.not_true] at h ⊢
        by_cases h2 : (Utf8.decodeRune (c :: r1)).2 > 1
        · simp only [h2, if_true] at h ⊢
          refine ⟨h, ?_⟩
          injection h with h1 _
          simp at hsz; omega
        · simp only [h2, if_false] at h ⊢
          by_cases h5 : ((Utf8.decodeRune (c :: r1)).1 == 0x5C) = true
          · simp only [h5, if_true] at h ⊢
            exact escStep_adv_append r1 e v k g h
          · simp only [h5, Bool.false_eq_true, if_false] at h ⊢
            by_cases hre : ((Utf8.decodeRune (c :: r1)).1 == Utf8.runeError) = true
            · simp only [hre, if_true] at h ⊢
              cases v with
              | true => simp at h
              | false =>
                simp at h ⊢
                obtain ⟨h1, h2⟩ := h
                subst h1; exact ⟨⟨rfl, h2⟩, by omega⟩
            · simp only [hre, Bool.false_eq_true, if_false] at h
              exact absurd h (by simp)
      · have hfull' : Utf8.fullRune (c :: r1) = false := by simpa using hfull
        rw [strStep_not_full c r1 v hne' hq' hfull'] at h
        exact absurd h (by simp)


end JsonV.Model.Resume
