/-
Lemmas for `str_resume` (C05): resuming ConsumeStringResumable at the saved offset with the saved flags over
an extended buffer gives what a scan from scratch gives.  Core Lean only.
-/
import JsonV.Model.Resume
import JsonV.Lemmas.ResumeUtf8

namespace JsonV.Model.Resume
open JsonV.Model

namespace VFlags
theorem join_assoc (f g h : VFlags) : (f.join g).join h = f.join (g.join h) := by
  simp [join, Bool.or_assoc]
theorem join_comm (f g : VFlags) : f.join g = g.join f := by
  simp [join, Bool.or_comm]
theorem join_self (f : VFlags) : f.join f = f := by
  simp [join]
theorem join_none (f : VFlags) : f.join .none = f := by
  simp [join, none]
theorem none_join (f : VFlags) : VFlags.none.join f = f := by
  simp [join, none]
end VFlags

/-- flags joined by one loop iteration -/
def Step.flags : Step → VFlags
  | .adv _ g => g
  | .done => .none
  | .stop g _ => g

def Step.isEof : Step → Bool
  | .stop _ .eof => true
  | _ => false

theorem strLoop_nil (n : Nat) (f : VFlags) (v : Bool) : strLoop [] n f v = (n, f, .eof) := by
  unfold strLoop; rfl

theorem strLoop_cons (c : UInt8) (r1 : Bytes) (n : Nat) (f : VFlags) (v : Bool) :
    strLoop (c :: r1) n f v =
      match strStep c r1 v with
      | .adv k g => strLoop (r1.drop k) (n + k + 1) (f.join g) v
      | .done => (n + 1, f, .ok)
      | .stop g e => (n, f.join g, e) := by
  rw [strLoop]; rfl

/-- the flags only accumulate: the incoming flags can be joined afterwards -/
theorem strLoop_flags (r : Bytes) (n : Nat) (f : VFlags) (v : Bool) :
    strLoop r n f v = ((strLoop r n .none v).1, f.join (strLoop r n .none v).2.1, (strLoop r n .none v).2.2) := by
  induction hlen : r.length using Nat.strongRecOn generalizing r n f with
  | ind len ih =>
    cases r with
    | nil => simp [strLoop_nil, VFlags.join_none]
    | cons c r1 =>
      rw [strLoop_cons, strLoop_cons]
      cases hs : strStep c r1 v with
      | adv k g =>
        simp only
        have hlt : (r1.drop k).length < len := by subst hlen; simp [List.length_drop]; omega
        rw [ih _ hlt (r1.drop k) (n + k + 1) (f.join g) rfl, ih _ hlt (r1.drop k) (n + k + 1) (VFlags.none.join g) rfl]
        simp [VFlags.join_assoc, VFlags.none_join]
      | done => simp [VFlags.join_none]
      | stop g e => simp [VFlags.none_join]


theorem lowSurrogateStep_long (v1 : Nat) (f1 : VFlags) (b0 b1 l0 l1 l2 l3 : UInt8) (rest : Bytes) :
    lowSurrogateStep v1 f1 (b0 :: b1 :: l0 :: l1 :: l2 :: l3 :: rest) =
      lowSurrogateStep v1 f1 [b0, b1, l0, l1, l2, l3] := by
  simp [lowSurrogateStep]

theorem lowSurrogateStep_short_not_adv (v1 : Nat) (f1 : VFlags) (r6 : Bytes) (h : r6.length < 6) (k : Nat) (g : VFlags) :
    lowSurrogateStep v1 f1 r6 ≠ .adv k g := by
  rcases r6 with _ | ⟨b0, _ | ⟨b1, _ | ⟨l0, _ | ⟨l1, _ | ⟨l2, _ | ⟨l3, rest⟩⟩⟩⟩⟩⟩
  all_goals first
    | (simp at h; omega)
    | (simp only [lowSurrogateStep]; split <;> simp)

theorem lowSurrogateStep_adv_append (v1 : Nat) (f1 : VFlags) (r6 e : Bytes) (k : Nat) (g : VFlags)
    (h : lowSurrogateStep v1 f1 r6 = .adv k g) :
    lowSurrogateStep v1 f1 (r6 ++ e) = .adv k g ∧ k = 11 ∧ 6 ≤ r6.length := by
  by_cases hl : r6.length < 6
  · exact absurd h (lowSurrogateStep_short_not_adv v1 f1 r6 hl k g)
  · rcases r6 with _ | ⟨b0, _ | ⟨b1, _ | ⟨l0, _ | ⟨l1, _ | ⟨l2, _ | ⟨l3, rest⟩⟩⟩⟩⟩⟩
    all_goals first
      | (simp at hl; done)
      | skip
    simp only [List.cons_append]
    rw [lowSurrogateStep_long] at h ⊢
    refine ⟨h, ?_, by simp⟩
    simp only [lowSurrogateStep] at h
    repeat' split at h
    all_goals simp_all

theorem escStep_u_long (h0 h1 h2 h3 : UInt8) (r6 : Bytes) (v : Bool) :
    escStep (0x75 :: h0 :: h1 :: h2 :: h3 :: r6) v =
      match parseHex4 h0 h1 h2 h3 with
      | Option.none => .stop .nvnc .invalidEscape
      | some v1 =>
        if v && Utf8.isSurrogate v1 then lowSurrogateStep v1 ⟨true, uEscNonCanonical v1 h0 h1 h2 h3⟩ r6
        else .adv 5 ⟨true, uEscNonCanonical v1 h0 h1 h2 h3⟩ := by
  unfold escStep
  simp [isSimpleEscape]
  cases parseHex4 h0 h1 h2 h3 <;> simp

theorem escStep_u_short_not_adv (r2 : Bytes) (v : Bool) (h : r2.length < 4) (k : Nat) (g : VFlags) :
    escStep (0x75 :: r2) v ≠ .adv k g := by
  rcases r2 with _ | ⟨h0, _ | ⟨h1, _ | ⟨h2, _ | ⟨h3, r6⟩⟩⟩⟩
  all_goals first
    | (simp at h; omega)
    | (simp only [escStep, isSimpleEscape]; simp; split <;> simp)

theorem escStep_adv_append (r1 e : Bytes) (v : Bool) (k : Nat) (g : VFlags) (h : escStep r1 v = .adv k g) :
    escStep (r1 ++ e) v = .adv k g ∧ k ≤ r1.length := by
  cases r1 with
  | nil => simp [escStep] at h
  | cons c1 r2 =>
    simp only [List.cons_append]
    by_cases hs : (c1 == 0x2F) = true
    · have he : ∀ t, escStep (c1 :: t) v = .adv 1 .nvnc := by intro t; simp [escStep, hs]
      rw [he] at h ⊢
      exact ⟨h, by injection h with h1 _; subst h1; simp⟩
    · by_cases hq : isSimpleEscape c1 = true
      · have he : ∀ t, escStep (c1 :: t) v = .adv 1 .nv := by intro t; simp [escStep, hs, hq]
        rw [he] at h ⊢
        exact ⟨h, by injection h with h1 _; subst h1; simp⟩
      · by_cases hu : (c1 == 0x75) = true
        · have hc : c1 = 0x75 := by simpa using hu
          subst hc
          by_cases hl : r2.length < 4
          · exact absurd h (escStep_u_short_not_adv r2 v hl k g)
          · rcases r2 with _ | ⟨h0, _ | ⟨h1, _ | ⟨h2, _ | ⟨h3, r6⟩⟩⟩⟩
            all_goals first
              | (simp at hl; done)
              | skip
            simp only [List.cons_append]
            rw [escStep_u_long] at h ⊢
            cases hp : parseHex4 h0 h1 h2 h3 with
            | none => simp [hp] at h
            | some v1 =>
              simp only [hp] at h ⊢
              by_cases hsur : (v && Utf8.isSurrogate v1) = true
              · simp only [hsur, if_true] at h ⊢
                obtain ⟨ha, hk, hlen⟩ := lowSurrogateStep_adv_append v1 _ r6 e k g h
                refine ⟨ha, ?_⟩
                simp; omega
              · simp only [hsur] at h ⊢
                simp only [Bool.false_eq_true, if_false] at h ⊢
                refine ⟨h, ?_⟩
                have : k = 5 := by injection h with h1 _; exact h1.symm
                simp; omega
        · simp [escStep, hs, hq, hu] at h

theorem strStep_not_full (c : UInt8) (r1 : Bytes) (v : Bool) (hne : noEscape c = false) (hq : (c == 0x22) = false)
    (hfull : Utf8.fullRune (c :: r1) = false) : strStep c r1 v = .stop .none .eof := by
  have hd := Utf8.decodeRune_of_not_full c r1 hfull
  simp [strStep, hne, hq, hd, hfull, Utf8.runeError]

theorem strStep_adv_append (c : UInt8) (r1 e : Bytes) (v : Bool) (k : Nat) (g : VFlags)
    (h : strStep c r1 v = .adv k g) :
    strStep c (r1 ++ e) v = .adv k g ∧ k ≤ r1.length := by
  by_cases hne : noEscape c = true
  · simp [strStep, hne] at h ⊢
    obtain ⟨h1, h2⟩ := h
    subst h1; exact ⟨⟨rfl, h2⟩, by omega⟩
  · have hne' : noEscape c = false := by simpa using hne
    by_cases hq : (c == 0x22) = true
    · simp [strStep, hne', hq] at h
    · have hq' : (c == 0x22) = false := by simpa using hq
      by_cases hfull : Utf8.fullRune (c :: r1) = true
      · have hd : Utf8.decodeRune (c :: (r1 ++ e)) = Utf8.decodeRune (c :: r1) :=
          Utf8.decodeRune_append_of_full (c :: r1) e hfull
        have hf : Utf8.fullRune (c :: (r1 ++ e)) = true := Utf8.fullRune_append (c :: r1) e hfull
        have hsz := Utf8.decodeRune_size_le (c :: r1)
        unfold strStep at h ⊢
        simp only [hne', hq', hd, hf, hfull, Bool.false_eq_true, if_false, Bool.not_true] at h ⊢
        by_cases h2 : (Utf8.decodeRune (c :: r1)).2 > 1
        · simp only [h2, if_true] at h ⊢
          refine ⟨h, ?_⟩
          injection h with h1 _
          simp at hsz; omega
        · simp only [h2, if_false] at h ⊢
          by_cases h5 : ((Utf8.decodeRune (c :: r1)).1 == 0x5C) = true
          · simp only [h5, if_true] at h ⊢
            exact escStep_adv_append r1 e v k g h
          · simp only [h5, Bool.false_eq_true, if_false] at h ⊢
            by_cases hre : ((Utf8.decodeRune (c :: r1)).1 == Utf8.runeError) = true
            · simp only [hre, if_true] at h ⊢
              cases v with
              | true => simp at h
              | false =>
                simp at h ⊢
                obtain ⟨h1, h2⟩ := h
                subst h1; exact ⟨⟨rfl, h2⟩, by omega⟩
            · simp only [hre, Bool.false_eq_true, if_false] at h
              exact absurd h (by simp)
      · have hfull' : Utf8.fullRune (c :: r1) = false := by simpa using hfull
        rw [strStep_not_full c r1 v hne' hq' hfull'] at h
        exact absurd h (by simp)


theorem lowSurrogateStep_flags (v1 : Nat) (f1 : VFlags) (r6 : Bytes) :
    (lowSurrogateStep v1 f1 r6).flags = f1 ∨ (lowSurrogateStep v1 f1 r6).flags = f1.join .nc := by
  unfold lowSurrogateStep
  repeat' split
  all_goals simp [Step.flags]

theorem lowSurrogateStep_eof (v1 : Nat) (f1 : VFlags) (r6 : Bytes) (g : VFlags)
    (h : lowSurrogateStep v1 f1 r6 = .stop g .eof) : g = f1 := by
  unfold lowSurrogateStep at h
  repeat' split at h
  all_goals simp_all

theorem join_absorb_of_nv (x : VFlags) (h : x.nonVerbatim = true) : VFlags.nv.join x = x := by
  cases x; simp_all [VFlags.join, VFlags.nv]

theorem escStep_flags_nv (r : Bytes) (v : Bool) : (escStep r v).flags.nonVerbatim = true := by
  cases r with
  | nil => simp [escStep, Step.flags, VFlags.nv]
  | cons c1 r2 =>
    by_cases hs : (c1 == 0x2F) = true
    · simp [escStep, hs, Step.flags, VFlags.nvnc]
    · by_cases hq : isSimpleEscape c1 = true
      · simp [escStep, hs, hq, Step.flags, VFlags.nv]
      · by_cases hu : (c1 == 0x75) = true
        · have hc : c1 = 0x75 := by simpa using hu
          subst hc
          rcases r2 with _ | ⟨h0, _ | ⟨h1, _ | ⟨h2, _ | ⟨h3, r6⟩⟩⟩⟩
          case cons.cons.cons.cons =>
            rw [escStep_u_long]
            cases hp : parseHex4 h0 h1 h2 h3 with
            | none => simp [Step.flags, VFlags.nvnc]
            | some v1 =>
              simp only
              by_cases hsur : (v && Utf8.isSurrogate v1) = true
              · simp only [hsur, if_true]
                rcases lowSurrogateStep_flags v1 ⟨true, uEscNonCanonical v1 h0 h1 h2 h3⟩ r6 with h | h <;>
                  rw [h] <;> simp [VFlags.join]
              · simp only [hsur, Bool.false_eq_true, if_false, Step.flags]
          all_goals (simp only [escStep, isSimpleEscape]; simp; split <;> simp [Step.flags, VFlags.nv, VFlags.nvnc])
        · simp [escStep, hs, hq, hu, Step.flags, VFlags.nvnc]

theorem escStep_eof_absorb (r1 e : Bytes) (v : Bool) (g : VFlags) (h : escStep r1 v = .stop g .eof) :
    g.join (escStep (r1 ++ e) v).flags = (escStep (r1 ++ e) v).flags := by
  have hnv := escStep_flags_nv (r1 ++ e) v
  cases r1 with
  | nil =>
    have : g = .nv := by simp [escStep] at h; exact h.symm
    subst this; exact join_absorb_of_nv _ hnv
  | cons c1 r2 =>
    by_cases hs : (c1 == 0x2F) = true
    · simp [escStep, hs] at h
    · by_cases hq : isSimpleEscape c1 = true
      · simp [escStep, hs, hq] at h
      · by_cases hu : (c1 == 0x75) = true
        · have hc : c1 = 0x75 := by simpa using hu
          subst hc
          rcases r2 with _ | ⟨h0, _ | ⟨h1, _ | ⟨h2, _ | ⟨h3, r6⟩⟩⟩⟩
          case cons.cons.cons.cons =>
            simp only [List.cons_append]
            rw [escStep_u_long] at h ⊢
            cases hp : parseHex4 h0 h1 h2 h3 with
            | none => simp [hp] at h
            | some v1 =>
              simp only [hp] at h ⊢
              by_cases hsur : (v && Utf8.isSurrogate v1) = true
              · simp only [hsur, if_true] at h ⊢
                have hg := lowSurrogateStep_eof v1 _ r6 g h
                subst hg
                rcases lowSurrogateStep_flags v1 ⟨true, uEscNonCanonical v1 h0 h1 h2 h3⟩ (r6 ++ e) with h' | h' <;>
                  rw [h']
                · exact VFlags.join_self _
                · rw [← VFlags.join_assoc, VFlags.join_self]
              · simp only [hsur, Bool.false_eq_true, if_false] at h
                exact absurd h (by simp)
          all_goals
            (have : g = .nv := by
               simp only [escStep, isSimpleEscape] at h; simp at h
               split at h <;> simp_all
             subst this; exact join_absorb_of_nv _ hnv)
        · simp [escStep, hs, hq, hu] at h

theorem strStep_eof_absorb (c : UInt8) (r1 e : Bytes) (v : Bool) (g : VFlags)
    (h : strStep c r1 v = .stop g .eof) :
    g.join (strStep c (r1 ++ e) v).flags = (strStep c (r1 ++ e) v).flags := by
  by_cases hne : noEscape c = true
  · simp [strStep, hne] at h
  · have hne' : noEscape c = false := by simpa using hne
    by_cases hq : (c == 0x22) = true
    · simp [strStep, hne', hq] at h
    · have hq' : (c == 0x22) = false := by simpa using hq
      by_cases hfull : Utf8.fullRune (c :: r1) = true
      · have hd : Utf8.decodeRune (c :: (r1 ++ e)) = Utf8.decodeRune (c :: r1) :=
          Utf8.decodeRune_append_of_full (c :: r1) e hfull
        have hf : Utf8.fullRune (c :: (r1 ++ e)) = true := Utf8.fullRune_append (c :: r1) e hfull
        unfold strStep at h ⊢
        simp only [hne', hq', hd, hf, hfull, Bool.false_eq_true, if_false, Bool.not_true] at h ⊢
        by_cases h2 : (Utf8.decodeRune (c :: r1)).2 > 1
        · simp only [h2, if_true] at h; exact absurd h (by simp)
        · simp only [h2, if_false] at h ⊢
          by_cases h5 : ((Utf8.decodeRune (c :: r1)).1 == 0x5C) = true
          · simp only [h5, if_true] at h ⊢
            exact escStep_eof_absorb r1 e v g h
          · simp only [h5, Bool.false_eq_true, if_false] at h ⊢
            by_cases hre : ((Utf8.decodeRune (c :: r1)).1 == Utf8.runeError) = true
            · simp only [hre, if_true] at h
              cases v <;> simp at h
            · simp only [hre, Bool.false_eq_true, if_false] at h
              exact absurd h (by simp)
      · have hfull' : Utf8.fullRune (c :: r1) = false := by simpa using hfull
        rw [strStep_not_full c r1 v hne' hq' hfull'] at h
        have : g = .none := by injection h with h1 _; exact h1.symm
        subst this; exact VFlags.none_join _


/-- if the first step's flags absorb `g`, so do the flags of the whole loop -/
theorem strLoop_absorb (c : UInt8) (r : Bytes) (n : Nat) (v : Bool) (g : VFlags)
    (h : g.join (strStep c r v).flags = (strStep c r v).flags) :
    g.join (strLoop (c :: r) n .none v).2.1 = (strLoop (c :: r) n .none v).2.1 := by
  rw [strLoop_cons]
  cases hs : strStep c r v with
  | adv k g2 =>
    simp only [hs, Step.flags] at h ⊢
    rw [strLoop_flags]
    simp only [VFlags.none_join]
    rw [← VFlags.join_assoc, h]
  | done =>
    simp only [hs, Step.flags] at h ⊢
    exact h
  | stop g2 e2 =>
    simp only [hs, Step.flags, VFlags.none_join] at h ⊢
    exact h

theorem strLoop_resume (r : Bytes) : ∀ (n0 : Nat) (f : VFlags) (v : Bool) (n : Nat) (f' : VFlags),
    strLoop r n0 f v = (n, f', .eof) →
    n0 ≤ n ∧ n - n0 ≤ r.length ∧
    ∀ e, strLoop ((r ++ e).drop (n - n0)) n f' v = strLoop (r ++ e) n0 f v := by
  induction hlen : r.length using Nat.strongRecOn generalizing r with
  | ind len ih =>
    intro n0 f v n f' h
    cases r with
    | nil =>
      rw [strLoop_nil] at h
      injection h with h1 h2; injection h2 with h2 _
      subst h1; subst h2
      simp
    | cons c r1 =>
      rw [strLoop_cons] at h
      cases hs : strStep c r1 v with
      | adv k g =>
        simp only [hs] at h
        obtain ⟨hadv, hk⟩ := strStep_adv_append c r1 [] v k g hs
        have hlt : (r1.drop k).length < len := by subst hlen; simp [List.length_drop]; omega
        obtain ⟨h1, h2, h3⟩ := ih _ hlt (r1.drop k) rfl (n0 + k + 1) (f.join g) v n f' h
        refine ⟨by omega, ?_, ?_⟩
        · have hd : (r1.drop k).length = r1.length - k := List.length_drop
          subst hlen
          rw [hd] at h2 hlt
          simp only [List.length_cons] at hlt ⊢; omega
        · intro e
          obtain ⟨hadv', _⟩ := strStep_adv_append c r1 e v k g hs
          have := h3 e
          rw [List.cons_append, strLoop_cons, hadv']
          simp only
          rw [List.drop_append_of_le_length hk, ← this]
          have hsplit : n - n0 = (k + (n - (n0 + k + 1))) + 1 := by omega
          rw [hsplit, List.drop_succ_cons, ← List.drop_drop, List.drop_append_of_le_length hk]
      | done =>
        simp only [hs] at h
        injection h with _ h2; injection h2 with _ h3; exact absurd h3 (by simp)
      | stop g e' =>
        simp only [hs] at h
        injection h with h1 h2; injection h2 with h2 h3
        subst h1; subst h2; subst h3
        refine ⟨by omega, by simp, ?_⟩
        intro e
        simp only [Nat.sub_self, List.drop_zero, List.cons_append]
        have habs := strLoop_absorb c (r1 ++ e) n0 v g (strStep_eof_absorb c r1 e v g hs)
        rw [strLoop_flags (c :: (r1 ++ e)) n0 (f.join g), strLoop_flags (c :: (r1 ++ e)) n0 f]
        rw [VFlags.join_assoc, habs]

/-- `str_resume`: if a scan from scratch of `b` reports io.ErrUnexpectedEOF with resume offset `n` and flags `f'`,
then resuming at `n` with `f'` over ANY extension `b ++ e` returns exactly what a scan of `b ++ e` from scratch
(with the original flags) returns: same offset, same flags, same error class. -/
theorem str_resume_eq (f : VFlags) (b e : Bytes) (v : Bool) (n : Nat) (f' : VFlags)
    (h : consumeStringResumable f b 0 v = (n, f', .eof)) :
    consumeStringResumable f' (b ++ e) n v = consumeStringResumable f (b ++ e) 0 v := by
  cases b with
  | nil =>
    simp [consumeStringResumable] at h
    obtain ⟨h1, h2⟩ := h
    subst h1; subst h2; rfl
  | cons c r =>
    simp only [consumeStringResumable, Nat.lt_irrefl, if_false] at h
    by_cases hq : (c == 0x22) = true
    · simp only [hq, if_true] at h
      obtain ⟨h1, h2, h3⟩ := strLoop_resume r 1 f v n f' h
      have hpos : n > 0 := by omega
      simp only [consumeStringResumable, hpos, if_true, Nat.lt_irrefl, if_false, List.cons_append, hq]
      have hsplit : n = (n - 1) + 1 := by omega
      rw [← h3 e]
      have hdrop : (c :: (r ++ e)).drop n = (r ++ e).drop (n - 1) := by
        conv => lhs; rw [hsplit, List.drop_succ_cons]
      rw [hdrop]
    · simp [hq] at h



theorem hexVal_lt (c : UInt8) (d : Nat) (h : hexVal c = some d) : d < 16 := by
  unfold hexVal at h
  repeat' split at h
  all_goals simp_all
  all_goals (simp [UInt8.le_iff_toNat_le] at *; omega)

theorem hexVal_13 (c : UInt8) (h : hexVal c = some 13) : c = 0x64 ∨ c = 0x44 := by
  unfold hexVal at h
  repeat' split at h
  all_goals simp_all
  all_goals (simp [UInt8.le_iff_toNat_le, ← UInt8.toNat_inj] at *; omega)

theorem hexVal_ge12 (c : UInt8) (d : Nat) (h : hexVal c = some d) (hd : 12 ≤ d) :
    (0x63 ≤ c ∧ c ≤ 0x66) ∨ (0x43 ≤ c ∧ c ≤ 0x46) := by
  unfold hexVal at h
  repeat' split at h
  all_goals simp_all
  all_goals (simp [UInt8.le_iff_toNat_le] at *; omega)

/-- a violation found in a prefix stays a violation -/
theorem prefixAux_append_false (lower : Bool) (p q : Bytes) (i : Nat)
    (h : hasEscapedUTF16PrefixAux lower i p = false) : hasEscapedUTF16PrefixAux lower i (p ++ q) = false := by
  induction p generalizing i with
  | nil => simp [hasEscapedUTF16PrefixAux] at h
  | cons c r ih =>
    simp only [hasEscapedUTF16PrefixAux, List.cons_append] at h ⊢
    split
    · rfl
    · rename_i hb; simp only [hb] at h; exact ih (i + 1) (by simpa using h)

/-- if `\uXXXX` parses to a low surrogate, its bytes pass the `lowerSurrogateHalf` prefix test -/
theorem low_surrogate_prefix (l0 l1 l2 l3 : UInt8) (v2 : Nat) (hp : parseHex4 l0 l1 l2 l3 = some v2)
    (hl : Utf8.isLowSurrogate v2 = true) :
    hasEscapedUTF16PrefixAux true 2 [l0, l1, l2, l3] = true := by
  unfold parseHex4 at hp
  cases h0 : hexVal l0 with
  | none => simp [h0] at hp
  | some d0 =>
  cases h1 : hexVal l1 with
  | none => simp [h0, h1] at hp
  | some d1 =>
  cases h2 : hexVal l2 with
  | none => simp [h0, h1, h2] at hp
  | some d2 =>
  cases h3 : hexVal l3 with
  | none => simp [h0, h1, h2, h3] at hp
  | some d3 =>
    simp [h0, h1, h2, h3] at hp
    have b0 := hexVal_lt _ _ h0; have b1 := hexVal_lt _ _ h1
    have b2 := hexVal_lt _ _ h2; have b3 := hexVal_lt _ _ h3
    simp [Utf8.isLowSurrogate] at hl
    have hd0 : d0 = 13 := by omega
    have hd1 : 12 ≤ d1 := by omega
    subst hd0
    have c0 := hexVal_13 l0 h0
    have c1 := hexVal_ge12 l1 d1 h1 hd1
    simp [hasEscapedUTF16PrefixAux, prefixBad, h0, h1, h2, h3]
    refine ⟨?_, ?_⟩
    · rcases c0 with c0 | c0 <;> simp [c0]
    · rcases c1 with ⟨ca, cb⟩ | ⟨ca, cb⟩ <;> simp [ca, cb]



theorem lowSurrogateStep_short (v1 : Nat) (f1 : VFlags) (l : Bytes) (h : l.length < 6) :
    lowSurrogateStep v1 f1 l =
      if hasEscapedUTF16Prefix l true then .stop f1 .eof else .stop (f1.join .nc) .invalidEscape := by
  rcases l with _ | ⟨b0, _ | ⟨b1, _ | ⟨l0, _ | ⟨l1, _ | ⟨l2, _ | ⟨l3, rest⟩⟩⟩⟩⟩⟩
  all_goals first
    | (simp at h; omega)
    | simp only [lowSurrogateStep]

theorem utf16DecodeRune_ne_error (v1 v2 : Nat) (h : (Utf8.utf16DecodeRune v1 v2 == Utf8.runeError) = false) :
    Utf8.isLowSurrogate v2 = true := by
  unfold Utf8.utf16DecodeRune at h
  split at h
  · rename_i hh; simp at hh; exact hh.2
  · simp at h

theorem six_spine (L : Bytes) (h : 6 ≤ L.length) :
    ∃ b0 b1 l0 l1 l2 l3 rest, L = b0 :: b1 :: l0 :: l1 :: l2 :: l3 :: rest := by
  rcases L with _ | ⟨b0, _ | ⟨b1, _ | ⟨l0, _ | ⟨l1, _ | ⟨l2, _ | ⟨l3, rest⟩⟩⟩⟩⟩⟩
  all_goals first
    | (simp at h; done)
    | exact ⟨_, _, _, _, _, _, _, rfl⟩

theorem lowSurrogateStep_short_bad (v1 : Nat) (f1 : VFlags) (r6 e : Bytes) (hshort : r6.length < 6)
    (hbad : hasEscapedUTF16Prefix r6 true = false) :
    lowSurrogateStep v1 f1 (r6 ++ e) = .stop (f1.join .nc) .invalidEscape := by
  by_cases hl : (r6 ++ e).length < 6
  · rw [lowSurrogateStep_short _ _ _ hl]
    have : hasEscapedUTF16Prefix (r6 ++ e) true = false := prefixAux_append_false true r6 e 0 hbad
    simp [this]
  · obtain ⟨b0, b1, l0, l1, l2, l3, rest, hL⟩ := six_spine (r6 ++ e) (by omega)
    rw [hL, lowSurrogateStep_long]
    -- r6 is a prefix of the six bytes
    have hpre : [b0, b1, l0, l1, l2, l3] = r6 ++ ([b0, b1, l0, l1, l2, l3].drop r6.length) := by
      have h1 : r6 = (r6 ++ e).take r6.length := by simp
      have h2 : (r6 ++ e).take r6.length = [b0, b1, l0, l1, l2, l3].take r6.length := by
        rw [hL]
        have : b0 :: b1 :: l0 :: l1 :: l2 :: l3 :: rest = [b0, b1, l0, l1, l2, l3] ++ rest := rfl
        rw [this, List.take_append_of_le_length (by simp; omega)]
      have hr6 : [b0, b1, l0, l1, l2, l3].take r6.length = r6 := (h1.trans h2).symm
      have := (List.take_append_drop r6.length [b0, b1, l0, l1, l2, l3]).symm
      rw [hr6] at this
      exact this
    have hsix : hasEscapedUTF16PrefixAux true 0 [b0, b1, l0, l1, l2, l3] = false := by
      rw [hpre]; exact prefixAux_append_false true r6 _ 0 hbad
    simp only [lowSurrogateStep]
    by_cases hb : (b0 != 0x5C || b1 != 0x75) = true
    · simp [hb]
    · simp only [hb, Bool.false_eq_true, if_false]
      cases hp : parseHex4 l0 l1 l2 l3 with
      | none => rfl
      | some v2 =>
        simp only
        by_cases hd : (Utf8.utf16DecodeRune v1 v2 == Utf8.runeError) = true
        · simp [hd]
        · exfalso
          have hlow := utf16DecodeRune_ne_error v1 v2 (by simpa using hd)
          have h4 := low_surrogate_prefix l0 l1 l2 l3 v2 hp hlow
          simp at hb
          obtain ⟨hb0, hb1⟩ := hb
          subst hb0; subst hb1
          simp [hasEscapedUTF16PrefixAux, prefixBad] at hsix h4
          simp_all

theorem lowSurrogateStep_err_append (v1 : Nat) (f1 : VFlags) (r6 e : Bytes) (g : VFlags) (err : Err)
    (h : lowSurrogateStep v1 f1 r6 = .stop g err) (hne : err ≠ .eof) :
    lowSurrogateStep v1 f1 (r6 ++ e) = .stop g err := by
  by_cases hl : r6.length < 6
  · rw [lowSurrogateStep_short _ _ _ hl] at h
    by_cases hp : hasEscapedUTF16Prefix r6 true = true
    · simp [hp] at h; exact absurd h.2.symm hne
    · have hp' : hasEscapedUTF16Prefix r6 true = false := by simpa using hp
      simp [hp'] at h
      obtain ⟨h1, h2⟩ := h
      subst h1; subst h2
      exact lowSurrogateStep_short_bad v1 f1 r6 e hl hp'
  · obtain ⟨b0, b1, l0, l1, l2, l3, rest, hL⟩ := six_spine r6 (by omega)
    subst hL
    simp only [List.cons_append]
    rw [lowSurrogateStep_long] at h ⊢
    exact h



theorem prefix_decomp (r e six rest : Bytes) (hL : r ++ e = six ++ rest) (hlen : r.length ≤ six.length) :
    six = r ++ six.drop r.length := by
  have h1 : r = (r ++ e).take r.length := by simp
  have h2 : (r ++ e).take r.length = six.take r.length := by
    rw [hL, List.take_append_of_le_length hlen]
  have hr : six.take r.length = r := (h1.trans h2).symm
  have := (List.take_append_drop r.length six).symm
  rw [hr] at this
  exact this

theorem escStep_u_short (r2 : Bytes) (v : Bool) (h : r2.length < 4) :
    escStep (0x75 :: r2) v =
      if hasEscapedUTF16Prefix (0x5C :: 0x75 :: r2) false then .stop .nv .eof else .stop .nvnc .invalidEscape := by
  rcases r2 with _ | ⟨h0, _ | ⟨h1, _ | ⟨h2, _ | ⟨h3, r6⟩⟩⟩⟩
  all_goals first
    | (simp at h; omega)
    | (simp only [escStep, isSimpleEscape]; simp)

theorem four_spine (L : Bytes) (h : 4 ≤ L.length) : ∃ h0 h1 h2 h3 rest, L = h0 :: h1 :: h2 :: h3 :: rest := by
  rcases L with _ | ⟨h0, _ | ⟨h1, _ | ⟨h2, _ | ⟨h3, rest⟩⟩⟩⟩
  all_goals first
    | (simp at h; done)
    | exact ⟨_, _, _, _, _, rfl⟩

theorem parseHex4_prefix (h0 h1 h2 h3 : UInt8) (v1 : Nat) (hp : parseHex4 h0 h1 h2 h3 = some v1) :
    hasEscapedUTF16PrefixAux false 0 [0x5C, 0x75, h0, h1, h2, h3] = true := by
  unfold parseHex4 at hp
  cases a0 : hexVal h0 <;> cases a1 : hexVal h1 <;> cases a2 : hexVal h2 <;> cases a3 : hexVal h3 <;>
    simp [a0, a1, a2, a3] at hp
  simp [hasEscapedUTF16PrefixAux, prefixBad, a0, a1, a2, a3]

theorem escStep_u_short_bad (r2 e : Bytes) (v : Bool) (hshort : r2.length < 4)
    (hbad : hasEscapedUTF16Prefix (0x5C :: 0x75 :: r2) false = false) :
    escStep (0x75 :: (r2 ++ e)) v = .stop .nvnc .invalidEscape := by
  by_cases hl : (r2 ++ e).length < 4
  · rw [escStep_u_short _ _ hl]
    have : hasEscapedUTF16Prefix (0x5C :: 0x75 :: (r2 ++ e)) false = false :=
      prefixAux_append_false false (0x5C :: 0x75 :: r2) e 0 hbad
    simp [this]
  · obtain ⟨h0, h1, h2, h3, rest, hL⟩ := four_spine (r2 ++ e) (by omega)
    rw [hL, escStep_u_long]
    cases hp : parseHex4 h0 h1 h2 h3 with
    | none => rfl
    | some v1 =>
      exfalso
      have h6 := parseHex4_prefix h0 h1 h2 h3 v1 hp
      have hdec := prefix_decomp r2 e [h0, h1, h2, h3] rest (by simpa using hL) (by simp; omega)
      have : [0x5C, 0x75, h0, h1, h2, h3] = (0x5C :: 0x75 :: r2) ++ ([h0, h1, h2, h3].drop r2.length) := by
        simp only [List.cons_append]; rw [← hdec]
      rw [this, prefixAux_append_false false (0x5C :: 0x75 :: r2) _ 0 hbad] at h6
      exact absurd h6 (by simp)

theorem escStep_err_append (r1 e : Bytes) (v : Bool) (g : VFlags) (err : Err)
    (h : escStep r1 v = .stop g err) (hne : err ≠ .eof) :
    escStep (r1 ++ e) v = .stop g err := by
  cases r1 with
  | nil => simp [escStep] at h; exact absurd h.2.symm hne
  | cons c1 r2 =>
    simp only [List.cons_append]
    by_cases hs : (c1 == 0x2F) = true
    · simp [escStep, hs] at h
    · by_cases hq : isSimpleEscape c1 = true
      · simp [escStep, hs, hq] at h
      · by_cases hu : (c1 == 0x75) = true
        · have hc : c1 = 0x75 := by simpa using hu
          subst hc
          by_cases hl : r2.length < 4
          · rw [escStep_u_short _ _ hl] at h
            by_cases hp : hasEscapedUTF16Prefix (0x5C :: 0x75 :: r2) false = true
            · simp [hp] at h; exact absurd h.2.symm hne
            · have hp' : hasEscapedUTF16Prefix (0x5C :: 0x75 :: r2) false = false := by simpa using hp
              simp [hp'] at h
              obtain ⟨h1, h2⟩ := h
              subst h1; subst h2
              exact escStep_u_short_bad r2 e v hl hp'
          · obtain ⟨h0, h1, h2, h3, r6, hL⟩ := four_spine r2 (by omega)
            subst hL
            simp only [List.cons_append]
            rw [escStep_u_long] at h ⊢
            cases hp : parseHex4 h0 h1 h2 h3 with
            | none => simp [hp] at h ⊢; exact h
            | some v1 =>
              simp only [hp] at h ⊢
              by_cases hsur : (v && Utf8.isSurrogate v1) = true
              · simp only [hsur, if_true] at h ⊢
                exact lowSurrogateStep_err_append v1 _ r6 e g err h hne
              · simp only [hsur, Bool.false_eq_true, if_false] at h
                exact absurd h (by simp)
        · have he : ∀ t, escStep (c1 :: t) v = .stop .nvnc .invalidEscape := by
            intro t; simp [escStep, hs, hq, hu]
          rw [he] at h ⊢; exact h



theorem lowSurrogateStep_ne_done (v1 : Nat) (f1 : VFlags) (r6 : Bytes) : lowSurrogateStep v1 f1 r6 ≠ .done := by
  unfold lowSurrogateStep
  repeat' split
  all_goals simp

theorem escStep_ne_done (r : Bytes) (v : Bool) : escStep r v ≠ .done := by
  cases r with
  | nil => simp [escStep]
  | cons c1 r2 =>
    by_cases hs : (c1 == 0x2F) = true
    · simp [escStep, hs]
    · by_cases hq : isSimpleEscape c1 = true
      · simp [escStep, hs, hq]
      · by_cases hu : (c1 == 0x75) = true
        · have hc : c1 = 0x75 := by simpa using hu
          subst hc
          rcases r2 with _ | ⟨h0, _ | ⟨h1, _ | ⟨h2, _ | ⟨h3, r6⟩⟩⟩⟩
          case cons.cons.cons.cons =>
            rw [escStep_u_long]
            cases hp : parseHex4 h0 h1 h2 h3 with
            | none => simp
            | some v1 =>
              simp only
              split
              · exact lowSurrogateStep_ne_done _ _ _
              · simp
          all_goals (simp only [escStep, isSimpleEscape]; simp; split <;> simp)
        · simp [escStep, hs, hq, hu]

theorem escStep_def_append (r1 e : Bytes) (v : Bool) (hne : (escStep r1 v).isEof = false) :
    escStep (r1 ++ e) v = escStep r1 v := by
  cases hs : escStep r1 v with
  | adv k g => exact (escStep_adv_append r1 e v k g hs).1
  | done => exact absurd hs (escStep_ne_done r1 v)
  | stop g err =>
    have : err ≠ .eof := by
      intro he; subst he; simp [hs, Step.isEof] at hne
    exact escStep_err_append r1 e v g err hs this

/-- a loop iteration that does not report io.ErrUnexpectedEOF is not affected by appended input -/
theorem strStep_def_append (c : UInt8) (r1 e : Bytes) (v : Bool) (hne : (strStep c r1 v).isEof = false) :
    strStep c (r1 ++ e) v = strStep c r1 v := by
  by_cases hn : noEscape c = true
  · simp [strStep, hn]
  · have hn' : noEscape c = false := by simpa using hn
    by_cases hq : (c == 0x22) = true
    · simp [strStep, hn', hq]
    · have hq' : (c == 0x22) = false := by simpa using hq
      by_cases hfull : Utf8.fullRune (c :: r1) = true
      · have hd : Utf8.decodeRune (c :: (r1 ++ e)) = Utf8.decodeRune (c :: r1) :=
          Utf8.decodeRune_append_of_full (c :: r1) e hfull
        have hf : Utf8.fullRune (c :: (r1 ++ e)) = true := Utf8.fullRune_append (c :: r1) e hfull
        unfold strStep at hne ⊢
        simp only [hn', hq', hd, hf, hfull, Bool.false_eq_true, if_false, Bool.not_true] at hne ⊢
        by_cases h2 : (Utf8.decodeRune (c :: r1)).2 > 1
        · simp only [h2, if_true]
        · simp only [h2, if_false] at hne ⊢
          by_cases h5 : ((Utf8.decodeRune (c :: r1)).1 == 0x5C) = true
          · simp only [h5, if_true] at hne ⊢
            exact escStep_def_append r1 e v hne
          · simp only [h5, Bool.false_eq_true, if_false]
      · have hfull' : Utf8.fullRune (c :: r1) = false := by simpa using hfull
        rw [strStep_not_full c r1 v hn' hq' hfull'] at hne
        simp [Step.isEof] at hne

theorem strStep_adv_le (c : UInt8) (r1 : Bytes) (v : Bool) (k : Nat) (g : VFlags) (h : strStep c r1 v = .adv k g) :
    k ≤ r1.length := (strStep_adv_append c r1 [] v k g h).2

/-- a definitive result of the loop (nil or a syntax error) is not affected by appended input -/
theorem strLoop_stable (r : Bytes) : ∀ (n0 : Nat) (f : VFlags) (v : Bool) (e : Bytes),
    (strLoop r n0 f v).2.2 ≠ .eof → strLoop (r ++ e) n0 f v = strLoop r n0 f v := by
  induction hlen : r.length using Nat.strongRecOn generalizing r with
  | ind len ih =>
    intro n0 f v e h
    cases r with
    | nil => simp [strLoop_nil] at h
    | cons c r1 =>
      rw [strLoop_cons] at h
      rw [List.cons_append, strLoop_cons, strLoop_cons]
      cases hs : strStep c r1 v with
      | adv k g =>
        simp only [hs] at h
        have hk := strStep_adv_le c r1 v k g hs
        rw [strStep_def_append c r1 e v (by simp [hs, Step.isEof]), hs]
        simp only
        have hlt : (r1.drop k).length < len := by subst hlen; simp [List.length_drop]; omega
        rw [List.drop_append_of_le_length hk]
        exact ih _ hlt (r1.drop k) rfl _ _ _ e h
      | done =>
        rw [strStep_def_append c r1 e v (by simp [hs, Step.isEof]), hs]
      | stop g err =>
        simp only [hs] at h
        have : err ≠ .eof := h
        rw [strStep_def_append c r1 e v (by
          cases err <;> simp_all [Step.isEof]), hs]

theorem str_stable (f : VFlags) (b e : Bytes) (v : Bool)
    (h : (consumeStringResumable f b 0 v).2.2 ≠ .eof) :
    consumeStringResumable f (b ++ e) 0 v = consumeStringResumable f b 0 v := by
  cases b with
  | nil => simp [consumeStringResumable] at h
  | cons c r =>
    simp only [consumeStringResumable, Nat.lt_irrefl, if_false, List.cons_append] at h ⊢
    by_cases hq : (c == 0x22) = true
    · simp only [hq, if_true] at h ⊢
      exact strLoop_stable r 1 f v e h
    · simp [hq]

/-- `(n, f')` is as good as a fresh start (with the original flags `f`) on every extension of `b` -/
def StrFresh (f : VFlags) (v : Bool) (b : Bytes) (n : Nat) (f' : VFlags) : Prop :=
  ∀ e, consumeStringResumable f' (b ++ e) n v = consumeStringResumable f (b ++ e) 0 v

theorem consumeStringChunks_inv (f : VFlags) (v : Bool) (cs : List Bytes) :
    ∀ (b : Bytes) (n : Nat) (f' : VFlags), StrFresh f v b n f' →
    consumeStringChunks f' b n v cs = consumeStringResumable f (b ++ cs.flatten) 0 v := by
  induction cs with
  | nil => intro b n f' h; have := h []; simpa [consumeStringChunks] using this
  | cons c cs ih =>
    intro b n f' h
    have h0 := h []
    simp only [List.append_nil] at h0
    simp only [consumeStringChunks, h0]
    by_cases heof : (consumeStringResumable f b 0 v).2.2 = .eof
    · rw [if_pos heof]
      have hfresh : StrFresh f v (b ++ c) (consumeStringResumable f b 0 v).1 (consumeStringResumable f b 0 v).2.1 := by
        intro e
        have := str_resume_eq f b (c ++ e) v _ _ (by rw [← heof])
        simpa [List.append_assoc] using this
      rw [ih (b ++ c) _ _ hfresh]
      simp [List.append_assoc]
    · rw [if_neg heof, str_stable f b _ v heof]

/-- `chunk_indep` for strings -/
theorem str_chunk_indep (f : VFlags) (v : Bool) (c : Bytes) (cs : List Bytes) :
    consumeStringChunks f c 0 v cs = consumeStringResumable f (c ++ cs.flatten) 0 v :=
  consumeStringChunks_inv f v cs c 0 f (fun _ => rfl)


theorem decodeRune_nonascii_small (c : UInt8) (r : Bytes) (h0 : ¬ c.toNat < Utf8.runeSelf)
    (h : (Utf8.decodeRune (c :: r)).2 ≤ 1) : (Utf8.decodeRune (c :: r)).1 = Utf8.runeError := by
  unfold Utf8.decodeRune at h ⊢
  simp only [h0, if_false] at h ⊢
  cases hl : Utf8.leadInfo c.toNat with
  | none => simp
  | some t =>
    obtain ⟨sz, lo, hi⟩ := t
    simp only [hl] at h ⊢
    cases r with
    | nil => simp
    | cons b1 rest1 =>
      by_cases h1 : b1.toNat < lo ∨ hi < b1.toNat
      · simp [h1]
      · simp only [h1, if_false] at h ⊢
        by_cases hs2 : sz = 2
        · simp [hs2] at h
        · simp only [hs2, if_false] at h ⊢
          cases rest1 with
          | nil => simp
          | cons b2 rest2 =>
            by_cases h2 : Utf8.isCont b2.toNat = true
            · simp only [h2, Bool.not_true, Bool.false_eq_true, if_false] at h ⊢
              by_cases hs3 : sz = 3
              · simp [hs3] at h
              · simp only [hs3, if_false] at h ⊢
                cases rest2 with
                | nil => simp
                | cons b3 rest3 =>
                  by_cases h3 : Utf8.isCont b3.toNat = true
                  · simp [h3] at h
                  · simp [h3]
            · simp [h2]

/-- The `default: panic("BUG: unhandled character")` arm of ConsumeStringResumable (decode.go:246) is unreachable:
a rune of width ≤ 1 that is not an unescaped ASCII byte, not '"', not '\\' and not RuneError is a control
character, which is the case the model's last branch reports as an invalid character. -/
theorem strStep_default_unreachable (c : UInt8) (r1 : Bytes)
    (hn : noEscape c = false) (hq : (c == 0x22) = false)
    (h2 : ¬ (Utf8.decodeRune (c :: r1)).2 > 1)
    (h5 : ((Utf8.decodeRune (c :: r1)).1 == 0x5C) = false)
    (hre : ((Utf8.decodeRune (c :: r1)).1 == Utf8.runeError) = false) :
    (Utf8.decodeRune (c :: r1)).1 < 0x20 := by
  by_cases h0 : c.toNat < Utf8.runeSelf
  · rw [Utf8.decodeRune_ascii c r1 h0] at h5 ⊢
    simp only at h5 ⊢
    simp [noEscape, UInt8.lt_iff_toNat_lt, UInt8.le_iff_toNat_le, ← UInt8.toNat_inj, Utf8.runeSelf] at hn hq h5 h0 ⊢
    omega
  · have := decodeRune_nonascii_small c r1 h0 (by omega)
    simp [this] at hre


end JsonV.Model.Resume
