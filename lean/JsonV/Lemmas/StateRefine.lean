/-
Refinement of the packed state machine (Model/State.lean) to the PDA spec (Spec/PDA.lean).
Core Lean only.
-/
import JsonV.Model.State
import JsonV.Spec.PDA
import JsonV.Lemmas.StateEntry

namespace JsonV.Lemmas.StateRefine
open JsonV.Model JsonV.Spec JsonV.Spec.PDA JsonV.Lemmas.StateEntry

/-- The machine operation that handles a token kind (WriteToken/ReadToken dispatch). -/
def smStep (max : Nat) (m : Machine) : Kind → Except SMErr Machine
  | .lit => m.appendLiteral
  | .str => m.appendString
  | .num => m.appendNumber
  | .beginObj => m.pushObject max
  | .endObj => m.popObject
  | .beginArr => m.pushArray max
  | .endArr => m.popArray

def smRun (max : Nat) : Machine → List Kind → Except SMErr Machine
  | m, [] => .ok m
  | m, k :: ks => match smStep max m k with
    | .ok m' => smRun max m' ks
    | .error e => .error e

/-- Abstraction of one packed entry. -/
def absE (e : Entry) : Frame := if e.isObject then .obj e.length else .arr e.length

/-- Abstraction of the machine: innermost frame first. -/
def abs (m : Machine) : Frames := absE m.last :: (m.stack.map absE).reverse

/-- An entry with both namespace bits clear and at most `b` elements. -/
def Clean (b : Nat) (e : Entry) : Prop := e.toNat / 2^61 % 4 = 0 ∧ e.toNat % 2^61 ≤ b

/-- Invariant of machines reachable through the seven token operations within `b` steps. -/
structure Inv (max b : Nat) (m : Machine) : Prop where
  last : Clean b m.last
  stack : ∀ e ∈ m.stack, Clean b e
  depth : m.stack.length ≤ max

/-! ### Entry level -/

theorem needName_abs (e : Entry) : (absE e).needName = e.needObjectName := by
  have h := lt64 e
  simp only [absE, needObjectName_eq, isObject_eq, length_eq]
  by_cases h1 : 2^63 ≤ e.toNat <;> simp [h1, Frame.needName] <;> omega

theorem needValue_abs (e : Entry) : (absE e).needValue = e.needObjectValue := by
  have h := lt64 e
  simp only [absE, needObjectValue_eq, isObject_eq, length_eq]
  by_cases h1 : 2^63 ≤ e.toNat <;> simp [h1, Frame.needValue] <;> omega

theorem count_abs (e : Entry) : (absE e).count = e.length := by
  simp only [absE]; split <;> rfl

theorem valid_of_clean {b : Nat} {e : Entry} (h : Clean b e) : e.isValidNamespace = true := by
  rw [isValidNamespace_eq]; have := h.1; simp; omega

theorem active_of_clean {b : Nat} {e : Entry} (h : Clean b e) : e.isActiveNamespace = true := by
  rw [isActiveNamespace_eq]; have := h.1; simp; omega

theorem clean_mono {b b' : Nat} {e : Entry} (h : Clean b e) (hb : b ≤ b') : Clean b' e :=
  ⟨h.1, Nat.le_trans h.2 hb⟩

theorem clean_increment {b : Nat} {e : Entry} (h : Clean b e) (hb : b + 1 < 2^61) :
    Clean (b + 1) e.increment := by
  have hl := lt64 e
  obtain ⟨h1, h2⟩ := h
  unfold Clean
  rw [increment_toNat]
  omega

theorem abs_increment {b : Nat} {e : Entry} (h : Clean b e) (hb : b + 1 < 2^61) :
    absE e.increment = (absE e).bump := by
  have hl := lt64 e
  obtain ⟨h1, h2⟩ := h
  simp only [absE, isObject_eq, length_eq, increment_toNat]
  by_cases h3 : 2^63 ≤ e.toNat
  · have : 2^63 ≤ (e.toNat + 1) % 2^64 := by omega
    simp only [h3, this, decide_true, if_true, Frame.bump, Frame.obj.injEq]; omega
  · have : ¬ 2^63 ≤ (e.toNat + 1) % 2^64 := by omega
    simp only [h3, this, decide_false, Bool.false_eq_true, if_false, Frame.bump, Frame.arr.injEq]; omega

theorem clean_typeObject (b : Nat) : Clean b Entry.typeObject := by
  unfold Clean; rw [typeObject_toNat]; omega
theorem clean_typeArray (b : Nat) : Clean b Entry.typeArray := by
  unfold Clean; rw [typeArray_toNat]; omega
theorem abs_typeObject : absE Entry.typeObject = .obj 0 := by decide
theorem abs_typeArray : absE Entry.typeArray = .arr 0 := by decide

theorem absE_obj {e : Entry} (h : e.isObject = true) : absE e = .obj e.length := by simp [absE, h]
theorem absE_arr {e : Entry} (h : e.isObject = false) : absE e = .arr e.length := by simp [absE, h]
theorem isArray_not (e : Entry) : e.isArray = !e.isObject := by
  rw [isArray_eq, isObject_eq]; by_cases h : 2^63 ≤ e.toNat <;> simp [h] <;> omega


/-! ### Machine level -/

theorem abs_push (s : List Entry) (x y : Entry) :
    abs { stack := s ++ [x], last := y } = absE y :: absE x :: (s.map absE).reverse := by
  simp [abs]

theorem abs_cons (m : Machine) : abs m = absE m.last :: (m.stack.map absE).reverse := rfl

theorem inv_init (max : Nat) : Inv max 0 Machine.init :=
  ⟨clean_typeArray 0, (by intro e h; cases h), Nat.zero_le _⟩

theorem abs_init : abs Machine.init = PDA.init := by decide

/-- Result of one refinement step: success on both sides with related states, or failure on both. -/
def StepRel (max b : Nat) (m : Machine) (k : Kind) : Prop :=
  match smStep max m k with
  | .ok m' => step max (abs m) k = some (abs m') ∧ Inv max (b + 1) m'
  | .error _ => step max (abs m) k = none

theorem inv_bump_last {max b : Nat} {m : Machine} (h : Inv max b m) (hb : b + 1 < 2^61) :
    Inv max (b + 1) { m with last := m.last.increment } :=
  ⟨clean_increment h.last hb, fun e he => clean_mono (h.stack e he) (Nat.le_succ b), h.depth⟩

theorem refine_lit {max b : Nat} {m : Machine} (h : Inv max b m) (hb : b + 1 < 2^61) :
    match m.appendLiteral with
    | .ok m' => step max (abs m) .lit = some (abs m') ∧ Inv max (b + 1) m'
    | .error _ => step max (abs m) .lit = none := by
  unfold Machine.appendLiteral
  rw [valid_of_clean h.last]
  by_cases hn : m.last.needObjectName = true
  · simp [hn, step, abs_cons, needName_abs]
  · simp only [hn, Bool.not_true, Bool.false_eq_true, if_false]
    refine ⟨?_, inv_bump_last h hb⟩
    simp [step, abs_cons, needName_abs, hn, abs_increment h.last hb]

theorem refine_num {max b : Nat} {m : Machine} (h : Inv max b m) (hb : b + 1 < 2^61) :
    match m.appendNumber with
    | .ok m' => step max (abs m) .num = some (abs m') ∧ Inv max (b + 1) m'
    | .error _ => step max (abs m) .num = none := by
  have := refine_lit (max := max) h hb
  unfold Machine.appendNumber
  revert this
  cases m.appendLiteral <;> simp [step]

theorem refine_str {max b : Nat} {m : Machine} (h : Inv max b m) (hb : b + 1 < 2^61) :
    match m.appendString with
    | .ok m' => step max (abs m) .str = some (abs m') ∧ Inv max (b + 1) m'
    | .error _ => step max (abs m) .str = none := by
  unfold Machine.appendString
  rw [valid_of_clean h.last]
  simp only [Bool.not_true, Bool.false_eq_true, if_false]
  refine ⟨?_, inv_bump_last h hb⟩
  simp [step, abs_cons, abs_increment h.last hb]

theorem inv_push {max b : Nat} {m : Machine} (h : Inv max b m) (hb : b + 1 < 2^61)
    (hd : m.stack.length ≠ max) (y : Entry) (hy : Clean (b + 1) y) :
    Inv max (b + 1) { stack := m.stack ++ [m.last.increment], last := y } := by
  refine ⟨hy, ?_, ?_⟩
  · intro e he
    rcases List.mem_append.mp he with he | he
    · exact clean_mono (h.stack e he) (Nat.le_succ b)
    · rw [List.mem_singleton.mp he]; exact clean_increment h.last hb
  · have := h.depth; simp; omega

theorem refine_pushObj {max b : Nat} {m : Machine} (h : Inv max b m) (hb : b + 1 < 2^61) :
    match m.pushObject max with
    | .ok m' => step max (abs m) .beginObj = some (abs m') ∧ Inv max (b + 1) m'
    | .error _ => step max (abs m) .beginObj = none := by
  unfold Machine.pushObject
  rw [valid_of_clean h.last]
  have hd := h.depth
  by_cases hn : m.last.needObjectName = true
  · simp [hn, step, abs_cons, needName_abs]
  · by_cases hm : m.stack.length = max
    · simp [hn, hm, step, abs_cons, needName_abs]
    · simp only [hn, hm, Bool.not_true, Bool.false_eq_true, if_false]
      refine ⟨?_, inv_push h hb hm _ (clean_typeObject _)⟩
      have : m.stack.length < max := by omega
      simp [step, abs_cons, needName_abs, hn, this, abs_increment h.last hb, abs_typeObject]

theorem refine_pushArr {max b : Nat} {m : Machine} (h : Inv max b m) (hb : b + 1 < 2^61) :
    match m.pushArray max with
    | .ok m' => step max (abs m) .beginArr = some (abs m') ∧ Inv max (b + 1) m'
    | .error _ => step max (abs m) .beginArr = none := by
  unfold Machine.pushArray
  rw [valid_of_clean h.last]
  have hd := h.depth
  by_cases hn : m.last.needObjectName = true
  · simp [hn, step, abs_cons, needName_abs]
  · by_cases hm : m.stack.length = max
    · simp [hn, hm, step, abs_cons, needName_abs]
    · simp only [hn, hm, Bool.not_true, Bool.false_eq_true, if_false]
      refine ⟨?_, inv_push h hb hm _ (clean_typeArray _)⟩
      have : m.stack.length < max := by omega
      simp [step, abs_cons, needName_abs, hn, this, abs_increment h.last hb, abs_typeArray]

theorem inv_pop {max b : Nat} {L : List Entry} {x y : Entry}
    (h : Inv max b { stack := L ++ [x], last := y }) : Inv max (b + 1) { stack := L, last := x } := by
  refine ⟨clean_mono (h.stack x (by simp)) (Nat.le_succ b), ?_, ?_⟩
  · intro e he; exact clean_mono (h.stack e (by simp [he])) (Nat.le_succ b)
  · have := h.depth; simp at this; simp; omega

theorem refine_popObj {max b : Nat} {m : Machine} (h : Inv max b m) :
    match m.popObject with
    | .ok m' => step max (abs m) .endObj = some (abs m') ∧ Inv max (b + 1) m'
    | .error _ => step max (abs m) .endObj = none := by
  obtain ⟨s, l⟩ := m
  unfold Machine.popObject
  simp only
  rw [valid_of_clean h.last]
  by_cases ho : l.isObject = true
  · have hv : l.needObjectValue = decide (l.length % 2 = 1) := by
      rw [← needValue_abs, absE_obj ho]; rfl
    by_cases hp : l.length % 2 = 1
    · simp only [ho, hv, hp, Bool.not_true, Bool.false_eq_true, if_false, decide_true, if_true,
        abs_cons, absE_obj ho]
      generalize (List.map absE s).reverse = R
      cases R <;> simp [step, hp]
    · have hp0 : l.length % 2 = 0 := by omega
      rcases List.eq_nil_or_concat s with hs | ⟨L, x, hs⟩
      · subst hs; simp [ho, hv, hp, step, abs_cons, absE_obj ho]
      · rw [List.concat_eq_append] at hs; subst hs
        simp only [ho, hv, hp, Bool.not_true, Bool.false_eq_true, if_false, decide_false,
          List.getLast?_append, List.getLast?_singleton, Option.some_or, List.dropLast_concat]
        refine ⟨?_, inv_pop h⟩
        simp [step, abs_cons, absE_obj ho, hp0]
  · have ho' : l.isObject = false := by simpa using ho
    simp [ho', step, abs_cons, absE_arr ho']

theorem refine_popArr {max b : Nat} {m : Machine} (h : Inv max b m) :
    match m.popArray with
    | .ok m' => step max (abs m) .endArr = some (abs m') ∧ Inv max (b + 1) m'
    | .error _ => step max (abs m) .endArr = none := by
  obtain ⟨s, l⟩ := m
  unfold Machine.popArray
  simp only
  rw [valid_of_clean h.last, isArray_not]
  by_cases ho : l.isObject = true
  · simp [ho, step, abs_cons, absE_obj ho]
  · have ho' : l.isObject = false := by simpa using ho
    rcases List.eq_nil_or_concat s with hs | ⟨L, x, hs⟩
    · subst hs; simp [ho', step, abs_cons, absE_arr ho']
    · rw [List.concat_eq_append] at hs; subst hs
      simp only [ho', Bool.not_false, List.length_append, List.length_singleton, Nat.add_one_ne_zero,
        decide_false, Bool.or_false, Bool.not_true, Bool.false_eq_true, if_false,
        List.getLast?_append, List.getLast?_singleton, Option.some_or, List.dropLast_concat]
      refine ⟨?_, inv_pop h⟩
      simp [step, abs_cons, absE_arr ho']

/-- **Refinement**: under the invariant, every machine operation succeeds iff the PDA step is
defined, and then commutes with the abstraction (and re-establishes the invariant). -/
theorem step_refines {max b : Nat} {m : Machine} (h : Inv max b m) (hb : b + 1 < 2^61) (k : Kind) :
    StepRel max b m k := by
  unfold StepRel
  cases k
  · exact refine_lit h hb
  · exact refine_str h hb
  · exact refine_num h hb
  · exact refine_pushObj h hb
  · exact refine_popObj h
  · exact refine_pushArr h hb
  · exact refine_popArr h

end JsonV.Lemmas.StateRefine
