/-
C11 lemmas: NeedEscape is sound (a string it clears is quoted verbatim under every flag set), and the two
`panic("BUG: unhandled character")` default branches (AppendUnquote, ConsumeString) are unreachable.
Core Lean only.
-/
import JsonV.Lemmas.QuoteL

namespace JsonV.Lemmas.QuoteTotal
open JsonV JsonV.Model.Utf8 JsonV.Model.Quote JsonV.Lemmas.QuoteUtf8 JsonV.Lemmas.QuoteL JsonV.Spec.StringSpec

/-! ### NeedEscape -/

theorem quoteStep_verbatim (html js : Bool) (c : UInt8) (t : Bytes) (h0 : ¬ c.toNat < runeSelf)
    (hn : (decodeRune (c :: t)).1 ≠ runeError ∧ (decodeRune (c :: t)).1 ≠ 0x2028 ∧ (decodeRune (c :: t)).1 ≠ 0x2029) :
    quoteStep html js c t = ((c :: t).take (decodeRune (c :: t)).2, (decodeRune (c :: t)).2, false) := by
  simp only [quoteStep, h0, ↓reduceIte]
  rw [if_pos hn]

theorem quoteLoop_of_not_needEscape (html js : Bool) (s : Bytes) (h : needEscape s = false) :
    quoteLoop html js s = (s, false) := by
  fun_induction needEscape s with
  | case1 => simp [quoteLoop]
  | case2 c t h0 hesc => simp at h
  | case3 c t h0 hesc ih =>
    have he : escapeASCII c.toNat = 0 := by omega
    rw [quoteLoop]
    simp only [quoteStep, h0, he, ↓reduceIte, List.drop_succ_cons, List.drop_zero, ih h]
    simp
  | case4 c t h0 d hsp => simp at h
  | case5 c t h0 d hsp ih =>
    have hn : (decodeRune (c :: t)).1 ≠ runeError ∧ (decodeRune (c :: t)).1 ≠ 0x2028 ∧ (decodeRune (c :: t)).1 ≠ 0x2029 := by
      show d.1 ≠ runeError ∧ d.1 ≠ 0x2028 ∧ d.1 ≠ 0x2029
      omega
    rw [quoteLoop, quoteStep_verbatim html js c t h0 hn]
    show (List.take d.2 (c :: t) ++ (quoteLoop html js (List.drop d.2 (c :: t))).1, false || (quoteLoop html js (List.drop d.2 (c :: t))).2) = _
    rw [ih h]
    simp

/-! ### The `panic("BUG: unhandled character")` branches are unreachable -/

def stepErr : Step → Option Err
  | .cont _ _ e => e
  | .stop _ e => e

def cstepErr : CStep → Err
  | .cont _ _ => .ok
  | .stop _ e _ => e

theorem unqSurrogate_no_bug (v1 : Nat) (rest : Bytes) : stepErr (unqSurrogate v1 rest) ≠ some .bug := by
  simp only [unqSurrogate]
  repeat' split
  all_goals simp [stepErr]

theorem unqEscapeU_no_bug (src : Bytes) : stepErr (unqEscapeU src) ≠ some .bug := by
  simp only [unqEscapeU]
  repeat' split
  all_goals first | exact unqSurrogate_no_bug _ _ | simp [stepErr]

theorem unqEscape_no_bug (src : Bytes) : stepErr (unqEscape src) ≠ some .bug := by
  simp only [unqEscape]
  repeat' split
  all_goals first | exact unqEscapeU_no_bug _ | simp [stepErr]

/-- The head byte is handled by one of the explicit cases of the `switch`. -/
theorem switch_exhaustive (c : UInt8) (t : Bytes) (h1 : noEscape c.toNat = false) (h2 : c ≠ 0x22)
    (h3 : ¬ (decodeRune (c :: t)).2 > 1) (h4 : ¬ (decodeRune (c :: t)).1 = 0x5c)
    (h5 : ¬ (decodeRune (c :: t)).1 = runeError) (h6 : ¬ (decodeRune (c :: t)).1 < 0x20) : False := by
  by_cases h0 : c.toNat < runeSelf
  · rw [decodeRune_ascii c t h0] at h4 h6
    have h7 : c.toNat ≠ 0x22 := by intro h; exact h2 (by have := u8_eq_of_toNat (by omega) h; simpa using this)
    have : noEscape c.toNat = true := by
      simp only [noEscape, Bool.and_eq_true, decide_eq_true_eq, ne_eq]
      simp only [runeSelf] at h0
      exact ⟨⟨⟨h0, by omega⟩, by simpa using h4⟩, by simpa using h7⟩
    rw [this] at h1; cases h1
  · rcases decodeRune_high c t h0 with h | h
    · exact h3 h
    · rw [h] at h5; exact h5 rfl

theorem unqStep_no_bug (src : Bytes) : stepErr (unqStep src) ≠ some .bug := by
  match src with
  | [] => simp [unqStep, stepErr]
  | c :: t =>
    simp only [unqStep]
    split
    · simp [stepErr]
    · split
      · simp only [stepErr]; split <;> simp
      · split
        · simp [stepErr]
        · split
          · exact unqEscape_no_bug _
          · split
            · split <;> simp [stepErr]
            · split
              · simp [stepErr]
              · rename_i h1 h2 h3 h4 h5 h6
                exact (switch_exhaustive c t (by simpa using h1) h2 h3 h4 h5 h6).elim

theorem unqLoop_no_bug (src : Bytes) (e : Err) (he : e ≠ .bug) : (unqLoop src e).2 ≠ .bug := by
  fun_induction unqLoop src e with
  | case1 src e o e' h =>
    have := unqStep_no_bug src
    rw [h] at this
    cases e' <;> simp_all [stepErr]
  | case2 src e o k e' h r ih =>
    have := unqStep_no_bug src
    rw [h] at this
    apply ih
    cases e' <;> simp_all [stepErr]

theorem appendUnquote_no_bug (src : Bytes) : (appendUnquote src).2 ≠ .bug := by
  simp only [appendUnquote]
  split
  · simp
  · split
    · exact unqLoop_no_bug _ _ (by simp)
    · simp

theorem csSurrogate_no_bug (v1 : Nat) (nc : Bool) (rest : Bytes) : cstepErr (csSurrogate v1 nc rest) ≠ .bug := by
  simp only [csSurrogate]
  repeat' split
  all_goals simp [cstepErr]

theorem csEscapeU_no_bug (v : Bool) (src : Bytes) : cstepErr (csEscapeU v src) ≠ .bug := by
  simp only [csEscapeU]
  repeat' split
  all_goals first | exact csSurrogate_no_bug _ _ _ | simp [cstepErr]

theorem csEscape_no_bug (v : Bool) (src : Bytes) : cstepErr (csEscape v src) ≠ .bug := by
  simp only [csEscape]
  repeat' split
  all_goals first | exact csEscapeU_no_bug _ _ | simp [cstepErr]

theorem csStep_no_bug (v : Bool) (src : Bytes) : cstepErr (csStep v src) ≠ .bug := by
  match src with
  | [] => simp [csStep, cstepErr]
  | c :: t =>
    simp only [csStep]
    split
    · simp [cstepErr]
    · split
      · simp [cstepErr]
      · split
        · simp [cstepErr]
        · split
          · exact csEscape_no_bug _ _
          · split
            · repeat' split
              all_goals simp [cstepErr]
            · split
              · simp [cstepErr]
              · rename_i h1 h2 h3 h4 h5 h6
                exact (switch_exhaustive c t (by simpa using h1) h2 h3 h4 h5 h6).elim

theorem csLoop_no_bug (v : Bool) (src : Bytes) (n : Nat) (nc : Bool) : (csLoop v src n nc).2.1 ≠ .bug := by
  fun_induction csLoop v src n nc with
  | case1 src n nc off e nc' h =>
    have := csStep_no_bug v src
    rw [h] at this
    simpa [cstepErr] using this
  | case2 src n nc k nc' h ih => exact ih

theorem consumeString_no_bug (v : Bool) (b : Bytes) : (consumeString v b).2.1 ≠ .bug := by
  simp only [consumeString]
  split
  · simp
  · split
    · exact csLoop_no_bug _ _ _ _
    · simp

theorem reformatString_no_bug (f : QFlags) (src : Bytes) : (reformatString f src).2.2 ≠ .bug := by
  simp only [reformatString]
  split
  · exact consumeString_no_bug _ _
  · repeat' split
    all_goals simp

end JsonV.Lemmas.QuoteTotal
