/-
A simple signed decimal parser (the core of the int arshaler's unmarshal path for 64 bits: optional '-',
`jsonwire.ParseUint`, range test, `int64(±n)` with wrap) and the print/parse round trip for every int64.
Core Lean only.
-/
import JsonV.Lemmas.TimeDur

namespace JsonV.Model.Time
open JsonV

/-- `makeIntArshaler(...).unmarshal` on the number text for `bits = 64`:
`n, ok := ParseUint(val[negOffset:]); overflow := (neg && n > 1<<63) || (!neg && n > 1<<63-1)`; result `int64(∓n)`. -/
def parseInt64 (b : Bytes) : Except Err Int :=
  let (neg, rest) := match b with
    | c :: rest => if c = cMinus then (true, rest) else (false, b)
    | [] => (false, b)
  let (n, ok) := parseUint rest
  let overflow := (neg && decide (n > I63)) || (!neg && decide (n > I63 - 1))
  if !ok then (if n ≠ maxU64 then .error .syntax else .error .range)
  else if overflow then .error .range
  else if neg then .ok (wrapI (-(n : Int))) else .ok (toI64 n)

theorem parseInt64_intDigits (i : Int) (h0 : -9223372036854775808 ≤ i) (h1 : i < 9223372036854775808) :
    parseInt64 (intDigits i) = .ok i := by
  unfold parseInt64 intDigits
  by_cases hn : i < 0
  · rw [if_pos hn]
    simp only [if_true]
    rw [parseUint_natDigits (by simp only [U64]; omega)]
    simp only [I63]
    have hle : ¬ ((-i).toNat > 9223372036854775808) := by omega
    simp only [hle, decide_false]
    simp
    by_cases hm : i = -9223372036854775808
    · subst hm; decide
    · rw [wrapI_id (by omega) (by omega)]; omega
  · rw [if_neg hn]
    have hall := natDigits_allDigits i.toNat
    cases hd : natDigits i.toNat with
    | nil => exact absurd hd (natDigits_ne_nil _)
    | cons c cs =>
      rw [hd] at hall
      simp only [List.all_cons, Bool.and_eq_true] at hall
      have hne : c ≠ cMinus := digit_ne hall.1 (by decide)
      simp only [if_neg hne]
      rw [← hd, parseUint_natDigits (by simp only [U64]; omega)]
      simp only [I63]
      have hle : ¬ (i.toNat > 9223372036854775808 - 1) := by omega
      simp only [hle, decide_false]
      simp
      rw [toI64_small (by omega)]; omega

end JsonV.Model.Time
