/-
Lemmas for C17 (policing): what the DepthLength comparison around a MarshalJSONTo / UnmarshalJSONFrom /
MarshalToFunc / UnmarshalFromFunc call accepts, stated against the operations of `Model.State.Machine`.
-/
import JsonV.Model.Dispatch

namespace JsonV.Lemmas.DispatchPolice
open JsonV.Model JsonV.Model.Dispatch

/-! ### The comparison itself -/

theorem police_done_iff (prev cur : Nat × Nat) (ret : Ret) :
    police prev cur ret = .done ↔ ret = .nil ∧ cur.1 = prev.1 ∧ cur.2 = prev.2 + 1 := by
  cases ret <;> simp only [police]
  · by_cases h1 : prev.1 = cur.1 <;> by_cases h2 : prev.2 + 1 = cur.2 <;> simp [h1, h2] <;> omega
  · split <;> simp
  · simp

theorem police_skip_iff (prev cur : Nat × Nat) (ret : Ret) :
    police prev cur ret = .skip ↔ ret = .unsupported ∧ cur = prev := by
  cases ret <;> simp only [police]
  · split <;> simp
  · by_cases h1 : prev.1 = cur.1 <;> by_cases h2 : prev.2 = cur.2 <;> simp [h1, h2, Prod.ext_iff] <;> omega
  · simp

theorem runScript_nil (maxDepth : Nat) (m : Machine) : runScript maxDepth [] m = (m, none) := rfl

/-- A script that reports an error is rejected whatever it returned and whatever it wrote. -/
theorem userCall_error (maxDepth : Nat) (m : Machine) (script : List Op) (ret : Ret)
    (h : (runScript maxDepth script m).2.isSome = true) : userCall maxDepth m script ret = .fail := by
  simp [userCall, h, police]

/-! ### Shape of a script: relative depth and number of values started at the starting level -/

/-- Walk a script keeping the nesting depth relative to the start (`r`) and the number of values begun at the
starting level (`c`); `none` as soon as the script closes a container it did not open. -/
def shape : List Op → Nat → Nat → Option (Nat × Nat)
  | [], r, c => some (r, c)
  | .lit :: rest, r, c => shape rest r (if r = 0 then c + 1 else c)
  | .str :: rest, r, c => shape rest r (if r = 0 then c + 1 else c)
  | .val :: rest, r, c => shape rest r (if r = 0 then c + 1 else c)
  | .pushO :: rest, r, c => shape rest (r + 1) (if r = 0 then c + 1 else c)
  | .pushA :: rest, r, c => shape rest (r + 1) (if r = 0 then c + 1 else c)
  | .popO :: rest, r, c => if r = 0 then none else shape rest (r - 1) c
  | .popA :: rest, r, c => if r = 0 then none else shape rest (r - 1) c

/-! ### stateEntry arithmetic -/

theorem length_eq_mod (e : Entry) : e.length = e.toNat % 2 ^ 61 := by
  unfold Entry.length Entry.countMask
  rw [BitVec.toNat_and]
  have : (0x1fffffffffffffff#64).toNat = 2 ^ 61 - 1 := by decide
  rw [this, Nat.and_two_pow_sub_one_eq_mod]

theorem length_increment (e : Entry) (h : e.length < 2 ^ 61 - 1) : e.increment.length = e.length + 1 := by
  rw [length_eq_mod] at h ⊢
  rw [length_eq_mod]
  unfold Entry.increment
  rw [BitVec.toNat_add]
  have h1 : (1#64).toNat = 1 := by decide
  have h2 := e.isLt
  rw [h1]
  omega

theorem length_typeObject : Entry.typeObject.length = 0 := by decide
theorem length_typeArray : Entry.typeArray.length = 0 := by decide

/-! ### The machine follows the shape -/

/-- Length of the entry of the starting level: the current entry when we are at the starting level,
otherwise the first entry pushed above the original stack. -/
def baseLen (ext : List Entry) (last : Entry) : Nat :=
  match ext with
  | [] => last.length
  | e :: _ => e.length

/-- The state after a successfully executed prefix: original stack untouched, `r` entries above it,
starting-level entry incremented `c` times. -/
def Tracks (m0 m : Machine) (r c : Nat) : Prop :=
  ∃ ext : List Entry, m.stack = m0.stack ++ ext ∧ ext.length = r ∧ baseLen ext m.last = m0.last.length + c

theorem tracks_init (m0 : Machine) : Tracks m0 m0 0 0 := ⟨[], by simp, rfl, by simp [baseLen]⟩

private theorem scalar_step (m0 m : Machine) (r c : Nat) (e' : Entry) (ht : Tracks m0 m r c)
    (he : e' = m.last.increment) (hov : m0.last.length + c < 2 ^ 61 - 1) :
    Tracks m0 { m with last := e' } r (if r = 0 then c + 1 else c) := by
  obtain ⟨ext, hs, hl, hb⟩ := ht
  refine ⟨ext, hs, hl, ?_⟩
  cases ext with
  | nil =>
    simp only [List.length_nil] at hl
    subst hl
    simp only [baseLen] at hb ⊢
    simp only [↓reduceIte, he]
    rw [length_increment _ (by omega)]
    omega
  | cons x xs =>
    simp only [List.length_cons] at hl
    have : r ≠ 0 := by omega
    simp only [baseLen, this, ↓reduceIte] at hb ⊢
    exact hb

private theorem push_step (m0 m : Machine) (r c : Nat) (fresh : Entry) (_hf : fresh.length = 0) (ht : Tracks m0 m r c)
    (hov : m0.last.length + c < 2 ^ 61 - 1) :
    Tracks m0 { stack := m.stack ++ [m.last.increment], last := fresh } (r + 1) (if r = 0 then c + 1 else c) := by
  obtain ⟨ext, hs, hl, hb⟩ := ht
  refine ⟨ext ++ [m.last.increment], by simp [hs], by simp [hl], ?_⟩
  cases ext with
  | nil =>
    simp only [List.length_nil] at hl
    subst hl
    simp only [baseLen] at hb
    simp only [List.nil_append, baseLen, ↓reduceIte]
    rw [length_increment _ (by omega)]
    omega
  | cons x xs =>
    simp only [List.length_cons] at hl
    have : r ≠ 0 := by omega
    simp only [baseLen, this, ↓reduceIte, List.cons_append] at hb ⊢
    exact hb

private theorem pop_step (m0 m : Machine) (r c : Nat) (e : Entry) (ht : Tracks m0 m r c) (hr : r ≠ 0)
    (hg : m.stack.getLast? = some e) :
    Tracks m0 { stack := m.stack.dropLast, last := e } (r - 1) c := by
  obtain ⟨ext, hs, hl, hb⟩ := ht
  have hne : ext ≠ [] := by intro h; subst h; simp at hl; omega
  have hlast : ext.getLast? = some e := by
    rw [hs, List.getLast?_append] at hg
    cases hx : ext.getLast? with
    | none => simp [List.getLast?_eq_none_iff] at hx; exact absurd hx hne
    | some y => simpa [hx] using hg
  refine ⟨ext.dropLast, ?_, by simp [hl], ?_⟩
  · simp only
    rw [hs, List.dropLast_append_of_ne_nil hne]
  · cases ext with
    | nil => exact absurd rfl hne
    | cons x xs =>
      cases xs with
      | nil =>
        simp only [List.getLast?_singleton, Option.some.injEq] at hlast
        subst hlast
        simpa [baseLen] using hb
      | cons y ys =>
        simpa [baseLen, List.dropLast] using hb

/-- Main invariant: a script that the machine accepts and that never closes a container it did not open
leaves the original stack in place, is `r` levels deep, and has begun exactly `c` values at the starting level. -/
theorem runScript_tracks (maxDepth : Nat) (m0 : Machine) (script : List Op) :
    ∀ (m m' : Machine) (r c r' c' : Nat), Tracks m0 m r c →
      m0.last.length + c + script.length < 2 ^ 61 →
      runScript maxDepth script m = (m', none) → shape script r c = some (r', c') → Tracks m0 m' r' c' := by
  induction script with
  | nil =>
    intro m m' r c r' c' ht _ hrun hsh
    simp only [runScript, Prod.mk.injEq, and_true] at hrun
    simp only [shape, Option.some.injEq, Prod.mk.injEq] at hsh
    obtain ⟨rfl, rfl⟩ := hsh
    subst hrun
    exact ht
  | cons op rest ih =>
    intro m m' r c r' c' ht hov hrun hsh
    simp only [List.length_cons] at hov
    have hc1 : m0.last.length + (if r = 0 then c + 1 else c) + rest.length < 2 ^ 61 := by split <;> omega
    have hc0 : m0.last.length + c < 2 ^ 61 - 1 := by omega
    unfold runScript at hrun
    cases hap : op.apply maxDepth m with
    | error e => simp [hap] at hrun
    | ok m1 =>
      simp only [hap] at hrun
      cases op with
      | lit =>
        simp only [Op.apply, Machine.appendLiteral] at hap
        split at hap <;> try (simp at hap; done)
        split at hap <;> try (simp at hap; done)
        simp only [Except.ok.injEq] at hap
        subst hap
        exact ih _ _ _ _ _ _ (scalar_step m0 m r c _ ht rfl hc0) hc1 hrun (by simpa [shape] using hsh)
      | val =>
        simp only [Op.apply, Machine.appendLiteral] at hap
        split at hap <;> try (simp at hap; done)
        split at hap <;> try (simp at hap; done)
        simp only [Except.ok.injEq] at hap
        subst hap
        exact ih _ _ _ _ _ _ (scalar_step m0 m r c _ ht rfl hc0) hc1 hrun (by simpa [shape] using hsh)
      | str =>
        simp only [Op.apply, Machine.appendString] at hap
        split at hap <;> try (simp at hap; done)
        simp only [Except.ok.injEq] at hap
        subst hap
        exact ih _ _ _ _ _ _ (scalar_step m0 m r c _ ht rfl hc0) hc1 hrun (by simpa [shape] using hsh)
      | pushO =>
        simp only [Op.apply, Machine.pushObject] at hap
        split at hap <;> try (simp at hap; done)
        split at hap <;> try (simp at hap; done)
        split at hap <;> try (simp at hap; done)
        simp only [Except.ok.injEq] at hap
        subst hap
        exact ih _ _ _ _ _ _ (push_step m0 m r c _ length_typeObject ht hc0) hc1 hrun (by simpa [shape] using hsh)
      | pushA =>
        simp only [Op.apply, Machine.pushArray] at hap
        split at hap <;> try (simp at hap; done)
        split at hap <;> try (simp at hap; done)
        split at hap <;> try (simp at hap; done)
        simp only [Except.ok.injEq] at hap
        subst hap
        exact ih _ _ _ _ _ _ (push_step m0 m r c _ length_typeArray ht hc0) hc1 hrun (by simpa [shape] using hsh)
      | popO =>
        simp only [shape] at hsh
        split at hsh
        · simp at hsh
        · rename_i hr
          simp only [Op.apply, Machine.popObject] at hap
          split at hap <;> try (simp at hap; done)
          split at hap <;> try (simp at hap; done)
          split at hap <;> try (simp at hap; done)
          split at hap
          · rename_i e hg
            simp only [Except.ok.injEq] at hap
            subst hap
            exact ih _ _ _ _ _ _ (pop_step m0 m r c e ht hr hg) (by omega) hrun hsh
          · simp at hap
      | popA =>
        simp only [shape] at hsh
        split at hsh
        · simp at hsh
        · rename_i hr
          simp only [Op.apply, Machine.popArray] at hap
          split at hap <;> try (simp at hap; done)
          split at hap <;> try (simp at hap; done)
          split at hap
          · rename_i e hg
            simp only [Except.ok.injEq] at hap
            subst hap
            exact ih _ _ _ _ _ _ (pop_step m0 m r c e ht hr hg) (by omega) hrun hsh
          · simp at hap

/-- What `Tracks` says about `DepthLength()`. -/
theorem tracks_depthLength (m0 m : Machine) (r c : Nat) (ht : Tracks m0 m r c) :
    m.depth = m0.depth + r ∧ (r = 0 → m.last.length = m0.last.length + c) := by
  obtain ⟨ext, hs, hl, hb⟩ := ht
  refine ⟨by simp [Machine.depth, hs, hl]; omega, ?_⟩
  intro hr
  subst hr
  have : ext = [] := by simpa using hl
  subst this
  simpa [baseLen] using hb

end JsonV.Lemmas.DispatchPolice
