/-
Lemmas for C17 (policing): what the DepthLength comparison around a MarshalJSONTo / UnmarshalJSONFrom /
MarshalToFunc / UnmarshalFromFunc call accepts, stated against the operations of `Model.State.Machine`.
-/
import JsonV.Model.Dispatch

namespace JsonV.Lemmas.DispatchPolice
open JsonV.Model JsonV.Model.Dispatch

/-! ### The comparison itself -/

theorem police_done_iff (prev cur : Nat × Nat) (ret : Ret) :
    police prev cur ret = .done ↔ ret = .nil ∧ cur.1 = prev.1 ∧ cur.2 = prev.2 + 1 := by
  cases ret <;> simp only [police]
  · by_cases h1 : prev.1 = cur.1 <;> by_cases h2 : prev.2 + 1 = cur.2 <;> simp [h1, h2] <;> omega
  · split <;> simp
  · simp

theorem police_skip_iff (prev cur : Nat × Nat) (ret : Ret) :
    police prev cur ret = .skip ↔ ret = .unsupported ∧ cur = prev := by
  cases ret <;> simp only [police]
  · split <;> simp
  · by_cases h1 : prev.1 = cur.1 <;> by_cases h2 : prev.2 = cur.2 <;> simp [h1, h2, Prod.ext_iff] <;> omega
  · simp

theorem runScript_nil (maxDepth : Nat) (m : Machine) : runScript maxDepth [] m = (m, none) := rfl

/-- A script that reports an error is rejected whatever it returned and whatever it wrote. -/
theorem userCall_error (maxDepth : Nat) (m : Machine) (script : List Op) (ret : Ret)
    (h : (runPoliced maxDepth m.stack.length script m).2.isSome = true) : userCall maxDepth m script ret = .fail := by
  simp [userCall, userCallWithFloor, h, police]

/-! ### Shape of a script: relative depth and number of values started at the starting level -/

/-- Effect of one call on (nesting depth relative to the start, number of values begun at the starting level);
`none` when the call would close a container the script did not open. -/
def shapeStep : Op → Nat → Nat → Option (Nat × Nat)
  | .lit, r, c => some (r, if r = 0 then c + 1 else c)
  | .str, r, c => some (r, if r = 0 then c + 1 else c)
  | .val, r, c => some (r, if r = 0 then c + 1 else c)
  | .pushO, r, c => some (r + 1, if r = 0 then c + 1 else c)
  | .pushA, r, c => some (r + 1, if r = 0 then c + 1 else c)
  | .popO, r, c => if r = 0 then none else some (r - 1, c)
  | .popA, r, c => if r = 0 then none else some (r - 1, c)

/-- Walk a script keeping the nesting depth relative to the start (`r`) and the number of values begun at the
starting level (`c`); `none` as soon as the script closes a container it did not open.
`shape script 0 0 = some (0, 1)` says: the script is exactly one complete value at the starting level. -/
def shape : List Op → Nat → Nat → Option (Nat × Nat)
  | [], r, c => some (r, c)
  | op :: rest, r, c =>
    match shapeStep op r c with
    | none => none
    | some (r1, c1) => shape rest r1 c1

/-! ### stateEntry arithmetic -/

theorem length_eq_mod (e : Entry) : e.length = e.toNat % 2 ^ 61 := by
  unfold Entry.length Entry.countMask
  rw [BitVec.toNat_and]
  have : (0x1fffffffffffffff#64).toNat = 2 ^ 61 - 1 := by decide
  rw [this, Nat.and_two_pow_sub_one_eq_mod]

theorem length_increment (e : Entry) (h : e.length < 2 ^ 61 - 1) : e.increment.length = e.length + 1 := by
  rw [length_eq_mod] at h ⊢
  rw [length_eq_mod]
  unfold Entry.increment
  rw [BitVec.toNat_add]
  have h1 : (1#64).toNat = 1 := by decide
  have h2 := e.isLt
  rw [h1]
  omega

theorem length_typeObject : Entry.typeObject.length = 0 := by decide
theorem length_typeArray : Entry.typeArray.length = 0 := by decide

/-! ### The machine follows the shape -/

/-- Length of the entry of the starting level: the current entry when we are at the starting level,
otherwise the first entry pushed above the original stack. -/
def baseLen (ext : List Entry) (last : Entry) : Nat :=
  match ext with
  | [] => last.length
  | e :: _ => e.length

/-- The state after a successfully executed prefix: original stack untouched, `r` entries above it,
starting-level entry incremented `c` times. -/
def Tracks (m0 m : Machine) (r c : Nat) : Prop :=
  ∃ ext : List Entry, m.stack = m0.stack ++ ext ∧ ext.length = r ∧ baseLen ext m.last = m0.last.length + c

theorem tracks_init (m0 : Machine) : Tracks m0 m0 0 0 := ⟨[], by simp, rfl, by simp [baseLen]⟩

private theorem scalar_step (m0 m : Machine) (r c : Nat) (e' : Entry) (ht : Tracks m0 m r c)
    (he : e' = m.last.increment) (hov : m0.last.length + c < 2 ^ 61 - 1) :
    Tracks m0 { m with last := e' } r (if r = 0 then c + 1 else c) := by
  obtain ⟨ext, hs, hl, hb⟩ := ht
  refine ⟨ext, hs, hl, ?_⟩
  cases ext with
  | nil =>
    simp only [List.length_nil] at hl
    subst hl
    simp only [baseLen] at hb ⊢
    simp only [↓reduceIte, he]
    rw [length_increment _ (by omega)]
    omega
  | cons x xs =>
    simp only [List.length_cons] at hl
    have : r ≠ 0 := by omega
    simp only [baseLen, this, ↓reduceIte] at hb ⊢
    exact hb

private theorem push_step (m0 m : Machine) (r c : Nat) (fresh : Entry) (_hf : fresh.length = 0) (ht : Tracks m0 m r c)
    (hov : m0.last.length + c < 2 ^ 61 - 1) :
    Tracks m0 { stack := m.stack ++ [m.last.increment], last := fresh } (r + 1) (if r = 0 then c + 1 else c) := by
  obtain ⟨ext, hs, hl, hb⟩ := ht
  refine ⟨ext ++ [m.last.increment], by simp [hs], by simp [hl], ?_⟩
  cases ext with
  | nil =>
    simp only [List.length_nil] at hl
    subst hl
    simp only [baseLen] at hb
    simp only [List.nil_append, baseLen, ↓reduceIte]
    rw [length_increment _ (by omega)]
    omega
  | cons x xs =>
    simp only [List.length_cons] at hl
    have : r ≠ 0 := by omega
    simp only [baseLen, this, ↓reduceIte, List.cons_append] at hb ⊢
    exact hb

private theorem pop_step (m0 m : Machine) (r c : Nat) (e : Entry) (ht : Tracks m0 m r c) (hr : r ≠ 0)
    (hg : m.stack.getLast? = some e) :
    Tracks m0 { stack := m.stack.dropLast, last := e } (r - 1) c := by
  obtain ⟨ext, hs, hl, hb⟩ := ht
  have hne : ext ≠ [] := by intro h; subst h; simp at hl; omega
  have hlast : ext.getLast? = some e := by
    rw [hs, List.getLast?_append] at hg
    cases hx : ext.getLast? with
    | none => simp [List.getLast?_eq_none_iff] at hx; exact absurd hx hne
    | some y => simpa [hx] using hg
  refine ⟨ext.dropLast, ?_, by simp [hl], ?_⟩
  · simp only
    rw [hs, List.dropLast_append_of_ne_nil hne]
  · cases ext with
    | nil => exact absurd rfl hne
    | cons x xs =>
      cases xs with
      | nil =>
        simp only [List.getLast?_singleton, Option.some.injEq] at hlast
        subst hlast
        simpa [baseLen] using hb
      | cons y ys =>
        simpa [baseLen, List.dropLast] using hb

/-- One accepted call keeps the invariant, provided a closing call happens strictly above the starting level. -/
theorem apply_tracks (maxDepth : Nat) (m0 m m1 : Machine) (op : Op) (r c : Nat) (ht : Tracks m0 m r c)
    (hap : op.apply maxDepth m = .ok m1) (hpop : op.isPop = true → r ≠ 0)
    (hov : m0.last.length + c < 2 ^ 61 - 1) :
    ∃ r1 c1, shapeStep op r c = some (r1, c1) ∧ Tracks m0 m1 r1 c1 ∧ c1 ≤ c + 1 := by
  cases op with
  | lit =>
    simp only [Op.apply, Machine.appendLiteral] at hap
    split at hap <;> try (simp at hap; done)
    split at hap <;> try (simp at hap; done)
    simp only [Except.ok.injEq] at hap
    subst hap
    exact ⟨_, _, rfl, scalar_step m0 m r c _ ht rfl hov, by split <;> omega⟩
  | val =>
    simp only [Op.apply, Machine.appendLiteral] at hap
    split at hap <;> try (simp at hap; done)
    split at hap <;> try (simp at hap; done)
    simp only [Except.ok.injEq] at hap
    subst hap
    exact ⟨_, _, rfl, scalar_step m0 m r c _ ht rfl hov, by split <;> omega⟩
  | str =>
    simp only [Op.apply, Machine.appendString] at hap
    split at hap <;> try (simp at hap; done)
    simp only [Except.ok.injEq] at hap
    subst hap
    exact ⟨_, _, rfl, scalar_step m0 m r c _ ht rfl hov, by split <;> omega⟩
  | pushO =>
    simp only [Op.apply, Machine.pushObject] at hap
    split at hap <;> try (simp at hap; done)
    split at hap <;> try (simp at hap; done)
    split at hap <;> try (simp at hap; done)
    simp only [Except.ok.injEq] at hap
    subst hap
    exact ⟨_, _, rfl, push_step m0 m r c _ length_typeObject ht hov, by split <;> omega⟩
  | pushA =>
    simp only [Op.apply, Machine.pushArray] at hap
    split at hap <;> try (simp at hap; done)
    split at hap <;> try (simp at hap; done)
    split at hap <;> try (simp at hap; done)
    simp only [Except.ok.injEq] at hap
    subst hap
    exact ⟨_, _, rfl, push_step m0 m r c _ length_typeArray ht hov, by split <;> omega⟩
  | popO =>
    have hr : r ≠ 0 := hpop rfl
    simp only [Op.apply, Machine.popObject] at hap
    split at hap <;> try (simp at hap; done)
    split at hap <;> try (simp at hap; done)
    split at hap <;> try (simp at hap; done)
    split at hap
    · rename_i e hg
      simp only [Except.ok.injEq] at hap
      subst hap
      exact ⟨r - 1, c, by simp [shapeStep, hr], pop_step m0 m r c e ht hr hg, by omega⟩
    · simp at hap
  | popA =>
    have hr : r ≠ 0 := hpop rfl
    simp only [Op.apply, Machine.popArray] at hap
    split at hap <;> try (simp at hap; done)
    split at hap <;> try (simp at hap; done)
    split at hap
    · rename_i e hg
      simp only [Except.ok.injEq] at hap
      subst hap
      exact ⟨r - 1, c, by simp [shapeStep, hr], pop_step m0 m r c e ht hr hg, by omega⟩
    · simp at hap

/-- Main invariant, floor-free form: a script that the machine accepts and that never closes a container it did
not open leaves the original stack in place, is `r` levels deep, and has begun exactly `c` values at the starting level. -/
theorem runScript_tracks (maxDepth : Nat) (m0 : Machine) (script : List Op) :
    ∀ (m m' : Machine) (r c r' c' : Nat), Tracks m0 m r c →
      m0.last.length + c + script.length < 2 ^ 61 →
      runScript maxDepth script m = (m', none) → shape script r c = some (r', c') → Tracks m0 m' r' c' := by
  induction script with
  | nil =>
    intro m m' r c r' c' ht _ hrun hsh
    simp only [runScript, Prod.mk.injEq, and_true] at hrun
    simp only [shape, Option.some.injEq, Prod.mk.injEq] at hsh
    obtain ⟨rfl, rfl⟩ := hsh
    subst hrun
    exact ht
  | cons op rest ih =>
    intro m m' r c r' c' ht hov hrun hsh
    simp only [List.length_cons] at hov
    unfold runScript at hrun
    cases hap : op.apply maxDepth m with
    | error e => simp [hap] at hrun
    | ok m1 =>
      simp only [hap] at hrun
      have hpop : op.isPop = true → r ≠ 0 := by
        intro hp hr
        subst hr
        cases op <;> simp [Op.isPop] at hp <;> simp [shape, shapeStep] at hsh
      obtain ⟨r1, c1, hs1, ht1, hc1⟩ := apply_tracks maxDepth m0 m m1 op r c ht hap hpop (by omega)
      simp only [shape, hs1] at hsh
      exact ih _ _ _ _ _ _ ht1 (by omega) hrun hsh

/-! ### Under the floor -/

/-- An accepted policed call is the plain machine call, and a closing call happened strictly above the floor. -/
theorem policedStep_ok (maxDepth floor : Nat) (m m1 : Machine) (op : Op) (h : policedStep maxDepth floor m op = .ok m1) :
    op.apply maxDepth m = .ok m1 ∧ (op.isPop = true → floor < m.stack.length) := by
  cases op with
  | popO =>
    simp only [policedStep] at h
    split at h <;> try (simp at h; done)
    split at h <;> try (simp at h; done)
    rename_i h1 h2
    refine ⟨?_, fun _ => by omega⟩
    simp only [Op.apply]
    cases hp : m.popObject with
    | ok x => simp [liftSM, hp] at h; simp [h]
    | error e => simp [liftSM, hp] at h
  | popA =>
    simp only [policedStep] at h
    split at h <;> try (simp at h; done)
    split at h <;> try (simp at h; done)
    rename_i h1 h2
    refine ⟨?_, fun _ => by omega⟩
    simp only [Op.apply]
    cases hp : m.popArray with
    | ok x => simp [liftSM, hp] at h; simp [h]
    | error e => simp [liftSM, hp] at h
  | lit | str | val | pushO | pushA =>
    simp only [policedStep] at h
    refine ⟨?_, fun hp => by simp [Op.isPop] at hp⟩
    first
      | (cases hp : Op.apply maxDepth m Op.lit with
         | ok x => simp [liftSM, hp] at h; simp [h]
         | error e => simp [liftSM, hp] at h)
      | (cases hp : Op.apply maxDepth m Op.str with
         | ok x => simp [liftSM, hp] at h; simp [h]
         | error e => simp [liftSM, hp] at h)
      | (cases hp : Op.apply maxDepth m Op.val with
         | ok x => simp [liftSM, hp] at h; simp [h]
         | error e => simp [liftSM, hp] at h)
      | (cases hp : Op.apply maxDepth m Op.pushO with
         | ok x => simp [liftSM, hp] at h; simp [h]
         | error e => simp [liftSM, hp] at h)
      | (cases hp : Op.apply maxDepth m Op.pushA with
         | ok x => simp [liftSM, hp] at h; simp [h]
         | error e => simp [liftSM, hp] at h)

theorem tracks_stack_length (m0 m : Machine) (r c : Nat) (ht : Tracks m0 m r c) :
    m.stack.length = m0.stack.length + r := by
  obtain ⟨ext, hs, hl, _⟩ := ht
  simp [hs, hl]

/-- Main invariant under the floor of the starting level: EVERY script that the policed coder accepts has a shape
(it cannot have closed a container it did not open) and the machine follows it. -/
theorem runPoliced_tracks (maxDepth : Nat) (m0 : Machine) (script : List Op) :
    ∀ (m m' : Machine) (r c : Nat), Tracks m0 m r c →
      m0.last.length + c + script.length < 2 ^ 61 →
      runPoliced maxDepth m0.stack.length script m = (m', none) →
      ∃ r' c', shape script r c = some (r', c') ∧ Tracks m0 m' r' c' := by
  induction script with
  | nil =>
    intro m m' r c ht _ hrun
    simp only [runPoliced, Prod.mk.injEq, and_true] at hrun
    subst hrun
    exact ⟨r, c, rfl, ht⟩
  | cons op rest ih =>
    intro m m' r c ht hov hrun
    simp only [List.length_cons] at hov
    unfold runPoliced at hrun
    cases hst : policedStep maxDepth m0.stack.length m op with
    | error e => simp [hst] at hrun
    | ok m1 =>
      simp only [hst] at hrun
      obtain ⟨hap, hfl⟩ := policedStep_ok _ _ _ _ _ hst
      have hlen := tracks_stack_length m0 m r c ht
      have hpop : op.isPop = true → r ≠ 0 := fun hp => by have := hfl hp; omega
      obtain ⟨r1, c1, hs1, ht1, hc1⟩ := apply_tracks maxDepth m0 m m1 op r c ht hap hpop (by omega)
      obtain ⟨r', c', hsh, ht'⟩ := ih _ _ _ _ ht1 (by omega) hrun
      exact ⟨r', c', by simp [shape, hs1, hsh], ht'⟩

/-- `no_pop_below_floor`: whatever the script, and whether or not it ends with an error, a machine that starts with at
least `floor` open containers never has fewer. -/
theorem no_pop_below_floor (maxDepth floor : Nat) (script : List Op) :
    ∀ (m : Machine), floor ≤ m.stack.length → floor ≤ (runPoliced maxDepth floor script m).1.stack.length := by
  induction script with
  | nil => intro m h; exact h
  | cons op rest ih =>
    intro m h
    unfold runPoliced
    cases hst : policedStep maxDepth floor m op with
    | error e => exact h
    | ok m1 =>
      simp only
      apply ih
      obtain ⟨hap, hfl⟩ := policedStep_ok _ _ _ _ _ hst
      cases op with
      | lit =>
        simp only [Op.apply, Machine.appendLiteral] at hap
        split at hap <;> try (simp at hap; done)
        split at hap <;> try (simp at hap; done)
        simp only [Except.ok.injEq] at hap
        subst hap; exact h
      | val =>
        simp only [Op.apply, Machine.appendLiteral] at hap
        split at hap <;> try (simp at hap; done)
        split at hap <;> try (simp at hap; done)
        simp only [Except.ok.injEq] at hap
        subst hap; exact h
      | str =>
        simp only [Op.apply, Machine.appendString] at hap
        split at hap <;> try (simp at hap; done)
        simp only [Except.ok.injEq] at hap
        subst hap; exact h
      | pushO =>
        simp only [Op.apply, Machine.pushObject] at hap
        split at hap <;> try (simp at hap; done)
        split at hap <;> try (simp at hap; done)
        split at hap <;> try (simp at hap; done)
        simp only [Except.ok.injEq] at hap
        subst hap; simp; omega
      | pushA =>
        simp only [Op.apply, Machine.pushArray] at hap
        split at hap <;> try (simp at hap; done)
        split at hap <;> try (simp at hap; done)
        split at hap <;> try (simp at hap; done)
        simp only [Except.ok.injEq] at hap
        subst hap; simp; omega
      | popO =>
        have := hfl rfl
        simp only [Op.apply, Machine.popObject] at hap
        split at hap <;> try (simp at hap; done)
        split at hap <;> try (simp at hap; done)
        split at hap <;> try (simp at hap; done)
        split at hap
        · simp only [Except.ok.injEq] at hap
          subst hap; simp; omega
        · simp at hap
      | popA =>
        have := hfl rfl
        simp only [Op.apply, Machine.popArray] at hap
        split at hap <;> try (simp at hap; done)
        split at hap <;> try (simp at hap; done)
        split at hap
        · simp only [Except.ok.injEq] at hap
          subst hap; simp; omega
        · simp at hap

/-- What `Tracks` says about `DepthLength()`. -/
theorem tracks_depthLength (m0 m : Machine) (r c : Nat) (ht : Tracks m0 m r c) :
    m.depth = m0.depth + r ∧ (r = 0 → m.last.length = m0.last.length + c) := by
  obtain ⟨ext, hs, hl, hb⟩ := ht
  refine ⟨by simp [Machine.depth, hs, hl]; omega, ?_⟩
  intro hr
  subst hr
  have : ext = [] := by simpa using hl
  subst this
  simpa [baseLen] using hb

end JsonV.Lemmas.DispatchPolice
